#!/venv/bin/python
"""Confirm one seeded mutation and run the property's check against it, in scratch copies.
usage: run_seed.py <seeded/dir> [quick|thorough]   -> writes <dir>/meta.json"""
import json
import os
import re
import shutil
import subprocess
import sys
import time

VERIF = os.path.dirname(os.path.dirname(os.path.abspath(__file__)))


def sh(cmd, cwd=None, env=None, timeout=3000):
    p = subprocess.run(cmd, shell=True, cwd=cwd, env=env, stdout=subprocess.PIPE, stderr=subprocess.STDOUT, text=True, timeout=timeout)
    return p.returncode, p.stdout


def main():
    d = os.path.abspath(sys.argv[1])
    tier = sys.argv[2] if len(sys.argv) > 2 else "quick"
    name = os.path.basename(d)
    prop = name.split("-")[0]
    agent = json.load(open(os.path.join(d, "agent.json"))) if os.path.exists(os.path.join(d, "agent.json")) else {}
    wt = f"/tmp/wt/seed-{name}"
    vs = f"/tmp/vs-{name}"
    meta = dict(seed=name, property=prop, summary=agent.get("summary"), needs=agent.get("needs"), base_repo_commit=None, ran=[])
    sh(f"git -C /repo worktree remove --force {wt}")
    shutil.rmtree(wt, ignore_errors=True)
    rc, out = sh(f"git -C /repo worktree add --detach {wt} HEAD")
    rc, head = sh("git -C /repo rev-parse --short HEAD")
    meta["base_repo_commit"] = head.strip()
    try:
        if os.path.exists(f"{d}/patch.ported.diff"):
            rc, out = sh(f"git apply {d}/patch.ported.diff", cwd=wt)
            meta["applied"] = "patch.ported.diff (hand-ported to the repaired tree)"
        else:
            rc, out = sh(f"git apply --3way {d}/patch.diff", cwd=wt)
            meta["applied"] = "patch.diff (3-way)"
        if rc != 0:
            meta["applies"] = False
            meta["apply_output"] = out[-600:]
            return meta
        sh("git reset -q", cwd=wt)
        meta["applies"] = True
        env = dict(os.environ, PYTHONPATH="/repo")
        rc, out = sh(f"timeout 300 /venv/bin/python -W ignore {d}/demo.py", cwd="/tmp", env=env)
        meta["demo_unmodified_exit"] = rc
        env = dict(os.environ, PYTHONPATH=wt)
        rc, out = sh(f"timeout 300 /venv/bin/python -W ignore {d}/demo.py", cwd="/tmp", env=env)
        meta["demo_mutated_exit"] = rc
        meta["demo_mutated_tail"] = out[-300:]
        rc, out = sh("timeout 1500 /venv/bin/python -m pytest -q -p no:cacheprovider --timeout=900 -n 4 tests 2>&1 | tail -15", cwd=wt, env=env)
        failed = sorted(set(re.findall(r"FAILED (\S+)", out)))
        nonopener = [f for f in failed if "test_PyFatFSOpener" not in f]
        rc2, out2 = sh("timeout 600 /venv/bin/python -m pytest -q -p no:cacheprovider tests/test_PyFatFSOpener.py 2>&1 | tail -5", cwd=wt, env=env)
        failed2 = sorted(set(re.findall(r"FAILED (\S+)", out2)))
        meta["test_suite"] = dict(parallel_failed=failed, opener_serial_failed=failed2,
                                  passes=(not nonopener and failed2 == ["tests/test_PyFatFSOpener.py::test_fsopener_protocol"]), summary=out.strip().splitlines()[-1] if out.strip() else "")
        # the check, from a private copy of /verif
        shutil.rmtree(vs, ignore_errors=True)
        sh(f"rsync -a --exclude .git --exclude replays --exclude evidence --exclude build {VERIF}/ {vs}/")
        env = dict(os.environ, VERIF_REPO=wt, VERIF_SCRATCH=f"{vs}/build/scratch")
        props = [prop] + [p for p in sys.argv[3:]]
        for pid in props:
            t0 = time.time()
            rc, out = sh(f"timeout 3000 ./check {pid} {tier}", cwd=vs, env=env)
            vio = [ln for ln in out.splitlines() if ln.startswith("VIOLATION")]
            rec = dict(check=pid, tier=tier, exit=rc, violation_line=vio[0] if vio else None, wall_s=round(time.time() - t0, 1), tail=out.strip().splitlines()[-1][:300] if out.strip() else "")
            if vio:
                m = re.search(r"replay=(\S+)", vio[0])
                if m and os.path.exists(os.path.join(vs, m.group(1))):
                    body = json.load(open(os.path.join(vs, m.group(1))))
                    rec["what"] = body.get("what") or str(body.get("broken"))[:600]
                    rec["verdict"] = body.get("verdict")
                    os.makedirs(os.path.join(d, "replay"), exist_ok=True)
                    shutil.copy(os.path.join(vs, m.group(1)), os.path.join(d, "replay", f"{pid}.json"))
            meta["ran"].append(rec)
        meta["caught"] = any(r["exit"] == 1 and r["violation_line"] for r in meta["ran"])
        return meta
    finally:
        sh(f"git -C /repo worktree remove --force {wt}")
        shutil.rmtree(wt, ignore_errors=True)
        shutil.rmtree(vs, ignore_errors=True)
        with open(os.path.join(d, "meta.json"), "w") as f:
            json.dump(meta, f, indent=1)
        print(name, "applies" if meta.get("applies") else "NOAPPLY", "demo", meta.get("demo_unmodified_exit"), meta.get("demo_mutated_exit"),
              "suite", meta.get("test_suite", {}).get("passes"), "caught", meta.get("caught"), [(r["check"], r["exit"], (r.get("what") or "")[:90]) for r in meta["ran"]])


main()
