#!/usr/bin/env python3
"""Fail-closed translator: pure integer code of /repo/pyfatfs/*.py  ->  Gallina over Z.

Usage: translate.py <repo> <out.v>
Writes <out.v> only when every requested item translates; otherwise exits 2 with a message
and leaves no output (dependent Coq files then do not build: the tie is broken, not assumed).
Only the node kinds handled below are accepted; everything else raises Unsupported.
"""
import ast
import hashlib
import os
import sys

COQ_RESERVED = {"at", "in", "end", "return", "type", "Type", "fun", "let", "if", "then", "else", "match",
                "with", "as", "forall", "exists", "Set", "Prop", "fix", "cofix", "struct", "where", "for",
                "using", "do", "time", "max", "min", "date"}


class Unsupported(Exception):
    pass


class Frac:
    """symbolic a / b (Python true division of ints) waiting for math.ceil / int"""
    def __init__(self, num, den):
        self.num, self.den = num, den


def nm(x):
    x = x.lstrip("_") if x.startswith("__") else x
    return x + "_" if x in COQ_RESERVED else x


ERRNO = {"ENOSPC": "ENOSPC", "E2BIG": "E2BIG", "EROFS": "EROFS", "EINVAL": "EINVAL", "ENOENT": "ENOENT",
         "EEXIST": "EEXIST", "ENAMETOOLONG": "ENAMETOOLONG", "ENOTDIR": "ENOTDIR", "EFBIG": "EPYFAT"}


class FnTr:
    """Translates one function body.  cfg:
       self_attrs : {attr: coq expr}  for self.attr reads
       store      : name of the pf-store variable for `self.attr = e` writes (or None)
       hdr        : name of the hdr variable for self.bpb_header["K"] (or None)
       consts     : {name: coq ident} for class constants reachable as self.X / Cls.X
       methods    : {name: coq expr} for self.m() calls without arguments
       res        : True when the function can raise (result type res T)
       locals_as_vars : names bound as function parameters
    """
    def __init__(self, cfg):
        self.cfg = cfg
        self.fr = {}       # local name -> Frac
        self.bools = set()
        self.bound = set()

    # ---------- expressions ----------
    def expr(self, n):
        c = self.cfg
        if isinstance(n, ast.Constant):
            if isinstance(n.value, bool):
                return "true" if n.value else "false"
            if isinstance(n.value, int):
                return f"({n.value})" if n.value < 0 else str(n.value)
            raise Unsupported(f"constant {n.value!r}")
        if isinstance(n, ast.Name):
            if n.id in self.fr:
                return self.fr[n.id]
            if n.id in c.get("consts", {}):
                return c["consts"][n.id]
            return nm(n.id)
        if isinstance(n, ast.Attribute):
            if isinstance(n.value, ast.Name) and n.value.id == "self":
                if n.attr in c.get("self_attrs", {}):
                    return c["self_attrs"][n.attr]
                if n.attr in c.get("consts", {}):
                    return c["consts"][n.attr]
            if isinstance(n.value, ast.Name) and n.value.id in c.get("classes", ()) and n.attr in c.get("consts", {}):
                return c["consts"][n.attr]
            if isinstance(n.value, ast.Attribute) and n.attr in c.get("consts", {}):
                return c["consts"][n.attr]      # e.g. FATDirectoryEntry.ATTR_LONG_NAME inside another class
            raise Unsupported(f"attribute {ast.dump(n)}")
        if isinstance(n, ast.Subscript):
            v = n.value
            if (isinstance(v, ast.Attribute) and v.attr == "bpb_header" and c.get("hdr")
                    and isinstance(n.slice, ast.Constant) and isinstance(n.slice.value, str)):
                return f"({n.slice.value} {c['hdr']})"
            if isinstance(n.slice, ast.Constant) and isinstance(n.slice.value, int):
                return f"(nthZ {self.expr(v)} {n.slice.value})"
            raise Unsupported(f"subscript {ast.dump(n)}")
        if isinstance(n, ast.BinOp):
            if isinstance(n.op, ast.Div):
                return Frac(self.ex(n.left), self.ex(n.right))
            ops = {ast.Add: "{} + {}", ast.Sub: "{} - {}", ast.Mult: "{} * {}", ast.FloorDiv: "{} / {}",
                   ast.Mod: "{} mod {}", ast.LShift: "Z.shiftl {} {}", ast.RShift: "Z.shiftr {} {}",
                   ast.BitAnd: "Z.land {} {}", ast.BitOr: "Z.lor {} {}", ast.BitXor: "Z.lxor {} {}"}
            if isinstance(n.op, ast.Pow) and isinstance(n.right, ast.Constant):
                return f"({self.ex(n.left)} ^ {n.right.value})"
            if type(n.op) not in ops:
                raise Unsupported(f"binop {type(n.op).__name__}")
            return "(" + ops[type(n.op)].format(self.ex(n.left), self.ex(n.right)) + ")"
        if isinstance(n, ast.UnaryOp):
            if isinstance(n.op, ast.Not):
                return f"(negb {self.bex(n.operand)})"
            if isinstance(n.op, ast.USub):
                return f"(- {self.ex(n.operand)})"
            if isinstance(n.op, ast.Invert):
                return f"(Z.lnot {self.ex(n.operand)})"
            raise Unsupported("unaryop")
        if isinstance(n, ast.BoolOp):
            op = " && " if isinstance(n.op, ast.And) else " || "
            return "(" + op.join(self.bex(v) for v in n.values) + ")"
        if isinstance(n, ast.Compare):
            parts = []
            left = n.left
            for op, right in zip(n.ops, n.comparators):
                parts.append(self.cmp(op, left, right))
                left = right
            return "(" + " && ".join(parts) + ")" if len(parts) > 1 else parts[0]
        if isinstance(n, ast.IfExp):
            return f"(if {self.bex(n.test)} then {self.ex(n.body)} else {self.ex(n.orelse)})"
        if isinstance(n, ast.List) or isinstance(n, ast.Tuple):
            return "[" + "; ".join(self.ex(e) for e in n.elts) + "]"
        if isinstance(n, ast.ListComp):
            return "[" + "; ".join(str(v) for v in self.fold_listcomp(n)) + "]"
        if isinstance(n, ast.Call):
            return self.call(n)
        raise Unsupported(f"expr {type(n).__name__}")

    def fold_listcomp(self, n):
        g = n.generators[0]
        if (len(n.generators) == 1 and not g.ifs and isinstance(g.iter, ast.Call)
                and isinstance(g.iter.func, ast.Name) and g.iter.func.id == "range"
                and all(isinstance(a, ast.Constant) for a in g.iter.args) and isinstance(g.target, ast.Name)):
            rng = range(*[a.value for a in g.iter.args])
            code = compile(ast.Expression(n.elt), "<lc>", "eval")
            # the element expression may only mention the loop variable and int literals
            for sub in ast.walk(n.elt):
                if isinstance(sub, ast.Name) and sub.id != g.target.id:
                    raise Unsupported("listcomp free var")
                if isinstance(sub, (ast.Call, ast.Attribute, ast.Subscript)):
                    raise Unsupported("listcomp element")
            return [eval(code, {"__builtins__": {}}, {g.target.id: i}) for i in rng]
        raise Unsupported("listcomp shape")

    def ex(self, n):
        r = self.expr(n)
        if isinstance(r, Frac):
            raise Unsupported("true division outside math.ceil/int")
        return r

    def bex(self, n):
        if isinstance(n, (ast.Compare, ast.BoolOp)) or (isinstance(n, ast.UnaryOp) and isinstance(n.op, ast.Not)) \
                or (isinstance(n, ast.Constant) and isinstance(n.value, bool)) \
                or (isinstance(n, ast.Name) and n.id in self.bools):
            return self.ex(n)
        raise Unsupported(f"non-boolean test {ast.dump(n)[:80]}")

    def cmp(self, op, l, r):
        if isinstance(op, (ast.In, ast.NotIn)):
            s = f"(in_list {self.ex(l)} {self.ex(r)})"
            return s if isinstance(op, ast.In) else f"(negb {s})"
        if isinstance(op, (ast.Is, ast.IsNot)) and isinstance(r, ast.Constant) and isinstance(r.value, bool):
            s = self.ex(l) if r.value else f"(negb {self.ex(l)})"
            return s if isinstance(op, ast.Is) else f"(negb {s})"
        m = {ast.Eq: "=?", ast.NotEq: None, ast.Lt: "<?", ast.LtE: "<=?", ast.Gt: ">?", ast.GtE: ">=?"}
        if type(op) not in m:
            raise Unsupported("cmp op")
        if isinstance(op, ast.NotEq):
            return f"(negb ({self.ex(l)} =? {self.ex(r)}))"
        return f"({self.ex(l)} {m[type(op)]} {self.ex(r)})"

    def call(self, n):
        f = n.func
        c = self.cfg
        if isinstance(f, ast.Attribute) and isinstance(f.value, ast.Name) and f.value.id == "math" and f.attr == "ceil":
            a = self.expr(n.args[0])
            if isinstance(a, Frac):
                return f"(ceil_div {a.num} {a.den})"
            return a           # ceil of an int
        if isinstance(f, ast.Name) and f.id == "int" and len(n.args) == 1:
            a = self.expr(n.args[0])
            if isinstance(a, Frac):
                return f"(Z.quot {a.num} {a.den})"
            return a
        if isinstance(f, ast.Name) and f.id in ("min", "max") and len(n.args) == 2:
            return f"(Z.{f.id} {self.ex(n.args[0])} {self.ex(n.args[1])})"
        if isinstance(f, ast.Name) and f.id == "len" and len(n.args) == 1:
            return f"(lenZ {self.ex(n.args[0])})"
        if isinstance(f, ast.Attribute) and isinstance(f.value, ast.Name) and f.value.id == "self" and not n.args:
            if f.attr in c.get("methods", {}):
                return c["methods"][f.attr]
            mangled = f.attr.lstrip("_")
            if mangled in c.get("methods", {}):
                return c["methods"][mangled]
        raise Unsupported(f"call {ast.dump(f)[:80]}")

    # ---------- statements ----------
    def is_droppable(self, s):
        if isinstance(s, ast.Expr) and isinstance(s.value, ast.Constant):
            return True   # docstring
        if isinstance(s, ast.Expr) and isinstance(s.value, ast.Call):
            f = s.value.func
            if isinstance(f, ast.Attribute) and isinstance(f.value, ast.Name) and f.value.id == "warnings" and f.attr == "warn":
                return True
        if isinstance(s, ast.Pass):
            return True
        if isinstance(s, ast.If) and all(self.is_droppable(x) for x in s.body) and all(self.is_droppable(x) for x in s.orelse):
            self.bex(s.test)    # still must be translatable
            return True
        return False

    @staticmethod
    def terminates(body):
        if not body:
            return False
        s = body[-1]
        if isinstance(s, (ast.Return, ast.Raise)):
            return True
        if isinstance(s, ast.If):
            return FnTr.terminates(s.body) and FnTr.terminates(s.orelse)
        if isinstance(s, ast.Try):
            return FnTr.terminates(s.body) and all(FnTr.terminates(h.body) for h in s.handlers)
        return False

    def assigned(self, body):
        out = []
        for s in body:
            if isinstance(s, ast.Assign):
                for t in s.targets:
                    if isinstance(t, ast.Name):
                        if t.id not in out:
                            out.append(t.id)
                    elif isinstance(t, ast.Attribute):
                        if self.cfg.get("store") and self.cfg["store"] not in out:
                            out.append(self.cfg["store"])
            elif isinstance(s, ast.AugAssign):
                if isinstance(s.target, ast.Name) and s.target.id not in out:
                    out.append(s.target.id)
            elif isinstance(s, ast.If):
                for v in self.assigned(s.body) + self.assigned(s.orelse):
                    if v not in out:
                        out.append(v)
            elif isinstance(s, ast.For):
                for v in self.assigned(s.body):
                    if v not in out:
                        out.append(v)
        return out

    def ret(self, e):
        return f"Ok {e}" if self.cfg.get("res") else e

    def stmts(self, body, final):
        """translate a statement list; `final` is the Coq text to use when control falls off the end"""
        if not body:
            return final
        s, rest = body[0], body[1:]
        if self.is_droppable(s):
            return self.stmts(rest, final)
        if isinstance(s, ast.Return):
            v = self.expr(s.value)
            if isinstance(v, Frac):
                raise Unsupported("return of fraction")
            return self.ret(v)
        if isinstance(s, ast.Raise):
            if not self.cfg.get("res"):
                raise Unsupported("raise in non-res function")
            e = "EPYFAT"
            if isinstance(s.exc, ast.Call):
                for kw in s.exc.keywords:
                    if kw.arg == "errno" and isinstance(kw.value, ast.Attribute):
                        e = ERRNO.get(kw.value.attr, "EPYFAT")
            return f"Err {e}"
        if isinstance(s, ast.Assign) and len(s.targets) == 1:
            t = s.targets[0]
            v = self.expr(s.value)
            if isinstance(t, ast.Name):
                if isinstance(v, Frac):
                    self.fr_bind(t.id, v)
                    return self.stmts(rest, final)
                self.fr.pop(t.id, None)
                if isinstance(s.value, (ast.Compare, ast.BoolOp)):
                    self.bools.add(t.id)
                self.bound.add(t.id)
                return f"let {nm(t.id)} := {v} in\n  {self.stmts(rest, final)}"
            if isinstance(t, ast.Attribute) and isinstance(t.value, ast.Name) and t.value.id == "self" and self.cfg.get("store"):
                if isinstance(v, Frac):
                    raise Unsupported("fraction stored")
                st = self.cfg["store"]
                return f"let {st} := set_{nm(t.attr)} {st} {v} in\n  {self.stmts(rest, final)}"
            raise Unsupported(f"assign target {ast.dump(t)[:60]}")
        if isinstance(s, ast.AugAssign) and isinstance(s.target, ast.Name):
            b = ast.BinOp(left=ast.Name(id=s.target.id, ctx=ast.Load()), op=s.op, right=s.value)
            return self.stmts([ast.Assign(targets=[s.target], value=b)] + rest, final)
        if isinstance(s, ast.If):
            bt, ot = self.terminates(s.body), self.terminates(s.orelse)
            t = self.bex(s.test)
            if bt and (ot or not s.orelse):
                els = self.stmts(s.orelse + rest, final)
                return f"if {t} then ({self.stmts(s.body, final)})\n  else ({els})"
            if ot and not bt:
                return f"if {t} then ({self.stmts(s.body + rest, final)})\n  else ({self.stmts(s.orelse, final)})"
            vs = self.assigned(s.body) + [v for v in self.assigned(s.orelse) if v not in self.assigned(s.body)]
            if not vs:
                # only raises / passes inside: a check
                if not self.cfg.get("res"):
                    raise Unsupported("effect-free if")
                chk = f"if {t} then ({self.stmts(s.body, 'Ok tt')}) else ({self.stmts(s.orelse, 'Ok tt')})"
                return f"do _ <- ({chk});\n  {self.stmts(rest, final)}"
            tup = "(" + ", ".join(nm(v) for v in vs) + ")" if len(vs) > 1 else nm(vs[0])
            pat = "'" + tup if len(vs) > 1 else tup
            pre = "".join(f"let {nm(v)} := 0 in " for v in vs if v not in self.bound and v != self.cfg.get("store"))
            for v in vs:
                self.bound.add(v)
            if self.cfg.get("res") and (self.has_raise(s.body) or self.has_raise(s.orelse)):
                b = self.stmts(s.body, f"Ok {tup}")
                o = self.stmts(s.orelse, f"Ok {tup}")
                return f"{pre}do {pat} <- (if {t} then ({b}) else ({o}));\n  {self.stmts(rest, final)}"
            b = self.stmts_plain(s.body, tup)
            o = self.stmts_plain(s.orelse, tup)
            return f"{pre}let {pat} := (if {t} then ({b}) else ({o})) in\n  {self.stmts(rest, final)}"
        if isinstance(s, ast.For):
            return self.for_(s, rest, final)
        if isinstance(s, ast.Try):
            return self.try_(s, rest, final)
        raise Unsupported(f"statement {type(s).__name__} at line {getattr(s, 'lineno', '?')}")

    def stmts_plain(self, body, final):
        save = self.cfg.get("res")
        self.cfg["res"] = False
        try:
            return self.stmts(body, final)
        finally:
            self.cfg["res"] = save

    def has_raise(self, body):
        return any(isinstance(x, ast.Raise) for s in body for x in ast.walk(s))

    def fr_bind(self, name, v):
        self.fr[name] = v

    def for_(self, s, rest, final):
        # pattern A: for c in <param>: <assignments>   -> fold_left
        if isinstance(s.target, ast.Name) and not s.orelse and all(isinstance(x, (ast.Assign, ast.AugAssign)) for x in s.body):
            it = self.ex(s.iter)
            vs = self.assigned(s.body)
            if len(vs) != 1:
                raise Unsupported("for: exactly one accumulator supported")
            acc = nm(vs[0])
            body = self.stmts_plain(s.body, acc)
            return (f"let {acc} := fold_left (fun {acc} {nm(s.target.id)} => {body}) {it} {acc} in\n  "
                    f"{self.stmts(rest, final)}")
        # pattern B: for a, b in TABLE[key]: if test(a): x = b; break
        if (isinstance(s.target, ast.Tuple) and len(s.target.elts) == 2 and len(s.body) == 1 and isinstance(s.body[0], ast.If)
                and isinstance(s.iter, ast.Subscript) and isinstance(s.iter.value, ast.Name)
                and s.iter.value.id in self.cfg.get("tables", {})):
            a, b = (e.id for e in s.target.elts)
            i = s.body[0]
            if (len(i.body) == 2 and isinstance(i.body[0], ast.Assign) and isinstance(i.body[1], ast.Break)
                    and isinstance(i.body[0].value, ast.Name) and i.body[0].value.id == b and not i.orelse
                    and isinstance(i.test, ast.Compare) and len(i.test.ops) == 1 and isinstance(i.test.ops[0], ast.LtE)
                    and isinstance(i.test.comparators[0], ast.Name) and i.test.comparators[0].id == a):
                x = i.body[0].targets[0].id
                n = self.ex(i.test.left)
                key = self.ex(s.iter.slice)
                tbl = self.cfg["tables"][s.iter.value.id]
                return f"let {nm(x)} := first_row {n} ({tbl} {key}) {nm(x)} in\n  {self.stmts(rest, final)}"
        raise Unsupported(f"for-loop shape at line {s.lineno}")

    def try_(self, s, rest, final):
        # try: return Ctor(a,b,c)  except ValueError: return Ctor(x,y,z)
        ctors = self.cfg.get("ctors", {})
        if (len(s.body) == 1 and isinstance(s.body[0], ast.Return) and isinstance(s.body[0].value, ast.Call)
                and len(s.handlers) == 1 and isinstance(s.handlers[0].type, ast.Name) and s.handlers[0].type.id == "ValueError"
                and len(s.handlers[0].body) == 1 and isinstance(s.handlers[0].body[0], ast.Return)
                and isinstance(s.handlers[0].body[0].value, ast.Call) and not s.orelse and not s.finalbody):
            c1, c2 = s.body[0].value, s.handlers[0].body[0].value
            n1 = c1.func.id if isinstance(c1.func, ast.Name) else None
            n2 = c2.func.id if isinstance(c2.func, ast.Name) else None
            if n1 == n2 and n1 in ctors and len(c1.args) == 3 and len(c2.args) == 3:
                a = [self.ex(x) for x in c1.args]
                d = [self.ex(x) for x in c2.args]
                return (f"if {ctors[n1]} {a[0]} {a[1]} {a[2]} then ({a[0]}, {a[1]}, {a[2]})\n"
                        f"  else ({d[0]}, {d[1]}, {d[2]})")
        raise Unsupported(f"try shape at line {s.lineno}")



# ------------------------------------------------------------------------------------------
def find_class(mod, name):
    for n in mod.body:
        if isinstance(n, ast.ClassDef) and n.name == name:
            return n
    raise Unsupported(f"class {name} not found")


def find_fn(cls, name):
    for n in cls.body:
        if isinstance(n, ast.FunctionDef) and n.name == name:
            return n
    raise Unsupported(f"function {name} not found")


def class_int_consts(cls, known=None):
    """class-level NAME = <int expr over earlier names>, NAME = {str: int} dicts"""
    env = dict(known or {})
    out = {}
    dicts = {}
    for n in cls.body:
        if isinstance(n, ast.Assign) and len(n.targets) == 1 and isinstance(n.targets[0], ast.Name):
            name = n.targets[0].id
            v = n.value
            try:
                if isinstance(v, ast.Dict) and all(isinstance(k, ast.Constant) and isinstance(k.value, str) for k in v.keys):
                    d = {}
                    for k, e in zip(v.keys, v.values):
                        d[k.value] = eval(compile(ast.Expression(e), "<c>", "eval"), {"__builtins__": {}}, dict(env))
                        if not isinstance(d[k.value], int):
                            raise TypeError
                    dicts[name] = d
                else:
                    for sub in ast.walk(v):
                        if isinstance(sub, (ast.Call, ast.Attribute, ast.Subscript, ast.Dict, ast.List, ast.JoinedStr)):
                            raise TypeError
                    val = eval(compile(ast.Expression(v), "<c>", "eval"), {"__builtins__": {}}, dict(env))
                    if isinstance(val, bool) or not isinstance(val, int):
                        raise TypeError
                    env[name] = val
                    out[name] = val
            except (TypeError, NameError, SyntaxError):
                continue
    return out, dicts


STRUCT_W = {"B": 1, "H": 2, "L": 4, "c": 1}


def struct_layout(fmt):
    """'<3s8sHB' -> list of (width, kind) ; kind 's' bytes / 'n' number / 'x' pad"""
    if not fmt.startswith("<"):
        raise Unsupported("struct format must be little-endian '<'")
    out, num = [], ""
    for ch in fmt[1:]:
        if ch.isdigit():
            num += ch
            continue
        k = int(num) if num else 1
        num = ""
        if ch == "s":
            out.append((k, "s"))
        elif ch == "x":
            out.append((k, "x"))
        elif ch in STRUCT_W:
            out.extend([(STRUCT_W[ch], "n")] * k)
        else:
            raise Unsupported(f"struct code {ch}")
    return out


def class_str_const(cls, name, env=None):
    for n in cls.body:
        if isinstance(n, ast.Assign) and isinstance(n.targets[0], ast.Name) and n.targets[0].id == name:
            v = n.value
            if isinstance(v, ast.Constant) and isinstance(v.value, str):
                return v.value
            if isinstance(v, ast.BinOp) and isinstance(v.op, ast.Add) and isinstance(v.right, ast.Constant):
                l = v.left
                if isinstance(l, ast.Attribute) and env and l.attr in env:
                    return env[l.attr] + v.right.value
    raise Unsupported(f"string constant {name}")


def coq_list(xs):
    return "[" + "; ".join(str(x) for x in xs) + "]"


def layout_def(name, fmt):
    lay = struct_layout(fmt)
    return (f"Definition {name} : list (Z * Z) := " +
            "[" + "; ".join(f"({w}, {dict(s=1, n=0, x=2)[k]})" for w, k in lay) + "].\n" +
            f"Definition {name}_size : Z := {sum(w for w, _ in lay)}.\n")


def translate(repo):
    src = {}
    for f in ("DosDateTime", "EightDotThree", "FATDirectoryEntry", "PyFat", "BootSectorHeader", "FSInfo", "FatIO"):
        p = os.path.join(repo, "pyfatfs", f + ".py")
        src[f] = ast.parse(open(p).read(), p)
    sha = hashlib.sha256("".join(open(os.path.join(repo, "pyfatfs", f + ".py")).read() for f in sorted(src)).encode()).hexdigest()[:16]
    out = [f"(* GENERATED by tools/translate.py from /repo/pyfatfs — do not edit.  source digest {sha} *)\n"
           "From Coq Require Import ZArith List Bool.\nFrom PyFatV Require Import Base.Bytes Base.PyEnv.\n"
           "Import ListNotations.\nOpen Scope Z_scope.\nModule Gen.\n"]

    # ---- DosDateTime
    dd = find_class(src["DosDateTime"], "DosDateTime")
    attrs = {k: k if k not in COQ_RESERVED else k + "_" for k in ("year", "month", "day", "hour", "minute", "second")}
    for fn, params in (("serialize_date", "year month day"), ("serialize_time", "hour minute second")):
        t = FnTr({"self_attrs": attrs})
        body = t.stmts(find_fn(dd, fn).body, "0")
        out.append(f"Definition {fn} ({params} : Z) : Z :=\n  {body}.\n")
    for fn, ctor in (("deserialize_date", "DosDateTime"), ("deserialize_time", "time")):
        f = find_fn(dd, fn)
        arg = f.args.args[0].arg
        t = FnTr({"ctors": {"DosDateTime": "valid_date", "time": "valid_time"}})
        body = t.stmts(f.body, "(0,0,0)")
        out.append(f"Definition {fn} ({nm(arg)} : Z) : Z * Z * Z :=\n  {body}.\n")

    # ---- EightDotThree
    e83 = find_class(src["EightDotThree"], "EightDotThree")
    t = FnTr({"self_attrs": {"name": "name"}})
    out.append(f"Definition checksum (name : list Z) : Z :=\n  {t.stmts(find_fn(e83, 'checksum').body, '0')}.\n")
    c83, _ = class_int_consts(e83)
    out.append(f"Definition SFN_LENGTH : Z := {c83['SFN_LENGTH']}.\n")
    inv = None
    for n in e83.body:
        if isinstance(n, ast.Assign) and n.targets[0].id == "INVALID_CHARACTERS":
            # [range(0,0x20)] + [ints]: the range OBJECT is a list element, so `ord(c) in L` only matches the ints
            inv = [e.value for sub in ast.walk(n.value) if isinstance(sub, ast.List) for e in sub.elts
                   if isinstance(e, ast.Constant) and isinstance(e.value, int)]
    if inv is None:
        raise Unsupported("INVALID_CHARACTERS")
    out.append(f"Definition INVALID_CHARACTERS : list Z := {coq_list(inv)}.\n")

    # ---- FATDirectoryEntry
    fde = find_class(src["FATDirectoryEntry"], "FATDirectoryEntry")
    cde, _ = class_int_consts(fde)
    for k in ("FREE_DIR_ENTRY_MARK", "LAST_DIR_ENTRY_MARK", "ATTR_READ_ONLY", "ATTR_HIDDEN", "ATTR_SYSTEM", "ATTR_VOLUME_ID",
              "ATTR_DIRECTORY", "ATTR_ARCHIVE", "ATTR_LONG_NAME", "ATTR_LONG_NAME_MASK", "MAX_FILE_SIZE"):
        out.append(f"Definition {k} : Z := {cde[k]}.\n")
    out.append(layout_def("FAT_DIRECTORY_LAYOUT", class_str_const(fde, "FAT_DIRECTORY_LAYOUT")))
    t = FnTr({"self_attrs": {"fstcluslo": "fstcluslo", "fstclushi": "fstclushi"}})
    out.append(f"Definition get_cluster (fstcluslo fstclushi : Z) : Z :=\n  {t.stmts(find_fn(fde, 'get_cluster').body, '0')}.\n")
    sc = find_fn(fde, "set_cluster")
    vals = {}
    for s in sc.body:
        if isinstance(s, ast.Assign) and isinstance(s.targets[0], ast.Attribute):
            vals[s.targets[0].attr] = FnTr({}).ex(s.value)
    if set(vals) != {"fstcluslo", "fstclushi"}:
        raise Unsupported("set_cluster shape")
    out.append(f"Definition set_cluster (first_cluster : Z) : Z * Z :=\n  ({vals['fstcluslo']}, {vals['fstclushi']}).\n")
    lde = find_class(src["FATDirectoryEntry"], "FATLongDirectoryEntry")
    cl, _ = class_int_consts(lde)
    out.append(f"Definition LAST_LONG_ENTRY : Z := {cl['LAST_LONG_ENTRY']}.\nDefinition LFN_ENTRY_LENGTH : Z := {cl['LFN_ENTRY_LENGTH']}.\n")
    out.append(layout_def("FAT_LONG_DIRECTORY_LAYOUT", class_str_const(lde, "FAT_LONG_DIRECTORY_LAYOUT")))
    t = FnTr({"consts": {k: k for k in cde}, "classes": ("FATDirectoryEntry",)})
    out.append(f"Definition is_lfn_entry (LDIR_Ord LDIR_Attr : Z) : bool :=\n  {t.stmts(find_fn(lde, 'is_lfn_entry').body, 'false')}.\n")

    # ---- BootSectorHeader / FSInfo layouts
    bsh = src["BootSectorHeader"]
    base = class_str_const(find_class(bsh, "BootSectorHeader"), "HEADER_LAYOUT")
    out.append(layout_def("BPB_LAYOUT", base))
    out.append(layout_def("BPB12_LAYOUT", class_str_const(find_class(bsh, "FAT12BootSectorHeader"), "HEADER_LAYOUT", {"HEADER_LAYOUT": base})))
    out.append(layout_def("BPB32_LAYOUT", class_str_const(find_class(bsh, "FAT32BootSectorHeader"), "HEADER_LAYOUT", {"HEADER_LAYOUT": base})))
    fsi = find_class(src["FSInfo"], "FSInfo")
    cf, _ = class_int_consts(fsi)
    for k in ("LEAD_SIG_MAGIC", "STRUCT_SIG_MAGIC", "TRAIL_SIG_MAGIC"):
        out.append(f"Definition {k} : Z := {cf[k]}.\n")
    out.append(layout_def("FSINFO_LAYOUT", class_str_const(fsi, "HEADER_LAYOUT")))

    # ---- PyFat constants
    pfc = find_class(src["PyFat"], "PyFat")
    cp, dicts = class_int_consts(pfc)
    for k in ("FAT_TYPE_UNKNOWN", "FAT_TYPE_FAT12", "FAT_TYPE_FAT16", "FAT_TYPE_FAT32", "FAT12_SPECIAL_EOC",
              "FAT16_CLEAN_SHUTDOWN_BIT_MASK", "FAT16_DRIVE_ERROR_BIT_MASK", "FAT32_CLEAN_SHUTDOWN_BIT_MASK",
              "FAT32_DRIVE_ERROR_BIT_MASK", "FAT_DIRTY_BIT_MASK"):
        out.append(f"Definition {k} : Z := {cp[k]}.\n")
    keys = ("FREE_CLUSTER", "MIN_DATA_CLUSTER", "MAX_DATA_CLUSTER", "BAD_CLUSTER", "END_OF_CLUSTER_MIN", "END_OF_CLUSTER_MAX")
    for key in keys:
        rows = []
        for ft in (12, 16, 32):
            d = dicts[f"FAT{ft}_CLUSTER_VALUES"]
            rows.append(f"if ft =? {ft} then {d[key]}")
        out.append(f"Definition {key} (ft : Z) : Z := {' else '.join(rows)} else 0.\n")
    # FAT_CLUSTER_VALUES must map type -> the dict of the same width
    for n in pfc.body:
        if isinstance(n, ast.Assign) and n.targets[0].id == "FAT_CLUSTER_VALUES":
            got = {k.id: v.id for k, v in zip(n.value.keys, n.value.values)}
            if got != {"FAT_TYPE_FAT12": "FAT12_CLUSTER_VALUES", "FAT_TYPE_FAT16": "FAT16_CLUSTER_VALUES",
                       "FAT_TYPE_FAT32": "FAT32_CLUSTER_VALUES"}:
                raise Unsupported("FAT_CLUSTER_VALUES mapping changed")
    consts = {k: k for k in cp}
    common = {"hdr": "h", "consts": consts, "classes": ("PyFat",),
              "self_attrs": {a: f"({a} s)" for a in ("_fat_size", "root_dir_sector", "root_dir_sectors", "bytes_per_cluster",
                                                      "first_data_sector", "fat_type")}}
    t = FnTr(dict(common))
    out.append(f"Definition get_total_sectors (h : hdr) : Z :=\n  {t.stmts(find_fn(pfc, '_get_total_sectors').body, '0')}.\n")
    t = FnTr(dict(common, methods={"get_total_sectors": "(get_total_sectors h)"}))
    out.append(f"Definition determine_fat_type (s : pf) (h : hdr) : Z :=\n  {t.stmts(find_fn(pfc, '_PyFat__determine_fat_type' if False else '__determine_fat_type').body, '0')}.\n")
    t = FnTr(dict(common))
    out.append(f"Definition get_data_cluster_address (s : pf) (h : hdr) (cluster : Z) : Z :=\n  {t.stmts(find_fn(pfc, 'get_data_cluster_address').body, '0')}.\n")
    t = FnTr(dict(common))
    out.append(f"Definition calc_num_clusters (s : pf) (size : Z) : Z :=\n  {t.stmts(find_fn(pfc, 'calc_num_clusters').body, '0')}.\n")
    t = FnTr(dict(common, res=True))
    out.append(f"Definition verify_bpb_header (h : hdr) : res unit :=\n  {t.stmts(find_fn(pfc, '__verify_bpb_header').body, 'Ok tt')}.\n")

    # parse_header: the straight-line block from `self._fat_size = ...` to `self.first_data_sector = ...`
    ph = find_fn(pfc, "parse_header")
    blk, on, need = [], False, {"first_data_sector", "fat_type", "root_dir_sectors", "root_dir_sector"}
    for s in ph.body:
        tgt = s.targets[0] if isinstance(s, ast.Assign) else None
        if isinstance(tgt, ast.Attribute) and tgt.attr == "_fat_size":
            on = True
        if on:
            blk.append(s)
        if on and isinstance(tgt, ast.Attribute):
            need.discard(tgt.attr)
        if on and not need:
            break
    else:
        raise Unsupported("parse_header geometry block not found")
    hdr_size = 32
    t = FnTr(dict(common, store="s", consts=dict(consts, FAT_DIRECTORY_HEADER_SIZE="FAT_DIRECTORY_LAYOUT_size"),
                  classes=("PyFat", "FATDirectoryEntry"),
                  methods={"_get_fat_size_count": "(get_fat_size_count h)",
                           "determine_fat_type": "(determine_fat_type s h)"}))
    out.append(f"Definition parse_header_geometry (s : pf) (h : hdr) : pf :=\n  {t.stmts(blk, 's')}.\n")

    # mkfs arithmetic
    mk = find_fn(pfc, "mkfs")
    tbl = None
    sel = []
    on = False
    for s in mk.body:
        if isinstance(s, ast.Assign) and isinstance(s.targets[0], ast.Name):
            n0 = s.targets[0].id
            if n0 == "num_sec":
                on = True
            if n0 == "num_sec_to_sec_per_clus":
                tbl = s.value
                continue
            if n0 == "boot_code":
                continue
        if isinstance(s, ast.AugAssign) and isinstance(s.target, ast.Name) and s.target.id == "boot_code":
            continue
        if on:
            if isinstance(s, ast.Assign) and isinstance(s.targets[0], ast.Attribute) and s.targets[0].attr == "bpb_header":
                break
            sel.append(s)
    if tbl is None or not sel:
        raise Unsupported("mkfs block")
    rows = {}
    for k, v in zip(tbl.keys, tbl.values):
        rows[k.attr] = [(e.elts[0].value, e.elts[1].value) for e in v.elts]
    body = " else ".join(f"if ft =? {nm_}" + " then [" + "; ".join(f"({a}, {b})" for a, b in rows[nm_]) + "]"
                         for nm_ in ("FAT_TYPE_FAT32", "FAT_TYPE_FAT16", "FAT_TYPE_FAT12"))
    out.append(f"Definition mkfs_table (ft : Z) : list (Z * Z) :=\n  {body} else [].\n")
    t = FnTr(dict(common, store="s", tables={"num_sec_to_sec_per_clus": "mkfs_table"}, res=True))
    t.bound = {"fat_type", "size", "sector_size", "number_of_fats"}
    fin = ("Ok (s, num_sec, sec_per_clus, root_ent_cnt, rsvd_sec_cnt, fat_size_16, fat_size_32, total_sectors_16, total_sectors_32)")
    out.append("Definition mkfs_geometry (s : pf) (fat_type size sector_size number_of_fats : Z) :=\n  let fat_size_32 := 0 in\n  "
               + t.stmts(sel, fin) + ".\n")
    # initial FAT[0]/FAT[1]
    init = {}
    for s in ast.walk(mk):
        if isinstance(s, ast.If) and isinstance(s.test, ast.Compare) and isinstance(s.test.comparators[0], ast.Attribute) \
                and s.test.comparators[0].attr.startswith("FAT_TYPE_FAT") and len(s.body) == 2 \
                and all(isinstance(b, ast.Assign) and isinstance(b.targets[0], ast.Subscript) for b in s.body):
            ft = s.test.comparators[0].attr
            t = FnTr(dict(common, consts=consts))
            init[ft] = [t.ex(b.value) for b in s.body]
    if set(init) != {"FAT_TYPE_FAT12", "FAT_TYPE_FAT16", "FAT_TYPE_FAT32"}:
        raise Unsupported("mkfs FAT[0]/FAT[1] initialisers")
    for i in (0, 1):
        out.append(f"Definition mkfs_fat{i} (h : hdr) (ft : Z) : Z :=\n  " + " else ".join(
            f"if ft =? {k} then {init[k][i]}" for k in ("FAT_TYPE_FAT12", "FAT_TYPE_FAT16", "FAT_TYPE_FAT32")) + " else 0.\n")

    # FatIO.seek cursor arithmetic: offset clamp, cindex, coffpos, end-of-cluster case
    fio = find_class(src["FatIO"], "FatIO")
    sk = find_fn(fio, "seek")
    blk = []
    for s in sk.body:
        if isinstance(s, ast.Assign) and isinstance(s.targets[0], ast.Name) and s.targets[0].id in ("offset", "prev_index"):
            if s.targets[0].id == "offset":
                blk.append(s)
            continue
        if isinstance(s, ast.Assign) and isinstance(s.targets[0], ast.Attribute):
            blk.append(s)
            continue
        if isinstance(s, ast.If) and blk and isinstance(s.test, ast.BoolOp):
            blk.append(s)
            break
    fa = {"_FatIO__cindex": "cindex", "_FatIO__coffpos": "coffpos", "_FatIO__bpos": "bpos",
          "__cindex": "cindex", "__coffpos": "coffpos", "__bpos": "bpos"}

    class SeekTr(FnTr):
        def expr(self, n):
            if isinstance(n, ast.Attribute):
                if n.attr in fa and isinstance(n.value, ast.Name) and n.value.id == "self":
                    return fa[n.attr]
                if n.attr == "filesize":
                    return "filesize"
                if n.attr == "bytes_per_cluster":
                    return "bpc"
            return super().expr(n)

        def stmts(self, body, final):
            if body and isinstance(body[0], ast.Assign) and isinstance(body[0].targets[0], ast.Attribute) \
                    and body[0].targets[0].attr in fa:
                v = self.ex(body[0].value)
                return f"let {fa[body[0].targets[0].attr]} := {v} in\n  {self.stmts(body[1:], final)}"
            if body and isinstance(body[0], ast.AugAssign) and isinstance(body[0].target, ast.Attribute) \
                    and body[0].target.attr in fa:
                tgt = fa[body[0].target.attr]
                b = ast.BinOp(left=ast.Name(id=tgt, ctx=ast.Load()), op=body[0].op, right=body[0].value)
                return f"let {tgt} := {self.ex(b)} in\n  {self.stmts(body[1:], final)}"
            return super().stmts(body, final)

        def assigned(self, body):
            out = []
            for s in body:
                t = s.targets[0] if isinstance(s, ast.Assign) else getattr(s, "target", None)
                if isinstance(t, ast.Attribute) and t.attr in fa and fa[t.attr] not in out:
                    out.append(fa[t.attr])
            return out
    t = SeekTr({})
    t.bound = {"cindex", "coffpos", "bpos", "offset"}
    out.append("Definition seek_cursor (offset filesize bpc : Z) : Z * Z * Z :=\n  let cindex := 0 in let coffpos := 0 in let bpos := 0 in\n  "
               + t.stmts(blk, "(bpos, cindex, coffpos)") + ".\n")

    # ---- get_cluster_chain: the prelude (which link values are followed: max_data_cluster; the last cluster of the volume) and the body of
    # its `while True` loop — [refuse i] / visited += 1 / [loop limit] / classification of fat[i] (follow, stop, raise) / i = fat[i]
    gc = find_fn(pfc, "get_cluster_chain")
    arg = gc.args.args[1].arg
    loc = {}              # local name -> coq expr (functions of ft / s / h)
    loop = None
    key_of = {}

    class ChainTr(FnTr):
        def expr(self, n):
            if isinstance(n, ast.Subscript) and isinstance(n.value, ast.Name) and n.value.id == "cluster_vals" \
                    and isinstance(n.slice, ast.Constant) and n.slice.value in keys:
                return f"({n.slice.value} ft)"
            if isinstance(n, ast.Subscript) and isinstance(n.value, ast.Attribute) and n.value.attr == "fat" \
                    and isinstance(n.slice, ast.Name) and n.slice.id == "i":
                return "v"
            if isinstance(n, ast.Call) and isinstance(n.func, ast.Name) and n.func.id == "len" and len(n.args) == 1 \
                    and isinstance(n.args[0], ast.Attribute) and n.args[0].attr == "fat":
                return "len_fat"
            if isinstance(n, ast.Attribute) and isinstance(n.value, ast.Name) and n.value.id == "self" and n.attr == "fat_type":
                return "ft"
            if isinstance(n, ast.Name) and n.id in loc:
                return loc[n.id]
            return super().expr(n)
    ct = ChainTr(dict(common, methods={"_get_total_sectors": "(get_total_sectors h)", "get_total_sectors": "(get_total_sectors h)"}))
    for st_ in gc.body:
        if isinstance(st_, ast.Expr) and isinstance(st_.value, ast.Constant):
            continue
        if isinstance(st_, ast.While):
            loop = st_
            break
        if not (isinstance(st_, ast.Assign) and isinstance(st_.targets[0], ast.Name)):
            raise Unsupported("get_cluster_chain prelude statement")
        name = st_.targets[0].id
        if name == "cluster_vals":
            v_ = st_.value
            if not (isinstance(v_, ast.Subscript) and isinstance(v_.value, ast.Attribute) and v_.value.attr == "FAT_CLUSTER_VALUES"
                    and isinstance(v_.slice, ast.Attribute) and v_.slice.attr == "fat_type"):
                raise Unsupported("cluster_vals")
            continue
        if name in ("i", "visited"):
            init_ok = (name == "i" and isinstance(st_.value, ast.Name) and st_.value.id == arg) or \
                      (name == "visited" and isinstance(st_.value, ast.Constant) and st_.value.value == 0)
            if not init_ok:
                raise Unsupported("get_cluster_chain loop variables")
            continue
        loc[name] = ct.ex(st_.value)
    if loop is None or not (isinstance(loop.test, ast.Constant) and loop.test.value is True) or len(loop.body) != 5:
        raise Unsupported("get_cluster_chain loop shape")
    b0, b1, b2, b3, b4 = loop.body
    only_raise = lambda bl: len(bl) == 1 and isinstance(bl[0], ast.Raise)  # noqa
    if not (isinstance(b0, ast.If) and only_raise(b0.body) and not b0.orelse):
        raise Unsupported("get_cluster_chain range check")
    if not (isinstance(b1, ast.AugAssign) and isinstance(b1.target, ast.Name) and b1.target.id == "visited" and isinstance(b1.op, ast.Add)
            and isinstance(b1.value, ast.Constant) and b1.value.value == 1):
        raise Unsupported("get_cluster_chain visit counter")
    if not (isinstance(b2, ast.If) and only_raise(b2.body) and not b2.orelse):
        raise Unsupported("get_cluster_chain loop limit")
    if not (isinstance(b4, ast.Assign) and isinstance(b4.targets[0], ast.Name) and b4.targets[0].id == "i"
            and isinstance(b4.value, ast.Subscript) and isinstance(b4.value.value, ast.Attribute) and b4.value.value.attr == "fat"
            and isinstance(b4.value.slice, ast.Name) and b4.value.slice.id == "i"):
        raise Unsupported("get_cluster_chain step")

    def action(bl):
        kinds = [type(x) for x in bl]
        is_yield_i = lambda x: isinstance(x, ast.Expr) and isinstance(x.value, ast.Yield) and isinstance(x.value.value, ast.Name) and x.value.value.id == "i"  # noqa
        if len(bl) == 1 and is_yield_i(bl[0]):
            return "0"
        if len(bl) == 2 and is_yield_i(bl[0]) and isinstance(bl[1], ast.Return) and bl[1].value is None:
            return "1"
        if only_raise(bl):
            return "2"
        raise Unsupported(f"get_cluster_chain branch {kinds}")
    branches = []
    cur = b3
    while True:
        if not isinstance(cur, ast.If):
            raise Unsupported("get_cluster_chain classification")
        branches.append((ct.bex(cur.test), action(cur.body)))
        if len(cur.orelse) == 1 and isinstance(cur.orelse[0], ast.If):
            cur = cur.orelse[0]
            continue
        last = action(cur.orelse)
        break
    out.append(f"Definition chain_last_cluster (s : pf) (h : hdr) : Z :=\n  {loc['last_cluster']}.\n")
    out.append(f"Definition chain_max_data (s : pf) (h : hdr) (ft : Z) : Z :=\n  {loc['max_data_cluster']}.\n")
    out.append("(* the cluster number [i] is refused before its entry is looked at *)\n")
    out.append(f"Definition chain_refuse (s : pf) (h : hdr) (ft len_fat i : Z) : bool :=\n  {ct.bex(b0.test)}.\n")
    out.append(f"Definition chain_loop_limit (len_fat visited : Z) : bool :=\n  {ct.bex(b2.test)}.\n")
    out.append("(* what the entry [v = fat[i]] means: 0 = yield i and follow it, 1 = yield i and stop, 2 = raise *)\n")
    out.append("Definition chain_class (s : pf) (h : hdr) (ft v : Z) : Z :=\n  "
               + " else ".join(f"if {c} then {a}" for c, a in branches) + f" else {last}.\n")

    # ---- allocate_bytes: the upper bound of the scan (prelude) and the decisions of its loop: which cluster numbers are skipped, which entries
    # are taken.  Shape: for i in range(first_free_cluster, len(fat)): if <skip>: continue / if <enough>: break / if fat[i] == free: (if <excluded>:
    # continue)* ; free_clusters += [i]
    ab = find_fn(pfc, "allocate_bytes")
    loc.clear()
    loop = None

    class AllocTr(ChainTr):
        def expr(self, n):
            if isinstance(n, ast.Subscript) and isinstance(n.value, ast.Subscript) and isinstance(n.value.value, ast.Attribute) \
                    and n.value.value.attr == "FAT_CLUSTER_VALUES" and isinstance(n.value.slice, ast.Attribute) and n.value.slice.attr == "fat_type" \
                    and isinstance(n.slice, ast.Constant) and n.slice.value in keys:
                return f"({n.slice.value} ft)"
            return super().expr(n)
    at = AllocTr(dict(common, methods={"_get_total_sectors": "(get_total_sectors h)", "get_total_sectors": "(get_total_sectors h)"}))
    for st_ in ab.body:
        if isinstance(st_, ast.Expr) and isinstance(st_.value, ast.Constant):
            continue
        if isinstance(st_, ast.For):
            loop = st_
            break
        if not (isinstance(st_, ast.Assign) and isinstance(st_.targets[0], ast.Name)):
            raise Unsupported("allocate_bytes prelude statement")
        name = st_.targets[0].id
        if name == "num_clusters":
            if not (isinstance(st_.value, ast.Call) and isinstance(st_.value.func, ast.Attribute) and st_.value.func.attr == "calc_num_clusters"):
                raise Unsupported("allocate_bytes request size")
            continue
        if name == "free_clusters":
            if not (isinstance(st_.value, ast.List) and not st_.value.elts):
                raise Unsupported("allocate_bytes result list")
            continue
        loc[name] = at.ex(st_.value)
    rng_ok = loop is not None and isinstance(loop.target, ast.Name) and loop.target.id == "i" and isinstance(loop.iter, ast.Call) \
        and isinstance(loop.iter.func, ast.Name) and loop.iter.func.id == "range" and len(loop.iter.args) == 2 \
        and isinstance(loop.iter.args[0], ast.Attribute) and loop.iter.args[0].attr == "first_free_cluster" \
        and at.ex(loop.iter.args[1]) == "len_fat"
    if not rng_ok or len(loop.body) != 3:
        raise Unsupported("allocate_bytes scan loop")
    l0, l1, l2 = loop.body
    only = lambda bl, t: len(bl) == 1 and isinstance(bl[0], t)  # noqa
    if not (isinstance(l0, ast.If) and only(l0.body, ast.Continue) and not l0.orelse):
        raise Unsupported("allocate_bytes bounds test")
    if not (isinstance(l1, ast.If) and only(l1.body, ast.Break) and not l1.orelse):
        raise Unsupported("allocate_bytes enough test")
    if not (isinstance(l2, ast.If) and not l2.orelse and len(l2.body) >= 1):
        raise Unsupported("allocate_bytes free test")
    excl = []
    for st_ in l2.body[:-1]:
        if not (isinstance(st_, ast.If) and only(st_.body, ast.Continue) and not st_.orelse):
            raise Unsupported("allocate_bytes exclusions")
        excl.append(at.bex(st_.test))
    lastst = l2.body[-1]
    if not (isinstance(lastst, ast.AugAssign) and isinstance(lastst.target, ast.Name) and lastst.target.id == "free_clusters" and isinstance(lastst.op, ast.Add)
            and isinstance(lastst.value, ast.List) and len(lastst.value.elts) == 1 and isinstance(lastst.value.elts[0], ast.Name) and lastst.value.elts[0].id == "i"):
        raise Unsupported("allocate_bytes take")
    out.append(f"Definition alloc_max_clus (s : pf) (h : hdr) (ft : Z) : Z :=\n  {loc['max_clus']}.\n")
    out.append(f"Definition alloc_skip (s : pf) (h : hdr) (ft i : Z) : bool :=\n  {at.bex(l0.test)}.\n")
    out.append("(* the entry [v = fat[i]] of a cluster number that is not skipped is taken *)\n")
    out.append(f"Definition alloc_take (s : pf) (h : hdr) (ft v i : Z) : bool :=\n  ({at.bex(l2.test)}"
               + "".join(f" && negb {e}" for e in excl) + ").\n")

    # ---- free_cluster_chain: what a released entry is set to, and how the allocation hint follows the released clusters.  Shape: _freeclus = <free mark> /
    # with lock: tmp_fat = self.fat.copy(); for cl in self.get_cluster_chain(cluster): tmp_fat[cl] = _freeclus; self.first_free_cluster = <e(cl, hint)>;
    # self.fat = tmp_fat
    fc = find_fn(pfc, "free_cluster_chain")
    body = [st_ for st_ in fc.body if not (isinstance(st_, ast.Expr) and isinstance(st_.value, ast.Constant))]
    if len(body) != 2 or not (isinstance(body[0], ast.Assign) and isinstance(body[0].targets[0], ast.Name) and isinstance(body[1], ast.With)):
        raise Unsupported("free_cluster_chain shape")
    mark_name = body[0].targets[0].id
    mark = at.ex(body[0].value)
    wb = body[1].body
    if len(wb) != 3 or not (isinstance(wb[0], ast.Assign) and isinstance(wb[0].targets[0], ast.Name) and isinstance(wb[1], ast.For) and isinstance(wb[2], ast.Assign)):
        raise Unsupported("free_cluster_chain locked section")
    tmp = wb[0].targets[0].id
    cp = wb[0].value
    if not (isinstance(cp, ast.Call) and isinstance(cp.func, ast.Attribute) and cp.func.attr == "copy" and isinstance(cp.func.value, ast.Attribute)
            and cp.func.value.attr == "fat" and not cp.args):
        raise Unsupported("free_cluster_chain working copy")
    if not (isinstance(wb[2].targets[0], ast.Attribute) and wb[2].targets[0].attr == "fat" and isinstance(wb[2].value, ast.Name) and wb[2].value.id == tmp):
        raise Unsupported("free_cluster_chain swap")
    fl = wb[1]
    it = fl.iter
    if not (isinstance(fl.target, ast.Name) and isinstance(it, ast.Call) and isinstance(it.func, ast.Attribute) and it.func.attr == "get_cluster_chain"
            and len(it.args) == 1 and isinstance(it.args[0], ast.Name) and it.args[0].id == fc.args.args[1].arg and not fl.orelse and len(fl.body) == 2):
        raise Unsupported("free_cluster_chain loop")
    clv = fl.target.id
    s0, s1 = fl.body
    if not (isinstance(s0, ast.Assign) and isinstance(s0.targets[0], ast.Subscript) and isinstance(s0.targets[0].value, ast.Name) and s0.targets[0].value.id == tmp
            and isinstance(s0.targets[0].slice, ast.Name) and s0.targets[0].slice.id == clv and isinstance(s0.value, ast.Name) and s0.value.id == mark_name):
        raise Unsupported("free_cluster_chain entry update")
    if not (isinstance(s1, ast.Assign) and isinstance(s1.targets[0], ast.Attribute) and s1.targets[0].attr == "first_free_cluster"):
        raise Unsupported("free_cluster_chain hint update")

    def hint_ex(n):
        if isinstance(n, ast.Name) and n.id == clv:
            return "cl"
        if isinstance(n, ast.Attribute) and isinstance(n.value, ast.Name) and n.value.id == "self" and n.attr == "first_free_cluster":
            return "hint"
        if isinstance(n, ast.Call) and isinstance(n.func, ast.Name) and n.func.id in ("min", "max") and len(n.args) == 2 and not n.keywords:
            return f"(Z.{n.func.id} {hint_ex(n.args[0])} {hint_ex(n.args[1])})"
        raise Unsupported("free_cluster_chain hint expression")
    out.append("(* free_cluster_chain: the value a released entry gets; the hint after the release of cluster [cl] *)\n")
    out.append(f"Definition free_mark (ft : Z) : Z :=\n  {mark}.\n")
    out.append(f"Definition free_hint_step (cl hint : Z) : Z :=\n  {hint_ex(s1.value)}.\n")

    out.append("End Gen.\n")
    return "".join(out)


def main():
    repo, outp = sys.argv[1], sys.argv[2]
    try:
        text = translate(repo)
    except (Unsupported, KeyError, AttributeError, IndexError, SyntaxError) as e:
        sys.stderr.write(f"translate.py: FAIL-CLOSED: {type(e).__name__}: {e}\n")
        if os.path.exists(outp):
            os.remove(outp)
        sys.exit(2)
    old = open(outp).read() if os.path.exists(outp) else None
    if old != text:
        with open(outp, "w") as f:
            f.write(text)
    print(f"translate.py: wrote {outp} ({len(text)} bytes)")


if __name__ == "__main__":
    main()
