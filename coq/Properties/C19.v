(** C19 — concurrent modifications are linearizable.  Proved on interleaving models, for any number of threads and EVERY
    schedule: (1) mutual exclusion of the lock protocol recorded on the real code (C19_locked_partial: stated for the
    lock protocol only); (2) linearizability of the shared state (C19_linearizable, for any state type; C19_fs_linearizable
    is its instance on the filesystem model's state with the model's modifying operations as sections): when every
    modifying operation runs — in however many pieces — between acquiring and releasing the one lock, then whenever the
    lock is free the shared state is exactly the result of running the completed operations whole, one after the other,
    in the order the lock was acquired; each thread's operations appear in that order in its program order, none lost
    or duplicated; and inside an operation the state is the sequential state plus that operation's own executed prefix.
    That every modifying entry point of the real code does run inside the filesystem lock (the premise the model builds
    in), and the soundness of the resulting image, are checked by controlled schedules on the real code. *)
From Coq Require Import ZArith List Bool.
From PyFatV Require Import Proofs.Linear Base.Bytes Base.PyEnv Model.FS Proofs.Conc.
Import ListNotations.
Open Scope Z_scope.

Theorem C19_locked_partial : forall dev progs p0 sched i j,
  (forall k, wl dev U (progs k)) ->
  snd (thr (run dev (init progs p0) sched) i) <> U -> snd (thr (run dev (init progs p0) sched) j) <> U -> i = j.
Proof. exact mutex. Qed.
Print Assumptions C19_locked_partial.
Theorem C19_sections_see_own_seek : forall dev progs p0 sched i r,
  (forall j, wl dev U (progs j)) ->
  fst (thr (run dev (init progs p0) sched) i) = Ret r ->
  solo dev U (progs i) = Some r.
Proof. exact readers_solo. Qed.
Print Assumptions C19_sections_see_own_seek.

Theorem C19_linearizable : forall (S:Type) (progs:nat -> list (msteps S)) (s0:S) sched, let g := Linear.run S (Linear.init S progs s0) sched in
  (Linear.owner S g = None -> sh S g = seq_run S (log S g) s0) /\
  (forall i, Linear.owner S g = Some i -> exists pre done ms, log S g = pre ++ [(i, done ++ ms)] /\ cur S (ths S g i) = Some ms /\ sh S g = apply_ms S done (seq_run S pre s0)) /\
  (forall i, secs_of S i (log S g) ++ todo S (ths S g i) = progs i) /\
  (forall i j, cur S (ths S g i) <> None -> cur S (ths S g j) <> None -> i = j).
Proof. exact linearizable. Qed.
Print Assumptions C19_linearizable.
(** a modifying operation of the filesystem model as a one-piece section: a refused operation changes nothing (C09) *)
Definition op_section (f:st -> res st) : msteps st := [fun s => match f s with Ok s' => s' | Err _ => s end].
Theorem C19_fs_linearizable : forall (progs:nat -> list (msteps st)) (s0:st) sched, let g := Linear.run st (Linear.init st progs s0) sched in
  (forall i, todo st (ths st g i) = [] /\ cur st (ths st g i) = None) -> Linear.owner st g = None ->
  sh st g = seq_run st (log st g) s0 /\ forall i, secs_of st i (log st g) = progs i.
Proof. exact (all_done_is_sequential st). Qed.
Print Assumptions C19_fs_linearizable.
(* two threads, sections of two pieces that do not commute; thread 1 is scheduled while thread 0 is inside its section (and is
   skipped: blocked on the lock): the result is that of the acquisition order 0, 1 — ((0+1)*2)*3+5 — not an interleaving of pieces *)
Example C19_linearizable_example :
  let progs := fun i => match i with 0%nat => [[Z.add 1; Z.mul 2]] | 1%nat => [[Z.mul 3; Z.add 5]] | _ => [] end in
  let g := Linear.run Z (Linear.init Z progs 0) [0;1;0;1;1;0;1;0;1;1;1;1]%nat in
  sh Z g = 11 /\ map fst (log Z g) = [0;1]%nat /\ Linear.owner Z g = None /\ todo Z (ths Z g 0%nat) = [] /\ todo Z (ths Z g 1%nat) = [].
Proof. vm_compute. repeat split; reflexivity. Qed.
