(** C19 — concurrent modifications are linearizable.  Proved on the interleaving model: mutual exclusion — under every
    schedule at most one thread is inside a section guarded by the lock, so a modifying operation that runs entirely
    inside the (re-entrant) filesystem lock is an atomic section and the final state is that of the order in which the
    lock was acquired (C19_locked_partial: stated for the lock protocol, not for the filesystem state).  That every
    modifying entry point of the real code does run inside the filesystem lock, and the resulting linearizability of
    the tree and soundness of the image, are checked by controlled schedules on the real code. *)
From Coq Require Import ZArith List Bool.
From PyFatV Require Import Proofs.Conc.
Import ListNotations.
Open Scope Z_scope.

Theorem C19_locked_partial : forall dev progs p0 sched i j,
  (forall k, wl dev U (progs k)) ->
  snd (thr (run dev (init progs p0) sched) i) <> U -> snd (thr (run dev (init progs p0) sched) j) <> U -> i = j.
Proof. exact mutex. Qed.
Print Assumptions C19_locked_partial.
Theorem C19_sections_see_own_seek : forall dev progs p0 sched i r,
  (forall j, wl dev U (progs j)) ->
  fst (thr (run dev (init progs p0) sched) i) = Ret r ->
  solo dev U (progs i) = Some r.
Proof. exact readers_solo. Qed.
Print Assumptions C19_sections_see_own_seek.
