(** C17 — timestamps.  The zone enters pyfatfs only through Python's datetime conversion, which hands the code a
    broken-down civil time; what pyfatfs itself computes is the packing of that civil time into the two 16-bit words
    and back.  Proved about the GENERATED code, for every civil time 1980..2107: packing is the specification's layout,
    unpacking returns the same date and the time with even seconds (2 s resolution), and every word decodes without
    exception.  The C library's zone rules are an oracle of the check, not proved. *)
From Coq Require Import ZArith List Bool.
From PyFatV Require Import Base.Bytes Base.PyEnv Gen.Pure Proofs.Dates.
Open Scope Z_scope.

Theorem C17_roundtrip : forall y m d h mi s, 1980 <= y <= 2107 -> valid_date y m d = true -> valid_time h mi s = true ->
  Gen.deserialize_date (Gen.serialize_date y m d) = (y, m, d) /\
  Gen.deserialize_time (Gen.serialize_time h mi s) = (h, mi, s - s mod 2) /\
  Gen.serialize_date y m d = spec_date_word y m d /\ Gen.serialize_time h mi s = spec_time_word h mi s.
Proof.
  intros y m d h mi s Hy Hd Ht. destruct (date_encode_decode y m d Hy Hd) as [A B]. destruct (time_encode_decode h mi s Ht) as [C D].
  exact (conj B (conj D (conj A C))).
Qed.
Print Assumptions C17_roundtrip.
Theorem C17_total : forall w, 0 <= w < 65536 ->
  (let '(y,m,d) := Gen.deserialize_date w in valid_date y m d = true /\ 1980 <= y <= 2107) /\
  (let '(h,mi,s) := Gen.deserialize_time w in valid_time h mi s = true).
Proof.
  intros w Hw. pose proof (date_word_decode w Hw) as A. pose proof (time_word_decode w Hw) as B.
  destruct (Gen.deserialize_date w) as [[y m] d]. destruct (Gen.deserialize_time w) as [[h mi] s].
  split; [exact (conj (proj1 A) (proj1 (proj2 A))) | exact (proj1 B)].
Qed.
Print Assumptions C17_total.
