(** C18 — concurrent readers get the same answers as serial readers.  The locking protocol of the device layer as an
    interleaving model (Proofs/Conc.v): any number of threads, ANY schedule.  If every thread seeks and reads only while it
    holds the device lock and every read follows a seek of the same locked section (the shape of read_cluster_contents,
    __parse_dir_entry, _parse_fat, parse_header — checked on the real event traces by the harness), then each thread
    returns exactly what it returns alone.  That CPython runs the code between two events without touching other shared
    state is validated by controlled schedules on the real code, not proved. *)
From Coq Require Import ZArith List Bool.
From PyFatV Require Import Proofs.Conc.
Import ListNotations.
Open Scope Z_scope.

Theorem C18_readers : forall dev progs p0 sched i r,
  (forall j, wl dev U (progs j)) ->
  fst (thr (run dev (init progs p0) sched) i) = Ret r ->
  solo dev U (progs i) = Some r.
Proof. exact readers_solo. Qed.
Print Assumptions C18_readers.
Theorem C18_mutex : forall dev progs p0 sched i j,
  (forall k, wl dev U (progs k)) ->
  snd (thr (run dev (init progs p0) sched) i) <> U -> snd (thr (run dev (init progs p0) sched) j) <> U -> i = j.
Proof. exact mutex. Qed.
Print Assumptions C18_mutex.
Example C18_read_cluster_is_well_locked : forall dev a, wl dev U (read_at a).
Proof. exact read_at_wl. Qed.
