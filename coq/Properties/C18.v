(** C18 — concurrent readers get the same answers as serial readers.  The locking protocol of the device layer as an
    interleaving model (Proofs/Conc.v): any number of threads, ANY schedule.  If every thread seeks and reads only while it
    holds the device lock and every read follows a seek of the same locked section (the shape of read_cluster_contents,
    __parse_dir_entry, _parse_fat, parse_header — checked on the real event traces by the harness), then each thread
    returns exactly what it returns alone.  The in-memory tree is shared MUTABLE state for readers too (a directory is
    parsed into the cache by the first thread that looks into it, D33): C18_lazy_readers — on the shared-state model of
    Proofs/Linear.v, if every section (the first look into a directory, under the filesystem lock) leaves an abstraction of the
    state unchanged as a whole and its pieces respect the abstraction, then under EVERY schedule the abstraction a thread sees
    inside its section is the one it would see running alone from the initial state, whatever the other threads have loaded
    in between.  That CPython runs the code between two events without touching other shared
    state is validated by controlled schedules on the real code, not proved. *)
From Coq Require Import ZArith List Bool.
From PyFatV Require Import Proofs.Linear Proofs.Conc.
Import ListNotations.
Open Scope Z_scope.

Theorem C18_readers : forall dev progs p0 sched i r,
  (forall j, wl dev U (progs j)) ->
  fst (thr (run dev (init progs p0) sched) i) = Ret r ->
  solo dev U (progs i) = Some r.
Proof. exact readers_solo. Qed.
Print Assumptions C18_readers.
Theorem C18_mutex : forall dev progs p0 sched i j,
  (forall k, wl dev U (progs k)) ->
  snd (thr (run dev (init progs p0) sched) i) <> U -> snd (thr (run dev (init progs p0) sched) j) <> U -> i = j.
Proof. exact mutex. Qed.
Print Assumptions C18_mutex.
Example C18_read_cluster_is_well_locked : forall dev a, wl dev U (read_at a).
Proof. exact read_at_wl. Qed.

Theorem C18_lazy_readers : forall (S:Type) (progs:nat -> list (msteps S)) (s0:S) (A:Type) (abs:S -> A),
  (forall i sec, In sec (progs i) -> forall s, abs (apply_ms S sec s) = abs s) ->
  (forall i sec m, In sec (progs i) -> In m sec -> forall s s', abs s = abs s' -> abs (m s) = abs (m s')) ->
  forall sched, let g := Linear.run S (Linear.init S progs s0) sched in
  (Linear.owner S g = None -> abs (sh S g) = abs s0) /\
  (forall i, Linear.owner S g = Some i -> exists done ms, cur S (ths S g i) = Some ms /\ In (done ++ ms) (progs i) /\ abs (sh S g) = abs (apply_ms S done s0)).
Proof. exact sections_see_initial_abstraction. Qed.
Print Assumptions C18_lazy_readers.
(* state = (tree, directories loaded so far); two readers each load a directory in two pieces; thread 1 is scheduled while thread 0
   is inside its section: the tree both see is the initial one, the cache holds both directories afterwards *)
Example C18_lazy_readers_example :
  let load d : msteps (Z * list Z) := [fun s => (fst s, d :: snd s); fun s => (fst s, snd s ++ [d])] in
  let progs := fun i => match i with 0%nat => [load 7] | 1%nat => [load 9] | _ => [] end in
  let g := Linear.run (Z * list Z) (Linear.init (Z * list Z) progs (42, [])) [0;1;0;1;1;0;1;0;1;1;1;1;1]%nat in
  sh (Z * list Z) g = (42, [9;7;7;9]) /\ Linear.owner (Z * list Z) g = None.
Proof. vm_compute. split; reflexivity. Qed.
