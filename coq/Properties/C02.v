(** C02 — file objects have exact byte semantics.  Proved: the cursor arithmetic of FatIO.seek (GENERATED
    code) represents the byte position exactly, with the documented end-of-cluster case; writes through one
    chain leave every FAT entry of other chains untouched.  The refinement of whole handle programs to the
    byte-buffer reference (C02_refine) is NOT proved: it is checked on the implementation after every call
    and tied to the model's handle layer by results and write logs. *)
From Coq Require Import ZArith List Bool Sorted.
From PyFatV Require Import Base.Bytes Base.PyEnv Gen.Pure Model.Codec Model.Dir Model.FS Proofs.FatTable Proofs.Geometry.
Import ListNotations.
Open Scope Z_scope.

Theorem C02_cursor : forall offset filesize bpc,
  0 < bpc -> 0 <= offset -> 0 <= filesize ->
  let '(bpos, cindex, coffpos) := Gen.seek_cursor offset filesize bpc in
  bpos = Z.min offset filesize /\
  cindex * bpc + coffpos = bpos /\
  0 <= coffpos <= bpc /\
  (coffpos = bpc -> bpos = filesize /\ 0 < bpos) /\
  (0 < bpos -> 0 <= cindex) /\ (bpos = 0 -> cindex = 0 /\ coffpos = 0) /\
  (bpos < filesize -> coffpos < bpc).
Proof. exact seek_cursor_spec. Qed.
Print Assumptions C02_cursor.
Example C02_cursor_examples :
  Gen.seek_cursor 1024 1024 512 = (1024, 1, 512) /\ Gen.seek_cursor 1024 2000 512 = (1024, 2, 0) /\ Gen.seek_cursor 700 600 512 = (600, 1, 88).
Proof. vm_compute. repeat split; reflexivity. Qed.

(** extending one file's chain changes no FAT entry outside the newly allocated clusters (which were free):
    the chains, hence the contents, of all other files are untouched *)
Theorem C02_frame_fat : forall s size cs s' j,
  0 <= s_hint s -> allocate s size false = Ok (cs, s') -> 0 <= j -> ~ In j cs -> 2 <= Gen.MIN_DATA_CLUSTER (ft s) ->
  nthZ (s_fat s') j = nthZ (s_fat s) j.
Proof. exact allocate_frame. Qed.
Print Assumptions C02_frame_fat.
(* C02_refine (not proved): results, positions and contents of every handle program equal the reference buffer's. *)
