(** C02 — file objects have exact byte semantics.  Proved: the cursor arithmetic of FatIO.seek (GENERATED
    code) represents the byte position exactly, with the documented end-of-cluster case; writes through one
    chain leave every FAT entry of other chains untouched; and the data path itself, at the level of the bytes
    a cluster chain holds: writing [b] at a cursor (cluster index k, offset co) inside a file is Python's
    data[pos:pos+len(b)] = b on the chain's bytes — the chain grows by exactly the free clusters the allocator hands
    out, every byte before pos and behind pos+len(b) and every cluster of every other chain keep their contents — and
    reading through the chain returns its bytes from the offset.  What is NOT proved is the glue above it (C02_refine:
    the directory entry's size / first cluster and the handle's cursor after each call of whole handle programs);
    that is checked on the implementation after every call against the byte-buffer reference and tied to the model's
    handle layer by results and write logs. *)
From Coq Require Import ZArith List Bool Sorted FMapPositive.
From PyFatV Require Import Base.Bytes Base.PyEnv Gen.Pure Model.Codec Model.Dir Model.FS Proofs.FatTable Proofs.Geometry Proofs.Device Proofs.DirCodec Proofs.DirState Proofs.Chains Proofs.FileData Proofs.Namespace Properties.C03.
Import ListNotations.
Open Scope Z_scope.

Theorem C02_cursor : forall offset filesize bpc,
  0 < bpc -> 0 <= offset -> 0 <= filesize ->
  let '(bpos, cindex, coffpos) := Gen.seek_cursor offset filesize bpc in
  bpos = Z.min offset filesize /\
  cindex * bpc + coffpos = bpos /\
  0 <= coffpos <= bpc /\
  (coffpos = bpc -> bpos = filesize /\ 0 < bpos) /\
  (0 < bpos -> 0 <= cindex) /\ (bpos = 0 -> cindex = 0 /\ coffpos = 0) /\
  (bpos < filesize -> coffpos < bpc).
Proof. exact seek_cursor_spec. Qed.
Print Assumptions C02_cursor.
Example C02_cursor_examples :
  Gen.seek_cursor 1024 1024 512 = (1024, 1, 512) /\ Gen.seek_cursor 1024 2000 512 = (1024, 2, 0) /\ Gen.seek_cursor 700 600 512 = (600, 1, 88).
Proof. vm_compute. repeat split; reflexivity. Qed.

(** extending one file's chain changes no FAT entry outside the newly allocated clusters (which were free):
    the chains, hence the contents, of all other files are untouched *)
Theorem C02_frame_fat : forall s size cs s' j,
  0 <= s_hint s -> allocate s size false = Ok (cs, s') -> 0 <= j -> ~ In j cs -> 2 <= Gen.MIN_DATA_CLUSTER (ft s) ->
  nthZ (s_fat s') j = nthZ (s_fat s) j.
Proof. exact allocate_frame. Qed.
Print Assumptions C02_frame_fat.
Theorem C02_write_at_cursor : forall s c0 ch k co b s',
  dev_ok (s_dev s) -> geom_ok s -> vt (ft s) -> 0 <= s_hint s -> vol_ok s ->
  chain s c0 = (ch, true) -> Forall (inside s) ch ->
  (k < length ch)%nat -> (co <= Z.to_nat (bpc s))%nat ->
  let cpos := nth k ch 0 in
  write_data_to_cluster s (firstn co (rd s (cluster_addr s cpos) (bpc s)) ++ b) cpos false = Ok s' ->
  exists new,
    chain s' c0 = (ch ++ new, true) /\ Forall (inside s) (ch ++ new) /\
    Forall (fun x => nthZ (s_fat s) x = 0) new /\
    let W := read_chain s (ch ++ new) in
    let pos := (k * Z.to_nat (bpc s) + co)%nat in
    read_chain s' (ch ++ new) = firstn pos W ++ b ++ skipn (pos + length b) W /\
    (forall c', 2 <= c' -> ~ In c' (ch ++ new) -> rd s' (cluster_addr s c') (bpc s) = rd s (cluster_addr s c') (bpc s)).
Proof. exact write_at_cursor. Qed.
Print Assumptions C02_write_at_cursor.
Theorem C02_read_chain : forall cs s coff size fuel,
  dev_ok (s_dev s) -> geom_ok s -> Forall (inside s) cs ->
  0 <= coff <= bpc s -> coff + size <= lenZ cs * bpc s -> (length cs < fuel)%nat ->
  read_chunks s cs coff size fuel = Ok (firstn (Z.to_nat size) (skipn (Z.to_nat coff) (read_chain s cs))).
Proof. exact read_chunks_spec. Qed.
Print Assumptions C02_read_chain.
(** non-vacuity: the chain 3 -> 5 of the example volume, 600 bytes written at cluster index 1, offset 100: cluster 6
    (the first free one) is appended, and the bytes come back *)
Definition ex_b : list Z := repeat 7 600.
Definition ex_w : st :=
  match write_data_to_cluster ex_st2 (firstn 100 (rd ex_st2 (cluster_addr ex_st2 5) (bpc ex_st2)) ++ ex_b) 5 false with Ok s => s | Err _ => ex_st2 end.
Example C02_cursor_write_example :
  chain ex_st2 3 = ([3; 5], true) /\
  write_data_to_cluster ex_st2 (firstn 100 (rd ex_st2 (cluster_addr ex_st2 5) (bpc ex_st2)) ++ ex_b) 5 false = Ok ex_w /\
  chain ex_w 3 = ([3; 5; 6], true) /\
  read_chunks ex_w [3; 5; 6] 100 600 4 = Ok (repeat 0 512 ++ repeat 7 88) /\
  firstn 600 (skipn 612 (read_chain ex_w [3; 5; 6])) = ex_b.
Proof. vm_compute. repeat split; reflexivity. Qed.
(** the other half of a write or truncate through a handle: the entry update.  After [update_entry] — the parent directory
    read, the entry replaced, the directory rewritten — looking the entry up again returns the updated entry, and the
    directory reads back with exactly that one entry changed; for every update that commutes with the reader's normal form,
    such as the new size *)
Theorem C02_entry_update : forall s h f s' es0 ch e,
  dev_ok (s_dev s) -> geom_ok s -> vt (ft s) -> 0 <= s_hint s -> h_parent h <> -1 ->
  chain s (h_parent h) = (ch, true) -> Forall (inside s) ch -> vol_ok s ->
  Forall entry_ok es0 -> read_dir s (h_parent h) = Ok (map canon es0) -> commutes f ->
  find_in_dir s h = Ok e ->
  update_entry s h f = Ok s' ->
  find_in_dir s' h = Ok (f e) /\
  read_dir s' (h_parent h) = Ok (map (fun x => if list_eqb (d_name x) (h_name h) then f x else x) (map canon es0)).
Proof. exact update_entry_then_find. Qed.
Print Assumptions C02_entry_update.
Theorem C02_size_update_commutes : forall n, 0 <= n < 4294967296 -> commutes (fun x => set_size x n).
Proof. exact set_size_commutes. Qed.
(* C02_refine (not proved): results, positions and contents of every handle program equal the reference buffer's. *)
