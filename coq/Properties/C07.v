(** C07 — any specification-valid foreign volume is read correctly.  C07_type is about the GENERATED parse_header /
    __determine_fat_type code: for every boot sector that uses the 16-bit FAT size field exactly for FAT12/16 (what the
    specification prescribes) the width pyfatfs picks is the width of the cluster-count rule — both sides of 4085 and
    65525 are instances.  C07_fat: decoding of every FAT entry is the specification's formula.  C07_dir_slots: for
    ARBITRARY directory bytes — any foreign layout — the entries the reader returns are, as short entries, exactly the
    live 32-byte slots (not deleted, not long-name slots) in order up to the end mark: nothing invented, nothing dropped;
    which long name gets attached to them is the part checked on foreign images (straddling sets, orphans, bad checksums). *)
From Coq Require Import ZArith List Bool.
From PyFatV Require Import Base.Bytes Base.PyEnv Gen.Pure Model.Codec Model.Dir Proofs.FatCodec Proofs.Geometry Proofs.DirCodec.
Import ListNotations.
Open Scope Z_scope.

Theorem C07_type : forall h, spec_coherent h -> fat_type (Gen.parse_header_geometry pf_init h) = spec_fat_type h.
Proof. exact fat_type_is_spec. Qed.
Print Assumptions C07_type.
Definition hdr_4084 : hdr := mkHdr [235;60;144] [] 512 1 1 2 64 4113 248 12 0 0 0 0 0 0 0 0 0 0 [] 0 0 0 0 [] [] false.
Example C07_type_4084_4085 : spec_count_of_clusters hdr_4084 = 4084 /\ fat_type (Gen.parse_header_geometry pf_init hdr_4084) = 12.
Proof. vm_compute. split; reflexivity. Qed.
Theorem C07_fat :
  (forall bs, bytes_ok bs -> forall i, 0 <= i < lenZ (parse12 bs) -> nthZ (parse12 bs) i = spec_fat_entry 12 bs i) /\
  (forall bs i, 0 <= i < lenZ (parse16 bs) -> nthZ (parse16 bs) i = spec_fat_entry 16 bs i) /\
  (forall bs i, 0 <= i < lenZ (parse32 bs) -> nthZ (parse32 bs) i = spec_fat_entry 32 bs i) /\
  (forall bs, lenZ (parse12 bs) = 2 * lenZ bs / 3).
Proof. exact (conj parse12_spec (conj parse16_spec (conj parse32_spec parse12_length))). Qed.
Print Assumptions C07_fat.
(* C07_dir / C07_tree (not proved): the slot scanner returns exactly the live entries of every directory the independent
   formatter can lay down; checked on generated foreign images against their construction. *)

Theorem C07_dir_slots : forall f b pend acc acc' pend' stop,
  scan_slots f b pend acc = Ok (acc', pend', stop) ->
  map strip_lfn acc' = map strip_lfn acc ++ map parse_short (live_slots f b).
Proof. exact scan_returns_live_slots. Qed.
Print Assumptions C07_dir_slots.
Example C07_dir_slots_example :
  let del := 229 :: repeat 65 31 in let a := repeat 66 11 ++ [32] ++ repeat 0 20 in let lf := [65] ++ repeat 97 10 ++ [15] ++ repeat 0 20 in
  live_slots 10 (del ++ lf ++ a ++ repeat 0 32 ++ a) = [a].
Proof. vm_compute. reflexivity. Qed.

(** what the reader ignores: a deleted slot (and the long-name slots before it), everything behind the end mark, and long-name runs that
    are incomplete or carry another name's checksum — the short entry is then shown under its short name *)
Theorem C07_deleted_slot : forall f slot rest pend acc, length slot = 32%nat -> nthZ slot 0 = 229 ->
  scan_slots (S f) (slot ++ rest) pend acc = scan_slots f rest [] acc.
Proof. exact scan_deleted_slot. Qed.
Print Assumptions C07_deleted_slot.
Theorem C07_end_mark : forall f slot rest pend acc, length slot = 32%nat -> nthZ slot 0 = 0 ->
  scan_slots (S f) (slot ++ rest) pend acc = Ok (acc, [], true).
Proof. exact scan_end_mark. Qed.
Print Assumptions C07_end_mark.
Theorem C07_orphans_ignored : forall f e rest pend acc, sentry_ok e ->
  lfn_complete pend = false \/ lfn_chk_ok pend (d_name e) = false ->
  scan_slots (S f) (ser_short e ++ rest) pend acc = scan_slots f rest [] (acc ++ [set_lfn e None]) /\ shown_name (set_lfn e None) = NShort (sfn_display (d_name e)).
Proof. exact scan_orphans_ignored. Qed.
Print Assumptions C07_orphans_ignored.

(** volume labels: an entry with the VOLUME_ID bit — whatever other attribute bits it carries, e.g. VOLUME_ID|ARCHIVE as other systems
    write it — is never listed and never found (C07-m5 recognised labels by masked equality) *)
Theorem C07_labels_ignored : forall es e, is_volid e = true ->
  ~ In e (ge_dirs es ++ ge_files es) /\ forall n, search_entry es n <> Some e.
Proof. exact labels_ignored. Qed.
Print Assumptions C07_labels_ignored.
Example C07_label_with_archive_bit : is_volid (mkDirent (repeat 65 11) 40 0 0 0 0 0 0 0 0 0 0 None) = true.
Proof. reflexivity. Qed.
