(** C07 — any specification-valid foreign volume is read correctly.  C07_type is about the GENERATED parse_header /
    __determine_fat_type code: for every boot sector that uses the 16-bit FAT size field exactly for FAT12/16 (what the
    specification prescribes) the width pyfatfs picks is the width of the cluster-count rule — both sides of 4085 and
    65525 are instances.  C07_fat: decoding of every FAT entry is the specification's formula. *)
From Coq Require Import ZArith List Bool.
From PyFatV Require Import Base.Bytes Base.PyEnv Gen.Pure Model.Codec Proofs.FatCodec Proofs.Geometry.
Import ListNotations.
Open Scope Z_scope.

Theorem C07_type : forall h, spec_coherent h -> fat_type (Gen.parse_header_geometry pf_init h) = spec_fat_type h.
Proof. exact fat_type_is_spec. Qed.
Print Assumptions C07_type.
Definition hdr_4084 : hdr := mkHdr [235;60;144] [] 512 1 1 2 64 4113 248 12 0 0 0 0 0 0 0 0 0 0 [] 0 0 0 0 [] [] false.
Example C07_type_4084_4085 : spec_count_of_clusters hdr_4084 = 4084 /\ fat_type (Gen.parse_header_geometry pf_init hdr_4084) = 12.
Proof. vm_compute. split; reflexivity. Qed.
Theorem C07_fat :
  (forall bs, bytes_ok bs -> forall i, 0 <= i < lenZ (parse12 bs) -> nthZ (parse12 bs) i = spec_fat_entry 12 bs i) /\
  (forall bs i, 0 <= i < lenZ (parse16 bs) -> nthZ (parse16 bs) i = spec_fat_entry 16 bs i) /\
  (forall bs i, 0 <= i < lenZ (parse32 bs) -> nthZ (parse32 bs) i = spec_fat_entry 32 bs i) /\
  (forall bs, lenZ (parse12 bs) = 2 * lenZ bs / 3).
Proof. exact (conj parse12_spec (conj parse16_spec (conj parse32_spec parse12_length))). Qed.
Print Assumptions C07_fat.
(* C07_dir / C07_tree (not proved): the slot scanner returns exactly the live entries of every directory the independent
   formatter can lay down; checked on generated foreign images against their construction. *)
