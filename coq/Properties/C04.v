(** C04 — cluster allocation on disk stays sound.  FAT-layer theorems about the model's allocator,
    linker and chain follower, for every FAT, hint and request size (no bound on table length).
    The whole-history statement (fsck of the closed image is empty after any op list) is NOT proved:
    it is C04_history below, kept as a comment; the layer theorems are what it is built from, and the
    history level is tied to the implementation byte for byte and judged by the independent fsck. *)
From Coq Require Import ZArith List Bool Sorted Lia Relations.
From PyFatV Require Import Base.Bytes Base.PyEnv Gen.Pure Model.Codec Model.Dir Model.FS Proofs.FatTable Proofs.FatCodec Proofs.Ownership Proofs.Device Proofs.DirCodec Proofs.DirState Proofs.Chains Proofs.FatBound.
Import ListNotations.
Open Scope Z_scope.

(** what [allocate] hands out: exactly the requested number of clusters, strictly increasing (hence pairwise
    distinct), each a FREE entry of the current FAT, inside the data area ([<= max_cluster]) and inside the FAT *)
Theorem C04_alloc : forall s size erase cs s',
  0 <= s_hint s -> allocate s size erase = Ok (cs, s') ->
  lenZ cs = Gen.calc_num_clusters (s_p s) size /\
  StronglySorted Z.lt cs /\
  Forall (fun c => 2 <= Gen.MIN_DATA_CLUSTER (ft s) <= c /\ c <= max_cluster s /\ c <= Gen.MAX_DATA_CLUSTER (ft s) /\
                   nthZ (s_fat s) c = Gen.FREE_CLUSTER (ft s) /\ s_hint s <= c < lenZ (s_fat s)) cs \/
  (Gen.MIN_DATA_CLUSTER (ft s) < 2).
Proof. exact allocate_sound. Qed.
Print Assumptions C04_alloc.
Example C04_min_cluster : Gen.MIN_DATA_CLUSTER 12 = 2 /\ Gen.MIN_DATA_CLUSTER 16 = 2 /\ Gen.MIN_DATA_CLUSTER 32 = 2.
Proof. repeat split; reflexivity. Qed.

(** linking the allocated clusters yields a well-formed chain ending in the end-of-chain mark ... *)
Theorem C04_link : forall cs fat eoc,
  cs <> [] -> StronglySorted Z.lt cs -> Forall (fun c => 0 <= c < lenZ fat) cs -> is_chain (link_chain fat cs eoc) eoc cs.
Proof. exact link_chain_is_chain. Qed.
Print Assumptions C04_link.
(** ... and touches no other entry: chains of other objects, the reserved entries 0 and 1 and bad-cluster marks survive *)
Theorem C04_link_frame : forall cs fat eoc j, 0 <= j -> Forall (fun c => 0 <= c) cs -> ~ In j cs ->
  nthZ (link_chain fat cs eoc) j = nthZ fat j.
Proof. exact link_chain_other. Qed.
Print Assumptions C04_link_frame.
Theorem C04_alloc_frame : forall s size cs s' j,
  0 <= s_hint s -> allocate s size false = Ok (cs, s') -> 0 <= j -> ~ In j cs -> 2 <= Gen.MIN_DATA_CLUSTER (ft s) ->
  nthZ (s_fat s') j = nthZ (s_fat s) j.
Proof. exact allocate_frame. Qed.
Print Assumptions C04_alloc_frame.

(** a chain that the follower reports as complete consists of consecutive links between data clusters and ends
    in an end-of-chain value; all its clusters are indices of the FAT *)
Theorem C04_chain : forall fuel t dm fat i l,
  chain_go fuel t dm fat i = (l, true) ->
  l <> [] /\ hd 0 l = i /\
  (forall k, (S k < length l)%nat -> nth (S k) l 0 = nthZ fat (nth k l 0) /\ is_data t dm (nthZ fat (nth k l 0)) = true) /\
  is_eoc t (nthZ fat (last l 0)) = true.
Proof. exact chain_go_ok_links. Qed.
Print Assumptions C04_chain.

(** every FAT copy receives the same bytes, and those bytes decode back to the in-memory table (C20) *)
Theorem C04_fat_codec : forall l, ent_ok 12 l -> parse12 (pack12 l) = l.
Proof. exact parse12_pack12. Qed.

(** ** The ownership invariant and its preservation by the four FAT operations.
    [owned lo hi eoc bad fat owns]: every chain in [owns] is well-formed (clusters in [lo,hi], consecutive links, [eoc] in the last
    one), no cluster occurs twice (no cross-links, no cycles), and every in-range entry that is neither free nor a bad mark
    belongs to one of the chains (no lost clusters).  For any table size, any number and length of chains.
    Model operations: [allocate] = scan + [link_chain] (C04_alloc gives the premises of C04_own_alloc), [free_chain] =
    [free_list] (FREE_CLUSTER = 0), chain extension in [write_data_to_cluster], the cut in [h_truncate]. *)
Theorem C04_own_alloc : forall lo hi eoc bad, 2 <= lo -> hi < bad -> hi < eoc -> bad <> eoc -> forall fat owns cs,
  owned lo hi eoc bad fat owns -> cs <> [] -> StronglySorted Z.lt cs ->
  Forall (fun c => in_range lo hi c /\ nthZ fat c = 0 /\ c < lenZ fat) cs ->
  owned lo hi eoc bad (link_chain fat cs eoc) (cs :: owns).
Proof. intros lo hi eoc bad Hlo Hbad Heoc Hbe. exact (owned_alloc lo hi eoc bad Hlo Hbad Heoc Hbe). Qed.
Print Assumptions C04_own_alloc.
Theorem C04_own_free : forall lo hi eoc bad, 2 <= lo -> hi < bad -> hi < eoc -> bad <> eoc -> forall fat ch owns,
  owned lo hi eoc bad fat (ch :: owns) -> Forall (fun c => c < lenZ fat) ch -> owned lo hi eoc bad (free_list fat ch) owns.
Proof. intros lo hi eoc bad Hlo Hbad Heoc Hbe. exact (owned_free lo hi eoc bad Hlo). Qed.
Print Assumptions C04_own_free.
Theorem C04_own_extend : forall lo hi eoc bad, 2 <= lo -> hi < bad -> hi < eoc -> bad <> eoc -> forall fat ch owns cs,
  owned lo hi eoc bad fat (ch :: owns) -> cs <> [] -> StronglySorted Z.lt cs ->
  Forall (fun c => in_range lo hi c /\ nthZ fat c = 0 /\ c < lenZ fat) cs ->
  last ch 0 < lenZ fat ->
  owned lo hi eoc bad (updZ (link_chain fat cs eoc) (last ch 0) (hd 0 cs)) ((ch ++ cs) :: owns).
Proof. intros lo hi eoc bad Hlo Hbad Heoc Hbe. exact (owned_extend lo hi eoc bad Hlo Hbad Heoc Hbe). Qed.
Print Assumptions C04_own_extend.
Theorem C04_own_cut : forall lo hi eoc bad, 2 <= lo -> hi < bad -> hi < eoc -> bad <> eoc -> forall fat a b owns,
  owned lo hi eoc bad fat ((a ++ b) :: owns) -> a <> [] -> b <> [] -> Forall (fun c => c < lenZ fat) (a ++ b) ->
  owned lo hi eoc bad (updZ (free_list fat b) (last a 0) eoc) (a :: owns).
Proof. intros lo hi eoc bad Hlo Hbad Heoc Hbe. exact (owned_cut lo hi eoc bad Hlo Hbad Heoc Hbe). Qed.
Print Assumptions C04_own_cut.
(** non-vacuity: a FAT12 table with two chains 2->3->EOC and 5->EOC, cluster 6 bad, the rest free *)
Example C04_owned_example : owned 2 8 4095 4087 [4088; 4095; 3; 4095; 0; 4095; 4087; 0; 0] [[2; 3]; [5]].
Proof.
  split; [|split].
  - repeat constructor; unfold in_range; cbn; try lia; reflexivity.
  - cbn. repeat constructor; cbn; intuition lia.
  - intros c Hr Hnz Hnb. unfold in_range in Hr. cbn.
    assert (c = 2 \/ c = 3 \/ c = 4 \/ c = 5 \/ c = 6 \/ c = 7 \/ c = 8) as Hc by lia.
    destruct Hc as [->|[->|[->|[->|[->|[->| ->]]]]]]; cbn in *; try tauto; try congruence.
Qed.
(* C04_history (not proved): forall ops s0, fsck (image s0) = [] -> fsck (image (close (run ops s0))) = []. *)

(** the executable chain follower against the link structure: it is sound (a chain reported complete is a path
    through the FAT ending in an end-of-chain value), complete (every such path of at most [fuel] clusters is
    returned) and duplicate-free; and after the allocator links freshly allocated clusters behind a chain, the
    follower sees exactly the old chain followed by the new clusters — no cluster lost, none shared. *)
Theorem C04_follower_sound : forall f t dm fat i l, chain_go f t dm fat i = (l, true) -> links t dm fat l /\ hd 0 l = i.
Proof. exact chain_go_links. Qed.
Print Assumptions C04_follower_sound.
Theorem C04_follower_complete : forall t dm fat l f, links t dm fat l -> (length l <= f)%nat -> chain_go f t dm fat (hd 0 l) = (l, true).
Proof. exact links_chain_go. Qed.
Print Assumptions C04_follower_complete.
Theorem C04_follower_nodup : forall f t dm fat i l, chain_go f t dm fat i = (l, true) -> NoDup l.
Proof. exact chain_go_nodup. Qed.
Print Assumptions C04_follower_nodup.
Theorem C04_extend_seen : forall t dm fat i ch new, vt t -> dok t dm ->
  chain_go (length fat) t dm fat i = (ch, true) -> new <> [] -> StronglySorted Z.lt new ->
  Forall (fun c => 2 <= c <= Gen.MAX_DATA_CLUSTER t /\ c < lenZ fat /\ nthZ fat c = 0) new ->
  let fat' := updZ (link_chain fat new (Gen.END_OF_CLUSTER_MAX t)) (last ch 0) (hd 0 new) in
  chain_go (length fat') t dm fat' i = (ch ++ new, true).
Proof. exact extend_chain. Qed.
Print Assumptions C04_extend_seen.
Example C04_extend_example :
  chain_go 9 12 4079 [4088; 4095; 3; 4095; 0; 4095; 0; 0; 0] 2 = ([2; 3], true) /\
  chain_go 9 12 4079 (updZ (link_chain [4088; 4095; 3; 4095; 0; 4095; 0; 0; 0] [4; 6] 4095) 3 4) 2 = ([2; 3; 4; 6], true).
Proof. vm_compute. split; reflexivity. Qed.

(** an invariant by induction over operations: every link stored in the FAT points at a cluster the volume really has
    ([fb]); every operation of the model preserves it (allocation links only clusters <= max_cluster, freeing writes 0,
    truncation writes an end mark, the dirty marks touch FAT[1] only), hence after ANY history every chain that starts
    inside the data area stays inside it — whatever the sector-rounded FAT could address beyond the last cluster *)
Theorem C04_links_bounded_step : forall s s', mstep s s' -> s_h s' = s_h s /\ s_p s' = s_p s /\ (fb s -> fb s').
Proof. exact mstep_K. Qed.
Print Assumptions C04_links_bounded_step.
Theorem C04_chains_stay_inside : forall s s' c, fb s -> clos_refl_trans st mstep s s' -> 2 <= c <= max_cluster s ->
  Forall (fun x => 2 <= x <= max_cluster s) (fst (chain s' c)).
Proof. exact history_chains_inside. Qed.
Print Assumptions C04_chains_stay_inside.

(** what no history changes in the FAT (the property's last clause): an operation only ever changes entries that were
    free or held a link / end mark and that belong to a cluster the volume really has.  So after ANY history of interface
    calls the table has the same length, the two reserved entries FAT[0] and FAT[1] are the same (only mount and close
    touch FAT[1]), every entry behind the last cluster is the same, every bad-cluster mark is still there, and so is every
    other reserved value.  [pre]: Proofs/Inside.v (sane geometry, free entries behind the last cluster); non-vacuity:
    C08_io_example *)
From PyFatV Require Import Proofs.BootSafe Proofs.Inside.
Theorem C04_reserved_and_bad_preserved : forall s s', pre s -> clos_refl_trans st wstep s s' ->
  lenZ (s_fat s') = lenZ (s_fat s) /\ nthZ (s_fat s') 0 = nthZ (s_fat s) 0 /\ nthZ (s_fat s') 1 = nthZ (s_fat s) 1 /\
  (forall i, max_cluster s < i -> nthZ (s_fat s') i = nthZ (s_fat s) i) /\
  (forall i, 0 <= i -> nthZ (s_fat s) i = Gen.BAD_CLUSTER (ft s) -> nthZ (s_fat s') i = Gen.BAD_CLUSTER (ft s)) /\
  (forall i, 0 <= i -> nthZ (s_fat s) i <> 0 -> used_val (ft s) (dmax s) (nthZ (s_fat s) i) = false -> nthZ (s_fat s') i = nthZ (s_fat s) i).
Proof. exact history_fat_frame. Qed.
Print Assumptions C04_reserved_and_bad_preserved.
(** one step, the general form: a changed entry was free or used, and is a cluster of the volume *)
Theorem C04_changed_entries : forall s s', pre s -> wstep s s' ->
  forall i, 0 <= i -> nthZ (s_fat s') i <> nthZ (s_fat s) i ->
  2 <= i <= max_cluster s /\ (nthZ (s_fat s) i = 0 \/ used_val (ft s) (dmax s) (nthZ (s_fat s) i) = true) /\
  0 <= nthZ (s_fat s') i <= Gen.END_OF_CLUSTER_MAX (ft s).
Proof. intros s s' Hp H. destruct (wstep_J s s' Hp H) as (_ & _ & _ & _ & _ & [_ C] & _). exact C. Qed.
Print Assumptions C04_changed_entries.

(** the follower of the model IS the follower of the source: one turn of [chain]'s loop, stated with the definitions regenerated from
    [PyFat.get_cluster_chain] on every run (refused cluster numbers, followed link values, end marks, everything else raises) *)
From PyFatV Require Import Proofs.GenChain.
Theorem C04_follower_from_source : forall s f i,
  chain_go (S f) (ft s) (dmax s) (vfat s) i =
  if Gen.chain_refuse (s_p s) (s_h s) (ft s) (lenZ (s_fat s)) i then ([], false) else
  let v := nthZ (s_fat s) i in
  let c := Gen.chain_class (s_p s) (s_h s) (ft s) v in
  if c =? 0 then (let '(r, ok) := chain_go f (ft s) (dmax s) (vfat s) v in (i :: r, ok))
  else if c =? 1 then ([i], true) else ([], false).
Proof. exact chain_step_gen. Qed.
Print Assumptions C04_follower_from_source.
