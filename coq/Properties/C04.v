(** C04 — cluster allocation on disk stays sound.  FAT-layer theorems about the model's allocator,
    linker and chain follower, for every FAT, hint and request size (no bound on table length).
    The whole-history statement (fsck of the closed image is empty after any op list) is NOT proved:
    it is C04_history below, kept as a comment; the layer theorems are what it is built from, and the
    history level is tied to the implementation byte for byte and judged by the independent fsck. *)
From Coq Require Import ZArith List Bool Sorted.
From PyFatV Require Import Base.Bytes Base.PyEnv Gen.Pure Model.Codec Model.Dir Model.FS Proofs.FatTable Proofs.FatCodec.
Import ListNotations.
Open Scope Z_scope.

(** what [allocate] hands out: exactly the requested number of clusters, strictly increasing (hence pairwise
    distinct), each a FREE entry of the current FAT, inside the data area ([<= max_cluster]) and inside the FAT *)
Theorem C04_alloc : forall s size erase cs s',
  0 <= s_hint s -> allocate s size erase = Ok (cs, s') ->
  lenZ cs = Gen.calc_num_clusters (s_p s) size /\
  StronglySorted Z.lt cs /\
  Forall (fun c => 2 <= Gen.MIN_DATA_CLUSTER (ft s) <= c /\ c <= max_cluster s /\ c <= Gen.MAX_DATA_CLUSTER (ft s) /\
                   nthZ (s_fat s) c = Gen.FREE_CLUSTER (ft s) /\ s_hint s <= c < lenZ (s_fat s)) cs \/
  (Gen.MIN_DATA_CLUSTER (ft s) < 2).
Proof. exact allocate_sound. Qed.
Print Assumptions C04_alloc.
Example C04_min_cluster : Gen.MIN_DATA_CLUSTER 12 = 2 /\ Gen.MIN_DATA_CLUSTER 16 = 2 /\ Gen.MIN_DATA_CLUSTER 32 = 2.
Proof. repeat split; reflexivity. Qed.

(** linking the allocated clusters yields a well-formed chain ending in the end-of-chain mark ... *)
Theorem C04_link : forall cs fat eoc,
  cs <> [] -> StronglySorted Z.lt cs -> Forall (fun c => 0 <= c < lenZ fat) cs -> is_chain (link_chain fat cs eoc) eoc cs.
Proof. exact link_chain_is_chain. Qed.
Print Assumptions C04_link.
(** ... and touches no other entry: chains of other objects, the reserved entries 0 and 1 and bad-cluster marks survive *)
Theorem C04_link_frame : forall cs fat eoc j, 0 <= j -> Forall (fun c => 0 <= c) cs -> ~ In j cs ->
  nthZ (link_chain fat cs eoc) j = nthZ fat j.
Proof. exact link_chain_other. Qed.
Print Assumptions C04_link_frame.
Theorem C04_alloc_frame : forall s size cs s' j,
  0 <= s_hint s -> allocate s size false = Ok (cs, s') -> 0 <= j -> ~ In j cs -> 2 <= Gen.MIN_DATA_CLUSTER (ft s) ->
  nthZ (s_fat s') j = nthZ (s_fat s) j.
Proof. exact allocate_frame. Qed.
Print Assumptions C04_alloc_frame.

(** a chain that the follower reports as complete consists of consecutive links between data clusters and ends
    in an end-of-chain value; all its clusters are indices of the FAT *)
Theorem C04_chain : forall fuel t fat i l,
  chain_go fuel t fat i = (l, true) ->
  l <> [] /\ hd 0 l = i /\
  (forall k, (S k < length l)%nat -> nth (S k) l 0 = nthZ fat (nth k l 0) /\ is_data t (nthZ fat (nth k l 0)) = true) /\
  is_eoc t (nthZ fat (last l 0)) = true.
Proof. exact chain_go_ok_links. Qed.
Print Assumptions C04_chain.

(** every FAT copy receives the same bytes, and those bytes decode back to the in-memory table (C20) *)
Theorem C04_fat_codec : forall l, ent_ok 12 l -> parse12 (pack12 l) = l.
Proof. exact parse12_pack12. Qed.

(* C04_history (not proved): forall ops s0, fsck (image s0) = [] -> fsck (image (close (run ops s0))) = []. *)
