(** C03 — everything acknowledged is on the device.  In the model directories have no in-memory copy at all
    (they are re-read from the device), so "the directory half" holds by construction of the model and is what the
    tie tests on the implementation.  Proved here: a FAT flush writes the serialised in-memory table to EVERY copy,
    and that serialisation decodes back to the table (so a remount sees the chains the live object sees); the
    block-sparse device is a flat byte array (a read returns what the last covering write put there, writes change
    nothing else); and what [write_dir] puts on the device [read_dir] — which is all a later mount has — reads back,
    entry for entry, for the fixed root region and for cluster-chain directories. *)
From Coq Require Import ZArith List Bool Lia FMapPositive.
From PyFatV Require Import Base.Bytes Base.PyEnv Gen.Pure Model.Codec Model.Dir Model.FS Proofs.Session Proofs.FatCodec Proofs.Device Proofs.DirCodec Proofs.DirState Proofs.Chains Proofs.FatState Proofs.HdrState Proofs.Identity Proofs.Remount Proofs.Names Proofs.Dots.
Import ListNotations.
Open Scope Z_scope.

Theorem C03_flush_all_copies : forall n s b i s', flush_copies s b i n = Ok s' ->
  exists l, s_log s' = l ++ s_log s /\ length l = n /\
            Forall (fun w => snd w = b) l /\ s_fat s' = s_fat s /\ s_h s' = s_h s /\ s_ro s' = s_ro s /\ s_p s' = s_p s.
Proof. exact flush_copies_log. Qed.
Print Assumptions C03_flush_all_copies.
Theorem C03_fat_decodes_back :
  (forall l, ent_ok 12 l -> parse12 (pack12 l) = l) /\ (forall l, ent_ok 16 l -> parse16 (pack16 l) = l) /\
  (forall l hi, ent_ok 28 l -> hi_ok hi -> length hi = length l -> parse32 (pack32 l hi) = l /\ parse32hi (pack32 l hi) = hi).
Proof. exact (conj parse12_pack12 (conj parse16_pack16 parse32_pack32)). Qed.
Print Assumptions C03_fat_decodes_back.
Theorem C03_device_read_after_write : forall d sz off data, dev_ok d -> 0 <= off -> off + lenZ data <= sz ->
  dread (dwrite d off data) sz off (lenZ data) = data.
Proof. exact read_after_write. Qed.
Print Assumptions C03_device_read_after_write.
Theorem C03_device_frame : forall d sz off data off' len, dev_ok d -> 0 <= off -> 0 <= off' ->
  off' + len <= off \/ off + lenZ data <= off' -> dread (dwrite d off data) sz off' len = dread d sz off' len.
Proof. exact read_elsewhere. Qed.
Print Assumptions C03_device_frame.
Theorem C03_root_dir_persists : forall s es s',
  dev_ok (s_dev s) -> Forall entry_ok es -> 0 <= root_addr s -> 0 <= BPB_RootEntCnt (s_h s) ->
  BPB_RootEntCnt (s_h s) * 32 = root_dir_sectors (s_p s) * bps s ->
  root_addr s + root_dir_sectors (s_p s) * bps s <= s_dsize s ->
  write_dir s (-1) es = Ok s' -> read_dir s' (-1) = Ok (map canon es).
Proof. exact root_dir_roundtrip. Qed.
Print Assumptions C03_root_dir_persists.
(** hypotheses 8-10 speak about the final state: the directory's chain is intact, inside the device and has room;
    that [write_dir]'s own allocation always establishes them is not proved (C03_remount below). *)
Theorem C03_chain_dir_persists : forall s c es s' cs,
  dev_ok (s_dev s) -> geom_ok s -> 0 <= s_hint s -> 2 <= Gen.MIN_DATA_CLUSTER (ft s) -> Forall entry_ok es -> c <> -1 ->
  write_dir s c es = Ok s' ->
  chain_all s' c = Ok cs -> Forall (inside s) cs -> lenZ (ser_dir es) <= lenZ cs * bpc s ->
  read_dir s' c = Ok (map canon es).
Proof. exact chain_dir_roundtrip. Qed.
Print Assumptions C03_chain_dir_persists.
(** ... and with hypotheses on the state BEFORE the write only: the directory's chain is intact and inside the device,
    every cluster the allocator may hand out lies inside the device.  Growth of the directory (allocation, linking
    behind the old last cluster, zero fill) is covered. *)
Theorem C03_dir_persists : forall s c es s' ch,
  dev_ok (s_dev s) -> geom_ok s -> vt (ft s) -> 0 <= s_hint s -> Forall entry_ok es -> c <> -1 ->
  chain s c = (ch, true) -> Forall (inside s) ch -> vol_ok s ->
  write_dir s c es = Ok s' -> read_dir s' c = Ok (map canon es).
Proof. exact write_dir_read_dir. Qed.
Print Assumptions C03_dir_persists.
(** the FAT half: after a flush, decoding ANY copy on the device — what a later mount does — gives back the in-memory
    table (FAT32: with its preserved reserved bits), and nothing outside the FAT region has changed *)
Theorem C03_fat_persists : forall s s',
  dev_ok (s_dev s) -> fat_wf s -> 0 <= fat_start s -> 0 <= BPB_NumFATs (s_h s) ->
  lenZ (pack_fat (ft s) (s_fat s) (s_hi s)) = fat_bytes s ->
  fat_start s + BPB_NumFATs (s_h s) * fat_bytes s <= s_dsize s ->
  flush_fat s = Ok s' ->
  s_fat s' = s_fat s /\ s_hi s' = s_hi s /\
  (forall k, 0 <= k < BPB_NumFATs (s_h s) ->
     parse_fat (ft s) (rd s' (fat_start s + k * fat_bytes s) (fat_bytes s)) = s_fat s /\
     (ft s = 32 -> parse32hi (rd s' (fat_start s + k * fat_bytes s) (fat_bytes s)) = s_hi s)) /\
  (forall off len, 0 <= off -> off + len <= fat_start s \/ fat_start s + BPB_NumFATs (s_h s) * fat_bytes s <= off ->
     rd s' off len = rd s off len).
Proof. exact flush_fat_persists. Qed.
Print Assumptions C03_fat_persists.
(** the boot-sector third: parsing what [ser_hdr] serialises gives the header back, and after [write_bpb] the first
    sector of the device parses to the in-memory header *)
Theorem C03_header_decodes_back : forall h tail, hdr_wf h -> parse_hdr (ser_hdr h ++ tail) = h.
Proof. exact parse_ser_hdr. Qed.
Print Assumptions C03_header_decodes_back.
Theorem C03_bootsector_persists : forall s s',
  dev_ok (s_dev s) -> hdr_wf (s_h s) -> 512 <= s_dsize s ->
  (ft s = Gen.FAT_TYPE_FAT32 -> 512 <= BPB_BkBootSec (s_h s) * bps s) ->
  write_bpb s = Ok s' ->
  parse_hdr (rd s' 0 512) = s_h s /\ s_h s' = s_h s /\ s_fat s' = s_fat s /\ dev_ok (s_dev s').
Proof. exact write_bpb_persists. Qed.
Print Assumptions C03_bootsector_persists.
(** ... and the three composed: closing, then mounting the device again read-only, yields EXACTLY the closed state
    (header, geometry, table, reserved bits, device; log, handles and hint reset), reported clean; so every read-only
    observation of the re-mounted filesystem is the observation of the closed one.  The hypotheses are the invariants a
    mount establishes (well-formed verified header, geometry computed from it, table as long as the FAT region, FAT12:
    table already flushed) plus the layout facts of any valid volume. *)
Theorem C03_remount_closed : forall s s2 pc es,
  let bk := BPB_BkBootSec (s_h s) * bps s in
  dev_ok (s_dev s) ->
  hdr_wf (s_h s) -> Gen.verify_bpb_header (s_h s) = Ok tt ->
  s_p s = set_bytes_per_cluster (Gen.parse_header_geometry pf_init (s_h s)) (BPB_BytsPerSec (s_h s) * BPB_SecPerClus (s_h s)) ->
  0 <= BS_Reserved1 (s_h s) < 256 -> 512 <= s_dsize s ->
  512 <= fat_start s -> 1 <= BPB_NumFATs (s_h s) -> fat_start s + BPB_NumFATs (s_h s) * fat_bytes s <= s_dsize s ->
  (ft s = Gen.FAT_TYPE_FAT32 -> 512 <= bk /\ bk + 512 <= fat_start s) ->
  fat_wf (upd_fat s (fat_c s) (s_hint s)) -> lenZ (pack_fat (ft s) (fat_c s) (s_hi s)) = fat_bytes s ->
  (ft s <> 32 -> s_hi s = []) ->
  (shutdown_mask (ft s) = None -> parse_fat (ft s) (rd s (fat_start s) (fat_bytes s)) = s_fat s) ->
  (forall m, shutdown_mask (ft s) = Some m -> Z.land (Z.lor (nthZ (s_fat s) 1) m) m = m /\ 1 < lenZ (s_fat s)) ->
  mark_clean s = Ok s2 ->
  read_dir s2 (root_loc s2) = Ok es ->
  mount (s_dev s2) (s_dsize s) true pc = Ok (reset s2 true pc, false).
Proof. exact close_then_mount_ro. Qed.
Print Assumptions C03_remount_closed.
Theorem C03_remounted_dirs : forall s ro pc loc, read_dir (reset s ro pc) loc = read_dir s loc.
Proof. exact read_dir_reset. Qed.
Print Assumptions C03_remounted_dirs.
(* C03_remount over histories (not proved): for all histories and quiescent states, tree_of (mount (image s)) = tree_of s. *)

(** the hypotheses are satisfiable: a 4113-sector FAT12 volume (64 root entries, 512-byte clusters), an entry with a
    14-unit long name, written to the root region and to the one-cluster directory at cluster 2, read back *)
Definition ex_hdr : hdr := mkHdr [235;60;144] [] 512 1 1 2 64 4113 248 12 0 0 0 0 0 0 0 0 0 0 [] 0 0 0 0 [] [] false.
Definition ex_st : st :=
  mkSt ex_hdr (set_bytes_per_cluster (Gen.parse_header_geometry pf_init ex_hdr) 512) false false ([4088; 4095; 4095] ++ repeat 0 100) [] 0
       (PositiveMap.empty _) (4113 * 512) [] [].
Definition ex_name : list Z := [65;66;67;32;32;32;32;32;84;88;84].
Definition ex_units : list Z := [104;105;32;116;104;101;114;101;46;116;120;116;49;50].
Definition ex_ent : dirent := mkDirent ex_name 32 0 0 100 200 300 0 400 500 7 1234 (Some (make_lfn ex_units ex_name)).
Lemma ex_ent_ok : entry_ok ex_ent.
Proof.
  split.
  - unfold sentry_ok, short_ok. cbn. repeat split; try lia; discriminate.
  - cbn [d_lfn ex_ent d_name]. apply make_lfn_ok; [|vm_compute; split; discriminate].
    unfold ex_units. repeat constructor; unfold Names.unit_ok; lia.
Qed.
Definition ex_after (loc:Z) : st := match write_dir ex_st loc [ex_ent; ex_ent] with Ok s => s | Err _ => ex_st end.
Lemma ex_entries_ok : Forall entry_ok [ex_ent; ex_ent].
Proof. constructor; [apply ex_ent_ok|constructor; [apply ex_ent_ok|constructor]]. Qed.
Definition fixed_root : Z := -1.
Example C03_root_example :
  write_dir ex_st fixed_root [ex_ent; ex_ent] = Ok (ex_after fixed_root) /\
  read_dir (ex_after fixed_root) fixed_root = Ok (map canon [ex_ent; ex_ent]) /\
  dev_ok (s_dev ex_st) /\ Forall entry_ok [ex_ent; ex_ent] /\ 0 <= root_addr ex_st /\ 0 <= BPB_RootEntCnt (s_h ex_st) /\
  BPB_RootEntCnt (s_h ex_st) * 32 = root_dir_sectors (s_p ex_st) * bps ex_st /\
  root_addr ex_st + root_dir_sectors (s_p ex_st) * bps ex_st <= s_dsize ex_st.
Proof.
  assert (E : write_dir ex_st fixed_root [ex_ent; ex_ent] = Ok (ex_after fixed_root)) by (vm_compute; reflexivity).
  assert (H3 : 0 <= root_addr ex_st) by (vm_compute; discriminate).
  assert (H3' : 0 <= BPB_RootEntCnt (s_h ex_st)) by (vm_compute; discriminate).
  assert (H4 : BPB_RootEntCnt (s_h ex_st) * 32 = root_dir_sectors (s_p ex_st) * bps ex_st) by (vm_compute; reflexivity).
  assert (H5 : root_addr ex_st + root_dir_sectors (s_p ex_st) * bps ex_st <= s_dsize ex_st) by (vm_compute; discriminate).
  split; [exact E|]. split; [|auto 10 using dev_ok_empty, ex_entries_ok].
  exact (root_dir_roundtrip ex_st [ex_ent; ex_ent] (ex_after fixed_root) dev_ok_empty ex_entries_ok H3 H3' H4 H5 E).
Qed.
Example C03_chain_example :
  write_dir ex_st 2 [ex_ent; ex_ent] = Ok (ex_after 2) /\ read_dir (ex_after 2) 2 = Ok (map canon [ex_ent; ex_ent]) /\
  chain_all (ex_after 2) 2 = Ok [2] /\ geom_ok ex_st /\ Forall (inside ex_st) [2] /\
  lenZ (ser_dir [ex_ent; ex_ent]) <= lenZ [2] * bpc ex_st.
Proof.
  assert (E : write_dir ex_st 2 [ex_ent; ex_ent] = Ok (ex_after 2)) by (vm_compute; reflexivity).
  assert (Hc : chain_all (ex_after 2) 2 = Ok [2]) by (vm_compute; reflexivity).
  assert (G : geom_ok ex_st) by (vm_compute; repeat split; try reflexivity; discriminate).
  assert (I : Forall (inside ex_st) [2]) by (constructor; [vm_compute; split; discriminate|constructor]).
  assert (R : lenZ (ser_dir [ex_ent; ex_ent]) <= lenZ [2] * bpc ex_st) by (vm_compute; discriminate).
  assert (Hh : 0 <= s_hint ex_st) by (vm_compute; discriminate).
  assert (Hm : 2 <= Gen.MIN_DATA_CLUSTER (ft ex_st)) by (vm_compute; discriminate).
  assert (Hn : 2 <> -1) by discriminate.
  split; [exact E|]. split; [|auto 10].
  exact (chain_dir_roundtrip ex_st 2 [ex_ent; ex_ent] (ex_after 2) [2] dev_ok_empty G Hh Hm ex_entries_ok Hn E Hc I R).
Qed.

(** growth: 20 entries with long names (60 slots = 1920 bytes) into the one-cluster directory at cluster 2 *)
Lemma ex_vol_ok : vol_ok ex_st.
Proof.
  intros c Hc. unfold inside. split; [lia|]. rewrite cluster_addr_lin by (vm_compute; repeat split; try reflexivity; discriminate).
  change (max_cluster ex_st) with 4085 in Hc. change (bpc ex_st) with 512. change (s_dsize ex_st) with (4113 * 512).
  change (first_data_sector (s_p ex_st)) with 29. change (BPB_BytsPerSec (s_h ex_st)) with 512. lia.
Qed.
Definition ex_many : list dirent := repeat ex_ent 20.
Definition ex_grown : st := match write_dir ex_st 2 ex_many with Ok s => s | Err _ => ex_st end.
Example C03_growth_example :
  write_dir ex_st 2 ex_many = Ok ex_grown /\ chain ex_st 2 = ([2], true) /\ chain ex_grown 2 = ([2; 3; 4; 5], true) /\
  read_dir ex_grown 2 = Ok (map canon ex_many).
Proof.
  assert (E : write_dir ex_st 2 ex_many = Ok ex_grown) by (vm_compute; reflexivity).
  split; [exact E|]. split; [vm_compute; reflexivity|]. split; [vm_compute; reflexivity|].
  assert (G : geom_ok ex_st) by (vm_compute; repeat split; try reflexivity; discriminate).
  assert (V : vt (ft ex_st)) by (left; reflexivity).
  assert (Hh : 0 <= s_hint ex_st) by (vm_compute; discriminate).
  assert (Hes : Forall entry_ok ex_many) by (apply Forall_forall; intros x Hx; apply repeat_spec in Hx; subst x; apply ex_ent_ok).
  assert (Hn : 2 <> -1) by discriminate.
  assert (Hc : chain ex_st 2 = ([2], true)) by (vm_compute; reflexivity).
  assert (I : Forall (inside ex_st) [2]) by (constructor; [vm_compute; split; discriminate|constructor]).
  exact (write_dir_read_dir ex_st 2 ex_many ex_grown [2] dev_ok_empty G V Hh Hes Hn Hc I ex_vol_ok E).
Qed.

(** FAT half, non-vacuity: the same volume with its full 4096-entry (12-sector) table *)
Definition ex_fat : list Z := [4088; 4095; 4095; 5; 4095; 4095] ++ repeat 0 4090.
Definition ex_st2 : st :=
  mkSt ex_hdr (set_bytes_per_cluster (Gen.parse_header_geometry pf_init ex_hdr) 512) false false ex_fat [] 0
       (PositiveMap.empty _) (4113 * 512) [] [].
Example C03_fat_example :
  dev_ok (s_dev ex_st2) /\ fat_wf ex_st2 /\ 0 <= fat_start ex_st2 /\ BPB_NumFATs (s_h ex_st2) = 2 /\
  lenZ (pack_fat (ft ex_st2) (s_fat ex_st2) (s_hi ex_st2)) = fat_bytes ex_st2 /\
  fat_start ex_st2 + BPB_NumFATs (s_h ex_st2) * fat_bytes ex_st2 <= s_dsize ex_st2 /\
  exists s', flush_fat ex_st2 = Ok s'.
Proof.
  split; [apply dev_ok_empty|]. split.
  - left. split; [reflexivity|]. unfold ent_ok. cbn [s_fat ex_st2]. unfold ex_fat. apply Forall_app. split.
    + repeat constructor; lia.
    + apply Forall_forall. intros x Hx. apply repeat_spec in Hx. subst x. lia.
  - split; [vm_compute; discriminate|]. split; [reflexivity|]. split; [vm_compute; reflexivity|]. split; [vm_compute; discriminate|].
    destruct (flush_fat ex_st2) as [s'|] eqn:E; [eexists; reflexivity|vm_compute in E; discriminate].
Qed.

(** boot-sector third, non-vacuity: a well-formed FAT12 header and a well-formed FAT32 header *)
Definition ex_hdr12 : hdr := mkHdr [235;60;144] (repeat 77 8) 512 1 1 2 64 4113 248 12 0 0 0 0 0 0 0 0 0 0 [] 128 0 41 305419896 (repeat 32 11) (repeat 70 8) false.
Definition ex_hdr32 : hdr := mkHdr [235;88;144] (repeat 77 8) 512 1 32 2 0 0 248 0 0 0 0 70000 540 0 0 2 1 6 (repeat 0 12) 128 1 41 7 (repeat 32 11) (repeat 70 8) true.
Example C03_header_example : hdr_wf ex_hdr12 /\ hdr_wf ex_hdr32 /\
  parse_hdr (ser_hdr ex_hdr12 ++ repeat 0 450) = ex_hdr12 /\ parse_hdr (ser_hdr ex_hdr32 ++ repeat 0 422) = ex_hdr32.
Proof.
  assert (H12 : hdr_wf ex_hdr12) by (split; [vm_compute; repeat split; try discriminate; reflexivity | vm_compute; repeat split; reflexivity]).
  assert (H32 : hdr_wf ex_hdr32) by (split; [vm_compute; repeat split; try discriminate; reflexivity | reflexivity]).
  split; [exact H12|]. split; [exact H32|]. split; apply parse_ser_hdr; assumption.
Qed.

(** remount, non-vacuity: the FAT16 volume of C16's example, dirty after its mount, closed and mounted again read-only *)
From PyFatV Require Import Properties.C16.
Example C03_remount_example :
  mark_clean ex16_s1 = Ok ex16_s2 /\ mount (s_dev ex16_s2) (s_dsize ex16_s1) true false = Ok (reset ex16_s2 true false, false) /\
  s_fat ex16_s2 <> s_fat ex16_s1 /\ s_h ex16_s2 <> s_h ex16_s1.
Proof.
  assert (E2 : mark_clean ex16_s1 = Ok ex16_s2) by (vm_compute; reflexivity).
  split; [exact E2|]. split.
  - assert (Hd : dev_ok (s_dev ex16_s1)).
    { destruct C16_mount_close_example as (_ & _ & _). (* the device of ex16_s1 is a fold of writes over the empty device *)
      assert (E1 : mark_dirty ex16_s0 = Ok ex16_s1) by (vm_compute; reflexivity).
      destruct (mark_dirty_shape _ _ E1) as ((_ & D1) & _). rewrite D1. apply apply_log_ok.
      - unfold ex16_s0. destruct (do a <- write_bpb ex16_init; flush_fat a) as [sx|] eqn:Ex; [|vm_compute in Ex; discriminate].
        cbn [s_dev upd_dev]. destruct (write_bpb ex16_init) as [sa|] eqn:Ea; [|discriminate]. cbn [bind] in Ex.
        apply wrote_write_bpb in Ea. unfold flush_fat in Ex. destruct (s_ro sa); [discriminate|]. apply wrote_flush_copies in Ex.
        destruct Ex as (_ & Db & _). rewrite Db, (proj1 (proj2 Ea)). apply apply_log_ok; [apply apply_log_ok; [apply dev_ok_empty|]|].
        + apply Forall_forall. intros w Hw. assert (Hb : forallb (fun w => 0 <=? fst w) (bpbW (s_h ex16_init) (ft ex16_init =? Gen.FAT_TYPE_FAT32) (BPB_BkBootSec (s_h ex16_init) * bps ex16_init)) = true) by (vm_compute; reflexivity).
          rewrite forallb_forall in Hb. specialize (Hb w Hw). lia.
        + apply Forall_forall. intros w Hw.
          match type of Hw with In _ ?L => assert (Hb : forallb (fun w => 0 <=? fst w) L = true) end.
          { destruct Ea as (_ & _ & Hh & Hp & Hf & Hhi & _). unfold fat_start, fat_bytes, bps, ft. rewrite Hh, Hp, Hf, Hhi. vm_compute. reflexivity. }
          rewrite forallb_forall in Hb. specialize (Hb w Hw). lia.
      - apply Forall_forall. intros w Hw.
        match type of Hw with In _ ?L => assert (Hb : forallb (fun w => 0 <=? fst w) L = true) by (vm_compute; reflexivity) end.
        rewrite forallb_forall in Hb. specialize (Hb w Hw). lia. }
    assert (Hroot : exists es, read_dir ex16_s2 (root_loc ex16_s2) = Ok es) by (eexists; vm_compute; reflexivity).
    destruct Hroot as (es & Hroot).
    apply (close_then_mount_ro ex16_s1 ex16_s2 false es Hd).
    + split; [vm_compute; repeat split; try discriminate; reflexivity | vm_compute; repeat split; reflexivity].
    + vm_compute. reflexivity.
    + vm_compute. reflexivity.
    + vm_compute. split; [discriminate|reflexivity].
    + vm_compute. discriminate.
    + vm_compute. discriminate.
    + vm_compute. discriminate.
    + vm_compute. discriminate.
    + intros H. vm_compute in H. discriminate.
    + right. left. split; [vm_compute; reflexivity|]. unfold ent_ok. apply Forall_forall. intros x Hx.
      assert (Hb : forallb (fun x => (0 <=? x) && (x <? 65536)) (s_fat (upd_fat ex16_s1 (fat_c ex16_s1) (s_hint ex16_s1))) = true) by (vm_compute; reflexivity).
      rewrite forallb_forall in Hb. specialize (Hb x Hx). change (2 ^ 16) with 65536. lia.
    + vm_compute. reflexivity.
    + intros _. vm_compute. reflexivity.
    + intros H. vm_compute in H. discriminate.
    + intros m Hm. vm_compute in Hm. inversion Hm; subst m. vm_compute. split; reflexivity.
    + exact E2.
    + exact Hroot.
  - split; intro H.
    + apply (f_equal (fun l => nthZ l 1)) in H. vm_compute in H. discriminate.
    + apply (f_equal BS_Reserved1) in H. vm_compute in H. discriminate.
Qed.

(** nothing acknowledged exists in memory only — the time stamps of a re-created (wiped) file included: the operation always rewrites the
    directory with the entry carrying the new times and flushes the FAT, also when the file was already empty *)
Theorem C03_create_wipe_rewrites_directory : forall s path t s' ploc e,
  get_dir_entry s path = Ok (EAt ploc e) -> is_dir e = false ->
  op_create s path true t = Ok (true, s') ->
  exists es s1 s2,
    read_dir s ploc = Ok es /\
    (if get_cluster e =? 0 then s1 = s else free_chain s (get_cluster e) = Ok s1) /\
    write_dir s1 ploc (map (fun x => if list_eqb (d_name x) (d_name e)
                                      then set_lfn (set_size (set_cluster (set_times e (d_crttime e) (d_crtdate e) (date_of t) (time_of t) (date_of t)) 0) 0) (d_lfn x)
                                      else x) es) = Ok s2 /\
    flush_fat s2 = Ok s'.
Proof. exact create_wipe_rewrites_directory. Qed.
Print Assumptions C03_create_wipe_rewrites_directory.

(** ** C03 over histories, the FAT third (Proofs/Quiesce.v).  [qinv]: the invariants of a mounted volume (sane geometry, well-formed table that
    fills its region, well-formed device) — preserved by EVERY interface call (C03_invariants_preserved).  [synced]: every FAT copy on the device
    decodes to the in-memory table.  create, makedir, remove, removedir and the close of a handle keep / re-establish it (C03_quiescent_synced);
    writes through an open handle change the table in memory only, and whatever happened before, a removal or a FAT flush puts all of it on the
    device (C03_flush_after_anything).  With C03_dir_persists (directories are read from the device) and C03_remount_closed this is the
    model-level content of "nothing that the interface reports exists only in memory" at the points the property names: no handle open. *)
From Coq Require Import Relations.
From PyFatV Require Import Proofs.FatBound Proofs.BootSafe Proofs.Inside Proofs.Quiesce Proofs.Bracket.
Theorem C03_invariants_preserved : forall s s', qinv s -> clos_refl_trans st wstep s s' -> qinv s'.
Proof. exact history_qinv. Qed.
Print Assumptions C03_invariants_preserved.
Theorem C03_quiescent_synced : forall s s', qinv s -> synced s -> clos_refl_trans st qstep s s' -> qinv s' /\ synced s'.
Proof. exact quiescent_history_synced. Qed.
Print Assumptions C03_quiescent_synced.
Theorem C03_flush_after_anything : forall s s1 s2, qinv s -> clos_refl_trans st wstep s s1 ->
  (exists p, op_remove s1 p = Ok s2) \/ (exists p, op_removedir s1 p = Ok s2) \/ (exists x, flush_fat s1 = Ok s2 /\ x = tt) -> synced s2.
Proof. exact any_history_then_flush_synced. Qed.
Print Assumptions C03_flush_after_anything.
(** non-vacuity: the FAT16 volume of C16's example after its dirty marking satisfies [qinv] and [synced]; a makedir and a create are
    quiescent steps from it *)
From PyFatV Require Import Properties.C11.
Definition ex03_c : st := match op_create ex11_a [ex_nameD; ex_nameF] false (2020, 1, 1, 0, 0, 2) with Ok (_, s) => s | Err _ => ex11_a end.
Example C03_quiescent_example : qinv ex16_s1 /\ synced ex16_s1 /\ clos_refl_trans st qstep ex16_s1 ex03_c /\ s_fat ex03_c <> s_fat ex16_s1.
Proof.
  destruct C11_history_example as (Hs & _).
  assert (Hpre : pre ex16_s1).
  { unfold pre. split; [right; left; vm_compute; reflexivity|]. split; [|vm_compute; discriminate].
    unfold geo. repeat (split; [vm_compute; first [reflexivity|discriminate]|]). vm_compute. discriminate. }
  split.
  { split; [exact Hpre|]. split; [exact Hs|]. split; [apply dev_ok_of_forallb; vm_compute; reflexivity|]. split.
    - right. left. split; [vm_compute; reflexivity|]. unfold ent_ok. apply Forall_forall. intros x Hx.
      assert (Hb : forallb (fun x => (0 <=? x) && (x <? 65536)) (s_fat ex16_s1) = true) by (vm_compute; reflexivity).
      rewrite forallb_forall in Hb. specialize (Hb x Hx). change (2 ^ 16) with 65536. lia.
    - split; [vm_compute; reflexivity|vm_compute; discriminate]. }
  split.
  { intros k Hk. assert (Hn : BPB_NumFATs (s_h ex16_s1) = 2) by (vm_compute; reflexivity). rewrite Hn in Hk.
    assert (k = 0 \/ k = 1) as [-> | ->] by lia; (split; [vm_compute; reflexivity|intros H; vm_compute in H; discriminate]). }
  split.
  - apply rt_trans with ex11_a; apply rt_step.
    + apply (qs_makedir ex16_s1 [ex_nameD] false (2020, 1, 1, 0, 0, 0) ex11_a). vm_compute. reflexivity.
    + assert (E : exists b, op_create ex11_a [ex_nameD; ex_nameF] false (2020, 1, 1, 0, 0, 2) = Ok (b, ex03_c)).
      { unfold ex03_c. destruct (op_create ex11_a _ _ _) as [[b s]|] eqn:E; [exists b; reflexivity|vm_compute in E; discriminate]. }
      destruct E as (b & E). exact (qs_create _ _ _ _ _ _ E).
  - intro H. apply (f_equal (fun l => nthZ l 3)) in H. vm_compute in H. discriminate.
Qed.

(** ** ... and composed (Proofs/RemountHist.v): a mounted volume, ANY history of create / makedir / remove / removedir / handle close, then
    close — mounting the device again yields EXACTLY the closed state (header, geometry, table, reserved bits, device), reported clean; with
    C03_remounted_dirs every directory, hence every lookup and listing, reads the same.  The premises are about the state the history starts
    from (what a mount establishes); nothing is assumed about the states in between. *)
From PyFatV Require Import Proofs.RemountHist.
Theorem C03_remount_after_history : forall s s1 s2 pc es,
  qinv s -> synced s ->
  hdr_wf (s_h s) -> Gen.verify_bpb_header (s_h s) = Ok tt ->
  s_p s = set_bytes_per_cluster (Gen.parse_header_geometry pf_init (s_h s)) (BPB_BytsPerSec (s_h s) * BPB_SecPerClus (s_h s)) ->
  0 <= BS_Reserved1 (s_h s) < 256 -> 512 <= s_dsize s -> 1 <= BPB_NumFATs (s_h s) ->
  (ft s = Gen.FAT_TYPE_FAT32 -> 512 <= BPB_BkBootSec (s_h s) * bps s /\ BPB_BkBootSec (s_h s) * bps s + 512 <= fat_start s) ->
  (ft s <> 32 -> s_hi s = []) -> 1 < lenZ (s_fat s) ->
  clos_refl_trans st qstep s s1 -> mark_clean s1 = Ok s2 -> read_dir s2 (root_loc s2) = Ok es ->
  mount (s_dev s2) (s_dsize s) true pc = Ok (reset s2 true pc, false).
Proof. exact remount_after_quiescent_history. Qed.
Print Assumptions C03_remount_after_history.
(** non-vacuity: the history of C03_quiescent_example (a makedir and a create on the FAT16 volume), closed and mounted again *)
Definition ex03_d : st := match mark_clean ex03_c with Ok s => s | Err _ => ex03_c end.
Example C03_remount_after_history_example :
  mount (s_dev ex03_d) (s_dsize ex16_s1) true false = Ok (reset ex03_d true false, false) /\ s_fat ex03_d <> s_fat ex16_s1.
Proof.
  destruct C03_quiescent_example as (Hq & Hsy & Hh & Hne).
  assert (Ec : mark_clean ex03_c = Ok ex03_d) by (vm_compute; reflexivity).
  assert (Hroot : exists es, read_dir ex03_d (root_loc ex03_d) = Ok es) by (eexists; vm_compute; reflexivity).
  destruct Hroot as (es & Hroot). split.
  - apply (remount_after_quiescent_history ex16_s1 ex03_c ex03_d false es Hq Hsy).
    + split; [vm_compute; repeat split; try discriminate; reflexivity | vm_compute; repeat split; reflexivity].
    + vm_compute. reflexivity.
    + vm_compute. reflexivity.
    + vm_compute. split; [discriminate|reflexivity].
    + vm_compute. discriminate.
    + vm_compute. discriminate.
    + intros H. vm_compute in H. discriminate.
    + intros _. vm_compute. reflexivity.
    + vm_compute. reflexivity.
    + exact Hh.
    + exact Ec.
    + exact Hroot.
  - intro H. apply (f_equal (fun l => nthZ l 3)) in H. vm_compute in H. discriminate.
Qed.
