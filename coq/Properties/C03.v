(** C03 — everything acknowledged is on the device.  In the model directories have no in-memory copy at all
    (they are re-read from the device), so "the directory half" holds by construction of the model and is what the
    tie tests on the implementation.  Proved here: a FAT flush writes the serialised in-memory table to EVERY copy,
    and that serialisation decodes back to the table (so a remount sees the chains the live object sees). *)
From Coq Require Import ZArith List Bool.
From PyFatV Require Import Base.Bytes Base.PyEnv Gen.Pure Model.Codec Model.Dir Model.FS Proofs.Session Proofs.FatCodec.
Import ListNotations.
Open Scope Z_scope.

Theorem C03_flush_all_copies : forall n s b i s', flush_copies s b i n = Ok s' ->
  exists l, s_log s' = l ++ s_log s /\ length l = n /\
            Forall (fun w => snd w = b) l /\ s_fat s' = s_fat s /\ s_h s' = s_h s /\ s_ro s' = s_ro s /\ s_p s' = s_p s.
Proof. exact flush_copies_log. Qed.
Print Assumptions C03_flush_all_copies.
Theorem C03_fat_decodes_back :
  (forall l, ent_ok 12 l -> parse12 (pack12 l) = l) /\ (forall l, ent_ok 16 l -> parse16 (pack16 l) = l) /\
  (forall l hi, ent_ok 28 l -> hi_ok hi -> length hi = length l -> parse32 (pack32 l hi) = l /\ parse32hi (pack32 l hi) = hi).
Proof. exact (conj parse12_pack12 (conj parse16_pack16 parse32_pack32)). Qed.
Print Assumptions C03_fat_decodes_back.
(* C03_remount (not proved): for all histories and quiescent states, tree_of (mount (image s)) = tree_of s. *)
