(** C10 — a read-only mount never writes.  Every device write of the model goes through [write_at]; on a read-only
    state it, and every primitive built on it, returns EROFS without a state, and closing does nothing. Read
    operations return no state at all (their types), so they cannot log a write.  On top of that, the property
    itself for the model: every state-changing call (create, makedir, remove, removedir, removetree, setinfo, openbin
    in every mode, write, truncate, close of a handle, close of the filesystem) on a read-only state fails or returns
    the very state it was given, hence ANY history of calls after a read-only mount leaves device and write log
    untouched, and the read-only mount itself logs nothing. *)
From Coq Require Import ZArith List Bool Relations FMapPositive.
From PyFatV Require Import Base.Bytes Base.PyEnv Gen.Pure Model.Codec Model.Dir Model.FS Proofs.Session Proofs.ReadOnly.
Import ListNotations.
Open Scope Z_scope.

Theorem C10_ro_refuses : forall s, s_ro s = true ->
  (forall off d, write_at s off d = Err EROFS) /\ flush_fat s = Err EROFS /\ (forall size e, allocate s size e = Err EROFS) /\
  (forall c, free_chain s c = Err EROFS) /\ (forall d c e, write_data_to_cluster s d c e = Err EROFS) /\
  (forall loc es, write_dir s loc es = Err EROFS) /\ write_bpb s = Err EROFS.
Proof. exact ro_primitives_refuse. Qed.
Print Assumptions C10_ro_refuses.
Theorem C10_ro_close : forall s, s_ro s = true -> op_close s = Ok s.
Proof. exact ro_close_identity. Qed.
Print Assumptions C10_ro_close.
(** a successful write implies the state was read-write, and appends exactly that write to the log *)
Theorem C10_only_rw_writes : forall s off d s', write_at s off d = Ok s' ->
  s_ro s = false /\ s_log s' = (off, d) :: s_log s /\ s_ro s' = false /\ s_fat s' = s_fat s /\ s_h s' = s_h s /\ s_p s' = s_p s /\ s_hi s' = s_hi s.
Proof. exact write_at_rw. Qed.
Print Assumptions C10_only_rw_writes.

Theorem C10_step : forall s s', s_ro s = true -> step s s' -> s' = s.
Proof. exact ro_step. Qed.
Print Assumptions C10_step.
Theorem C10_history : forall s s', s_ro s = true -> clos_refl_trans st step s s' -> s_log s' = s_log s /\ s_dev s' = s_dev s.
Proof. exact ro_history_no_writes. Qed.
Print Assumptions C10_history.
Theorem C10_mount : forall d dsize pc s dirty, mount d dsize true pc = Ok (s, dirty) -> s_ro s = true /\ s_log s = [] /\ s_dev s = d.
Proof. exact ro_mount. Qed.
Print Assumptions C10_mount.
(** [step] is inhabited on read-only states: re-creating the root directory, and closing *)
Definition ex_ro : st :=
  mkSt (mkHdr [235;60;144] [] 512 1 1 2 64 4113 248 12 0 0 0 0 0 0 0 0 0 0 [] 0 0 0 0 [] [] false)
       (set_bytes_per_cluster (Gen.parse_header_geometry pf_init (mkHdr [235;60;144] [] 512 1 1 2 64 4113 248 12 0 0 0 0 0 0 0 0 0 0 [] 0 0 0 0 [] [] false)) 512)
       true false [4088; 4095; 4095] [] 0 (PositiveMap.empty _) (4113 * 512) [] [].
Example C10_steps_exist : s_ro ex_ro = true /\ step ex_ro ex_ro /\ op_makedir ex_ro [] true (2020, 1, 1, 0, 0, 0) = Ok ex_ro /\
  op_listdir ex_ro [] = Ok [].
Proof.
  split; [reflexivity|]. split; [apply st_close; reflexivity|]. split; [reflexivity|]. vm_compute. reflexivity.
Qed.
