(** C10 — a read-only mount never writes.  Every device write of the model goes through [write_at]; on a read-only
    state it, and every primitive built on it, returns EROFS without a state, and closing does nothing. Read
    operations return no state at all (their types), so they cannot log a write. *)
From Coq Require Import ZArith List Bool.
From PyFatV Require Import Base.Bytes Base.PyEnv Gen.Pure Model.Codec Model.Dir Model.FS Proofs.Session.
Import ListNotations.
Open Scope Z_scope.

Theorem C10_ro_refuses : forall s, s_ro s = true ->
  (forall off d, write_at s off d = Err EROFS) /\ flush_fat s = Err EROFS /\ (forall size e, allocate s size e = Err EROFS) /\
  (forall c, free_chain s c = Err EROFS) /\ (forall d c e, write_data_to_cluster s d c e = Err EROFS) /\
  (forall loc es, write_dir s loc es = Err EROFS) /\ write_bpb s = Err EROFS.
Proof. exact ro_primitives_refuse. Qed.
Print Assumptions C10_ro_refuses.
Theorem C10_ro_close : forall s, s_ro s = true -> op_close s = Ok s.
Proof. exact ro_close_identity. Qed.
Print Assumptions C10_ro_close.
(** a successful write implies the state was read-write, and appends exactly that write to the log *)
Theorem C10_only_rw_writes : forall s off d s', write_at s off d = Ok s' ->
  s_ro s = false /\ s_log s' = (off, d) :: s_log s /\ s_ro s' = false /\ s_fat s' = s_fat s /\ s_h s' = s_h s /\ s_p s' = s_p s /\ s_hi s' = s_hi s.
Proof. exact write_at_rw. Qed.
Print Assumptions C10_only_rw_writes.
