(** C15 — every legal name can be created and found again.  Proved: for EVERY name of 1..255 UTF-16 units (no NUL,
    no U+FFFF) the long-name set built by the model of make_lfn_entry decodes, through the model of the reader, to
    exactly that name — every length, every 13-unit boundary and surrogate pairs straddling slots are instances — and
    has the slot count, ordinals and checksum the specification asks for.  Alias uniqueness and create-then-find at
    the directory level are checked on the implementation for every length and code page. *)
From Coq Require Import ZArith List Bool Sorted.
From PyFatV Require Import Base.Bytes Base.PyEnv Gen.Pure Model.Codec Model.Dir Proofs.Names.
Import ListNotations.
Open Scope Z_scope.

Theorem C15_lfn : forall u sfn, Forall unit_ok u -> 1 <= lenZ u <= 255 ->
  let sl := make_lfn u sfn in
  lfn_units sl = u /\
  lenZ sl = (lenZ u + 12) / 13 /\
  flat_map parts sl = lfn_padded u /\
  StronglySorted (fun x y => l_ord x < l_ord y) sl /\
  Forall (fun s => l_chk s = Gen.checksum sfn /\ l_attr s = Gen.ATTR_LONG_NAME /\ l_clus s = 0 /\ l_type s = 0) sl.
Proof. exact lfn_roundtrip. Qed.
Print Assumptions C15_lfn.
Example C15_255 : let u := repeat 97 255 in lfn_units (make_lfn u [65;32;32;32;32;32;32;32;32;32;32]) = u /\ length (make_lfn u [65;32;32;32;32;32;32;32;32;32;32]) = 20%nat.
Proof. vm_compute. split; reflexivity. Qed.
