(** C15 — every legal name can be created and found again.  Proved: for EVERY name of 1..255 UTF-16 units (no NUL,
    no U+FFFF) the long-name set built by the model of make_lfn_entry decodes, through the model of the reader, to
    exactly that name — every length, every 13-unit boundary and surrogate pairs straddling slots are instances — and
    has the slot count, ordinals and checksum the specification asks for; an entry carrying that set matches the name
    in the lookup and is shown under exactly that name, also in the form the directory reader returns it
    (C15_long_name_found); appended to ANY directory in which the name was not found it is found (C15_found_in_extended);
    and what the reader returns can be written again and read again unchanged (C15_stable), so the name survives every
    later rewrite of its directory.  The short alias generated for ANY name in ANY directory is not one of the short names
    already there, keeps a stem whenever the name has a usable character, is never the "extension only" form that
    set_str_name rejects (D37: ' .a' could not be created) and fits 8 + 3 bytes (C15_alias).  The OEM code page side
    (str.upper, codecs) is checked on the implementation for every length and code page. *)
From Coq Require Import ZArith List Bool Sorted.
From PyFatV Require Import Base.Bytes Base.PyEnv Gen.Pure Model.Codec Model.Dir Model.FS Proofs.Names Proofs.DirCodec Proofs.Alias.
Import ListNotations.
Open Scope Z_scope.

Theorem C15_lfn : forall u sfn, Forall unit_ok u -> 1 <= lenZ u <= 255 ->
  let sl := make_lfn u sfn in
  lfn_units sl = u /\
  lenZ sl = (lenZ u + 12) / 13 /\
  flat_map parts sl = lfn_padded u /\
  StronglySorted (fun x y => l_ord x < l_ord y) sl /\
  Forall (fun s => l_chk s = Gen.checksum sfn /\ l_attr s = Gen.ATTR_LONG_NAME /\ l_clus s = 0 /\ l_type s = 0) sl.
Proof. exact lfn_roundtrip. Qed.
Print Assumptions C15_lfn.
Example C15_255 : let u := repeat 97 255 in lfn_units (make_lfn u [65;32;32;32;32;32;32;32;32;32;32]) = u /\ length (make_lfn u [65;32;32;32;32;32;32;32;32;32;32]) = 20%nat.
Proof. vm_compute. split; reflexivity. Qed.

Theorem C15_long_name_found : forall u sfn n e0, Forall unit_ok u -> 1 <= lenZ u <= 255 -> n_u n = u ->
  let e := set_lfn e0 (Some (make_lfn u sfn)) in
  name_matches n e = true /\ name_matches n (canon e) = true /\ shown_name e = NLong u /\ shown_name (canon e) = NLong u.
Proof. exact long_name_found. Qed.
Print Assumptions C15_long_name_found.
Theorem C15_found_in_extended : forall es n e, search_entry es n = None -> name_matches n e = true -> is_special e = false -> is_volid e = false ->
  search_entry (es ++ [e]) n = Some e.
Proof. exact found_in_extended_dir. Qed.
Print Assumptions C15_found_in_extended.
Theorem C15_stable : forall es k f, Forall entry_ok es -> (0 < k)%nat ->
  scan_slots (nslots_dir es + S f) (ser_dir (map canon es) ++ repeat 0 (32 * k)) [] [] = Ok (map canon es, [], true).
Proof. exact read_write_read_stable. Qed.
Print Assumptions C15_stable.

Theorem C15_alias : forall n es b e, make_8dot3 n es = Ok (b, e) ->
  existsb (list_eqb (join_ext b e)) (taken_of es) = false /\
  (map_chars (n_base n) <> [] \/ map_chars (n_ext n) <> [] -> b <> []) /\
  (b = [] -> e = []) /\
  (lenZ (n_base n) <= 8 -> lenZ (n_ext n) <= 3 -> lenZ b <= 8 /\ lenZ e <= 3).
Proof. exact alias_spec. Qed.
Print Assumptions C15_alias.
(* ' .a' (stem of spaces only): the alias is A, and A~1 when A is taken *)
Example C15_alias_ext_only :
  make_8dot3 (mkName [32;46;97] (Some [32;46;97]) (Some [32;46;65]) [] [65] false) [] = Ok ([65], []) /\
  make_8dot3 (mkName [32;46;97] (Some [32;46;97]) (Some [32;46;65]) [] [65] false)
             [mkDirent [65;32;32;32;32;32;32;32;32;32;32] 32 0 0 0 0 0 0 0 0 0 0 None] = Ok ([65;126;49], []).
Proof. vm_compute. split; reflexivity. Qed.

(* the alias route never refuses a name: an EINVAL of new_names comes from the long-name builder (a conform name) only *)
Theorem C15_alias_never_refused : forall s n es, new_names s n es = Err EINVAL -> exists b e, make_8dot3 n es = Ok (b, e) /\ n_conform n = true.
Proof. exact new_names_never_refuses_alias. Qed.
Print Assumptions C15_alias_never_refused.
