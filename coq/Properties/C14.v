(** C14 — mkfs.  Theorems about the GENERATED arithmetic of PyFat.mkfs (size -> sectors-per-cluster tables, FAT size
    formula, root / reserved constants, FAT[0]): whenever the geometry computation succeeds the volume fits in the
    requested size, has at least one cluster, announces its sector count in exactly one of the two fields, and FAT[0]
    is the media byte with all other bits set, and (C14_type_range, for every size, sector size and FAT count) the
    cluster count lies in the range the specification assigns to the requested type; and (C14_fat_covers) the FAT laid out
    holds an entry for every cluster plus the two reserved ones — for every size, 1..255 FATs and sector size 512 or >= 1024:
    FAT12 and FAT32 always, FAT16 whenever the size table chose at most 32 sectors per cluster at 512-byte sectors, i.e. for
    every volume up to 2 097 152 sectors (1 GiB; the property speaks of "hundreds of MiB").  Beyond that (FAT16, 64 sectors per
    cluster, 512-byte sectors) the statement is FALSE of the code: C14_fat16_above_1GiB_refuted exhibits 2 097 383 sectors, where
    the FAT is one entry short (recorded in DESIGN.md as outside the property's quantifier).
    History: C14_type_range was false of the pinned source (refuted by ft=32, size=34099712, ss=512, nf=3: 65018
    clusters, and ft=16 at the 2 GiB row: 65527 clusters); repaired in /repo by "fix: mkfs refuses geometries whose
    cluster count belongs to another FAT type" — the theorem is about the code regenerated from the repaired source. *)
From Coq Require Import ZArith List Bool.
From PyFatV Require Import Base.Bytes Base.PyEnv Gen.Pure Proofs.Geometry Proofs.FatCover.
Import ListNotations.
Open Scope Z_scope.

Theorem C14_geom_partial : forall ft size ss nf p num_sec spc rootent rsvd f16 f32 t16 t32,
  0 < ss -> 0 <= size -> 0 <= nf ->
  Gen.mkfs_geometry pf_init ft size ss nf = Ok (p, num_sec, spc, rootent, rsvd, f16, f32, t16, t32) ->
  num_sec * ss <= size /\
  0 < spc /\
  spc <= num_sec - (rsvd + root_dir_sectors p + nf * _fat_size p) /\
  (t16 = num_sec /\ t32 = 0 \/ t16 = 0 /\ t32 = num_sec) /\
  rsvd = (if ft =? 32 then 32 else 1).
Proof. exact mkfs_fits. Qed.
Print Assumptions C14_geom_partial.
Theorem C14_fat0 : forall h, 0 <= BPB_Media h < 256 ->
  Gen.mkfs_fat0 h 12 = 3840 + BPB_Media h /\ Gen.mkfs_fat0 h 16 = 65280 + BPB_Media h /\ Gen.mkfs_fat0 h 32 = 268435200 + BPB_Media h.
Proof. exact mkfs_fat0_spec. Qed.
Print Assumptions C14_fat0.
Example C14_example : exists p, Gen.mkfs_geometry pf_init 12 65536 512 2 = Ok (p, 128, 1, 224, 1, 1, 0, 128, 0).
Proof. eexists. vm_compute. reflexivity. Qed.

(** FAT12: the size table keeps the cluster count in the FAT12 range for EVERY size mkfs accepts (each row of the
    generated table satisfies sectors <= 4084 * sectors-per-cluster; checked by computation on the table of the current source) *)
Theorem C14_fat12_type : forall size ss nf p num_sec spc rootent rsvd f16 f32 t16 t32,
  0 < ss -> 0 <= size -> 0 <= nf ->
  Gen.mkfs_geometry pf_init 12 size ss nf = Ok (p, num_sec, spc, rootent, rsvd, f16, f32, t16, t32) ->
  num_sec <= 4084 * spc /\
  (0 <= nf * _fat_size p -> (num_sec - (rsvd + root_dir_sectors p + nf * _fat_size p)) / spc < 4085).
Proof. exact mkfs_fat12_count. Qed.
Print Assumptions C14_fat12_type.

Theorem C14_type_range : forall ft size ss nf p num_sec spc rootent rsvd f16 f32 t16 t32,
  ft = 12 \/ ft = 16 \/ ft = 32 ->
  Gen.mkfs_geometry pf_init ft size ss nf = Ok (p, num_sec, spc, rootent, rsvd, f16, f32, t16, t32) ->
  type_of_count ((num_sec - (rsvd + root_dir_sectors p + nf * _fat_size p)) / spc) = ft.
Proof. exact mkfs_type_range. Qed.
Print Assumptions C14_type_range.
Example C14_type_examples :
  (exists x, Gen.mkfs_geometry pf_init 32 34099712 512 2 = Ok x) /\ Gen.mkfs_geometry pf_init 32 34099712 512 3 = Err EINVAL /\
  (exists x, Gen.mkfs_geometry pf_init 16 (32 * 1024 * 1024) 512 2 = Ok x) /\ type_of_count 65524 = 16 /\ type_of_count 65525 = 32 /\ type_of_count 4084 = 12.
Proof. vm_compute. repeat split; try reflexivity; eexists; reflexivity. Qed.

Theorem C14_fat_covers : forall ft size ss nf p num_sec spc rootent rsvd f16 f32 t16 t32,
  ft = 12 \/ ft = 16 \/ ft = 32 -> ss = 512 \/ 1024 <= ss -> 0 <= size -> 1 <= nf <= 255 ->
  (ft = 16 -> ss = 512 -> spc <= 32) ->
  Gen.mkfs_geometry pf_init ft size ss nf = Ok (p, num_sec, spc, rootent, rsvd, f16, f32, t16, t32) ->
  ((num_sec - (rsvd + root_dir_sectors p + nf * _fat_size p)) / spc + 2) * ft <= _fat_size p * ss * 8.
Proof. exact mkfs_fat_covers. Qed.
Print Assumptions C14_fat_covers.
Theorem C14_fat16_above_1GiB_refuted : exists size p num_sec spc rootent rsvd f16 f32 t16 t32,
  Gen.mkfs_geometry pf_init 16 size 512 2 = Ok (p, num_sec, spc, rootent, rsvd, f16, f32, t16, t32) /\ spc = 64 /\
  _fat_size p * 512 * 8 < ((num_sec - (rsvd + root_dir_sectors p + 2 * _fat_size p)) / spc + 2) * 16.
Proof. exact mkfs_fat16_short_refuted. Qed.
Print Assumptions C14_fat16_above_1GiB_refuted.
(* the premises are met: a 33 MiB FAT16 volume gets 4 sectors per cluster and a 66-sector FAT: (16863 + 2) * 16 <= 66 * 512 * 8 *)
Example C14_fat_covers_example : exists p, Gen.mkfs_geometry pf_init 16 (33 * 1048576) 512 2 = Ok (p, 67584, 4, 512, 1, 66, 0, 0, 67584) /\ _fat_size p = 66.
Proof. eexists. split; vm_compute; reflexivity. Qed.
