(** C14 — mkfs.  Theorems about the GENERATED arithmetic of PyFat.mkfs (size -> sectors-per-cluster tables, FAT size
    formula, root / reserved constants, FAT[0]): whenever the geometry computation succeeds the volume fits in the
    requested size, has at least one cluster, announces its sector count in exactly one of the two fields, and FAT[0]
    is the media byte with all other bits set.  That the cluster count falls in the range of the requested type and
    that the FAT covers count+2 entries is NOT proved (the size tables of the source make it true only for the sizes
    they list); it is checked on the real mkfs at every table boundary by the independent checker. *)
From Coq Require Import ZArith List Bool.
From PyFatV Require Import Base.Bytes Base.PyEnv Gen.Pure Proofs.Geometry.
Import ListNotations.
Open Scope Z_scope.

Theorem C14_geom_partial : forall ft size ss nf p num_sec spc rootent rsvd f16 f32 t16 t32,
  0 < ss -> 0 <= size -> 0 <= nf ->
  Gen.mkfs_geometry pf_init ft size ss nf = Ok (p, num_sec, spc, rootent, rsvd, f16, f32, t16, t32) ->
  num_sec * ss <= size /\
  0 < spc /\
  spc <= num_sec - (rsvd + root_dir_sectors p + nf * _fat_size p) /\
  (t16 = num_sec /\ t32 = 0 \/ t16 = 0 /\ t32 = num_sec) /\
  rsvd = (if ft =? 32 then 32 else 1).
Proof. exact mkfs_fits. Qed.
Print Assumptions C14_geom_partial.
Theorem C14_fat0 : forall h, 0 <= BPB_Media h < 256 ->
  Gen.mkfs_fat0 h 12 = 3840 + BPB_Media h /\ Gen.mkfs_fat0 h 16 = 65280 + BPB_Media h /\ Gen.mkfs_fat0 h 32 = 268435200 + BPB_Media h.
Proof. exact mkfs_fat0_spec. Qed.
Print Assumptions C14_fat0.
Example C14_example : exists p, Gen.mkfs_geometry pf_init 12 65536 512 2 = Ok (p, 128, 1, 224, 1, 1, 0, 128, 0).
Proof. eexists. vm_compute. reflexivity. Qed.

(** FAT12: the size table keeps the cluster count in the FAT12 range for EVERY size mkfs accepts (each row of the
    generated table satisfies sectors <= 4084 * sectors-per-cluster; checked by computation on the table of the current source) *)
Theorem C14_fat12_type : forall size ss nf p num_sec spc rootent rsvd f16 f32 t16 t32,
  0 < ss -> 0 <= size -> 0 <= nf ->
  Gen.mkfs_geometry pf_init 12 size ss nf = Ok (p, num_sec, spc, rootent, rsvd, f16, f32, t16, t32) ->
  num_sec <= 4084 * spc /\
  (0 <= nf * _fat_size p -> (num_sec - (rsvd + root_dir_sectors p + nf * _fat_size p)) / spc < 4085).
Proof. exact mkfs_fat12_count. Qed.
Print Assumptions C14_fat12_type.
