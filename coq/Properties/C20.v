(** C20 — on-disk field codecs are exact inverses over their whole domain.
    Nothing but statements closed by [exact] and their assumptions.  The date / time / checksum
    theorems are about the definitions REGENERATED from /repo on every run ([Gen]). *)
From Coq Require Import ZArith List Bool.
From PyFatV Require Import Base.Bytes Base.PyEnv Gen.Pure Model.Codec Proofs.Dates Proofs.FatCodec.
Import ListNotations.
Open Scope Z_scope.

(** every 16-bit date word decodes, without exception, to a calendar date in 1980..2107: its own
    fields when they form a valid date (and then re-encodes to the same word), else 1980-01-01 *)
Theorem C20_date_decode : forall w, 0 <= w < 65536 ->
  let '(y,m,d) := Gen.deserialize_date w in
  valid_date y m d = true /\ 1980 <= y <= 2107 /\
  (valid_date (fld_year w) (fld_month w) (fld_day w) = true ->
     (y,m,d) = (fld_year w, fld_month w, fld_day w) /\ Gen.serialize_date y m d = w) /\
  (valid_date (fld_year w) (fld_month w) (fld_day w) = false -> (y,m,d) = (1980,1,1)).
Proof. exact date_word_decode. Qed.
Print Assumptions C20_date_decode.

(** every valid date 1980..2107 encodes to the specification's bit layout and decodes back *)
Theorem C20_date_encode : forall y m d, 1980 <= y <= 2107 -> valid_date y m d = true ->
  Gen.serialize_date y m d = spec_date_word y m d /\ Gen.deserialize_date (Gen.serialize_date y m d) = (y,m,d).
Proof. exact date_encode_decode. Qed.
Print Assumptions C20_date_encode.

Theorem C20_time_decode : forall w, 0 <= w < 65536 ->
  let '(h,mi,s) := Gen.deserialize_time w in
  valid_time h mi s = true /\ s mod 2 = 0 /\
  (valid_time (fld_hour w) (fld_min w) (fld_sec w) = true ->
     (h,mi,s) = (fld_hour w, fld_min w, fld_sec w) /\ Gen.serialize_time h mi s = w) /\
  (valid_time (fld_hour w) (fld_min w) (fld_sec w) = false -> (h,mi,s) = (0,0,0)).
Proof. exact time_word_decode. Qed.
Print Assumptions C20_time_decode.

Theorem C20_time_encode : forall h mi s, valid_time h mi s = true ->
  Gen.serialize_time h mi s = spec_time_word h mi s /\
  Gen.deserialize_time (Gen.serialize_time h mi s) = (h, mi, s - s mod 2).
Proof. exact time_encode_decode. Qed.
Print Assumptions C20_time_encode.

(** FAT tables, every table length *)
Theorem C20_fat12_parse_pack : forall l, ent_ok 12 l -> parse12 (pack12 l) = l.
Proof. exact parse12_pack12. Qed.
Print Assumptions C20_fat12_parse_pack.
Theorem C20_fat12_pack_parse : forall bs, bytes_ok bs -> pack12 (parse12 bs) = trim12 bs.
Proof. exact pack12_parse12. Qed.
Print Assumptions C20_fat12_pack_parse.
Theorem C20_fat12_spec : forall bs, bytes_ok bs -> forall i, 0 <= i < lenZ (parse12 bs) ->
  nthZ (parse12 bs) i = spec_fat_entry 12 bs i.
Proof. exact parse12_spec. Qed.
Print Assumptions C20_fat12_spec.
Theorem C20_fat12_count : forall bs, lenZ (parse12 bs) = 2 * lenZ bs / 3.
Proof. exact parse12_length. Qed.
Theorem C20_fat16_parse_pack : forall l, ent_ok 16 l -> parse16 (pack16 l) = l.
Proof. exact parse16_pack16. Qed.
Print Assumptions C20_fat16_parse_pack.
Theorem C20_fat16_pack_parse : forall bs, bytes_ok bs -> pack16 (parse16 bs) = trim16 bs.
Proof. exact pack16_parse16. Qed.
Print Assumptions C20_fat16_pack_parse.
Theorem C20_fat16_spec : forall bs i, 0 <= i < lenZ (parse16 bs) -> nthZ (parse16 bs) i = spec_fat_entry 16 bs i.
Proof. exact parse16_spec. Qed.
Print Assumptions C20_fat16_spec.
Theorem C20_fat32_parse_pack : forall l hi, ent_ok 28 l -> hi_ok hi -> length hi = length l ->
  parse32 (pack32 l hi) = l /\ parse32hi (pack32 l hi) = hi.
Proof. exact parse32_pack32. Qed.
Print Assumptions C20_fat32_parse_pack.
Theorem C20_fat32_pack_parse : forall bs, bytes_ok bs -> pack32 (parse32 bs) (parse32hi bs) = trim32 bs.
Proof. exact pack32_parse32. Qed.
Print Assumptions C20_fat32_pack_parse.
Theorem C20_fat32_spec : forall bs i, 0 <= i < lenZ (parse32 bs) -> nthZ (parse32 bs) i = spec_fat_entry 32 bs i.
Proof. exact parse32_spec. Qed.
Print Assumptions C20_fat32_spec.

(** short-name checksum = the specification's rotate-right-and-add, for every byte string *)
Theorem C20_checksum : forall name, bytes_ok name ->
  Gen.checksum name = spec_checksum name /\ 0 <= Gen.checksum name < 256.
Proof. exact checksum_spec. Qed.
Print Assumptions C20_checksum.

(** lead-byte translation *)
Theorem C20_sfn_lead : forall name,
  (hd 0 name <> 5 -> sfn_lead_decode (sfn_lead_encode name) = name) /\
  hd 0 (sfn_lead_encode name) <> 229 /\
  (hd 0 name <> 229 -> sfn_lead_encode (sfn_lead_decode name) = name).
Proof. intro name. exact (conj (sfn_lead_roundtrip name) (conj (sfn_lead_never_e5 name) (sfn_stored_roundtrip name))). Qed.
Print Assumptions C20_sfn_lead.

(** struct layouts: serialising a parsed sector reproduces its bytes — for ANY layout, hence for the
    generated boot-sector and FSInfo layouts of the current source *)
Theorem C20_layout : forall lay bs, layout_ok lay -> bytes_ok bs -> layout_size lay <= lenZ bs -> pads_zero_in lay bs ->
  ser_layout lay (parse_layout lay bs) = firstn (Z.to_nat (layout_size lay)) bs.
Proof. exact ser_parse_layout. Qed.
Print Assumptions C20_layout.
Example C20_layouts_ok : layout_ok Gen.BPB12_LAYOUT /\ layout_ok Gen.BPB32_LAYOUT /\ layout_ok Gen.FSINFO_LAYOUT /\
  layout_size Gen.BPB12_LAYOUT = 62 /\ layout_size Gen.BPB32_LAYOUT = 90 /\ layout_size Gen.FSINFO_LAYOUT = 512.
Proof. vm_compute. repeat split; discriminate. Qed.
