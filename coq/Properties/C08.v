(** C08 — all device I/O stays inside the volume.  The address arithmetic is the GENERATED code of
    get_data_cluster_address / _get_total_sectors; the allocator theorem bounds every cluster it can hand out. *)
From Coq Require Import ZArith List Bool Sorted.
From PyFatV Require Import Base.Bytes Base.PyEnv Gen.Pure Model.Codec Model.Dir Model.FS Proofs.FatTable Proofs.Geometry Proofs.Device Proofs.DirCodec Proofs.DirState Proofs.Chains Proofs.FatState Proofs.FileData.
Import ListNotations.
Open Scope Z_scope.

(** every cluster 2..count+1 lies, with all its bytes, between the first data sector and the end of the volume *)
Theorem C08_addr : forall (p:pf) (h:hdr) c,
  0 < BPB_SecPerClus h -> 0 < BPB_BytsPerSec h -> 0 <= first_data_sector p ->
  let tot := Gen.get_total_sectors h in
  let count := (tot - first_data_sector p) / BPB_SecPerClus h in
  2 <= c <= count + 1 ->
  first_data_sector p * BPB_BytsPerSec h <= Gen.get_data_cluster_address p h c /\
  Gen.get_data_cluster_address p h c + BPB_SecPerClus h * BPB_BytsPerSec h <= tot * BPB_BytsPerSec h.
Proof. exact cluster_inside_volume. Qed.
Print Assumptions C08_addr.

(** the allocator never returns a cluster above max_cluster = count + 1, whatever the (sector-rounded, usually
    longer) FAT contains *)
Theorem C08_alloc : forall s size erase cs s',
  0 <= s_hint s -> allocate s size erase = Ok (cs, s') -> 2 <= Gen.MIN_DATA_CLUSTER (ft s) ->
  Forall (fun c => 2 <= c <= max_cluster s) cs.
Proof.
  intros s size erase cs s' Hh Ha Hm. destruct (allocate_sound s size erase cs s' Hh Ha) as [(_ & _ & Hf)|Hlt]; [|exfalso; apply (Z.lt_irrefl 2); eapply Z.le_lt_trans; eassumption].
  eapply Forall_impl; [|exact Hf]. intros c (A & B & _). split; [eapply Z.le_trans; [exact (proj1 A)|exact (proj2 A)] | exact B].
Qed.
Print Assumptions C08_alloc.
Example C08_nonvacuous : exists p h, 0 < BPB_SecPerClus h /\ 0 < BPB_BytsPerSec h /\ 0 <= first_data_sector p /\
  2 <= 5 <= (Gen.get_total_sectors h - first_data_sector p) / BPB_SecPerClus h + 1.
Proof.
  exists (mkPf 1 3 14 512 17 12), (mkHdr [] [] 512 1 1 2 224 128 248 1 0 0 0 0 0 0 0 0 0 0 [] 0 0 0 0 [] [] false).
  vm_compute. repeat split; discriminate.
Qed.
(** the writes themselves: every device write of a file-data write lies between the first data sector and the end of
    the device, in a cluster of the file's chain or in a cluster that was free; a FAT flush writes nothing outside
    the FAT region (C03_fat_persists, last clause) *)
Theorem C08_data_writes : forall s data c s' ch,
  dev_ok (s_dev s) -> geom_ok s -> vt (ft s) -> 0 <= s_hint s ->
  chain s c = (ch, true) -> Forall (inside s) ch -> vol_ok s ->
  write_data_to_cluster s data c false = Ok s' ->
  exists l, s_log s' = l ++ s_log s /\
    Forall (fun w => first_data_sector (s_p s) * BPB_BytsPerSec (s_h s) <= fst w /\ fst w + lenZ (snd w) <= s_dsize s /\
                     exists x, (In x ch \/ nthZ (s_fat s) x = 0) /\ fst w = cluster_addr s x) l.
Proof. exact data_write_confined. Qed.
Print Assumptions C08_data_writes.
(* C08_io (not proved as one theorem): every EvW of every history lies in the volume; follows from C08_addr + C08_alloc +
   the region accessors of Model/FS.v; on the implementation it is checked by the guarded device. *)

(** ** C08 over histories (writes): every device write of ANY history of interface calls lies inside the volume.
    [pre]: sane geometry (regions in order, as [parse_header] computes them) and the FAT serialises into its region.
    Whatever start cluster a directory entry or a stale handle names and whatever the FAT holds, the follower never yields
    a cluster the volume does not have (D38: before the repair it did — this theorem needed the hypothesis that the entries
    of the sector-rounded FAT behind the last cluster are free, and on a damaged image where they are not pyfatfs read and
    wrote behind the end of the volume), the allocator never hands one out, and the FAT / root-directory writes stay in
    their regions.  [C08_io_session] adds the dirty marking of the mount and the clean marking of close.
    Reads are not logged by the model: for them the guarded device of the harness is the only judge. *)
From Coq Require Import Relations Lia FMapPositive.
From PyFatV Require Import Proofs.Session Proofs.HdrState Proofs.Identity Proofs.FatBound Proofs.BootSafe Proofs.Inside.
Theorem C08_io_history : forall s s', pre s -> clos_refl_trans st wstep s s' ->
  exists l, s_log s' = l ++ s_log s /\ Forall (fun w => 512 <= fst w /\ fst w + lenZ (snd w) <= total_sectors s * bps s) l.
Proof. exact history_writes_inside. Qed.
Print Assumptions C08_io_history.
Theorem C08_io_session : forall s s1 s2 s3, pre s -> hdr_wf (s_h s) ->
  (ft s = Gen.FAT_TYPE_FAT32 -> 0 <= BPB_BkBootSec (s_h s) * bps s /\ BPB_BkBootSec (s_h s) * bps s + 512 <= vol_end s) ->
  mark_dirty s = Ok s1 -> clos_refl_trans st wstep s1 s2 -> mark_clean s2 = Ok s3 ->
  exists l, s_log s3 = l ++ s_log s /\ Forall (fun w => 0 <= fst w /\ fst w + lenZ (snd w) <= total_sectors s * bps s) l.
Proof. exact session_writes_within. Qed.
Print Assumptions C08_io_session.
(** the invariant is re-established by every operation, so it holds in every reachable state *)
Theorem C08_pre_invariant : forall s s', pre s -> clos_refl_trans st wstep s s' -> pre s'.
Proof. intros s s' Hp H. exact (pre_J s s' Hp (history_J s s' Hp H)). Qed.
Print Assumptions C08_pre_invariant.

(** non-vacuity: a FAT16 volume of 4300 sectors whose FAT (17 sectors, 4352 entries) is longer than its data area
    (4261 clusters, last cluster 4262): [pre] holds after the dirty marking, a makedir and a file creation with truncation
    are steps from there, the log grows, and all of it is inside *)
Definition ex08_hdr : hdr := mkHdr [235;60;144] (repeat 77 8) 512 1 1 2 64 4300 248 17 0 0 0 0 0 0 0 0 0 0 [] 128 0 41 7 (repeat 32 11) (repeat 70 8) false.
Definition ex08_init : st :=
  mkSt ex08_hdr (set_bytes_per_cluster (Gen.parse_header_geometry pf_init ex08_hdr) 512) false false ([65528; 65535; 65535] ++ repeat 0 4349) [] 0
       (PositiveMap.empty _) (4300 * 512) [] [].
Definition ex08_s1 : st := match mark_dirty ex08_init with Ok s => s | Err _ => ex08_init end.
Definition ex08_nD : namerec := mkName [68] (Some [68]) (Some [68]) [68] [] true.
Definition ex08_nF : namerec := mkName [70] (Some [70]) (Some [70]) [70] [] true.
Definition ex08_a : st := match op_makedir ex08_s1 [ex08_nD] false (2020, 1, 1, 0, 0, 0) with Ok s => s | Err _ => ex08_s1 end.
Definition ex08_b : st := match op_openbin ex08_a [ex08_nD; ex08_nF] (mkMode false true false true false true) (2020, 1, 1, 0, 0, 0) with Ok (s, _) => s | Err _ => ex08_a end.
Example C08_io_example :
  pre ex08_init /\ max_cluster ex08_init = 4262 /\ lenZ (s_fat ex08_init) = 4352 /\ ft ex08_init = 16 /\
  mark_dirty ex08_init = Ok ex08_s1 /\ clos_refl_trans st wstep ex08_s1 ex08_b /\ (length (s_log ex08_b) > length (s_log ex08_s1))%nat.
Proof.
  split.
  { unfold pre. split; [right; left; vm_compute; reflexivity|]. split.
    - unfold geo. repeat (split; [vm_compute; first [reflexivity|discriminate]|]). vm_compute. discriminate.
    - vm_compute; discriminate. }
  split; [vm_compute; reflexivity|]. split; [vm_compute; reflexivity|]. split; [vm_compute; reflexivity|].
  split; [vm_compute; reflexivity|]. split.
  - apply rt_trans with ex08_a; apply rt_step.
    + apply (ws_makedir ex08_s1 [ex08_nD] false (2020, 1, 1, 0, 0, 0) ex08_a). vm_compute. reflexivity.
    + assert (E : exists h, op_openbin ex08_a [ex08_nD; ex08_nF] (mkMode false true false true false true) (2020, 1, 1, 0, 0, 0) = Ok (ex08_b, h)).
      { unfold ex08_b. destruct (op_openbin ex08_a _ _ _) as [[s h]|] eqn:E; [exists h; reflexivity|vm_compute in E; discriminate]. }
      destruct E as (h & E). exact (ws_openbin _ _ _ _ _ _ E).
  - vm_compute. repeat constructor.
Qed.

(** the follower itself: whatever the FAT holds and wherever it is started, complete or not, it yields only clusters the
    volume has (D38) *)
Theorem C08_follower_inside : forall s c l ok, vt (ft s) -> chain s c = (l, ok) -> Forall (fun x => 2 <= x <= max_cluster s) l.
Proof.
  intros s c l ok Hv H. eapply Forall_impl; [|exact (chain_members_bounded _ _ _ _ H)]. intros x Hx. cbv beta in Hx.
  destruct (vt_consts _ Hv) as (Hmin & _). lia.
Qed.
Print Assumptions C08_follower_inside.

(** ... and that bound is the source's: the cluster numbers [get_cluster_chain] refuses (regenerated on every run) are exactly those
    outside the model follower's view of the table *)
From PyFatV Require Import Proofs.GenChain.
Theorem C08_follower_bound_from_source : forall s i,
  Gen.chain_refuse (s_p s) (s_h s) (ft s) (lenZ (s_fat s)) i = (i <? Gen.MIN_DATA_CLUSTER (ft s)) || (lenZ (vfat s) <=? i).
Proof. exact gen_refuse. Qed.
Print Assumptions C08_follower_bound_from_source.

(** the allocator's bound likewise: one turn of the model's scan, stated with the decisions regenerated from [PyFat.allocate_bytes]
    ([Gen.alloc_skip]: below the first data cluster, or above the last cluster of the volume / MAX_DATA_CLUSTER) *)
Theorem C08_allocator_from_source : forall s f i need, vt (ft s) ->
  alloc_scan (S f) (s_fat s) (ft s) (max_cluster s) i need =
  if Gen.alloc_skip (s_p s) (s_h s) (ft s) i then alloc_scan f (s_fat s) (ft s) (max_cluster s) (i + 1) need else
  match need with
  | O => ([], i)
  | S nd => if Gen.alloc_take (s_p s) (s_h s) (ft s) (nthZ (s_fat s) i) i
            then (let '(l, j) := alloc_scan f (s_fat s) (ft s) (max_cluster s) (i + 1) nd in (i :: l, j))
            else alloc_scan f (s_fat s) (ft s) (max_cluster s) (i + 1) need
  end.
Proof. exact alloc_step_gen. Qed.
Print Assumptions C08_allocator_from_source.

(** [pre] is about the boot sector: for a state whose geometry record is the one the regenerated [parse_header] derives from its boot sector
    (what [mount] builds), it follows from elementary facts about the boot-sector fields and the size of the table *)
Theorem C08_pre_from_header : forall s,
  vt (ft s) ->
  s_p s = set_bytes_per_cluster (Gen.parse_header_geometry pf_init (s_h s)) (BPB_BytsPerSec (s_h s) * BPB_SecPerClus (s_h s)) ->
  0 < BPB_BytsPerSec (s_h s) -> 0 < BPB_SecPerClus (s_h s) -> 512 <= BPB_RsvdSecCnt (s_h s) * BPB_BytsPerSec (s_h s) ->
  0 <= get_fat_size_count (s_h s) -> 0 <= BPB_NumFATs (s_h s) -> 0 <= BPB_RootEntCnt (s_h s) ->
  first_data_sector (s_p s) <= total_sectors s ->
  lenZ (pack_fat (ft s) (s_fat s) (s_hi s)) <= fat_bytes s ->
  pre s.
Proof.
  intros s Hv Hp Hb Hc Hr Hf Hn He Ht Hl. split; [exact Hv|]. split; [apply geo_of_header; assumption|exact Hl].
Qed.
Print Assumptions C08_pre_from_header.
