(** C08 — all device I/O stays inside the volume.  The address arithmetic is the GENERATED code of
    get_data_cluster_address / _get_total_sectors; the allocator theorem bounds every cluster it can hand out. *)
From Coq Require Import ZArith List Bool Sorted.
From PyFatV Require Import Base.Bytes Base.PyEnv Gen.Pure Model.Codec Model.Dir Model.FS Proofs.FatTable Proofs.Geometry Proofs.Device Proofs.DirCodec Proofs.DirState Proofs.Chains Proofs.FatState Proofs.FileData.
Import ListNotations.
Open Scope Z_scope.

(** every cluster 2..count+1 lies, with all its bytes, between the first data sector and the end of the volume *)
Theorem C08_addr : forall (p:pf) (h:hdr) c,
  0 < BPB_SecPerClus h -> 0 < BPB_BytsPerSec h -> 0 <= first_data_sector p ->
  let tot := Gen.get_total_sectors h in
  let count := (tot - first_data_sector p) / BPB_SecPerClus h in
  2 <= c <= count + 1 ->
  first_data_sector p * BPB_BytsPerSec h <= Gen.get_data_cluster_address p h c /\
  Gen.get_data_cluster_address p h c + BPB_SecPerClus h * BPB_BytsPerSec h <= tot * BPB_BytsPerSec h.
Proof. exact cluster_inside_volume. Qed.
Print Assumptions C08_addr.

(** the allocator never returns a cluster above max_cluster = count + 1, whatever the (sector-rounded, usually
    longer) FAT contains *)
Theorem C08_alloc : forall s size erase cs s',
  0 <= s_hint s -> allocate s size erase = Ok (cs, s') -> 2 <= Gen.MIN_DATA_CLUSTER (ft s) ->
  Forall (fun c => 2 <= c <= max_cluster s) cs.
Proof.
  intros s size erase cs s' Hh Ha Hm. destruct (allocate_sound s size erase cs s' Hh Ha) as [(_ & _ & Hf)|Hlt]; [|exfalso; apply (Z.lt_irrefl 2); eapply Z.le_lt_trans; eassumption].
  eapply Forall_impl; [|exact Hf]. intros c (A & B & _). split; [eapply Z.le_trans; [exact (proj1 A)|exact (proj2 A)] | exact B].
Qed.
Print Assumptions C08_alloc.
Example C08_nonvacuous : exists p h, 0 < BPB_SecPerClus h /\ 0 < BPB_BytsPerSec h /\ 0 <= first_data_sector p /\
  2 <= 5 <= (Gen.get_total_sectors h - first_data_sector p) / BPB_SecPerClus h + 1.
Proof.
  exists (mkPf 1 3 14 512 17 12), (mkHdr [] [] 512 1 1 2 224 128 248 1 0 0 0 0 0 0 0 0 0 0 [] 0 0 0 0 [] [] false).
  vm_compute. repeat split; discriminate.
Qed.
(** the writes themselves: every device write of a file-data write lies between the first data sector and the end of
    the device, in a cluster of the file's chain or in a cluster that was free; a FAT flush writes nothing outside
    the FAT region (C03_fat_persists, last clause) *)
Theorem C08_data_writes : forall s data c s' ch,
  dev_ok (s_dev s) -> geom_ok s -> vt (ft s) -> 0 <= s_hint s ->
  chain s c = (ch, true) -> Forall (inside s) ch -> vol_ok s ->
  write_data_to_cluster s data c false = Ok s' ->
  exists l, s_log s' = l ++ s_log s /\
    Forall (fun w => first_data_sector (s_p s) * BPB_BytsPerSec (s_h s) <= fst w /\ fst w + lenZ (snd w) <= s_dsize s /\
                     exists x, (In x ch \/ nthZ (s_fat s) x = 0) /\ fst w = cluster_addr s x) l.
Proof. exact data_write_confined. Qed.
Print Assumptions C08_data_writes.
(* C08_io (not proved as one theorem): every EvW of every history lies in the volume; follows from C08_addr + C08_alloc +
   the region accessors of Model/FS.v; on the implementation it is checked by the guarded device. *)
