(** C12 — a crash mid-operation damages only what was being changed.  Proved: the FAT half — a table whose bytes
    are ANY byte-wise (hence any sector-wise) mixture of the old and the new table decodes every entry on which
    old and new agree to the common value, including FAT12 entries that share a byte with their neighbour or
    straddle a sector boundary; FAT16 likewise (FAT32 entries are four aligned bytes, same argument).  So the chains
    of files an operation does not touch survive a torn FAT flush.  The data half: every device write of a file-data
    write addresses a cluster of the file's own chain or a cluster that was free, so ANY subset of those writes (any
    crash point, any reordering) leaves every cluster of every other chain as it was; the same for the rewrite of a
    directory held in a cluster chain, including its growth and the erasing of the new clusters (C12_dir_crash).  The
    general form (C12_crash_confined_to_writes, C12_torn_writes): for ANY device, ANY list of writes and ANY subset of them that
    reached the device — whole or torn to a prefix — every byte range that none of the writes overlaps reads exactly as before.
    Composition (C12_rewrite_then_flush): "rewrite a directory held in a cluster chain, then flush the FAT" — the tail of create,
    makedir, remove, removedir, setinfo and of a handle's close — interrupted at any point, in any combination of its writes, leaves
    every in-use cluster that is not one of the directory's own intact.  What remains unproved is the same characterisation for the
    operations made of several such steps (removetree, makedir's two rewrites, a data write that grows a file); those are checked
    by remounting the real image at every crash point. *)
From Coq Require Import ZArith List Bool Lia.
From PyFatV Require Import Base.Bytes Base.PyEnv Gen.Pure Model.Codec Model.Dir Model.FS Proofs.Session Proofs.Device Proofs.DirCodec Proofs.DirState Proofs.Chains Proofs.FileData Proofs.BootSafe Proofs.CrashOps.
Import ListNotations.
Open Scope Z_scope.

Theorem C12_fatmix12 : forall bs1 bs2 mix i,
  0 <= i ->
  (forall j, 0 <= nthZ bs1 j < 256 /\ 0 <= nthZ bs2 j < 256) ->
  (forall j, nthZ mix j = nthZ bs1 j \/ nthZ mix j = nthZ bs2 j) ->
  spec_fat_entry 12 bs1 i = spec_fat_entry 12 bs2 i ->
  spec_fat_entry 12 mix i = spec_fat_entry 12 bs1 i.
Proof. exact fat12_mix. Qed.
Print Assumptions C12_fatmix12.
Theorem C12_fatmix16 : forall bs1 bs2 mix i,
  (forall j, 0 <= nthZ bs1 j < 256 /\ 0 <= nthZ bs2 j < 256) ->
  (forall j, nthZ mix j = nthZ bs1 j \/ nthZ mix j = nthZ bs2 j) ->
  spec_fat_entry 16 bs1 i = spec_fat_entry 16 bs2 i ->
  spec_fat_entry 16 mix i = spec_fat_entry 16 bs1 i.
Proof. exact fat16_mix. Qed.
Print Assumptions C12_fatmix16.

Theorem C12_data_crash : forall s data c s' ch,
  dev_ok (s_dev s) -> geom_ok s -> vt (ft s) -> 0 <= s_hint s ->
  chain s c = (ch, true) -> Forall (inside s) ch -> vol_ok s ->
  write_data_to_cluster s data c false = Ok s' ->
  exists l, s_log s' = l ++ s_log s /\
    forall keep y, 2 <= y -> ~ In y ch -> nthZ (s_fat s) y <> 0 -> inside s y ->
      dread (apply_some (s_dev s) l keep) (s_dsize s) (cluster_addr s y) (bpc s) = rd s (cluster_addr s y) (bpc s).
Proof. exact data_crash. Qed.
Print Assumptions C12_data_crash.

Theorem C12_dir_crash : forall s data c e s' ch,
  dev_ok (s_dev s) -> geom_ok s -> vt (ft s) -> 0 <= s_hint s ->
  chain s c = (ch, true) -> Forall (inside s) ch -> vol_ok s ->
  write_data_to_cluster s data c e = Ok s' ->
  exists l, s_log s' = l ++ s_log s /\
    forall keep y, 2 <= y -> ~ In y ch -> nthZ (s_fat s) y <> 0 -> inside s y ->
      dread (apply_some (s_dev s) l keep) (s_dsize s) (cluster_addr s y) (bpc s) = rd s (cluster_addr s y) (bpc s).
Proof. exact dir_crash. Qed.
Print Assumptions C12_dir_crash.

(** the reader's side of a torn directory rewrite: when entries were shifted (an entry further up was removed) and the
    device stopped between two sectors, a long-name slot can appear twice, verbatim; the reader ignores the copy, so the set
    still completes and the sub-directory or file behind it stays reachable by its long name (repair D35) *)
Theorem C12_repeated_slot_ignored : forall f s rest pend acc, lslot_ok s -> In s pend ->
  scan_slots (S f) (ser_lfnslot s ++ rest) pend acc = scan_slots f rest pend acc.
Proof. exact scan_repeated_slot. Qed.
Print Assumptions C12_repeated_slot_ignored.

Theorem C12_crash_confined_to_writes : forall d sz l, dev_ok d -> Forall (fun w => 0 <= fst w) l ->
  forall keep a n, 0 <= a ->
  Forall (fun w => a + n <= fst w \/ fst w + lenZ (snd w) <= a) l ->
  dev_ok (apply_some d l keep) /\ dread (apply_some d l keep) sz a n = dread d sz a n.
Proof. exact crash_outside_writes. Qed.
Print Assumptions C12_crash_confined_to_writes.
Theorem C12_torn_writes : forall d sz l l', dev_ok d -> Forall (fun w => 0 <= fst w) l ->
  Forall2 (fun (w' w:Z * list Z) => fst w' = fst w /\ lenZ (snd w') <= lenZ (snd w)) l' l ->
  forall keep a n, 0 <= a ->
  Forall (fun w => a + n <= fst w \/ fst w + lenZ (snd w) <= a) l ->
  dread (apply_some d l' keep) sz a n = dread d sz a n.
Proof. exact crash_torn_writes. Qed.
Print Assumptions C12_torn_writes.

Theorem C12_rewrite_then_flush : forall s loc es s1 s2 ch,
  dev_ok (s_dev s) -> geom_ok s -> safe s -> 0 <= s_hint s -> vol_ok s ->
  is_root_fixed s loc = false -> chain s loc = (ch, true) -> Forall (inside s) ch ->
  0 <= BPB_NumFATs (s_h s) ->
  fat_start s + BPB_NumFATs (s_h s) * fat_bytes s <= first_data_sector (s_p s) * BPB_BytsPerSec (s_h s) ->
  write_dir s loc es = Ok s1 -> lenZ (pack_fat (ft s1) (s_fat s1) (s_hi s1)) <= fat_bytes s -> flush_fat s1 = Ok s2 ->
  exists l, s_log s2 = l ++ s_log s /\
    forall keep y, 2 <= y -> ~ In y ch -> nthZ (s_fat s) y <> 0 -> inside s y ->
      dread (apply_some (s_dev s) l keep) (s_dsize s) (cluster_addr s y) (bpc s) = rd s (cluster_addr s y) (bpc s).
Proof. exact rewrite_then_flush_crash. Qed.
Print Assumptions C12_rewrite_then_flush.
(* the computational premises are met on the FAT16 example volume after makedir D (its directory is the chain [3]) *)
From PyFatV Require Import Properties.C16 Properties.C11.
Example C12_rewrite_then_flush_example :
  is_root_fixed ex11_a 3 = false /\ chain ex11_a 3 = ([3], true) /\ 0 <= s_hint ex11_a /\ 0 <= BPB_NumFATs (s_h ex11_a) /\
  fat_start ex11_a + BPB_NumFATs (s_h ex11_a) * fat_bytes ex11_a <= first_data_sector (s_p ex11_a) * BPB_BytsPerSec (s_h ex11_a) /\
  exists s1 s2, write_dir ex11_a 3 [] = Ok s1 /\ lenZ (pack_fat (ft s1) (s_fat s1) (s_hi s1)) <= fat_bytes ex11_a /\ flush_fat s1 = Ok s2 /\
    (length (s_log s2) > length (s_log ex11_a))%nat.
Proof.
  split; [vm_compute; reflexivity|]. split; [vm_compute; reflexivity|]. split; [vm_compute; discriminate|]. split; [vm_compute; discriminate|].
  split; [vm_compute; discriminate|].
  destruct (write_dir ex11_a 3 []) as [s1|] eqn:E1; [|vm_compute in E1; discriminate]. exists s1.
  destruct (flush_fat s1) as [s2|] eqn:E2.
  - exists s2. split; [reflexivity|]. split; [|split; [reflexivity|]].
    + assert (X : (match write_dir ex11_a 3 [] with Ok a => lenZ (pack_fat (ft a) (s_fat a) (s_hi a)) <=? fat_bytes ex11_a | Err _ => false end) = true) by (vm_compute; reflexivity).
      rewrite E1 in X. apply Z.leb_le. exact X.
    + assert (X : (match (do a <- write_dir ex11_a 3 []; flush_fat a) with Ok b => (length (s_log ex11_a) <? length (s_log b))%nat | Err _ => false end) = true) by (vm_compute; reflexivity).
      rewrite E1 in X. cbn [bind] in X. rewrite E2 in X. apply Nat.ltb_lt in X. exact X.
  - exfalso. assert (X : (match (do a <- write_dir ex11_a 3 []; flush_fat a) with Ok _ => true | Err _ => false end) = true) by (vm_compute; reflexivity).
    rewrite E1 in X. cbn [bind] in X. rewrite E2 in X. discriminate.
Qed.
