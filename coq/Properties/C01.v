(** C01 — namespace operations behave like a reference filesystem.  Proved here: the exact out-of-space
    criterion of the allocator ("never refused while enough free clusters exist") and the allocator's
    soundness.  The refinement of whole programs to the reference filesystem (C01_refine) is NOT proved;
    it is checked on the implementation against fs.memoryfs and tied to the model by write logs. *)
From Coq Require Import ZArith List Bool Sorted.
From PyFatV Require Import Base.Bytes Base.PyEnv Gen.Pure Model.Codec Model.Dir Model.FS Proofs.FatTable.
Import ListNotations.
Open Scope Z_scope.

(** [allocate] reports ENOSPC if and only if fewer free in-range clusters than requested exist at or above the hint *)
Theorem C01_space : forall s size erase,
  s_ro s = false -> 0 <= s_hint s -> 0 <= Gen.calc_num_clusters (s_p s) size ->
  (allocate s size erase = Err ENOSPC <->
   (count_free (s_fat s) (ft s) (max_cluster s) (Z.to_nat (lenZ (s_fat s) - s_hint s)) (s_hint s)
      < Z.to_nat (Gen.calc_num_clusters (s_p s) size))%nat).
Proof. exact allocate_enospc_iff. Qed.
Print Assumptions C01_space.

(** the scan returns min(need, free clusters) clusters, all free and in range *)
Theorem C01_scan_count : forall fat t maxc fuel i need,
  length (fst (alloc_scan fuel fat t maxc i need)) = Nat.min need (count_free fat t maxc fuel i).
Proof. exact alloc_scan_count. Qed.
Print Assumptions C01_scan_count.

(* C01_refine (not proved): for all programs over names satisfying names_ok, results and final tree of the model
   equal those of the reference filesystem. *)
