(** C01 — namespace operations behave like a reference filesystem.  Proved here: the exact out-of-space
    criterion of the allocator ("never refused while enough free clusters exist") and the allocator's
    soundness; and one step of the refinement, through the device: an entry with a long name appended to a directory
    is — after the directory has been rewritten (growing if need be) and read back — found under that name and listed
    under exactly that name, next to the entries that were there (C01_created_entry_is_found), and the lookup of every
    name the new entry does not match is unchanged (C01_other_lookups_unchanged); the same for removal: the directory
    rewritten without the first entry a predicate selects reads back as exactly that list, and every lookup the removed entry
    did not answer to finds what it found before (C01_removed_entry_through_device).  The refinement of whole programs to
    the reference filesystem (C01_refine: path traversal over several directories, that the removed name itself is gone
    (needs uniqueness of names), the short-name side) is NOT proved; it is checked on the implementation against fs.memoryfs and tied to the model by write logs. *)
From Coq Require Import ZArith List Bool Sorted Lia FMapPositive.
From PyFatV Require Import Base.Bytes Base.PyEnv Gen.Pure Model.Codec Model.Dir Model.FS Proofs.FatTable Proofs.Names Proofs.Device Proofs.DirCodec Proofs.DirState Proofs.Chains Proofs.Namespace.
Import ListNotations.
Open Scope Z_scope.

(** [allocate] reports ENOSPC if and only if fewer free in-range clusters than requested exist at or above the hint *)
Theorem C01_space : forall s size erase,
  s_ro s = false -> 0 <= s_hint s -> 0 <= Gen.calc_num_clusters (s_p s) size ->
  (allocate s size erase = Err ENOSPC <->
   (count_free (s_fat s) (ft s) (max_cluster s) (Z.to_nat (lenZ (s_fat s) - s_hint s)) (s_hint s)
      < Z.to_nat (Gen.calc_num_clusters (s_p s) size))%nat).
Proof. exact allocate_enospc_iff. Qed.
Print Assumptions C01_space.

(** the scan returns min(need, free clusters) clusters, all free and in range *)
Theorem C01_scan_count : forall fat t maxc fuel i need,
  length (fst (alloc_scan fuel fat t maxc i need)) = Nat.min need (count_free fat t maxc fuel i).
Proof. exact alloc_scan_count. Qed.
Print Assumptions C01_scan_count.

Theorem C01_created_entry_is_found : forall s c es0 e0 u sfn n s' ch,
  dev_ok (s_dev s) -> geom_ok s -> vt (ft s) -> 0 <= s_hint s -> c <> -1 ->
  chain s c = (ch, true) -> Forall (inside s) ch -> vol_ok s ->
  Forall entry_ok es0 -> Forall unit_ok u -> 1 <= lenZ u <= 255 -> n_u n = u ->
  let e := set_lfn e0 (Some (make_lfn u sfn)) in
  entry_ok e -> is_special e = false -> is_volid e = false ->
  search_entry (map canon es0) n = None ->
  write_dir s c (map canon es0 ++ [e]) = Ok s' ->
  read_dir s' c = Ok (map canon es0 ++ [canon e]) /\
  search_entry (map canon es0 ++ [canon e]) n = Some (canon e) /\
  shown_name (canon e) = NLong u.
Proof. exact created_entry_is_found. Qed.
Print Assumptions C01_created_entry_is_found.
Theorem C01_other_lookups_unchanged : forall es x m, name_matches m x = false -> name_matches_upper m x = false ->
  search_entry (es ++ [x]) m = search_entry es m.
Proof. exact lookup_of_other_names_unchanged. Qed.
Print Assumptions C01_other_lookups_unchanged.

(* C01_refine (not proved): for all programs over names satisfying names_ok, results and final tree of the model
   equal those of the reference filesystem. *)

(** non-vacuity: "new.txt" created in the one-cluster directory of C03's example volume, next to "hi there.txt12" *)
From PyFatV Require Import Properties.C03.
Definition ex_u2 : list Z := [110;101;119;46;116;120;116].
Definition ex_sfn2 : list Z := [78;69;87;32;32;32;32;32;84;88;84].
Definition ex_n2 : namerec := mkName ex_u2 None None [] [] false.
Definition ex_e02 : dirent := mkDirent ex_sfn2 32 0 0 1 2 3 0 4 5 0 0 None.
Definition ex_e2 : dirent := set_lfn ex_e02 (Some (make_lfn ex_u2 ex_sfn2)).
Definition ex_created : st := match write_dir ex_st 2 (map canon [ex_ent] ++ [ex_e2]) with Ok s => s | Err _ => ex_st end.
Example C01_created_example :
  write_dir ex_st 2 (map canon [ex_ent] ++ [ex_e2]) = Ok ex_created /\
  search_entry (map canon [ex_ent]) ex_n2 = None /\
  read_dir ex_created 2 = Ok (map canon [ex_ent] ++ [canon ex_e2]) /\
  search_entry (map canon [ex_ent] ++ [canon ex_e2]) ex_n2 = Some (canon ex_e2) /\
  shown_name (canon ex_e2) = NLong ex_u2.
Proof.
  assert (E : write_dir ex_st 2 (map canon [ex_ent] ++ [ex_e2]) = Ok ex_created) by (vm_compute; reflexivity).
  assert (Hnone : search_entry (map canon [ex_ent]) ex_n2 = None) by (vm_compute; reflexivity).
  split; [exact E|]. split; [exact Hnone|].
  assert (Hu : Forall unit_ok ex_u2) by (unfold ex_u2; repeat constructor; unfold unit_ok; lia).
  assert (Hl : 1 <= lenZ ex_u2 <= 255) by (vm_compute; split; discriminate).
  assert (He : entry_ok ex_e2).
  { split.
    - unfold sentry_ok, short_ok. cbn. repeat split; try lia; discriminate.
    - cbn [d_lfn ex_e2 set_lfn ex_e02 d_name]. apply make_lfn_ok; assumption. }
  assert (G : geom_ok ex_st) by (vm_compute; repeat split; try reflexivity; discriminate).
  assert (Hv : vt (ft ex_st)) by (left; vm_compute; reflexivity).
  assert (Hh : 0 <= s_hint ex_st) by (vm_compute; discriminate).
  assert (Hc : chain ex_st 2 = ([2], true)) by (vm_compute; reflexivity).
  assert (I : Forall (inside ex_st) [2]) by (constructor; [vm_compute; split; discriminate|constructor]).
  assert (Hes : Forall entry_ok [ex_ent]) by (constructor; [apply ex_ent_ok|constructor]).
  assert (Hn2 : 2 <> -1) by discriminate.
  assert (Hsp : is_special ex_e2 = false) by (vm_compute; reflexivity).
  assert (Hvi : is_volid ex_e2 = false) by (vm_compute; reflexivity).
  exact (created_entry_is_found ex_st 2 [ex_ent] ex_e02 ex_u2 ex_sfn2 ex_n2 ex_created [2] dev_ok_empty G Hv Hh Hn2 Hc I ex_vol_ok Hes Hu Hl eq_refl He Hsp Hvi Hnone E).
Qed.

Theorem C01_removed_entry_through_device : forall s c es0 p s' ch,
  dev_ok (s_dev s) -> geom_ok s -> vt (ft s) -> 0 <= s_hint s -> c <> -1 ->
  chain s c = (ch, true) -> Forall (inside s) ch -> vol_ok s ->
  Forall entry_ok es0 ->
  write_dir s c (remove_first p (map canon es0)) = Ok s' ->
  read_dir s' c = Ok (remove_first p (map canon es0)) /\
  forall m, (forall x, In x (map canon es0) -> p x = true -> name_matches m x = false /\ name_matches_upper m x = false) ->
    search_entry (remove_first p (map canon es0)) m = search_entry (map canon es0) m.
Proof. exact removed_entry_through_device. Qed.
Print Assumptions C01_removed_entry_through_device.

(** ... and with the hint invariant (Proofs/Hint.v: no free in-range cluster below the hint; it holds after mount and is kept by
    allocation, release and linking, see C09) the criterion counts the free clusters of the WHOLE table: a request is refused if
    and only if the volume has fewer free clusters than it needs — never while enough exist (C01-m10 left the hint at the end of
    the table after one refused request; in the model a refused allocation returns no state). *)
From PyFatV Require Import Proofs.Hint.
Theorem C01_space_total : forall s size erase,
  s_ro s = false -> 0 <= s_hint s <= lenZ (s_fat s) -> hint_inv s -> 0 <= Gen.calc_num_clusters (s_p s) size ->
  (allocate s size erase = Err ENOSPC <->
   (count_free (s_fat s) (ft s) (max_cluster s) (length (s_fat s)) 0 < Z.to_nat (Gen.calc_num_clusters (s_p s) size))%nat).
Proof. exact allocate_enospc_total. Qed.
Print Assumptions C01_space_total.

(** ... after ANY history of interface calls from a state with the invariant (Proofs/HintOps.v carries it through every operation) *)
From Coq Require Import Relations.
From PyFatV Require Import Proofs.BootSafe Proofs.Inside Proofs.HintOps.
Theorem C01_space_after_history : forall s s' size erase,
  pre s -> hint_inv s -> clos_refl_trans st wstep s s' -> s_ro s' = false -> 0 <= Gen.calc_num_clusters (s_p s') size ->
  (allocate s' size erase = Err ENOSPC <->
   (count_free (s_fat s') (ft s') (max_cluster s') (length (s_fat s')) 0 < Z.to_nat (Gen.calc_num_clusters (s_p s') size))%nat).
Proof. exact history_enospc_exact. Qed.
Print Assumptions C01_space_after_history.
