(** C09 — a failed operation changes nothing.  In the model an operation returns either [Ok new_state] or [Err kind]
    — an [Err] carries no state, so the caller keeps the old one: that the model is atomic is a property of its type,
    and the error kinds are a closed enumeration without Python-internal exceptions.  What needs proof is that the
    allocator (the one primitive that mutates shared state before later steps can fail) is all-or-nothing and refuses
    exactly when space is lacking; and that the fixed root region of FAT12/16 refuses exactly when the serialised entries — 32
    bytes per SLOT, long-name slots included — do not fit, and otherwise writes exactly the region, never behind it
    (C09_root_full_refused, C09_root_rewrite_exact; the C01-m5 / C09-m5 mutations counted entries instead of slots). *)
From Coq Require Import ZArith List Bool Lia.
From PyFatV Require Import Base.Bytes Base.PyEnv Gen.Pure Model.Codec Model.Dir Model.FS Proofs.FatTable Proofs.Session Proofs.DirState.
Import ListNotations.
Open Scope Z_scope.

Theorem C09_alloc_refuses_iff : forall s size erase,
  s_ro s = false -> 0 <= s_hint s -> 0 <= Gen.calc_num_clusters (s_p s) size ->
  (allocate s size erase = Err ENOSPC <->
   (count_free (s_fat s) (ft s) (max_cluster s) (Z.to_nat (lenZ (s_fat s) - s_hint s)) (s_hint s)
      < Z.to_nat (Gen.calc_num_clusters (s_p s) size))%nat).
Proof. exact allocate_enospc_iff. Qed.
Print Assumptions C09_alloc_refuses_iff.
Theorem C09_alloc_frame : forall s size cs s' j,
  0 <= s_hint s -> allocate s size false = Ok (cs, s') -> 0 <= j -> ~ In j cs -> 2 <= Gen.MIN_DATA_CLUSTER (ft s) ->
  nthZ (s_fat s') j = nthZ (s_fat s) j.
Proof. exact allocate_frame. Qed.
Print Assumptions C09_alloc_frame.
(** read-only: every mutating primitive refuses before doing anything *)
Theorem C09_readonly : forall s, s_ro s = true ->
  (forall off d, write_at s off d = Err EROFS) /\ flush_fat s = Err EROFS /\ (forall size e, allocate s size e = Err EROFS) /\
  (forall c, free_chain s c = Err EROFS) /\ (forall d c e, write_data_to_cluster s d c e = Err EROFS) /\
  (forall loc es, write_dir s loc es = Err EROFS) /\ write_bpb s = Err EROFS.
Proof. exact ro_primitives_refuse. Qed.
Print Assumptions C09_readonly.

Theorem C09_root_full_refused : forall s loc es, is_root_fixed s loc = true -> s_ro s = false ->
  root_dir_sectors (s_p s) * bps s < lenZ (ser_dir es) -> write_dir s loc es = Err ENOSPC.
Proof. exact root_rewrite_refused. Qed.
Print Assumptions C09_root_full_refused.
Theorem C09_root_rewrite_exact : forall s loc es s', is_root_fixed s loc = true -> write_dir s loc es = Ok s' ->
  let sz := root_dir_sectors (s_p s) * bps s in
  lenZ (ser_dir es) <= sz /\
  exists data, s_log s' = (root_addr s, data) :: s_log s /\ lenZ data = sz /\ firstn (length (ser_dir es)) data = ser_dir es.
Proof. exact root_rewrite_exact. Qed.
Print Assumptions C09_root_rewrite_exact.

(** "removing entries to make room": the allocation hint never skips a free cluster.  [hint_inv] (no free in-range cluster below
    the hint) holds after mount (hint 0), is kept by a granted allocation (a refused one returns no state), by the release of a
    chain — the hint goes down to the LOWEST released cluster, in whatever order the chain visits its clusters (C09-m10 lowered it
    to the head only) — and by the single-entry updates that link or end a chain; the released clusters are free, in range and not
    below the hint afterwards, and under [hint_inv] the allocator refuses exactly when the WHOLE table has too few free clusters. *)
From PyFatV Require Import Proofs.Chains Proofs.Hint.
Theorem C09_hint_kept_by_allocate : forall s size erase cs s',
  vt (ft s) -> 0 <= s_hint s -> hint_inv s -> allocate s size erase = Ok (cs, s') -> hint_inv s'.
Proof. exact allocate_hint_inv. Qed.
Print Assumptions C09_hint_kept_by_allocate.
Theorem C09_hint_kept_by_release : forall s c s', hint_inv s -> free_chain s c = Ok s' -> hint_inv s'.
Proof. exact free_chain_hint_inv. Qed.
Print Assumptions C09_hint_kept_by_release.
Theorem C09_hint_kept_by_link : forall s k v, hint_inv s -> 0 <= k -> v <> Gen.FREE_CLUSTER (ft s) ->
  hint_inv (upd_fat s (updZ (s_fat s) k v) (s_hint s)).
Proof. exact upd_entry_hint_inv. Qed.
Print Assumptions C09_hint_kept_by_link.
Theorem C09_released_room_is_found : forall s c s' cs, free_chain s c = Ok s' -> chain_all s c = Ok cs ->
  s_hint s' <= s_hint s /\
  Forall (fun x => nthZ (s_fat s') x = Gen.FREE_CLUSTER (ft s) /\ s_hint s' <= x /\ in_range (ft s) (max_cluster s) x \/ Gen.MAX_DATA_CLUSTER (ft s) < x) cs.
Proof. exact free_chain_frees. Qed.
Print Assumptions C09_released_room_is_found.
Theorem C09_refused_only_when_full : forall s size erase,
  s_ro s = false -> 0 <= s_hint s <= lenZ (s_fat s) -> hint_inv s -> 0 <= Gen.calc_num_clusters (s_p s) size ->
  (allocate s size erase = Err ENOSPC <->
   (count_free (s_fat s) (ft s) (max_cluster s) (length (s_fat s)) 0 < Z.to_nat (Gen.calc_num_clusters (s_p s) size))%nat).
Proof. exact allocate_enospc_total. Qed.
Print Assumptions C09_refused_only_when_full.

(** the hypotheses are met, and the scenario of C09-m10 computes: a file whose chain is 6 -> 7 -> 2 -> 3 (its head is NOT its lowest
    cluster), clusters 4 and 5 taken by others, hint 8; releasing it brings the hint to 2 and four clusters are granted again *)
From PyFatV Require Import Properties.C03.
Import ListNotations.
Definition ex09 : st := upd_fat ex_st ([4088; 4095; 3; 4095; 4095; 4095; 7; 2] ++ repeat 0 95) 8.
Example C09_room_example :
  hint_inv ex09 /\ chain_all ex09 6 = Ok [6; 7; 2; 3] /\
  exists s', free_chain ex09 6 = Ok s' /\ s_hint s' = 2 /\ hint_inv s' /\
             exists s'', allocate s' (4 * 512) false = Ok ([2; 3; 6; 7], s'').
Proof.
  assert (H0 : hint_inv ex09).
  { unfold hint_inv, hint_ok. intros c Hc _. change (s_hint ex09) with 8 in Hc.
    assert (Hcases : c = 0 \/ c = 1 \/ c = 2 \/ c = 3 \/ c = 4 \/ c = 5 \/ c = 6 \/ c = 7) by lia.
    destruct Hcases as [->|[->|[->|[->|[->|[->|[->| ->]]]]]]]; vm_compute; discriminate. }
  split; [exact H0|]. split; [vm_compute; reflexivity|].
  destruct (free_chain ex09 6) as [s'|] eqn:E; [|vm_compute in E; discriminate].
  exists s'. split; [reflexivity|]. split.
  - revert E. vm_compute. intros E. inversion E. reflexivity.
  - split; [exact (free_chain_hint_inv _ _ _ H0 E)|].
    revert E. vm_compute. intros E. inversion E. eexists. reflexivity.
Qed.

(** ... and the release as the code does it: the free mark and the hint step are REGENERATED from [free_cluster_chain] (tools/translate.py fails
    closed on any other shape of its loop); the model's [free_chain] is their fold over the chain *)
From PyFatV Require Import Proofs.GenChain.
Theorem C09_release_from_source : forall s c s' cs, free_chain s c = Ok s' -> chain_all s c = Ok cs ->
  s_fat s' = fold_left (fun f cl => updZ f cl (Gen.free_mark (ft s))) cs (s_fat s) /\
  s_hint s' = fold_left (fun a cl => Gen.free_hint_step cl a) cs (s_hint s).
Proof. exact free_chain_gen. Qed.
Print Assumptions C09_release_from_source.

(** the state a mount produces satisfies the invariant (its hint is 0) *)
Theorem C09_hint_after_mount : forall d dsize ro pc s dirty, mount d dsize ro pc = Ok (s, dirty) -> s_hint s = 0 /\ hint_inv s.
Proof. exact mount_hint_inv. Qed.
Print Assumptions C09_hint_after_mount.

(** ... and through whole histories (Proofs/HintOps.v): every state a history of interface calls — create, makedir, remove, removedir, removetree,
    setinfo, openbin, handle write / truncate / close — reaches from a state with the invariant (a mounted volume has it) has it too;
    so after ANY such history a request is refused exactly when the whole table has too few free clusters: room made by removals is found *)
From Coq Require Import Relations.
From PyFatV Require Import Proofs.BootSafe Proofs.Inside Proofs.HintOps.
Theorem C09_hint_over_histories : forall s s', pre s -> hint_inv s -> clos_refl_trans st wstep s s' -> hint_inv s'.
Proof. exact history_hint_inv. Qed.
Print Assumptions C09_hint_over_histories.
Theorem C09_refused_only_when_full_after_history : forall s s' size erase,
  pre s -> hint_inv s -> clos_refl_trans st wstep s s' -> s_ro s' = false -> 0 <= Gen.calc_num_clusters (s_p s') size ->
  (allocate s' size erase = Err ENOSPC <->
   (count_free (s_fat s') (ft s') (max_cluster s') (length (s_fat s')) 0 < Z.to_nat (Gen.calc_num_clusters (s_p s') size))%nat).
Proof. exact history_enospc_exact. Qed.
Print Assumptions C09_refused_only_when_full_after_history.

(** the premises are met by a history that allocates: the FAT16 volume of C08's example, after the dirty marking, a makedir and a file
    creation; the hint has moved up, and the invariant says something about the clusters below it *)
From PyFatV Require Import Properties.C08.
Example C09_history_example :
  pre ex08_s1 /\ hint_inv ex08_s1 /\ clos_refl_trans st wstep ex08_s1 ex08_b /\ hint_inv ex08_b /\ 2 < s_hint ex08_b.
Proof.
  assert (Hp : pre ex08_s1).
  { unfold pre. split; [right; left; vm_compute; reflexivity|]. split.
    - unfold geo. repeat (split; [vm_compute; first [reflexivity|discriminate]|]). vm_compute. discriminate.
    - vm_compute; discriminate. }
  assert (Hi : hint_inv ex08_s1) by (apply hint_zero_inv; vm_compute; reflexivity).
  destruct C08_io_example as (_ & _ & _ & _ & _ & Hh & _).
  split; [exact Hp|]. split; [exact Hi|]. split; [exact Hh|]. split; [exact (history_hint_inv _ _ Hp Hi Hh)|].
  vm_compute. reflexivity.
Qed.
