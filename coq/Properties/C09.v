(** C09 — a failed operation changes nothing.  In the model an operation returns either [Ok new_state] or [Err kind]
    — an [Err] carries no state, so the caller keeps the old one: that the model is atomic is a property of its type,
    and the error kinds are a closed enumeration without Python-internal exceptions.  What needs proof is that the
    allocator (the one primitive that mutates shared state before later steps can fail) is all-or-nothing and refuses
    exactly when space is lacking; and that the fixed root region of FAT12/16 refuses exactly when the serialised entries — 32
    bytes per SLOT, long-name slots included — do not fit, and otherwise writes exactly the region, never behind it
    (C09_root_full_refused, C09_root_rewrite_exact; the C01-m5 / C09-m5 mutations counted entries instead of slots). *)
From Coq Require Import ZArith List Bool.
From PyFatV Require Import Base.Bytes Base.PyEnv Gen.Pure Model.Codec Model.Dir Model.FS Proofs.FatTable Proofs.Session Proofs.DirState.
Import ListNotations.
Open Scope Z_scope.

Theorem C09_alloc_refuses_iff : forall s size erase,
  s_ro s = false -> 0 <= s_hint s -> 0 <= Gen.calc_num_clusters (s_p s) size ->
  (allocate s size erase = Err ENOSPC <->
   (count_free (s_fat s) (ft s) (max_cluster s) (Z.to_nat (lenZ (s_fat s) - s_hint s)) (s_hint s)
      < Z.to_nat (Gen.calc_num_clusters (s_p s) size))%nat).
Proof. exact allocate_enospc_iff. Qed.
Print Assumptions C09_alloc_refuses_iff.
Theorem C09_alloc_frame : forall s size cs s' j,
  0 <= s_hint s -> allocate s size false = Ok (cs, s') -> 0 <= j -> ~ In j cs -> 2 <= Gen.MIN_DATA_CLUSTER (ft s) ->
  nthZ (s_fat s') j = nthZ (s_fat s) j.
Proof. exact allocate_frame. Qed.
Print Assumptions C09_alloc_frame.
(** read-only: every mutating primitive refuses before doing anything *)
Theorem C09_readonly : forall s, s_ro s = true ->
  (forall off d, write_at s off d = Err EROFS) /\ flush_fat s = Err EROFS /\ (forall size e, allocate s size e = Err EROFS) /\
  (forall c, free_chain s c = Err EROFS) /\ (forall d c e, write_data_to_cluster s d c e = Err EROFS) /\
  (forall loc es, write_dir s loc es = Err EROFS) /\ write_bpb s = Err EROFS.
Proof. exact ro_primitives_refuse. Qed.
Print Assumptions C09_readonly.

Theorem C09_root_full_refused : forall s loc es, is_root_fixed s loc = true -> s_ro s = false ->
  root_dir_sectors (s_p s) * bps s < lenZ (ser_dir es) -> write_dir s loc es = Err ENOSPC.
Proof. exact root_rewrite_refused. Qed.
Print Assumptions C09_root_full_refused.
Theorem C09_root_rewrite_exact : forall s loc es s', is_root_fixed s loc = true -> write_dir s loc es = Ok s' ->
  let sz := root_dir_sectors (s_p s) * bps s in
  lenZ (ser_dir es) <= sz /\
  exists data, s_log s' = (root_addr s, data) :: s_log s /\ lenZ data = sz /\ firstn (length (ser_dir es)) data = ser_dir es.
Proof. exact root_rewrite_exact. Qed.
Print Assumptions C09_root_rewrite_exact.
