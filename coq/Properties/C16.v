(** C16 — mount + clean unmount leaves the volume byte-identical.  Proved: serialising a freshly parsed FAT reproduces
    every byte of every complete entry for all three widths — FAT32 exactly, reserved upper bits included — for every
    table length; setting and clearing the two flags is the identity on a clean volume; serialising the parsed boot
    sector reproduces its bytes (any layout, in particular the generated ones). *)
From Coq Require Import ZArith List Bool.
From PyFatV Require Import Base.Bytes Base.PyEnv Gen.Pure Model.Codec Proofs.FatCodec Proofs.Session.
Import ListNotations.
Open Scope Z_scope.

Theorem C16_fat_exact :
  (forall bs, bytes_ok bs -> pack12 (parse12 bs) = trim12 bs) /\
  (forall bs, bytes_ok bs -> pack16 (parse16 bs) = trim16 bs) /\
  (forall bs, bytes_ok bs -> pack32 (parse32 bs) (parse32hi bs) = trim32 bs).
Proof. exact (conj pack12_parse12 (conj pack16_parse16 pack32_parse32)). Qed.
Print Assumptions C16_fat_exact.
(** [trim] is the table itself when it consists of whole entries (always for FAT16/32 tables of whole sectors) *)
Theorem C16_trim_id : (forall bs, Nat.even (length bs) = true -> trim16 bs = bs) /\ (forall bs, (length bs mod 4 = 0)%nat -> trim32 bs = bs) /\
  (forall bs, bytes_ok bs -> slack12_zero bs -> exists t, bs = trim12 bs ++ t /\ (length t <= 1)%nat).
Proof. exact (conj trim16_even (conj trim32_id trim12_prefix)). Qed.
Print Assumptions C16_trim_id.
Theorem C16_flags : forall fat1 res1 m,
  0 <= m -> Z.land fat1 m = m -> Z.land res1 Gen.FAT_DIRTY_BIT_MASK = 0 ->
  Z.lor (Z.land fat1 (Z.lnot m)) m = fat1 /\
  Z.land (Z.lor res1 Gen.FAT_DIRTY_BIT_MASK) (Z.lnot Gen.FAT_DIRTY_BIT_MASK) = res1.
Proof. exact flags_roundtrip. Qed.
Print Assumptions C16_flags.
Theorem C16_bootsector : forall lay bs, layout_ok lay -> bytes_ok bs -> layout_size lay <= lenZ bs -> pads_zero_in lay bs ->
  ser_layout lay (parse_layout lay bs) = firstn (Z.to_nat (layout_size lay)) bs.
Proof. exact ser_parse_layout. Qed.
Print Assumptions C16_bootsector.
