(** C16 — mount + clean unmount leaves the volume byte-identical.  Proved: serialising a freshly parsed FAT reproduces
    every byte of every complete entry for all three widths — FAT32 exactly, reserved upper bits included — for every
    table length; setting and clearing the two flags is the identity on a clean volume; serialising the parsed boot
    sector reproduces its bytes (any layout, in particular the generated ones).  And the session itself, through the
    device: C16_session — if the boot sector(s) and every FAT copy on the device are the serialisation of what the mounted
    state holds and the volume is clean, then after the read-write mount's dirty marking and the close's clean marking the
    device holds, at EVERY address, the byte it held before, and header and table in memory are the ones before. *)
From Coq Require Import ZArith List Bool Lia FMapPositive.
From PyFatV Require Import Base.Bytes Base.PyEnv Gen.Pure Model.Codec Model.Dir Model.FS Proofs.FatCodec Proofs.Session Proofs.Device Proofs.DirCodec Proofs.DirState Proofs.FatState Proofs.HdrState Proofs.Identity.
Import ListNotations.
Open Scope Z_scope.

Theorem C16_fat_exact :
  (forall bs, bytes_ok bs -> pack12 (parse12 bs) = trim12 bs) /\
  (forall bs, bytes_ok bs -> pack16 (parse16 bs) = trim16 bs) /\
  (forall bs, bytes_ok bs -> pack32 (parse32 bs) (parse32hi bs) = trim32 bs).
Proof. exact (conj pack12_parse12 (conj pack16_parse16 pack32_parse32)). Qed.
Print Assumptions C16_fat_exact.
(** [trim] is the table itself when it consists of whole entries (always for FAT16/32 tables of whole sectors) *)
Theorem C16_trim_id : (forall bs, Nat.even (length bs) = true -> trim16 bs = bs) /\ (forall bs, (length bs mod 4 = 0)%nat -> trim32 bs = bs) /\
  (forall bs, bytes_ok bs -> slack12_zero bs -> exists t, bs = trim12 bs ++ t /\ (length t <= 1)%nat).
Proof. exact (conj trim16_even (conj trim32_id trim12_prefix)). Qed.
Print Assumptions C16_trim_id.
Theorem C16_flags : forall fat1 res1 m,
  0 <= m -> Z.land fat1 m = m -> Z.land res1 Gen.FAT_DIRTY_BIT_MASK = 0 ->
  Z.lor (Z.land fat1 (Z.lnot m)) m = fat1 /\
  Z.land (Z.lor res1 Gen.FAT_DIRTY_BIT_MASK) (Z.lnot Gen.FAT_DIRTY_BIT_MASK) = res1.
Proof. exact flags_roundtrip. Qed.
Print Assumptions C16_flags.
Theorem C16_bootsector : forall lay bs, layout_ok lay -> bytes_ok bs -> layout_size lay <= lenZ bs -> pads_zero_in lay bs ->
  ser_layout lay (parse_layout lay bs) = firstn (Z.to_nat (layout_size lay)) bs.
Proof. exact ser_parse_layout. Qed.
Print Assumptions C16_bootsector.

Theorem C16_session : forall s0 s1 s2,
  let d := s_dev s0 in let sz := s_dsize s0 in let h0 := s_h s0 in let fat0 := s_fat s0 in
  let is32 := ft s0 =? Gen.FAT_TYPE_FAT32 in let bk := BPB_BkBootSec h0 * bps s0 in
  dev_ok d ->
  mark_dirty s0 = Ok s1 -> mark_clean s1 = Ok s2 ->
  Z.land (BS_Reserved1 h0) Gen.FAT_DIRTY_BIT_MASK = 0 ->
  (forall m, shutdown_mask (ft s0) = Some m -> 0 <= m /\ Z.land (nthZ fat0 1) m = m /\ 1 < lenZ fat0) ->
  Forall (orig d sz) (bpbW h0 is32 bk) ->
  (forall m, shutdown_mask (ft s0) = Some m ->
     Forall (orig d sz) (fatW (fat_start s0) (fat_bytes s0) (pack_fat (ft s0) fat0 (s_hi s0)) 0 (Z.to_nat (BPB_NumFATs h0)))) ->
  (forall a, 0 <= a -> dbyte (s_dev s2) a = dbyte d a) /\ s_h s2 = h0 /\ s_fat s2 = fat0.
Proof. exact session_identity. Qed.
Print Assumptions C16_session.

(** ... and composed with [mount] and [op_close]: for a canonical clean image (bytes in range, clean flags, whole FAT entries,
    identical FAT copies, FAT32: backup boot sector equal to the primary) a read-write mount followed by close leaves every
    byte of the device as it was *)
Theorem C16_mount_close : forall d sz pc s1 dirty s2,
  dev_ok d -> mount d sz false pc = Ok (s1, dirty) -> op_close s1 = Ok s2 ->
  let boot := dread d sz 0 512 in
  let h0 := parse_hdr boot in
  let p := set_bytes_per_cluster (Gen.parse_header_geometry pf_init h0) (BPB_BytsPerSec h0 * BPB_SecPerClus h0) in
  let t := fat_type p in
  let fs := BPB_RsvdSecCnt h0 * BPB_BytsPerSec h0 in
  let fsz := BPB_BytsPerSec h0 * _fat_size p in
  let fb := dread d sz fs fsz in
  let bk := BPB_BkBootSec h0 * BPB_BytsPerSec h0 in
  bytes_ok boot -> bytes_ok fb ->
  Z.land (BS_Reserved1 h0) Gen.FAT_DIRTY_BIT_MASK = 0 ->
  (t = 16 -> Nat.even (length fb) = true /\ Z.land (nthZ (parse16 fb) 1) 32768 = 32768 /\ 1 < lenZ (parse16 fb)) ->
  (t = 32 -> (length fb mod 4 = 0)%nat /\ Z.land (nthZ (parse32 fb) 1) 134217728 = 134217728 /\ 1 < lenZ (parse32 fb)) ->
  0 <= fs -> 0 <= fsz -> 0 <= BPB_NumFATs h0 -> fs + BPB_NumFATs h0 * fsz <= sz ->
  (forall k, 0 <= k < BPB_NumFATs h0 -> dread d sz (fs + k * fsz) fsz = fb) ->
  (t = 32 -> orig d sz (bk, ser_hdr h0) /\ orig d sz (510 + bk, [85; 170])) ->
  forall a, 0 <= a -> dbyte (s_dev s2) a = dbyte d a.
Proof. exact mount_close_identity. Qed.
Print Assumptions C16_mount_close.

(** non-vacuity: a FAT16 volume of 4400 sectors (both FAT copies and the boot sector written by the model), marked dirty
    (FAT[1] and BS_Reserved1 really change on the device) and clean again *)
Definition ex16_hdr : hdr := mkHdr [235;60;144] (repeat 77 8) 512 1 1 2 64 4400 248 17 0 0 0 0 0 0 0 0 0 0 [] 128 0 41 7 (repeat 32 11) (repeat 70 8) false.
Definition ex16_init : st :=
  mkSt ex16_hdr (set_bytes_per_cluster (Gen.parse_header_geometry pf_init ex16_hdr) 512) false false ([65528; 65535; 65535] ++ repeat 0 4349) [] 0
       (PositiveMap.empty _) (4400 * 512) [] [].
Definition ex16_s0 : st :=
  match (do a <- write_bpb ex16_init; flush_fat a) with Ok s => upd_dev s (s_dev s) [] | Err _ => ex16_init end.
Definition ex16_s1 : st := match mark_dirty ex16_s0 with Ok s => s | Err _ => ex16_s0 end.
Definition ex16_s2 : st := match mark_clean ex16_s1 with Ok s => s | Err _ => ex16_s1 end.
Example C16_session_example :
  ft ex16_s0 = 16 /\ mark_dirty ex16_s0 = Ok ex16_s1 /\ mark_clean ex16_s1 = Ok ex16_s2 /\
  dbyte (s_dev ex16_s1) 37 = 1 /\ dbyte (s_dev ex16_s0) 37 = 0 /\ dbyte (s_dev ex16_s1) 515 = 127 /\ dbyte (s_dev ex16_s0) 515 = 255 /\
  (forall a, 0 <= a -> dbyte (s_dev ex16_s2) a = dbyte (s_dev ex16_s0) a).
Proof.
  assert (E1 : mark_dirty ex16_s0 = Ok ex16_s1) by (vm_compute; reflexivity).
  assert (E2 : mark_clean ex16_s1 = Ok ex16_s2) by (vm_compute; reflexivity).
  split; [vm_compute; reflexivity|]. split; [exact E1|]. split; [exact E2|].
  split; [vm_compute; reflexivity|]. split; [vm_compute; reflexivity|]. split; [vm_compute; reflexivity|]. split; [vm_compute; reflexivity|].
  assert (Hd : dev_ok (s_dev ex16_s0)).
  { assert (Hw : exists sa, write_bpb ex16_init = Ok sa /\ exists sb, flush_fat sa = Ok sb /\ s_dev ex16_s0 = s_dev sb).
    { destruct (write_bpb ex16_init) as [sa|] eqn:Ea; [|vm_compute in Ea; discriminate]. exists sa. split; [reflexivity|].
      destruct (flush_fat sa) as [sb|] eqn:Eb.
      - exists sb. split; [reflexivity|]. unfold ex16_s0. rewrite Ea. cbn [bind]. rewrite Eb. reflexivity.
      - exfalso. assert (X : (do a <- write_bpb ex16_init; flush_fat a) = Err e) by (rewrite Ea; cbn [bind]; exact Eb). vm_compute in X. discriminate. }
    destruct Hw as (sa & Ea & sb & Eb & ->).
    apply wrote_write_bpb in Ea. unfold flush_fat in Eb. destruct (s_ro sa); [discriminate|]. apply wrote_flush_copies in Eb.
    destruct Eb as (_ & Db & _). rewrite Db. rewrite (proj1 (proj2 Ea)). apply apply_log_ok; [apply apply_log_ok; [apply dev_ok_empty|]|].
    - apply Forall_forall. intros w Hw. assert (Hb : forallb (fun w => 0 <=? fst w) (bpbW (s_h ex16_init) (ft ex16_init =? Gen.FAT_TYPE_FAT32) (BPB_BkBootSec (s_h ex16_init) * bps ex16_init)) = true) by (vm_compute; reflexivity).
      rewrite forallb_forall in Hb. specialize (Hb w Hw). lia.
    - apply Forall_forall. intros w Hw.
      match type of Hw with In _ ?L => assert (Hb : forallb (fun w => 0 <=? fst w) L = true) end.
      { destruct Ea as (_ & _ & Hh & Hp & Hf & Hhi & _). unfold fat_start, fat_bytes, bps, ft. rewrite Hh, Hp, Hf, Hhi. vm_compute. reflexivity. }
      rewrite forallb_forall in Hb. specialize (Hb w Hw). lia. }
  apply (session_identity ex16_s0 ex16_s1 ex16_s2 Hd E1 E2).
  - vm_compute. reflexivity.
  - intros m Hm. vm_compute in Hm. inversion Hm; subst m. vm_compute. repeat split; try discriminate; reflexivity.
  - apply origb_orig. vm_compute. reflexivity.
  - intros m _. apply origb_orig. vm_compute. reflexivity.
Qed.

(** the same volume through [mount] and [op_close] *)
Definition ex16_dev : dev := s_dev ex16_s0.
Definition ex16_m1 : st := match mount ex16_dev (4400 * 512) false false with Ok (s, _) => s | Err _ => ex16_s0 end.
Definition ex16_m2 : st := match op_close ex16_m1 with Ok s => s | Err _ => ex16_m1 end.
Example C16_mount_close_example :
  mount ex16_dev (4400 * 512) false false = Ok (ex16_m1, false) /\ op_close ex16_m1 = Ok ex16_m2 /\
  (forall a, 0 <= a -> dbyte (s_dev ex16_m2) a = dbyte ex16_dev a).
Proof.
  assert (E1 : mount ex16_dev (4400 * 512) false false = Ok (ex16_m1, false)) by (vm_compute; reflexivity).
  assert (E2 : op_close ex16_m1 = Ok ex16_m2) by (vm_compute; reflexivity).
  split; [exact E1|]. split; [exact E2|].
  destruct C16_session_example as (_ & _ & _ & _ & _ & _ & _ & _).
  assert (Hd : dev_ok ex16_dev).
  { unfold ex16_dev. assert (Hw : exists sa, write_bpb ex16_init = Ok sa /\ exists sb, flush_fat sa = Ok sb /\ s_dev ex16_s0 = s_dev sb).
    { destruct (write_bpb ex16_init) as [sa|] eqn:Ea; [|vm_compute in Ea; discriminate]. exists sa. split; [reflexivity|].
      destruct (flush_fat sa) as [sb|] eqn:Eb.
      - exists sb. split; [reflexivity|]. unfold ex16_s0. rewrite Ea. cbn [bind]. rewrite Eb. reflexivity.
      - exfalso. assert (X : (do a <- write_bpb ex16_init; flush_fat a) = Err e) by (rewrite Ea; cbn [bind]; exact Eb). vm_compute in X. discriminate. }
    destruct Hw as (sa & Ea & sb & Eb & ->).
    apply wrote_write_bpb in Ea. unfold flush_fat in Eb. destruct (s_ro sa); [discriminate|]. apply wrote_flush_copies in Eb.
    destruct Eb as (_ & Db & _). rewrite Db. rewrite (proj1 (proj2 Ea)). apply apply_log_ok; [apply apply_log_ok; [apply dev_ok_empty|]|].
    - apply Forall_forall. intros w Hw. assert (Hb : forallb (fun w => 0 <=? fst w) (bpbW (s_h ex16_init) (ft ex16_init =? Gen.FAT_TYPE_FAT32) (BPB_BkBootSec (s_h ex16_init) * bps ex16_init)) = true) by (vm_compute; reflexivity).
      rewrite forallb_forall in Hb. specialize (Hb w Hw). lia.
    - apply Forall_forall. intros w Hw.
      match type of Hw with In _ ?L => assert (Hb : forallb (fun w => 0 <=? fst w) L = true) end.
      { destruct Ea as (_ & _ & Hh & Hp & Hf & Hhi & _). unfold fat_start, fat_bytes, bps, ft. rewrite Hh, Hp, Hf, Hhi. vm_compute. reflexivity. }
      rewrite forallb_forall in Hb. specialize (Hb w Hw). lia. }
  apply (mount_close_identity ex16_dev (4400 * 512) false ex16_m1 false ex16_m2 Hd E1 E2).
  - apply bytes_okb_spec. vm_compute. reflexivity.
  - apply bytes_okb_spec. vm_compute. reflexivity.
  - vm_compute. reflexivity.
  - intros _. vm_compute. repeat split; reflexivity.
  - intros H. vm_compute in H. discriminate.
  - vm_compute. discriminate.
  - vm_compute. discriminate.
  - vm_compute. discriminate.
  - vm_compute. discriminate.
  - intros k Hk. change (BPB_NumFATs _) with 2 in Hk. assert (Hk' : k = 0 \/ k = 1) by lia. destruct Hk' as [->| ->]; apply list_eqb_eq; vm_compute; reflexivity.
  - intros H. vm_compute in H. discriminate.
Qed.

(** performing operations: what ANY history of interface calls leaves alone — the parsed boot sector (hence, with
    C11_ops_spare_boot_sector, the first 512 bytes of the device: reserved bytes and boot code), the reserved upper bits
    of the FAT32 entries, and every FAT entry that was neither free nor part of a chain (reserved entries, bad-cluster
    marks, entries behind the last cluster) *)
From Coq Require Import Relations.
From PyFatV Require Import Proofs.BootSafe Proofs.Inside.
Theorem C16_history_frame : forall s s', pre s -> clos_refl_trans st wstep s s' ->
  s_h s' = s_h s /\ s_p s' = s_p s /\ s_hi s' = s_hi s /\ lenZ (s_fat s') = lenZ (s_fat s) /\
  forall i, 0 <= i -> nthZ (s_fat s') i <> nthZ (s_fat s) i ->
    2 <= i <= max_cluster s /\ (nthZ (s_fat s) i = 0 \/ used_val (ft s) (dmax s) (nthZ (s_fat s) i) = true) /\
    0 <= nthZ (s_fat s') i <= Gen.END_OF_CLUSTER_MAX (ft s).
Proof.
  intros s s' Hp H. destruct (history_J s s' Hp H) as (A1 & A2 & A3 & _ & _ & [L C] & _).
  split; [exact A1|]. split; [exact A2|]. split; [exact A3|]. split; [exact L|exact C].
Qed.
Print Assumptions C16_history_frame.
