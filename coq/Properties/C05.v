(** C05 — directories written to disk are well-formed.  Proved: the long-name set the model builds for ANY name
    of 1..255 UTF-16 units is, slot for slot, what the specification demands (ascending ordinals 1..n-1, n|0x40 —
    serialised in descending order —, attribute 0x0F, type 0, cluster 0, the checksum of the short entry, the name
    followed by NUL and 0xFFFF padding to a multiple of 13 units, ceil(len/13) slots) and decodes back to the name;
    the checksum is the specification's; a stored lead byte is never 0xE5.  Short names stay pairwise different:
    the entry create / makedir / move append to ANY directory carries an alias whose stored 11 bytes show the alias again
    and differ from every short name already there (C05_short_names_stay_unique), is never '.' or '..' and consists of
    characters above the space other than the dot (C05_alias_stored).  What makedir writes into a new directory is, whenever it
    succeeds, a '.' entry naming the directory's own first cluster — a cluster that was free — and a '..' entry naming the
    parent's first cluster (0 for the root), both directories without long names, and the entry added to the parent names the
    same cluster, is a directory and has size 0 (C05_makedir_writes_dots).  Whole-history well-formedness is judged by the
    independent fsck on the real images. *)
From Coq Require Import ZArith List Bool Sorted.
From PyFatV Require Import Base.Bytes Base.PyEnv Gen.Pure Model.Codec Model.Dir Proofs.Names Proofs.FatCodec Proofs.DirCodec Model.FS Proofs.Alias Proofs.Dots.
Import ListNotations.
Open Scope Z_scope.

Theorem C05_lfn_set : forall u sfn, Forall unit_ok u -> 1 <= lenZ u <= 255 ->
  let sl := make_lfn u sfn in
  lfn_units sl = u /\
  lenZ sl = (lenZ u + 12) / 13 /\
  flat_map parts sl = lfn_padded u /\
  StronglySorted (fun x y => l_ord x < l_ord y) sl /\
  Forall (fun s => l_chk s = Gen.checksum sfn /\ l_attr s = Gen.ATTR_LONG_NAME /\ l_clus s = 0 /\ l_type s = 0) sl.
Proof. exact lfn_roundtrip. Qed.
Print Assumptions C05_lfn_set.
Theorem C05_padding : forall u, Forall unit_ok u -> u <> [] ->
  exists k, (length (lfn_padded u) = 26 * k)%nat /\ Z.of_nat k = (lenZ u + 12) / 13 /\
    ((lenZ u mod 13 = 0 /\ units_of_bytes (lfn_padded u) = u) \/
     (lenZ u mod 13 <> 0 /\ exists j, units_of_bytes (lfn_padded u) = u ++ [0] ++ repeat 65535 j)).
Proof. exact lfn_padded_shape. Qed.
Print Assumptions C05_padding.
Theorem C05_checksum : forall name, bytes_ok name -> Gen.checksum name = spec_checksum name /\ 0 <= Gen.checksum name < 256.
Proof. exact checksum_spec. Qed.
Theorem C05_lead_byte : forall name, hd 0 (sfn_lead_encode name) <> 229.
Proof. exact sfn_lead_never_e5. Qed.
Example C05_example : lfn_units (make_lfn [104;105;32;116;104;101;114;101;46;116;120;116;49;50] [65;66;67;32;32;32;32;32;84;88;84]) = [104;105;32;116;104;101;114;101;46;116;120;116;49;50]
  /\ length (make_lfn [104;105;32;116;104;101;114;101;46;116;120;116;49;50] [65;66;67;32;32;32;32;32;84;88;84]) = 2%nat.
Proof. vm_compute. split; reflexivity. Qed.

(** The directory reader inverts the directory writer: for ANY list of well-formed entries (short entries with
    in-range fields, a lead byte that is neither the end mark nor the deleted mark, not attribute 0x0F; long-name
    sets in ascending ordinal order 1..n|0x40 carrying the entry's checksum), scanning the serialised directory
    followed by zero fill returns exactly those entries (long-name slots in disk order) and reports the end mark;
    nothing is lost, merged or invented.  The long-name sets the model builds always qualify. *)
Theorem C05_reader_inverts_writer : forall es k f, Forall entry_ok es -> (0 < k)%nat ->
  scan_slots (nslots_dir es + S f) (ser_dir es ++ repeat 0 (32 * k)) [] [] = Ok (map canon es, [], true).
Proof. exact read_what_was_written. Qed.
Print Assumptions C05_reader_inverts_writer.
Theorem C05_reader_inverts_writer_full : forall es f, Forall entry_ok es ->
  scan_slots (nslots_dir es + f) (ser_dir es) [] [] = Ok (map canon es, [], false).
Proof. exact read_what_was_written_full. Qed.
Print Assumptions C05_reader_inverts_writer_full.
Theorem C05_built_sets_qualify : forall u name, Forall unit_ok u -> 1 <= lenZ u <= 255 -> lfnset_ok (make_lfn u name) name.
Proof. exact make_lfn_ok. Qed.
Print Assumptions C05_built_sets_qualify.
Definition ex_entry : dirent :=
  mkDirent [65;66;67;32;32;32;32;32;84;88;84] 32 0 0 100 200 300 0 400 500 7 1234
           (Some (make_lfn [104;105;32;116;104;101;114;101;46;116;120;116;49;50] [65;66;67;32;32;32;32;32;84;88;84])).
Example C05_reader_example :
  scan_slots 10 (ser_dir [ex_entry; set_lfn ex_entry None] ++ repeat 0 32) [] [] = Ok (map canon [ex_entry; set_lfn ex_entry None], [], true)
  /\ length (ser_dir [ex_entry; set_lfn ex_entry None]) = 128%nat.
Proof. vm_compute. split; reflexivity. Qed.

Theorem C05_alias_stored : forall n es b e,
  Forall (fun c => 32 <= c) (n_base n) -> Forall (fun c => 32 <= c) (n_ext n) -> lenZ (n_base n) <= 8 -> lenZ (n_ext n) <= 3 ->
  make_8dot3 n es = Ok (b, e) ->
  sfn_display (sfn_pack b e) = join_ext b e /\ ~ In (sfn_display (sfn_pack b e)) (taken_of es) /\
  sfn_display (sfn_pack b e) <> [46] /\ sfn_display (sfn_pack b e) <> [46;46].
Proof. exact alias_stored. Qed.
Print Assumptions C05_alias_stored.
Theorem C05_short_names_stay_unique : forall s n es sfn lfn attr t,
  Forall (fun c => 32 <= c) (n_base n) -> Forall (fun c => 32 <= c) (n_ext n) -> lenZ (n_base n) <= 8 -> lenZ (n_ext n) <= 3 ->
  new_names s n es = Ok (sfn, lfn) -> Z.land Gen.ATTR_VOLUME_ID attr = 0 ->
  NoDup (taken_of es) -> NoDup (taken_of (es ++ [set_lfn (new_dirent sfn attr t) lfn])).
Proof. exact created_entry_keeps_short_names_unique. Qed.
Print Assumptions C05_short_names_stay_unique.
(* 'readme.txt' beside an entry README.TXT: the alias is README~1.TXT *)
Example C05_alias_example :
  make_8dot3 (mkName [] None None [82;69;65;68;77;69] [84;88;84] false)
             [mkDirent [82;69;65;68;77;69;32;32;84;88;84] 32 0 0 0 0 0 0 0 0 0 0 None] = Ok ([82;69;65;68;77;69;126;49], [84;88;84]).
Proof. vm_compute. reflexivity. Qed.

Theorem C05_makedir_writes_dots : forall s path t s',
  op_makedir s path false t = Ok s' -> 0 <= s_hint s -> max_cluster s < 4294967296 -> 2 <= Gen.MIN_DATA_CLUSTER (ft s) ->
  0 < bytes_per_cluster (s_p s) ->
  exists base es e c dot dotdot s1 s2 s3,
    eref_is_dir base = true /\ read_dir s (eref_loc s base) = Ok es /\
    write_dir s1 c [dot; dotdot] = Ok s2 /\ write_dir s2 (eref_loc s base) (es ++ [e]) = Ok s3 /\ flush_fat s3 = Ok s' /\
    2 <= c <= max_cluster s /\ nthZ (s_fat s) c = Gen.FREE_CLUSTER (ft s) /\
    d_name dot = dot_name /\ get_cluster dot = c /\ is_dir dot = true /\ d_size dot = 0 /\ d_lfn dot = None /\
    d_name dotdot = dotdot_name /\ get_cluster dotdot = parent_cluster base /\ is_dir dotdot = true /\ d_lfn dotdot = None /\
    get_cluster e = c /\ is_dir e = true /\ d_size e = 0.
Proof. exact makedir_writes_dots. Qed.
Print Assumptions C05_makedir_writes_dots.
(* the premises are met: makedir D on the FAT16 example volume of C16 succeeds, and the side conditions hold there *)
From PyFatV Require Import Properties.C16.
Example C05_makedir_example :
  (exists s', op_makedir ex16_s1 [mkName [68] (Some [68]) (Some [68]) [68] [] true] false (2020, 1, 1, 0, 0, 0) = Ok s') /\
  0 <= s_hint ex16_s1 /\ max_cluster ex16_s1 < 4294967296 /\ 2 <= Gen.MIN_DATA_CLUSTER (ft ex16_s1) /\ 0 < bytes_per_cluster (s_p ex16_s1).
Proof.
  split.
  - destruct (op_makedir ex16_s1 [mkName [68] (Some [68]) (Some [68]) [68] [] true] false (2020, 1, 1, 0, 0, 0)) as [s'|] eqn:E; [exists s'; reflexivity|vm_compute in E; discriminate].
  - repeat split; vm_compute; (reflexivity || discriminate).
Qed.
