(** C11 — the unclean-shutdown flag brackets every write session.  Proved about the model's mount / close:
    marking dirty leaves the in-memory state dirty for every FAT type; [mark_clean] on FAT16/32 writes every FAT copy
    BEFORE any boot-sector byte (so the boot-sector flag, set first at mount, is the last mark to go).
    C11_mark_on_device: after [mark_dirty] (what a read-write mount does before anything else) the boot sector ON THE
    DEVICE parses to a header whose dirty flag is set — the mark is on the medium, not only in memory.
    C11_bracket over arbitrary histories (every prefix of the session log is marked or complete) is NOT proved as one
    theorem; it is checked on every prefix of the real write log, whose bytes equal the model's. *)
From Coq Require Import ZArith List Bool.
From PyFatV Require Import Base.Bytes Base.PyEnv Gen.Pure Model.Codec Model.Dir Model.FS Proofs.Session Proofs.Device Proofs.DirCodec Proofs.DirState Proofs.FatState Proofs.HdrState.
Import ListNotations.
Open Scope Z_scope.

Theorem C11_mark_dirty : forall s s', mark_dirty s = Ok s' -> 0 <= BS_Reserved1 (s_h s) -> flag_set (s_h s') = true /\ is_dirty s' = true.
Proof. exact mark_dirty_marks. Qed.
Print Assumptions C11_mark_dirty.
Theorem C11_close_order : forall s s' m, shutdown_mask (ft s) = Some m -> mark_clean s = Ok s' ->
  exists boot fats, s_log s' = boot ++ fats ++ s_log s /\
    length fats = Z.to_nat (BPB_NumFATs (s_h s)) /\
    Forall (fun w => fst w = 0 \/ fst w = 510 \/ ft s = Gen.FAT_TYPE_FAT32) boot /\
    (2 <= length boot)%nat.
Proof. exact mark_clean_order. Qed.
Print Assumptions C11_close_order.

Theorem C11_mark_on_device : forall s s',
  dev_ok (s_dev s) -> hdr_wf (s_h s) -> 0 <= BS_Reserved1 (s_h s) < 256 -> 512 <= s_dsize s ->
  (ft s = Gen.FAT_TYPE_FAT32 -> 512 <= BPB_BkBootSec (s_h s) * bps s) ->
  0 <= fat_start s -> 0 <= BPB_NumFATs (s_h s) -> fat_start s + BPB_NumFATs (s_h s) * fat_bytes s <= s_dsize s ->
  (forall v, lenZ (pack_fat (ft s) (updZ (s_fat s) 1 v) (s_hi s)) <= fat_bytes s) ->
  mark_dirty s = Ok s' ->
  parse_hdr (rd s' 0 512) = s_h s' /\ flag_set (s_h s') = true /\ flag_set (parse_hdr (rd s' 0 512)) = true.
Proof. exact mark_dirty_on_device. Qed.
Print Assumptions C11_mark_on_device.
