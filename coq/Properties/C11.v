(** C11 — the unclean-shutdown flag brackets every write session.  Proved about the model's mount / close:
    marking dirty leaves the in-memory state dirty for every FAT type; [mark_clean] on FAT16/32 writes every FAT copy
    BEFORE any boot-sector byte (so the boot-sector flag, set first at mount, is the last mark to go).
    C11_mark_on_device: after [mark_dirty] (what a read-write mount does before anything else) the boot sector ON THE
    DEVICE parses to a header whose dirty flag is set — the mark is on the medium, not only in memory.
    C11_ops_spare_boot_sector / C11_mark_survives: no call of the interface other than mount / close writes below byte
    512 — for ANY history of create, makedir, remove, removedir, removetree, setinfo, openbin, write, truncate, handle
    close, on any state with sane geometry — so the mark set at mount is still on the device when close begins; and
    (C11_close_order) close rewrites the boot sector only after every FAT copy.  What is not proved is the statement
    about crash points INSIDE a single operation (every prefix of its writes): that is checked on every prefix of the
    real write log, whose bytes equal the model's. *)
From Coq Require Import ZArith List Bool Relations.
From PyFatV Require Import Base.Bytes Base.PyEnv Gen.Pure Model.Codec Model.Dir Model.FS Proofs.Session Proofs.Device Proofs.DirCodec Proofs.DirState Proofs.FatState Proofs.HdrState Proofs.Identity Proofs.BootSafe Proofs.FatBound.
Import ListNotations.
Open Scope Z_scope.

Theorem C11_mark_dirty : forall s s', mark_dirty s = Ok s' -> 0 <= BS_Reserved1 (s_h s) -> flag_set (s_h s') = true /\ is_dirty s' = true.
Proof. exact mark_dirty_marks. Qed.
Print Assumptions C11_mark_dirty.
Theorem C11_close_order : forall s s' m, shutdown_mask (ft s) = Some m -> mark_clean s = Ok s' ->
  exists boot fats, s_log s' = boot ++ fats ++ s_log s /\
    length fats = Z.to_nat (BPB_NumFATs (s_h s)) /\
    Forall (fun w => fst w = 0 \/ fst w = 510 \/ ft s = Gen.FAT_TYPE_FAT32) boot /\
    (2 <= length boot)%nat.
Proof. exact mark_clean_order. Qed.
Print Assumptions C11_close_order.

Theorem C11_mark_on_device : forall s s',
  dev_ok (s_dev s) -> hdr_wf (s_h s) -> 0 <= BS_Reserved1 (s_h s) < 256 -> 512 <= s_dsize s ->
  (ft s = Gen.FAT_TYPE_FAT32 -> 512 <= BPB_BkBootSec (s_h s) * bps s) ->
  0 <= fat_start s -> 0 <= BPB_NumFATs (s_h s) -> fat_start s + BPB_NumFATs (s_h s) * fat_bytes s <= s_dsize s ->
  (forall v, lenZ (pack_fat (ft s) (updZ (s_fat s) 1 v) (s_hi s)) <= fat_bytes s) ->
  mark_dirty s = Ok s' ->
  parse_hdr (rd s' 0 512) = s_h s' /\ flag_set (s_h s') = true /\ flag_set (parse_hdr (rd s' 0 512)) = true /\ dev_ok (s_dev s').
Proof. exact mark_dirty_on_device. Qed.
Print Assumptions C11_mark_on_device.

Theorem C11_ops_spare_boot_sector : forall s s', safe s -> dev_ok (s_dev s) -> clos_refl_trans st wstep s s' ->
  (forall a, 0 <= a < 512 -> dbyte (s_dev s') a = dbyte (s_dev s) a) /\ s_h s' = s_h s.
Proof. exact history_keeps_boot_sector. Qed.
Print Assumptions C11_ops_spare_boot_sector.
Theorem C11_mark_survives : forall s s1 s2,
  dev_ok (s_dev s) -> hdr_wf (s_h s) -> 0 <= BS_Reserved1 (s_h s) < 256 -> 512 <= s_dsize s ->
  (ft s = Gen.FAT_TYPE_FAT32 -> 512 <= BPB_BkBootSec (s_h s) * bps s) ->
  0 <= fat_start s -> 0 <= BPB_NumFATs (s_h s) -> fat_start s + BPB_NumFATs (s_h s) * fat_bytes s <= s_dsize s ->
  (forall v, lenZ (pack_fat (ft s) (updZ (s_fat s) 1 v) (s_hi s)) <= fat_bytes s) ->
  mark_dirty s = Ok s1 -> safe s1 -> 512 <= s_dsize s1 ->
  clos_refl_trans st wstep s1 s2 ->
  flag_set (parse_hdr (rd s2 0 512)) = true.
Proof. exact mark_survives_history. Qed.
Print Assumptions C11_mark_survives.

(** crash points INSIDE operations: ANY subset of the device writes of ANY history, each whole or torn to a prefix, leaves the mark in
    the boot sector — "a crash at any moment is detectable" for the whole time between mount and close *)
From PyFatV Require Import Proofs.FileData Proofs.CrashOps.
Theorem C11_mark_survives_any_crash : forall s s1 s2,
  dev_ok (s_dev s) -> hdr_wf (s_h s) -> 0 <= BS_Reserved1 (s_h s) < 256 -> 512 <= s_dsize s ->
  (ft s = Gen.FAT_TYPE_FAT32 -> 512 <= BPB_BkBootSec (s_h s) * bps s) ->
  0 <= fat_start s -> 0 <= BPB_NumFATs (s_h s) -> fat_start s + BPB_NumFATs (s_h s) * fat_bytes s <= s_dsize s ->
  (forall v, lenZ (pack_fat (ft s) (updZ (s_fat s) 1 v) (s_hi s)) <= fat_bytes s) ->
  mark_dirty s = Ok s1 -> safe s1 -> clos_refl_trans st wstep s1 s2 ->
  exists l, s_log s2 = l ++ s_log s1 /\
    forall l' keep, Forall2 (fun (w' w:Z * list Z) => fst w' = fst w /\ lenZ (snd w') <= lenZ (snd w)) l' l ->
      flag_set (parse_hdr (dread (apply_some (s_dev s1) l' keep) (s_dsize s1) 0 512)) = true.
Proof. exact mark_survives_any_crash. Qed.
Print Assumptions C11_mark_survives_any_crash.

(** non-vacuity: the FAT16 volume of C16's example after its dirty marking is [safe]; a makedir and a file write are
    [wstep]s from it; the mark is on the device before and after *)
From PyFatV Require Import Properties.C16.
Definition ex_nameD : namerec := mkName [68] (Some [68]) (Some [68]) [68] [] true.
Definition ex_nameF : namerec := mkName [70] (Some [70]) (Some [70]) [70] [] true.
Definition ex11_a : st := match op_makedir ex16_s1 [ex_nameD] false (2020, 1, 1, 0, 0, 0) with Ok s => s | Err _ => ex16_s1 end.
Definition ex11_b : st := match op_openbin ex11_a [ex_nameD; ex_nameF] (mkMode false true false true false true) (2020, 1, 1, 0, 0, 0) with Ok (s, _) => s | Err _ => ex11_a end.
Example C11_history_example :
  safe ex16_s1 /\ clos_refl_trans st wstep ex16_s1 ex11_b /\ ex11_b <> ex16_s1 /\
  flag_set (parse_hdr (rd ex16_s1 0 512)) = true /\ flag_set (parse_hdr (rd ex11_b 0 512)) = true /\
  (length (s_log ex11_b) > length (s_log ex16_s1))%nat.
Proof.
  assert (Hs : safe ex16_s1).
  { unfold safe. split; [vm_compute; reflexivity|]. split; [vm_compute; reflexivity|]. split; [vm_compute; reflexivity|].
    split; [right; left; vm_compute; reflexivity|]. repeat split; vm_compute; discriminate. }
  split; [exact Hs|]. split.
  - apply rt_trans with ex11_a; apply rt_step.
    + apply (ws_makedir ex16_s1 [ex_nameD] false (2020, 1, 1, 0, 0, 0) ex11_a). vm_compute. reflexivity.
    + assert (E : exists h, op_openbin ex11_a [ex_nameD; ex_nameF] (mkMode false true false true false true) (2020, 1, 1, 0, 0, 0) = Ok (ex11_b, h)).
      { unfold ex11_b. destruct (op_openbin ex11_a _ _ _) as [[s h]|] eqn:E; [exists h; reflexivity|vm_compute in E; discriminate]. }
      destruct E as (h & E). exact (ws_openbin _ _ _ _ _ _ E).
  - split; [intro H; apply (f_equal (fun s => length (s_log s))) in H; vm_compute in H; discriminate|].
    split; [vm_compute; reflexivity|]. split; [vm_compute; reflexivity|]. vm_compute. repeat constructor.
Qed.

(** the same history also satisfies the link invariant of C04 ([fb]) at both ends, and its steps are [mstep]s *)
Example C04_invariant_example : fb ex16_s1 /\ fb ex11_b /\ max_cluster ex16_s1 = 4362 /\ chain ex11_b 2 = ([2], true).
Proof.
  split; [split; [right; left; vm_compute; reflexivity|apply bounded_of_forallb; vm_compute; reflexivity]|].
  split; [split; [right; left; vm_compute; reflexivity|apply bounded_of_forallb; vm_compute; reflexivity]|].
  split; vm_compute; reflexivity.
Qed.

(** the close side of the bracket, and the whole bracket after the mount's marking: at EVERY point between two device writes of any
    history of interface calls followed by close, the dirty flag is in the boot sector, or the device already holds the closed image
    everywhere outside the boot-sector copies — "a device state that carries no mark is always complete".  The mount's own marking: C11_mount_bracket below.
    Not proved: FAT16/32 between the first FAT copy and the boot-sector write of the mount (the cleared FAT[1] bit on the device is the only mark
    there), torn single writes of mount and close. *)
From PyFatV Require Import Proofs.Bracket.
Theorem C11_close_bracket : forall s s',
  dev_ok (s_dev s) -> hdr_wf (s_h s) -> flagged (s_dev s) (s_dsize s) ->
  512 <= fat_start s -> 0 <= fat_bytes s -> (ft s = Gen.FAT_TYPE_FAT32 -> 0 <= BPB_BkBootSec (s_h s) * bps s) ->
  mark_clean s = Ok s' ->
  exists l, s_log s' = l ++ s_log s /\ s_dev s' = apply_log l (s_dev s) /\
    forall later earlier, l = later ++ earlier ->
      flagged (apply_log earlier (s_dev s)) (s_dsize s) \/
      forall a, 0 <= a -> ~ in_boot_copies s a -> dbyte (apply_log earlier (s_dev s)) a = dbyte (s_dev s') a.
Proof. exact close_bracket. Qed.
Print Assumptions C11_close_bracket.
Theorem C11_session_bracket : forall s1 s2 s3,
  safe s1 -> dev_ok (s_dev s1) -> hdr_wf (s_h s1) -> 512 <= s_dsize s1 -> flagged (s_dev s1) (s_dsize s1) ->
  (ft s1 = Gen.FAT_TYPE_FAT32 -> 0 <= BPB_BkBootSec (s_h s1) * bps s1) ->
  clos_refl_trans st wstep s1 s2 -> mark_clean s2 = Ok s3 ->
  exists l, s_log s3 = l ++ s_log s1 /\ s_dev s3 = apply_log l (s_dev s1) /\
    forall later earlier, l = later ++ earlier ->
      flagged (apply_log earlier (s_dev s1)) (s_dsize s1) \/
      forall a, 0 <= a -> ~ in_boot_copies s1 a -> dbyte (apply_log earlier (s_dev s1)) a = dbyte (s_dev s3) a.
Proof. exact session_bracket. Qed.
Print Assumptions C11_session_bracket.
(** the mount side: from the moment the boot sector has been written the flag is on the device, whatever else of the marking has reached it;
    on FAT12 that is from the FIRST device write of the mount on *)
Theorem C11_mount_bracket : forall s s',
  dev_ok (s_dev s) -> hdr_wf (s_h s) -> 0 <= BS_Reserved1 (s_h s) < 256 -> 512 <= s_dsize s ->
  512 <= fat_start s -> 0 <= fat_bytes s -> (ft s = Gen.FAT_TYPE_FAT32 -> 512 <= BPB_BkBootSec (s_h s) * bps s) ->
  mark_dirty s = Ok s' ->
  exists l, s_log s' = l ++ s_log s /\ s_dev s' = apply_log l (s_dev s) /\
    forall later earlier, l = later ++ earlier ->
      (ft s = Gen.FAT_TYPE_FAT12 -> earlier <> [] -> flagged (apply_log earlier (s_dev s)) (s_dsize s)) /\
      (In (0, ser_hdr (s_h s')) earlier -> flagged (apply_log earlier (s_dev s)) (s_dsize s)).
Proof. exact mount_bracket. Qed.
Print Assumptions C11_mount_bracket.
(** non-vacuity: the premises hold for the history of C11_history_example (a makedir and a file creation on the FAT16 volume after its
    dirty marking), and closing it succeeds with 5 further writes (two FAT copies, boot sector, signature ... ) *)
Definition ex11_c : st := match mark_clean ex11_b with Ok s => s | Err _ => ex11_b end.
Example C11_bracket_example :
  safe ex16_s1 /\ dev_ok (s_dev ex16_s1) /\ hdr_wf (s_h ex16_s1) /\ 512 <= s_dsize ex16_s1 /\ flagged (s_dev ex16_s1) (s_dsize ex16_s1) /\
  clos_refl_trans st wstep ex16_s1 ex11_b /\ mark_clean ex11_b = Ok ex11_c /\ (length (s_log ex11_c) >= length (s_log ex11_b) + 4)%nat /\
  ~ flagged (s_dev ex11_c) (s_dsize ex11_c).
Proof.
  destruct C11_history_example as (Hs & Hh & _).
  split; [exact Hs|]. split; [apply dev_ok_of_forallb; vm_compute; reflexivity|].
  split; [split; [vm_compute; repeat split; try discriminate; reflexivity | vm_compute; repeat split; reflexivity]|].
  split; [vm_compute; discriminate|]. split; [vm_compute; reflexivity|]. split; [exact Hh|].
  split; [vm_compute; reflexivity|]. split; [vm_compute; repeat constructor|]. unfold flagged. vm_compute. discriminate.
Qed.

(** the marks in MEMORY: no history of interface calls changes what [is_dirty] looks at — the boot-sector flag of the parsed header and FAT[1]
    of the table (C04_reserved_and_bad_preserved) — so every FAT flush of the session writes the cleared clean-shutdown bit again *)
From PyFatV Require Import Proofs.Inside.
Theorem C11_state_stays_dirty : forall s s', pre s -> clos_refl_trans st wstep s s' -> is_dirty s' = is_dirty s.
Proof.
  intros s s' Hp H. destruct (history_J s s' Hp H) as (A1 & A2 & _). destruct (history_fat_frame s s' Hp H) as (_ & _ & F1 & _).
  unfold is_dirty, ft. rewrite A1, A2, F1. reflexivity.
Qed.
Print Assumptions C11_state_stays_dirty.
