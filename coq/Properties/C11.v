(** C11 — the unclean-shutdown flag brackets every write session.  Proved about the model's mount / close:
    marking dirty leaves the in-memory state dirty for every FAT type; [mark_clean] on FAT16/32 writes every FAT copy
    BEFORE any boot-sector byte (so the boot-sector flag, set first at mount, is the last mark to go).
    C11_bracket over arbitrary histories (every prefix of the session log is marked or complete) is NOT proved as one
    theorem; it is checked on every prefix of the real write log, whose bytes equal the model's. *)
From Coq Require Import ZArith List Bool.
From PyFatV Require Import Base.Bytes Base.PyEnv Gen.Pure Model.Codec Model.Dir Model.FS Proofs.Session.
Import ListNotations.
Open Scope Z_scope.

Theorem C11_mark_dirty : forall s s', mark_dirty s = Ok s' -> 0 <= BS_Reserved1 (s_h s) -> flag_set (s_h s') = true /\ is_dirty s' = true.
Proof. exact mark_dirty_marks. Qed.
Print Assumptions C11_mark_dirty.
Theorem C11_close_order : forall s s' m, shutdown_mask (ft s) = Some m -> mark_clean s = Ok s' ->
  exists boot fats, s_log s' = boot ++ fats ++ s_log s /\
    length fats = Z.to_nat (BPB_NumFATs (s_h s)) /\
    Forall (fun w => fst w = 0 \/ fst w = 510 \/ ft s = Gen.FAT_TYPE_FAT32) boot /\
    (2 <= length boot)%nat.
Proof. exact mark_clean_order. Qed.
Print Assumptions C11_close_order.
