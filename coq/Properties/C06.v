(** C06 — another FAT implementation reads back what pyfatfs reports.  Proved: the pieces on which a second reader and
    pyfatfs must agree are the specification's — FAT entry packing for the three widths (per-entry access formula),
    the cluster -> address map and derived geometry, the date / time bit layout, the checksum and the long-name slot
    layout; and, on the directory level, an INDEPENDENT strictly specification-following reader written in Coq (Proofs/SpecReader.v: it
    walks the slots in order and at a short entry looks back over the immediately preceding long-name slots, which must be
    numbered 1..n with the last-flag on the n-th and carry the short name's checksum — it shares nothing with the model of pyfatfs'
    own dictionary-and-sort reader) decodes from the bytes the writer lays down for ANY directory exactly the entries written
    (C06_spec_reader), and shows for a set built by make_lfn_entry exactly the name given (C06_spec_name); entries as create builds
    them qualify (C06_built_entries_qualify).  The end-to-end statement (decode of the closed image = reported tree) is judged by
    the independent reader of the harness. *)
From Coq Require Import ZArith List Bool.
From PyFatV Require Import Base.Bytes Base.PyEnv Gen.Pure Model.Codec Model.Dir Proofs.FatCodec Proofs.Dates Proofs.Geometry Proofs.Names Proofs.DirCodec Proofs.SpecReader.
Import ListNotations.
Open Scope Z_scope.

Theorem C06_fat_entries :
  (forall bs, bytes_ok bs -> forall i, 0 <= i < lenZ (parse12 bs) -> nthZ (parse12 bs) i = spec_fat_entry 12 bs i) /\
  (forall bs i, 0 <= i < lenZ (parse16 bs) -> nthZ (parse16 bs) i = spec_fat_entry 16 bs i) /\
  (forall bs i, 0 <= i < lenZ (parse32 bs) -> nthZ (parse32 bs) i = spec_fat_entry 32 bs i).
Proof. exact (conj parse12_spec (conj parse16_spec parse32_spec)). Qed.
Print Assumptions C06_fat_entries.
Theorem C06_geometry : forall h,
  let p := Gen.parse_header_geometry pf_init h in
  root_dir_sectors p = spec_root_dir_sectors h /\
  root_dir_sector p = BPB_RsvdSecCnt h + BPB_NumFATs h * get_fat_size_count h /\
  first_data_sector p = BPB_RsvdSecCnt h + BPB_NumFATs h * get_fat_size_count h + spec_root_dir_sectors h.
Proof. exact geometry_is_spec. Qed.
Print Assumptions C06_geometry.
Theorem C06_datetime : forall y m d h mi s, 1980 <= y <= 2107 -> valid_date y m d = true -> valid_time h mi s = true ->
  Gen.serialize_date y m d = spec_date_word y m d /\ Gen.serialize_time h mi s = spec_time_word h mi s.
Proof. intros y m d h mi s Hy Hd Ht. split; [apply (date_encode_decode y m d Hy Hd) | apply (time_encode_decode h mi s Ht)]. Qed.
Print Assumptions C06_datetime.

Theorem C06_spec_reader : forall es k f, Forall spec_entry_ok es -> (0 < k)%nat ->
  spec_read (nslots_dir es + S f) (ser_dir es ++ repeat 0 (32 * k)) = es.
Proof. exact spec_reads_what_was_written. Qed.
Print Assumptions C06_spec_reader.
Theorem C06_spec_name : forall u sfn, Forall unit_ok u -> 1 <= lenZ u <= 255 ->
  spec_name (make_lfn u sfn) = u /\ lenZ (make_lfn u sfn) <= 63.
Proof. exact spec_name_of_built_set. Qed.
Print Assumptions C06_spec_name.
Theorem C06_built_entries_qualify : forall e u, sentry_ok e -> Forall unit_ok u -> 1 <= lenZ u <= 255 ->
  spec_entry_ok (set_lfn e (Some (make_lfn u (d_name e)))).
Proof. exact built_entry_spec_ok. Qed.
Print Assumptions C06_built_entries_qualify.
(* a directory of a 30-unit long name (3 slots) and a plain 8.3 entry: the strict reader returns both, the long one with its name;
   with the slots of the set written in ASCENDING order (the C06-m3 mutation) it falls back to the short name *)
Definition ex06_sfn : list Z := [76;79;78;71;78;65;126;49;84;88;84].
Definition ex06_u : list Z := map (fun k => 97 + k mod 26) (map Z.of_nat (seq 0 30)).
Definition ex06_long : dirent := mkDirent ex06_sfn 32 0 0 0 0 0 0 0 0 5 100 (Some (make_lfn ex06_u ex06_sfn)).
Definition ex06_short : dirent := mkDirent [65;32;32;32;32;32;32;32;84;88;84] 32 0 0 0 0 0 0 0 0 7 3 None.
Example C06_spec_reader_example :
  spec_read 10 (ser_dir [ex06_long; ex06_short] ++ repeat 0 64) = [ex06_long; ex06_short] /\
  option_map spec_name (d_lfn ex06_long) = Some ex06_u /\ length (make_lfn ex06_u ex06_sfn) = 3%nat /\
  map d_lfn (spec_read 10 (flat_map ser_lfnslot (make_lfn ex06_u ex06_sfn) ++ ser_short ex06_long ++ repeat 0 64)) = [None].
Proof. vm_compute. repeat split; reflexivity. Qed.
