(** C06 — another FAT implementation reads back what pyfatfs reports.  Proved: the pieces on which a second reader and
    pyfatfs must agree are the specification's — FAT entry packing for the three widths (per-entry access formula),
    the cluster -> address map and derived geometry, the date / time bit layout, the checksum and the long-name slot
    layout.  The end-to-end statement (decode of the closed image = reported tree) is judged by the independent reader. *)
From Coq Require Import ZArith List Bool.
From PyFatV Require Import Base.Bytes Base.PyEnv Gen.Pure Model.Codec Model.Dir Proofs.FatCodec Proofs.Dates Proofs.Geometry Proofs.Names.
Import ListNotations.
Open Scope Z_scope.

Theorem C06_fat_entries :
  (forall bs, bytes_ok bs -> forall i, 0 <= i < lenZ (parse12 bs) -> nthZ (parse12 bs) i = spec_fat_entry 12 bs i) /\
  (forall bs i, 0 <= i < lenZ (parse16 bs) -> nthZ (parse16 bs) i = spec_fat_entry 16 bs i) /\
  (forall bs i, 0 <= i < lenZ (parse32 bs) -> nthZ (parse32 bs) i = spec_fat_entry 32 bs i).
Proof. exact (conj parse12_spec (conj parse16_spec parse32_spec)). Qed.
Print Assumptions C06_fat_entries.
Theorem C06_geometry : forall h,
  let p := Gen.parse_header_geometry pf_init h in
  root_dir_sectors p = spec_root_dir_sectors h /\
  root_dir_sector p = BPB_RsvdSecCnt h + BPB_NumFATs h * get_fat_size_count h /\
  first_data_sector p = BPB_RsvdSecCnt h + BPB_NumFATs h * get_fat_size_count h + spec_root_dir_sectors h.
Proof. exact geometry_is_spec. Qed.
Print Assumptions C06_geometry.
Theorem C06_datetime : forall y m d h mi s, 1980 <= y <= 2107 -> valid_date y m d = true -> valid_time h mi s = true ->
  Gen.serialize_date y m d = spec_date_word y m d /\ Gen.serialize_time h mi s = spec_time_word h mi s.
Proof. intros y m d h mi s Hy Hd Ht. split; [apply (date_encode_decode y m d Hy Hd) | apply (time_encode_decode h mi s Ht)]. Qed.
Print Assumptions C06_datetime.
