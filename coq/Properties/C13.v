(** C13 — hostile images cannot hang or crash the library.  Every function of the model is a total Gallina function
    (accepted by Coq's guard checker: no fuel-less loops) over a result type whose error kinds contain no Python-
    internal exception.  Proved on top of that: whatever the FAT contains (cycles, cross-links, out-of-range links),
    the chain follower yields at most [fuel] = len(FAT) clusters, each of them a data-cluster index of the FAT (never 0 or 1,
    whose addresses would lie below the data area); a chain reported
    complete is a genuine chain.  Work of a listing is therefore bounded by len(FAT) x slots per cluster. *)
From Coq Require Import ZArith List Bool.
From PyFatV Require Import Base.Bytes Base.PyEnv Gen.Pure Model.Codec Model.Dir Model.FS Proofs.FatTable Proofs.Device Proofs.DirCodec Proofs.DirState.
Import ListNotations.
Open Scope Z_scope.

Theorem C13_chain_bounded : forall fuel t dm fat i, (length (fst (chain_go fuel t dm fat i)) <= fuel)%nat.
Proof. exact chain_go_length. Qed.
Print Assumptions C13_chain_bounded.
Theorem C13_chain_in_fat : forall fuel t dm fat i c, In c (fst (chain_go fuel t dm fat i)) -> 0 <= c < lenZ fat /\ Gen.MIN_DATA_CLUSTER t <= c.
Proof. exact chain_go_in_fat. Qed.
Print Assumptions C13_chain_in_fat.
(** a self-loop is reported as an error (no end-of-chain reached), not followed forever *)
Example C13_cycle : chain_go 5 12 4079 [4088; 4095; 2; 0; 0] 2 = ([2; 2; 2; 2; 2], false).
Proof. vm_compute. reflexivity. Qed.
Example C13_out_of_range : chain_go 5 12 4079 [4088; 4095; 7; 0; 0] 2 = ([2], false).
Proof. vm_compute. reflexivity. Qed.

(** a chain the follower reports complete never visits a cluster twice (a cycle always ends in "not ok") *)
Theorem C13_complete_chain_nodup : forall f t dm fat i l, chain_go f t dm fat i = (l, true) -> NoDup l.
Proof. exact chain_go_nodup. Qed.
Print Assumptions C13_complete_chain_nodup.

(** the work and the result size of a directory read are bounded by the bytes given, whatever they are *)
Theorem C13_dir_read_bounded : forall f b acc' pend' stop, scan_slots f b [] [] = Ok (acc', pend', stop) -> (length acc' <= f)%nat /\ (32 * length acc' <= length b)%nat.
Proof. exact scan_count_bound. Qed.
Print Assumptions C13_dir_read_bounded.
