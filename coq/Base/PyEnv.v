(** Hand-written environment for the generated definitions ([Gen/Pure.v]): the record of
    boot-sector fields, the record of [PyFat] attributes that the translated straight-line
    code reads and assigns, and the few Python library functions the translated code calls
    ([math.ceil] of a quotient, the [datetime]/[time] constructors' validity checks). *)
From Coq Require Import ZArith List Bool Lia.
From PyFatV Require Import Base.Bytes.
Import ListNotations.
Open Scope Z_scope.

(** Boot-sector fields (BPB).  Multi-byte string fields are byte lists. *)
Record hdr := mkHdr {
  BS_jmpBoot : list Z; BS_OEMName : list Z;
  BPB_BytsPerSec : Z; BPB_SecPerClus : Z; BPB_RsvdSecCnt : Z; BPB_NumFATs : Z;
  BPB_RootEntCnt : Z; BPB_TotSec16 : Z; BPB_Media : Z; BPB_FATSz16 : Z;
  BPB_SecPerTrk : Z; BPB_NumHeads : Z; BPB_HiddSec : Z; BPB_TotSec32 : Z;
  (* FAT32 only (0 / [] on FAT12/16 headers) *)
  BPB_FATSz32 : Z; BPB_ExtFlags : Z; BPB_FSVer : Z; BPB_RootClus : Z; BPB_FSInfo : Z;
  BPB_BkBootSec : Z; BPB_Reserved : list Z;
  BS_DrvNum : Z; BS_Reserved1 : Z; BS_BootSig : Z; BS_VolID : Z;
  BS_VolLab : list Z; BS_FilSysType : list Z;
  is32hdr : bool  (* which header class was instantiated: FAT32BootSectorHeader or FAT12... *)
}.

(** The attributes of a [PyFat] object that translated code reads or writes. *)
Record pf := mkPf {
  _fat_size : Z; root_dir_sector : Z; root_dir_sectors : Z; bytes_per_cluster : Z;
  first_data_sector : Z; fat_type : Z
}.
Definition pf_init : pf := mkPf 0 0 0 0 0 0.   (* PyFat.__init__ *)
Definition set__fat_size (s:pf) v := mkPf v (root_dir_sector s) (root_dir_sectors s) (bytes_per_cluster s) (first_data_sector s) (fat_type s).
Definition set_root_dir_sector (s:pf) v := mkPf (_fat_size s) v (root_dir_sectors s) (bytes_per_cluster s) (first_data_sector s) (fat_type s).
Definition set_root_dir_sectors (s:pf) v := mkPf (_fat_size s) (root_dir_sector s) v (bytes_per_cluster s) (first_data_sector s) (fat_type s).
Definition set_bytes_per_cluster (s:pf) v := mkPf (_fat_size s) (root_dir_sector s) (root_dir_sectors s) v (first_data_sector s) (fat_type s).
Definition set_first_data_sector (s:pf) v := mkPf (_fat_size s) (root_dir_sector s) (root_dir_sectors s) (bytes_per_cluster s) v (fat_type s).
Definition set_fat_type (s:pf) v := mkPf (_fat_size s) (root_dir_sector s) (root_dir_sectors s) (bytes_per_cluster s) (first_data_sector s) v.

(** [math.ceil(a / b)] for integers a, b > 0 (float division is exact enough for the operand
    ranges that occur: a < 2^53 — recorded in the trusted base). *)
Definition ceil_div (a b:Z) : Z := (a + b - 1) / b.

(** [x in [..]] *)
Definition in_list (x:Z) (l:list Z) : bool := existsb (Z.eqb x) l.

(** Python's [datetime(y,m,d)] / [time(h,mi,s)] constructors raise ValueError exactly outside
    these ranges (MINYEAR=1, MAXYEAR=9999). *)
Definition is_leap (y:Z) : bool := ((y mod 4 =? 0) && negb (y mod 100 =? 0)) || (y mod 400 =? 0).
Definition days_in_month (y m:Z) : Z :=
  if (m =? 2) then (if is_leap y then 29 else 28)
  else if (m =? 4) || (m =? 6) || (m =? 9) || (m =? 11) then 30 else 31.
Definition valid_date (y m d:Z) : bool :=
  (1 <=? y) && (y <=? 9999) && (1 <=? m) && (m <=? 12) && (1 <=? d) && (d <=? days_in_month y m).
Definition valid_time (h mi s:Z) : bool :=
  (0 <=? h) && (h <? 24) && (0 <=? mi) && (mi <? 60) && (0 <=? s) && (s <? 60).

(** [_get_fat_size_count]: BPB_FATSz16 if non-zero, else BPB_FATSz32 (KeyError -> PyFATException
    when the FAT12/16 header class is in use, which cannot happen after [parse_header] chose the class
    by FATSz16 > 0; modelled by hand, validated by the function-level tie). *)
Definition get_fat_size_count (h:hdr) : Z :=
  if negb (BPB_FATSz16 h =? 0) then BPB_FATSz16 h else BPB_FATSz32 h.

(** table lookup used by the translated mkfs loop [for sec, spc in table[ft]: if n <= sec: x = spc; break] *)
Definition first_row (n:Z) (rows:list (Z*Z)) (dflt:Z) : Z :=
  match find (fun p => n <=? fst p) rows with Some p => snd p | None => dflt end.
