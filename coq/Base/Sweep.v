(** Exhaustive sweeps over [0, 2^k) by binary enumeration, with the lemma that lifts the
    computed boolean to the universally quantified statement.  A finite domain enumerated
    completely and lifted by a lemma is a proof, not a test; the bound is in the statement. *)
From Coq Require Import ZArith List Bool Lia.
Open Scope Z_scope.

Fixpoint allbits (k:nat) (f:Z -> bool) : bool :=
  match k with
  | O => f 0
  | S k => allbits k (fun x => f (2*x)) && allbits k (fun x => f (2*x+1))
  end.

Lemma allbits_spec k : forall f, allbits k f = true -> forall x, 0 <= x < 2 ^ Z.of_nat k -> f x = true.
Proof.
  induction k as [|k IH]; intros f H x Hx.
  - simpl in *. assert (x = 0) by lia. subst. exact H.
  - cbn [allbits] in H. apply andb_prop in H. destruct H as [H0 H1].
    rewrite Nat2Z.inj_succ, Z.pow_succ_r in Hx by lia.
    pose proof (Z.div_mod x 2 ltac:(lia)) as Hdm.
    pose proof (Z.mod_pos_bound x 2 ltac:(lia)) as Hm.
    assert (Hq: 0 <= x / 2 < 2 ^ Z.of_nat k) by (split; [apply Z.div_pos; lia | apply Z.div_lt_upper_bound; lia]).
    destruct (Z.eq_dec (x mod 2) 0) as [E|E].
    + pose proof (IH _ H0 (x/2) Hq) as G. cbv beta in G. replace (2 * (x/2)) with x in G by lia. exact G.
    + pose proof (IH _ H1 (x/2) Hq) as G. cbv beta in G. replace (2 * (x/2) + 1) with x in G by lia. exact G.
Qed.

(** sweep over an explicit finite list *)
Lemma forallb_In {A} (f:A -> bool) l : forallb f l = true -> forall x, In x l -> f x = true.
Proof. intros H x Hx. rewrite forallb_forall in H. auto. Qed.

(** integer interval [a, a+n) as a list, and its membership lemma *)
Fixpoint zrange (a:Z) (n:nat) : list Z :=
  match n with O => nil | S k => a :: zrange (a+1) k end.
Lemma zrange_In n : forall a x, a <= x < a + Z.of_nat n -> In x (zrange a n).
Proof.
  induction n as [|k IH]; intros a x H.
  - lia.
  - cbn [zrange]. destruct (Z.eq_dec a x); [left; auto|right]. apply IH. lia.
Qed.
