(** Base: integers are [Z] (Python ints), bytes are [Z] in [0,256), byte strings are lists.
    Little-endian field codecs, list indexing helpers, the result monad. *)
From Coq Require Import ZArith List Bool Lia.
Import ListNotations.
Open Scope Z_scope.

(** * Result monad.  There is deliberately no constructor for Python-internal exceptions. *)
Inductive err :=
(* fs.errors classes *)
| RNF | DEXP | FEXP | DEXISTS | FEXISTS | DNOTEMPTY | RROOT | DESTEX
(* PyFATException by errno *)
| ENOENT | ENOTDIR | ENOSPC | E2BIG | EROFS | EINVAL | ENAMETOOLONG | EEXIST | EPYFAT
(* Python IOError / ValueError raised deliberately by FatIO; model-only: out of fuel, short device *)
| IOERR | VALERR | EFUEL | EIO.
Inductive res (A:Type) := Ok (a:A) | Err (e:err).
Arguments Ok {A} a.
Arguments Err {A} e.
Definition bind {A B} (r:res A) (f:A -> res B) : res B :=
  match r with Ok a => f a | Err e => Err e end.
Notation "'do' x <- r ; k" := (bind r (fun x => k)) (at level 200, x pattern, r at level 100, k at level 200).

(** * Bytes *)
Definition byte_ok (b:Z) : Prop := 0 <= b < 256.
Definition bytes_ok (bs:list Z) : Prop := Forall byte_ok bs.
Definition byte_okb (b:Z) : bool := (0 <=? b) && (b <? 256).
Definition bytes_okb (bs:list Z) : bool := forallb byte_okb bs.

Lemma byte_okb_spec b : byte_okb b = true <-> byte_ok b.
Proof. unfold byte_okb, byte_ok. rewrite andb_true_iff, Z.leb_le, Z.ltb_lt. tauto. Qed.
Lemma bytes_okb_spec bs : bytes_okb bs = true <-> bytes_ok bs.
Proof. unfold bytes_okb, bytes_ok. rewrite forallb_forall, Forall_forall.
  split; intros H x Hx; apply byte_okb_spec; auto. Qed.

(** little-endian encoding of [v] on [n] bytes (Python: struct.pack('<B/H/L')) *)
Fixpoint le (n:nat) (v:Z) : list Z :=
  match n with O => [] | S k => (v mod 256) :: le k (v / 256) end.
Fixpoint un_le (bs:list Z) : Z :=
  match bs with [] => 0 | b :: r => b + 256 * un_le r end.

Lemma le_length n : forall v, length (le n v) = n.
Proof. induction n as [|k IH]; intros v; simpl; auto. Qed.
Lemma le_ok n : forall v, bytes_ok (le n v).
Proof. induction n as [|k IH]; intros v; simpl; constructor.
  - unfold byte_ok. apply Z.mod_pos_bound; lia.
  - apply IH. Qed.
Lemma un_le_le n : forall v, 0 <= v < 256 ^ Z.of_nat n -> un_le (le n v) = v.
Proof.
  induction n as [|k IH]; intros v Hv.
  - simpl in *. lia.
  - cbn [le un_le]. rewrite Nat2Z.inj_succ, Z.pow_succ_r in Hv by lia.
    rewrite IH. + pose proof (Z.div_mod v 256). lia.
    + split. * apply Z.div_pos; lia. * apply Z.div_lt_upper_bound; lia.
Qed.
Lemma un_le_bound bs : bytes_ok bs -> 0 <= un_le bs < 256 ^ Z.of_nat (length bs).
Proof.
  induction 1 as [|b r Hb Hr IH].
  - simpl; lia.
  - cbn [un_le length]. rewrite Nat2Z.inj_succ, Z.pow_succ_r by lia. unfold byte_ok in Hb. lia.
Qed.
Lemma le_un_le bs : bytes_ok bs -> le (length bs) (un_le bs) = bs.
Proof.
  induction 1 as [|b r Hb Hr IH]; [reflexivity|].
  cbn [un_le length le]. unfold byte_ok in Hb.
  assert (E1: (b + 256 * un_le r) mod 256 = b) by (symmetry; apply Z.mod_unique with (un_le r); lia).
  assert (E2: (b + 256 * un_le r) / 256 = un_le r) by (symmetry; apply Z.div_unique with b; lia).
  rewrite E1, E2, IH. reflexivity.
Qed.

(** * List helpers with Python-like integer indices (only used with non-negative indices) *)
Definition nthZ (l:list Z) (i:Z) : Z := nth (Z.to_nat i) l 0.
Definition lenZ {A} (l:list A) : Z := Z.of_nat (length l).
Fixpoint updn {A} (l:list A) (i:nat) (v:A) : list A :=
  match l, i with
  | [], _ => []
  | _ :: r, O => v :: r
  | x :: r, S k => x :: updn r k v
  end.
Definition updZ {A} (l:list A) (i:Z) (v:A) : list A := updn l (Z.to_nat i) v.
Definition slice {A} (l:list A) (a b:Z) : list A :=  (* l[a:b], 0 <= a *)
  firstn (Z.to_nat (b - a)) (skipn (Z.to_nat a) l).
Definition zeros (n:Z) : list Z := repeat 0 (Z.to_nat n).
(** overwrite [l] at offset [off] with [d] (no growth: the part of [d] past the end is dropped) *)
Definition splice (l:list Z) (off:Z) (d:list Z) : list Z :=
  let o := Z.to_nat off in
  firstn o l ++ firstn (length l - o) d ++ skipn (o + length d) l.

Lemma updn_length {A} (l:list A) i v : length (updn l i v) = length l.
Proof. revert i; induction l as [|x r IH]; intros [|k]; simpl; auto. Qed.
Lemma nth_updn_same {A} (l:list A) i v d : (i < length l)%nat -> nth i (updn l i v) d = v.
Proof. revert i; induction l as [|x r IH]; intros [|k] H; simpl in *; try lia; auto. apply IH; lia. Qed.
Lemma nth_updn_other {A} (l:list A) i j v d : i <> j -> nth j (updn l i v) d = nth j l d.
Proof. revert i j; induction l as [|x r IH]; intros [|k] [|j] H; simpl; auto; try congruence. Qed.
Lemma updZ_length {A} (l:list A) i v : length (updZ l i v) = length l.
Proof. apply updn_length. Qed.
Lemma nthZ_updZ_same l i v : 0 <= i < lenZ l -> nthZ (updZ l i v) i = v.
Proof. unfold nthZ, updZ, lenZ; intros; apply nth_updn_same; lia. Qed.
Lemma nthZ_updZ_other l i j v : 0 <= i -> 0 <= j -> i <> j -> nthZ (updZ l i v) j = nthZ l j.
Proof. unfold nthZ, updZ; intros; apply nth_updn_other; lia. Qed.
Lemma zeros_length n : length (zeros n) = Z.to_nat n.
Proof. apply repeat_length. Qed.
Lemma zeros_ok n : bytes_ok (zeros n).
Proof. unfold zeros, bytes_ok. apply Forall_forall. intros x Hx. apply repeat_spec in Hx. subst. unfold byte_ok; lia. Qed.

Lemma splice_length l off d : 0 <= off -> length (splice l off d) = length l.
Proof.
  intros Ho. unfold splice. rewrite !app_length, !firstn_length, skipn_length. lia.
Qed.

Lemma NoDup_app' {A} (l l':list A) :
  NoDup l -> NoDup l' -> (forall x, In x l -> ~ In x l') -> NoDup (l ++ l').
Proof. induction 1 as [|a l Ha Hl IH]; simpl; intros H' Hd; auto. constructor.
  - rewrite in_app_iff. intros [?|?]; [tauto|]. eapply Hd; eauto.
  - apply IH; auto. Qed.
Lemma NoDup_app_inv {A} (l l':list A) :
  NoDup (l ++ l') -> NoDup l /\ NoDup l' /\ (forall x, In x l -> ~ In x l').
Proof.
  induction l as [|a l IH]; simpl; intros H.
  - repeat split; auto. constructor.
  - inversion H as [|? ? Hn Hd]; subst. destruct (IH Hd) as (H1 & H2 & H3).
    repeat split; auto.
    + constructor; auto. intro; apply Hn; apply in_or_app; auto.
    + intros x [<-|Hx]; [intro; apply Hn; apply in_or_app; auto | auto].
Qed.

Arguments nthZ : simpl never.
Arguments updZ : simpl never.
