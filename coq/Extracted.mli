
val negb : bool -> bool

type nat =
| O
| S of nat

val fst : ('a1 * 'a2) -> 'a1

val snd : ('a1 * 'a2) -> 'a2

val length : 'a1 list -> nat

val app : 'a1 list -> 'a1 list -> 'a1 list

type comparison =
| Eq
| Lt
| Gt

val compOpp : comparison -> comparison

val add : nat -> nat -> nat

type positive =
| XI of positive
| XO of positive
| XH

type n =
| N0
| Npos of positive

type z =
| Z0
| Zpos of positive
| Zneg of positive

module Nat :
 sig
  val leb : nat -> nat -> bool

  val ltb : nat -> nat -> bool

  val divmod : nat -> nat -> nat -> nat -> nat * nat

  val div : nat -> nat -> nat
 end

module Pos :
 sig
  val succ : positive -> positive

  val add : positive -> positive -> positive

  val add_carry : positive -> positive -> positive

  val pred_double : positive -> positive

  val pred_N : positive -> n

  val mul : positive -> positive -> positive

  val iter : ('a1 -> 'a1) -> 'a1 -> positive -> 'a1

  val div2 : positive -> positive

  val div2_up : positive -> positive

  val compare_cont : comparison -> positive -> positive -> comparison

  val compare : positive -> positive -> comparison

  val eqb : positive -> positive -> bool

  val coq_Nsucc_double : n -> n

  val coq_Ndouble : n -> n

  val coq_lor : positive -> positive -> positive

  val coq_land : positive -> positive -> n

  val ldiff : positive -> positive -> n

  val iter_op : ('a1 -> 'a1 -> 'a1) -> positive -> 'a1 -> 'a1

  val to_nat : positive -> nat

  val of_succ_nat : nat -> positive
 end

module N :
 sig
  val succ_pos : n -> positive

  val coq_lor : n -> n -> n

  val coq_land : n -> n -> n

  val ldiff : n -> n -> n
 end

module Z :
 sig
  val double : z -> z

  val succ_double : z -> z

  val pred_double : z -> z

  val pos_sub : positive -> positive -> z

  val add : z -> z -> z

  val opp : z -> z

  val pred : z -> z

  val sub : z -> z -> z

  val mul : z -> z -> z

  val compare : z -> z -> comparison

  val leb : z -> z -> bool

  val ltb : z -> z -> bool

  val geb : z -> z -> bool

  val gtb : z -> z -> bool

  val eqb : z -> z -> bool

  val max : z -> z -> z

  val min : z -> z -> z

  val to_nat : z -> nat

  val of_nat : nat -> z

  val of_N : n -> z

  val to_pos : z -> positive

  val pos_div_eucl : positive -> z -> z * z

  val div_eucl : z -> z -> z * z

  val div : z -> z -> z

  val modulo : z -> z -> z

  val odd : z -> bool

  val div2 : z -> z

  val shiftl : z -> z -> z

  val shiftr : z -> z -> z

  val coq_lor : z -> z -> z

  val coq_land : z -> z -> z

  val lnot : z -> z
 end

val hd : 'a1 -> 'a1 list -> 'a1

val tl : 'a1 list -> 'a1 list

val nth : nat -> 'a1 list -> 'a1 -> 'a1

val last : 'a1 list -> 'a1 -> 'a1

val rev : 'a1 list -> 'a1 list

val map : ('a1 -> 'a2) -> 'a1 list -> 'a2 list

val flat_map : ('a1 -> 'a2 list) -> 'a1 list -> 'a2 list

val fold_left : ('a1 -> 'a2 -> 'a1) -> 'a2 list -> 'a1 -> 'a1

val fold_right : ('a2 -> 'a1 -> 'a1) -> 'a1 -> 'a2 list -> 'a1

val existsb : ('a1 -> bool) -> 'a1 list -> bool

val forallb : ('a1 -> bool) -> 'a1 list -> bool

val filter : ('a1 -> bool) -> 'a1 list -> 'a1 list

val find : ('a1 -> bool) -> 'a1 list -> 'a1 option

val firstn : nat -> 'a1 list -> 'a1 list

val skipn : nat -> 'a1 list -> 'a1 list

val repeat : 'a1 -> nat -> 'a1 list

val append : positive -> positive -> positive

module PositiveMap :
 sig
  type key = positive

  type 'a tree =
  | Leaf
  | Node of 'a tree * 'a option * 'a tree

  type 'a t = 'a tree

  val empty : 'a1 t

  val find : key -> 'a1 t -> 'a1 option

  val add : key -> 'a1 -> 'a1 t -> 'a1 t

  val xelements : 'a1 t -> key -> (key * 'a1) list

  val elements : 'a1 t -> (key * 'a1) list
 end

type err =
| RNF
| DEXP
| FEXP
| DEXISTS
| FEXISTS
| DNOTEMPTY
| RROOT
| DESTEX
| ENOENT
| ENOTDIR
| ENOSPC
| E2BIG
| EROFS
| EINVAL
| ENAMETOOLONG
| EEXIST
| EPYFAT
| IOERR
| VALERR
| EFUEL
| EIO

type 'a res =
| Ok of 'a
| Err of err

val bind : 'a1 res -> ('a1 -> 'a2 res) -> 'a2 res

val le : nat -> z -> z list

val un_le : z list -> z

val nthZ : z list -> z -> z

val lenZ : 'a1 list -> z

val updn : 'a1 list -> nat -> 'a1 -> 'a1 list

val updZ : 'a1 list -> z -> 'a1 -> 'a1 list

val slice : 'a1 list -> z -> z -> 'a1 list

val zeros : z -> z list

type hdr = { bS_jmpBoot : z list; bS_OEMName : z list; bPB_BytsPerSec : 
             z; bPB_SecPerClus : z; bPB_RsvdSecCnt : z; bPB_NumFATs : 
             z; bPB_RootEntCnt : z; bPB_TotSec16 : z; bPB_Media : z;
             bPB_FATSz16 : z; bPB_SecPerTrk : z; bPB_NumHeads : z;
             bPB_HiddSec : z; bPB_TotSec32 : z; bPB_FATSz32 : z;
             bPB_ExtFlags : z; bPB_FSVer : z; bPB_RootClus : z;
             bPB_FSInfo : z; bPB_BkBootSec : z; bPB_Reserved : z list;
             bS_DrvNum : z; bS_Reserved1 : z; bS_BootSig : z; bS_VolID : 
             z; bS_VolLab : z list; bS_FilSysType : z list; is32hdr : 
             bool }

type pf = { _fat_size : z; root_dir_sector : z; root_dir_sectors : z;
            bytes_per_cluster : z; first_data_sector : z; fat_type : 
            z }

val pf_init : pf

val set__fat_size : pf -> z -> pf

val set_root_dir_sector : pf -> z -> pf

val set_root_dir_sectors : pf -> z -> pf

val set_bytes_per_cluster : pf -> z -> pf

val set_first_data_sector : pf -> z -> pf

val set_fat_type : pf -> z -> pf

val ceil_div : z -> z -> z

val in_list : z -> z list -> bool

val is_leap : z -> bool

val days_in_month : z -> z -> z

val valid_date : z -> z -> z -> bool

val valid_time : z -> z -> z -> bool

val get_fat_size_count : hdr -> z

val first_row : z -> (z * z) list -> z -> z

module Gen :
 sig
  val serialize_date : z -> z -> z -> z

  val serialize_time : z -> z -> z -> z

  val deserialize_date : z -> (z * z) * z

  val deserialize_time : z -> (z * z) * z

  val checksum : z list -> z

  val coq_INVALID_CHARACTERS : z list

  val coq_FREE_DIR_ENTRY_MARK : z

  val coq_LAST_DIR_ENTRY_MARK : z

  val coq_ATTR_READ_ONLY : z

  val coq_ATTR_VOLUME_ID : z

  val coq_ATTR_DIRECTORY : z

  val coq_ATTR_LONG_NAME : z

  val coq_ATTR_LONG_NAME_MASK : z

  val coq_MAX_FILE_SIZE : z

  val coq_FAT_DIRECTORY_LAYOUT_size : z

  val get_cluster : z -> z -> z

  val set_cluster : z -> z * z

  val coq_LAST_LONG_ENTRY : z

  val is_lfn_entry : z -> z -> bool

  val coq_BPB12_LAYOUT : (z * z) list

  val coq_BPB32_LAYOUT : (z * z) list

  val coq_FSINFO_LAYOUT : (z * z) list

  val coq_FAT_TYPE_FAT12 : z

  val coq_FAT_TYPE_FAT16 : z

  val coq_FAT_TYPE_FAT32 : z

  val coq_FAT12_SPECIAL_EOC : z

  val coq_FAT16_CLEAN_SHUTDOWN_BIT_MASK : z

  val coq_FAT32_CLEAN_SHUTDOWN_BIT_MASK : z

  val coq_FAT_DIRTY_BIT_MASK : z

  val coq_FREE_CLUSTER : z -> z

  val coq_MIN_DATA_CLUSTER : z -> z

  val coq_MAX_DATA_CLUSTER : z -> z

  val coq_BAD_CLUSTER : z -> z

  val coq_END_OF_CLUSTER_MIN : z -> z

  val coq_END_OF_CLUSTER_MAX : z -> z

  val get_total_sectors : hdr -> z

  val determine_fat_type : pf -> hdr -> z

  val get_data_cluster_address : pf -> hdr -> z -> z

  val calc_num_clusters : pf -> z -> z

  val verify_bpb_header : hdr -> unit res

  val parse_header_geometry : pf -> hdr -> pf

  val mkfs_table : z -> (z * z) list

  val mkfs_geometry :
    pf -> z -> z -> z -> z ->
    ((((((((pf * z) * z) * z) * z) * z) * z) * z) * z) res

  val mkfs_fat0 : hdr -> z -> z

  val mkfs_fat1 : hdr -> z -> z

  val seek_cursor : z -> z -> z -> (z * z) * z
 end

val parse12 : z list -> z list

val pack12 : z list -> z list

val parse16 : z list -> z list

val pack16 : z list -> z list

val parse32w : z list -> z list

val two28 : z

val parse32 : z list -> z list

val parse32hi : z list -> z list

val pack32 : z list -> z list -> z list

val parse_fat : z -> z list -> z list

val pack_fat : z -> z list -> z list -> z list

val spec_fat_entry : z -> z list -> z -> z

type field =
| FNum of z
| FBytes of z list
| FPad of z list

val parse_layout : (z * z) list -> z list -> field list

val ser_layout : (z * z) list -> field list -> z list

val fnum : field -> z

val fbytes : field -> z list

val fld : field list -> nat -> field

val hdr_of_fields12 : field list -> hdr

val hdr_of_fields32 : field list -> hdr

val fields_of_hdr : hdr -> field list

val parse_hdr : z list -> hdr

val hdr_layout : hdr -> (z * z) list

val ser_hdr : hdr -> z list

val sfn_lead_decode : z list -> z list

val sfn_lead_encode : z list -> z list

val rstrip_sp : z list -> z list

val pad_sp : nat -> z list -> z list

val sfn_pack : z list -> z list -> z list

val sfn_unpack : z list -> z list * z list

type lfnslot = { l_ord : z; l_name1 : z list; l_attr : z; l_type : z;
                 l_chk : z; l_name2 : z list; l_clus : z; l_name3 : z list }

type dirent = { d_name : z list; d_attr : z; d_ntres : z; d_tenth : z;
                d_crttime : z; d_crtdate : z; d_accdate : z; d_clushi : 
                z; d_wrttime : z; d_wrtdate : z; d_cluslo : z; d_size : 
                z; d_lfn : lfnslot list option }

val ser_lfnslot : lfnslot -> z list

val ser_short : dirent -> z list

val ins_desc : lfnslot -> lfnslot list -> lfnslot list

val sort_desc : lfnslot list -> lfnslot list

val ser_dirent : dirent -> z list

val ser_dir : dirent list -> z list

val parse_short : z list -> dirent

val parse_lfnslot : z list -> lfnslot

val get_cluster0 : dirent -> z

val set_cluster0 : dirent -> z -> dirent

val set_size : dirent -> z -> dirent

val set_lfn : dirent -> lfnslot list option -> dirent

val set_name : dirent -> z list -> dirent

val set_times : dirent -> z -> z -> z -> z -> z -> dirent

val is_dir : dirent -> bool

val is_volid : dirent -> bool

val is_readonly : dirent -> bool

val list_eqb : z list -> z list -> bool

val sfn_display : z list -> z list

val is_special : dirent -> bool

val units_of_bytes : z list -> z list

val bytes_of_units : z list -> z list

val strip_ffff : z list -> z list

val strip_one_nul : z list -> z list

val ins_asc : lfnslot -> lfnslot list -> lfnslot list

val sort_asc : lfnslot list -> lfnslot list

val lfn_units : lfnslot list -> z list

val lfn_slots_from : z -> z list -> z -> nat -> z -> lfnslot list

val lfn_padded : z list -> z list

val make_lfn : z list -> z list -> lfnslot list

val ords_from : z list -> z -> bool

val lfn_complete : lfnslot list -> bool

val lfn_chk_ok : lfnslot list -> z list -> bool

val lfnslot_eqb : lfnslot -> lfnslot -> bool

val scan_slots :
  nat -> z list -> lfnslot list -> dirent list -> ((dirent list * lfnslot
  list) * bool) res

type shown =
| NLong of z list
| NShort of z list

val shown_name : dirent -> shown

type namerec = { n_u : z list; n_oem : z list option;
                 n_oem_up : z list option; n_base : z list; n_ext : z list;
                 n_conform : bool }

val name_matches : namerec -> dirent -> bool

val ge_dirs : dirent list -> dirent list

val ge_files : dirent list -> dirent list

val name_matches_upper : namerec -> dirent -> bool

val search_entry : dirent list -> namerec -> dirent option

val map_chars : z list -> z list

val digits_fuel : nat -> z -> z list -> z list

val digits : z -> z list

val join_ext : z list -> z list -> z list

val alias_loop :
  nat -> z -> z list -> z list -> z list list -> (z list * z list) res

val make_8dot3 : namerec -> dirent list -> (z list * z list) res

type dev = z list PositiveMap.t

val zblk : z list

val dget : dev -> z -> z list

val dput : dev -> z -> z list -> dev

val dread_blks : dev -> z -> nat -> z list

val dread : dev -> z -> z -> z -> z list

val dwrite_blks : dev -> z -> z -> z list -> nat -> dev

val dwrite : dev -> z -> z list -> dev

type handle = { h_parent : z; h_name : z list; h_reading : bool;
                h_writing : bool; h_appending : bool; h_bpos : z; h_cpos : 
                z; h_cindex : z; h_coffpos : z; h_closed : bool }

type st = { s_h : hdr; s_p : pf; s_ro : bool; s_pc : bool; s_fat : z list;
            s_hi : z list; s_hint : z; s_dev : dev; s_dsize : z;
            s_log : (z * z list) list; s_handles : handle list }

val s_h : st -> hdr

val s_p : st -> pf

val s_fat : st -> z list

val s_hint : st -> z

val s_dev : st -> dev

val s_log : st -> (z * z list) list

val upd_dev : st -> dev -> (z * z list) list -> st

val upd_fat : st -> z list -> z -> st

val upd_hdr : st -> hdr -> st

val ft : st -> z

val bps : st -> z

val bpc : st -> z

val rd : st -> z -> z -> z list

val write_at : st -> z -> z list -> st res

val cluster_addr : st -> z -> z

val total_sectors : st -> z

val count_of_clusters : st -> z

val max_cluster : st -> z

val is_data : z -> z -> z -> bool

val is_eoc : z -> z -> bool

val chain_go : nat -> z -> z -> z list -> z -> z list * bool

val dmax : st -> z

val chain : st -> z -> z list * bool

val chain_all : st -> z -> z list res

val alloc_scan : nat -> z list -> z -> z -> z -> nat -> z list * z

val link_chain : z list -> z list -> z -> z list

val erase_clusters : st -> z list -> st res

val allocate : st -> z -> bool -> (z list * st) res

val free_chain : st -> z -> st res

val fat_bytes : st -> z

val fat_start : st -> z

val flush_copies : st -> z list -> z -> nat -> st res

val flush_fat : st -> st res

val write_bpb : st -> st res

val set_reserved1 : hdr -> z -> hdr

val shutdown_mask : z -> z option

val is_dirty : st -> bool

val mark_dirty : st -> st res

val mark_clean : st -> st res

val is_root_fixed : st -> z -> bool

val root_loc : st -> z

val root_addr : st -> z

val scan_chain :
  st -> z list -> lfnslot list -> dirent list -> dirent list res

val read_dir : st -> z -> dirent list res

val write_chunks : st -> z list -> z list -> st res

val write_data_to_cluster : st -> z list -> z -> bool -> st res

val write_dir : st -> z -> dirent list -> st res

type eref =
| ERoot
| EAt of z * dirent

val eref_is_dir : eref -> bool

val eref_loc : st -> eref -> z

val get_entry : st -> eref -> namerec list -> eref res

val lookup : st -> namerec list -> eref res

val get_dir_entry : st -> namerec list -> eref res

val op_exists : st -> namerec list -> bool res

type info = { i_name : shown; i_dir : bool; i_size : z; i_crtdate : z;
              i_crttime : z; i_wrtdate : z; i_wrttime : z; i_accdate : 
              z }

val info_of : eref -> info

val op_getinfo : st -> namerec list -> info res

val op_getsize : st -> namerec list -> z res

val op_listdir : st -> namerec list -> shown list res

type now_rec = ((((z * z) * z) * z) * z) * z

val date_of : now_rec -> z

val time_of : now_rec -> z

val new_dirent : z list -> z -> now_rec -> dirent

val opt_eqb : z list option -> z list -> bool

val new_names :
  st -> namerec -> dirent list -> (z list * lfnslot list option) res

val split_last : 'a1 list -> ('a1 list * 'a1) option

val op_create : st -> namerec list -> bool -> now_rec -> (bool * st) res

val eref_dirent : eref -> dirent

val dot_name : z list

val dotdot_name : z list

val op_makedir : st -> namerec list -> bool -> now_rec -> st res

val same_entry : dirent -> dirent -> bool

val remove_first : (dirent -> bool) -> dirent list -> dirent list

val shown_eqb : shown -> shown -> bool

val remove_entry : st -> z -> dirent -> st res

val op_remove : st -> namerec list -> st res

val dir_is_empty : dirent list -> bool

val op_removedir : st -> namerec list -> st res

val rmtree_go : nat -> st -> eref -> st res

val op_removetree : st -> namerec list -> st res

val year_ok : now_rec option -> bool

val op_setinfo :
  st -> namerec list -> now_rec option -> now_rec option -> now_rec option ->
  st res

val find_in_dir : st -> handle -> dirent res

val set_cursor : handle -> z -> z -> z -> z -> handle

val chain_nth : st -> z -> z -> z res

val h_seek : st -> handle -> dirent -> z -> z -> handle res

val update_entry : st -> handle -> (dirent -> dirent) -> st res

val read_chunks : st -> z list -> z -> z -> nat -> z list res

val h_read : st -> handle -> z -> (z list * handle) res

val h_write_raw : st -> handle -> dirent -> z list -> (st * handle) res

val h_write : st -> handle -> z list -> (st * handle) res

val h_truncate : st -> handle -> z option -> (st * handle) res

val h_close : st -> handle -> (st * handle) res

type mode = { m_reading : bool; m_writing : bool; m_appending : bool;
              m_create : bool; m_exclusive : bool; m_truncate : bool }

val op_openbin : st -> namerec list -> mode -> now_rec -> (st * handle) res

val mount : dev -> z -> bool -> bool -> (st * bool) res

val op_close : st -> st res
