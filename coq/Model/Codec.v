(** Model: elementary codecs that are hand-written (the bit-packing ones are generated, see
    [Gen/Pure.v]): FAT table parse / serialise for the three widths, struct-layout driven
    parse / serialise of boot-sector and FSInfo fields, 8.3 name padding and the 0x05/0xE5
    lead byte translation.  Definitions only; lemmas are in [Proofs/]. *)
From Coq Require Import ZArith List Bool Lia String.
From PyFatV Require Import Base.Bytes Base.PyEnv Gen.Pure.
Import ListNotations.
Open Scope Z_scope.

(** * FAT tables.  pyfatfs: [PyFat._parse_fat], [PyFat.__bytes__]. *)

(** FAT12: two 12-bit entries per three bytes; a trailing pair of bytes holds one more entry,
    a single trailing byte holds none (floor(2N/3) entries for N bytes). *)
Fixpoint parse12 (bs:list Z) : list Z :=
  match bs with
  | b0 :: b1 :: b2 :: r => (b0 + (b1 mod 16) * 256) :: (b1 / 16 + b2 * 16) :: parse12 r
  | [b0; b1] => [b0 + (b1 mod 16) * 256]
  | _ => []
  end.
Fixpoint pack12 (l:list Z) : list Z :=
  match l with
  | [] => []
  | [a] => [a mod 256; a / 256]
  | a :: b :: r => (a mod 256) :: ((b mod 16) * 16 + a / 256) :: (b / 16) :: pack12 r
  end.

Fixpoint parse16 (bs:list Z) : list Z :=
  match bs with
  | b0 :: b1 :: r => (b0 + 256 * b1) :: parse16 r
  | _ => []
  end.
Definition pack16 (l:list Z) : list Z := flat_map (le 2) l.

(** FAT32: 28 significant bits; the upper four are reserved and must be preserved.  The model
    keeps them in a parallel list (mirrors the repaired implementation, finding D13). *)
Fixpoint parse32w (bs:list Z) : list Z :=    (* raw 32-bit words *)
  match bs with
  | b0 :: b1 :: b2 :: b3 :: r => (b0 + 256 * (b1 + 256 * (b2 + 256 * b3))) :: parse32w r
  | _ => []
  end.
Definition two28 : Z := 268435456.
Definition parse32 (bs:list Z) : list Z := map (fun w => w mod two28) (parse32w bs).
Definition parse32hi (bs:list Z) : list Z := map (fun w => (w / two28) * two28) (parse32w bs).
Fixpoint pack32 (l hi:list Z) : list Z :=
  match l with
  | [] => []
  | e :: r => le 4 (e + hd 0 hi) ++ pack32 r (tl hi)
  end.

Definition parse_fat (ft:Z) (bs:list Z) : list Z :=
  if ft =? 12 then parse12 bs else if ft =? 16 then parse16 bs else parse32 bs.
Definition pack_fat (ft:Z) (l hi:list Z) : list Z :=
  if ft =? 12 then pack12 l else if ft =? 16 then pack16 l else pack32 l hi.

(** The FAT specification's per-entry access formulae (fatgen103 p.16), independent of the above. *)
Definition spec_fat_entry (ft:Z) (bs:list Z) (i:Z) : Z :=
  if ft =? 12 then
    let off := i + i / 2 in
    let w := nthZ bs off + 256 * nthZ bs (off + 1) in
    if Z.odd i then w / 16 else w mod 4096
  else if ft =? 16 then nthZ bs (2*i) + 256 * nthZ bs (2*i+1)
  else (nthZ bs (4*i) + 256 * (nthZ bs (4*i+1) + 256 * (nthZ bs (4*i+2) + 256 * nthZ bs (4*i+3)))) mod two28.

(** * struct layouts.  A layout is a list of (width, kind): kind 0 number, 1 byte string, 2 pad. *)
Inductive field := FNum (v:Z) | FBytes (b:list Z) | FPad (b:list Z).
Fixpoint parse_layout (lay:list (Z*Z)) (bs:list Z) : list field :=
  match lay with
  | [] => []
  | (w, k) :: r =>
      let n := Z.to_nat w in
      let chunk := firstn n bs in
      (if k =? 0 then FNum (un_le chunk) else if k =? 1 then FBytes chunk else FPad chunk)
        :: parse_layout r (skipn n bs)
  end.
(** serialisation as Python's struct.pack does it: pad bytes become zero *)
Fixpoint ser_layout (lay:list (Z*Z)) (fs:list field) : list Z :=
  match lay, fs with
  | (w, _) :: r, f :: fr =>
      (match f with
       | FNum v => le (Z.to_nat w) v
       | FBytes b => b
       | FPad b => zeros w
       end) ++ ser_layout r fr
  | _, _ => []
  end.
Definition layout_size (lay:list (Z*Z)) : Z := fold_right (fun p a => fst p + a) 0 lay.
Definition pads_zero (lay:list (Z*Z)) (bs:list Z) : Prop :=
  forall fs, fs = parse_layout lay bs -> Forall (fun f => match f with FPad b => b = zeros (lenZ b) | _ => True end) fs.

Definition fnum (f:field) : Z := match f with FNum v => v | _ => 0 end.
Definition fbytes (f:field) : list Z := match f with FBytes b => b | FPad b => b | _ => [] end.
Definition fld (fs:list field) (i:nat) : field := nth i fs (FNum 0).

(** Boot sector -> [hdr].  Field positions follow HEADER_VARS of [BootSectorHeader.py]
    (the order is checked against the source by the translator: [Gen.BPB12_VARS_ok]). *)
Definition hdr_of_fields12 (fs:list field) : hdr :=
  mkHdr (fbytes (fld fs 0)) (fbytes (fld fs 1)) (fnum (fld fs 2)) (fnum (fld fs 3)) (fnum (fld fs 4))
        (fnum (fld fs 5)) (fnum (fld fs 6)) (fnum (fld fs 7)) (fnum (fld fs 8)) (fnum (fld fs 9))
        (fnum (fld fs 10)) (fnum (fld fs 11)) (fnum (fld fs 12)) (fnum (fld fs 13))
        0 0 0 0 0 0 []
        (fnum (fld fs 14)) (fnum (fld fs 15)) (fnum (fld fs 16)) (fnum (fld fs 17))
        (fbytes (fld fs 18)) (fbytes (fld fs 19)) false.
Definition hdr_of_fields32 (fs:list field) : hdr :=
  mkHdr (fbytes (fld fs 0)) (fbytes (fld fs 1)) (fnum (fld fs 2)) (fnum (fld fs 3)) (fnum (fld fs 4))
        (fnum (fld fs 5)) (fnum (fld fs 6)) (fnum (fld fs 7)) (fnum (fld fs 8)) (fnum (fld fs 9))
        (fnum (fld fs 10)) (fnum (fld fs 11)) (fnum (fld fs 12)) (fnum (fld fs 13))
        (fnum (fld fs 14)) (fnum (fld fs 15)) (fnum (fld fs 16)) (fnum (fld fs 17)) (fnum (fld fs 18))
        (fnum (fld fs 19)) (fbytes (fld fs 20))
        (fnum (fld fs 21)) (fnum (fld fs 22)) (fnum (fld fs 23)) (fnum (fld fs 24))
        (fbytes (fld fs 25)) (fbytes (fld fs 26)) true.
Definition fields_of_hdr (h:hdr) : list field :=
  [FBytes (BS_jmpBoot h); FBytes (BS_OEMName h); FNum (BPB_BytsPerSec h); FNum (BPB_SecPerClus h);
   FNum (BPB_RsvdSecCnt h); FNum (BPB_NumFATs h); FNum (BPB_RootEntCnt h); FNum (BPB_TotSec16 h);
   FNum (BPB_Media h); FNum (BPB_FATSz16 h); FNum (BPB_SecPerTrk h); FNum (BPB_NumHeads h);
   FNum (BPB_HiddSec h); FNum (BPB_TotSec32 h)] ++
  (if is32hdr h then
     [FNum (BPB_FATSz32 h); FNum (BPB_ExtFlags h); FNum (BPB_FSVer h); FNum (BPB_RootClus h);
      FNum (BPB_FSInfo h); FNum (BPB_BkBootSec h); FBytes (BPB_Reserved h)] else []) ++
  [FNum (BS_DrvNum h); FNum (BS_Reserved1 h); FNum (BS_BootSig h); FNum (BS_VolID h);
   FBytes (BS_VolLab h); FBytes (BS_FilSysType h)].

(** [parse_header]: the generic 36-byte part decides the header class by BPB_FATSz16 > 0 *)
Definition parse_hdr (boot:list Z) : hdr :=
  let fatsz16 := un_le (slice boot 22 24) in
  if fatsz16 >? 0 then hdr_of_fields12 (parse_layout Gen.BPB12_LAYOUT boot)
  else hdr_of_fields32 (parse_layout Gen.BPB32_LAYOUT boot).
Definition hdr_layout (h:hdr) : list (Z*Z) := if is32hdr h then Gen.BPB32_LAYOUT else Gen.BPB12_LAYOUT.
Definition ser_hdr (h:hdr) : list Z := ser_layout (hdr_layout h) (fields_of_hdr h).

(** * 8.3 names.  [EightDotThree.set_byte_name] stores the 11 bytes unchanged; [__str__] decodes
    with 0x05 -> 0xE5 on a copy (repaired implementation, finding D18). *)
Definition sfn_lead_decode (name:list Z) : list Z :=
  match name with b :: r => (if b =? 5 then 229 else b) :: r | [] => [] end.
Definition sfn_lead_encode (name:list Z) : list Z :=
  match name with b :: r => (if b =? 229 then 5 else b) :: r | [] => [] end.
(** strip trailing spaces (0x20) *)
Fixpoint rstrip_sp (l:list Z) : list Z :=
  match l with
  | [] => []
  | x :: r => match rstrip_sp r with
              | [] => if x =? 32 then [] else [x]
              | r' => x :: r'
              end
  end.
Fixpoint pad_sp (n:nat) (l:list Z) : list Z :=
  match n with O => [] | S k => match l with [] => 32 :: pad_sp k [] | x :: r => x :: pad_sp k r end end.
(** OEM bytes of base and extension -> the 11 stored bytes *)
Definition sfn_pack (base ext:list Z) : list Z := sfn_lead_encode (pad_sp 8 base ++ pad_sp 3 ext).
(** stored bytes -> (base, ext) OEM byte strings as [__str__] shows them (before code-page decoding) *)
Definition sfn_unpack (name:list Z) : list Z * list Z :=
  let n := sfn_lead_decode name in (rstrip_sp (firstn 8 n), rstrip_sp (firstn 3 (skipn 8 n))).
