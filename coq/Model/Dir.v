(** Model: 32-byte directory slots — short entries, long-name slots, the slot scanner
    ([PyFat.parse_dir_entries_in_address]), entry serialisation ([FATDirectoryEntry.__bytes__]),
    long-name construction ([make_lfn_entry]) and decoding ([FATLongDirectoryEntry.__str__]),
    alias generation ([EightDotThree.make_8dot3_name], byte level).  Definitions only. *)
From Coq Require Import ZArith List Bool Lia.
From PyFatV Require Import Base.Bytes Base.PyEnv Gen.Pure Model.Codec.
Import ListNotations.
Open Scope Z_scope.

Record lfnslot := mkLfn {
  l_ord : Z; l_name1 : list Z; l_attr : Z; l_type : Z; l_chk : Z; l_name2 : list Z; l_clus : Z; l_name3 : list Z }.
Record dirent := mkDirent {
  d_name : list Z; d_attr : Z; d_ntres : Z; d_tenth : Z; d_crttime : Z; d_crtdate : Z; d_accdate : Z;
  d_clushi : Z; d_wrttime : Z; d_wrtdate : Z; d_cluslo : Z; d_size : Z;
  d_lfn : option (list lfnslot) }.

Definition ser_lfnslot (s:lfnslot) : list Z :=
  [l_ord s] ++ l_name1 s ++ [l_attr s; l_type s; l_chk s] ++ l_name2 s ++ le 2 (l_clus s) ++ l_name3 s.
Definition ser_short (e:dirent) : list Z :=
  d_name e ++ [d_attr e; d_ntres e; d_tenth e] ++ le 2 (d_crttime e) ++ le 2 (d_crtdate e) ++ le 2 (d_accdate e)
  ++ le 2 (d_clushi e) ++ le 2 (d_wrttime e) ++ le 2 (d_wrtdate e) ++ le 2 (d_cluslo e) ++ le 4 (d_size e).
(** insertion into a list sorted by descending ordinal (Python: sorted(..., reverse=True), keys unique) *)
Fixpoint ins_desc (s:lfnslot) (l:list lfnslot) : list lfnslot :=
  match l with
  | [] => [s]
  | x :: r => if l_ord x <? l_ord s then s :: x :: r else x :: ins_desc s r
  end.
Definition sort_desc (l:list lfnslot) : list lfnslot := fold_right ins_desc [] l.
Definition ser_dirent (e:dirent) : list Z :=
  (match d_lfn e with Some sl => flat_map ser_lfnslot (sort_desc sl) | None => [] end) ++ ser_short e.
Definition ser_dir (es:list dirent) : list Z := flat_map ser_dirent es.

Definition parse_short (b:list Z) : dirent :=
  mkDirent (slice b 0 11) (nthZ b 11) (nthZ b 12) (nthZ b 13) (un_le (slice b 14 16)) (un_le (slice b 16 18))
           (un_le (slice b 18 20)) (un_le (slice b 20 22)) (un_le (slice b 22 24)) (un_le (slice b 24 26))
           (un_le (slice b 26 28)) (un_le (slice b 28 32)) None.
Definition parse_lfnslot (b:list Z) : lfnslot :=
  mkLfn (nthZ b 0) (slice b 1 11) (nthZ b 11) (nthZ b 12) (nthZ b 13) (slice b 14 26) (un_le (slice b 26 28)) (slice b 28 32).

Definition get_cluster (e:dirent) : Z := Gen.get_cluster (d_cluslo e) (d_clushi e).
Definition set_cluster (e:dirent) (c:Z) : dirent :=
  let '(lo, hi) := Gen.set_cluster c in
  mkDirent (d_name e) (d_attr e) (d_ntres e) (d_tenth e) (d_crttime e) (d_crtdate e) (d_accdate e)
           hi (d_wrttime e) (d_wrtdate e) lo (d_size e) (d_lfn e).
Definition set_size (e:dirent) (n:Z) : dirent :=
  mkDirent (d_name e) (d_attr e) (d_ntres e) (d_tenth e) (d_crttime e) (d_crtdate e) (d_accdate e)
           (d_clushi e) (d_wrttime e) (d_wrtdate e) (d_cluslo e) n (d_lfn e).
Definition set_lfn (e:dirent) (l:option (list lfnslot)) : dirent :=
  mkDirent (d_name e) (d_attr e) (d_ntres e) (d_tenth e) (d_crttime e) (d_crtdate e) (d_accdate e)
           (d_clushi e) (d_wrttime e) (d_wrtdate e) (d_cluslo e) (d_size e) l.
Definition set_name (e:dirent) (n:list Z) : dirent :=
  mkDirent n (d_attr e) (d_ntres e) (d_tenth e) (d_crttime e) (d_crtdate e) (d_accdate e)
           (d_clushi e) (d_wrttime e) (d_wrtdate e) (d_cluslo e) (d_size e) (d_lfn e).
Definition set_times (e:dirent) (ct cd ad wt wd:Z) : dirent :=
  mkDirent (d_name e) (d_attr e) (d_ntres e) (d_tenth e) ct cd ad (d_clushi e) wt wd (d_cluslo e) (d_size e) (d_lfn e).

Definition is_dir (e:dirent) : bool := 0 <? Z.land Gen.ATTR_DIRECTORY (d_attr e).
Definition is_volid (e:dirent) : bool := 0 <? Z.land Gen.ATTR_VOLUME_ID (d_attr e).
Definition is_readonly (e:dirent) : bool := 0 <? Z.land Gen.ATTR_READ_ONLY (d_attr e).

Fixpoint list_eqb (a b:list Z) : bool :=
  match a, b with
  | [], [] => true
  | x :: r, y :: s => (x =? y) && list_eqb r s
  | _, _ => false
  end.

(** short name as [__str__] shows it, on the OEM byte level: base [. ext] *)
Definition sfn_display (name:list Z) : list Z :=
  let '(b, e) := sfn_unpack name in
  match e with [] => b | _ => b ++ [46] ++ e end.
Definition is_special (e:dirent) : bool :=
  let n := sfn_display (d_name e) in list_eqb n [46] || list_eqb n [46;46].

(** ** long names.  Names are lists of UTF-16 code units. *)
Fixpoint units_of_bytes (b:list Z) : list Z :=
  match b with lo :: hi :: r => (lo + 256 * hi) :: units_of_bytes r | _ => [] end.
Definition bytes_of_units (u:list Z) : list Z := flat_map (le 2) u.
Fixpoint strip_ffff (u:list Z) : list Z :=    (* remove trailing 0xFFFF units *)
  match u with
  | [] => []
  | x :: r => match strip_ffff r with
              | [] => if x =? 65535 then [] else [x]
              | r' => x :: r'
              end
  end.
Definition strip_one_nul (u:list Z) : list Z :=
  match rev u with 0 :: r => rev r | _ => u end.
Fixpoint ins_asc (s:lfnslot) (l:list lfnslot) : list lfnslot :=
  match l with
  | [] => [s]
  | x :: r => if l_ord s <? l_ord x then s :: x :: r else x :: ins_asc s r
  end.
Definition sort_asc (l:list lfnslot) : list lfnslot := fold_right ins_asc [] l.
Definition lfn_units (sl:list lfnslot) : list Z :=
  strip_one_nul (strip_ffff (units_of_bytes (flat_map (fun s => l_name1 s ++ l_name2 s ++ l_name3 s) (sort_asc sl)))).

(** [make_lfn_entry] on the UTF-16 units of the name (the conformance / length checks are made by
    the caller, see [FS.v]) *)
Fixpoint lfn_slots_from (chk:Z) (b:list Z) (i:Z) (n:nat) (total:Z) : list lfnslot :=
  match n with
  | O => []
  | S k =>
      let ord := if i =? total then Z.lor 64 i else i in
      mkLfn ord (slice b 0 10) Gen.ATTR_LONG_NAME 0 chk (slice b 10 22) 0 (slice b 22 26)
        :: lfn_slots_from chk (skipn 26 b) (i + 1) k total
  end.
Definition lfn_padded (u:list Z) : list Z :=
  let b := bytes_of_units u in
  let b := if (lenZ b mod 26 =? 0) then b else b ++ [0; 0] in
  b ++ repeat 255 (Z.to_nat ((26 - lenZ b mod 26) mod 26)).
Definition make_lfn (u:list Z) (sfn:list Z) : list lfnslot :=
  let b := lfn_padded u in
  let n := lenZ b / 26 in
  lfn_slots_from (Gen.checksum sfn) b 1 (Z.to_nat n) n.

(** ** the slot scanner *)
(** ordinals 1..n-1 and n|LAST_LONG_ENTRY, each exactly once (keys of the implementation's dict are unique) *)
Fixpoint ords_from (l:list Z) (i:Z) : bool :=
  match l with
  | [] => false
  | [x] => (Z.land x Gen.LAST_LONG_ENTRY =? Gen.LAST_LONG_ENTRY) && (Z.land x (Z.lnot Gen.LAST_LONG_ENTRY) =? i) && (1 <=? i)
  | x :: r => (x =? i) && ords_from r (i + 1)
  end.
Definition lfn_complete (p:list lfnslot) : bool := ords_from (map l_ord (sort_asc p)) 1.
Definition lfn_chk_ok (p:list lfnslot) (name:list Z) : bool :=
  forallb (fun s => l_chk s =? Gen.checksum name) p.
Definition lfnslot_eqb (a b:lfnslot) : bool :=
  (l_ord a =? l_ord b) && list_eqb (l_name1 a) (l_name1 b) && (l_attr a =? l_attr b) && (l_type a =? l_type b) &&
  (l_chk a =? l_chk b) && list_eqb (l_name2 a) (l_name2 b) && (l_clus a =? l_clus b) && list_eqb (l_name3 a) (l_name3 b).
Inductive scan_res := ScanStop | ScanGo.
(** one address range (a cluster, or the fixed root region), slot by slot.
    Returns (entries so far, pending long-name slots, whether the end mark was met) *)
Fixpoint scan_slots (fuel:nat) (b:list Z) (pend:list lfnslot) (acc:list dirent)
  : res (list dirent * list lfnslot * bool) :=
  match fuel with
  | O => Ok (acc, pend, false)
  | S f =>
    match b with
    | [] => Ok (acc, pend, false)
    | _ =>
      let slot := firstn 32 b in
      let rest := skipn 32 b in
      if (length slot <? 32)%nat then Err EIO else
      let first := nthZ slot 0 in
      if first =? Gen.LAST_DIR_ENTRY_MARK then Ok (acc, [], true)
      else if first =? Gen.FREE_DIR_ENTRY_MARK then scan_slots f rest [] acc
      else if Gen.is_lfn_entry first (nthZ slot 11) then
        let s := parse_lfnslot slot in
        if negb (l_clus s =? 0) then Err EPYFAT
        else if existsb (lfnslot_eqb s) pend then scan_slots f rest pend acc   (* the same slot once more: ignored *)
        else if existsb (fun x => l_ord x =? l_ord s) pend then Err EPYFAT
        else scan_slots f rest (pend ++ [s]) acc
      else
        let e := parse_short slot in
        let lfn := if lfn_complete pend then (if lfn_chk_ok pend (d_name e) then Some pend else None) else None in
        scan_slots f rest [] (acc ++ [set_lfn e lfn])
    end
  end.

(** ** names as the interface sees them *)
Inductive shown := NLong (u:list Z) | NShort (b:list Z).
Definition shown_name (e:dirent) : shown :=
  match d_lfn e with Some sl => NLong (lfn_units sl) | None => NShort (sfn_display (d_name e)) end.

(** A name given by the caller.  The Unicode-dependent facts are computed by Python (the same
    str / codecs functions the implementation calls) and validated by the tie:
    [n_u] UTF-16 units; [n_oem] the name in the OEM code page if encodable; [n_oem_up] the same for
    name.upper(); [n_base]/[n_ext] = encode(splitext(upper)[0][0:8].strip()) / ...[1][1:4].strip()
    with errors="replace"; [n_conform] = is_8dot3_conform(name). *)
Record namerec := mkName {
  n_u : list Z; n_oem : option (list Z); n_oem_up : option (list Z);
  n_base : list Z; n_ext : list Z; n_conform : bool }.

Definition name_matches (n:namerec) (e:dirent) : bool :=
  (match d_lfn e with Some sl => list_eqb (lfn_units sl) (n_u n) | None => false end)
  || (match n_oem n with Some b => list_eqb (sfn_display (d_name e)) b | None => false end).

(** [get_entries]: (dirs, files, specials) in slot order *)
Definition ge_dirs (es:list dirent) := filter (fun e => negb (is_special e || is_volid e) && is_dir e) es.
Definition ge_files (es:list dirent) := filter (fun e => negb (is_special e || is_volid e) && negb (is_dir e)) es.
(** second pass of [_search_entry]: an entry without long name matches name.upper() *)
Definition name_matches_upper (n:namerec) (e:dirent) : bool :=
  match d_lfn e, n_oem_up n with
  | None, Some b => list_eqb (sfn_display (d_name e)) b
  | _, _ => false
  end.
Definition search_entry (es:list dirent) (n:namerec) : option dirent :=
  match find (name_matches n) (ge_dirs es ++ ge_files es) with
  | Some e => Some e
  | None => find (name_matches_upper n) (ge_dirs es ++ ge_files es)
  end.

(** ** alias generation, byte level ([make_8dot3_name] after the str-level preparation) *)
Definition map_chars (b:list Z) : list Z :=
  flat_map (fun c => if c =? 32 then [] else if in_list c Gen.INVALID_CHARACTERS then [95] else [c]) b.
Fixpoint digits_fuel (fuel:nat) (n:Z) (acc:list Z) : list Z :=
  match fuel with
  | O => acc
  | S f => if n <? 10 then (48 + n) :: acc else digits_fuel f (n / 10) ((48 + n mod 10) :: acc)
  end.
Definition digits (n:Z) : list Z := digits_fuel 20 n [].
Definition join_ext (b e:list Z) : list Z := match e with [] => b | _ => b ++ [46] ++ e end.
(** the [while len(str(i)) + 1 <= 7] loop; note that [basename] is REASSIGNED in every round *)
Fixpoint alias_loop (fuel:nat) (i:Z) (basename ext:list Z) (taken:list (list Z)) : res (list Z * list Z) :=
  match fuel with
  | O => Err EEXIST
  | S f =>
    if 7 <? lenZ (digits i) + 1 then Err EEXIST else
    let basename := if 0 <? i then firstn (Z.to_nat (8 - (1 + lenZ (digits i)))) basename ++ [126] ++ digits i else basename in
    if existsb (list_eqb (join_ext basename ext)) taken then alias_loop f (i + 1) basename ext taken
    else Ok (basename, ext)
  end.
Definition make_8dot3 (n:namerec) (es:list dirent) : res (list Z * list Z) :=
  let taken := map (fun e => sfn_display (d_name e)) (ge_dirs es ++ ge_files es) in
  let b := map_chars (n_base n) in
  let e := map_chars (n_ext n) in
  (* a name that is an extension only (" .a"): the extension is the stem and there is no extension (D37) *)
  let '(b, e) := match b with [] => (e, []) | _ => (b, e) end in
  alias_loop (Z.to_nat 1000001) 0 b e taken.
