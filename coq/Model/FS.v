(** Model: the stateful core of pyfatfs — device, FAT, allocator, chain follower, directory
    read / rewrite, mount / close and dirty marking, the PyFatFS operations and FatIO handles.
    The model keeps NO in-memory directory tree: directories are re-read from the device through
    the slot scanner, so an implementation whose cache is incoherent with the device disagrees
    with the model at the next listing (that is how C03 / C09 / C10 are tied).  Every device write
    is logged with offset and bytes; the log is compared byte for byte with the implementation's.
    Definitions only. *)
From Coq Require Import ZArith List Bool Lia FMapPositive.
From PyFatV Require Import Base.Bytes Base.PyEnv Gen.Pure Model.Codec Model.Dir.
Import ListNotations.
Open Scope Z_scope.

(** * Device: sparse map of 512-byte blocks; absent = zero *)
Definition dev := PositiveMap.t (list Z).
Definition zblk : list Z := zeros 512.
Definition dget (d:dev) (k:Z) : list Z :=
  match PositiveMap.find (Z.to_pos (k + 1)) d with Some s => s | None => zblk end.
Definition dput (d:dev) (k:Z) (b:list Z) : dev := PositiveMap.add (Z.to_pos (k + 1)) b d.
Fixpoint dread_blks (d:dev) (k:Z) (n:nat) : list Z :=
  match n with O => [] | S m => dget d k ++ dread_blks d (k + 1) m end.
(** read [len] bytes at [off]; short at the end of the device, like a Python file *)
Definition dread (d:dev) (dsize off len:Z) : list Z :=
  let len := Z.min len (dsize - off) in
  if len <=? 0 then [] else
  let k0 := off / 512 in let k1 := (off + len - 1) / 512 in
  firstn (Z.to_nat len) (skipn (Z.to_nat (off mod 512)) (dread_blks d k0 (Z.to_nat (k1 - k0 + 1)))).
Fixpoint dwrite_blks (d:dev) (k pos:Z) (data:list Z) (fuel:nat) : dev :=
  match fuel with
  | O => d
  | S f =>
    match data with
    | [] => d
    | _ =>
      let room := Z.to_nat (512 - pos) in
      let chunk := firstn room data in
      let old := dget d k in
      let new := firstn (Z.to_nat pos) old ++ chunk ++ skipn (Z.to_nat pos + length chunk) old in
      dwrite_blks (dput d k new) (k + 1) 0 (skipn room data) f
    end
  end.
Definition dwrite (d:dev) (off:Z) (data:list Z) : dev :=
  dwrite_blks d (off / 512) (off mod 512) data (S (length data / 512 + 1)).

(** * State *)
Record handle := mkHandle {
  h_parent : Z;            (* directory location: -1 = fixed root region, else first cluster *)
  h_name : list Z;         (* the 11 stored name bytes identify the entry inside its directory *)
  h_reading : bool; h_writing : bool; h_appending : bool;
  h_bpos : Z; h_cpos : Z; h_cindex : Z; h_coffpos : Z;
  h_closed : bool }.
Record st := mkSt {
  s_h : hdr; s_p : pf; s_ro : bool; s_pc : bool;
  s_fat : list Z; s_hi : list Z; s_hint : Z;
  s_dev : dev; s_dsize : Z;
  s_log : list (Z * list Z);            (* device writes, newest first *)
  s_handles : list handle }.

Definition upd_dev (s:st) (d:dev) (l:list (Z * list Z)) : st :=
  mkSt (s_h s) (s_p s) (s_ro s) (s_pc s) (s_fat s) (s_hi s) (s_hint s) d (s_dsize s) l (s_handles s).
Definition upd_fat (s:st) (f:list Z) (hint:Z) : st :=
  mkSt (s_h s) (s_p s) (s_ro s) (s_pc s) f (s_hi s) hint (s_dev s) (s_dsize s) (s_log s) (s_handles s).
Definition upd_hdr (s:st) (h:hdr) : st :=
  mkSt h (s_p s) (s_ro s) (s_pc s) (s_fat s) (s_hi s) (s_hint s) (s_dev s) (s_dsize s) (s_log s) (s_handles s).
Definition upd_handles (s:st) (hs:list handle) : st :=
  mkSt (s_h s) (s_p s) (s_ro s) (s_pc s) (s_fat s) (s_hi s) (s_hint s) (s_dev s) (s_dsize s) (s_log s) hs.

Definition ft (s:st) : Z := fat_type (s_p s).
Definition bps (s:st) : Z := BPB_BytsPerSec (s_h s).
Definition bpc (s:st) : Z := bytes_per_cluster (s_p s).
Definition rd (s:st) (off len:Z) : list Z := dread (s_dev s) (s_dsize s) off len.

(** every device write goes through here: the read-only guard, then the log *)
Definition write_at (s:st) (off:Z) (data:list Z) : res st :=
  if s_ro s then Err EROFS else Ok (upd_dev s (dwrite (s_dev s) off data) ((off, data) :: s_log s)).

(** * Geometry helpers (all arithmetic is the generated code) *)
Definition cluster_addr (s:st) (c:Z) : Z := Gen.get_data_cluster_address (s_p s) (s_h s) c.
Definition total_sectors (s:st) : Z := Gen.get_total_sectors (s_h s).
(** number of data clusters, and the largest valid cluster number (the specification's rule) *)
Definition count_of_clusters (s:st) : Z := (total_sectors s - first_data_sector (s_p s)) / BPB_SecPerClus (s_h s).
Definition max_cluster (s:st) : Z := count_of_clusters s + 1.

(** * Chain follower ([get_cluster_chain]); at most as many clusters as the FAT has entries *)
(** [dm]: the largest value that is followed as a link.  MAX_DATA_CLUSTER, except on volumes with (almost) the maximum
    number of clusters of their type, whose last clusters have numbers beyond it (up to BAD_CLUSTER - 1) *)
Definition is_data (t dm v:Z) : bool := (Gen.MIN_DATA_CLUSTER t <=? v) && (v <=? dm).
Definition is_eoc (t v:Z) : bool :=
  ((t =? Gen.FAT_TYPE_FAT12) && (v =? Gen.FAT12_SPECIAL_EOC)) || ((Gen.END_OF_CLUSTER_MIN t <=? v) && (v <=? Gen.END_OF_CLUSTER_MAX t)).
Fixpoint chain_go (fuel:nat) (t dm:Z) (fat:list Z) (i:Z) : list Z * bool :=
  match fuel with
  | O => ([], false)
  | S f =>
    if (i <? Gen.MIN_DATA_CLUSTER t) || (lenZ fat <=? i) then ([], false) else
    let v := nthZ fat i in
    if is_data t dm v then (let '(r, ok) := chain_go f t dm fat v in (i :: r, ok))
    else if is_eoc t v then ([i], true) else ([], false)
  end.
Definition dmax (s:st) : Z := Z.max (Gen.MAX_DATA_CLUSTER (ft s)) (Z.min (max_cluster s) (Gen.BAD_CLUSTER (ft s) - 1)).
(** (clusters yielded before the generator stops, true iff it stopped at an end-of-chain mark) *)
(** the FAT is sector-rounded and usually has more entries than the volume has clusters; those entries address no cluster
    and are out of the follower's reach ([i > last_cluster] is refused like [i >= len(self.fat)], D38): the follower sees the
    entries 0 .. max_cluster only.  Loop detection still counts against the length of the whole table. *)
Definition vfat (s:st) : list Z := firstn (Z.to_nat (max_cluster s + 1)) (s_fat s).
Definition chain (s:st) (c:Z) : list Z * bool := chain_go (length (s_fat s)) (ft s) (dmax s) (vfat s) c.
Definition chain_all (s:st) (c:Z) : res (list Z) :=
  let '(l, ok) := chain s c in if ok then Ok l else Err EPYFAT.

(** * Allocator ([allocate_bytes]) — scan from the hint for [n] free in-range clusters *)
Fixpoint alloc_scan (fuel:nat) (fat:list Z) (t maxc i:Z) (need:nat) : list Z * Z :=
  match fuel with
  | O => ([], i - 1)
  | S f =>
    if (i <? Gen.MIN_DATA_CLUSTER t) || (Z.min maxc (Gen.MAX_DATA_CLUSTER t) <? i) then alloc_scan f fat t maxc (i + 1) need
    else match need with
         | O => ([], i)
         | S nd =>
           if nthZ fat i =? Gen.FREE_CLUSTER t
           then (let '(l, j) := alloc_scan f fat t maxc (i + 1) nd in (i :: l, j))
           else alloc_scan f fat t maxc (i + 1) need
         end
  end.
Fixpoint link_chain (fat:list Z) (cs:list Z) (eoc:Z) : list Z :=
  match cs with
  | [] => fat
  | [c] => updZ fat c eoc
  | c :: ((d :: _) as r) => link_chain (updZ fat c d) r eoc
  end.
Fixpoint erase_clusters (s:st) (cs:list Z) : res st :=
  match cs with
  | [] => Ok s
  | c :: r => do s' <- write_at s (cluster_addr s c) (zeros (bpc s)); erase_clusters s' r
  end.
Definition allocate (s:st) (size:Z) (erase:bool) : res (list Z * st) :=
  if s_ro s then Err EROFS else
  let n := Gen.calc_num_clusters (s_p s) size in
  let hint := Z.max 0 (s_hint s) in
  let '(cs, j) := alloc_scan (Z.to_nat (lenZ (s_fat s) - hint)) (s_fat s) (ft s) (max_cluster s) hint (Z.to_nat n) in
  if negb (lenZ cs =? n) then Err ENOSPC else
  let s1 := upd_fat s (link_chain (s_fat s) cs (Gen.END_OF_CLUSTER_MAX (ft s))) j in
  if erase then (do s2 <- erase_clusters s1 cs; Ok (cs, s2)) else Ok (cs, s1).

Definition free_chain (s:st) (c:Z) : res st :=
  if s_ro s then Err EROFS else
  do cs <- chain_all s c;
  Ok (upd_fat s (fold_left (fun f cl => updZ f cl (Gen.FREE_CLUSTER (ft s))) cs (s_fat s))
              (fold_left Z.min cs (s_hint s))).

(** * FAT flush: the whole table to every copy *)
Definition fat_bytes (s:st) : Z := bps s * _fat_size (s_p s).
Definition fat_start (s:st) : Z := BPB_RsvdSecCnt (s_h s) * bps s.
Fixpoint flush_copies (s:st) (b:list Z) (i:Z) (n:nat) : res st :=
  match n with
  | O => Ok s
  | S k => do s' <- write_at s (fat_start s + i * fat_bytes s) b; flush_copies s' b (i + 1) k
  end.
Definition flush_fat (s:st) : res st :=
  if s_ro s then Err EROFS else
  flush_copies s (pack_fat (ft s) (s_fat s) (s_hi s)) 0 (Z.to_nat (BPB_NumFATs (s_h s))).

(** * Boot sector write-out ([_write_bpb_header]) *)
Definition write_bpb (s:st) : res st :=
  do s1 <- write_at s 0 (ser_hdr (s_h s));
  do s2 <- write_at s1 510 [85; 170];
  if ft s =? Gen.FAT_TYPE_FAT32 then
    let bk := BPB_BkBootSec (s_h s) * bps s in
    do s3 <- write_at s2 bk (ser_hdr (s_h s));
    write_at s3 (510 + bk) [85; 170]
  else Ok s2.

Definition set_reserved1 (h:hdr) (v:Z) : hdr :=
  mkHdr (BS_jmpBoot h) (BS_OEMName h) (BPB_BytsPerSec h) (BPB_SecPerClus h) (BPB_RsvdSecCnt h) (BPB_NumFATs h)
        (BPB_RootEntCnt h) (BPB_TotSec16 h) (BPB_Media h) (BPB_FATSz16 h) (BPB_SecPerTrk h) (BPB_NumHeads h)
        (BPB_HiddSec h) (BPB_TotSec32 h) (BPB_FATSz32 h) (BPB_ExtFlags h) (BPB_FSVer h) (BPB_RootClus h)
        (BPB_FSInfo h) (BPB_BkBootSec h) (BPB_Reserved h) (BS_DrvNum h) v (BS_BootSig h) (BS_VolID h)
        (BS_VolLab h) (BS_FilSysType h) (is32hdr h).
Definition shutdown_mask (t:Z) : option Z :=
  if t =? Gen.FAT_TYPE_FAT16 then Some Gen.FAT16_CLEAN_SHUTDOWN_BIT_MASK
  else if t =? Gen.FAT_TYPE_FAT32 then Some Gen.FAT32_CLEAN_SHUTDOWN_BIT_MASK else None.
Definition is_dirty (s:st) : bool :=
  (match shutdown_mask (ft s) with
   | Some m => negb (Z.land (nthZ (s_fat s) 1) m =? m) | None => false end)
  || (Z.land (BS_Reserved1 (s_h s)) Gen.FAT_DIRTY_BIT_MASK =? Gen.FAT_DIRTY_BIT_MASK).
Definition mark_dirty (s:st) : res st :=
  do s1 <- (match shutdown_mask (ft s) with
            | Some m => flush_fat (upd_fat s (updZ (s_fat s) 1 (Z.land (nthZ (s_fat s) 1) (Z.lnot m))) (s_hint s))
            | None => Ok s end);
  write_bpb (upd_hdr s1 (set_reserved1 (s_h s1) (Z.lor (BS_Reserved1 (s_h s1)) Gen.FAT_DIRTY_BIT_MASK))).
Definition mark_clean (s:st) : res st :=
  do s1 <- (match shutdown_mask (ft s) with
            | Some m => flush_fat (upd_fat s (updZ (s_fat s) 1 (Z.lor (nthZ (s_fat s) 1) m)) (s_hint s))
            | None => Ok s end);
  write_bpb (upd_hdr s1 (set_reserved1 (s_h s1) (Z.land (BS_Reserved1 (s_h s1)) (Z.lnot Gen.FAT_DIRTY_BIT_MASK)))).

(** * Directories on the device *)
Definition is_root_fixed (s:st) (loc:Z) : bool := loc =? -1.
Definition root_loc (s:st) : Z := if ft s =? Gen.FAT_TYPE_FAT32 then BPB_RootClus (s_h s) else -1.
Definition root_addr (s:st) : Z := root_dir_sector (s_p s) * bps s.
Fixpoint scan_chain (s:st) (cs:list Z) (pend:list lfnslot) (acc:list dirent) : res (list dirent) :=
  match cs with
  | [] => Ok acc
  | c :: r =>
    let b := rd s (cluster_addr s c) (bpc s) in
    do x <- scan_slots (S (length b / 32)) b pend acc;
    let '(acc', pend', stop) := x in
    if stop then Ok acc' else scan_chain s r pend' acc'
  end.
Definition read_dir (s:st) (loc:Z) : res (list dirent) :=
  if is_root_fixed s loc then
    let b := rd s (root_addr s) (BPB_RootEntCnt (s_h s) * 32) in
    do x <- scan_slots (S (length b / 32)) b [] []; let '(acc, _, _) := x in Ok acc
  else do cs <- chain_all s loc; scan_chain s cs [] [].

(** [write_data_to_cluster] *)
Fixpoint write_chunks (s:st) (cs:list Z) (data:list Z) : res st :=
  match cs with
  | [] => Ok s
  | c :: r =>
    let n := Z.to_nat (bpc s) in
    do s' <- write_at s (cluster_addr s c) (firstn n data);
    if (length data <=? n)%nat then Ok s' else write_chunks s' r (skipn n data)
  end.
Definition write_data_to_cluster (s:st) (data:list Z) (c:Z) (erase:bool) : res st :=
  if s_ro s then Err EROFS else
  let dsz := lenZ data in
  let need := Z.max 1 (ceil_div dsz (bpc s)) in
  let '(ch, ok) := chain s c in
  do s1 <- (if need <=? lenZ ch then Ok s
            else if negb ok then Err EPYFAT
            else do r <- allocate s (dsz - lenZ ch * bpc s) erase;
                 let '(cs, s') := r in
                 Ok (upd_fat s' (updZ (s_fat s') (last ch 0) (hd 0 cs)) (s_hint s')));
  let '(ch1, _) := chain s1 c in
  let data' := if erase then data ++ zeros (Z.max need (lenZ ch1) * bpc s - dsz) else data in
  write_chunks s1 ch1 data'.

(** [update_directory_entry] *)
Definition write_dir (s:st) (loc:Z) (es:list dirent) : res st :=
  if s_ro s then Err EROFS else
  let b := ser_dir es in
  if is_root_fixed s loc then
    let sz := root_dir_sectors (s_p s) * bps s in
    if sz <? lenZ b then Err ENOSPC else write_at s (root_addr s) (b ++ zeros (sz - lenZ b))
  else write_data_to_cluster s b loc true.

(** * Path lookup *)
Inductive eref := ERoot | EAt (parent:Z) (e:dirent).
Definition eref_is_dir (r:eref) : bool := match r with ERoot => true | EAt _ e => is_dir e end.
Definition eref_loc (s:st) (r:eref) : Z := match r with ERoot => root_loc s | EAt _ e => get_cluster e end.
Fixpoint get_entry (s:st) (cur:eref) (path:list namerec) : res eref :=
  match path with
  | [] => Ok cur
  | n :: r =>
    if negb (eref_is_dir cur) then Err ENOTDIR else
    do es <- read_dir s (eref_loc s cur);
    match search_entry es n with
    | Some e => get_entry s (EAt (eref_loc s cur) e) r
    | None => Err ENOENT
    end
  end.
Definition lookup (s:st) (path:list namerec) : res eref := get_entry s ERoot path.
(** [_get_dir_entry]: ENOENT / ENOTDIR become ResourceNotFound, everything else stays raw *)
Definition get_dir_entry (s:st) (path:list namerec) : res eref :=
  match lookup s path with Err ENOENT => Err RNF | Err ENOTDIR => Err RNF | r => r end.

(** * Read-only operations *)
Definition op_exists (s:st) (path:list namerec) : res bool :=
  match lookup s path with Ok _ => Ok true | Err ENOENT => Ok false | Err ENOTDIR => Ok false | Err e => Err e end.
Record info := mkInfo { i_name : shown; i_dir : bool; i_size : Z; i_crtdate : Z; i_crttime : Z;
                        i_wrtdate : Z; i_wrttime : Z; i_accdate : Z }.
Definition info_of (r:eref) : info :=
  match r with
  | ERoot => mkInfo (NShort []) true 0 0 0 0 0 0
  | EAt _ e => mkInfo (shown_name e) (is_dir e) (d_size e) (d_crtdate e) (d_crttime e) (d_wrtdate e) (d_wrttime e) (d_accdate e)
  end.
Definition op_getinfo (s:st) (path:list namerec) : res info :=
  match lookup s path with
  | Ok r => Ok (info_of r)
  | Err ENOENT => Err RNF | Err ENOTDIR => Err RNF | Err e => Err e
  end.
Definition op_getsize (s:st) (path:list namerec) : res Z :=
  match lookup s path with Ok r => Ok (i_size (info_of r)) | Err ENOENT => Err RNF | Err ENOTDIR => Err RNF | Err e => Err e end.
Definition op_listdir (s:st) (path:list namerec) : res (list shown) :=
  do r <- get_dir_entry s path;
  if negb (eref_is_dir r) then Err DEXP else
  do es <- read_dir s (eref_loc s r);
  Ok (map shown_name (ge_dirs es ++ ge_files es)).

(** * Entry creation *)
Definition now_rec := (Z * Z * Z * Z * Z * Z)%type.   (* y m d h mi s of DosDateTime.now(tz) *)
Definition date_of (t:now_rec) : Z := let '(y,m,d,_,_,_) := t in Gen.serialize_date y m d.
Definition time_of (t:now_rec) : Z := let '(_,_,_,h,mi,sec) := t in Gen.serialize_time h mi sec.
Definition new_dirent (name:list Z) (attr:Z) (t:now_rec) : dirent :=
  mkDirent name attr 0 0 (time_of t) (date_of t) (date_of t) 0 (time_of t) (date_of t) 0 0 None.
Definition opt_eqb (a:option (list Z)) (b:list Z) : bool := match a with Some x => list_eqb x b | None => false end.
(** short name + optional long-name set for a new entry called [n] in a directory holding [es] *)
Definition new_names (s:st) (n:namerec) (es:list dirent) : res (list Z * option (list lfnslot)) :=
  do be <- make_8dot3 n es;
  let '(b, e) := be in
  (* set_str_name: the generated alias must itself be 8.3 conform *)
  if (match b, e with [], _ :: _ => true | _, _ => false end) then Err EINVAL else
  let sfn := sfn_pack b e in
  let disp := sfn_display sfn in
  (* _sfn != dirname.upper() or (_sfn != dirname and preserve_case) *)
  if negb (opt_eqb (n_oem_up n) disp) || (negb (opt_eqb (n_oem n) disp) && s_pc s) then
    if n_conform n && opt_eqb (n_oem n) disp then Err EINVAL
    else if 255 <? lenZ (n_u n) then Err ENAMETOOLONG
    else Ok (sfn, Some (make_lfn (n_u n) sfn))
  else Ok (sfn, None).

Fixpoint split_last {A} (l:list A) : option (list A * A) :=
  match l with
  | [] => None
  | [x] => Some ([], x)
  | x :: r => match split_last r with Some (i, y) => Some (x :: i, y) | None => None end
  end.

(** [create(path, wipe)] *)
Definition op_create (s:st) (path:list namerec) (wipe:bool) (t:now_rec) : res (bool * st) :=
  match split_last path with
  | None => (* create("/"): opendir("") is the root; the entry exists and is a directory *) Err FEXP
  | Some (dirp, n) =>
    do base <- (match get_dir_entry s dirp with Ok b => if eref_is_dir b then Ok b else Err RNF | Err e => Err e end);
    match get_dir_entry s path with
    | Ok (EAt ploc e) =>
        if is_dir e then Err FEXP
        else if negb wipe then Ok (false, s)
        else
          do es <- read_dir s ploc;
          let e' := set_size (set_cluster (set_times e (d_crttime e) (d_crtdate e) (date_of t) (time_of t) (date_of t)) 0) 0 in
          let es' := map (fun x => if list_eqb (d_name x) (d_name e) then set_lfn e' (d_lfn x) else x) es in
          do s1 <- (if get_cluster e =? 0 then Ok s else free_chain s (get_cluster e));
          do s2 <- write_dir s1 ploc es';
          do s3 <- flush_fat s2; Ok (true, s3)
    | Ok ERoot => Err FEXP
    | Err RNF =>
        let loc := eref_loc s base in
        do es <- read_dir s loc;
        do nm <- new_names s n es;
        let '(sfn, lfn) := nm in
        let e := set_lfn (new_dirent sfn 0 t) lfn in
        do s1 <- write_dir s loc (es ++ [e]);
        do s2 <- flush_fat s1; Ok (true, s2)
    | Err e => Err e
    end
  end.

(** [makedir(path, recreate)] *)
Definition eref_dirent (r:eref) : dirent :=
  match r with
  | ERoot => mkDirent (repeat 32 11) Gen.ATTR_DIRECTORY 0 0 0 0 0 0 0 0 0 0 None
  | EAt _ e => e
  end.
Definition dot_name : list Z := 46 :: repeat 32 10.
Definition dotdot_name : list Z := 46 :: 46 :: repeat 32 9.
Definition op_makedir (s:st) (path:list namerec) (recreate:bool) (t:now_rec) : res st :=
  match split_last path with
  | None => if recreate then Ok s else Err DEXISTS
  | Some (dirp, n) =>
    do base <- (match get_dir_entry s dirp with Ok b => if eref_is_dir b then Ok b else Err RNF | Err e => Err e end);
    match get_dir_entry s path with
    | Ok r => if negb recreate || negb (eref_is_dir r) then Err DEXISTS else Ok s
    | Err RNF =>
        let loc := eref_loc s base in
        do es <- read_dir s loc;
        do nm <- new_names s n es;
        let '(sfn, lfn) := nm in
        let e0 := set_lfn (new_dirent sfn Gen.ATTR_DIRECTORY t) lfn in
        do a <- allocate s (Gen.FAT_DIRECTORY_LAYOUT_size * 2) true;
        let '(cs, s1) := a in
        let e := set_cluster e0 (hd 0 cs) in
        let dot := set_lfn (set_name e dot_name) None in
        let dd0 := set_lfn (set_name (eref_dirent base) dotdot_name) None in
        let dotdot := match base with ERoot => set_cluster dd0 0 | _ => dd0 end in
        do s2 <- write_dir s1 (hd 0 cs) [dot; dotdot];
        do s3 <- write_dir s2 loc (es ++ [e]);
        flush_fat s3
    | Err e => Err e
    end
  end.

(** [_remove(parent, entry)] *)
Definition same_entry (e x:dirent) : bool := list_eqb (d_name e) (d_name x).
Fixpoint remove_first (p:dirent -> bool) (l:list dirent) : list dirent :=
  match l with [] => [] | x :: r => if p x then r else x :: remove_first p r end.
Definition shown_eqb (a b:shown) : bool :=
  match a, b with NLong x, NLong y => list_eqb x y | NShort x, NShort y => list_eqb x y | _, _ => false end.
Definition remove_entry (s:st) (ploc:Z) (e:dirent) : res st :=
  do es <- read_dir s ploc;
  let nm := shown_name e in
  let es' := remove_first (fun x => shown_eqb (shown_name x) nm || (match nm with NShort b => list_eqb (sfn_display (d_name x)) b | _ => false end)) es in
  do s1 <- write_dir s ploc es';
  do s2 <- (if is_dir e then (do sub <- read_dir s1 (get_cluster e); write_dir s1 (get_cluster e) sub) else Ok s1);
  do s3 <- (if get_cluster e =? 0 then Ok s2 else free_chain s2 (get_cluster e));
  flush_fat s3.

Definition op_remove (s:st) (path:list namerec) : res st :=
  do r <- get_dir_entry s path;
  match r with
  | ERoot => Err FEXP
  | EAt ploc e => if is_dir e || is_special e then Err FEXP else remove_entry s ploc e
  end.
Definition dir_is_empty (es:list dirent) : bool := forallb is_special es.
Definition op_removedir (s:st) (path:list namerec) : res st :=
  do r <- get_dir_entry s path;
  match r with
  | ERoot => Err RROOT
  | EAt ploc e =>
      if negb (is_dir e) then Err DEXP else
      do es <- read_dir s (get_cluster e);
      if negb (dir_is_empty es) then Err DNOTEMPTY else remove_entry s ploc e
  end.
(** [removetree]: files of the directory first, then each sub-directory recursively, then itself *)
Fixpoint rmtree_go (fuel:nat) (s:st) (r:eref) : res st :=
  match fuel with
  | O => Err EFUEL
  | S f =>
    let loc := eref_loc s r in
    do es <- read_dir s loc;
    do s1 <- fold_left (fun acc e => do sa <- acc; remove_entry sa loc e) (ge_files es) (Ok s);
    do s2 <- fold_left (fun acc e => do sa <- acc; rmtree_go f sa (EAt loc e)) (ge_dirs es) (Ok s1);
    match r with
    | ERoot => Ok s2
    | EAt ploc e =>
        do es' <- read_dir s2 (get_cluster e);
        if negb (dir_is_empty es') then Err DNOTEMPTY else remove_entry s2 ploc e
    end
  end.
Definition op_removetree (s:st) (path:list namerec) : res st :=
  do r <- get_dir_entry s path;
  if negb (eref_is_dir r) then Err DEXP else rmtree_go 64 s r.

(** [setinfo]: the three optional timestamps already broken down by the caller *)
Definition year_ok (t:option now_rec) : bool :=
  match t with Some (y,_,_,_,_,_) => (1980 <=? y) && (y <=? 2107) | None => true end.
Definition op_setinfo (s:st) (path:list namerec) (ct mt at_:option now_rec) : res st :=
  do r <- get_dir_entry s path;
  if negb (year_ok ct && year_ok mt && year_ok at_) then Err EINVAL else
  match r with
  | ERoot => Err ENOENT
  | EAt ploc e =>
      let e1 := match ct with Some t => set_times e (time_of t) (date_of t) (d_accdate e) (d_wrttime e) (d_wrtdate e) | None => e end in
      let e2 := match mt with Some t => set_times e1 (d_crttime e1) (d_crtdate e1) (d_accdate e1) (time_of t) (date_of t) | None => e1 end in
      let e3 := match at_ with Some t => set_times e2 (d_crttime e2) (d_crtdate e2) (date_of t) (d_wrttime e2) (d_wrtdate e2) | None => e2 end in
      do es <- read_dir s ploc;
      write_dir s ploc (map (fun x => if same_entry e x then set_lfn e3 (d_lfn x) else x) es)
  end.

(** * File handles ([FatIO]) *)
Definition find_in_dir (s:st) (h:handle) : res dirent :=
  do es <- read_dir s (h_parent h);
  match find (fun x => list_eqb (d_name x) (h_name h)) es with Some e => Ok e | None => Err ENOENT end.
Definition set_cursor (h:handle) (bpos cpos cindex coffpos:Z) : handle :=
  mkHandle (h_parent h) (h_name h) (h_reading h) (h_writing h) (h_appending h) bpos cpos cindex coffpos (h_closed h).
(** take the [k]-th element of the chain starting at [c] the way [next(fp)] is called k+1 times *)
Definition chain_nth (s:st) (c:Z) (k:Z) : res Z :=
  let '(l, ok) := chain s c in
  if k <? lenZ l then Ok (nthZ l k) else Err EPYFAT.
Definition h_seek (s:st) (h:handle) (e:dirent) (offset whence:Z) : res handle :=
  do off <- (if whence =? 0 then Ok offset else if whence =? 1 then Ok (offset + h_bpos h)
             else if whence =? 2 then Ok (offset + d_size e) else Err VALERR);
  let '(bpos, cindex, coffpos) := Gen.seek_cursor off (d_size e) (bpc s) in
  let prev := h_cindex h in
  let '(cpos0, prev0) := if cindex <? prev then (get_cluster e, 0) else (h_cpos h, prev) in
  do cpos <- (if prev0 <? cindex then chain_nth s cpos0 (cindex - prev0) else Ok cpos0);
  Ok (set_cursor h bpos cpos cindex coffpos).
Definition update_entry (s:st) (h:handle) (f:dirent -> dirent) : res st :=
  do es <- read_dir s (h_parent h);
  write_dir s (h_parent h) (map (fun x => if list_eqb (d_name x) (h_name h) then f x else x) es).

(** [read(size)] *)
Fixpoint read_chunks (s:st) (cs:list Z) (coff:Z) (size:Z) (fuel:nat) : res (list Z) :=
  match fuel with
  | O => Err EFUEL
  | S f =>
    match cs with
    | [] => Ok []
    | c :: r =>
      let csz := Z.min (bpc s - coff) size in
      let chunk := firstn (Z.to_nat csz) (skipn (Z.to_nat coff) (rd s (cluster_addr s c) (bpc s))) in
      if size - csz <=? 0 then Ok chunk
      else do rest <- read_chunks s r 0 (size - csz) f; Ok (chunk ++ rest)
    end
  end.
Definition h_read (s:st) (h:handle) (size:Z) : res (list Z * handle) :=
  if negb (h_reading h) then Err IOERR else
  do e <- find_in_dir s h;
  let size := if (d_size e <? size + h_bpos h) || (size <? 0) then d_size e - h_bpos h else size in
  if size =? 0 then Ok ([], h) else
  let '(cs, ok) := chain s (h_cpos h) in
  do data <- read_chunks s cs (h_coffpos h) size (S (length cs));
  if negb (lenZ data =? size) then Err EPYFAT else
  do h' <- h_seek s h e size 1;
  Ok (data, h').

(** [write(b)] *)
Definition h_write_raw (s:st) (h:handle) (e:dirent) (b:list Z) : res (st * handle) :=
  if negb (h_writing h) || is_readonly e || s_ro s then Err IOERR else
  let sz := lenZ b in
  if sz =? 0 then Ok (s, h) else
  if Gen.MAX_FILE_SIZE <? h_bpos h + sz then Err E2BIG else
  do x <- (if get_cluster e =? 0 then
             do a <- allocate s sz false; let '(cs, s1) := a in Ok (s1, hd 0 cs, b, true)
           else if negb (h_coffpos h =? 0) then
             Ok (s, h_cpos h, firstn (Z.to_nat (h_coffpos h)) (rd s (cluster_addr s (h_cpos h)) (bpc s)) ++ b, false)
           else Ok (s, h_cpos h, b, false));
  let '(s1, cpos, data, fresh) := x in
  do s2 <- write_data_to_cluster s1 data cpos false;
  let newsize := Z.max (d_size e) (h_bpos h + sz) in
  let e' := set_size (if fresh then set_cluster e cpos else e) newsize in
  do h' <- h_seek s2 (set_cursor h (h_bpos h) cpos (h_cindex h) (h_coffpos h)) e' sz 1;
  do s3 <- update_entry s2 h (fun x => set_size (if fresh then set_cluster x cpos else x) newsize);
  Ok (s3, h').
Definition h_write (s:st) (h:handle) (b:list Z) : res (st * handle) :=
  do e <- find_in_dir s h;
  if negb (h_writing h) || is_readonly e || s_ro s then Err IOERR else
  if lenZ b =? 0 then Ok (s, h) else
  do h' <- (if h_appending h then h_seek s h e 0 2 else Ok h);
  h_write_raw s h' e b.

(** [truncate(size)]; [None] = current position *)
Definition h_truncate (s:st) (h:handle) (size:option Z) : res (st * handle) :=
  do e <- find_in_dir s h;
  do hc <- h_seek s h e 0 1;                 (* tell() *)
  let cur := h_bpos hc in
  let size := match size with Some n => n | None => cur end in
  if Gen.MAX_FILE_SIZE <? size then Err E2BIG else
  if d_size e <? size then
    do h1 <- h_seek s hc e 0 2;
    do x <- h_write_raw s h1 e (zeros (size - d_size e));
    let '(s1, h2) := x in
    do e1 <- find_in_dir s1 h2;
    do h3 <- h_seek s1 h2 e1 cur 0;
    do s2 <- update_entry s1 h3 (fun x => set_size x size);
    Ok (s2, h3)
  else if size <? d_size e then
    let keep := Z.max 1 (Gen.calc_num_clusters (s_p s) size) in
    let '(cs, ok) := chain s (get_cluster e) in
    do s1 <- (if keep <? lenZ cs then
                do s' <- free_chain s (nthZ cs keep);
                let s'' := upd_fat s' (updZ (s_fat s') (nthZ cs (keep - 1)) (Gen.END_OF_CLUSTER_MAX (ft s))) (s_hint s') in
                flush_fat s''
              else if ok then Ok s else Err EPYFAT);
    do s2 <- update_entry s1 hc (fun x => set_size x size);
    do e2 <- find_in_dir s2 hc;
    do h2 <- h_seek s2 (set_cursor hc (h_bpos hc) (get_cluster e2) 0 0) e2 (Z.min cur size) 0;
    Ok (s2, h2)
  else
    do s2 <- update_entry s hc (fun x => set_size x size);
    Ok (s2, hc).

Definition h_close (s:st) (h:handle) : res (st * handle) :=
  do e <- find_in_dir s h;
  do h1 <- h_seek s h e 0 0;
  do s1 <- (if h_writing h then flush_fat s else Ok s);
  Ok (s1, mkHandle (h_parent h1) (h_name h1) (h_reading h1) (h_writing h1) (h_appending h1)
                   (h_bpos h1) (h_cpos h1) (h_cindex h1) (h_coffpos h1) true).

(** [openbin(path, mode)]; mode flags as fs.mode.Mode computes them *)
Record mode := mkMode { m_reading : bool; m_writing : bool; m_appending : bool; m_create : bool;
                        m_exclusive : bool; m_truncate : bool }.
Definition op_openbin (s:st) (path:list namerec) (m:mode) (t:now_rec) : res (st * handle) :=
  do s1 <- (if m_create m then
              do _ <- (if m_exclusive m then
                         match op_getinfo s path with Ok _ => Err FEXISTS | Err RNF => Ok tt | Err e => Err e end
                       else Ok tt);
              do r <- op_create s path false t; Ok (snd r)
            else Ok s);
  do i <- op_getinfo s1 path;
  if i_dir i then Err FEXP else
  do r <- lookup s1 path;
  match r with
  | ERoot => Err FEXP
  | EAt ploc e =>
      if is_volid e then Err RNF else
      let h0 := mkHandle ploc (d_name e) (m_reading m) (m_writing m) (m_appending m) 0 (get_cluster e) 0 0 false in
      do x <- (if m_truncate m then
                 do h1 <- h_seek s1 h0 e 0 0; h_truncate s1 h1 None
               else Ok (s1, h0));
      let '(s2, h2) := x in
      do h3 <- (if m_appending m then (do e2 <- find_in_dir s2 h2; h_seek s2 h2 e2 0 2) else Ok h2);
      Ok (s2, h3)
  end.

(** * Mount and close *)
Definition mount (d:dev) (dsize:Z) (ro pc:bool) : res (st * bool) :=
  let boot := dread d dsize 0 512 in
  if (length boot <? 512)%nat then Err EIO else
  let h0 := parse_hdr boot in
  do _ <- Gen.verify_bpb_header h0;
  let p := Gen.parse_header_geometry pf_init h0 in
  if negb (un_le (slice boot 510 512) =? 43605) then Err EPYFAT else
  let p := set_bytes_per_cluster p (BPB_BytsPerSec h0 * BPB_SecPerClus h0) in
  let nf := BPB_NumFATs h0 in
  let fsz := BPB_BytsPerSec h0 * _fat_size p in
  let fb := dread d dsize (BPB_RsvdSecCnt h0 * BPB_BytsPerSec h0) fsz in
  if negb (lenZ fb =? fsz) then Err EPYFAT else
  let t := fat_type p in
  let s := mkSt h0 p ro pc (parse_fat t fb) (if t =? 32 then parse32hi fb else []) 0 d dsize [] [] in
  let dirty := is_dirty s in
  do s1 <- (if ro then Ok s else mark_dirty s);
  do _ <- read_dir s1 (root_loc s1);
  Ok (s1, dirty).
Definition op_close (s:st) : res st := if s_ro s then Ok s else mark_clean s.
