
(** val negb : bool -> bool **)

let negb = function
| true -> false
| false -> true

type nat =
| O
| S of nat

(** val fst : ('a1 * 'a2) -> 'a1 **)

let fst = function
| (x, _) -> x

(** val snd : ('a1 * 'a2) -> 'a2 **)

let snd = function
| (_, y) -> y

(** val length : 'a1 list -> nat **)

let rec length = function
| [] -> O
| _ :: l' -> S (length l')

(** val app : 'a1 list -> 'a1 list -> 'a1 list **)

let rec app l m =
  match l with
  | [] -> m
  | a :: l1 -> a :: (app l1 m)

type comparison =
| Eq
| Lt
| Gt

(** val compOpp : comparison -> comparison **)

let compOpp = function
| Eq -> Eq
| Lt -> Gt
| Gt -> Lt

module Coq__1 = struct
 (** val add : nat -> nat -> nat **)
 let rec add n0 m =
   match n0 with
   | O -> m
   | S p -> S (add p m)
end
include Coq__1

type positive =
| XI of positive
| XO of positive
| XH

type n =
| N0
| Npos of positive

type z =
| Z0
| Zpos of positive
| Zneg of positive

module Nat =
 struct
  (** val leb : nat -> nat -> bool **)

  let rec leb n0 m =
    match n0 with
    | O -> true
    | S n' -> (match m with
               | O -> false
               | S m' -> leb n' m')

  (** val ltb : nat -> nat -> bool **)

  let ltb n0 m =
    leb (S n0) m

  (** val divmod : nat -> nat -> nat -> nat -> nat * nat **)

  let rec divmod x y q u =
    match x with
    | O -> (q, u)
    | S x' ->
      (match u with
       | O -> divmod x' y (S q) y
       | S u' -> divmod x' y q u')

  (** val div : nat -> nat -> nat **)

  let div x y = match y with
  | O -> y
  | S y' -> fst (divmod x y' O y')
 end

module Pos =
 struct
  (** val succ : positive -> positive **)

  let rec succ = function
  | XI p -> XO (succ p)
  | XO p -> XI p
  | XH -> XO XH

  (** val add : positive -> positive -> positive **)

  let rec add x y =
    match x with
    | XI p ->
      (match y with
       | XI q -> XO (add_carry p q)
       | XO q -> XI (add p q)
       | XH -> XO (succ p))
    | XO p ->
      (match y with
       | XI q -> XI (add p q)
       | XO q -> XO (add p q)
       | XH -> XI p)
    | XH -> (match y with
             | XI q -> XO (succ q)
             | XO q -> XI q
             | XH -> XO XH)

  (** val add_carry : positive -> positive -> positive **)

  and add_carry x y =
    match x with
    | XI p ->
      (match y with
       | XI q -> XI (add_carry p q)
       | XO q -> XO (add_carry p q)
       | XH -> XI (succ p))
    | XO p ->
      (match y with
       | XI q -> XO (add_carry p q)
       | XO q -> XI (add p q)
       | XH -> XO (succ p))
    | XH ->
      (match y with
       | XI q -> XI (succ q)
       | XO q -> XO (succ q)
       | XH -> XI XH)

  (** val pred_double : positive -> positive **)

  let rec pred_double = function
  | XI p -> XI (XO p)
  | XO p -> XI (pred_double p)
  | XH -> XH

  (** val pred_N : positive -> n **)

  let pred_N = function
  | XI p -> Npos (XO p)
  | XO p -> Npos (pred_double p)
  | XH -> N0

  (** val mul : positive -> positive -> positive **)

  let rec mul x y =
    match x with
    | XI p -> add y (XO (mul p y))
    | XO p -> XO (mul p y)
    | XH -> y

  (** val iter : ('a1 -> 'a1) -> 'a1 -> positive -> 'a1 **)

  let rec iter f x = function
  | XI n' -> f (iter f (iter f x n') n')
  | XO n' -> iter f (iter f x n') n'
  | XH -> f x

  (** val div2 : positive -> positive **)

  let div2 = function
  | XI p0 -> p0
  | XO p0 -> p0
  | XH -> XH

  (** val div2_up : positive -> positive **)

  let div2_up = function
  | XI p0 -> succ p0
  | XO p0 -> p0
  | XH -> XH

  (** val compare_cont : comparison -> positive -> positive -> comparison **)

  let rec compare_cont r x y =
    match x with
    | XI p ->
      (match y with
       | XI q -> compare_cont r p q
       | XO q -> compare_cont Gt p q
       | XH -> Gt)
    | XO p ->
      (match y with
       | XI q -> compare_cont Lt p q
       | XO q -> compare_cont r p q
       | XH -> Gt)
    | XH -> (match y with
             | XH -> r
             | _ -> Lt)

  (** val compare : positive -> positive -> comparison **)

  let compare =
    compare_cont Eq

  (** val eqb : positive -> positive -> bool **)

  let rec eqb p q =
    match p with
    | XI p0 -> (match q with
                | XI q0 -> eqb p0 q0
                | _ -> false)
    | XO p0 -> (match q with
                | XO q0 -> eqb p0 q0
                | _ -> false)
    | XH -> (match q with
             | XH -> true
             | _ -> false)

  (** val coq_Nsucc_double : n -> n **)

  let coq_Nsucc_double = function
  | N0 -> Npos XH
  | Npos p -> Npos (XI p)

  (** val coq_Ndouble : n -> n **)

  let coq_Ndouble = function
  | N0 -> N0
  | Npos p -> Npos (XO p)

  (** val coq_lor : positive -> positive -> positive **)

  let rec coq_lor p q =
    match p with
    | XI p0 ->
      (match q with
       | XI q0 -> XI (coq_lor p0 q0)
       | XO q0 -> XI (coq_lor p0 q0)
       | XH -> p)
    | XO p0 ->
      (match q with
       | XI q0 -> XI (coq_lor p0 q0)
       | XO q0 -> XO (coq_lor p0 q0)
       | XH -> XI p0)
    | XH -> (match q with
             | XO q0 -> XI q0
             | _ -> q)

  (** val coq_land : positive -> positive -> n **)

  let rec coq_land p q =
    match p with
    | XI p0 ->
      (match q with
       | XI q0 -> coq_Nsucc_double (coq_land p0 q0)
       | XO q0 -> coq_Ndouble (coq_land p0 q0)
       | XH -> Npos XH)
    | XO p0 ->
      (match q with
       | XI q0 -> coq_Ndouble (coq_land p0 q0)
       | XO q0 -> coq_Ndouble (coq_land p0 q0)
       | XH -> N0)
    | XH -> (match q with
             | XO _ -> N0
             | _ -> Npos XH)

  (** val ldiff : positive -> positive -> n **)

  let rec ldiff p q =
    match p with
    | XI p0 ->
      (match q with
       | XI q0 -> coq_Ndouble (ldiff p0 q0)
       | XO q0 -> coq_Nsucc_double (ldiff p0 q0)
       | XH -> Npos (XO p0))
    | XO p0 ->
      (match q with
       | XI q0 -> coq_Ndouble (ldiff p0 q0)
       | XO q0 -> coq_Ndouble (ldiff p0 q0)
       | XH -> Npos p)
    | XH -> (match q with
             | XO _ -> Npos XH
             | _ -> N0)

  (** val iter_op : ('a1 -> 'a1 -> 'a1) -> positive -> 'a1 -> 'a1 **)

  let rec iter_op op p a =
    match p with
    | XI p0 -> op a (iter_op op p0 (op a a))
    | XO p0 -> iter_op op p0 (op a a)
    | XH -> a

  (** val to_nat : positive -> nat **)

  let to_nat x =
    iter_op Coq__1.add x (S O)

  (** val of_succ_nat : nat -> positive **)

  let rec of_succ_nat = function
  | O -> XH
  | S x -> succ (of_succ_nat x)
 end

module N =
 struct
  (** val succ_pos : n -> positive **)

  let succ_pos = function
  | N0 -> XH
  | Npos p -> Pos.succ p

  (** val coq_lor : n -> n -> n **)

  let coq_lor n0 m =
    match n0 with
    | N0 -> m
    | Npos p -> (match m with
                 | N0 -> n0
                 | Npos q -> Npos (Pos.coq_lor p q))

  (** val coq_land : n -> n -> n **)

  let coq_land n0 m =
    match n0 with
    | N0 -> N0
    | Npos p -> (match m with
                 | N0 -> N0
                 | Npos q -> Pos.coq_land p q)

  (** val ldiff : n -> n -> n **)

  let ldiff n0 m =
    match n0 with
    | N0 -> N0
    | Npos p -> (match m with
                 | N0 -> n0
                 | Npos q -> Pos.ldiff p q)
 end

module Z =
 struct
  (** val double : z -> z **)

  let double = function
  | Z0 -> Z0
  | Zpos p -> Zpos (XO p)
  | Zneg p -> Zneg (XO p)

  (** val succ_double : z -> z **)

  let succ_double = function
  | Z0 -> Zpos XH
  | Zpos p -> Zpos (XI p)
  | Zneg p -> Zneg (Pos.pred_double p)

  (** val pred_double : z -> z **)

  let pred_double = function
  | Z0 -> Zneg XH
  | Zpos p -> Zpos (Pos.pred_double p)
  | Zneg p -> Zneg (XI p)

  (** val pos_sub : positive -> positive -> z **)

  let rec pos_sub x y =
    match x with
    | XI p ->
      (match y with
       | XI q -> double (pos_sub p q)
       | XO q -> succ_double (pos_sub p q)
       | XH -> Zpos (XO p))
    | XO p ->
      (match y with
       | XI q -> pred_double (pos_sub p q)
       | XO q -> double (pos_sub p q)
       | XH -> Zpos (Pos.pred_double p))
    | XH ->
      (match y with
       | XI q -> Zneg (XO q)
       | XO q -> Zneg (Pos.pred_double q)
       | XH -> Z0)

  (** val add : z -> z -> z **)

  let add x y =
    match x with
    | Z0 -> y
    | Zpos x' ->
      (match y with
       | Z0 -> x
       | Zpos y' -> Zpos (Pos.add x' y')
       | Zneg y' -> pos_sub x' y')
    | Zneg x' ->
      (match y with
       | Z0 -> x
       | Zpos y' -> pos_sub y' x'
       | Zneg y' -> Zneg (Pos.add x' y'))

  (** val opp : z -> z **)

  let opp = function
  | Z0 -> Z0
  | Zpos x0 -> Zneg x0
  | Zneg x0 -> Zpos x0

  (** val pred : z -> z **)

  let pred x =
    add x (Zneg XH)

  (** val sub : z -> z -> z **)

  let sub m n0 =
    add m (opp n0)

  (** val mul : z -> z -> z **)

  let mul x y =
    match x with
    | Z0 -> Z0
    | Zpos x' ->
      (match y with
       | Z0 -> Z0
       | Zpos y' -> Zpos (Pos.mul x' y')
       | Zneg y' -> Zneg (Pos.mul x' y'))
    | Zneg x' ->
      (match y with
       | Z0 -> Z0
       | Zpos y' -> Zneg (Pos.mul x' y')
       | Zneg y' -> Zpos (Pos.mul x' y'))

  (** val compare : z -> z -> comparison **)

  let compare x y =
    match x with
    | Z0 -> (match y with
             | Z0 -> Eq
             | Zpos _ -> Lt
             | Zneg _ -> Gt)
    | Zpos x' -> (match y with
                  | Zpos y' -> Pos.compare x' y'
                  | _ -> Gt)
    | Zneg x' ->
      (match y with
       | Zneg y' -> compOpp (Pos.compare x' y')
       | _ -> Lt)

  (** val leb : z -> z -> bool **)

  let leb x y =
    match compare x y with
    | Gt -> false
    | _ -> true

  (** val ltb : z -> z -> bool **)

  let ltb x y =
    match compare x y with
    | Lt -> true
    | _ -> false

  (** val geb : z -> z -> bool **)

  let geb x y =
    match compare x y with
    | Lt -> false
    | _ -> true

  (** val gtb : z -> z -> bool **)

  let gtb x y =
    match compare x y with
    | Gt -> true
    | _ -> false

  (** val eqb : z -> z -> bool **)

  let eqb x y =
    match x with
    | Z0 -> (match y with
             | Z0 -> true
             | _ -> false)
    | Zpos p -> (match y with
                 | Zpos q -> Pos.eqb p q
                 | _ -> false)
    | Zneg p -> (match y with
                 | Zneg q -> Pos.eqb p q
                 | _ -> false)

  (** val max : z -> z -> z **)

  let max n0 m =
    match compare n0 m with
    | Lt -> m
    | _ -> n0

  (** val min : z -> z -> z **)

  let min n0 m =
    match compare n0 m with
    | Gt -> m
    | _ -> n0

  (** val to_nat : z -> nat **)

  let to_nat = function
  | Zpos p -> Pos.to_nat p
  | _ -> O

  (** val of_nat : nat -> z **)

  let of_nat = function
  | O -> Z0
  | S n1 -> Zpos (Pos.of_succ_nat n1)

  (** val of_N : n -> z **)

  let of_N = function
  | N0 -> Z0
  | Npos p -> Zpos p

  (** val to_pos : z -> positive **)

  let to_pos = function
  | Zpos p -> p
  | _ -> XH

  (** val pos_div_eucl : positive -> z -> z * z **)

  let rec pos_div_eucl a b =
    match a with
    | XI a' ->
      let (q, r) = pos_div_eucl a' b in
      let r' = add (mul (Zpos (XO XH)) r) (Zpos XH) in
      if ltb r' b
      then ((mul (Zpos (XO XH)) q), r')
      else ((add (mul (Zpos (XO XH)) q) (Zpos XH)), (sub r' b))
    | XO a' ->
      let (q, r) = pos_div_eucl a' b in
      let r' = mul (Zpos (XO XH)) r in
      if ltb r' b
      then ((mul (Zpos (XO XH)) q), r')
      else ((add (mul (Zpos (XO XH)) q) (Zpos XH)), (sub r' b))
    | XH -> if leb (Zpos (XO XH)) b then (Z0, (Zpos XH)) else ((Zpos XH), Z0)

  (** val div_eucl : z -> z -> z * z **)

  let div_eucl a b =
    match a with
    | Z0 -> (Z0, Z0)
    | Zpos a' ->
      (match b with
       | Z0 -> (Z0, a)
       | Zpos _ -> pos_div_eucl a' b
       | Zneg b' ->
         let (q, r) = pos_div_eucl a' (Zpos b') in
         (match r with
          | Z0 -> ((opp q), Z0)
          | _ -> ((opp (add q (Zpos XH))), (add b r))))
    | Zneg a' ->
      (match b with
       | Z0 -> (Z0, a)
       | Zpos _ ->
         let (q, r) = pos_div_eucl a' b in
         (match r with
          | Z0 -> ((opp q), Z0)
          | _ -> ((opp (add q (Zpos XH))), (sub b r)))
       | Zneg b' -> let (q, r) = pos_div_eucl a' (Zpos b') in (q, (opp r)))

  (** val div : z -> z -> z **)

  let div a b =
    let (q, _) = div_eucl a b in q

  (** val modulo : z -> z -> z **)

  let modulo a b =
    let (_, r) = div_eucl a b in r

  (** val odd : z -> bool **)

  let odd = function
  | Z0 -> false
  | Zpos p -> (match p with
               | XO _ -> false
               | _ -> true)
  | Zneg p -> (match p with
               | XO _ -> false
               | _ -> true)

  (** val div2 : z -> z **)

  let div2 = function
  | Z0 -> Z0
  | Zpos p -> (match p with
               | XH -> Z0
               | _ -> Zpos (Pos.div2 p))
  | Zneg p -> Zneg (Pos.div2_up p)

  (** val shiftl : z -> z -> z **)

  let shiftl a = function
  | Z0 -> a
  | Zpos p -> Pos.iter (mul (Zpos (XO XH))) a p
  | Zneg p -> Pos.iter div2 a p

  (** val shiftr : z -> z -> z **)

  let shiftr a n0 =
    shiftl a (opp n0)

  (** val coq_lor : z -> z -> z **)

  let coq_lor a b =
    match a with
    | Z0 -> b
    | Zpos a0 ->
      (match b with
       | Z0 -> a
       | Zpos b0 -> Zpos (Pos.coq_lor a0 b0)
       | Zneg b0 -> Zneg (N.succ_pos (N.ldiff (Pos.pred_N b0) (Npos a0))))
    | Zneg a0 ->
      (match b with
       | Z0 -> a
       | Zpos b0 -> Zneg (N.succ_pos (N.ldiff (Pos.pred_N a0) (Npos b0)))
       | Zneg b0 ->
         Zneg (N.succ_pos (N.coq_land (Pos.pred_N a0) (Pos.pred_N b0))))

  (** val coq_land : z -> z -> z **)

  let coq_land a b =
    match a with
    | Z0 -> Z0
    | Zpos a0 ->
      (match b with
       | Z0 -> Z0
       | Zpos b0 -> of_N (Pos.coq_land a0 b0)
       | Zneg b0 -> of_N (N.ldiff (Npos a0) (Pos.pred_N b0)))
    | Zneg a0 ->
      (match b with
       | Z0 -> Z0
       | Zpos b0 -> of_N (N.ldiff (Npos b0) (Pos.pred_N a0))
       | Zneg b0 ->
         Zneg (N.succ_pos (N.coq_lor (Pos.pred_N a0) (Pos.pred_N b0))))

  (** val lnot : z -> z **)

  let lnot a =
    pred (opp a)
 end

(** val hd : 'a1 -> 'a1 list -> 'a1 **)

let hd default = function
| [] -> default
| x :: _ -> x

(** val tl : 'a1 list -> 'a1 list **)

let tl = function
| [] -> []
| _ :: m -> m

(** val nth : nat -> 'a1 list -> 'a1 -> 'a1 **)

let rec nth n0 l default =
  match n0 with
  | O -> (match l with
          | [] -> default
          | x :: _ -> x)
  | S m -> (match l with
            | [] -> default
            | _ :: t0 -> nth m t0 default)

(** val last : 'a1 list -> 'a1 -> 'a1 **)

let rec last l d =
  match l with
  | [] -> d
  | a :: l0 -> (match l0 with
                | [] -> a
                | _ :: _ -> last l0 d)

(** val rev : 'a1 list -> 'a1 list **)

let rec rev = function
| [] -> []
| x :: l' -> app (rev l') (x :: [])

(** val map : ('a1 -> 'a2) -> 'a1 list -> 'a2 list **)

let rec map f = function
| [] -> []
| a :: t0 -> (f a) :: (map f t0)

(** val flat_map : ('a1 -> 'a2 list) -> 'a1 list -> 'a2 list **)

let rec flat_map f = function
| [] -> []
| x :: t0 -> app (f x) (flat_map f t0)

(** val fold_left : ('a1 -> 'a2 -> 'a1) -> 'a2 list -> 'a1 -> 'a1 **)

let rec fold_left f l a0 =
  match l with
  | [] -> a0
  | b :: t0 -> fold_left f t0 (f a0 b)

(** val fold_right : ('a2 -> 'a1 -> 'a1) -> 'a1 -> 'a2 list -> 'a1 **)

let rec fold_right f a0 = function
| [] -> a0
| b :: t0 -> f b (fold_right f a0 t0)

(** val existsb : ('a1 -> bool) -> 'a1 list -> bool **)

let rec existsb f = function
| [] -> false
| a :: l0 -> (||) (f a) (existsb f l0)

(** val forallb : ('a1 -> bool) -> 'a1 list -> bool **)

let rec forallb f = function
| [] -> true
| a :: l0 -> (&&) (f a) (forallb f l0)

(** val filter : ('a1 -> bool) -> 'a1 list -> 'a1 list **)

let rec filter f = function
| [] -> []
| x :: l0 -> if f x then x :: (filter f l0) else filter f l0

(** val find : ('a1 -> bool) -> 'a1 list -> 'a1 option **)

let rec find f = function
| [] -> None
| x :: tl0 -> if f x then Some x else find f tl0

(** val firstn : nat -> 'a1 list -> 'a1 list **)

let rec firstn n0 l =
  match n0 with
  | O -> []
  | S n1 -> (match l with
             | [] -> []
             | a :: l0 -> a :: (firstn n1 l0))

(** val skipn : nat -> 'a1 list -> 'a1 list **)

let rec skipn n0 l =
  match n0 with
  | O -> l
  | S n1 -> (match l with
             | [] -> []
             | _ :: l0 -> skipn n1 l0)

(** val repeat : 'a1 -> nat -> 'a1 list **)

let rec repeat x = function
| O -> []
| S k -> x :: (repeat x k)

(** val append : positive -> positive -> positive **)

let rec append i j =
  match i with
  | XI ii -> XI (append ii j)
  | XO ii -> XO (append ii j)
  | XH -> j

module PositiveMap =
 struct
  type key = positive

  type 'a tree =
  | Leaf
  | Node of 'a tree * 'a option * 'a tree

  type 'a t = 'a tree

  (** val empty : 'a1 t **)

  let empty =
    Leaf

  (** val find : key -> 'a1 t -> 'a1 option **)

  let rec find i = function
  | Leaf -> None
  | Node (l, o, r) ->
    (match i with
     | XI ii -> find ii r
     | XO ii -> find ii l
     | XH -> o)

  (** val add : key -> 'a1 -> 'a1 t -> 'a1 t **)

  let rec add i v = function
  | Leaf ->
    (match i with
     | XI ii -> Node (Leaf, None, (add ii v Leaf))
     | XO ii -> Node ((add ii v Leaf), None, Leaf)
     | XH -> Node (Leaf, (Some v), Leaf))
  | Node (l, o, r) ->
    (match i with
     | XI ii -> Node (l, o, (add ii v r))
     | XO ii -> Node ((add ii v l), o, r)
     | XH -> Node (l, (Some v), r))

  (** val xelements : 'a1 t -> key -> (key * 'a1) list **)

  let rec xelements m i =
    match m with
    | Leaf -> []
    | Node (l, o, r) ->
      (match o with
       | Some x ->
         app (xelements l (append i (XO XH))) ((i,
           x) :: (xelements r (append i (XI XH))))
       | None ->
         app (xelements l (append i (XO XH))) (xelements r (append i (XI XH))))

  (** val elements : 'a1 t -> (key * 'a1) list **)

  let elements m =
    xelements m XH
 end

type err =
| RNF
| DEXP
| FEXP
| DEXISTS
| FEXISTS
| DNOTEMPTY
| RROOT
| DESTEX
| ENOENT
| ENOTDIR
| ENOSPC
| E2BIG
| EROFS
| EINVAL
| ENAMETOOLONG
| EEXIST
| EPYFAT
| IOERR
| VALERR
| EFUEL
| EIO

type 'a res =
| Ok of 'a
| Err of err

(** val bind : 'a1 res -> ('a1 -> 'a2 res) -> 'a2 res **)

let bind r f =
  match r with
  | Ok a -> f a
  | Err e -> Err e

(** val le : nat -> z -> z list **)

let rec le n0 v =
  match n0 with
  | O -> []
  | S k ->
    (Z.modulo v (Zpos (XO (XO (XO (XO (XO (XO (XO (XO XH)))))))))) :: 
      (le k (Z.div v (Zpos (XO (XO (XO (XO (XO (XO (XO (XO XH)))))))))))

(** val un_le : z list -> z **)

let rec un_le = function
| [] -> Z0
| b :: r ->
  Z.add b (Z.mul (Zpos (XO (XO (XO (XO (XO (XO (XO (XO XH))))))))) (un_le r))

(** val nthZ : z list -> z -> z **)

let nthZ l i =
  nth (Z.to_nat i) l Z0

(** val lenZ : 'a1 list -> z **)

let lenZ l =
  Z.of_nat (length l)

(** val updn : 'a1 list -> nat -> 'a1 -> 'a1 list **)

let rec updn l i v =
  match l with
  | [] -> []
  | x :: r -> (match i with
               | O -> v :: r
               | S k -> x :: (updn r k v))

(** val updZ : 'a1 list -> z -> 'a1 -> 'a1 list **)

let updZ l i v =
  updn l (Z.to_nat i) v

(** val slice : 'a1 list -> z -> z -> 'a1 list **)

let slice l a b =
  firstn (Z.to_nat (Z.sub b a)) (skipn (Z.to_nat a) l)

(** val zeros : z -> z list **)

let zeros n0 =
  repeat Z0 (Z.to_nat n0)

type hdr = { bS_jmpBoot : z list; bS_OEMName : z list; bPB_BytsPerSec : 
             z; bPB_SecPerClus : z; bPB_RsvdSecCnt : z; bPB_NumFATs : 
             z; bPB_RootEntCnt : z; bPB_TotSec16 : z; bPB_Media : z;
             bPB_FATSz16 : z; bPB_SecPerTrk : z; bPB_NumHeads : z;
             bPB_HiddSec : z; bPB_TotSec32 : z; bPB_FATSz32 : z;
             bPB_ExtFlags : z; bPB_FSVer : z; bPB_RootClus : z;
             bPB_FSInfo : z; bPB_BkBootSec : z; bPB_Reserved : z list;
             bS_DrvNum : z; bS_Reserved1 : z; bS_BootSig : z; bS_VolID : 
             z; bS_VolLab : z list; bS_FilSysType : z list; is32hdr : 
             bool }

type pf = { _fat_size : z; root_dir_sector : z; root_dir_sectors : z;
            bytes_per_cluster : z; first_data_sector : z; fat_type : 
            z }

(** val pf_init : pf **)

let pf_init =
  { _fat_size = Z0; root_dir_sector = Z0; root_dir_sectors = Z0;
    bytes_per_cluster = Z0; first_data_sector = Z0; fat_type = Z0 }

(** val set__fat_size : pf -> z -> pf **)

let set__fat_size s v =
  { _fat_size = v; root_dir_sector = s.root_dir_sector; root_dir_sectors =
    s.root_dir_sectors; bytes_per_cluster = s.bytes_per_cluster;
    first_data_sector = s.first_data_sector; fat_type = s.fat_type }

(** val set_root_dir_sector : pf -> z -> pf **)

let set_root_dir_sector s v =
  { _fat_size = s._fat_size; root_dir_sector = v; root_dir_sectors =
    s.root_dir_sectors; bytes_per_cluster = s.bytes_per_cluster;
    first_data_sector = s.first_data_sector; fat_type = s.fat_type }

(** val set_root_dir_sectors : pf -> z -> pf **)

let set_root_dir_sectors s v =
  { _fat_size = s._fat_size; root_dir_sector = s.root_dir_sector;
    root_dir_sectors = v; bytes_per_cluster = s.bytes_per_cluster;
    first_data_sector = s.first_data_sector; fat_type = s.fat_type }

(** val set_bytes_per_cluster : pf -> z -> pf **)

let set_bytes_per_cluster s v =
  { _fat_size = s._fat_size; root_dir_sector = s.root_dir_sector;
    root_dir_sectors = s.root_dir_sectors; bytes_per_cluster = v;
    first_data_sector = s.first_data_sector; fat_type = s.fat_type }

(** val set_first_data_sector : pf -> z -> pf **)

let set_first_data_sector s v =
  { _fat_size = s._fat_size; root_dir_sector = s.root_dir_sector;
    root_dir_sectors = s.root_dir_sectors; bytes_per_cluster =
    s.bytes_per_cluster; first_data_sector = v; fat_type = s.fat_type }

(** val set_fat_type : pf -> z -> pf **)

let set_fat_type s v =
  { _fat_size = s._fat_size; root_dir_sector = s.root_dir_sector;
    root_dir_sectors = s.root_dir_sectors; bytes_per_cluster =
    s.bytes_per_cluster; first_data_sector = s.first_data_sector; fat_type =
    v }

(** val ceil_div : z -> z -> z **)

let ceil_div a b =
  Z.div (Z.sub (Z.add a b) (Zpos XH)) b

(** val in_list : z -> z list -> bool **)

let in_list x l =
  existsb (Z.eqb x) l

(** val is_leap : z -> bool **)

let is_leap y =
  (||)
    ((&&) (Z.eqb (Z.modulo y (Zpos (XO (XO XH)))) Z0)
      (negb (Z.eqb (Z.modulo y (Zpos (XO (XO (XI (XO (XO (XI XH)))))))) Z0)))
    (Z.eqb (Z.modulo y (Zpos (XO (XO (XO (XO (XI (XO (XO (XI XH)))))))))) Z0)

(** val days_in_month : z -> z -> z **)

let days_in_month y m =
  if Z.eqb m (Zpos (XO XH))
  then if is_leap y
       then Zpos (XI (XO (XI (XI XH))))
       else Zpos (XO (XO (XI (XI XH))))
  else if (||)
            ((||)
              ((||) (Z.eqb m (Zpos (XO (XO XH))))
                (Z.eqb m (Zpos (XO (XI XH)))))
              (Z.eqb m (Zpos (XI (XO (XO XH))))))
            (Z.eqb m (Zpos (XI (XI (XO XH)))))
       then Zpos (XO (XI (XI (XI XH))))
       else Zpos (XI (XI (XI (XI XH))))

(** val valid_date : z -> z -> z -> bool **)

let valid_date y m d =
  (&&)
    ((&&)
      ((&&)
        ((&&)
          ((&&) (Z.leb (Zpos XH) y)
            (Z.leb y (Zpos (XI (XI (XI (XI (XO (XO (XO (XO (XI (XI (XI (XO
              (XO XH)))))))))))))))) (Z.leb (Zpos XH) m))
        (Z.leb m (Zpos (XO (XO (XI XH)))))) (Z.leb (Zpos XH) d))
    (Z.leb d (days_in_month y m))

(** val valid_time : z -> z -> z -> bool **)

let valid_time h mi s =
  (&&)
    ((&&)
      ((&&)
        ((&&) ((&&) (Z.leb Z0 h) (Z.ltb h (Zpos (XO (XO (XO (XI XH)))))))
          (Z.leb Z0 mi)) (Z.ltb mi (Zpos (XO (XO (XI (XI (XI XH))))))))
      (Z.leb Z0 s)) (Z.ltb s (Zpos (XO (XO (XI (XI (XI XH)))))))

(** val get_fat_size_count : hdr -> z **)

let get_fat_size_count h =
  if negb (Z.eqb h.bPB_FATSz16 Z0) then h.bPB_FATSz16 else h.bPB_FATSz32

(** val first_row : z -> (z * z) list -> z -> z **)

let first_row n0 rows dflt =
  match find (fun p -> Z.leb n0 (fst p)) rows with
  | Some p -> snd p
  | None -> dflt

module Gen =
 struct
  (** val serialize_date : z -> z -> z -> z **)

  let serialize_date year month day =
    Z.coq_lor
      (Z.coq_lor
        (Z.shiftl
          (Z.sub year (Zpos (XO (XO (XI (XI (XI (XI (XO (XI (XI (XI
            XH)))))))))))) (Zpos (XI (XO (XO XH)))))
        (Z.shiftl month (Zpos (XI (XO XH))))) day

  (** val serialize_time : z -> z -> z -> z **)

  let serialize_time hour minute second =
    let time_ =
      Z.coq_lor (Z.shiftl hour (Zpos (XI (XI (XO XH)))))
        (Z.shiftl minute (Zpos (XI (XO XH))))
    in
    Z.coq_lor time_
      (Z.div (Z.sub second (Z.modulo second (Zpos (XO XH)))) (Zpos (XO XH)))

  (** val deserialize_date : z -> (z * z) * z **)

  let deserialize_date dt =
    let day =
      Z.coq_land dt (Z.sub (Z.shiftl (Zpos XH) (Zpos (XI (XO XH)))) (Zpos XH))
    in
    let month =
      Z.coq_land (Z.shiftr dt (Zpos (XI (XO XH))))
        (Z.sub (Z.shiftl (Zpos XH) (Zpos (XO (XO XH)))) (Zpos XH))
    in
    let year =
      Z.add
        (Z.coq_land (Z.shiftr dt (Zpos (XI (XO (XO XH)))))
          (Z.sub (Z.shiftl (Zpos XH) (Zpos (XI (XI XH)))) (Zpos XH))) (Zpos
        (XO (XO (XI (XI (XI (XI (XO (XI (XI (XI XH)))))))))))
    in
    if valid_date year month day
    then ((year, month), day)
    else (((Zpos (XO (XO (XI (XI (XI (XI (XO (XI (XI (XI XH))))))))))), (Zpos
           XH)), (Zpos XH))

  (** val deserialize_time : z -> (z * z) * z **)

  let deserialize_time tm =
    let second =
      Z.mul
        (Z.coq_land tm
          (Z.sub (Z.shiftl (Zpos XH) (Zpos (XI (XO XH)))) (Zpos XH))) (Zpos
        (XO XH))
    in
    let minute =
      Z.coq_land (Z.shiftr tm (Zpos (XI (XO XH))))
        (Z.sub (Z.shiftl (Zpos XH) (Zpos (XO (XI XH)))) (Zpos XH))
    in
    let hour =
      Z.coq_land (Z.shiftr tm (Zpos (XI (XI (XO XH)))))
        (Z.sub (Z.shiftl (Zpos XH) (Zpos (XI (XO XH)))) (Zpos XH))
    in
    if valid_time hour minute second
    then ((hour, minute), second)
    else ((Z0, Z0), Z0)

  (** val checksum : z list -> z **)

  let checksum name =
    let chksum = Z0 in
    fold_left (fun chksum0 c ->
      let chksum1 =
        Z.add
          (Z.coq_lor (Z.shiftr chksum0 (Zpos XH))
            (Z.shiftl (Z.coq_land chksum0 (Zpos XH)) (Zpos (XI (XI XH))))) c
      in
      Z.coq_land chksum1 (Zpos (XI (XI (XI (XI (XI (XI (XI XH))))))))) name
      chksum

  (** val coq_INVALID_CHARACTERS : z list **)

  let coq_INVALID_CHARACTERS =
    (Zpos (XO (XI (XO (XO (XO XH)))))) :: ((Zpos (XO (XI (XO (XI (XO
      XH)))))) :: ((Zpos (XI (XI (XO (XI (XO XH)))))) :: ((Zpos (XO (XO (XI
      (XI (XO XH)))))) :: ((Zpos (XO (XI (XI (XI (XO XH)))))) :: ((Zpos (XI
      (XI (XI (XI (XO XH)))))) :: ((Zpos (XO (XI (XO (XI (XI
      XH)))))) :: ((Zpos (XI (XI (XO (XI (XI XH)))))) :: ((Zpos (XO (XO (XI
      (XI (XI XH)))))) :: ((Zpos (XI (XO (XI (XI (XI XH)))))) :: ((Zpos (XO
      (XI (XI (XI (XI XH)))))) :: ((Zpos (XI (XI (XI (XI (XI
      XH)))))) :: ((Zpos (XI (XI (XO (XI (XI (XO XH))))))) :: ((Zpos (XO (XO
      (XI (XI (XI (XO XH))))))) :: ((Zpos (XI (XO (XI (XI (XI (XO
      XH))))))) :: ((Zpos (XO (XO (XI (XI (XI (XI
      XH))))))) :: [])))))))))))))))

  (** val coq_FREE_DIR_ENTRY_MARK : z **)

  let coq_FREE_DIR_ENTRY_MARK =
    Zpos (XI (XO (XI (XO (XO (XI (XI XH)))))))

  (** val coq_LAST_DIR_ENTRY_MARK : z **)

  let coq_LAST_DIR_ENTRY_MARK =
    Z0

  (** val coq_ATTR_READ_ONLY : z **)

  let coq_ATTR_READ_ONLY =
    Zpos XH

  (** val coq_ATTR_VOLUME_ID : z **)

  let coq_ATTR_VOLUME_ID =
    Zpos (XO (XO (XO XH)))

  (** val coq_ATTR_DIRECTORY : z **)

  let coq_ATTR_DIRECTORY =
    Zpos (XO (XO (XO (XO XH))))

  (** val coq_ATTR_LONG_NAME : z **)

  let coq_ATTR_LONG_NAME =
    Zpos (XI (XI (XI XH)))

  (** val coq_ATTR_LONG_NAME_MASK : z **)

  let coq_ATTR_LONG_NAME_MASK =
    Zpos (XI (XI (XI (XI (XI XH)))))

  (** val coq_MAX_FILE_SIZE : z **)

  let coq_MAX_FILE_SIZE =
    Zpos (XI (XI (XI (XI (XI (XI (XI (XI (XI (XI (XI (XI (XI (XI (XI (XI (XI
      (XI (XI (XI (XI (XI (XI (XI (XI (XI (XI (XI (XI (XI (XI
      XH)))))))))))))))))))))))))))))))

  (** val coq_FAT_DIRECTORY_LAYOUT_size : z **)

  let coq_FAT_DIRECTORY_LAYOUT_size =
    Zpos (XO (XO (XO (XO (XO XH)))))

  (** val get_cluster : z -> z -> z **)

  let get_cluster fstcluslo fstclushi =
    Z.add fstcluslo (Z.shiftl fstclushi (Zpos (XO (XO (XO (XO XH))))))

  (** val set_cluster : z -> z * z **)

  let set_cluster first_cluster =
    ((Z.coq_land
       (Z.shiftr first_cluster (Z.mul (Zpos (XO (XO (XO (XO XH))))) Z0))
       (Zpos (XI (XI (XI (XI (XI (XI (XI (XI (XI (XI (XI (XI (XI (XI (XI
       XH))))))))))))))))),
      (Z.coq_land
        (Z.shiftr first_cluster
          (Z.mul (Zpos (XO (XO (XO (XO XH))))) (Zpos XH))) (Zpos (XI (XI (XI
        (XI (XI (XI (XI (XI (XI (XI (XI (XI (XI (XI (XI XH))))))))))))))))))

  (** val coq_LAST_LONG_ENTRY : z **)

  let coq_LAST_LONG_ENTRY =
    Zpos (XO (XO (XO (XO (XO (XO XH))))))

  (** val is_lfn_entry : z -> z -> bool **)

  let is_lfn_entry lDIR_Ord lDIR_Attr =
    let is_attr_set =
      Z.eqb (Z.coq_land lDIR_Attr coq_ATTR_LONG_NAME_MASK) coq_ATTR_LONG_NAME
    in
    (&&) is_attr_set (negb (Z.eqb lDIR_Ord coq_FREE_DIR_ENTRY_MARK))

  (** val coq_BPB12_LAYOUT : (z * z) list **)

  let coq_BPB12_LAYOUT =
    ((Zpos (XI XH)), (Zpos XH)) :: (((Zpos (XO (XO (XO XH)))), (Zpos
      XH)) :: (((Zpos (XO XH)), Z0) :: (((Zpos XH), Z0) :: (((Zpos (XO XH)),
      Z0) :: (((Zpos XH), Z0) :: (((Zpos (XO XH)), Z0) :: (((Zpos (XO XH)),
      Z0) :: (((Zpos XH), Z0) :: (((Zpos (XO XH)), Z0) :: (((Zpos (XO XH)),
      Z0) :: (((Zpos (XO XH)), Z0) :: (((Zpos (XO (XO XH))), Z0) :: (((Zpos
      (XO (XO XH))), Z0) :: (((Zpos XH), Z0) :: (((Zpos XH), Z0) :: (((Zpos
      XH), Z0) :: (((Zpos (XO (XO XH))), Z0) :: (((Zpos (XI (XI (XO XH)))),
      (Zpos XH)) :: (((Zpos (XO (XO (XO XH)))), (Zpos
      XH)) :: [])))))))))))))))))))

  (** val coq_BPB32_LAYOUT : (z * z) list **)

  let coq_BPB32_LAYOUT =
    ((Zpos (XI XH)), (Zpos XH)) :: (((Zpos (XO (XO (XO XH)))), (Zpos
      XH)) :: (((Zpos (XO XH)), Z0) :: (((Zpos XH), Z0) :: (((Zpos (XO XH)),
      Z0) :: (((Zpos XH), Z0) :: (((Zpos (XO XH)), Z0) :: (((Zpos (XO XH)),
      Z0) :: (((Zpos XH), Z0) :: (((Zpos (XO XH)), Z0) :: (((Zpos (XO XH)),
      Z0) :: (((Zpos (XO XH)), Z0) :: (((Zpos (XO (XO XH))), Z0) :: (((Zpos
      (XO (XO XH))), Z0) :: (((Zpos (XO (XO XH))), Z0) :: (((Zpos (XO XH)),
      Z0) :: (((Zpos (XO XH)), Z0) :: (((Zpos (XO (XO XH))), Z0) :: (((Zpos
      (XO XH)), Z0) :: (((Zpos (XO XH)), Z0) :: (((Zpos (XO (XO (XI XH)))),
      (Zpos XH)) :: (((Zpos XH), Z0) :: (((Zpos XH), Z0) :: (((Zpos XH),
      Z0) :: (((Zpos (XO (XO XH))), Z0) :: (((Zpos (XI (XI (XO XH)))), (Zpos
      XH)) :: (((Zpos (XO (XO (XO XH)))), (Zpos
      XH)) :: []))))))))))))))))))))))))))

  (** val coq_FSINFO_LAYOUT : (z * z) list **)

  let coq_FSINFO_LAYOUT =
    ((Zpos (XO (XO XH))), Z0) :: (((Zpos (XO (XO (XO (XO (XO (XI (XI (XI
      XH))))))))), (Zpos (XO XH))) :: (((Zpos (XO (XO XH))), Z0) :: (((Zpos
      (XO (XO XH))), Z0) :: (((Zpos (XO (XO XH))), Z0) :: (((Zpos (XO (XO (XI
      XH)))), (Zpos (XO XH))) :: (((Zpos (XO (XO XH))), Z0) :: []))))))

  (** val coq_FAT_TYPE_FAT12 : z **)

  let coq_FAT_TYPE_FAT12 =
    Zpos (XO (XO (XI XH)))

  (** val coq_FAT_TYPE_FAT16 : z **)

  let coq_FAT_TYPE_FAT16 =
    Zpos (XO (XO (XO (XO XH))))

  (** val coq_FAT_TYPE_FAT32 : z **)

  let coq_FAT_TYPE_FAT32 =
    Zpos (XO (XO (XO (XO (XO XH)))))

  (** val coq_FAT12_SPECIAL_EOC : z **)

  let coq_FAT12_SPECIAL_EOC =
    Zpos (XO (XO (XO (XO (XI (XI (XI (XI (XI (XI (XI XH)))))))))))

  (** val coq_FAT16_CLEAN_SHUTDOWN_BIT_MASK : z **)

  let coq_FAT16_CLEAN_SHUTDOWN_BIT_MASK =
    Zpos (XO (XO (XO (XO (XO (XO (XO (XO (XO (XO (XO (XO (XO (XO (XO
      XH)))))))))))))))

  (** val coq_FAT32_CLEAN_SHUTDOWN_BIT_MASK : z **)

  let coq_FAT32_CLEAN_SHUTDOWN_BIT_MASK =
    Zpos (XO (XO (XO (XO (XO (XO (XO (XO (XO (XO (XO (XO (XO (XO (XO (XO (XO
      (XO (XO (XO (XO (XO (XO (XO (XO (XO (XO XH)))))))))))))))))))))))))))

  (** val coq_FAT_DIRTY_BIT_MASK : z **)

  let coq_FAT_DIRTY_BIT_MASK =
    Zpos XH

  (** val coq_FREE_CLUSTER : z -> z **)

  let coq_FREE_CLUSTER _ =
    Z0

  (** val coq_MIN_DATA_CLUSTER : z -> z **)

  let coq_MIN_DATA_CLUSTER ft0 =
    if Z.eqb ft0 (Zpos (XO (XO (XI XH))))
    then Zpos (XO XH)
    else if Z.eqb ft0 (Zpos (XO (XO (XO (XO XH)))))
         then Zpos (XO XH)
         else if Z.eqb ft0 (Zpos (XO (XO (XO (XO (XO XH))))))
              then Zpos (XO XH)
              else Z0

  (** val coq_MAX_DATA_CLUSTER : z -> z **)

  let coq_MAX_DATA_CLUSTER ft0 =
    if Z.eqb ft0 (Zpos (XO (XO (XI XH))))
    then Zpos (XI (XI (XI (XI (XO (XI (XI (XI (XI (XI (XI XH)))))))))))
    else if Z.eqb ft0 (Zpos (XO (XO (XO (XO XH)))))
         then Zpos (XI (XI (XI (XI (XO (XI (XI (XI (XI (XI (XI (XI (XI (XI
                (XI XH)))))))))))))))
         else if Z.eqb ft0 (Zpos (XO (XO (XO (XO (XO XH))))))
              then Zpos (XI (XI (XI (XI (XO (XI (XI (XI (XI (XI (XI (XI (XI
                     (XI (XI (XI (XI (XI (XI (XI (XI (XI (XI (XI (XI (XI (XI
                     XH)))))))))))))))))))))))))))
              else Z0

  (** val coq_END_OF_CLUSTER_MIN : z -> z **)

  let coq_END_OF_CLUSTER_MIN ft0 =
    if Z.eqb ft0 (Zpos (XO (XO (XI XH))))
    then Zpos (XO (XO (XO (XI (XI (XI (XI (XI (XI (XI (XI XH)))))))))))
    else if Z.eqb ft0 (Zpos (XO (XO (XO (XO XH)))))
         then Zpos (XO (XO (XO (XI (XI (XI (XI (XI (XI (XI (XI (XI (XI (XI
                (XI XH)))))))))))))))
         else if Z.eqb ft0 (Zpos (XO (XO (XO (XO (XO XH))))))
              then Zpos (XO (XO (XO (XI (XI (XI (XI (XI (XI (XI (XI (XI (XI
                     (XI (XI (XI (XI (XI (XI (XI (XI (XI (XI (XI (XI (XI (XI
                     XH)))))))))))))))))))))))))))
              else Z0

  (** val coq_END_OF_CLUSTER_MAX : z -> z **)

  let coq_END_OF_CLUSTER_MAX ft0 =
    if Z.eqb ft0 (Zpos (XO (XO (XI XH))))
    then Zpos (XI (XI (XI (XI (XI (XI (XI (XI (XI (XI (XI XH)))))))))))
    else if Z.eqb ft0 (Zpos (XO (XO (XO (XO XH)))))
         then Zpos (XI (XI (XI (XI (XI (XI (XI (XI (XI (XI (XI (XI (XI (XI
                (XI XH)))))))))))))))
         else if Z.eqb ft0 (Zpos (XO (XO (XO (XO (XO XH))))))
              then Zpos (XI (XI (XI (XI (XI (XI (XI (XI (XI (XI (XI (XI (XI
                     (XI (XI (XI (XI (XI (XI (XI (XI (XI (XI (XI (XI (XI (XI
                     XH)))))))))))))))))))))))))))
              else Z0

  (** val get_total_sectors : hdr -> z **)

  let get_total_sectors h =
    if negb (Z.eqb h.bPB_TotSec16 Z0) then h.bPB_TotSec16 else h.bPB_TotSec32

  (** val determine_fat_type : pf -> hdr -> z **)

  let determine_fat_type s h =
    let total_sectors0 = get_total_sectors h in
    let rsvd_sectors = h.bPB_RsvdSecCnt in
    let fat_sz = Z.mul h.bPB_NumFATs s._fat_size in
    let root_dir_sectors0 = s.root_dir_sectors in
    let data_sec =
      Z.sub total_sectors0
        (Z.add (Z.add rsvd_sectors fat_sz) root_dir_sectors0)
    in
    let count_of_clusters0 = Z.div data_sec h.bPB_SecPerClus in
    let msft_fat_type =
      if Z.ltb count_of_clusters0 (Zpos (XI (XO (XI (XO (XI (XI (XI (XI (XI
           (XI (XI XH))))))))))))
      then coq_FAT_TYPE_FAT12
      else if Z.ltb count_of_clusters0 (Zpos (XI (XO (XI (XO (XI (XI (XI (XI
                (XI (XI (XI (XI (XI (XI (XI XH))))))))))))))))
           then coq_FAT_TYPE_FAT16
           else coq_FAT_TYPE_FAT32
    in
    if Z.eqb h.bPB_FATSz16 Z0
    then if negb (Z.eqb h.bPB_FATSz32 Z0)
         then coq_FAT_TYPE_FAT32
         else msft_fat_type
    else if Z.geb count_of_clusters0 (Zpos (XI (XO (XI (XO (XI (XI (XI (XI
              (XI (XI (XI XH))))))))))))
         then coq_FAT_TYPE_FAT16
         else coq_FAT_TYPE_FAT12

  (** val get_data_cluster_address : pf -> hdr -> z -> z **)

  let get_data_cluster_address s h cluster =
    let sector =
      Z.add (Z.mul (Z.sub cluster (Zpos (XO XH))) h.bPB_SecPerClus)
        s.first_data_sector
    in
    Z.mul sector h.bPB_BytsPerSec

  (** val calc_num_clusters : pf -> z -> z **)

  let calc_num_clusters s size =
    ceil_div size s.bytes_per_cluster

  (** val verify_bpb_header : hdr -> unit res **)

  let verify_bpb_header h =
    bind
      (if Z.eqb (nthZ h.bS_jmpBoot Z0) (Zpos (XI (XI (XO (XI (XO (XI (XI
            XH))))))))
       then if negb
                 (Z.eqb (nthZ h.bS_jmpBoot (Zpos (XO XH))) (Zpos (XO (XO (XO
                   (XO (XI (XO (XO XH)))))))))
            then Err EPYFAT
            else Ok ()
       else if Z.eqb (nthZ h.bS_jmpBoot Z0) (Zpos (XI (XO (XO (XI (XO (XI (XI
                 XH))))))))
            then Ok ()
            else Err EPYFAT) (fun _ ->
      let byts_per_sec_range = (Zpos (XO (XO (XO (XO (XO (XO (XO (XO (XO
        XH)))))))))) :: ((Zpos (XO (XO (XO (XO (XO (XO (XO (XO (XO (XO
        XH))))))))))) :: ((Zpos (XO (XO (XO (XO (XO (XO (XO (XO (XO (XO (XO
        XH)))))))))))) :: ((Zpos (XO (XO (XO (XO (XO (XO (XO (XO (XO (XO (XO
        (XO XH))))))))))))) :: [])))
      in
      if negb (in_list h.bPB_BytsPerSec byts_per_sec_range)
      then Err EPYFAT
      else let sec_per_clus_range = (Zpos XH) :: ((Zpos (XO XH)) :: ((Zpos
             (XO (XO XH))) :: ((Zpos (XO (XO (XO XH)))) :: ((Zpos (XO (XO (XO
             (XO XH))))) :: ((Zpos (XO (XO (XO (XO (XO XH)))))) :: ((Zpos (XO
             (XO (XO (XO (XO (XO XH))))))) :: ((Zpos (XO (XO (XO (XO (XO (XO
             (XO XH)))))))) :: [])))))))
           in
           if negb (in_list h.bPB_SecPerClus sec_per_clus_range)
           then Err EPYFAT
           else if Z.eqb h.bPB_RsvdSecCnt Z0
                then Err EPYFAT
                else if negb
                          (in_list h.bPB_Media ((Zpos (XO (XO (XO (XO (XI (XI
                            (XI XH)))))))) :: ((Zpos (XO (XO (XO (XI (XI (XI
                            (XI XH)))))))) :: ((Zpos (XI (XO (XO (XI (XI (XI
                            (XI XH)))))))) :: ((Zpos (XO (XI (XO (XI (XI (XI
                            (XI XH)))))))) :: ((Zpos (XI (XI (XO (XI (XI (XI
                            (XI XH)))))))) :: ((Zpos (XO (XO (XI (XI (XI (XI
                            (XI XH)))))))) :: ((Zpos (XI (XO (XI (XI (XI (XI
                            (XI XH)))))))) :: ((Zpos (XO (XI (XI (XI (XI (XI
                            (XI XH)))))))) :: ((Zpos (XI (XI (XI (XI (XI (XI
                            (XI XH)))))))) :: []))))))))))
                     then Err EPYFAT
                     else if Z.ltb h.bPB_NumFATs (Zpos XH)
                          then Err EPYFAT
                          else let root_entry_count =
                                 Z.mul h.bPB_RootEntCnt (Zpos (XO (XO (XO (XO
                                   (XO XH))))))
                               in
                               let root_entry_count0 =
                                 Z.modulo root_entry_count h.bPB_BytsPerSec
                               in
                               if (&&) (negb (Z.eqb h.bPB_RootEntCnt Z0))
                                    (negb (Z.eqb root_entry_count0 Z0))
                               then Err EPYFAT
                               else if (&&) (Z.eqb h.bPB_TotSec16 Z0)
                                         (Z.eqb h.bPB_TotSec32 Z0)
                                    then Err EPYFAT
                                    else Ok ())

  (** val parse_header_geometry : pf -> hdr -> pf **)

  let parse_header_geometry s h =
    let s0 = set__fat_size s (get_fat_size_count h) in
    let root_entries = h.bPB_RootEntCnt in
    let bytes_per_sec = h.bPB_BytsPerSec in
    let rsvd_secs = h.bPB_RsvdSecCnt in
    let num_fats = h.bPB_NumFATs in
    let s1 =
      set_root_dir_sectors s0
        (Z.div
          (Z.add (Z.mul root_entries coq_FAT_DIRECTORY_LAYOUT_size)
            (Z.sub bytes_per_sec (Zpos XH))) bytes_per_sec)
    in
    let s2 =
      set_root_dir_sector s1 (Z.add rsvd_secs (Z.mul s1._fat_size num_fats))
    in
    let s3 =
      set_first_data_sector s2
        (Z.add (Z.add rsvd_secs (Z.mul num_fats s2._fat_size))
          s2.root_dir_sectors)
    in
    set_fat_type s3 (determine_fat_type s3 h)

  (** val mkfs_table : z -> (z * z) list **)

  let mkfs_table ft0 =
    if Z.eqb ft0 coq_FAT_TYPE_FAT32
    then ((Zpos (XO (XO (XO (XI (XO (XI (XO (XO (XO (XO (XI (XO (XO (XO (XO
           (XO XH))))))))))))))))), Z0) :: (((Zpos (XO (XO (XO (XO (XO (XO
           (XO (XO (XO (XO (XO (XO (XO (XI (XO (XO (XO (XO (XO
           XH)))))))))))))))))))), (Zpos XH)) :: (((Zpos (XO (XO (XO (XO (XO
           (XO (XO (XO (XO (XO (XO (XO (XO (XO (XO (XO (XO (XO (XO (XO (XO
           (XO (XO (XO XH))))))))))))))))))))))))), (Zpos (XO (XO (XO
           XH))))) :: (((Zpos (XO (XO (XO (XO (XO (XO (XO (XO (XO (XO (XO (XO
           (XO (XO (XO (XO (XO (XO (XO (XO (XO (XO (XO (XO (XO
           XH)))))))))))))))))))))))))), (Zpos (XO (XO (XO (XO
           XH)))))) :: (((Zpos (XO (XO (XO (XO (XO (XO (XO (XO (XO (XO (XO
           (XO (XO (XO (XO (XO (XO (XO (XO (XO (XO (XO (XO (XO (XO (XO
           XH))))))))))))))))))))))))))), (Zpos (XO (XO (XO (XO (XO
           XH))))))) :: []))))
    else if Z.eqb ft0 coq_FAT_TYPE_FAT16
         then ((Zpos (XO (XO (XO (XO (XI (XO (XI (XI (XO (XO (XO (XO (XO
                XH)))))))))))))), Z0) :: (((Zpos (XO (XO (XO (XI (XO (XI (XO
                (XI (XI (XI (XI (XI (XI (XI XH))))))))))))))), (Zpos (XO
                XH))) :: (((Zpos (XO (XO (XO (XO (XO (XO (XO (XO (XO (XO (XO
                (XO (XO (XO (XO (XO (XO (XO XH))))))))))))))))))), (Zpos (XO
                (XO XH)))) :: (((Zpos (XO (XO (XO (XO (XO (XO (XO (XO (XO (XO
                (XO (XO (XO (XO (XO (XO (XO (XO (XO XH)))))))))))))))))))),
                (Zpos (XO (XO (XO XH))))) :: (((Zpos (XO (XO (XO (XO (XO (XO
                (XO (XO (XO (XO (XO (XO (XO (XO (XO (XO (XO (XO (XO (XO
                XH))))))))))))))))))))), (Zpos (XO (XO (XO (XO
                XH)))))) :: (((Zpos (XO (XO (XO (XO (XO (XO (XO (XO (XO (XO
                (XO (XO (XO (XO (XO (XO (XO (XO (XO (XO (XO
                XH)))))))))))))))))))))), (Zpos (XO (XO (XO (XO (XO
                XH))))))) :: (((Zpos (XO (XO (XO (XO (XO (XO (XO (XO (XO (XO
                (XO (XO (XO (XO (XO (XO (XO (XO (XO (XO (XO (XO
                XH))))))))))))))))))))))), (Zpos (XO (XO (XO (XO (XO (XO
                XH)))))))) :: []))))))
         else if Z.eqb ft0 coq_FAT_TYPE_FAT12
              then ((Zpos (XO (XO (XI (XO (XI (XI (XI (XI (XI (XI (XI
                     XH)))))))))))), (Zpos XH)) :: (((Zpos (XO (XO (XO (XI
                     (XO (XI (XI (XI (XI (XI (XI (XI XH))))))))))))), (Zpos
                     (XO XH))) :: (((Zpos (XO (XO (XO (XO (XI (XO (XI (XI (XI
                     (XI (XI (XI (XI XH)))))))))))))), (Zpos (XO (XO
                     XH)))) :: (((Zpos (XO (XO (XO (XO (XO (XI (XO (XI (XI
                     (XI (XI (XI (XI (XI XH))))))))))))))), (Zpos (XO (XO (XO
                     XH))))) :: (((Zpos (XO (XO (XO (XO (XO (XO (XI (XO (XI
                     (XI (XI (XI (XI (XI (XI XH)))))))))))))))), (Zpos (XO
                     (XO (XO (XO XH)))))) :: (((Zpos (XO (XO (XO (XO (XO (XO
                     (XO (XI (XO (XI (XI (XI (XI (XI (XI (XI
                     XH))))))))))))))))), (Zpos (XO (XO (XO (XO (XO
                     XH))))))) :: (((Zpos (XO (XO (XO (XO (XO (XO (XO (XO (XI
                     (XO (XI (XI (XI (XI (XI (XI (XI XH)))))))))))))))))),
                     (Zpos (XO (XO (XO (XO (XO (XO XH)))))))) :: (((Zpos (XO
                     (XO (XO (XO (XO (XO (XO (XO (XO (XI (XO (XI (XI (XI (XI
                     (XI (XI (XI XH))))))))))))))))))), (Zpos (XO (XO (XO (XO
                     (XO (XO (XO XH))))))))) :: [])))))))
              else []

  (** val mkfs_geometry :
      pf -> z -> z -> z -> z ->
      (((((((pf * z) * z) * z) * z) * z) * z) * z) * z **)

  let mkfs_geometry s fat_type0 size sector_size number_of_fats =
    let num_sec = ceil_div size sector_size in
    let sec_per_clus = Z0 in
    let sec_per_clus0 = first_row num_sec (mkfs_table fat_type0) sec_per_clus
    in
    let root_ent_cnt =
      if Z.eqb fat_type0 coq_FAT_TYPE_FAT32
      then Z0
      else if Z.eqb fat_type0 coq_FAT_TYPE_FAT16
           then Zpos (XO (XO (XO (XO (XO (XO (XO (XO (XO XH)))))))))
           else if Z.eqb sector_size (Zpos (XO (XO (XO (XO (XO (XO (XO (XO
                     (XO XH))))))))))
                then Zpos (XO (XO (XO (XO (XO (XI (XI XH)))))))
                else Zpos (XO (XO (XO (XO (XO (XO (XO (XO (XO XH)))))))))
    in
    let rsvd_sec_cnt =
      if Z.eqb fat_type0 coq_FAT_TYPE_FAT32
      then Zpos (XO (XO (XO (XO (XO XH)))))
      else Zpos XH
    in
    let s0 =
      set_root_dir_sectors s
        (Z.div
          (Z.add (Z.mul root_ent_cnt (Zpos (XO (XO (XO (XO (XO XH)))))))
            (Z.sub sector_size (Zpos XH))) sector_size)
    in
    let tmp_val1 = Z.sub size (Z.add rsvd_sec_cnt s0.root_dir_sectors) in
    let tmp_val2 =
      Z.add
        (Z.mul (Zpos (XO (XO (XO (XO (XO (XO (XO (XO XH)))))))))
          sec_per_clus0) number_of_fats
    in
    let tmp_val3 =
      if Z.eqb fat_type0 coq_FAT_TYPE_FAT32
      then Z.div tmp_val2 (Zpos (XO XH))
      else tmp_val2
    in
    let s1 =
      set__fat_size s0
        (ceil_div
          (Z.div (Z.sub (Z.add tmp_val1 tmp_val3) (Zpos XH)) tmp_val3)
          sector_size)
    in
    let fat_size_32 = Z0 in
    let (fat_size_16, fat_size_33) =
      if Z.eqb fat_type0 coq_FAT_TYPE_FAT32
      then let fat_size_16 = Z0 in
           let fat_size_33 = s1._fat_size in (fat_size_16, fat_size_33)
      else let fat_size_16 =
             Z.modulo s1._fat_size (Zpos (XO (XO (XO (XO (XO (XO (XO (XO (XO
               (XO (XO (XO (XO (XO (XO (XO XH)))))))))))))))))
           in
           (fat_size_16, fat_size_32)
    in
    let (total_sectors_16, total_sectors_32) =
      if (||) (Z.eqb fat_type0 coq_FAT_TYPE_FAT32)
           (Z.geb num_sec (Zpos (XO (XO (XO (XO (XO (XO (XO (XO (XO (XO (XO
             (XO (XO (XO (XO (XO XH))))))))))))))))))
      then let total_sectors_16 = Z0 in (total_sectors_16, num_sec)
      else let total_sectors_32 = Z0 in (num_sec, total_sectors_32)
    in
    ((((((((s1, num_sec), sec_per_clus0), root_ent_cnt), rsvd_sec_cnt),
    fat_size_16), fat_size_33), total_sectors_16), total_sectors_32)

  (** val mkfs_fat0 : hdr -> z -> z **)

  let mkfs_fat0 h ft0 =
    if Z.eqb ft0 coq_FAT_TYPE_FAT12
    then Z.coq_lor (Zpos (XO (XO (XO (XO (XI (XI (XI (XI (XI (XI (XI
           XH)))))))))))) (Z.modulo h.bPB_Media (Zpos (XI (XI (XI XH)))))
    else if Z.eqb ft0 coq_FAT_TYPE_FAT16
         then Z.coq_lor (Zpos (XO (XO (XO (XO (XI (XI (XI (XI (XI (XI (XI (XI
                (XI (XI (XI XH))))))))))))))))
                (Z.modulo h.bPB_Media (Zpos (XI (XI (XI XH)))))
         else if Z.eqb ft0 coq_FAT_TYPE_FAT32
              then Z.coq_lor (Zpos (XO (XO (XO (XO (XI (XI (XI (XI (XI (XI
                     (XI (XI (XI (XI (XI (XI (XI (XI (XI (XI (XI (XI (XI (XI
                     (XI (XI (XI XH))))))))))))))))))))))))))))
                     (Z.modulo h.bPB_Media (Zpos (XI (XI (XI XH)))))
              else Z0

  (** val mkfs_fat1 : hdr -> z -> z **)

  let mkfs_fat1 _ ft0 =
    if Z.eqb ft0 coq_FAT_TYPE_FAT12
    then coq_FAT12_SPECIAL_EOC
    else if Z.eqb ft0 coq_FAT_TYPE_FAT16
         then Zpos (XI (XI (XI (XI (XI (XI (XI (XI (XI (XI (XI (XI (XI (XI
                (XI XH)))))))))))))))
         else if Z.eqb ft0 coq_FAT_TYPE_FAT32
              then Zpos (XI (XI (XI (XI (XI (XI (XI (XI (XI (XI (XI (XI (XI
                     (XI (XI (XI (XI (XI (XI (XI (XI (XI (XI (XI (XI (XI (XI
                     XH)))))))))))))))))))))))))))
              else Z0

  (** val seek_cursor : z -> z -> z -> (z * z) * z **)

  let seek_cursor offset filesize bpc0 =
    let offset0 = Z.min offset filesize in
    let cindex = Z.div offset0 bpc0 in
    let coffpos = Z.modulo offset0 bpc0 in
    let (coffpos0, cindex0) =
      if (&&) ((&&) (Z.eqb offset0 filesize) (Z.gtb offset0 Z0))
           (Z.eqb coffpos Z0)
      then let cindex0 = Z.sub cindex (Zpos XH) in (bpc0, cindex0)
      else (coffpos, cindex)
    in
    ((offset0, cindex0), coffpos0)
 end

(** val parse12 : z list -> z list **)

let rec parse12 = function
| [] -> []
| b0 :: l ->
  (match l with
   | [] -> []
   | b1 :: l0 ->
     (match l0 with
      | [] ->
        (Z.add b0
          (Z.mul (Z.modulo b1 (Zpos (XO (XO (XO (XO XH)))))) (Zpos (XO (XO
            (XO (XO (XO (XO (XO (XO XH))))))))))) :: []
      | b2 :: r ->
        (Z.add b0
          (Z.mul (Z.modulo b1 (Zpos (XO (XO (XO (XO XH)))))) (Zpos (XO (XO
            (XO (XO (XO (XO (XO (XO XH))))))))))) :: ((Z.add
                                                        (Z.div b1 (Zpos (XO
                                                          (XO (XO (XO XH))))))
                                                        (Z.mul b2 (Zpos (XO
                                                          (XO (XO (XO XH))))))) :: 
          (parse12 r))))

(** val pack12 : z list -> z list **)

let rec pack12 = function
| [] -> []
| a :: l0 ->
  (match l0 with
   | [] ->
     (Z.modulo a (Zpos (XO (XO (XO (XO (XO (XO (XO (XO XH)))))))))) :: (
       (Z.div a (Zpos (XO (XO (XO (XO (XO (XO (XO (XO XH)))))))))) :: [])
   | b :: r ->
     (Z.modulo a (Zpos (XO (XO (XO (XO (XO (XO (XO (XO XH)))))))))) :: (
       (Z.add
         (Z.mul (Z.modulo b (Zpos (XO (XO (XO (XO XH)))))) (Zpos (XO (XO (XO
           (XO XH))))))
         (Z.div a (Zpos (XO (XO (XO (XO (XO (XO (XO (XO XH))))))))))) :: (
       (Z.div b (Zpos (XO (XO (XO (XO XH)))))) :: (pack12 r))))

(** val parse16 : z list -> z list **)

let rec parse16 = function
| [] -> []
| b0 :: l ->
  (match l with
   | [] -> []
   | b1 :: r ->
     (Z.add b0 (Z.mul (Zpos (XO (XO (XO (XO (XO (XO (XO (XO XH))))))))) b1)) :: 
       (parse16 r))

(** val pack16 : z list -> z list **)

let pack16 l =
  flat_map (le (S (S O))) l

(** val parse32w : z list -> z list **)

let rec parse32w = function
| [] -> []
| b0 :: l ->
  (match l with
   | [] -> []
   | b1 :: l0 ->
     (match l0 with
      | [] -> []
      | b2 :: l1 ->
        (match l1 with
         | [] -> []
         | b3 :: r ->
           (Z.add b0
             (Z.mul (Zpos (XO (XO (XO (XO (XO (XO (XO (XO XH)))))))))
               (Z.add b1
                 (Z.mul (Zpos (XO (XO (XO (XO (XO (XO (XO (XO XH)))))))))
                   (Z.add b2
                     (Z.mul (Zpos (XO (XO (XO (XO (XO (XO (XO (XO XH)))))))))
                       b3)))))) :: (parse32w r))))

(** val two28 : z **)

let two28 =
  Zpos (XO (XO (XO (XO (XO (XO (XO (XO (XO (XO (XO (XO (XO (XO (XO (XO (XO
    (XO (XO (XO (XO (XO (XO (XO (XO (XO (XO (XO XH))))))))))))))))))))))))))))

(** val parse32 : z list -> z list **)

let parse32 bs =
  map (fun w -> Z.modulo w two28) (parse32w bs)

(** val parse32hi : z list -> z list **)

let parse32hi bs =
  map (fun w -> Z.mul (Z.div w two28) two28) (parse32w bs)

(** val pack32 : z list -> z list -> z list **)

let rec pack32 l hi =
  match l with
  | [] -> []
  | e :: r ->
    app (le (S (S (S (S O)))) (Z.add e (hd Z0 hi))) (pack32 r (tl hi))

(** val parse_fat : z -> z list -> z list **)

let parse_fat ft0 bs =
  if Z.eqb ft0 (Zpos (XO (XO (XI XH))))
  then parse12 bs
  else if Z.eqb ft0 (Zpos (XO (XO (XO (XO XH)))))
       then parse16 bs
       else parse32 bs

(** val pack_fat : z -> z list -> z list -> z list **)

let pack_fat ft0 l hi =
  if Z.eqb ft0 (Zpos (XO (XO (XI XH))))
  then pack12 l
  else if Z.eqb ft0 (Zpos (XO (XO (XO (XO XH)))))
       then pack16 l
       else pack32 l hi

(** val spec_fat_entry : z -> z list -> z -> z **)

let spec_fat_entry ft0 bs i =
  if Z.eqb ft0 (Zpos (XO (XO (XI XH))))
  then let off = Z.add i (Z.div i (Zpos (XO XH))) in
       let w =
         Z.add (nthZ bs off)
           (Z.mul (Zpos (XO (XO (XO (XO (XO (XO (XO (XO XH)))))))))
             (nthZ bs (Z.add off (Zpos XH))))
       in
       if Z.odd i
       then Z.div w (Zpos (XO (XO (XO (XO XH)))))
       else Z.modulo w (Zpos (XO (XO (XO (XO (XO (XO (XO (XO (XO (XO (XO (XO
              XH)))))))))))))
  else if Z.eqb ft0 (Zpos (XO (XO (XO (XO XH)))))
       then Z.add (nthZ bs (Z.mul (Zpos (XO XH)) i))
              (Z.mul (Zpos (XO (XO (XO (XO (XO (XO (XO (XO XH)))))))))
                (nthZ bs (Z.add (Z.mul (Zpos (XO XH)) i) (Zpos XH))))
       else Z.modulo
              (Z.add (nthZ bs (Z.mul (Zpos (XO (XO XH))) i))
                (Z.mul (Zpos (XO (XO (XO (XO (XO (XO (XO (XO XH)))))))))
                  (Z.add
                    (nthZ bs (Z.add (Z.mul (Zpos (XO (XO XH))) i) (Zpos XH)))
                    (Z.mul (Zpos (XO (XO (XO (XO (XO (XO (XO (XO XH)))))))))
                      (Z.add
                        (nthZ bs
                          (Z.add (Z.mul (Zpos (XO (XO XH))) i) (Zpos (XO XH))))
                        (Z.mul (Zpos (XO (XO (XO (XO (XO (XO (XO (XO
                          XH)))))))))
                          (nthZ bs
                            (Z.add (Z.mul (Zpos (XO (XO XH))) i) (Zpos (XI
                              XH)))))))))) two28

type field =
| FNum of z
| FBytes of z list
| FPad of z list

(** val parse_layout : (z * z) list -> z list -> field list **)

let rec parse_layout lay bs =
  match lay with
  | [] -> []
  | p :: r ->
    let (w, k) = p in
    let n0 = Z.to_nat w in
    let chunk = firstn n0 bs in
    (if Z.eqb k Z0
     then FNum (un_le chunk)
     else if Z.eqb k (Zpos XH) then FBytes chunk else FPad chunk) :: 
    (parse_layout r (skipn n0 bs))

(** val ser_layout : (z * z) list -> field list -> z list **)

let rec ser_layout lay fs =
  match lay with
  | [] -> []
  | p :: r ->
    let (w, _) = p in
    (match fs with
     | [] -> []
     | f :: fr ->
       app
         (match f with
          | FNum v -> le (Z.to_nat w) v
          | FBytes b -> b
          | FPad _ -> zeros w) (ser_layout r fr))

(** val fnum : field -> z **)

let fnum = function
| FNum v -> v
| _ -> Z0

(** val fbytes : field -> z list **)

let fbytes = function
| FNum _ -> []
| FBytes b -> b
| FPad b -> b

(** val fld : field list -> nat -> field **)

let fld fs i =
  nth i fs (FNum Z0)

(** val hdr_of_fields12 : field list -> hdr **)

let hdr_of_fields12 fs =
  { bS_jmpBoot = (fbytes (fld fs O)); bS_OEMName = (fbytes (fld fs (S O)));
    bPB_BytsPerSec = (fnum (fld fs (S (S O)))); bPB_SecPerClus =
    (fnum (fld fs (S (S (S O))))); bPB_RsvdSecCnt =
    (fnum (fld fs (S (S (S (S O)))))); bPB_NumFATs =
    (fnum (fld fs (S (S (S (S (S O))))))); bPB_RootEntCnt =
    (fnum (fld fs (S (S (S (S (S (S O)))))))); bPB_TotSec16 =
    (fnum (fld fs (S (S (S (S (S (S (S O))))))))); bPB_Media =
    (fnum (fld fs (S (S (S (S (S (S (S (S O)))))))))); bPB_FATSz16 =
    (fnum (fld fs (S (S (S (S (S (S (S (S (S O))))))))))); bPB_SecPerTrk =
    (fnum (fld fs (S (S (S (S (S (S (S (S (S (S O)))))))))))); bPB_NumHeads =
    (fnum (fld fs (S (S (S (S (S (S (S (S (S (S (S O)))))))))))));
    bPB_HiddSec =
    (fnum (fld fs (S (S (S (S (S (S (S (S (S (S (S (S O))))))))))))));
    bPB_TotSec32 =
    (fnum (fld fs (S (S (S (S (S (S (S (S (S (S (S (S (S O)))))))))))))));
    bPB_FATSz32 = Z0; bPB_ExtFlags = Z0; bPB_FSVer = Z0; bPB_RootClus = Z0;
    bPB_FSInfo = Z0; bPB_BkBootSec = Z0; bPB_Reserved = []; bS_DrvNum =
    (fnum (fld fs (S (S (S (S (S (S (S (S (S (S (S (S (S (S O))))))))))))))));
    bS_Reserved1 =
    (fnum
      (fld fs (S (S (S (S (S (S (S (S (S (S (S (S (S (S (S O)))))))))))))))));
    bS_BootSig =
    (fnum
      (fld fs (S (S (S (S (S (S (S (S (S (S (S (S (S (S (S (S
        O)))))))))))))))))); bS_VolID =
    (fnum
      (fld fs (S (S (S (S (S (S (S (S (S (S (S (S (S (S (S (S (S
        O))))))))))))))))))); bS_VolLab =
    (fbytes
      (fld fs (S (S (S (S (S (S (S (S (S (S (S (S (S (S (S (S (S (S
        O)))))))))))))))))))); bS_FilSysType =
    (fbytes
      (fld fs (S (S (S (S (S (S (S (S (S (S (S (S (S (S (S (S (S (S (S
        O))))))))))))))))))))); is32hdr = false }

(** val hdr_of_fields32 : field list -> hdr **)

let hdr_of_fields32 fs =
  { bS_jmpBoot = (fbytes (fld fs O)); bS_OEMName = (fbytes (fld fs (S O)));
    bPB_BytsPerSec = (fnum (fld fs (S (S O)))); bPB_SecPerClus =
    (fnum (fld fs (S (S (S O))))); bPB_RsvdSecCnt =
    (fnum (fld fs (S (S (S (S O)))))); bPB_NumFATs =
    (fnum (fld fs (S (S (S (S (S O))))))); bPB_RootEntCnt =
    (fnum (fld fs (S (S (S (S (S (S O)))))))); bPB_TotSec16 =
    (fnum (fld fs (S (S (S (S (S (S (S O))))))))); bPB_Media =
    (fnum (fld fs (S (S (S (S (S (S (S (S O)))))))))); bPB_FATSz16 =
    (fnum (fld fs (S (S (S (S (S (S (S (S (S O))))))))))); bPB_SecPerTrk =
    (fnum (fld fs (S (S (S (S (S (S (S (S (S (S O)))))))))))); bPB_NumHeads =
    (fnum (fld fs (S (S (S (S (S (S (S (S (S (S (S O)))))))))))));
    bPB_HiddSec =
    (fnum (fld fs (S (S (S (S (S (S (S (S (S (S (S (S O))))))))))))));
    bPB_TotSec32 =
    (fnum (fld fs (S (S (S (S (S (S (S (S (S (S (S (S (S O)))))))))))))));
    bPB_FATSz32 =
    (fnum (fld fs (S (S (S (S (S (S (S (S (S (S (S (S (S (S O))))))))))))))));
    bPB_ExtFlags =
    (fnum
      (fld fs (S (S (S (S (S (S (S (S (S (S (S (S (S (S (S O)))))))))))))))));
    bPB_FSVer =
    (fnum
      (fld fs (S (S (S (S (S (S (S (S (S (S (S (S (S (S (S (S
        O)))))))))))))))))); bPB_RootClus =
    (fnum
      (fld fs (S (S (S (S (S (S (S (S (S (S (S (S (S (S (S (S (S
        O))))))))))))))))))); bPB_FSInfo =
    (fnum
      (fld fs (S (S (S (S (S (S (S (S (S (S (S (S (S (S (S (S (S (S
        O)))))))))))))))))))); bPB_BkBootSec =
    (fnum
      (fld fs (S (S (S (S (S (S (S (S (S (S (S (S (S (S (S (S (S (S (S
        O))))))))))))))))))))); bPB_Reserved =
    (fbytes
      (fld fs (S (S (S (S (S (S (S (S (S (S (S (S (S (S (S (S (S (S (S (S
        O)))))))))))))))))))))); bS_DrvNum =
    (fnum
      (fld fs (S (S (S (S (S (S (S (S (S (S (S (S (S (S (S (S (S (S (S (S (S
        O))))))))))))))))))))))); bS_Reserved1 =
    (fnum
      (fld fs (S (S (S (S (S (S (S (S (S (S (S (S (S (S (S (S (S (S (S (S (S
        (S O)))))))))))))))))))))))); bS_BootSig =
    (fnum
      (fld fs (S (S (S (S (S (S (S (S (S (S (S (S (S (S (S (S (S (S (S (S (S
        (S (S O))))))))))))))))))))))))); bS_VolID =
    (fnum
      (fld fs (S (S (S (S (S (S (S (S (S (S (S (S (S (S (S (S (S (S (S (S (S
        (S (S (S O)))))))))))))))))))))))))); bS_VolLab =
    (fbytes
      (fld fs (S (S (S (S (S (S (S (S (S (S (S (S (S (S (S (S (S (S (S (S (S
        (S (S (S (S O))))))))))))))))))))))))))); bS_FilSysType =
    (fbytes
      (fld fs (S (S (S (S (S (S (S (S (S (S (S (S (S (S (S (S (S (S (S (S (S
        (S (S (S (S (S O)))))))))))))))))))))))))))); is32hdr = true }

(** val fields_of_hdr : hdr -> field list **)

let fields_of_hdr h =
  app ((FBytes h.bS_jmpBoot) :: ((FBytes h.bS_OEMName) :: ((FNum
    h.bPB_BytsPerSec) :: ((FNum h.bPB_SecPerClus) :: ((FNum
    h.bPB_RsvdSecCnt) :: ((FNum h.bPB_NumFATs) :: ((FNum
    h.bPB_RootEntCnt) :: ((FNum h.bPB_TotSec16) :: ((FNum
    h.bPB_Media) :: ((FNum h.bPB_FATSz16) :: ((FNum
    h.bPB_SecPerTrk) :: ((FNum h.bPB_NumHeads) :: ((FNum
    h.bPB_HiddSec) :: ((FNum h.bPB_TotSec32) :: []))))))))))))))
    (app
      (if h.is32hdr
       then (FNum h.bPB_FATSz32) :: ((FNum h.bPB_ExtFlags) :: ((FNum
              h.bPB_FSVer) :: ((FNum h.bPB_RootClus) :: ((FNum
              h.bPB_FSInfo) :: ((FNum h.bPB_BkBootSec) :: ((FBytes
              h.bPB_Reserved) :: []))))))
       else []) ((FNum h.bS_DrvNum) :: ((FNum h.bS_Reserved1) :: ((FNum
      h.bS_BootSig) :: ((FNum h.bS_VolID) :: ((FBytes
      h.bS_VolLab) :: ((FBytes h.bS_FilSysType) :: [])))))))

(** val parse_hdr : z list -> hdr **)

let parse_hdr boot =
  let fatsz16 =
    un_le
      (slice boot (Zpos (XO (XI (XI (XO XH))))) (Zpos (XO (XO (XO (XI XH))))))
  in
  if Z.gtb fatsz16 Z0
  then hdr_of_fields12 (parse_layout Gen.coq_BPB12_LAYOUT boot)
  else hdr_of_fields32 (parse_layout Gen.coq_BPB32_LAYOUT boot)

(** val hdr_layout : hdr -> (z * z) list **)

let hdr_layout h =
  if h.is32hdr then Gen.coq_BPB32_LAYOUT else Gen.coq_BPB12_LAYOUT

(** val ser_hdr : hdr -> z list **)

let ser_hdr h =
  ser_layout (hdr_layout h) (fields_of_hdr h)

(** val sfn_lead_decode : z list -> z list **)

let sfn_lead_decode = function
| [] -> []
| b :: r ->
  (if Z.eqb b (Zpos (XI (XO XH)))
   then Zpos (XI (XO (XI (XO (XO (XI (XI XH)))))))
   else b) :: r

(** val sfn_lead_encode : z list -> z list **)

let sfn_lead_encode = function
| [] -> []
| b :: r ->
  (if Z.eqb b (Zpos (XI (XO (XI (XO (XO (XI (XI XH))))))))
   then Zpos (XI (XO XH))
   else b) :: r

(** val rstrip_sp : z list -> z list **)

let rec rstrip_sp = function
| [] -> []
| x :: r ->
  (match rstrip_sp r with
   | [] -> if Z.eqb x (Zpos (XO (XO (XO (XO (XO XH)))))) then [] else x :: []
   | z0 :: l0 -> x :: (z0 :: l0))

(** val pad_sp : nat -> z list -> z list **)

let rec pad_sp n0 l =
  match n0 with
  | O -> []
  | S k ->
    (match l with
     | [] -> (Zpos (XO (XO (XO (XO (XO XH)))))) :: (pad_sp k [])
     | x :: r -> x :: (pad_sp k r))

(** val sfn_pack : z list -> z list -> z list **)

let sfn_pack base ext =
  sfn_lead_encode
    (app (pad_sp (S (S (S (S (S (S (S (S O)))))))) base)
      (pad_sp (S (S (S O))) ext))

(** val sfn_unpack : z list -> z list * z list **)

let sfn_unpack name =
  let n0 = sfn_lead_decode name in
  ((rstrip_sp (firstn (S (S (S (S (S (S (S (S O)))))))) n0)),
  (rstrip_sp
    (firstn (S (S (S O))) (skipn (S (S (S (S (S (S (S (S O)))))))) n0))))

type lfnslot = { l_ord : z; l_name1 : z list; l_attr : z; l_type : z;
                 l_chk : z; l_name2 : z list; l_clus : z; l_name3 : z list }

type dirent = { d_name : z list; d_attr : z; d_ntres : z; d_tenth : z;
                d_crttime : z; d_crtdate : z; d_accdate : z; d_clushi : 
                z; d_wrttime : z; d_wrtdate : z; d_cluslo : z; d_size : 
                z; d_lfn : lfnslot list option }

(** val ser_lfnslot : lfnslot -> z list **)

let ser_lfnslot s =
  app (s.l_ord :: [])
    (app s.l_name1
      (app (s.l_attr :: (s.l_type :: (s.l_chk :: [])))
        (app s.l_name2 (app (le (S (S O)) s.l_clus) s.l_name3))))

(** val ser_short : dirent -> z list **)

let ser_short e =
  app e.d_name
    (app (e.d_attr :: (e.d_ntres :: (e.d_tenth :: [])))
      (app (le (S (S O)) e.d_crttime)
        (app (le (S (S O)) e.d_crtdate)
          (app (le (S (S O)) e.d_accdate)
            (app (le (S (S O)) e.d_clushi)
              (app (le (S (S O)) e.d_wrttime)
                (app (le (S (S O)) e.d_wrtdate)
                  (app (le (S (S O)) e.d_cluslo)
                    (le (S (S (S (S O)))) e.d_size)))))))))

(** val ins_desc : lfnslot -> lfnslot list -> lfnslot list **)

let rec ins_desc s = function
| [] -> s :: []
| x :: r ->
  if Z.ltb x.l_ord s.l_ord then s :: (x :: r) else x :: (ins_desc s r)

(** val sort_desc : lfnslot list -> lfnslot list **)

let sort_desc l =
  fold_right ins_desc [] l

(** val ser_dirent : dirent -> z list **)

let ser_dirent e =
  app
    (match e.d_lfn with
     | Some sl -> flat_map ser_lfnslot (sort_desc sl)
     | None -> []) (ser_short e)

(** val ser_dir : dirent list -> z list **)

let ser_dir es =
  flat_map ser_dirent es

(** val parse_short : z list -> dirent **)

let parse_short b =
  { d_name = (slice b Z0 (Zpos (XI (XI (XO XH))))); d_attr =
    (nthZ b (Zpos (XI (XI (XO XH))))); d_ntres =
    (nthZ b (Zpos (XO (XO (XI XH))))); d_tenth =
    (nthZ b (Zpos (XI (XO (XI XH))))); d_crttime =
    (un_le (slice b (Zpos (XO (XI (XI XH)))) (Zpos (XO (XO (XO (XO XH)))))));
    d_crtdate =
    (un_le
      (slice b (Zpos (XO (XO (XO (XO XH))))) (Zpos (XO (XI (XO (XO XH)))))));
    d_accdate =
    (un_le
      (slice b (Zpos (XO (XI (XO (XO XH))))) (Zpos (XO (XO (XI (XO XH)))))));
    d_clushi =
    (un_le
      (slice b (Zpos (XO (XO (XI (XO XH))))) (Zpos (XO (XI (XI (XO XH)))))));
    d_wrttime =
    (un_le
      (slice b (Zpos (XO (XI (XI (XO XH))))) (Zpos (XO (XO (XO (XI XH)))))));
    d_wrtdate =
    (un_le
      (slice b (Zpos (XO (XO (XO (XI XH))))) (Zpos (XO (XI (XO (XI XH)))))));
    d_cluslo =
    (un_le
      (slice b (Zpos (XO (XI (XO (XI XH))))) (Zpos (XO (XO (XI (XI XH)))))));
    d_size =
    (un_le
      (slice b (Zpos (XO (XO (XI (XI XH))))) (Zpos (XO (XO (XO (XO (XO
        XH)))))))); d_lfn = None }

(** val parse_lfnslot : z list -> lfnslot **)

let parse_lfnslot b =
  { l_ord = (nthZ b Z0); l_name1 =
    (slice b (Zpos XH) (Zpos (XI (XI (XO XH))))); l_attr =
    (nthZ b (Zpos (XI (XI (XO XH))))); l_type =
    (nthZ b (Zpos (XO (XO (XI XH))))); l_chk =
    (nthZ b (Zpos (XI (XO (XI XH))))); l_name2 =
    (slice b (Zpos (XO (XI (XI XH)))) (Zpos (XO (XI (XO (XI XH))))));
    l_clus =
    (un_le
      (slice b (Zpos (XO (XI (XO (XI XH))))) (Zpos (XO (XO (XI (XI XH)))))));
    l_name3 =
    (slice b (Zpos (XO (XO (XI (XI XH))))) (Zpos (XO (XO (XO (XO (XO XH))))))) }

(** val get_cluster0 : dirent -> z **)

let get_cluster0 e =
  Gen.get_cluster e.d_cluslo e.d_clushi

(** val set_cluster0 : dirent -> z -> dirent **)

let set_cluster0 e c =
  let (lo, hi) = Gen.set_cluster c in
  { d_name = e.d_name; d_attr = e.d_attr; d_ntres = e.d_ntres; d_tenth =
  e.d_tenth; d_crttime = e.d_crttime; d_crtdate = e.d_crtdate; d_accdate =
  e.d_accdate; d_clushi = hi; d_wrttime = e.d_wrttime; d_wrtdate =
  e.d_wrtdate; d_cluslo = lo; d_size = e.d_size; d_lfn = e.d_lfn }

(** val set_size : dirent -> z -> dirent **)

let set_size e n0 =
  { d_name = e.d_name; d_attr = e.d_attr; d_ntres = e.d_ntres; d_tenth =
    e.d_tenth; d_crttime = e.d_crttime; d_crtdate = e.d_crtdate; d_accdate =
    e.d_accdate; d_clushi = e.d_clushi; d_wrttime = e.d_wrttime; d_wrtdate =
    e.d_wrtdate; d_cluslo = e.d_cluslo; d_size = n0; d_lfn = e.d_lfn }

(** val set_lfn : dirent -> lfnslot list option -> dirent **)

let set_lfn e l =
  { d_name = e.d_name; d_attr = e.d_attr; d_ntres = e.d_ntres; d_tenth =
    e.d_tenth; d_crttime = e.d_crttime; d_crtdate = e.d_crtdate; d_accdate =
    e.d_accdate; d_clushi = e.d_clushi; d_wrttime = e.d_wrttime; d_wrtdate =
    e.d_wrtdate; d_cluslo = e.d_cluslo; d_size = e.d_size; d_lfn = l }

(** val set_name : dirent -> z list -> dirent **)

let set_name e n0 =
  { d_name = n0; d_attr = e.d_attr; d_ntres = e.d_ntres; d_tenth = e.d_tenth;
    d_crttime = e.d_crttime; d_crtdate = e.d_crtdate; d_accdate =
    e.d_accdate; d_clushi = e.d_clushi; d_wrttime = e.d_wrttime; d_wrtdate =
    e.d_wrtdate; d_cluslo = e.d_cluslo; d_size = e.d_size; d_lfn = e.d_lfn }

(** val set_times : dirent -> z -> z -> z -> z -> z -> dirent **)

let set_times e ct cd ad wt wd =
  { d_name = e.d_name; d_attr = e.d_attr; d_ntres = e.d_ntres; d_tenth =
    e.d_tenth; d_crttime = ct; d_crtdate = cd; d_accdate = ad; d_clushi =
    e.d_clushi; d_wrttime = wt; d_wrtdate = wd; d_cluslo = e.d_cluslo;
    d_size = e.d_size; d_lfn = e.d_lfn }

(** val is_dir : dirent -> bool **)

let is_dir e =
  Z.ltb Z0 (Z.coq_land Gen.coq_ATTR_DIRECTORY e.d_attr)

(** val is_volid : dirent -> bool **)

let is_volid e =
  Z.ltb Z0 (Z.coq_land Gen.coq_ATTR_VOLUME_ID e.d_attr)

(** val is_readonly : dirent -> bool **)

let is_readonly e =
  Z.ltb Z0 (Z.coq_land Gen.coq_ATTR_READ_ONLY e.d_attr)

(** val list_eqb : z list -> z list -> bool **)

let rec list_eqb a b =
  match a with
  | [] -> (match b with
           | [] -> true
           | _ :: _ -> false)
  | x :: r ->
    (match b with
     | [] -> false
     | y :: s -> (&&) (Z.eqb x y) (list_eqb r s))

(** val sfn_display : z list -> z list **)

let sfn_display name =
  let (b, e) = sfn_unpack name in
  (match e with
   | [] -> b
   | _ :: _ -> app b (app ((Zpos (XO (XI (XI (XI (XO XH)))))) :: []) e))

(** val is_special : dirent -> bool **)

let is_special e =
  let n0 = sfn_display e.d_name in
  (||) (list_eqb n0 ((Zpos (XO (XI (XI (XI (XO XH)))))) :: []))
    (list_eqb n0 ((Zpos (XO (XI (XI (XI (XO XH)))))) :: ((Zpos (XO (XI (XI
      (XI (XO XH)))))) :: [])))

(** val units_of_bytes : z list -> z list **)

let rec units_of_bytes = function
| [] -> []
| lo :: l ->
  (match l with
   | [] -> []
   | hi :: r ->
     (Z.add lo (Z.mul (Zpos (XO (XO (XO (XO (XO (XO (XO (XO XH))))))))) hi)) :: 
       (units_of_bytes r))

(** val bytes_of_units : z list -> z list **)

let bytes_of_units u =
  flat_map (le (S (S O))) u

(** val strip_ffff : z list -> z list **)

let rec strip_ffff = function
| [] -> []
| x :: r ->
  (match strip_ffff r with
   | [] ->
     if Z.eqb x (Zpos (XI (XI (XI (XI (XI (XI (XI (XI (XI (XI (XI (XI (XI (XI
          (XI XH))))))))))))))))
     then []
     else x :: []
   | z0 :: l -> x :: (z0 :: l))

(** val strip_one_nul : z list -> z list **)

let strip_one_nul u =
  match rev u with
  | [] -> u
  | z0 :: r -> (match z0 with
                | Z0 -> rev r
                | _ -> u)

(** val ins_asc : lfnslot -> lfnslot list -> lfnslot list **)

let rec ins_asc s = function
| [] -> s :: []
| x :: r ->
  if Z.ltb s.l_ord x.l_ord then s :: (x :: r) else x :: (ins_asc s r)

(** val sort_asc : lfnslot list -> lfnslot list **)

let sort_asc l =
  fold_right ins_asc [] l

(** val lfn_units : lfnslot list -> z list **)

let lfn_units sl =
  strip_one_nul
    (strip_ffff
      (units_of_bytes
        (flat_map (fun s -> app s.l_name1 (app s.l_name2 s.l_name3))
          (sort_asc sl))))

(** val lfn_slots_from : z -> z list -> z -> nat -> z -> lfnslot list **)

let rec lfn_slots_from chk b i n0 total =
  match n0 with
  | O -> []
  | S k ->
    let ord =
      if Z.eqb i total
      then Z.coq_lor (Zpos (XO (XO (XO (XO (XO (XO XH))))))) i
      else i
    in
    { l_ord = ord; l_name1 = (slice b Z0 (Zpos (XO (XI (XO XH))))); l_attr =
    Gen.coq_ATTR_LONG_NAME; l_type = Z0; l_chk = chk; l_name2 =
    (slice b (Zpos (XO (XI (XO XH)))) (Zpos (XO (XI (XI (XO XH))))));
    l_clus = Z0; l_name3 =
    (slice b (Zpos (XO (XI (XI (XO XH))))) (Zpos (XO (XI (XO (XI XH)))))) } :: 
    (lfn_slots_from chk
      (skipn (S (S (S (S (S (S (S (S (S (S (S (S (S (S (S (S (S (S (S (S (S
        (S (S (S (S (S O)))))))))))))))))))))))))) b) (Z.add i (Zpos XH)) k
      total)

(** val lfn_padded : z list -> z list **)

let lfn_padded u =
  let b = bytes_of_units u in
  let b0 =
    if Z.eqb (Z.modulo (lenZ b) (Zpos (XO (XI (XO (XI XH)))))) Z0
    then b
    else app b (Z0 :: (Z0 :: []))
  in
  app b0
    (repeat (Zpos (XI (XI (XI (XI (XI (XI (XI XH))))))))
      (Z.to_nat
        (Z.modulo
          (Z.sub (Zpos (XO (XI (XO (XI XH)))))
            (Z.modulo (lenZ b0) (Zpos (XO (XI (XO (XI XH))))))) (Zpos (XO (XI
          (XO (XI XH))))))))

(** val make_lfn : z list -> z list -> lfnslot list **)

let make_lfn u sfn =
  let b = lfn_padded u in
  let n0 = Z.div (lenZ b) (Zpos (XO (XI (XO (XI XH))))) in
  lfn_slots_from (Gen.checksum sfn) b (Zpos XH) (Z.to_nat n0) n0

(** val lfn_complete : lfnslot list -> bool **)

let lfn_complete p =
  existsb (fun s ->
    Z.eqb (Z.coq_land s.l_ord Gen.coq_LAST_LONG_ENTRY) Gen.coq_LAST_LONG_ENTRY)
    p

(** val lfn_chk_ok : lfnslot list -> z list -> bool **)

let lfn_chk_ok p name =
  forallb (fun s -> Z.eqb s.l_chk (Gen.checksum name)) p

(** val scan_slots :
    nat -> z list -> lfnslot list -> dirent list -> ((dirent list * lfnslot
    list) * bool) res **)

let rec scan_slots fuel b pend acc =
  match fuel with
  | O -> Ok ((acc, pend), false)
  | S f ->
    (match b with
     | [] -> Ok ((acc, pend), false)
     | _ :: _ ->
       let slot =
         firstn (S (S (S (S (S (S (S (S (S (S (S (S (S (S (S (S (S (S (S (S
           (S (S (S (S (S (S (S (S (S (S (S (S
           O)))))))))))))))))))))))))))))))) b
       in
       let rest =
         skipn (S (S (S (S (S (S (S (S (S (S (S (S (S (S (S (S (S (S (S (S (S
           (S (S (S (S (S (S (S (S (S (S (S O))))))))))))))))))))))))))))))))
           b
       in
       if Nat.ltb (length slot) (S (S (S (S (S (S (S (S (S (S (S (S (S (S (S
            (S (S (S (S (S (S (S (S (S (S (S (S (S (S (S (S (S
            O))))))))))))))))))))))))))))))))
       then Err EIO
       else let first = nthZ slot Z0 in
            if Z.eqb first Gen.coq_LAST_DIR_ENTRY_MARK
            then Ok ((acc, []), true)
            else if Z.eqb first Gen.coq_FREE_DIR_ENTRY_MARK
                 then scan_slots f rest [] acc
                 else if Gen.is_lfn_entry first
                           (nthZ slot (Zpos (XI (XI (XO XH)))))
                      then let s = parse_lfnslot slot in
                           if negb (Z.eqb s.l_clus Z0)
                           then Err EPYFAT
                           else if existsb (fun x -> Z.eqb x.l_ord s.l_ord)
                                     pend
                                then Err EPYFAT
                                else scan_slots f rest (app pend (s :: []))
                                       acc
                      else let e = parse_short slot in
                           let lfn =
                             if lfn_complete pend
                             then if lfn_chk_ok pend e.d_name
                                  then Some pend
                                  else None
                             else None
                           in
                           scan_slots f rest []
                             (app acc ((set_lfn e lfn) :: [])))

type shown =
| NLong of z list
| NShort of z list

(** val shown_name : dirent -> shown **)

let shown_name e =
  match e.d_lfn with
  | Some sl -> NLong (lfn_units sl)
  | None -> NShort (sfn_display e.d_name)

type namerec = { n_u : z list; n_oem : z list option;
                 n_oem_up : z list option; n_base : z list; n_ext : z list;
                 n_conform : bool }

(** val name_matches : namerec -> dirent -> bool **)

let name_matches n0 e =
  (||)
    (match e.d_lfn with
     | Some sl -> list_eqb (lfn_units sl) n0.n_u
     | None -> false)
    (match n0.n_oem with
     | Some b -> list_eqb (sfn_display e.d_name) b
     | None -> false)

(** val ge_dirs : dirent list -> dirent list **)

let ge_dirs es =
  filter (fun e -> (&&) (negb ((||) (is_special e) (is_volid e))) (is_dir e))
    es

(** val ge_files : dirent list -> dirent list **)

let ge_files es =
  filter (fun e ->
    (&&) (negb ((||) (is_special e) (is_volid e))) (negb (is_dir e))) es

(** val search_entry : dirent list -> namerec -> dirent option **)

let search_entry es n0 =
  find (name_matches n0) (app (ge_dirs es) (ge_files es))

(** val map_chars : z list -> z list **)

let map_chars b =
  flat_map (fun c ->
    if Z.eqb c (Zpos (XO (XO (XO (XO (XO XH))))))
    then []
    else if in_list c Gen.coq_INVALID_CHARACTERS
         then (Zpos (XI (XI (XI (XI (XI (XO XH))))))) :: []
         else c :: []) b

(** val digits_fuel : nat -> z -> z list -> z list **)

let rec digits_fuel fuel n0 acc =
  match fuel with
  | O -> acc
  | S f ->
    if Z.ltb n0 (Zpos (XO (XI (XO XH))))
    then (Z.add (Zpos (XO (XO (XO (XO (XI XH)))))) n0) :: acc
    else digits_fuel f (Z.div n0 (Zpos (XO (XI (XO XH)))))
           ((Z.add (Zpos (XO (XO (XO (XO (XI XH))))))
              (Z.modulo n0 (Zpos (XO (XI (XO XH)))))) :: acc)

(** val digits : z -> z list **)

let digits n0 =
  digits_fuel (S (S (S (S (S (S (S (S (S (S (S (S (S (S (S (S (S (S (S (S
    O)))))))))))))))))))) n0 []

(** val join_ext : z list -> z list -> z list **)

let join_ext b e = match e with
| [] -> b
| _ :: _ -> app b (app ((Zpos (XO (XI (XI (XI (XO XH)))))) :: []) e)

(** val alias_loop :
    nat -> z -> z list -> z list -> z list list -> (z list * z list) res **)

let rec alias_loop fuel i basename ext taken =
  match fuel with
  | O -> Err EEXIST
  | S f ->
    if Z.ltb (Zpos (XI (XI XH))) (Z.add (lenZ (digits i)) (Zpos XH))
    then Err EEXIST
    else let basename0 =
           if Z.ltb Z0 i
           then app
                  (firstn
                    (Z.to_nat
                      (Z.sub (Zpos (XO (XO (XO XH))))
                        (Z.add (Zpos XH) (lenZ (digits i))))) basename)
                  (app ((Zpos (XO (XI (XI (XI (XI (XI XH))))))) :: [])
                    (digits i))
           else basename
         in
         if existsb (list_eqb (join_ext basename0 ext)) taken
         then alias_loop f (Z.add i (Zpos XH)) basename0 ext taken
         else Ok (basename0, ext)

(** val make_8dot3 : namerec -> dirent list -> (z list * z list) res **)

let make_8dot3 n0 es =
  let taken =
    map (fun e -> sfn_display e.d_name) (app (ge_dirs es) (ge_files es))
  in
  alias_loop
    (Z.to_nat (Zpos (XI (XO (XO (XO (XO (XO (XI (XO (XO (XI (XO (XO (XO (XO
      (XI (XO (XI (XI (XI XH))))))))))))))))))))) Z0 (map_chars n0.n_base)
    (map_chars n0.n_ext) taken

type dev = z list PositiveMap.t

(** val zblk : z list **)

let zblk =
  zeros (Zpos (XO (XO (XO (XO (XO (XO (XO (XO (XO XH))))))))))

(** val dget : dev -> z -> z list **)

let dget d k =
  match PositiveMap.find (Z.to_pos (Z.add k (Zpos XH))) d with
  | Some s -> s
  | None -> zblk

(** val dput : dev -> z -> z list -> dev **)

let dput d k b =
  PositiveMap.add (Z.to_pos (Z.add k (Zpos XH))) b d

(** val dread_blks : dev -> z -> nat -> z list **)

let rec dread_blks d k = function
| O -> []
| S m -> app (dget d k) (dread_blks d (Z.add k (Zpos XH)) m)

(** val dread : dev -> z -> z -> z -> z list **)

let dread d dsize off len =
  let len0 = Z.min len (Z.sub dsize off) in
  if Z.leb len0 Z0
  then []
  else let k0 =
         Z.div off (Zpos (XO (XO (XO (XO (XO (XO (XO (XO (XO XH))))))))))
       in
       let k1 =
         Z.div (Z.sub (Z.add off len0) (Zpos XH)) (Zpos (XO (XO (XO (XO (XO
           (XO (XO (XO (XO XH))))))))))
       in
       firstn (Z.to_nat len0)
         (skipn
           (Z.to_nat
             (Z.modulo off (Zpos (XO (XO (XO (XO (XO (XO (XO (XO (XO
               XH))))))))))))
           (dread_blks d k0 (Z.to_nat (Z.add (Z.sub k1 k0) (Zpos XH)))))

(** val dwrite_blks : dev -> z -> z -> z list -> nat -> dev **)

let rec dwrite_blks d k pos data = function
| O -> d
| S f ->
  (match data with
   | [] -> d
   | _ :: _ ->
     let room =
       Z.to_nat
         (Z.sub (Zpos (XO (XO (XO (XO (XO (XO (XO (XO (XO XH)))))))))) pos)
     in
     let chunk = firstn room data in
     let old = dget d k in
     let new0 =
       app (firstn (Z.to_nat pos) old)
         (app chunk (skipn (add (Z.to_nat pos) (length chunk)) old))
     in
     dwrite_blks (dput d k new0) (Z.add k (Zpos XH)) Z0 (skipn room data) f)

(** val dwrite : dev -> z -> z list -> dev **)

let dwrite d off data =
  dwrite_blks d
    (Z.div off (Zpos (XO (XO (XO (XO (XO (XO (XO (XO (XO XH)))))))))))
    (Z.modulo off (Zpos (XO (XO (XO (XO (XO (XO (XO (XO (XO XH)))))))))))
    data (S
    (add
      (Nat.div (length data) (S (S (S (S (S (S (S (S (S (S (S (S (S (S (S (S
        (S (S (S (S (S (S (S (S (S (S (S (S (S (S (S (S (S (S (S (S (S (S (S
        (S (S (S (S (S (S (S (S (S (S (S (S (S (S (S (S (S (S (S (S (S (S (S
        (S (S (S (S (S (S (S (S (S (S (S (S (S (S (S (S (S (S (S (S (S (S (S
        (S (S (S (S (S (S (S (S (S (S (S (S (S (S (S (S (S (S (S (S (S (S (S
        (S (S (S (S (S (S (S (S (S (S (S (S (S (S (S (S (S (S (S (S (S (S (S
        (S (S (S (S (S (S (S (S (S (S (S (S (S (S (S (S (S (S (S (S (S (S (S
        (S (S (S (S (S (S (S (S (S (S (S (S (S (S (S (S (S (S (S (S (S (S (S
        (S (S (S (S (S (S (S (S (S (S (S (S (S (S (S (S (S (S (S (S (S (S (S
        (S (S (S (S (S (S (S (S (S (S (S (S (S (S (S (S (S (S (S (S (S (S (S
        (S (S (S (S (S (S (S (S (S (S (S (S (S (S (S (S (S (S (S (S (S (S (S
        (S (S (S (S (S (S (S (S (S (S (S (S (S (S (S (S (S (S (S (S (S (S (S
        (S (S (S (S (S (S (S (S (S (S (S (S (S (S (S (S (S (S (S (S (S (S (S
        (S (S (S (S (S (S (S (S (S (S (S (S (S (S (S (S (S (S (S (S (S (S (S
        (S (S (S (S (S (S (S (S (S (S (S (S (S (S (S (S (S (S (S (S (S (S (S
        (S (S (S (S (S (S (S (S (S (S (S (S (S (S (S (S (S (S (S (S (S (S (S
        (S (S (S (S (S (S (S (S (S (S (S (S (S (S (S (S (S (S (S (S (S (S (S
        (S (S (S (S (S (S (S (S (S (S (S (S (S (S (S (S (S (S (S (S (S (S (S
        (S (S (S (S (S (S (S (S (S (S (S (S (S (S (S (S (S (S (S (S (S (S (S
        (S (S (S (S (S (S (S (S (S (S (S (S (S (S (S (S (S (S (S (S (S (S (S
        (S (S (S (S (S (S (S (S (S (S (S (S (S (S (S (S (S (S (S (S (S (S (S
        (S (S (S (S (S (S (S (S (S (S (S (S (S (S (S (S (S (S (S (S (S (S (S
        (S (S (S (S (S (S (S (S (S (S (S (S (S
        O)))))))))))))))))))))))))))))))))))))))))))))))))))))))))))))))))))))))))))))))))))))))))))))))))))))))))))))))))))))))))))))))))))))))))))))))))))))))))))))))))))))))))))))))))))))))))))))))))))))))))))))))))))))))))))))))))))))))))))))))))))))))))))))))))))))))))))))))))))))))))))))))))))))))))))))))))))))))))))))))))))))))))))))))))))))))))))))))))))))))))))))))))))))))))))))))))))))))))))))))))))))))))))))))))))))))))))))))))))))))))))))))))))))))))))))))))))))))))))))))))))))))))))))))))))))))))))))))))
      (S O)))

type handle = { h_parent : z; h_name : z list; h_reading : bool;
                h_writing : bool; h_appending : bool; h_bpos : z; h_cpos : 
                z; h_cindex : z; h_coffpos : z; h_closed : bool }

type st = { s_h : hdr; s_p : pf; s_ro : bool; s_pc : bool; s_fat : z list;
            s_hi : z list; s_hint : z; s_dev : dev; s_dsize : z;
            s_log : (z * z list) list; s_handles : handle list }

(** val s_h : st -> hdr **)

let s_h s =
  s.s_h

(** val s_p : st -> pf **)

let s_p s =
  s.s_p

(** val s_fat : st -> z list **)

let s_fat s =
  s.s_fat

(** val s_hint : st -> z **)

let s_hint s =
  s.s_hint

(** val s_dev : st -> dev **)

let s_dev s =
  s.s_dev

(** val s_log : st -> (z * z list) list **)

let s_log s =
  s.s_log

(** val upd_dev : st -> dev -> (z * z list) list -> st **)

let upd_dev s d l =
  { s_h = s.s_h; s_p = s.s_p; s_ro = s.s_ro; s_pc = s.s_pc; s_fat = s.s_fat;
    s_hi = s.s_hi; s_hint = s.s_hint; s_dev = d; s_dsize = s.s_dsize; s_log =
    l; s_handles = s.s_handles }

(** val upd_fat : st -> z list -> z -> st **)

let upd_fat s f hint =
  { s_h = s.s_h; s_p = s.s_p; s_ro = s.s_ro; s_pc = s.s_pc; s_fat = f; s_hi =
    s.s_hi; s_hint = hint; s_dev = s.s_dev; s_dsize = s.s_dsize; s_log =
    s.s_log; s_handles = s.s_handles }

(** val upd_hdr : st -> hdr -> st **)

let upd_hdr s h =
  { s_h = h; s_p = s.s_p; s_ro = s.s_ro; s_pc = s.s_pc; s_fat = s.s_fat;
    s_hi = s.s_hi; s_hint = s.s_hint; s_dev = s.s_dev; s_dsize = s.s_dsize;
    s_log = s.s_log; s_handles = s.s_handles }

(** val ft : st -> z **)

let ft s =
  s.s_p.fat_type

(** val bps : st -> z **)

let bps s =
  s.s_h.bPB_BytsPerSec

(** val bpc : st -> z **)

let bpc s =
  s.s_p.bytes_per_cluster

(** val rd : st -> z -> z -> z list **)

let rd s off len =
  dread s.s_dev s.s_dsize off len

(** val write_at : st -> z -> z list -> st res **)

let write_at s off data =
  if s.s_ro
  then Err EROFS
  else Ok (upd_dev s (dwrite s.s_dev off data) ((off, data) :: s.s_log))

(** val cluster_addr : st -> z -> z **)

let cluster_addr s c =
  Gen.get_data_cluster_address s.s_p s.s_h c

(** val total_sectors : st -> z **)

let total_sectors s =
  Gen.get_total_sectors s.s_h

(** val count_of_clusters : st -> z **)

let count_of_clusters s =
  Z.div (Z.sub (total_sectors s) s.s_p.first_data_sector) s.s_h.bPB_SecPerClus

(** val max_cluster : st -> z **)

let max_cluster s =
  Z.add (count_of_clusters s) (Zpos XH)

(** val is_data : z -> z -> bool **)

let is_data t0 v =
  (&&) (Z.leb (Gen.coq_MIN_DATA_CLUSTER t0) v)
    (Z.leb v (Gen.coq_MAX_DATA_CLUSTER t0))

(** val is_eoc : z -> z -> bool **)

let is_eoc t0 v =
  (||)
    ((&&) (Z.eqb t0 Gen.coq_FAT_TYPE_FAT12)
      (Z.eqb v Gen.coq_FAT12_SPECIAL_EOC))
    ((&&) (Z.leb (Gen.coq_END_OF_CLUSTER_MIN t0) v)
      (Z.leb v (Gen.coq_END_OF_CLUSTER_MAX t0)))

(** val chain_go : nat -> z -> z list -> z -> z list * bool **)

let rec chain_go fuel t0 fat i =
  match fuel with
  | O -> ([], false)
  | S f ->
    if (||) (Z.ltb i Z0) (Z.leb (lenZ fat) i)
    then ([], false)
    else let v = nthZ fat i in
         if is_data t0 v
         then let (r, ok) = chain_go f t0 fat v in ((i :: r), ok)
         else if is_eoc t0 v then ((i :: []), true) else ([], false)

(** val chain : st -> z -> z list * bool **)

let chain s c =
  chain_go (length s.s_fat) (ft s) s.s_fat c

(** val chain_all : st -> z -> z list res **)

let chain_all s c =
  let (l, ok) = chain s c in if ok then Ok l else Err EPYFAT

(** val alloc_scan : nat -> z list -> z -> z -> z -> nat -> z list * z **)

let rec alloc_scan fuel fat t0 maxc i need =
  match fuel with
  | O -> ([], (Z.sub i (Zpos XH)))
  | S f ->
    if (||) (Z.ltb i (Gen.coq_MIN_DATA_CLUSTER t0))
         (Z.ltb (Z.min maxc (Gen.coq_MAX_DATA_CLUSTER t0)) i)
    then alloc_scan f fat t0 maxc (Z.add i (Zpos XH)) need
    else (match need with
          | O -> ([], i)
          | S nd ->
            if Z.eqb (nthZ fat i) (Gen.coq_FREE_CLUSTER t0)
            then let (l, j) = alloc_scan f fat t0 maxc (Z.add i (Zpos XH)) nd
                 in
                 ((i :: l), j)
            else alloc_scan f fat t0 maxc (Z.add i (Zpos XH)) need)

(** val link_chain : z list -> z list -> z -> z list **)

let rec link_chain fat cs eoc =
  match cs with
  | [] -> fat
  | c :: r ->
    (match r with
     | [] -> updZ fat c eoc
     | d :: _ -> link_chain (updZ fat c d) r eoc)

(** val erase_clusters : st -> z list -> st res **)

let rec erase_clusters s = function
| [] -> Ok s
| c :: r ->
  bind (write_at s (cluster_addr s c) (zeros (bpc s))) (fun s' ->
    erase_clusters s' r)

(** val allocate : st -> z -> bool -> (z list * st) res **)

let allocate s size erase =
  if s.s_ro
  then Err EROFS
  else let n0 = Gen.calc_num_clusters s.s_p size in
       let hint = Z.max Z0 s.s_hint in
       let (cs, j) =
         alloc_scan (Z.to_nat (Z.sub (lenZ s.s_fat) hint)) s.s_fat (ft s)
           (max_cluster s) hint (Z.to_nat n0)
       in
       if negb (Z.eqb (lenZ cs) n0)
       then Err ENOSPC
       else let s1 =
              upd_fat s
                (link_chain s.s_fat cs (Gen.coq_END_OF_CLUSTER_MAX (ft s))) j
            in
            if erase
            then bind (erase_clusters s1 cs) (fun s2 -> Ok (cs, s2))
            else Ok (cs, s1)

(** val free_chain : st -> z -> st res **)

let free_chain s c =
  if s.s_ro
  then Err EROFS
  else bind (chain_all s c) (fun cs -> Ok
         (upd_fat s
           (fold_left (fun f cl -> updZ f cl (Gen.coq_FREE_CLUSTER (ft s)))
             cs s.s_fat) (fold_left Z.min cs s.s_hint)))

(** val fat_bytes : st -> z **)

let fat_bytes s =
  Z.mul (bps s) s.s_p._fat_size

(** val fat_start : st -> z **)

let fat_start s =
  Z.mul s.s_h.bPB_RsvdSecCnt (bps s)

(** val flush_copies : st -> z list -> z -> nat -> st res **)

let rec flush_copies s b i = function
| O -> Ok s
| S k ->
  bind (write_at s (Z.add (fat_start s) (Z.mul i (fat_bytes s))) b)
    (fun s' -> flush_copies s' b (Z.add i (Zpos XH)) k)

(** val flush_fat : st -> st res **)

let flush_fat s =
  if s.s_ro
  then Err EROFS
  else flush_copies s (pack_fat (ft s) s.s_fat s.s_hi) Z0
         (Z.to_nat s.s_h.bPB_NumFATs)

(** val write_bpb : st -> st res **)

let write_bpb s =
  bind (write_at s Z0 (ser_hdr s.s_h)) (fun s1 ->
    bind
      (write_at s1 (Zpos (XO (XI (XI (XI (XI (XI (XI (XI XH))))))))) ((Zpos
        (XI (XO (XI (XO (XI (XO XH))))))) :: ((Zpos (XO (XI (XO (XI (XO (XI
        (XO XH)))))))) :: []))) (fun s2 ->
      if Z.eqb (ft s) Gen.coq_FAT_TYPE_FAT32
      then let bk = Z.mul s.s_h.bPB_BkBootSec (bps s) in
           bind (write_at s2 bk (ser_hdr s.s_h)) (fun s3 ->
             write_at s3
               (Z.add (Zpos (XO (XI (XI (XI (XI (XI (XI (XI XH))))))))) bk)
               ((Zpos (XI (XO (XI (XO (XI (XO XH))))))) :: ((Zpos (XO (XI (XO
               (XI (XO (XI (XO XH)))))))) :: [])))
      else Ok s2))

(** val set_reserved1 : hdr -> z -> hdr **)

let set_reserved1 h v =
  { bS_jmpBoot = h.bS_jmpBoot; bS_OEMName = h.bS_OEMName; bPB_BytsPerSec =
    h.bPB_BytsPerSec; bPB_SecPerClus = h.bPB_SecPerClus; bPB_RsvdSecCnt =
    h.bPB_RsvdSecCnt; bPB_NumFATs = h.bPB_NumFATs; bPB_RootEntCnt =
    h.bPB_RootEntCnt; bPB_TotSec16 = h.bPB_TotSec16; bPB_Media = h.bPB_Media;
    bPB_FATSz16 = h.bPB_FATSz16; bPB_SecPerTrk = h.bPB_SecPerTrk;
    bPB_NumHeads = h.bPB_NumHeads; bPB_HiddSec = h.bPB_HiddSec;
    bPB_TotSec32 = h.bPB_TotSec32; bPB_FATSz32 = h.bPB_FATSz32;
    bPB_ExtFlags = h.bPB_ExtFlags; bPB_FSVer = h.bPB_FSVer; bPB_RootClus =
    h.bPB_RootClus; bPB_FSInfo = h.bPB_FSInfo; bPB_BkBootSec =
    h.bPB_BkBootSec; bPB_Reserved = h.bPB_Reserved; bS_DrvNum = h.bS_DrvNum;
    bS_Reserved1 = v; bS_BootSig = h.bS_BootSig; bS_VolID = h.bS_VolID;
    bS_VolLab = h.bS_VolLab; bS_FilSysType = h.bS_FilSysType; is32hdr =
    h.is32hdr }

(** val shutdown_mask : z -> z option **)

let shutdown_mask t0 =
  if Z.eqb t0 Gen.coq_FAT_TYPE_FAT16
  then Some Gen.coq_FAT16_CLEAN_SHUTDOWN_BIT_MASK
  else if Z.eqb t0 Gen.coq_FAT_TYPE_FAT32
       then Some Gen.coq_FAT32_CLEAN_SHUTDOWN_BIT_MASK
       else None

(** val is_dirty : st -> bool **)

let is_dirty s =
  (||)
    (match shutdown_mask (ft s) with
     | Some m -> negb (Z.eqb (Z.coq_land (nthZ s.s_fat (Zpos XH)) m) m)
     | None -> false)
    (Z.eqb (Z.coq_land s.s_h.bS_Reserved1 Gen.coq_FAT_DIRTY_BIT_MASK)
      Gen.coq_FAT_DIRTY_BIT_MASK)

(** val mark_dirty : st -> st res **)

let mark_dirty s =
  bind
    (match shutdown_mask (ft s) with
     | Some m ->
       flush_fat
         (upd_fat s
           (updZ s.s_fat (Zpos XH)
             (Z.coq_land (nthZ s.s_fat (Zpos XH)) (Z.lnot m))) s.s_hint)
     | None -> Ok s) (fun s1 ->
    write_bpb
      (upd_hdr s1
        (set_reserved1 s1.s_h
          (Z.coq_lor s1.s_h.bS_Reserved1 Gen.coq_FAT_DIRTY_BIT_MASK))))

(** val mark_clean : st -> st res **)

let mark_clean s =
  bind
    (match shutdown_mask (ft s) with
     | Some m ->
       flush_fat
         (upd_fat s
           (updZ s.s_fat (Zpos XH) (Z.coq_lor (nthZ s.s_fat (Zpos XH)) m))
           s.s_hint)
     | None -> Ok s) (fun s1 ->
    write_bpb
      (upd_hdr s1
        (set_reserved1 s1.s_h
          (Z.coq_land s1.s_h.bS_Reserved1 (Z.lnot Gen.coq_FAT_DIRTY_BIT_MASK)))))

(** val is_root_fixed : st -> z -> bool **)

let is_root_fixed _ loc =
  Z.eqb loc (Zneg XH)

(** val root_loc : st -> z **)

let root_loc s =
  if Z.eqb (ft s) Gen.coq_FAT_TYPE_FAT32 then s.s_h.bPB_RootClus else Zneg XH

(** val root_addr : st -> z **)

let root_addr s =
  Z.mul s.s_p.root_dir_sector (bps s)

(** val scan_chain :
    st -> z list -> lfnslot list -> dirent list -> dirent list res **)

let rec scan_chain s cs pend acc =
  match cs with
  | [] -> Ok acc
  | c :: r ->
    let b = rd s (cluster_addr s c) (bpc s) in
    bind
      (scan_slots (S
        (Nat.div (length b) (S (S (S (S (S (S (S (S (S (S (S (S (S (S (S (S
          (S (S (S (S (S (S (S (S (S (S (S (S (S (S (S (S
          O)))))))))))))))))))))))))))))))))) b pend acc) (fun x ->
      let (p, stop) = x in
      let (acc', pend') = p in
      if stop then Ok acc' else scan_chain s r pend' acc')

(** val read_dir : st -> z -> dirent list res **)

let read_dir s loc =
  if is_root_fixed s loc
  then let b =
         rd s (root_addr s)
           (Z.mul s.s_h.bPB_RootEntCnt (Zpos (XO (XO (XO (XO (XO XH)))))))
       in
       bind
         (scan_slots (S
           (Nat.div (length b) (S (S (S (S (S (S (S (S (S (S (S (S (S (S (S
             (S (S (S (S (S (S (S (S (S (S (S (S (S (S (S (S (S
             O)))))))))))))))))))))))))))))))))) b [] []) (fun x ->
         let (p, _) = x in let (acc, _) = p in Ok acc)
  else bind (chain_all s loc) (fun cs -> scan_chain s cs [] [])

(** val write_chunks : st -> z list -> z list -> st res **)

let rec write_chunks s cs data =
  match cs with
  | [] -> Ok s
  | c :: r ->
    let n0 = Z.to_nat (bpc s) in
    bind (write_at s (cluster_addr s c) (firstn n0 data)) (fun s' ->
      if Nat.leb (length data) n0
      then Ok s'
      else write_chunks s' r (skipn n0 data))

(** val write_data_to_cluster : st -> z list -> z -> bool -> st res **)

let write_data_to_cluster s data c erase =
  if s.s_ro
  then Err EROFS
  else let dsz = lenZ data in
       let need = Z.max (Zpos XH) (ceil_div dsz (bpc s)) in
       let (ch, ok) = chain s c in
       bind
         (if Z.leb need (lenZ ch)
          then Ok s
          else if negb ok
               then Err EPYFAT
               else bind
                      (allocate s (Z.sub dsz (Z.mul (lenZ ch) (bpc s))) erase)
                      (fun r ->
                      let (cs, s') = r in
                      Ok
                      (upd_fat s' (updZ s'.s_fat (last ch Z0) (hd Z0 cs))
                        s'.s_hint))) (fun s1 ->
         let (ch1, _) = chain s1 c in
         let data' =
           if erase
           then app data
                  (zeros (Z.sub (Z.mul (Z.max need (lenZ ch1)) (bpc s)) dsz))
           else data
         in
         write_chunks s1 ch1 data')

(** val write_dir : st -> z -> dirent list -> st res **)

let write_dir s loc es =
  if s.s_ro
  then Err EROFS
  else let b = ser_dir es in
       if is_root_fixed s loc
       then let sz = Z.mul s.s_p.root_dir_sectors (bps s) in
            if Z.ltb sz (lenZ b)
            then Err ENOSPC
            else write_at s (root_addr s) (app b (zeros (Z.sub sz (lenZ b))))
       else write_data_to_cluster s b loc true

type eref =
| ERoot
| EAt of z * dirent

(** val eref_is_dir : eref -> bool **)

let eref_is_dir = function
| ERoot -> true
| EAt (_, e) -> is_dir e

(** val eref_loc : st -> eref -> z **)

let eref_loc s = function
| ERoot -> root_loc s
| EAt (_, e) -> get_cluster0 e

(** val get_entry : st -> eref -> namerec list -> eref res **)

let rec get_entry s cur = function
| [] -> Ok cur
| n0 :: r ->
  if negb (eref_is_dir cur)
  then Err ENOTDIR
  else bind (read_dir s (eref_loc s cur)) (fun es ->
         match search_entry es n0 with
         | Some e -> get_entry s (EAt ((eref_loc s cur), e)) r
         | None -> Err ENOENT)

(** val lookup : st -> namerec list -> eref res **)

let lookup s path =
  get_entry s ERoot path

(** val get_dir_entry : st -> namerec list -> eref res **)

let get_dir_entry s path =
  match lookup s path with
  | Ok a -> Ok a
  | Err e -> (match e with
              | ENOENT -> Err RNF
              | x -> Err x)

(** val op_exists : st -> namerec list -> bool res **)

let op_exists s path =
  match lookup s path with
  | Ok _ -> Ok true
  | Err e -> (match e with
              | ENOENT -> Ok false
              | _ -> Err e)

type info = { i_name : shown; i_dir : bool; i_size : z; i_crtdate : z;
              i_crttime : z; i_wrtdate : z; i_wrttime : z; i_accdate : 
              z }

(** val info_of : eref -> info **)

let info_of = function
| ERoot ->
  { i_name = (NShort []); i_dir = true; i_size = Z0; i_crtdate = Z0;
    i_crttime = Z0; i_wrtdate = Z0; i_wrttime = Z0; i_accdate = Z0 }
| EAt (_, e) ->
  { i_name = (shown_name e); i_dir = (is_dir e); i_size = e.d_size;
    i_crtdate = e.d_crtdate; i_crttime = e.d_crttime; i_wrtdate =
    e.d_wrtdate; i_wrttime = e.d_wrttime; i_accdate = e.d_accdate }

(** val op_getinfo : st -> namerec list -> info res **)

let op_getinfo s path =
  match lookup s path with
  | Ok r -> Ok (info_of r)
  | Err e -> (match e with
              | ENOENT -> Err RNF
              | ENOTDIR -> Err RNF
              | _ -> Err e)

(** val op_getsize : st -> namerec list -> z res **)

let op_getsize s path =
  match lookup s path with
  | Ok r -> Ok (info_of r).i_size
  | Err e -> (match e with
              | ENOENT -> Err RNF
              | _ -> Err e)

(** val op_listdir : st -> namerec list -> shown list res **)

let op_listdir s path =
  bind (get_dir_entry s path) (fun r ->
    if negb (eref_is_dir r)
    then Err DEXP
    else bind (read_dir s (eref_loc s r)) (fun es -> Ok
           (map shown_name (app (ge_dirs es) (ge_files es)))))

type now_rec = ((((z * z) * z) * z) * z) * z

(** val date_of : now_rec -> z **)

let date_of = function
| (p, _) ->
  let (p0, _) = p in
  let (p1, _) = p0 in
  let (p2, d) = p1 in let (y, m) = p2 in Gen.serialize_date y m d

(** val time_of : now_rec -> z **)

let time_of = function
| (p, sec) ->
  let (p0, mi) = p in let (_, h) = p0 in Gen.serialize_time h mi sec

(** val new_dirent : z list -> z -> now_rec -> dirent **)

let new_dirent name attr t0 =
  { d_name = name; d_attr = attr; d_ntres = Z0; d_tenth = Z0; d_crttime =
    (time_of t0); d_crtdate = (date_of t0); d_accdate = (date_of t0);
    d_clushi = Z0; d_wrttime = (time_of t0); d_wrtdate = (date_of t0);
    d_cluslo = Z0; d_size = Z0; d_lfn = None }

(** val opt_eqb : z list option -> z list -> bool **)

let opt_eqb a b =
  match a with
  | Some x -> list_eqb x b
  | None -> false

(** val new_names :
    st -> namerec -> dirent list -> (z list * lfnslot list option) res **)

let new_names s n0 es =
  bind (make_8dot3 n0 es) (fun be ->
    let (b, e) = be in
    (match b with
     | [] ->
       (match e with
        | [] ->
          let sfn = sfn_pack b e in
          let disp = sfn_display sfn in
          if (||) (negb (opt_eqb n0.n_oem_up disp))
               ((&&) (negb (opt_eqb n0.n_oem disp)) s.s_pc)
          then if n0.n_conform
               then Err EINVAL
               else if Z.ltb (Zpos (XI (XI (XI (XI (XI (XI (XI XH))))))))
                         (Z.mul (Zpos (XO XH)) (lenZ n0.n_u))
                    then Err ENAMETOOLONG
                    else Ok (sfn, (Some (make_lfn n0.n_u sfn)))
          else Ok (sfn, None)
        | _ :: _ -> Err EINVAL)
     | _ :: _ ->
       let sfn = sfn_pack b e in
       let disp = sfn_display sfn in
       if (||) (negb (opt_eqb n0.n_oem_up disp))
            ((&&) (negb (opt_eqb n0.n_oem disp)) s.s_pc)
       then if n0.n_conform
            then Err EINVAL
            else if Z.ltb (Zpos (XI (XI (XI (XI (XI (XI (XI XH))))))))
                      (Z.mul (Zpos (XO XH)) (lenZ n0.n_u))
                 then Err ENAMETOOLONG
                 else Ok (sfn, (Some (make_lfn n0.n_u sfn)))
       else Ok (sfn, None)))

(** val split_last : 'a1 list -> ('a1 list * 'a1) option **)

let rec split_last = function
| [] -> None
| x :: r ->
  (match r with
   | [] -> Some ([], x)
   | _ :: _ ->
     (match split_last r with
      | Some p -> let (i, y) = p in Some ((x :: i), y)
      | None -> None))

(** val op_create :
    st -> namerec list -> bool -> now_rec -> (bool * st) res **)

let op_create s path wipe t0 =
  match split_last path with
  | Some p ->
    let (dirp, n0) = p in
    bind
      (match get_dir_entry s dirp with
       | Ok b -> if eref_is_dir b then Ok b else Err RNF
       | Err e -> Err e) (fun base ->
      match get_dir_entry s path with
      | Ok a ->
        (match a with
         | ERoot -> Err FEXP
         | EAt (ploc, e) ->
           if is_dir e
           then Err FEXP
           else if negb wipe
                then Ok (false, s)
                else bind (read_dir s ploc) (fun es ->
                       let e' =
                         set_size
                           (set_cluster0
                             (set_times e e.d_crttime e.d_crtdate
                               (date_of t0) (time_of t0) (date_of t0)) Z0) Z0
                       in
                       let es' =
                         map (fun x ->
                           if list_eqb x.d_name e.d_name
                           then set_lfn e' x.d_lfn
                           else x) es
                       in
                       bind
                         (if Z.eqb (get_cluster0 e) Z0
                          then Ok s
                          else free_chain s (get_cluster0 e)) (fun s1 ->
                         bind (write_dir s1 ploc es') (fun s2 ->
                           bind (flush_fat s2) (fun s3 -> Ok (true, s3))))))
      | Err e ->
        (match e with
         | RNF ->
           let loc = eref_loc s base in
           bind (read_dir s loc) (fun es ->
             bind (new_names s n0 es) (fun nm ->
               let (sfn, lfn) = nm in
               let e0 = set_lfn (new_dirent sfn Z0 t0) lfn in
               bind (write_dir s loc (app es (e0 :: []))) (fun s1 ->
                 bind (flush_fat s1) (fun s2 -> Ok (true, s2)))))
         | _ -> Err e))
  | None -> Err FEXP

(** val eref_dirent : eref -> dirent **)

let eref_dirent = function
| ERoot ->
  { d_name =
    (repeat (Zpos (XO (XO (XO (XO (XO XH)))))) (S (S (S (S (S (S (S (S (S (S
      (S O)))))))))))); d_attr = Gen.coq_ATTR_DIRECTORY; d_ntres = Z0;
    d_tenth = Z0; d_crttime = Z0; d_crtdate = Z0; d_accdate = Z0; d_clushi =
    Z0; d_wrttime = Z0; d_wrtdate = Z0; d_cluslo = Z0; d_size = Z0; d_lfn =
    None }
| EAt (_, e) -> e

(** val dot_name : z list **)

let dot_name =
  (Zpos (XO (XI (XI (XI (XO
    XH)))))) :: (repeat (Zpos (XO (XO (XO (XO (XO XH)))))) (S (S (S (S (S (S
                  (S (S (S (S O)))))))))))

(** val dotdot_name : z list **)

let dotdot_name =
  (Zpos (XO (XI (XI (XI (XO XH)))))) :: ((Zpos (XO (XI (XI (XI (XO
    XH)))))) :: (repeat (Zpos (XO (XO (XO (XO (XO XH)))))) (S (S (S (S (S (S
                  (S (S (S O)))))))))))

(** val op_makedir : st -> namerec list -> bool -> now_rec -> st res **)

let op_makedir s path recreate t0 =
  match split_last path with
  | Some p ->
    let (dirp, n0) = p in
    bind
      (match get_dir_entry s dirp with
       | Ok b -> if eref_is_dir b then Ok b else Err RNF
       | Err e -> Err e) (fun base ->
      match get_dir_entry s path with
      | Ok r ->
        if (||) (negb recreate) (negb (eref_is_dir r))
        then Err DEXISTS
        else Ok s
      | Err e ->
        (match e with
         | RNF ->
           let loc = eref_loc s base in
           bind (read_dir s loc) (fun es ->
             bind (new_names s n0 es) (fun nm ->
               let (sfn, lfn) = nm in
               let e0 = set_lfn (new_dirent sfn Gen.coq_ATTR_DIRECTORY t0) lfn
               in
               bind
                 (allocate s
                   (Z.mul Gen.coq_FAT_DIRECTORY_LAYOUT_size (Zpos (XO XH)))
                   true) (fun a ->
                 let (cs, s1) = a in
                 let e1 = set_cluster0 e0 (hd Z0 cs) in
                 let dot = set_lfn (set_name e1 dot_name) None in
                 let dd0 =
                   set_lfn (set_name (eref_dirent base) dotdot_name) None
                 in
                 let dotdot =
                   match base with
                   | ERoot -> set_cluster0 dd0 Z0
                   | EAt (_, _) -> dd0
                 in
                 bind (write_dir s1 (hd Z0 cs) (dot :: (dotdot :: [])))
                   (fun s2 ->
                   bind (write_dir s2 loc (app es (e1 :: []))) flush_fat))))
         | _ -> Err e))
  | None -> if recreate then Ok s else Err DEXISTS

(** val same_entry : dirent -> dirent -> bool **)

let same_entry e x =
  list_eqb e.d_name x.d_name

(** val remove_first : (dirent -> bool) -> dirent list -> dirent list **)

let rec remove_first p = function
| [] -> []
| x :: r -> if p x then r else x :: (remove_first p r)

(** val shown_eqb : shown -> shown -> bool **)

let shown_eqb a b =
  match a with
  | NLong x -> (match b with
                | NLong y -> list_eqb x y
                | NShort _ -> false)
  | NShort x -> (match b with
                 | NLong _ -> false
                 | NShort y -> list_eqb x y)

(** val remove_entry : st -> z -> dirent -> st res **)

let remove_entry s ploc e =
  bind (read_dir s ploc) (fun es ->
    let nm = shown_name e in
    let es' =
      remove_first (fun x ->
        (||) (shown_eqb (shown_name x) nm)
          (match nm with
           | NLong _ -> false
           | NShort b -> list_eqb (sfn_display x.d_name) b)) es
    in
    bind (write_dir s ploc es') (fun s1 ->
      bind
        (if is_dir e
         then bind (read_dir s1 (get_cluster0 e)) (fun sub0 ->
                write_dir s1 (get_cluster0 e) sub0)
         else Ok s1) (fun s2 ->
        bind
          (if Z.eqb (get_cluster0 e) Z0
           then Ok s2
           else free_chain s2 (get_cluster0 e)) flush_fat)))

(** val op_remove : st -> namerec list -> st res **)

let op_remove s path =
  bind (get_dir_entry s path) (fun r ->
    match r with
    | ERoot -> Err FEXP
    | EAt (ploc, e) ->
      if (||) (is_dir e) (is_special e)
      then Err FEXP
      else remove_entry s ploc e)

(** val dir_is_empty : dirent list -> bool **)

let dir_is_empty es =
  forallb is_special es

(** val op_removedir : st -> namerec list -> st res **)

let op_removedir s path =
  bind (get_dir_entry s path) (fun r ->
    match r with
    | ERoot -> Err RROOT
    | EAt (ploc, e) ->
      if negb (is_dir e)
      then Err DEXP
      else bind (read_dir s (get_cluster0 e)) (fun es ->
             if negb (dir_is_empty es)
             then Err DNOTEMPTY
             else remove_entry s ploc e))

(** val rmtree_go : nat -> st -> eref -> st res **)

let rec rmtree_go fuel s r =
  match fuel with
  | O -> Err EFUEL
  | S f ->
    let loc = eref_loc s r in
    bind (read_dir s loc) (fun es ->
      bind
        (fold_left (fun acc e -> bind acc (fun sa -> remove_entry sa loc e))
          (ge_files es) (Ok s)) (fun s1 ->
        bind
          (fold_left (fun acc e ->
            bind acc (fun sa -> rmtree_go f sa (EAt (loc, e)))) (ge_dirs es)
            (Ok s1)) (fun s2 ->
          match r with
          | ERoot -> Ok s2
          | EAt (ploc, e) ->
            bind (read_dir s2 (get_cluster0 e)) (fun es' ->
              if negb (dir_is_empty es')
              then Err DNOTEMPTY
              else remove_entry s2 ploc e))))

(** val op_removetree : st -> namerec list -> st res **)

let op_removetree s path =
  bind (get_dir_entry s path) (fun r ->
    if negb (eref_is_dir r)
    then Err DEXP
    else rmtree_go (S (S (S (S (S (S (S (S (S (S (S (S (S (S (S (S (S (S (S
           (S (S (S (S (S (S (S (S (S (S (S (S (S (S (S (S (S (S (S (S (S (S
           (S (S (S (S (S (S (S (S (S (S (S (S (S (S (S (S (S (S (S (S (S (S
           (S
           O))))))))))))))))))))))))))))))))))))))))))))))))))))))))))))))))
           s r)

(** val year_ok : now_rec option -> bool **)

let year_ok = function
| Some n0 ->
  let (p, _) = n0 in
  let (p0, _) = p in
  let (p1, _) = p0 in
  let (p2, _) = p1 in
  let (y, _) = p2 in
  (&&) (Z.leb (Zpos (XO (XO (XI (XI (XI (XI (XO (XI (XI (XI XH))))))))))) y)
    (Z.leb y (Zpos (XI (XI (XO (XI (XI (XI (XO (XO (XO (XO (XO XH)))))))))))))
| None -> true

(** val op_setinfo :
    st -> namerec list -> now_rec option -> now_rec option -> now_rec option
    -> st res **)

let op_setinfo s path ct mt at_ =
  bind (get_dir_entry s path) (fun r ->
    if negb ((&&) ((&&) (year_ok ct) (year_ok mt)) (year_ok at_))
    then Err EINVAL
    else (match r with
          | ERoot -> Err ENOENT
          | EAt (ploc, e) ->
            let e1 =
              match ct with
              | Some t0 ->
                set_times e (time_of t0) (date_of t0) e.d_accdate e.d_wrttime
                  e.d_wrtdate
              | None -> e
            in
            let e2 =
              match mt with
              | Some t0 ->
                set_times e1 e1.d_crttime e1.d_crtdate e1.d_accdate
                  (time_of t0) (date_of t0)
              | None -> e1
            in
            let e3 =
              match at_ with
              | Some t0 ->
                set_times e2 e2.d_crttime e2.d_crtdate (date_of t0)
                  e2.d_wrttime e2.d_wrtdate
              | None -> e2
            in
            bind (read_dir s ploc) (fun es ->
              write_dir s ploc
                (map (fun x ->
                  if same_entry e x then set_lfn e3 x.d_lfn else x) es))))

(** val find_in_dir : st -> handle -> dirent res **)

let find_in_dir s h =
  bind (read_dir s h.h_parent) (fun es ->
    match find (fun x -> list_eqb x.d_name h.h_name) es with
    | Some e -> Ok e
    | None -> Err ENOENT)

(** val set_cursor : handle -> z -> z -> z -> z -> handle **)

let set_cursor h bpos cpos cindex coffpos =
  { h_parent = h.h_parent; h_name = h.h_name; h_reading = h.h_reading;
    h_writing = h.h_writing; h_appending = h.h_appending; h_bpos = bpos;
    h_cpos = cpos; h_cindex = cindex; h_coffpos = coffpos; h_closed =
    h.h_closed }

(** val chain_nth : st -> z -> z -> z res **)

let chain_nth s c k =
  let (l, _) = chain s c in
  if Z.ltb k (lenZ l) then Ok (nthZ l k) else Err EPYFAT

(** val h_seek : st -> handle -> dirent -> z -> z -> handle res **)

let h_seek s h e offset whence =
  bind
    (if Z.eqb whence Z0
     then Ok offset
     else if Z.eqb whence (Zpos XH)
          then Ok (Z.add offset h.h_bpos)
          else if Z.eqb whence (Zpos (XO XH))
               then Ok (Z.add offset e.d_size)
               else Err VALERR) (fun off ->
    let (p, coffpos) = Gen.seek_cursor off e.d_size (bpc s) in
    let (bpos, cindex) = p in
    let prev = h.h_cindex in
    if Z.ltb cindex prev
    then let cpos0 = get_cluster0 e in
         let prev0 = Z0 in
         bind
           (if Z.ltb prev0 cindex
            then chain_nth s cpos0 (Z.sub cindex prev0)
            else Ok cpos0) (fun cpos -> Ok
           (set_cursor h bpos cpos cindex coffpos))
    else let cpos0 = h.h_cpos in
         bind
           (if Z.ltb prev cindex
            then chain_nth s cpos0 (Z.sub cindex prev)
            else Ok cpos0) (fun cpos -> Ok
           (set_cursor h bpos cpos cindex coffpos)))

(** val update_entry : st -> handle -> (dirent -> dirent) -> st res **)

let update_entry s h f =
  bind (read_dir s h.h_parent) (fun es ->
    write_dir s h.h_parent
      (map (fun x -> if list_eqb x.d_name h.h_name then f x else x) es))

(** val read_chunks : st -> z list -> z -> z -> nat -> z list res **)

let rec read_chunks s cs coff size = function
| O -> Err EFUEL
| S f ->
  (match cs with
   | [] -> Ok []
   | c :: r ->
     let csz = Z.min (Z.sub (bpc s) coff) size in
     let chunk =
       firstn (Z.to_nat csz)
         (skipn (Z.to_nat coff) (rd s (cluster_addr s c) (bpc s)))
     in
     if Z.leb (Z.sub size csz) Z0
     then Ok chunk
     else bind (read_chunks s r Z0 (Z.sub size csz) f) (fun rest -> Ok
            (app chunk rest)))

(** val h_read : st -> handle -> z -> (z list * handle) res **)

let h_read s h size =
  if negb h.h_reading
  then Err IOERR
  else bind (find_in_dir s h) (fun e ->
         let size0 =
           if (||) (Z.ltb e.d_size (Z.add size h.h_bpos)) (Z.ltb size Z0)
           then Z.sub e.d_size h.h_bpos
           else size
         in
         if Z.eqb size0 Z0
         then Ok ([], h)
         else let (cs, _) = chain s h.h_cpos in
              bind (read_chunks s cs h.h_coffpos size0 (S (length cs)))
                (fun data ->
                if negb (Z.eqb (lenZ data) size0)
                then Err EPYFAT
                else bind (h_seek s h e size0 (Zpos XH)) (fun h' -> Ok (data,
                       h'))))

(** val h_write_raw :
    st -> handle -> dirent -> z list -> (st * handle) res **)

let h_write_raw s h e b =
  if (||) ((||) (negb h.h_writing) (is_readonly e)) s.s_ro
  then Err IOERR
  else let sz = lenZ b in
       if Z.eqb sz Z0
       then Ok (s, h)
       else if Z.ltb Gen.coq_MAX_FILE_SIZE (Z.add h.h_bpos sz)
            then Err E2BIG
            else bind
                   (if Z.eqb (get_cluster0 e) Z0
                    then bind (allocate s sz false) (fun a ->
                           let (cs, s1) = a in
                           Ok (((s1, (hd Z0 cs)), b), true))
                    else if negb (Z.eqb h.h_coffpos Z0)
                         then Ok (((s, h.h_cpos),
                                (app
                                  (firstn (Z.to_nat h.h_coffpos)
                                    (rd s (cluster_addr s h.h_cpos) (bpc s)))
                                  b)), false)
                         else Ok (((s, h.h_cpos), b), false)) (fun x ->
                   let (p, fresh) = x in
                   let (p0, data) = p in
                   let (s1, cpos) = p0 in
                   bind (write_data_to_cluster s1 data cpos false) (fun s2 ->
                     let newsize = Z.max e.d_size (Z.add h.h_bpos sz) in
                     let e' =
                       set_size (if fresh then set_cluster0 e cpos else e)
                         newsize
                     in
                     bind
                       (h_seek s2
                         (set_cursor h h.h_bpos cpos h.h_cindex h.h_coffpos)
                         e' sz (Zpos XH)) (fun h' ->
                       bind
                         (update_entry s2 h (fun x0 ->
                           set_size
                             (if fresh then set_cluster0 x0 cpos else x0)
                             newsize)) (fun s3 -> Ok (s3, h')))))

(** val h_write : st -> handle -> z list -> (st * handle) res **)

let h_write s h b =
  bind (find_in_dir s h) (fun e -> h_write_raw s h e b)

(** val h_truncate : st -> handle -> z option -> (st * handle) res **)

let h_truncate s h size =
  bind (find_in_dir s h) (fun e ->
    bind (h_seek s h e Z0 (Zpos XH)) (fun hc ->
      let cur = hc.h_bpos in
      let size0 = match size with
                  | Some n0 -> n0
                  | None -> cur in
      if Z.ltb Gen.coq_MAX_FILE_SIZE size0
      then Err E2BIG
      else if Z.ltb e.d_size size0
           then bind (h_seek s hc e Z0 (Zpos (XO XH))) (fun h1 ->
                  bind (h_write_raw s h1 e (zeros (Z.sub size0 e.d_size)))
                    (fun x ->
                    let (s1, h2) = x in
                    bind (find_in_dir s1 h2) (fun e1 ->
                      bind (h_seek s1 h2 e1 cur Z0) (fun h3 ->
                        bind
                          (update_entry s1 h3 (fun x0 -> set_size x0 size0))
                          (fun s2 -> Ok (s2, h3))))))
           else if Z.ltb size0 e.d_size
                then let keep =
                       Z.max (Zpos XH) (Gen.calc_num_clusters s.s_p size0)
                     in
                     let (cs, ok) = chain s (get_cluster0 e) in
                     bind
                       (if Z.ltb keep (lenZ cs)
                        then bind (free_chain s (nthZ cs keep)) (fun s' ->
                               let s'' =
                                 upd_fat s'
                                   (updZ s'.s_fat
                                     (nthZ cs (Z.sub keep (Zpos XH)))
                                     (Gen.coq_END_OF_CLUSTER_MAX (ft s)))
                                   s'.s_hint
                               in
                               flush_fat s'')
                        else if ok then Ok s else Err EPYFAT) (fun s1 ->
                       bind (update_entry s1 hc (fun x -> set_size x size0))
                         (fun s2 ->
                         bind (find_in_dir s2 hc) (fun e2 ->
                           bind
                             (h_seek s2
                               (set_cursor hc hc.h_bpos (get_cluster0 e2) Z0
                                 Z0) e2 (Z.min cur size0) Z0) (fun h2 -> Ok
                             (s2, h2)))))
                else bind (update_entry s hc (fun x -> set_size x size0))
                       (fun s2 -> Ok (s2, hc))))

(** val h_close : st -> handle -> (st * handle) res **)

let h_close s h =
  bind (find_in_dir s h) (fun e ->
    bind (h_seek s h e Z0 Z0) (fun h1 ->
      bind (if h.h_writing then flush_fat s else Ok s) (fun s1 -> Ok (s1,
        { h_parent = h1.h_parent; h_name = h1.h_name; h_reading =
        h1.h_reading; h_writing = h1.h_writing; h_appending = h1.h_appending;
        h_bpos = h1.h_bpos; h_cpos = h1.h_cpos; h_cindex = h1.h_cindex;
        h_coffpos = h1.h_coffpos; h_closed = true }))))

type mode = { m_reading : bool; m_writing : bool; m_appending : bool;
              m_create : bool; m_exclusive : bool; m_truncate : bool }

(** val op_openbin :
    st -> namerec list -> mode -> now_rec -> (st * handle) res **)

let op_openbin s path m t0 =
  bind
    (if m.m_create
     then bind
            (if m.m_exclusive
             then (match op_getinfo s path with
                   | Ok _ -> Err FEXISTS
                   | Err e -> (match e with
                               | RNF -> Ok ()
                               | _ -> Err e))
             else Ok ()) (fun _ ->
            bind (op_create s path false t0) (fun r -> Ok (snd r)))
     else Ok s) (fun s1 ->
    bind (op_getinfo s1 path) (fun i ->
      if i.i_dir
      then Err FEXP
      else bind (lookup s1 path) (fun r ->
             match r with
             | ERoot -> Err FEXP
             | EAt (ploc, e) ->
               if is_volid e
               then Err RNF
               else let h0 = { h_parent = ploc; h_name = e.d_name;
                      h_reading = m.m_reading; h_writing = m.m_writing;
                      h_appending = m.m_appending; h_bpos = Z0; h_cpos =
                      (get_cluster0 e); h_cindex = Z0; h_coffpos = Z0;
                      h_closed = false }
                    in
                    bind
                      (if m.m_truncate
                       then bind (h_seek s1 h0 e Z0 Z0) (fun h1 ->
                              h_truncate s1 h1 None)
                       else Ok (s1, h0)) (fun x ->
                      let (s2, h2) = x in
                      bind
                        (if m.m_appending
                         then bind (find_in_dir s2 h2) (fun e2 ->
                                h_seek s2 h2 e2 Z0 (Zpos (XO XH)))
                         else Ok h2) (fun h3 -> Ok (s2, h3))))))

(** val mount : dev -> z -> bool -> bool -> (st * bool) res **)

let mount d dsize ro pc =
  let boot =
    dread d dsize Z0 (Zpos (XO (XO (XO (XO (XO (XO (XO (XO (XO XH))))))))))
  in
  if Nat.ltb (length boot) (S (S (S (S (S (S (S (S (S (S (S (S (S (S (S (S (S
       (S (S (S (S (S (S (S (S (S (S (S (S (S (S (S (S (S (S (S (S (S (S (S
       (S (S (S (S (S (S (S (S (S (S (S (S (S (S (S (S (S (S (S (S (S (S (S
       (S (S (S (S (S (S (S (S (S (S (S (S (S (S (S (S (S (S (S (S (S (S (S
       (S (S (S (S (S (S (S (S (S (S (S (S (S (S (S (S (S (S (S (S (S (S (S
       (S (S (S (S (S (S (S (S (S (S (S (S (S (S (S (S (S (S (S (S (S (S (S
       (S (S (S (S (S (S (S (S (S (S (S (S (S (S (S (S (S (S (S (S (S (S (S
       (S (S (S (S (S (S (S (S (S (S (S (S (S (S (S (S (S (S (S (S (S (S (S
       (S (S (S (S (S (S (S (S (S (S (S (S (S (S (S (S (S (S (S (S (S (S (S
       (S (S (S (S (S (S (S (S (S (S (S (S (S (S (S (S (S (S (S (S (S (S (S
       (S (S (S (S (S (S (S (S (S (S (S (S (S (S (S (S (S (S (S (S (S (S (S
       (S (S (S (S (S (S (S (S (S (S (S (S (S (S (S (S (S (S (S (S (S (S (S
       (S (S (S (S (S (S (S (S (S (S (S (S (S (S (S (S (S (S (S (S (S (S (S
       (S (S (S (S (S (S (S (S (S (S (S (S (S (S (S (S (S (S (S (S (S (S (S
       (S (S (S (S (S (S (S (S (S (S (S (S (S (S (S (S (S (S (S (S (S (S (S
       (S (S (S (S (S (S (S (S (S (S (S (S (S (S (S (S (S (S (S (S (S (S (S
       (S (S (S (S (S (S (S (S (S (S (S (S (S (S (S (S (S (S (S (S (S (S (S
       (S (S (S (S (S (S (S (S (S (S (S (S (S (S (S (S (S (S (S (S (S (S (S
       (S (S (S (S (S (S (S (S (S (S (S (S (S (S (S (S (S (S (S (S (S (S (S
       (S (S (S (S (S (S (S (S (S (S (S (S (S (S (S (S (S (S (S (S (S (S (S
       (S (S (S (S (S (S (S (S (S (S (S (S (S (S (S (S (S (S (S (S (S (S (S
       (S (S (S (S (S (S (S (S (S (S (S (S (S (S (S (S (S (S (S (S (S (S (S
       (S (S (S (S (S (S (S (S (S (S (S (S
       O))))))))))))))))))))))))))))))))))))))))))))))))))))))))))))))))))))))))))))))))))))))))))))))))))))))))))))))))))))))))))))))))))))))))))))))))))))))))))))))))))))))))))))))))))))))))))))))))))))))))))))))))))))))))))))))))))))))))))))))))))))))))))))))))))))))))))))))))))))))))))))))))))))))))))))))))))))))))))))))))))))))))))))))))))))))))))))))))))))))))))))))))))))))))))))))))))))))))))))))))))))))))))))))))))))))))))))))))))))))))))))))))))))))))))))))))))))))))))))))))))))))))))))))))))))))))))))))))
  then Err EIO
  else let h0 = parse_hdr boot in
       bind (Gen.verify_bpb_header h0) (fun _ ->
         let p = Gen.parse_header_geometry pf_init h0 in
         if negb
              (Z.eqb
                (un_le
                  (slice boot (Zpos (XO (XI (XI (XI (XI (XI (XI (XI
                    XH))))))))) (Zpos (XO (XO (XO (XO (XO (XO (XO (XO (XO
                    XH)))))))))))) (Zpos (XI (XO (XI (XO (XI (XO (XI (XO (XO
                (XI (XO (XI (XO (XI (XO XH)))))))))))))))))
         then Err EPYFAT
         else let p0 =
                set_bytes_per_cluster p
                  (Z.mul h0.bPB_BytsPerSec h0.bPB_SecPerClus)
              in
              let fsz = Z.mul h0.bPB_BytsPerSec p0._fat_size in
              let fb =
                dread d dsize (Z.mul h0.bPB_RsvdSecCnt h0.bPB_BytsPerSec) fsz
              in
              if negb (Z.eqb (lenZ fb) fsz)
              then Err EPYFAT
              else let t0 = p0.fat_type in
                   let s = { s_h = h0; s_p = p0; s_ro = ro; s_pc = pc;
                     s_fat = (parse_fat t0 fb); s_hi =
                     (if Z.eqb t0 (Zpos (XO (XO (XO (XO (XO XH))))))
                      then parse32hi fb
                      else []); s_hint = Z0; s_dev = d; s_dsize = dsize;
                     s_log = []; s_handles = [] }
                   in
                   let dirty = is_dirty s in
                   bind (if ro then Ok s else mark_dirty s) (fun s1 ->
                     bind (read_dir s1 (root_loc s1)) (fun _ -> Ok (s1,
                       dirty))))

(** val op_close : st -> st res **)

let op_close s =
  if s.s_ro then Ok s else mark_clean s
