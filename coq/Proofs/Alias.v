(** Short-alias generation ([EightDotThree.make_8dot3_name], byte level): for EVERY name record and EVERY directory the
    generated alias is not one of the short names already in the directory, keeps a stem whenever the name has any
    usable character, is never "an extension only" (the form [set_str_name] rejects, D37) and fits 8 + 3 bytes. *)
From Coq Require Import ZArith List Bool Lia ZifyBool.
From PyFatV Require Import Base.Bytes Base.PyEnv Gen.Pure Model.Codec Model.Dir.
Import ListNotations.
Open Scope Z_scope.

Lemma map_chars_len b : lenZ (map_chars b) <= lenZ b.
Proof.
  unfold lenZ. induction b as [|c r IH]; [cbn; lia|]. cbn [map_chars flat_map]. fold (map_chars r). rewrite app_length. cbn [length].
  destruct (c =? 32); [cbn [length]; lia|]. destruct (in_list c Gen.INVALID_CHARACTERS); cbn [length]; lia.
Qed.

Lemma alias_loop_spec fuel : forall i b e taken b' e', 0 <= i ->
  alias_loop fuel i b e taken = Ok (b', e') ->
  e' = e /\ existsb (list_eqb (join_ext b' e')) taken = false /\ (b <> [] -> b' <> []) /\ (lenZ b <= 8 -> lenZ b' <= 8).
Proof.
  induction fuel as [|f IH]; intros i b e taken b' e' Hi H; [discriminate|]. cbn [alias_loop] in H.
  destruct (7 <? lenZ (digits i) + 1) eqn:E7; [discriminate|].
  set (bn := if 0 <? i then firstn (Z.to_nat (8 - (1 + lenZ (digits i)))) b ++ [126] ++ digits i else b) in H.
  assert (Hne : b <> [] -> bn <> []).
  { intros Hb. unfold bn. destruct (0 <? i); [|exact Hb]. intros Hc. apply app_eq_nil in Hc. destruct Hc as [_ Hc]. discriminate. }
  assert (Hlen : lenZ b <= 8 -> lenZ bn <= 8).
  { intros Hb. unfold bn. destruct (0 <? i); [|exact Hb]. unfold lenZ in *. rewrite !app_length, firstn_length. cbn [length]. lia. }
  destruct (existsb (list_eqb (join_ext bn e)) taken) eqn:Et.
  - apply IH in H; [|lia]. destruct H as (He & Hf & Hn & Hl). repeat split; try assumption.
    + intros Hb. apply Hn, Hne, Hb.
    + intros Hb. apply Hl, Hlen, Hb.
  - inversion H; subst. repeat split; assumption.
Qed.

(** a later round always carries a tail, so its stem is never empty *)
Lemma alias_loop_tail fuel : forall i b e taken b' e', 0 < i -> alias_loop fuel i b e taken = Ok (b', e') -> b' <> [].
Proof.
  induction fuel as [|f IH]; intros i b e taken b' e' Hi H; [discriminate|]. cbn [alias_loop] in H.
  destruct (7 <? lenZ (digits i) + 1); [discriminate|].
  assert (E : (0 <? i) = true) by lia. rewrite E in H.
  destruct (existsb _ taken); [eapply IH; [|exact H]; lia|]. inversion H; subst. intros Hc. apply app_eq_nil in Hc. destruct Hc as [_ Hc]. discriminate.
Qed.

Definition taken_of (es:list dirent) : list (list Z) := map (fun x => sfn_display (d_name x)) (ge_dirs es ++ ge_files es).

Theorem alias_spec n es b e : make_8dot3 n es = Ok (b, e) ->
  existsb (list_eqb (join_ext b e)) (taken_of es) = false /\
  (map_chars (n_base n) <> [] \/ map_chars (n_ext n) <> [] -> b <> []) /\
  (b = [] -> e = []) /\
  (lenZ (n_base n) <= 8 -> lenZ (n_ext n) <= 3 -> lenZ b <= 8 /\ lenZ e <= 3).
Proof.
  unfold make_8dot3. fold (taken_of es). pose proof (map_chars_len (n_base n)) as Lb. pose proof (map_chars_len (n_ext n)) as Le.
  destruct (map_chars (n_base n)) as [|c r] eqn:Eb; intros H; apply alias_loop_spec in H; try lia; destruct H as (He & Hf & Hn & Hl); subst e.
  - split; [exact Hf|]. split; [|split].
    + intros [Hc|Hc]; [contradiction|]. apply Hn, Hc.
    + intros _. reflexivity.
    + intros _ H3. split; [apply Hl; lia|cbn; lia].
  - split; [exact Hf|]. split; [|split].
    + intros _. apply Hn. discriminate.
    + intros Hc. exfalso. apply Hn; [discriminate|exact Hc].
    + intros H8 H3. split; [apply Hl; lia|lia].
Qed.

(** the model of [set_str_name] in [new_names] rejects exactly "no stem but an extension": the generator never produces it *)
Corollary alias_accepted n es b e : make_8dot3 n es = Ok (b, e) ->
  (match b, e with [], _ :: _ => true | _, _ => false end) = false.
Proof. intros H. destruct (alias_spec n es b e H) as (_ & _ & Hx & _). destruct b; [rewrite (Hx eq_refl); reflexivity|reflexivity]. Qed.

(** * The stored 11 bytes show the alias again, and the directory keeps pairwise different short names *)
From Coq Require Import Permutation.
From PyFatV Require Import Proofs.FatCodec Proofs.DirCodec.

Lemma rstrip_pad_nil k : rstrip_sp (pad_sp k []) = [].
Proof. induction k as [|k IH]; [reflexivity|]. cbn [pad_sp rstrip_sp]. rewrite IH. reflexivity. Qed.
Lemma rstrip_pad k : forall l, Forall (fun c => c <> 32) l -> (length l <= k)%nat -> rstrip_sp (pad_sp k l) = l.
Proof.
  induction k as [|k IH]; intros l Hl Hk.
  - destruct l; [reflexivity|cbn in Hk; lia].
  - destruct l as [|x r]; [apply rstrip_pad_nil|]. cbn [pad_sp rstrip_sp]. inversion Hl as [|? ? Hx Hr]; subst.
    rewrite (IH r Hr) by (cbn in Hk; lia). destruct r; [|reflexivity]. destruct (x =? 32) eqn:E; [lia|reflexivity].
Qed.
Lemma pad_sp_length k : forall l, length (pad_sp k l) = k.
Proof. induction k as [|k IH]; intros l; [reflexivity|]. destruct l; cbn [pad_sp length]; rewrite IH; reflexivity. Qed.

Definition okc (c:Z) : Prop := 32 < c /\ c <> 46.
Lemma okc_nosp l : Forall okc l -> Forall (fun c => c <> 32) l.
Proof. intros H. eapply Forall_impl; [|exact H]. unfold okc. intros; lia. Qed.

Theorem unpack_pack b e : Forall okc b -> Forall okc e -> (length b <= 8)%nat -> (length e <= 3)%nat ->
  sfn_unpack (sfn_pack b e) = (b, e).
Proof.
  intros Hb He Lb Le. unfold sfn_unpack, sfn_pack. rewrite sfn_lead_roundtrip.
  - rewrite firstn_app, skipn_app, !pad_sp_length. change (8 - 8)%nat with 0%nat. rewrite firstn_O, skipn_O.
    rewrite app_nil_r. rewrite (firstn_all2 (n:=8) (pad_sp 8 b)) by (rewrite pad_sp_length; lia).
    rewrite (skipn_all2 (n:=8) (pad_sp 8 b)) by (rewrite pad_sp_length; lia).
    change ([] ++ pad_sp 3 e) with (pad_sp 3 e). rewrite (firstn_all2 (n:=3) (pad_sp 3 e)) by (rewrite pad_sp_length; lia).
    rewrite (rstrip_pad 8 b (okc_nosp _ Hb) Lb), (rstrip_pad 3 e (okc_nosp _ He) Le). reflexivity.
  - destruct b as [|x r]; [cbn; lia|]. cbn. inversion Hb as [|? ? Hx _]; subst. unfold okc in Hx. lia.
Qed.
Corollary display_pack b e : Forall okc b -> Forall okc e -> (length b <= 8)%nat -> (length e <= 3)%nat ->
  sfn_display (sfn_pack b e) = join_ext b e.
Proof. intros Hb He Lb Le. unfold sfn_display. rewrite unpack_pack by assumption. reflexivity. Qed.

(** every byte of a generated alias is a character above the space and not a dot *)
Lemma map_chars_okc l : Forall (fun c => 32 <= c) l -> Forall okc (map_chars l).
Proof.
  induction l as [|c r IH]; intros H; [constructor|]. inversion H as [|? ? Hc Hr]; subst. cbn [map_chars flat_map]. fold (map_chars r).
  destruct (c =? 32) eqn:E; [exact (IH Hr)|]. destruct (in_list c Gen.INVALID_CHARACTERS) eqn:Ei; cbn [app].
  - constructor; [unfold okc; lia|exact (IH Hr)].
  - constructor; [|exact (IH Hr)]. split; [lia|]. intros ->. vm_compute in Ei. discriminate.
Qed.
Lemma digits_fuel_okc f : forall n acc, 0 <= n -> Forall okc acc -> Forall okc (digits_fuel f n acc).
Proof.
  induction f as [|f IH]; intros n acc Hn Ha; [exact Ha|]. cbn [digits_fuel]. destruct (n <? 10) eqn:E.
  - constructor; [unfold okc; lia|exact Ha].
  - apply IH; [apply Z.div_pos; lia|]. constructor; [|exact Ha]. pose proof (Z.mod_pos_bound n 10 ltac:(lia)). unfold okc; lia.
Qed.
Lemma firstn_forall {A} (P:A->Prop) k : forall l, Forall P l -> Forall P (firstn k l).
Proof. induction k as [|k IH]; intros l H; [constructor|]. destruct l; [constructor|]. inversion H; subst. cbn [firstn]. constructor; [assumption|apply IH; assumption]. Qed.
Lemma alias_loop_okc fuel : forall i b e taken b' e', 0 <= i -> Forall okc b -> alias_loop fuel i b e taken = Ok (b', e') -> Forall okc b'.
Proof.
  induction fuel as [|f IH]; intros i b e taken b' e' Hi Hb H; [discriminate|]. cbn [alias_loop] in H.
  destruct (7 <? lenZ (digits i) + 1); [discriminate|].
  set (bn := if 0 <? i then firstn (Z.to_nat (8 - (1 + lenZ (digits i)))) b ++ [126] ++ digits i else b) in H.
  assert (Hbn : Forall okc bn).
  { unfold bn. destruct (0 <? i); [|exact Hb]. apply Forall_app. split; [apply firstn_forall; exact Hb|].
    apply Forall_app. split; [constructor; [unfold okc; lia|constructor]|]. unfold digits. apply digits_fuel_okc; [exact Hi|constructor]. }
  destruct (existsb _ taken); [eapply IH; [|exact Hbn|exact H]; lia|]. inversion H; subst. exact Hbn.
Qed.

Lemma list_eqb_neq a b : list_eqb a b = false -> a <> b.
Proof. intros H ->. rewrite list_eqb_refl in H. discriminate. Qed.
Lemma existsb_eqb_notin x l : existsb (list_eqb x) l = false -> ~ In x l.
Proof. intros H Hin. rewrite <- not_true_iff_false in H. apply H. apply existsb_exists. exists x. split; [exact Hin|apply list_eqb_refl]. Qed.

(** what [make_8dot3] returns, with everything the stored form needs *)
Theorem alias_stored n es b e :
  Forall (fun c => 32 <= c) (n_base n) -> Forall (fun c => 32 <= c) (n_ext n) -> lenZ (n_base n) <= 8 -> lenZ (n_ext n) <= 3 ->
  make_8dot3 n es = Ok (b, e) ->
  sfn_display (sfn_pack b e) = join_ext b e /\ ~ In (sfn_display (sfn_pack b e)) (taken_of es) /\
  sfn_display (sfn_pack b e) <> [46] /\ sfn_display (sfn_pack b e) <> [46;46].
Proof.
  intros Hb He Lb Le H. destruct (alias_spec n es b e H) as (Hfresh & _ & Hx & Hlen). specialize (Hlen Lb Le). destruct Hlen as [L8 L3].
  assert (Ob : Forall okc b /\ Forall okc e).
  { unfold make_8dot3 in H. pose proof (map_chars_okc _ Hb) as Mb. pose proof (map_chars_okc _ He) as Me.
    destruct (map_chars (n_base n)) as [|c r]; pose proof H as H'; apply alias_loop_okc in H; try lia; try assumption;
    apply alias_loop_spec in H'; try lia; destruct H' as (-> & _); split; try assumption; constructor. }
  destruct Ob as [Ob Oe]. unfold lenZ in L8, L3.
  assert (D : sfn_display (sfn_pack b e) = join_ext b e) by (apply display_pack; try assumption; lia).
  rewrite D. split; [reflexivity|]. split; [apply existsb_eqb_notin; exact Hfresh|].
  assert (Hd : forall r, join_ext b e <> 46 :: r).
  { intros r. destruct b as [|x xs].
    - rewrite (Hx eq_refl). cbn. discriminate.
    - inversion Ob as [|? ? Hxo _]; subst. unfold join_ext. destruct e; cbn [app]; intros Hc; inversion Hc; subst; unfold okc in Hxo; lia. }
  split; apply Hd.
Qed.

Lemma list_eqb_true a : forall b, list_eqb a b = true -> a = b.
Proof.
  induction a as [|x r IH]; intros [|y s] H; try discriminate; [reflexivity|]. cbn [list_eqb] in H. apply andb_true_iff in H. destruct H as [H1 H2].
  apply Z.eqb_eq in H1. rewrite (IH s H2), H1. reflexivity.
Qed.
Lemma list_eqb_false a b : a <> b -> list_eqb a b = false.
Proof. intros H. destruct (list_eqb a b) eqn:E; [|reflexivity]. exfalso. apply H, list_eqb_true, E. Qed.

Lemma taken_of_app es x : is_special x = false -> is_volid x = false ->
  Permutation (taken_of (es ++ [x])) (sfn_display (d_name x) :: taken_of es).
Proof.
  intros Hs Hv. unfold taken_of, ge_dirs, ge_files. rewrite !filter_app. cbn [filter]. rewrite Hs, Hv. cbn [orb negb andb].
  destruct (is_dir x); cbn [negb app]; rewrite ?app_nil_r, !map_app; cbn [map].
  - rewrite <- app_assoc. cbn [app]. symmetry. apply Permutation_middle.
  - rewrite app_assoc. symmetry. rewrite <- map_app. apply Permutation_cons_append.
Qed.

(** a new entry whose short name is the generated alias keeps the short names of the directory pairwise different *)
Theorem new_entry_keeps_short_names_unique n es b e x :
  Forall (fun c => 32 <= c) (n_base n) -> Forall (fun c => 32 <= c) (n_ext n) -> lenZ (n_base n) <= 8 -> lenZ (n_ext n) <= 3 ->
  make_8dot3 n es = Ok (b, e) -> d_name x = sfn_pack b e -> is_volid x = false ->
  NoDup (taken_of es) -> NoDup (taken_of (es ++ [x])).
Proof.
  intros Hb He Lb Le H Hn Hv Hnd. destruct (alias_stored n es b e Hb He Lb Le H) as (_ & Hfresh & Hd1 & Hd2).
  assert (Hs : is_special x = false).
  { unfold is_special. rewrite Hn. rewrite (list_eqb_false _ _ Hd1), (list_eqb_false _ _ Hd2). reflexivity. }
  eapply Permutation_NoDup; [symmetry; apply taken_of_app; assumption|]. constructor; [rewrite Hn; exact Hfresh|exact Hnd].
Qed.


(** * the same through [new_names], as [create] / [makedir] / [move] use it *)
From PyFatV Require Import Model.FS.
Lemma new_names_alias s n es sfn lfn : new_names s n es = Ok (sfn, lfn) -> exists b e, make_8dot3 n es = Ok (b, e) /\ sfn = sfn_pack b e.
Proof.
  unfold new_names. destruct (make_8dot3 n es) as [[b e]|] eqn:E; [|discriminate]. cbn [bind]. intros H. exists b, e. split; [reflexivity|].
  rewrite (alias_accepted n es b e E) in H.
  destruct (negb _ || _); [|congruence].
  destruct (n_conform n && _); [discriminate|]. destruct (255 <? _); [discriminate|]. congruence.
Qed.
Theorem created_entry_keeps_short_names_unique s n es sfn lfn attr t :
  Forall (fun c => 32 <= c) (n_base n) -> Forall (fun c => 32 <= c) (n_ext n) -> lenZ (n_base n) <= 8 -> lenZ (n_ext n) <= 3 ->
  new_names s n es = Ok (sfn, lfn) -> Z.land Gen.ATTR_VOLUME_ID attr = 0 ->
  NoDup (taken_of es) -> NoDup (taken_of (es ++ [set_lfn (new_dirent sfn attr t) lfn])).
Proof.
  intros Hb He Lb Le H Ha Hnd. destruct (new_names_alias _ _ _ _ _ H) as (b & e & E & ->).
  apply (new_entry_keeps_short_names_unique n es b e _ Hb He Lb Le E); [reflexivity| |exact Hnd].
  unfold is_volid, set_lfn, new_dirent, d_attr. rewrite Ha. reflexivity.
Qed.
Lemma alias_loop_not_einval f : forall i b0 e0 tk, alias_loop f i b0 e0 tk <> Err EINVAL.
Proof. induction f as [|f IH]; intros i b0 e0 tk; cbn [alias_loop]; [discriminate|]. destruct (7 <? _); [discriminate|]. destruct (existsb _ tk); [apply IH|discriminate]. Qed.
Theorem new_names_never_refuses_alias s n es : new_names s n es = Err EINVAL ->
  exists b e, make_8dot3 n es = Ok (b, e) /\ n_conform n = true.
Proof.
  unfold new_names. destruct (make_8dot3 n es) as [[b e]|er] eqn:E; cbn [bind]; intros H.
  - exists b, e. split; [reflexivity|]. rewrite (alias_accepted n es b e E) in H.
    destruct (negb _ || _); [|discriminate]. destruct (n_conform n) eqn:C; [reflexivity|]. cbn [andb] in H. destruct (255 <? _); discriminate.
  - exfalso. assert (er = EINVAL) by congruence. subst er. unfold make_8dot3 in E.
    destruct (map_chars (n_base n)); eapply alias_loop_not_einval; exact E.
Qed.
