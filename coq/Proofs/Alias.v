(** Short-alias generation ([EightDotThree.make_8dot3_name], byte level): for EVERY name record and EVERY directory the
    generated alias is not one of the short names already in the directory, keeps a stem whenever the name has any
    usable character, is never "an extension only" (the form [set_str_name] rejects, D37) and fits 8 + 3 bytes. *)
From Coq Require Import ZArith List Bool Lia ZifyBool.
From PyFatV Require Import Base.Bytes Base.PyEnv Gen.Pure Model.Codec Model.Dir.
Import ListNotations.
Open Scope Z_scope.

Lemma map_chars_len b : lenZ (map_chars b) <= lenZ b.
Proof.
  unfold lenZ. induction b as [|c r IH]; [cbn; lia|]. cbn [map_chars flat_map]. fold (map_chars r). rewrite app_length. cbn [length].
  destruct (c =? 32); [cbn [length]; lia|]. destruct (in_list c Gen.INVALID_CHARACTERS); cbn [length]; lia.
Qed.

Lemma alias_loop_spec fuel : forall i b e taken b' e', 0 <= i ->
  alias_loop fuel i b e taken = Ok (b', e') ->
  e' = e /\ existsb (list_eqb (join_ext b' e')) taken = false /\ (b <> [] -> b' <> []) /\ (lenZ b <= 8 -> lenZ b' <= 8).
Proof.
  induction fuel as [|f IH]; intros i b e taken b' e' Hi H; [discriminate|]. cbn [alias_loop] in H.
  destruct (7 <? lenZ (digits i) + 1) eqn:E7; [discriminate|].
  set (bn := if 0 <? i then firstn (Z.to_nat (8 - (1 + lenZ (digits i)))) b ++ [126] ++ digits i else b) in H.
  assert (Hne : b <> [] -> bn <> []).
  { intros Hb. unfold bn. destruct (0 <? i); [|exact Hb]. intros Hc. apply app_eq_nil in Hc. destruct Hc as [_ Hc]. discriminate. }
  assert (Hlen : lenZ b <= 8 -> lenZ bn <= 8).
  { intros Hb. unfold bn. destruct (0 <? i); [|exact Hb]. unfold lenZ in *. rewrite !app_length, firstn_length. cbn [length]. lia. }
  destruct (existsb (list_eqb (join_ext bn e)) taken) eqn:Et.
  - apply IH in H; [|lia]. destruct H as (He & Hf & Hn & Hl). repeat split; try assumption.
    + intros Hb. apply Hn, Hne, Hb.
    + intros Hb. apply Hl, Hlen, Hb.
  - inversion H; subst. repeat split; assumption.
Qed.

(** a later round always carries a tail, so its stem is never empty *)
Lemma alias_loop_tail fuel : forall i b e taken b' e', 0 < i -> alias_loop fuel i b e taken = Ok (b', e') -> b' <> [].
Proof.
  induction fuel as [|f IH]; intros i b e taken b' e' Hi H; [discriminate|]. cbn [alias_loop] in H.
  destruct (7 <? lenZ (digits i) + 1); [discriminate|].
  assert (E : (0 <? i) = true) by lia. rewrite E in H.
  destruct (existsb _ taken); [eapply IH; [|exact H]; lia|]. inversion H; subst. intros Hc. apply app_eq_nil in Hc. destruct Hc as [_ Hc]. discriminate.
Qed.

Definition taken_of (es:list dirent) : list (list Z) := map (fun x => sfn_display (d_name x)) (ge_dirs es ++ ge_files es).

Theorem alias_spec n es b e : make_8dot3 n es = Ok (b, e) ->
  existsb (list_eqb (join_ext b e)) (taken_of es) = false /\
  (map_chars (n_base n) <> [] \/ map_chars (n_ext n) <> [] -> b <> []) /\
  (b = [] -> e = []) /\
  (lenZ (n_base n) <= 8 -> lenZ (n_ext n) <= 3 -> lenZ b <= 8 /\ lenZ e <= 3).
Proof.
  unfold make_8dot3. fold (taken_of es). pose proof (map_chars_len (n_base n)) as Lb. pose proof (map_chars_len (n_ext n)) as Le.
  destruct (map_chars (n_base n)) as [|c r] eqn:Eb; intros H; apply alias_loop_spec in H; try lia; destruct H as (He & Hf & Hn & Hl); subst e.
  - split; [exact Hf|]. split; [|split].
    + intros [Hc|Hc]; [contradiction|]. apply Hn, Hc.
    + intros _. reflexivity.
    + intros _ H3. split; [apply Hl; lia|cbn; lia].
  - split; [exact Hf|]. split; [|split].
    + intros _. apply Hn. discriminate.
    + intros Hc. exfalso. apply Hn; [discriminate|exact Hc].
    + intros H8 H3. split; [apply Hl; lia|lia].
Qed.

(** the model of [set_str_name] in [new_names] rejects exactly "no stem but an extension": the generator never produces it *)
Corollary alias_accepted n es b e : make_8dot3 n es = Ok (b, e) ->
  (match b, e with [], _ :: _ => true | _, _ => false end) = false.
Proof. intros H. destruct (alias_spec n es b e H) as (_ & _ & Hx & _). destruct b; [rewrite (Hx eq_refl); reflexivity|reflexivity]. Qed.
