(** C03 over histories, composed: a mounted volume, ANY history of create / makedir / remove / removedir / handle close, then close — mounting the
    device again yields exactly the closed state.  The premises speak about the state the history STARTS from only (they are what a mount
    establishes); everything [close_then_mount_ro] needs at the end of the history is derived from the invariants of [Quiesce]. *)
From Coq Require Import ZArith List Bool Lia ZifyBool Relations.
From PyFatV Require Import Base.Bytes Base.Sweep Base.PyEnv Gen.Pure Model.Codec Model.Dir Model.FS Proofs.FatCodec Proofs.FatTable Proofs.Device Proofs.DirCodec Proofs.DirState Proofs.Chains Proofs.Session Proofs.FatState Proofs.HdrState Proofs.Identity Proofs.Geometry Proofs.FatBound Proofs.BootSafe Proofs.Inside Proofs.Quiesce Proofs.Remount.
Import ListNotations.
Open Scope Z_scope.

Lemma land_lor_absorb x m : Z.land (Z.lor x m) m = m.
Proof. apply Z.bits_inj'. intros n Hn. rewrite Z.land_spec, Z.lor_spec. destruct (Z.testbit x n), (Z.testbit m n); reflexivity. Qed.
Lemma lor_bound n a b : 0 < n -> 0 <= a < 2 ^ n -> 0 <= b < 2 ^ n -> 0 <= Z.lor a b < 2 ^ n.
Proof.
  intros Hn Ha Hb. assert (H0 : 0 <= Z.lor a b) by (apply Z.lor_nonneg; lia). split; [exact H0|].
  destruct (Z.eq_dec (Z.lor a b) 0) as [E|E]; [rewrite E; apply Z.pow_pos_nonneg; lia|].
  apply Z.log2_lt_pow2; [lia|]. rewrite Z.log2_lor by lia.
  assert (La : Z.log2 a < n) by (destruct (Z.eq_dec a 0) as [->|]; [cbn; lia|apply Z.log2_lt_pow2; lia]).
  assert (Lb : Z.log2 b < n) by (destruct (Z.eq_dec b 0) as [->|]; [cbn; lia|apply Z.log2_lt_pow2; lia]).
  lia.
Qed.
Lemma Forall_updZ (P:Z -> Prop) (l:list Z) k v : Forall P l -> P v -> Forall P (updZ l k v).
Proof.
  intros Hl Hv. apply Forall_nthZ. intros i Hi. unfold lenZ in Hi. rewrite updZ_length in Hi.
  destruct (Z_lt_le_dec k 0) as [Hk|Hk].
  - unfold updZ. replace (Z.to_nat k) with (Z.to_nat 0) by lia. fold (updZ l 0 v). rewrite nthZ_updZ_cases by lia.
    destruct ((i =? 0) && (0 <? lenZ l)); [exact Hv|apply nthZ_Forall; [exact Hl|unfold lenZ; lia]].
  - rewrite nthZ_updZ_cases by lia. destruct ((i =? k) && (k <? lenZ l)); [exact Hv|apply nthZ_Forall; [exact Hl|unfold lenZ; lia]].
Qed.

Theorem remount_after_quiescent_history s s1 s2 pc es :
  qinv s -> synced s ->
  hdr_wf (s_h s) -> Gen.verify_bpb_header (s_h s) = Ok tt ->
  s_p s = set_bytes_per_cluster (Gen.parse_header_geometry pf_init (s_h s)) (BPB_BytsPerSec (s_h s) * BPB_SecPerClus (s_h s)) ->
  0 <= BS_Reserved1 (s_h s) < 256 -> 512 <= s_dsize s -> 1 <= BPB_NumFATs (s_h s) ->
  (ft s = Gen.FAT_TYPE_FAT32 -> 512 <= BPB_BkBootSec (s_h s) * bps s /\ BPB_BkBootSec (s_h s) * bps s + 512 <= fat_start s) ->
  (ft s <> 32 -> s_hi s = []) -> 1 < lenZ (s_fat s) ->
  clos_refl_trans st qstep s s1 -> mark_clean s1 = Ok s2 -> read_dir s2 (root_loc s2) = Ok es ->
  mount (s_dev s2) (s_dsize s) true pc = Ok (reset s2 true pc, false).
Proof.
  intros Hq Hsy Hwf Hver Hsp Hr1 Hsz Hnf Hbk Hhi Hlen Hh Hc Hrd.
  destruct (quiescent_history_synced _ _ Hq Hsy Hh) as [Hq1 Hsy1].
  assert (Hw : clos_refl_trans st wstep s s1).
  { clear - Hh. induction Hh as [x y H| |x y z _ IH1 _ IH2]; [apply rt_step; apply qstep_wstep; exact H|apply rt_refl|eapply rt_trans; eassumption]. }
  pose proof Hq as (Hp & Hs & _).
  pose proof (history_J _ _ Hp Hw) as (A1 & A2 & A3 & A4 & A5 & [L _] & _).
  destruct (frame_eqs s s1 A1 A2) as (E1 & _ & _ & _ & E5 & _ & E7 & E8 & _).
  pose proof Hq1 as ((Hv1 & Hg1 & _) & _ & Hd1 & Hfw1 & Hl1 & Hfit1).
  rewrite <- A5.
  apply (close_then_mount_ro s1 s2 pc es); try assumption.
  - rewrite A1. exact Hwf.
  - rewrite A1. exact Hver.
  - rewrite A1, A2. exact Hsp.
  - rewrite A1. exact Hr1.
  - rewrite A5. exact Hsz.
  - destruct Hg1 as (_ & _ & _ & H4 & _). exact H4.
  - rewrite A1. exact Hnf.
  - rewrite E1, A1, E5, E7. exact Hbk.
  - (* the table with the clean-shutdown bit set is still well-formed *)
    unfold fat_c. destruct (shutdown_mask (ft s1)) as [m|] eqn:Em; [|destruct s1; exact Hfw1].
    unfold shutdown_mask in Em. unfold fat_wf in *. cbn [s_fat s_hi upd_fat]. change (ft (upd_fat s1 _ _)) with (ft s1).
    destruct Hfw1 as [[E12 H]|[[E16 H]|(E32 & H & Hh2 & Hl2)]].
    + rewrite E12 in Em. discriminate.
    + right. left. split; [exact E16|]. rewrite E16 in Em. cbn in Em. inversion Em; subst m. apply Forall_updZ; [exact H|].
      assert (1 < lenZ (s_fat s1)) by lia. pose proof (nthZ_Forall _ _ 1 H ltac:(lia)) as H1. cbv beta in H1.
      apply lor_bound; [lia|exact H1|vm_compute; split; [discriminate|reflexivity]].
    + right. right. split; [exact E32|]. rewrite E32 in Em. cbn in Em. inversion Em; subst m. split; [|split; [exact Hh2|rewrite updZ_length; exact Hl2]].
      apply Forall_updZ; [exact H|]. assert (1 < lenZ (s_fat s1)) by lia. pose proof (nthZ_Forall _ _ 1 H ltac:(lia)) as H1. cbv beta in H1.
      apply lor_bound; [lia|exact H1|vm_compute; split; [discriminate|reflexivity]].
  - unfold fat_c. destruct (shutdown_mask (ft s1)); [|exact Hl1]. unfold lenZ in *. rewrite (pack_fat_length (ft s1) _ (s_fat s1) (s_hi s1)) by apply updZ_length. exact Hl1.
  - rewrite E1, A3. exact Hhi.
  - intros _. destruct (Hsy1 0 ltac:(rewrite A1; lia)) as [H0 _]. rewrite Z.mul_0_l, Z.add_0_r in H0. exact H0.
  - intros m _. split; [apply land_lor_absorb|lia].
Qed.
