(** State level: what [write_dir] puts on the device, [read_dir] reads back — for the fixed root region and for
    cluster-chain directories.  The model keeps no directory cache, so this is also what a re-mount reads. *)
From Coq Require Import ZArith List Bool Lia FMapPositive ZifyBool.
From PyFatV Require Import Base.Bytes Base.Sweep Base.PyEnv Gen.Pure Model.Codec Model.Dir Model.FS Proofs.DirCodec Proofs.Device Proofs.FatTable.
Import ListNotations.
Open Scope Z_scope.
Ltac Zify.zify_post_hook ::= Z.to_euclidean_division_equations.

(** ** lengths *)
Lemma flat_ser_lfn_length sl : Forall lslot_ok sl -> length (flat_map ser_lfnslot sl) = (32 * length sl)%nat.
Proof.
  induction sl as [|x r IH]; intros H; [reflexivity|]. inversion H as [|? ? Hx Hr]; subst.
  cbn [flat_map length]. rewrite app_length, IH by exact Hr. rewrite ser_lfnslot_length by (apply Hx). lia.
Qed.
Lemma ser_dirent_length e : entry_ok e -> length (ser_dirent e) = (32 * nslots e)%nat.
Proof.
  intros ((Hs & _) & Hl). unfold ser_dirent, nslots. destruct (d_lfn e) as [sl|].
  - destruct Hl as (Ha & Hf & _). rewrite (sort_desc_asc sl Ha), app_length, ser_short_length by exact Hs.
    rewrite flat_ser_lfn_length, rev_length; [lia|]. apply Forall_forall. intros x Hx. apply in_rev in Hx. rewrite Forall_forall in Hf. auto.
  - cbn [app]. rewrite ser_short_length by exact Hs. reflexivity.
Qed.
Lemma ser_dir_length es : Forall entry_ok es -> length (ser_dir es) = (32 * nslots_dir es)%nat.
Proof.
  induction es as [|e r IH]; intros H; [reflexivity|]. inversion H as [|? ? He Hr]; subst.
  unfold ser_dir in *. cbn [flat_map nslots_dir fold_right]. rewrite app_length, IH, ser_dirent_length by assumption. fold (nslots_dir r). lia.
Qed.

(** ** scanning composes over concatenation (cluster by cluster = the whole byte string) *)
Lemma scan_empty f pend acc : scan_slots f [] pend acc = Ok (acc, pend, false).
Proof. destruct f; reflexivity. Qed.
Lemma scan_split n : forall b1 b2 f pend acc, length b1 = (32 * n)%nat ->
  scan_slots (n + f) (b1 ++ b2) pend acc =
  match scan_slots n b1 pend acc with
  | Ok (acc', pend', false) => scan_slots f b2 pend' acc'
  | r => r
  end.
Proof.
  induction n as [|m IH]; intros b1 b2 f pend acc Hl.
  - destruct b1; [|discriminate]. reflexivity.
  - assert (Hne : b1 <> []) by (intro; subst; discriminate).
    assert (Hne' : b1 ++ b2 <> []) by (destruct b1; [congruence|discriminate]).
    change (S m + f)%nat with (S (m + f)). rewrite !scan_nonempty_unfold by assumption. cbv zeta.
    assert (H1 : firstn 32 (b1 ++ b2) = firstn 32 b1).
    { rewrite firstn_app. replace (32 - length b1)%nat with 0%nat by lia. cbn [firstn]. apply app_nil_r. }
    assert (H2 : skipn 32 (b1 ++ b2) = skipn 32 b1 ++ b2).
    { rewrite skipn_app. replace (32 - length b1)%nat with 0%nat by lia. reflexivity. }
    assert (H3 : length (skipn 32 b1) = (32 * m)%nat) by (rewrite skipn_length; lia).
    rewrite H1, H2.
    destruct (length (firstn 32 b1) <? 32)%nat; [reflexivity|].
    destruct (nthZ (firstn 32 b1) 0 =? Gen.LAST_DIR_ENTRY_MARK); [reflexivity|].
    destruct (nthZ (firstn 32 b1) 0 =? Gen.FREE_DIR_ENTRY_MARK); [apply IH; exact H3|].
    destruct (Gen.is_lfn_entry _ _).
    + destruct (negb _); [reflexivity|]. destruct (existsb (lfnslot_eqb _) pend); [apply IH; exact H3|]. destruct (existsb _ _); [reflexivity|]. apply IH; exact H3.
    + apply IH; exact H3.
Qed.
Lemma scan_fuel_enough n k b pend acc : length b = (32 * n)%nat -> scan_slots (n + k) b pend acc = scan_slots n b pend acc.
Proof.
  intros H. rewrite <- (app_nil_r b) at 1. rewrite scan_split by exact H.
  destruct (scan_slots n b pend acc) as [[[a p] [|]]|e]; [reflexivity|apply scan_empty|reflexivity].
Qed.

(** ** states *)
Lemma write_at_ok s off data s' : write_at s off data = Ok s' ->
  s_ro s = false /\ s' = upd_dev s (dwrite (s_dev s) off data) ((off, data) :: s_log s).
Proof. unfold write_at. destruct (s_ro s); [discriminate|]. intros H; inversion H; auto. Qed.

(** * the fixed root region (FAT12 / FAT16) *)
Theorem root_dir_roundtrip s es s' :
  dev_ok (s_dev s) -> Forall entry_ok es -> 0 <= root_addr s -> 0 <= BPB_RootEntCnt (s_h s) ->
  BPB_RootEntCnt (s_h s) * 32 = root_dir_sectors (s_p s) * bps s ->
  root_addr s + root_dir_sectors (s_p s) * bps s <= s_dsize s ->
  write_dir s (-1) es = Ok s' -> read_dir s' (-1) = Ok (map canon es).
Proof.
  intros Hd He Ha Hr Hsz Hfit Hw. unfold write_dir in Hw. destruct (s_ro s) eqn:Ero; [discriminate|].
  change (is_root_fixed s (-1)) with true in Hw. cbv zeta in Hw.
  destruct (_ <? _) eqn:Efit; [discriminate|]. apply write_at_ok in Hw. destruct Hw as [_ ->].
  unfold read_dir. change (is_root_fixed _ (-1)) with true. cbv iota zeta.
  unfold rd, root_addr in *. cbn [s_dev s_dsize s_h s_p upd_dev] in *. unfold bps in *. cbn [s_h upd_dev].
  set (b := ser_dir es) in *. set (R := BPB_RootEntCnt (s_h s)) in *.
  set (data := b ++ zeros (root_dir_sectors (s_p s) * BPB_BytsPerSec (s_h s) - lenZ b)).
  assert (Hb : length b = (32 * nslots_dir es)%nat) by (apply ser_dir_length; exact He).
  assert (Hdl : lenZ data = R * 32).
  { unfold data, lenZ, zeros. rewrite app_length, repeat_length. unfold lenZ in *. lia. }
  rewrite <- Hdl. rewrite read_after_write by (try assumption; lia).
  assert (Hfuel : (length data / 32)%nat = Z.to_nat R).
  { unfold lenZ in Hdl. apply Nat2Z.inj. rewrite Nat2Z.inj_div. lia. }
  rewrite Hfuel. unfold data, zeros.
  replace (Z.to_nat (root_dir_sectors (s_p s) * BPB_BytsPerSec (s_h s) - lenZ b)) with (32 * (Z.to_nat R - nslots_dir es))%nat by (unfold lenZ in *; lia).
  destruct (Nat.eq_dec (Z.to_nat R) (nslots_dir es)) as [E|E].
  - rewrite E, Nat.sub_diag. cbn [repeat Nat.mul]. rewrite app_nil_r.
    replace (S (nslots_dir es)) with (nslots_dir es + 1)%nat by lia. rewrite read_what_was_written_full by exact He. reflexivity.
  - replace (S (Z.to_nat R)) with (nslots_dir es + S (Z.to_nat R - nslots_dir es))%nat by (unfold lenZ in *; lia).
    rewrite read_what_was_written by (try exact He; unfold lenZ in *; lia). reflexivity.
Qed.

(** * cluster chains *)
(** ** a chain the follower reports complete never visits a cluster twice *)
Lemma chain_go_fuel_indep f1 : forall f2 t dm fat i l1 l2,
  chain_go f1 t dm fat i = (l1, true) -> chain_go f2 t dm fat i = (l2, true) -> l1 = l2.
Proof.
  induction f1 as [|g1 IH]; intros f2 t dm fat i l1 l2 H1 H2; [discriminate|]. destruct f2 as [|g2]; [discriminate|].
  cbn [chain_go] in H1, H2. destruct ((i <? Gen.MIN_DATA_CLUSTER t) || (lenZ fat <=? i)); [discriminate|]. cbv zeta in H1, H2.
  destruct (is_data t dm (nthZ fat i)).
  - destruct (chain_go g1 t dm fat (nthZ fat i)) as [r1 o1] eqn:E1. destruct (chain_go g2 t dm fat (nthZ fat i)) as [r2 o2] eqn:E2.
    inversion H1; inversion H2; subst. f_equal. eapply IH; eassumption.
  - destruct (is_eoc t (nthZ fat i)); [|discriminate]. inversion H1; inversion H2; subst. reflexivity.
Qed.
Lemma chain_go_suffix f : forall t dm fat i l, chain_go f t dm fat i = (l, true) ->
  forall k, (k < length l)%nat -> exists f', chain_go f' t dm fat (nth k l 0) = (skipn k l, true).
Proof.
  induction f as [|g IH]; intros t dm fat i l H k Hk; [discriminate|].
  pose proof H as H0. cbn [chain_go] in H. destruct ((i <? Gen.MIN_DATA_CLUSTER t) || (lenZ fat <=? i)); [discriminate|]. cbv zeta in H.
  destruct (is_data t dm (nthZ fat i)).
  - destruct (chain_go g t dm fat (nthZ fat i)) as [r o] eqn:E. inversion H; subst. destruct k as [|j].
    + exists (S g). exact H0.
    + cbn [nth skipn]. eapply IH; [exact E|]. cbn [length] in Hk. lia.
  - destruct (is_eoc t (nthZ fat i)); [|discriminate]. inversion H; subst. destruct k as [|j]; [|cbn in Hk; lia].
    exists (S g). exact H0.
Qed.
Theorem chain_go_nodup f : forall t dm fat i l, chain_go f t dm fat i = (l, true) -> NoDup l.
Proof.
  induction f as [|g IH]; intros t dm fat i l H; [discriminate|].
  pose proof H as H0. cbn [chain_go] in H. destruct ((i <? Gen.MIN_DATA_CLUSTER t) || (lenZ fat <=? i)); [discriminate|]. cbv zeta in H.
  destruct (is_data t dm (nthZ fat i)).
  - destruct (chain_go g t dm fat (nthZ fat i)) as [r o] eqn:E. inversion H; subst. constructor; [|eapply IH; exact E].
    intros Hin. destruct (In_nth r i 0 Hin) as (k & Hk & Hnth).
    destruct (chain_go_suffix g t dm fat _ r E k Hk) as (f' & Hs). rewrite Hnth in Hs.
    pose proof (chain_go_fuel_indep _ _ _ _ _ _ _ _ H0 Hs) as Heq.
    apply (f_equal (@length Z)) in Heq. cbn [length] in Heq. rewrite skipn_length in Heq. lia.
  - destruct (is_eoc t (nthZ fat i)); [|discriminate]. inversion H; subst. constructor; [intros []|constructor].
Qed.

(** ** geometry *)
Definition geom_ok (s:st) : Prop :=
  0 < BPB_BytsPerSec (s_h s) /\ 0 < BPB_SecPerClus (s_h s) /\ 0 <= first_data_sector (s_p s) /\
  bpc s = BPB_SecPerClus (s_h s) * BPB_BytsPerSec (s_h s) /\ bpc s mod 32 = 0.
Lemma cluster_addr_lin s c : geom_ok s -> cluster_addr s c = first_data_sector (s_p s) * BPB_BytsPerSec (s_h s) + (c - 2) * bpc s.
Proof. intros (_ & _ & _ & Hb & _). unfold cluster_addr, Gen.get_data_cluster_address. rewrite Hb. cbv zeta. ring. Qed.
Lemma cluster_addr_nonneg s c : geom_ok s -> 2 <= c -> 0 <= cluster_addr s c.
Proof. intros G Hc. rewrite cluster_addr_lin by exact G. destruct G as (H1 & H2 & H3 & H4 & _). nia. Qed.
Lemma cluster_addr_disjoint s c c' : geom_ok s -> c <> c' ->
  cluster_addr s c + bpc s <= cluster_addr s c' \/ cluster_addr s c' + bpc s <= cluster_addr s c.
Proof. intros G Hc. rewrite !cluster_addr_lin by exact G. destruct G as (H1 & H2 & H3 & H4 & _). nia. Qed.

(** ** what a chain of clusters holds, read cluster by cluster *)
Definition read_chain (s:st) (cs:list Z) : list Z := flat_map (fun c => rd s (cluster_addr s c) (bpc s)) cs.
Definition inside (s:st) (c:Z) : Prop := 2 <= c /\ cluster_addr s c + bpc s <= s_dsize s.

Lemma write_chunks_spec cs : forall s data s',
  dev_ok (s_dev s) -> geom_ok s -> NoDup cs -> Forall (inside s) cs ->
  length data = (length cs * Z.to_nat (bpc s))%nat ->
  write_chunks s cs data = Ok s' ->
  (exists d l, s' = upd_dev s d l) /\ dev_ok (s_dev s') /\ read_chain s' cs = data /\
  (forall c, 2 <= c -> ~ In c cs -> rd s' (cluster_addr s c) (bpc s) = rd s (cluster_addr s c) (bpc s)).
Proof.
  induction cs as [|c r IH]; intros s data s' Hd G Hnd Hin Hlen Hw.
  - cbn in Hw. inversion Hw; subst. destruct data; [|discriminate]. split; [exists (s_dev s'), (s_log s'); destruct s'; reflexivity|]. auto.
  - cbn [write_chunks] in Hw. cbv zeta in Hw. set (n := Z.to_nat (bpc s)) in *.
    assert (Hn : (0 < n)%nat) by (destruct G as (H1 & H2 & _ & H4 & _); unfold n; nia).
    inversion Hnd as [|? ? Hnc Hndr]; subst. inversion Hin as [|? ? Hc Hr]; subst. destruct Hc as [Hc2 Hcin].
    destruct (write_at s (cluster_addr s c) (firstn n data)) as [s1|] eqn:E1; [|discriminate]. cbn [bind] in Hw.
    apply write_at_ok in E1. destruct E1 as [_ E1].
    assert (Hca : 0 <= cluster_addr s c) by (apply cluster_addr_nonneg; assumption).
    assert (Hfl : lenZ (firstn n data) = bpc s) by (unfold lenZ; rewrite firstn_length; cbn [length] in Hlen; lia).
    assert (Hd1 : dev_ok (s_dev s1)) by (subst s1; cbn [s_dev upd_dev]; apply dwrite_spec; assumption).
    assert (Hrd1 : rd s1 (cluster_addr s c) (bpc s) = firstn n data).
    { subst s1. unfold rd. cbn [s_dev s_dsize upd_dev]. rewrite <- Hfl. apply read_after_write; [assumption|assumption|lia]. }
    assert (Hfr1 : forall c', 2 <= c' -> c' <> c -> rd s1 (cluster_addr s c') (bpc s) = rd s (cluster_addr s c') (bpc s)).
    { intros c' H2 Hne. subst s1. unfold rd. cbn [s_dev s_dsize upd_dev]. apply read_elsewhere; [assumption|assumption|apply cluster_addr_nonneg; assumption|].
      rewrite Hfl. destruct (cluster_addr_disjoint s c c' G ltac:(congruence)); lia. }
    destruct (length data <=? n)%nat eqn:Elast.
    + inversion Hw; subst s'. clear Hw. assert (r = []) by (destruct r; [reflexivity|cbn [length] in Hlen; apply Nat.leb_le in Elast; nia]). subst r.
      split; [exists (dwrite (s_dev s) (cluster_addr s c) (firstn n data)), ((cluster_addr s c, firstn n data) :: s_log s); exact E1|].
      split; [exact Hd1|]. split.
      * unfold read_chain. cbn [flat_map]. rewrite app_nil_r. replace (cluster_addr s1 c) with (cluster_addr s c) by (subst s1; reflexivity).
        replace (bpc s1) with (bpc s) by (subst s1; reflexivity). rewrite Hrd1. apply firstn_all2. apply Nat.leb_le in Elast. exact Elast.
      * intros c' H2 Hni. apply Hfr1; [exact H2|]. intro; subst; apply Hni; left; reflexivity.
    + assert (G1 : geom_ok s1) by (subst s1; exact G).
      assert (Hin1 : Forall (inside s1) r) by (subst s1; exact Hr).
      assert (Hlen1 : length (skipn n data) = (length r * Z.to_nat (bpc s1))%nat).
      { rewrite skipn_length. replace (bpc s1) with (bpc s) by (subst s1; reflexivity). cbn [length] in Hlen. fold n. lia. }
      destruct (IH s1 (skipn n data) s' Hd1 G1 Hndr Hin1 Hlen1 Hw) as ((d & l & Es') & Hd' & Hrc & Hfr).
      split; [exists d, l; rewrite Es', E1; reflexivity|]. split; [exact Hd'|]. split.
      * unfold read_chain in *. cbn [flat_map].
        assert (Ea : forall x, cluster_addr s' x = cluster_addr s x) by (intros; rewrite Es', E1; reflexivity).
        assert (Eb : bpc s' = bpc s) by (rewrite Es', E1; reflexivity).
        assert (Ea1 : forall x, cluster_addr s1 x = cluster_addr s x) by (intros; rewrite E1; reflexivity).
        assert (Eb1 : bpc s1 = bpc s) by (rewrite E1; reflexivity).
        rewrite Hrc, Ea, Eb. specialize (Hfr c Hc2 Hnc). rewrite Ea1, Eb1 in Hfr. rewrite Hfr, Hrd1. apply firstn_skipn.
      * intros c' H2 Hni.
        assert (Ea1 : forall x, cluster_addr s1 x = cluster_addr s x) by (intros; rewrite E1; reflexivity).
        assert (Eb1 : bpc s1 = bpc s) by (rewrite E1; reflexivity).
        specialize (Hfr c' H2 ltac:(intro; apply Hni; right; assumption)). rewrite Ea1, Eb1 in Hfr. rewrite Hfr.
        apply Hfr1; [exact H2|]. intro; subst; apply Hni; left; reflexivity.
Qed.

(** ** reading a directory chain cluster by cluster = scanning the concatenated bytes *)
Lemma scan_chain_flat s m cs : forall pend acc,
  (forall c, In c cs -> length (rd s (cluster_addr s c) (bpc s)) = (32 * m)%nat) ->
  scan_chain s cs pend acc =
  match scan_slots (length cs * m) (read_chain s cs) pend acc with Ok (a, _, _) => Ok a | Err e => Err e end.
Proof.
  induction cs as [|c r IH]; intros pend acc Hl; [reflexivity|].
  cbn [scan_chain]. cbv zeta. unfold read_chain in *. cbn [flat_map length].
  assert (Hc : length (rd s (cluster_addr s c) (bpc s)) = (32 * m)%nat) by (apply Hl; left; reflexivity).
  replace (S (length (rd s (cluster_addr s c) (bpc s)) / 32)) with (m + 1)%nat by (rewrite Hc, Nat.mul_comm, Nat.div_mul; lia).
  rewrite scan_fuel_enough by exact Hc. replace (S (length r) * m)%nat with (m + length r * m)%nat by lia.
  rewrite scan_split by exact Hc.
  destruct (scan_slots m (rd s (cluster_addr s c) (bpc s)) pend acc) as [[[a p] [|]]|e]; cbn [bind]; try reflexivity.
  apply IH. intros c' Hc'. apply Hl. right. exact Hc'.
Qed.

(** ** states that differ only in FAT / device / log keep their geometry *)
Definition same_geo (s s':st) : Prop := s_h s' = s_h s /\ s_p s' = s_p s /\ s_dsize s' = s_dsize s /\ s_ro s' = s_ro s.
Lemma same_geo_refl s : same_geo s s. Proof. repeat split. Qed.
Lemma same_geo_trans a b c : same_geo a b -> same_geo b c -> same_geo a c.
Proof. unfold same_geo. intros (A1 & A2 & A3 & A4) (B1 & B2 & B3 & B4). repeat split; congruence. Qed.
Lemma same_geo_facts s s' : same_geo s s' ->
  (forall c, cluster_addr s' c = cluster_addr s c) /\ bpc s' = bpc s /\ ft s' = ft s /\ (geom_ok s -> geom_ok s') /\ (forall c, inside s c -> inside s' c).
Proof.
  intros (H1 & H2 & H3 & H4). unfold cluster_addr, bpc, ft, geom_ok, inside, cluster_addr, bpc. rewrite H1, H2, H3. auto.
Qed.
Lemma write_chunks_form cs : forall s data s', write_chunks s cs data = Ok s' -> exists d l, s' = upd_dev s d l.
Proof.
  induction cs as [|c r IH]; intros s data s' H.
  - inversion H; subst. exists (s_dev s'), (s_log s'). destruct s'; reflexivity.
  - cbn [write_chunks] in H. cbv zeta in H. destruct (write_at _ _ _) as [s1|] eqn:E; [|discriminate]. cbn [bind] in H.
    apply write_at_ok in E. destruct E as [_ E]. destruct (_ <=? _)%nat.
    + inversion H; subst. do 2 eexists; reflexivity.
    + apply IH in H. destruct H as (d & l & ->). subst s1. do 2 eexists; reflexivity.
Qed.
Lemma erase_clusters_dev cs : forall s s', dev_ok (s_dev s) -> geom_ok s -> Forall (fun c => 2 <= c) cs ->
  erase_clusters s cs = Ok s' -> dev_ok (s_dev s') /\ exists d l, s' = upd_dev s d l.
Proof.
  induction cs as [|c r IH]; intros s s' Hd G Hf H.
  - inversion H; subst. split; [exact Hd|]. exists (s_dev s'), (s_log s'). destruct s'; reflexivity.
  - cbn [erase_clusters] in H. destruct (write_at _ _ _) as [s1|] eqn:E; [|discriminate]. cbn [bind] in H.
    apply write_at_ok in E. destruct E as [_ E]. inversion Hf as [|? ? Hc Hr]; subst.
    apply IH in H; [| cbn [s_dev upd_dev]; apply dwrite_spec; [exact Hd | apply cluster_addr_nonneg; assumption] | exact G | exact Hr].
    destruct H as (Hd' & d & l & ->). split; [exact Hd'|]. do 2 eexists; reflexivity.
Qed.
Lemma allocate_dev s size erase cs s' : dev_ok (s_dev s) -> geom_ok s -> 0 <= s_hint s -> 2 <= Gen.MIN_DATA_CLUSTER (ft s) ->
  allocate s size erase = Ok (cs, s') -> dev_ok (s_dev s') /\ same_geo s s'.
Proof.
  intros Hd G Hh Hm Ha. destruct (allocate_sound s size erase cs s' Hh Ha) as [(_ & _ & Hf)|?]; [|lia].
  unfold allocate in Ha. destruct (s_ro s); [discriminate|]. destruct (alloc_scan _ _ _ _ _ _) as [l j]. destruct (negb _); [discriminate|].
  destruct erase.
  - destruct (erase_clusters _ l) as [s2|] eqn:E; [|discriminate]. cbn [bind] in Ha. inversion Ha; subst.
    apply erase_clusters_dev in E; [|exact Hd|exact G|eapply Forall_impl; [|exact Hf]; cbv beta; intros; lia].
    destruct E as (Hd' & d & l' & ->). split; [exact Hd'|repeat split].
  - inversion Ha; subst. split; [exact Hd|repeat split].
Qed.
Lemma chain_go_nonempty f t dm fat i l : chain_go f t dm fat i = (l, true) -> l <> [].
Proof.
  destruct f; [discriminate|]. cbn [chain_go]. destruct (_ || _); [discriminate|]. cbv zeta. destruct (is_data _ _ _).
  - destruct (chain_go f t dm fat _). intros H; inversion H. discriminate.
  - destruct (is_eoc _ _); [|discriminate]. intros H; inversion H. discriminate.
Qed.

(** ** the round trip for a directory held in a cluster chain.  The three hypotheses about the final state say that
    the directory's chain is intact, lies inside the device and has room for the entries; that [write_dir]'s
    own allocation always makes the last one true is the part not proved here. *)
Theorem chain_dir_roundtrip s c es s' cs :
  dev_ok (s_dev s) -> geom_ok s -> 0 <= s_hint s -> 2 <= Gen.MIN_DATA_CLUSTER (ft s) -> Forall entry_ok es -> c <> -1 ->
  write_dir s c es = Ok s' ->
  chain_all s' c = Ok cs -> Forall (inside s) cs -> lenZ (ser_dir es) <= lenZ cs * bpc s ->
  read_dir s' c = Ok (map canon es).
Proof.
  intros Hd G Hh Hm He Hc Hw Hch Hin Hroom.
  unfold write_dir in Hw. destruct (s_ro s) eqn:Ero; [discriminate|].
  assert (Enr : is_root_fixed s c = false) by (unfold is_root_fixed; lia). rewrite Enr in Hw. cbv zeta in Hw.
  unfold write_data_to_cluster in Hw. rewrite Ero in Hw. cbv zeta in Hw.
  set (b := ser_dir es) in *. destruct (chain s c) as [ch ok] eqn:Ech.
  match type of Hw with bind ?X _ = _ => destruct X as [s1|] eqn:E1; [|discriminate] end. cbn [bind] in Hw.
  assert (H1 : dev_ok (s_dev s1) /\ same_geo s s1).
  { destruct (_ <=? lenZ ch); [inversion E1; subst; split; [exact Hd|apply same_geo_refl]|].
    destruct (negb ok); [discriminate|]. destruct (allocate s _ true) as [[l s2]|] eqn:Ea; [|discriminate]. cbn [bind] in E1. inversion E1; subst.
    destruct (allocate_dev _ _ _ _ _ Hd G Hh Hm Ea) as [A B]. split; [exact A|]. destruct B as (B1 & B2 & B3 & B4). repeat split; assumption. }
  destruct H1 as [Hd1 Hg1]. clear E1.
  destruct (chain s1 c) as [ch1 ok1] eqn:Ech1.
  destruct (write_chunks_form _ _ _ _ Hw) as (d & l & Es').
  assert (Hg' : same_geo s1 s') by (rewrite Es'; repeat split).
  assert (Echs : chain s' c = chain s1 c) by (rewrite Es'; reflexivity).
  unfold chain_all in Hch. rewrite Echs, Ech1 in Hch. destruct ok1; [|discriminate]. inversion Hch; subst ch1. clear Hch.
  destruct (same_geo_facts _ _ Hg1) as (Ea1 & Eb1 & Et1 & Gg1 & Ins1).
  destruct (same_geo_facts _ _ Hg') as (Ea' & Eb' & Et' & Gg' & Ins').
  assert (Hnd : NoDup cs) by (eapply chain_go_nodup; exact Ech1).
  assert (Hne : cs <> []) by (eapply chain_go_nonempty; exact Ech1).
  assert (HB : 0 < bpc s) by (destruct G as (G1 & G2 & _ & G4 & _); nia).
  assert (Hneed : Z.max (Z.max 1 (ceil_div (lenZ b) (bpc s))) (lenZ cs) = lenZ cs).
  { assert (1 <= lenZ cs) by (destruct cs; [congruence|unfold lenZ; cbn [length]; lia]).
    assert (ceil_div (lenZ b) (bpc s) < lenZ cs + 1); [|lia]. unfold ceil_div.
    apply Z.div_lt_upper_bound; [exact HB|]. rewrite Z.mul_add_distr_l, Z.mul_comm. lia. }
  rewrite Hneed in Hw.
  set (B := Z.to_nat (bpc s)). assert (HBz : bpc s = Z.of_nat B) by (unfold B; lia).
  assert (Hb : length b = (32 * nslots_dir es)%nat) by (apply ser_dir_length; exact He).
  assert (Hlen : length (b ++ zeros (lenZ cs * bpc s - lenZ b)) = (length cs * Z.to_nat (bpc s1))%nat).
  { rewrite Eb1. fold B. unfold zeros. rewrite app_length, repeat_length. unfold lenZ in *. rewrite HBz in *. nia. }
  destruct (write_chunks_spec cs s1 _ s' Hd1 (Gg1 G) Hnd ltac:(eapply Forall_impl; [|exact Hin]; exact Ins1) Hlen Hw) as (_ & Hd' & Hrc & _).
  unfold read_dir. replace (is_root_fixed s' c) with false by (unfold is_root_fixed; lia).
  unfold chain_all. rewrite Echs, Ech1. cbn [bind].
  assert (Hm32 : exists m, B = (32 * m)%nat).
  { destruct G as (_ & _ & _ & _ & G5). exists (Z.to_nat (bpc s / 32)). unfold B. lia. }
  destruct Hm32 as (m & Hm32).
  rewrite (scan_chain_flat s' m cs).
  - rewrite Hrc. unfold zeros.
    assert (Hk : exists k, Z.to_nat (lenZ cs * bpc s - lenZ b) = (32 * k)%nat /\ (length cs * m = nslots_dir es + k)%nat).
    { exists (length cs * m - nslots_dir es)%nat. unfold lenZ in *. rewrite HBz, Hm32 in *. nia. }
    destruct Hk as (k & -> & ->). destruct k as [|k'].
    + cbn [repeat Nat.mul]. rewrite app_nil_r. rewrite read_what_was_written_full by exact He. reflexivity.
    + replace (nslots_dir es + S k')%nat with (nslots_dir es + S k')%nat by reflexivity.
      rewrite read_what_was_written by (try exact He; lia). reflexivity.
  - intros c0 Hc0. unfold rd. rewrite dread_spec.
    + rewrite map_length, zrange_length. rewrite Forall_forall in Hin. destruct (Ins' _ (Ins1 _ (Hin c0 Hc0))) as [_ Hfit].
      rewrite <- Hm32. unfold B. rewrite Eb', Eb1 in *. lia.
    + exact Hd'.
    + rewrite Ea', Ea1. apply cluster_addr_nonneg; [exact G|]. rewrite Forall_forall in Hin. apply Hin. exact Hc0.
Qed.

(** * the fixed root region (FAT12 / FAT16): a rewrite is ONE device write of exactly the region's size at the region's address —
    or it is refused because the serialised entries (32 bytes per SLOT, long-name slots included) do not fit; nothing is ever
    written behind the region *)
Theorem root_rewrite_exact s loc es s' : is_root_fixed s loc = true -> write_dir s loc es = Ok s' ->
  let sz := root_dir_sectors (s_p s) * bps s in
  lenZ (ser_dir es) <= sz /\
  exists data, s_log s' = (root_addr s, data) :: s_log s /\ lenZ data = sz /\ firstn (length (ser_dir es)) data = ser_dir es.
Proof.
  intros Hr H sz. unfold write_dir in H. destruct (s_ro s); [discriminate|]. cbv zeta in H. rewrite Hr in H. fold sz in H.
  destruct (sz <? lenZ (ser_dir es)) eqn:E; [discriminate|]. apply Z.ltb_ge in E. split; [exact E|].
  apply write_at_ok in H. destruct H as [_ ->]. eexists. split; [reflexivity|]. split.
  - unfold lenZ in *. rewrite app_length. unfold zeros. rewrite repeat_length. lia.
  - rewrite firstn_app, Nat.sub_diag, firstn_O, app_nil_r. apply firstn_all.
Qed.
Theorem root_rewrite_refused s loc es : is_root_fixed s loc = true -> s_ro s = false ->
  root_dir_sectors (s_p s) * bps s < lenZ (ser_dir es) -> write_dir s loc es = Err ENOSPC.
Proof. intros Hr Hro H. unfold write_dir. rewrite Hro, Hr. cbv zeta. apply Z.ltb_lt in H. rewrite H. reflexivity. Qed.
