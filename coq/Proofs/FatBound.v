(** An invariant by induction over operations (C04 / C08): every link stored in the FAT points inside the data area —
    at a cluster the volume really has — and every operation of the model keeps it that way.  Hence a chain that starts
    inside the data area stays inside it, forever, whatever the (sector-rounded, usually longer) FAT could address. *)
From Coq Require Import ZArith List Bool Lia ZifyBool Relations.
From PyFatV Require Import Base.Bytes Base.PyEnv Gen.Pure Model.Codec Model.Dir Model.FS Proofs.FatTable Proofs.Device Proofs.DirCodec Proofs.DirState Proofs.Chains Proofs.Session Proofs.FatState Proofs.HdrState Proofs.Identity.
Import ListNotations.
Open Scope Z_scope.

Definition bounded (t dm M:Z) (fat:list Z) : Prop := forall i, 2 <= i -> is_data t dm (nthZ fat i) = true -> nthZ fat i <= M.

Lemma updn_beyond {A} (l:list A) : forall i v, (length l <= i)%nat -> updn l i v = l.
Proof. induction l as [|x r IH]; intros [|k] v H; cbn in *; try reflexivity; try lia. rewrite IH by lia. reflexivity. Qed.
Lemma nthZ_updZ_cases l k v i : 0 <= k -> 0 <= i -> nthZ (updZ l k v) i = if (i =? k) && (k <? lenZ l) then v else nthZ l i.
Proof.
  intros Hk Hi. destruct (i =? k) eqn:E.
  - apply Z.eqb_eq in E. subst i. destruct (k <? lenZ l) eqn:E2; cbn [andb].
    + apply nthZ_updZ_same. lia.
    + unfold updZ. rewrite updn_beyond by (unfold lenZ in E2; lia). reflexivity.
  - cbn [andb]. apply nthZ_updZ_other; lia.
Qed.
Lemma bounded_updZ t dm M fat k v : bounded t dm M fat -> 0 <= k -> (is_data t dm v = true -> v <= M) -> bounded t dm M (updZ fat k v).
Proof.
  intros Hb Hk Hv i Hi. rewrite nthZ_updZ_cases by lia. destruct ((i =? k) && (k <? lenZ fat)); [exact Hv|apply Hb; exact Hi].
Qed.
Lemma bounded_updZ_low t dm M fat k v : bounded t dm M fat -> 0 <= k < 2 -> bounded t dm M (updZ fat k v).
Proof. intros Hb Hk i Hi. rewrite nthZ_updZ_other by lia. apply Hb. exact Hi. Qed.
Lemma bounded_link t dm M cs : vt t -> dok t dm -> forall fat, bounded t dm M fat -> Forall (fun c => 0 <= c <= M) cs -> bounded t dm M (link_chain fat cs (Gen.END_OF_CLUSTER_MAX t)).
Proof.
  intros Hv Hdm. induction cs as [|c [|d r] IH]; intros fat Hb Hf; [exact Hb| |].
  - cbn [link_chain]. inversion Hf as [|? ? Hc _]; subst. apply bounded_updZ; [exact Hb|lia|].
    intros H. rewrite (eoc_max_not_data t dm Hv Hdm) in H. discriminate.
  - change (link_chain fat (c :: d :: r) (Gen.END_OF_CLUSTER_MAX t)) with (link_chain (updZ fat c d) (d :: r) (Gen.END_OF_CLUSTER_MAX t)).
    inversion Hf as [|? ? Hc Hr]; subst. apply IH; [|exact Hr]. apply bounded_updZ; [exact Hb|lia|]. intros _. inversion Hr; subst. lia.
Qed.
Lemma bounded_free t dm M cs : vt t -> forall fat, bounded t dm M fat -> Forall (fun c => 0 <= c) cs ->
  bounded t dm M (fold_left (fun f cl => updZ f cl (Gen.FREE_CLUSTER t)) cs fat).
Proof.
  intros Hv. destruct (vt_consts _ Hv) as (Hmin & Hfree & _). induction cs as [|c r IH]; intros fat Hb Hf; [exact Hb|].
  cbn [fold_left]. inversion Hf as [|? ? Hc Hr]; subst. apply IH; [|exact Hr]. apply bounded_updZ; [exact Hb|exact Hc|].
  rewrite Hfree. unfold is_data. rewrite Hmin. lia.
Qed.

(** chains stay inside: every cluster the follower yields from a start inside the data area is inside the data area *)
Theorem bounded_chain t dm M fat : vt t -> bounded t dm M fat -> forall f i, 2 <= i <= M -> Forall (fun c => 2 <= c <= M) (fst (chain_go f t dm fat i)).
Proof.
  intros Hv Hb. destruct (vt_consts _ Hv) as (Hmin & _). induction f as [|g IH]; intros i Hi; [constructor|]. cbn [chain_go]. destruct (_ || _); [constructor|]. cbv zeta.
  destruct (is_data t dm (nthZ fat i)) eqn:Ed.
  - assert (Hn : 2 <= nthZ fat i <= M) by (split; [unfold is_data in Ed; rewrite Hmin in Ed; lia|apply Hb; [lia|exact Ed]]).
    specialize (IH (nthZ fat i) Hn). destruct (chain_go g t dm fat (nthZ fat i)) as [r ok]. cbn [fst] in *. constructor; [exact Hi|exact IH].
  - destruct (is_eoc t (nthZ fat i)); cbn [fst]; [constructor; [exact Hi|constructor]|constructor].
Qed.

(** * the invariant on states, and its preservation by every operation *)
Definition fb (s:st) : Prop := vt (ft s) /\ bounded (ft s) (dmax s) (max_cluster s) (s_fat s).
Definition K (s s':st) : Prop := s_h s' = s_h s /\ s_p s' = s_p s /\ (fb s -> fb s').
Lemma K_refl s : K s s. Proof. split; [reflexivity|]. split; [reflexivity|]. intros H; exact H. Qed.
Lemma K_trans a b c : K a b -> K b c -> K a c.
Proof. intros (A1 & A2 & A3) (B1 & B2 & B3). split; [congruence|]. split; [congruence|]. intros H. apply B3, A3, H. Qed.
Lemma K_samefat s s' : s_h s' = s_h s -> s_p s' = s_p s -> s_fat s' = s_fat s -> K s s'.
Proof. intros H1 H2 H3. split; [exact H1|]. split; [exact H2|]. unfold fb. rewrite (dmax_geo s s' H1 H2). unfold ft, max_cluster, count_of_clusters, total_sectors. rewrite H1, H2, H3. intros H; exact H. Qed.
Lemma K_newfat s f h : (fb s -> bounded (ft s) (dmax s) (max_cluster s) f) -> K s (upd_fat s f h).
Proof. intros H. split; [reflexivity|]. split; [reflexivity|]. intros Hs. split; [apply Hs|]. change (ft (upd_fat s f h)) with (ft s). change (max_cluster (upd_fat s f h)) with (max_cluster s). change (dmax (upd_fat s f h)) with (dmax s). apply H. exact Hs. Qed.

Lemma K_write_at s off d s' : write_at s off d = Ok s' -> K s s'.
Proof. intros H. apply write_at_ok in H. destruct H as [_ ->]. apply K_samefat; reflexivity. Qed.
Lemma K_flush_copies n : forall s b i s', flush_copies s b i n = Ok s' -> K s s'.
Proof.
  induction n as [|k IH]; intros s b i s' H; cbn [flush_copies] in H; [inversion H; subst; apply K_refl|].
  destruct (write_at s _ b) as [s1|] eqn:E; [|discriminate]. cbn [bind] in H. eapply K_trans; [eapply K_write_at; exact E|eapply IH; exact H].
Qed.
Lemma K_flush_fat s s' : flush_fat s = Ok s' -> K s s'.
Proof. unfold flush_fat. destruct (s_ro s); [discriminate|]. apply K_flush_copies. Qed.
Lemma K_write_chunks cs : forall s data s', write_chunks s cs data = Ok s' -> K s s'.
Proof.
  induction cs as [|c r IH]; intros s data s' H; [inversion H; subst; apply K_refl|]. cbn [write_chunks] in H. cbv zeta in H.
  destruct (write_at s _ _) as [s1|] eqn:E; [|discriminate]. cbn [bind] in H. destruct (_ <=? _)%nat; [inversion H; subst; eapply K_write_at; exact E|].
  eapply K_trans; [eapply K_write_at; exact E|eapply IH; exact H].
Qed.
Lemma K_erase_clusters cs : forall s s', erase_clusters s cs = Ok s' -> K s s'.
Proof.
  induction cs as [|c r IH]; intros s s' H; [inversion H; subst; apply K_refl|]. cbn [erase_clusters] in H.
  destruct (write_at s _ _) as [s1|] eqn:E; [|discriminate]. cbn [bind] in H. eapply K_trans; [eapply K_write_at; exact E|eapply IH; exact H].
Qed.
Lemma allocate_range s size e cs s' : allocate s size e = Ok (cs, s') -> Forall (fun c => 0 <= c <= max_cluster s) cs.
Proof.
  intros H. unfold allocate in H. destruct (s_ro s); [discriminate|].
  destruct (alloc_scan _ _ _ _ _ _) as [l j] eqn:Es. destruct (negb _); [discriminate|].
  assert (cs = l) by (destruct e; [destruct (erase_clusters _ l); inversion H; reflexivity|inversion H; reflexivity]). subst l.
  apply Forall_forall. intros x Hx.
  pose proof (alloc_scan_spec (s_fat s) (ft s) (max_cluster s) (Z.to_nat (lenZ (s_fat s) - Z.max 0 (s_hint s))) (Z.max 0 (s_hint s)) (Z.to_nat (Gen.calc_num_clusters (s_p s) size)) x) as Hsp.
  rewrite Es in Hsp. specialize (Hsp Hx). lia.
Qed.
Lemma K_allocate s size e cs s' : allocate s size e = Ok (cs, s') -> K s s'.
Proof.
  intros H. pose proof (allocate_range _ _ _ _ _ H) as Hr. unfold allocate in H. destruct (s_ro s); [discriminate|].
  destruct (alloc_scan _ _ _ _ _ _) as [l j]. destruct (negb _); [discriminate|].
  assert (K1 : K s (upd_fat s (link_chain (s_fat s) l (Gen.END_OF_CLUSTER_MAX (ft s))) j)).
  { apply K_newfat. intros [Hv Hb]. apply bounded_link; [exact Hv|apply dmax_dok; exact Hv|exact Hb|].
    assert (cs = l) by (destruct e; [destruct (erase_clusters _ l); inversion H; reflexivity|inversion H; reflexivity]). subst l. exact Hr. }
  destruct e.
  - destruct (erase_clusters _ l) as [s2|] eqn:E; [|discriminate]. cbn [bind] in H. inversion H; subst. eapply K_trans; [exact K1|eapply K_erase_clusters; exact E].
  - inversion H; subst. exact K1.
Qed.
Lemma chain_nonneg s c l ok : chain s c = (l, ok) -> Forall (fun x => 0 <= x) l.
Proof. intros H. eapply Forall_impl; [|exact (chain_members_bounded _ _ _ _ H)]. intros x Hx. cbv beta in Hx. lia. Qed.
Lemma K_free_chain s c s' : free_chain s c = Ok s' -> K s s'.
Proof.
  unfold free_chain. destruct (s_ro s); [discriminate|]. unfold chain_all. destruct (chain s c) as [l ok] eqn:Ec. destruct ok; [|discriminate]. cbn [bind].
  intros H; inversion H; subst. apply K_newfat. intros [Hv Hb]. apply bounded_free; [exact Hv|exact Hb|eapply chain_nonneg; exact Ec].
Qed.
Lemma last_nonneg (l:list Z) : Forall (fun x => 0 <= x) l -> 0 <= last l 0.
Proof. induction 1 as [|x r Hx Hr IH]; [cbn; lia|]. destruct r; [exact Hx|exact IH]. Qed.
Lemma K_wdc s data c e s' : write_data_to_cluster s data c e = Ok s' -> K s s'.
Proof.
  intros H. unfold write_data_to_cluster in H. destruct (s_ro s); [discriminate|]. cbv zeta in H.
  destruct (chain s c) as [ch ok] eqn:Ec.
  match type of H with bind ?X _ = _ => destruct X as [s1|] eqn:E1; [|discriminate] end. cbn [bind] in H.
  assert (K1 : K s s1).
  { destruct (_ <=? lenZ ch); [inversion E1; subst; apply K_refl|]. destruct (negb ok); [discriminate|].
    destruct (allocate s _ e) as [[l s2]|] eqn:Ea; [|discriminate]. cbn [bind] in E1. inversion E1; subst.
    pose proof (K_allocate _ _ _ _ _ Ea) as Ka. pose proof (allocate_range _ _ _ _ _ Ea) as Hr.
    eapply K_trans; [exact Ka|]. apply K_newfat. intros [Hv Hb].
    assert (Emax : max_cluster s2 = max_cluster s) by (destruct Ka as (A1 & A2 & _); unfold max_cluster, count_of_clusters, total_sectors; rewrite A1, A2; reflexivity).
    apply bounded_updZ; [exact Hb|apply last_nonneg; eapply chain_nonneg; exact Ec|].
    intros Hd. rewrite Emax. destruct l as [|x q]; [cbn [hd] in *; destruct (vt_consts _ Hv) as (Hmin & _); unfold is_data in Hd; rewrite Hmin in Hd; lia|].
    cbn [hd]. inversion Hr; subst. lia. }
  destruct (chain s1 c) as [ch1 ok1]. eapply K_trans; [exact K1|eapply K_write_chunks; exact H].
Qed.
Lemma K_write_dir s loc es s' : write_dir s loc es = Ok s' -> K s s'.
Proof.
  intros H. unfold write_dir in H. destruct (s_ro s); [discriminate|]. cbv zeta in H. destruct (is_root_fixed s loc).
  - destruct (_ <? _); [discriminate|]. eapply K_write_at; exact H.
  - eapply K_wdc; exact H.
Qed.

(** * whole operations (same mechanics as [BootSafe]) *)
Ltac hd_step H :=
  first [ discriminate H
  | match type of H with
    | bind ?X _ = _ => let E := fresh "E" in destruct X eqn:E; cbn [bind] in H
    | (match ?x with _ => _ end) = _ => let E := fresh "E" in destruct x eqn:E
    end ].
Ltac crush H := repeat hd_step H; cbn [bind] in H; try discriminate H.
Ltac vsubst s := repeat match goal with
  | H : ?x = ?y |- _ => is_var y; tryif constr_eq y s then fail else subst y
  | H : ?x = ?y |- _ => is_var x; tryif constr_eq x s then fail else subst x
  end.
Ltac open_all s := repeat match goal with
  | E : Ok _ = Ok _ |- _ => injection E; clear E; intros; vsubst s
  | E : (_, _) = (_, _) |- _ => injection E; clear E; intros; vsubst s
  | E : _ = Ok _ |- _ => progress (crush E)
  end.
Ltac have_K a y := lazymatch goal with | _ : K a y |- _ => fail | _ => idtac end.
Ltac Kstep a :=
  match goal with
  | Hr : K a ?x, E : write_dir ?x _ _ = Ok ?y |- _ => have_K a y; pose proof (K_trans _ _ _ Hr (K_write_dir _ _ _ _ E))
  | Hr : K a ?x, E : flush_fat ?x = Ok ?y |- _ => have_K a y; pose proof (K_trans _ _ _ Hr (K_flush_fat _ _ E))
  | Hr : K a ?x, E : free_chain ?x _ = Ok ?y |- _ => have_K a y; pose proof (K_trans _ _ _ Hr (K_free_chain _ _ _ E))
  | Hr : K a ?x, E : allocate ?x _ _ = Ok (_, ?y) |- _ => have_K a y; pose proof (K_trans _ _ _ Hr (K_allocate _ _ _ _ _ E))
  | Hr : K a ?x, E : write_data_to_cluster ?x _ _ _ = Ok ?y |- _ => have_K a y; pose proof (K_trans _ _ _ Hr (K_wdc _ _ _ _ _ E))
  end.
Ltac Kchain a := pose proof (K_refl a); repeat Kstep a; try assumption.

Lemma K_update_entry s h f s' : update_entry s h f = Ok s' -> K s s'.
Proof. intros H. unfold update_entry in H. open_all s. Kchain s. Qed.
Lemma K_remove_entry s ploc e s' : remove_entry s ploc e = Ok s' -> K s s'.
Proof. intros H. unfold remove_entry in H. open_all s; Kchain s. Qed.
Ltac Kstep2 a :=
  first [ Kstep a
  | match goal with
    | Hr : K a ?x, E : update_entry ?x _ _ = Ok ?y |- _ => have_K a y; pose proof (K_trans _ _ _ Hr (K_update_entry _ _ _ _ E))
    | Hr : K a ?x, E : remove_entry ?x _ _ = Ok ?y |- _ => have_K a y; pose proof (K_trans _ _ _ Hr (K_remove_entry _ _ _ _ E))
    end ].
Ltac Kchain2 a := pose proof (K_refl a); repeat Kstep2 a; try assumption.

Lemma K_op_create s p w t b s' : op_create s p w t = Ok (b, s') -> K s s'.
Proof. intros H. unfold op_create in H. open_all s; Kchain2 s. Qed.
Lemma K_op_makedir s p r t s' : op_makedir s p r t = Ok s' -> K s s'.
Proof. intros H. unfold op_makedir in H. open_all s; Kchain2 s. Qed.
Lemma K_op_remove s p s' : op_remove s p = Ok s' -> K s s'.
Proof. intros H. unfold op_remove in H. open_all s; Kchain2 s. Qed.
Lemma K_op_removedir s p s' : op_removedir s p = Ok s' -> K s s'.
Proof. intros H. unfold op_removedir in H. open_all s; Kchain2 s. Qed.
Lemma K_op_setinfo s p a b c s' : op_setinfo s p a b c = Ok s' -> K s s'.
Proof. intros H. unfold op_setinfo in H. open_all s; Kchain2 s. Qed.

Lemma fold_errK {A} (g:st -> A -> res st) l x : fold_left (fun acc e => do sa <- acc; g sa e) l (Err x) = Err x.
Proof. induction l as [|e r IH]; [reflexivity|]. cbn [fold_left bind]. exact IH. Qed.
Lemma fold_K {A} (g:st -> A -> res st) l : (forall sa e sb, g sa e = Ok sb -> K sa sb) ->
  forall s s', fold_left (fun acc e => do sa <- acc; g sa e) l (Ok s) = Ok s' -> K s s'.
Proof.
  intros Hg. induction l as [|e r IH]; intros s s' H; cbn [fold_left bind] in H; [inversion H; subst; apply K_refl|].
  destruct (g s e) as [s1|x] eqn:E; [|rewrite fold_errK in H; discriminate]. eapply K_trans; [eapply Hg; exact E|apply IH; exact H].
Qed.
Lemma K_rmtree_go f : forall s r s', rmtree_go f s r = Ok s' -> K s s'.
Proof.
  induction f as [|g IH]; intros s r s' H; [discriminate|]. cbn [rmtree_go] in H. cbv zeta in H.
  destruct (read_dir s (eref_loc s r)) as [es|] eqn:E; [|discriminate]. cbn [bind] in H.
  match type of H with bind ?X _ = _ => destruct X as [s1|] eqn:E1; [|discriminate] end. cbn [bind] in H.
  apply fold_K in E1; [|intros sa e sb He; eapply K_remove_entry; exact He].
  match type of H with bind ?X _ = _ => destruct X as [s2|] eqn:E2; [|discriminate] end. cbn [bind] in H.
  apply fold_K in E2; [|intros sa e sb He; eapply IH; exact He].
  pose proof (K_trans _ _ _ E1 E2) as K12. destruct r as [|ploc e]; [inversion H; subst; exact K12|].
  destruct (read_dir s2 (get_cluster e)); [|discriminate]. cbn [bind] in H. destruct (negb _); [discriminate|].
  eapply K_trans; [exact K12|eapply K_remove_entry; exact H].
Qed.
Lemma K_op_removetree s p s' : op_removetree s p = Ok s' -> K s s'.
Proof. intros H. unfold op_removetree in H. open_all s. eapply K_rmtree_go; eassumption. Qed.
Lemma K_h_write_raw s h e b s' h' : h_write_raw s h e b = Ok (s', h') -> K s s'.
Proof. intros H. unfold h_write_raw in H. open_all s; Kchain2 s. Qed.
Lemma K_h_write s h b s' h' : h_write s h b = Ok (s', h') -> K s s'.
Proof.
  intros H. unfold h_write in H. open_all s; try apply K_refl;
  match goal with E : h_write_raw s _ _ _ = Ok _ |- _ => eapply K_h_write_raw; exact E end.
Qed.
Lemma K_h_close s h s' h' : h_close s h = Ok (s', h') -> K s s'.
Proof. intros H. unfold h_close in H. open_all s; Kchain2 s. Qed.

Lemma nthZ_nonneg (l:list Z) i : Forall (fun x => 0 <= x) l -> 0 <= nthZ l i.
Proof. intros H. unfold nthZ. destruct (nth_in_or_default (Z.to_nat i) l 0) as [Hin|Heq]; [|rewrite Heq; lia]. rewrite Forall_forall in H. apply H. exact Hin. Qed.
Lemma K_set_eoc a x k h : K a x -> 0 <= k -> K a (upd_fat x (updZ (s_fat x) k (Gen.END_OF_CLUSTER_MAX (ft a))) h).
Proof.
  intros Hr Hk. eapply K_trans; [exact Hr|]. apply K_newfat. intros [Hv Hb].
  assert (Eft : ft x = ft a) by (destruct Hr as (_ & A & _); unfold ft; rewrite A; reflexivity). rewrite <- Eft.
  apply bounded_updZ; [exact Hb|exact Hk|]. intros H. rewrite (eoc_max_not_data _ _ Hv (dmax_dok _ Hv)) in H. discriminate.
Qed.
Ltac Kstep3 a :=
  first [ Kstep2 a
  | match goal with
    | Hr : K a ?x, E : h_write_raw ?x _ _ _ = Ok (?y, _) |- _ => have_K a y; pose proof (K_trans _ _ _ Hr (K_h_write_raw _ _ _ _ _ _ E))
    | Hr : K a ?x, Ec : chain a _ = (?cs, _), E : flush_fat (upd_fat ?x (updZ (s_fat ?x) (nthZ ?cs ?j) (Gen.END_OF_CLUSTER_MAX (ft a))) ?h) = Ok ?y |- _ =>
        have_K a y;
        pose proof (K_trans _ _ _ (K_set_eoc a x (nthZ cs j) h Hr (nthZ_nonneg cs j (chain_nonneg _ _ _ _ Ec))) (K_flush_fat _ _ E))
    end ].
Ltac Kchain3 a := pose proof (K_refl a); repeat Kstep3 a; try assumption.
Lemma K_h_truncate s h sz s' h' : h_truncate s h sz = Ok (s', h') -> K s s'.
Proof. intros H. unfold h_truncate in H. open_all s; Kchain3 s. Qed.
Lemma K_op_openbin s p m t s' h' : op_openbin s p m t = Ok (s', h') -> K s s'.
Proof.
  intros H. unfold op_openbin in H.
  match type of H with bind ?X _ = _ => destruct X as [s1|] eqn:E1; [|discriminate] end. cbn [bind] in H.
  assert (K1 : K s s1).
  { destruct (m_create m); [|inversion E1; subst; apply K_refl].
    match type of E1 with bind ?X _ = _ => destruct X; [|discriminate] end. cbn [bind] in E1.
    destruct (op_create s p false t) as [[b0 s0]|] eqn:Ec; [|discriminate]. cbn [bind snd] in E1. inversion E1; subst. eapply K_op_create; exact Ec. }
  destruct (op_getinfo s1 p); [|discriminate]. cbn [bind] in H. destruct (i_dir _); [discriminate|].
  destruct (lookup s1 p) as [[|ploc e]|]; try discriminate. cbn [bind] in H. destruct (is_volid e); [discriminate|]. cbv zeta in H.
  match type of H with bind ?X _ = _ => destruct X as [[s2 h2]|] eqn:E2; [|discriminate] end. cbn [bind] in H.
  assert (K2 : K s1 s2).
  { destruct (m_truncate m); [|inversion E2; subst; apply K_refl].
    match type of E2 with bind ?X _ = _ => destruct X; [|discriminate] end. cbn [bind] in E2. eapply K_h_truncate; exact E2. }
  match type of H with bind ?X _ = _ => destruct X; [|discriminate] end. cbn [bind] in H. inversion H; subst. eapply K_trans; eassumption.
Qed.

(** [mark_dirty] / [mark_clean] only touch FAT[1] *)
Lemma K_mark s f1 r1 s' :
  (do s1 <- (match shutdown_mask (ft s) with
             | Some m => flush_fat (upd_fat s (updZ (s_fat s) 1 (f1 (nthZ (s_fat s) 1) m)) (s_hint s))
             | None => Ok s end);
   write_bpb (upd_hdr s1 (set_reserved1 (s_h s1) (r1 (BS_Reserved1 (s_h s1)))))) = Ok s' ->
  s_p s' = s_p s /\ s_dsize s' = s_dsize s /\ (forall v, Gen.get_total_sectors (set_reserved1 (s_h s) v) = Gen.get_total_sectors (s_h s)) /\ (fb s -> bounded (ft s) (dmax s) (max_cluster s) (s_fat s')).
Proof.
  intros H. match type of H with bind ?X _ = _ => destruct X as [s1|] eqn:E1; [|discriminate] end. cbn [bind] in H.
  assert (H1 : s_p s1 = s_p s /\ s_dsize s1 = s_dsize s /\ (fb s -> bounded (ft s) (dmax s) (max_cluster s) (s_fat s1))).
  { destruct (shutdown_mask (ft s)) as [m|]; [|inversion E1; subst; repeat split; intros [_ Hb]; exact Hb].
    pose proof (K_flush_fat _ _ E1) as (A1 & A2 & _).
    assert (Ef : s_fat s1 = updZ (s_fat s) 1 (f1 (nthZ (s_fat s) 1) m) /\ s_dsize s1 = s_dsize s).
    { unfold flush_fat in E1. destruct (s_ro _); [discriminate|]. apply wrote_flush_copies in E1. destruct E1 as (_ & _ & _ & _ & B & _ & C & _). split; [exact B|exact C]. }
    destruct Ef as [Ef Es]. split; [exact A2|]. split; [exact Es|]. intros [_ Hb]. rewrite Ef. apply bounded_updZ_low; [exact Hb|lia]. }
  destruct H1 as (P1 & P2 & P3). apply wrote_write_bpb in H. destruct H as (_ & _ & _ & B4 & B5 & _ & B7 & _).
  split; [rewrite B4; exact P1|]. split; [rewrite B7; exact P2|]. split; [intros v; reflexivity|]. intros Hs. rewrite B5. apply P3. exact Hs.
Qed.

(** * histories *)
Inductive mstep : st -> st -> Prop :=
| ms_create s p w t b s' : op_create s p w t = Ok (b, s') -> mstep s s'
| ms_makedir s p r t s' : op_makedir s p r t = Ok s' -> mstep s s'
| ms_remove s p s' : op_remove s p = Ok s' -> mstep s s'
| ms_removedir s p s' : op_removedir s p = Ok s' -> mstep s s'
| ms_removetree s p s' : op_removetree s p = Ok s' -> mstep s s'
| ms_setinfo s p a b c s' : op_setinfo s p a b c = Ok s' -> mstep s s'
| ms_openbin s p m t s' h : op_openbin s p m t = Ok (s', h) -> mstep s s'
| ms_write s h b s' h' : h_write s h b = Ok (s', h') -> mstep s s'
| ms_truncate s h sz s' h' : h_truncate s h sz = Ok (s', h') -> mstep s s'
| ms_hclose s h s' h' : h_close s h = Ok (s', h') -> mstep s s'.
Theorem mstep_K s s' : mstep s s' -> K s s'.
Proof.
  intros H. destruct H;
  eauto using K_op_create, K_op_makedir, K_op_remove, K_op_removedir, K_op_removetree, K_op_setinfo, K_op_openbin, K_h_write, K_h_truncate, K_h_close.
Qed.
Theorem history_K s s' : clos_refl_trans st mstep s s' -> K s s'.
Proof. intros H. apply clos_rt_rt1n in H. induction H as [|x y z Hxy Hyz IH]; [apply K_refl|]. eapply K_trans; [apply mstep_K; exact Hxy|exact IH]. Qed.
(** the invariant holds after any history, and with it: every chain that starts inside the data area stays inside it *)
Theorem history_chains_inside s s' c : fb s -> clos_refl_trans st mstep s s' -> 2 <= c <= max_cluster s ->
  Forall (fun x => 2 <= x <= max_cluster s) (fst (chain s' c)).
Proof.
  intros Hs H Hc. destruct (history_K _ _ H) as (A1 & A2 & A3). destruct (A3 Hs) as [Hv Hb].
  assert (Em : max_cluster s' = max_cluster s) by (unfold max_cluster, count_of_clusters, total_sectors; rewrite A1, A2; reflexivity).
  destruct (chain s' c) as [l ok] eqn:E. cbn [fst]. eapply Forall_impl; [|exact (chain_members_bounded _ _ _ _ E)].
  intros x Hx. cbv beta in Hx. destruct (vt_consts _ Hv) as (Hmin & _). lia.
Qed.
(** (since D38 the follower itself refuses every cluster number beyond the last cluster, so the conclusion no longer needs the
    invariant; [fb] remains the statement about the LINKS stored in the table, which is what an independent reader follows) *)
Theorem history_links_bounded s s' : fb s -> clos_refl_trans st mstep s s' -> bounded (ft s) (dmax s) (max_cluster s) (s_fat s').
Proof.
  intros Hs H. destruct (history_K _ _ H) as (A1 & A2 & A3). destruct (A3 Hs) as [Hv Hb].
  assert (Em : max_cluster s' = max_cluster s) by (unfold max_cluster, count_of_clusters, total_sectors; rewrite A1, A2; reflexivity).
  rewrite <- Em, <- (dmax_geo s s' A1 A2). unfold ft in *. rewrite <- A2. exact Hb.
Qed.

(** a decidable sufficient check for concrete tables *)
Lemma bounded_of_forallb t dm M fat : forallb (fun v => negb (is_data t dm v) || (v <=? M)) (0 :: skipn 2 fat) = true -> bounded t dm M fat.
Proof.
  intros H i Hi Hd. rewrite forallb_forall in H.
  assert (Hin : In (nthZ fat i) (0 :: skipn 2 fat)).
  { unfold nthZ. replace (Z.to_nat i) with (2 + (Z.to_nat i - 2))%nat by lia. rewrite <- nth_skipn'.
    destruct (nth_in_or_default (Z.to_nat i - 2) (skipn 2 fat) 0) as [Hn|Hn]; [right; exact Hn|left; symmetry; exact Hn]. }
  specialize (H _ Hin). rewrite Hd in H. cbn [negb orb] in H. lia.
Qed.
