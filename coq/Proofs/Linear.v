(** C19: linearizability of sections that run under one lock, on an interleaving model with SHARED MUTABLE STATE.
    A thread is a list of sections; a section is a list of micro-steps [S -> S] (the pieces of one modifying operation:
    allocate, write the directory, flush the FAT ...) that the thread executes one at a time after acquiring the lock
    and before releasing it.  Any number of threads, any schedule (a list of thread ids; a thread that cannot move —
    finished, or blocked on the lock — is skipped), any state type [S].
    Theorem [linearizable]: in every reachable state in which the lock is free, the shared state is EXACTLY the result
    of running the logged sections one after the other, whole, in the order in which the lock was acquired; every
    thread's logged sections followed by its remaining ones are its program (nothing lost, duplicated or reordered);
    while a thread is inside a section the shared state is the sequential state of the log before that section with
    the section's executed prefix applied — no other thread's step is ever interleaved into it. *)
From Coq Require Import List Arith Bool Lia.
Import ListNotations.

Section Lin.
Variable S : Type.
Definition msteps := list (S -> S).
Definition apply_ms (ms:msteps) (s:S) : S := fold_left (fun s m => m s) ms s.
Definition seq_run (l:list (nat * msteps)) (s:S) : S := fold_left (fun s e => apply_ms (snd e) s) l s.
Definition secs_of (i:nat) (l:list (nat * msteps)) : list msteps := map snd (filter (fun e => Nat.eqb (fst e) i) l).

Record tstate := { todo : list msteps; cur : option msteps }.
Record glob := { sh : S; owner : option nat; ths : nat -> tstate; log : list (nat * msteps) }.
Definition upd (f:nat -> tstate) (i:nat) (v:tstate) : nat -> tstate := fun j => if Nat.eqb j i then v else f j.

(** one step of thread [i]: acquire (only when the lock is free), one micro-step, or release *)
Definition step (g:glob) (i:nat) : option glob :=
  let t := ths g i in
  match cur t with
  | Some [] => Some {| sh := sh g; owner := None; ths := upd (ths g) i {| todo := todo t; cur := None |}; log := log g |}
  | Some (m :: ms) => Some {| sh := m (sh g); owner := owner g; ths := upd (ths g) i {| todo := todo t; cur := Some ms |}; log := log g |}
  | None =>
    match todo t with
    | [] => None
    | sec :: rest =>
      match owner g with
      | None => Some {| sh := sh g; owner := Some i; ths := upd (ths g) i {| todo := rest; cur := Some sec |}; log := log g ++ [(i, sec)] |}
      | Some _ => None
      end
    end
  end.
Fixpoint run (g:glob) (sched:list nat) : glob :=
  match sched with
  | [] => g
  | i :: r => match step g i with Some g' => run g' r | None => run g r end
  end.
Definition init (progs:nat -> list msteps) (s0:S) : glob :=
  {| sh := s0; owner := None; ths := fun i => {| todo := progs i; cur := None |}; log := [] |}.

Variable progs : nat -> list msteps.
Variable s0 : S.

Definition Inv (g:glob) : Prop :=
  (forall i, cur (ths g i) <> None -> owner g = Some i) /\
  (match owner g with
   | None => sh g = seq_run (log g) s0
   | Some i => exists pre done ms, log g = pre ++ [(i, done ++ ms)] /\ cur (ths g i) = Some ms /\ sh g = apply_ms done (seq_run pre s0)
   end) /\
  (forall i, secs_of i (log g) ++ todo (ths g i) = progs i).

Lemma seq_run_app l1 l2 s : seq_run (l1 ++ l2) s = seq_run l2 (seq_run l1 s).
Proof. unfold seq_run. apply fold_left_app. Qed.
Lemma apply_ms_app a b s : apply_ms (a ++ b) s = apply_ms b (apply_ms a s).
Proof. unfold apply_ms. apply fold_left_app. Qed.
Lemma secs_of_app i l1 l2 : secs_of i (l1 ++ l2) = secs_of i l1 ++ secs_of i l2.
Proof. unfold secs_of. rewrite filter_app, map_app. reflexivity. Qed.

Lemma init_inv : Inv (init progs s0).
Proof. split; [|split]; cbn; [intros i H; congruence|reflexivity|intros i; reflexivity]. Qed.

Lemma upd_same f i v : upd f i v i = v.
Proof. unfold upd. rewrite Nat.eqb_refl. reflexivity. Qed.
Lemma upd_other f i v j : j <> i -> upd f i v j = f j.
Proof. intros H. unfold upd. destruct (Nat.eqb j i) eqn:E; [apply Nat.eqb_eq in E; contradiction|reflexivity]. Qed.

Lemma step_inv g i g' : Inv g -> step g i = Some g' -> Inv g'.
Proof.
  intros (Ha & Hb & Hc) H. unfold step in H. destruct (cur (ths g i)) as [[|m ms]|] eqn:Ec.
  - (* release *)
    inversion H; subst; clear H. assert (Ho : owner g = Some i) by (apply Ha; congruence). rewrite Ho in Hb.
    destruct Hb as (pre & done & ms & Hl & Hcur & Hs). rewrite Ec in Hcur. inversion Hcur; subst ms. rewrite app_nil_r in Hl.
    split; [|split]; cbn [owner sh ths log].
    + intros j Hj. destruct (Nat.eq_dec j i) as [->|Hne]; [rewrite upd_same in Hj; cbn in Hj; congruence|].
      rewrite upd_other in Hj by exact Hne. specialize (Ha j Hj). congruence.
    + rewrite Hl, seq_run_app. cbn. exact Hs.
    + intros j. destruct (Nat.eq_dec j i) as [->|Hne]; [rewrite upd_same; cbn [todo]; apply Hc|rewrite upd_other by exact Hne; apply Hc].
  - (* micro-step *)
    inversion H; subst; clear H. assert (Ho : owner g = Some i) by (apply Ha; congruence). rewrite Ho in Hb.
    destruct Hb as (pre & done & ms' & Hl & Hcur & Hs). rewrite Ec in Hcur. inversion Hcur; subst ms'.
    split; [|split]; cbn [owner sh ths log].
    + intros j Hj. destruct (Nat.eq_dec j i) as [->|Hne]; [exact Ho|]. rewrite upd_other in Hj by exact Hne. apply Ha. exact Hj.
    + rewrite Ho. exists pre, (done ++ [m]), ms. split; [rewrite <- app_assoc; exact Hl|]. split; [rewrite upd_same; reflexivity|].
      rewrite apply_ms_app. cbn. rewrite Hs. reflexivity.
    + intros j. destruct (Nat.eq_dec j i) as [->|Hne]; [rewrite upd_same; cbn [todo]; apply Hc|rewrite upd_other by exact Hne; apply Hc].
  - (* acquire *)
    destruct (todo (ths g i)) as [|sec rest] eqn:Et; [discriminate|]. destruct (owner g) eqn:Eo; [discriminate|].
    inversion H; subst; clear H. split; [|split]; cbn [owner sh ths log].
    + intros j Hj. destruct (Nat.eq_dec j i) as [->|Hne]; [reflexivity|]. rewrite upd_other in Hj by exact Hne. specialize (Ha j Hj). congruence.
    + exists (log g), [], sec. split; [reflexivity|]. split; [rewrite upd_same; reflexivity|]. cbn. exact Hb.
    + intros j. rewrite secs_of_app. destruct (Nat.eq_dec j i) as [->|Hne].
      * rewrite upd_same. cbn [todo]. unfold secs_of at 2. cbn [filter fst]. rewrite Nat.eqb_refl. cbn [map snd].
        rewrite <- app_assoc. cbn [app]. rewrite <- Et. apply Hc.
      * rewrite upd_other by exact Hne. unfold secs_of at 2. cbn [filter fst].
        destruct (Nat.eqb i j) eqn:E; [apply Nat.eqb_eq in E; congruence|]. cbn [map]. rewrite app_nil_r. apply Hc.
Qed.

Lemma run_inv sched : forall g, Inv g -> Inv (run g sched).
Proof.
  induction sched as [|i r IH]; intros g Hg; [exact Hg|]. cbn [run]. destruct (step g i) as [g'|] eqn:E; [|apply IH; exact Hg].
  apply IH. eapply step_inv; eassumption.
Qed.

Theorem linearizable sched : let g := run (init progs s0) sched in
  (owner g = None -> sh g = seq_run (log g) s0) /\
  (forall i, owner g = Some i -> exists pre done ms, log g = pre ++ [(i, done ++ ms)] /\ cur (ths g i) = Some ms /\ sh g = apply_ms done (seq_run pre s0)) /\
  (forall i, secs_of i (log g) ++ todo (ths g i) = progs i) /\
  (forall i j, cur (ths g i) <> None -> cur (ths g j) <> None -> i = j).
Proof.
  intros g. destruct (run_inv sched _ init_inv) as (Ha & Hb & Hc). fold g in Ha, Hb, Hc.
  split; [intros Ho; rewrite Ho in Hb; exact Hb|]. split; [intros i Ho; rewrite Ho in Hb; exact Hb|]. split; [exact Hc|].
  intros i j Hi Hj. pose proof (Ha i Hi) as Ei. pose proof (Ha j Hj) as Ej. congruence.
Qed.

(** when every thread has finished, the log is a complete interleaving of the programs and the state is its sequential result *)
Corollary all_done_is_sequential sched : let g := run (init progs s0) sched in
  (forall i, todo (ths g i) = [] /\ cur (ths g i) = None) -> owner g = None ->
  sh g = seq_run (log g) s0 /\ forall i, secs_of i (log g) = progs i.
Proof.
  intros g Hd Ho. destruct (linearizable sched) as (H1 & _ & H3 & _). fold g in H1, H3. split; [apply H1; exact Ho|].
  intros i. specialize (H3 i). destruct (Hd i) as [Ht _]. rewrite Ht, app_nil_r in H3. exact H3.
Qed.

(** * readers that mutate a cache (lazy directory loading): what a thread sees inside its section is what it would see alone *)
Section Abs.
Variable A : Type.
Variable abs : S -> A.
(** every section of every program leaves the abstraction unchanged as a whole (loading a directory into the cache does not
    change the tree), and micro-steps respect the abstraction *)
Hypothesis sec_pres : forall i sec, In sec (progs i) -> forall s, abs (apply_ms sec s) = abs s.
Hypothesis step_congr : forall i sec m, In sec (progs i) -> In m sec -> forall s s', abs s = abs s' -> abs (m s) = abs (m s').

Lemma in_secs_of i l sec : In sec (secs_of i l) -> In (i, sec) l.
Proof.
  unfold secs_of. intros H. apply in_map_iff in H. destruct H as ((j & sec') & E & H). apply filter_In in H. destruct H as [H Hj].
  cbn in E, Hj. apply Nat.eqb_eq in Hj. subst. exact H.
Qed.
Lemma logged_from_progs g : Inv g -> forall i sec, In (i, sec) (log g) -> In sec (progs i).
Proof.
  intros (_ & _ & Hc) i sec H. rewrite <- (Hc i). apply in_or_app. left. unfold secs_of. apply in_map_iff. exists (i, sec). split; [reflexivity|].
  apply filter_In. split; [exact H|]. cbn. apply Nat.eqb_refl.
Qed.
Lemma seq_run_abs l : (forall i sec, In (i, sec) l -> In sec (progs i)) -> forall s, abs (seq_run l s) = abs s.
Proof.
  induction l as [|(i, sec) r IH]; intros H s; [reflexivity|]. cbn [seq_run fold_left snd]. fold (seq_run r (apply_ms sec s)).
  rewrite IH by (intros j sc Hj; apply H; right; exact Hj). apply (sec_pres i); apply H; left; reflexivity.
Qed.
Lemma apply_ms_congr i sec done : In sec (progs i) -> (forall m, In m done -> In m sec) -> forall s s', abs s = abs s' -> abs (apply_ms done s) = abs (apply_ms done s').
Proof.
  intros Hs. induction done as [|m r IH]; intros Hd s s' E; [exact E|]. cbn [apply_ms fold_left]. fold (apply_ms r (m s)). fold (apply_ms r (m s')).
  apply IH; [intros x Hx; apply Hd; right; exact Hx|]. apply (step_congr i sec m Hs); [apply Hd; left; reflexivity|exact E].
Qed.

Theorem sections_see_initial_abstraction sched : let g := run (init progs s0) sched in
  (owner g = None -> abs (sh g) = abs s0) /\
  (forall i, owner g = Some i -> exists done ms, cur (ths g i) = Some ms /\ In (done ++ ms) (progs i) /\ abs (sh g) = abs (apply_ms done s0)).
Proof.
  intros g. pose proof (run_inv sched _ init_inv) as HI. fold g in HI. destruct (linearizable sched) as (H1 & H2 & _ & _). fold g in H1, H2.
  pose proof (logged_from_progs g HI) as Hlog. split.
  - intros Ho. rewrite (H1 Ho). apply seq_run_abs. exact Hlog.
  - intros i Ho. destruct (H2 i Ho) as (pre & done & ms & El & Ec & Es). exists done, ms. split; [exact Ec|].
    assert (Hin : In (done ++ ms) (progs i)) by (apply Hlog; rewrite El; apply in_or_app; right; left; reflexivity).
    split; [exact Hin|]. rewrite Es. apply (apply_ms_congr i (done ++ ms) done Hin); [intros m Hm; apply in_or_app; left; exact Hm|].
    apply seq_run_abs. intros j sc Hj. apply Hlog. rewrite El. apply in_or_app. left. exact Hj.
Qed.
End Abs.
End Lin.
