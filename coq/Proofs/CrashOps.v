(** C12, composition: "rewrite a directory held in a cluster chain, then flush the FAT" — the tail of create, makedir, remove,
    removedir, setinfo and of a handle's close — interrupted at ANY point and in any combination of its writes leaves every cluster
    that is in use and is not one of the directory's own intact on the device. *)
From Coq Require Import ZArith List Bool Lia.
From PyFatV Require Import Base.Bytes Base.PyEnv Gen.Pure Model.Codec Model.Dir Model.FS Proofs.FatTable Proofs.Device Proofs.DirCodec Proofs.DirState Proofs.Chains Proofs.FatState Proofs.FileData Proofs.Identity Proofs.BootSafe.
Import ListNotations.
Open Scope Z_scope.

Lemma flush_copies_log n : forall s b i s', flush_copies s b i n = Ok s' ->
  exists l, s_log s' = l ++ s_log s /\
    Forall (fun w => exists j, i <= j < i + Z.of_nat n /\ fst w = fat_start s + j * fat_bytes s /\ snd w = b) l.
Proof.
  induction n as [|k IH]; intros s b i s' H; cbn [flush_copies] in H; [inversion H; subst; exists []; split; [reflexivity|constructor]|].
  destruct (write_at s (fat_start s + i * fat_bytes s) b) as [s1|] eqn:E; [|discriminate]. cbn [bind] in H.
  apply write_at_ok in E. destruct E as [_ E].
  assert (G : fat_start s1 = fat_start s /\ fat_bytes s1 = fat_bytes s) by (subst s1; split; reflexivity). destruct G as [G1 G2].
  destruct (IH s1 b (i + 1) s' H) as (l & Hl & Hf). rewrite G1, G2 in Hf.
  exists (l ++ [(fat_start s + i * fat_bytes s, b)]). split; [rewrite Hl, E; cbn [s_log upd_dev]; rewrite <- app_assoc; reflexivity|].
  apply Forall_app. split.
  - eapply Forall_impl; [|exact Hf]. cbv beta. intros w (j & A & B & C). exists j. split; [lia|]. split; assumption.
  - constructor; [|constructor]. exists i. cbn [fst snd]. split; [lia|]. split; reflexivity.
Qed.

Theorem rewrite_then_flush_crash s loc es s1 s2 ch :
  dev_ok (s_dev s) -> geom_ok s -> safe s -> 0 <= s_hint s -> vol_ok s ->
  is_root_fixed s loc = false -> chain s loc = (ch, true) -> Forall (inside s) ch ->
  0 <= BPB_NumFATs (s_h s) ->
  fat_start s + BPB_NumFATs (s_h s) * fat_bytes s <= first_data_sector (s_p s) * BPB_BytsPerSec (s_h s) ->
  write_dir s loc es = Ok s1 -> lenZ (pack_fat (ft s1) (s_fat s1) (s_hi s1)) <= fat_bytes s -> flush_fat s1 = Ok s2 ->
  exists l, s_log s2 = l ++ s_log s /\
    forall keep y, 2 <= y -> ~ In y ch -> nthZ (s_fat s) y <> 0 -> inside s y ->
      dread (apply_some (s_dev s) l keep) (s_dsize s) (cluster_addr s y) (bpc s) = rd s (cluster_addr s y) (bpc s).
Proof.
  intros Hd G Hs Hh Hvol Hnr Hch Hin Hnf Hlay Hw Hfit Hf.
  assert (Hv : vt (ft s)) by (destruct Hs as (_ & _ & _ & V & _); exact V).
  pose proof (R_write_dir s loc es s1 Hs Hw) as (Eh & Ep & _ & _ & _).
  unfold write_dir in Hw. destruct (s_ro s) eqn:Ero; [discriminate|]. cbv zeta in Hw. rewrite Hnr in Hw.
  destruct (dir_write_log s (ser_dir es) loc true s1 ch Hd G Hv Hh Hch Hin Hvol Hw) as (l1 & Hl1 & Hf1).
  unfold flush_fat in Hf. destruct (s_ro s1); [discriminate|].
  destruct (flush_copies_log _ _ _ _ _ Hf) as (l2 & Hl2 & Hf2).
  assert (Gs : fat_start s1 = fat_start s /\ fat_bytes s1 = fat_bytes s /\ BPB_NumFATs (s_h s1) = BPB_NumFATs (s_h s)).
  { unfold fat_start, fat_bytes, bps. rewrite Eh, Ep. repeat split. }
  destruct Gs as (G1 & G2 & G3). rewrite G1, G2, G3 in Hf2.
  exists (l2 ++ l1). split; [rewrite Hl2, Hl1, app_assoc; reflexivity|].
  intros keep y Hy Hny Hused Hiy.
  assert (HB : 0 < bpc s) by (destruct G as (A & B & _ & C & _); nia).
  assert (Hay : first_data_sector (s_p s) * BPB_BytsPerSec (s_h s) <= cluster_addr s y) by (rewrite cluster_addr_lin by exact G; nia).
  assert (Hfb : 0 <= fat_bytes s) by (destruct Hs as (_ & _ & _ & _ & _ & F & _); exact F).
  refine (proj2 (crash_outside_writes (s_dev s) (s_dsize s) (l2 ++ l1) Hd _ keep (cluster_addr s y) (bpc s) _ _)).
  - apply Forall_app. split.
    + eapply Forall_impl; [|exact Hf2]. cbv beta. intros w (j & Hj & Ew & _). rewrite Ew. destruct Hs as (_ & _ & _ & _ & F & _). nia.
    + eapply Forall_impl; [|exact Hf1]. cbv beta. intros w (x & _ & Hix & Ew & _). rewrite Ew. apply cluster_addr_nonneg; [exact G|apply Hix].
  - apply cluster_addr_nonneg; [exact G|exact Hy].
  - apply Forall_app. split.
    + eapply Forall_impl; [|exact Hf2]. cbv beta. intros w (j & Hj & Ew & Eb). right. rewrite Ew, Eb.
      rewrite Z2Nat.id in Hj by exact Hnf. nia.
    + eapply Forall_impl; [|exact Hf1]. cbv beta. intros w (x & Hx & Hix & Ew & Hlen). rewrite Ew.
      assert (x <> y) by (intros ->; destruct Hx as [Hx|Hx]; [exact (Hny Hx)|exact (Hused Hx)]).
      destruct (cluster_addr_disjoint s x y G H) as [D|D]; [right; lia|left; lia].
Qed.

(** * C11, crash points INSIDE operations: the dirty mark a read-write mount has put into the boot sector survives ANY subset of the device
    writes of ANY history of interface calls, whole or torn to a prefix, in any combination — every one of them lies at or above byte 512 *)
From Coq Require Import Relations.
From PyFatV Require Import Proofs.Session Proofs.HdrState.
Theorem mark_survives_any_crash s s1 s2 :
  dev_ok (s_dev s) -> hdr_wf (s_h s) -> 0 <= BS_Reserved1 (s_h s) < 256 -> 512 <= s_dsize s ->
  (ft s = Gen.FAT_TYPE_FAT32 -> 512 <= BPB_BkBootSec (s_h s) * bps s) ->
  0 <= fat_start s -> 0 <= BPB_NumFATs (s_h s) -> fat_start s + BPB_NumFATs (s_h s) * fat_bytes s <= s_dsize s ->
  (forall v, lenZ (pack_fat (ft s) (updZ (s_fat s) 1 v) (s_hi s)) <= fat_bytes s) ->
  mark_dirty s = Ok s1 -> safe s1 -> clos_refl_trans st wstep s1 s2 ->
  exists l, s_log s2 = l ++ s_log s1 /\
    forall l' keep, Forall2 (fun (w' w:Z * list Z) => fst w' = fst w /\ lenZ (snd w') <= lenZ (snd w)) l' l ->
      flag_set (parse_hdr (dread (apply_some (s_dev s1) l' keep) (s_dsize s1) 0 512)) = true.
Proof.
  intros Hd Hwf Hr Hsz Hbk Hfs Hn Hfit Hpl Hm Hs1 Hh.
  destruct (mark_dirty_on_device s s1 Hd Hwf Hr Hsz Hbk Hfs Hn Hfit Hpl Hm) as (_ & _ & Hflag & Hd1).
  destruct (history_R _ _ Hs1 Hh) as (_ & _ & _ & _ & l & Hl & Habove & _). exists l. split; [exact Hl|].
  intros l' keep H2.
  rewrite (crash_torn_writes (s_dev s1) (s_dsize s1) l l' Hd1); [exact Hflag| |exact H2|lia|].
  - eapply Forall_impl; [|exact Habove]. intros w Hw. cbv beta in Hw. lia.
  - eapply Forall_impl; [|exact Habove]. intros w Hw. cbv beta in Hw. left. lia.
Qed.
