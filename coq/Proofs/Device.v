(** The block-sparse device behaves like a flat byte array: a read returns the bytes at the addresses asked for,
    a write changes exactly the addresses it covers.  Every state-level read-after-write argument rests on this. *)
From Coq Require Import ZArith List Bool Lia FMapPositive ZifyBool.
From PyFatV Require Import Base.Bytes Base.Sweep Base.PyEnv Gen.Pure Model.Codec Model.Dir Model.FS.
Import ListNotations.
Open Scope Z_scope.
Ltac Zify.zify_post_hook ::= Z.to_euclidean_division_equations.

Definition dev_ok (d:dev) : Prop := forall k, 0 <= k -> length (dget d k) = 512%nat.
Definition dbyte (d:dev) (a:Z) : Z := nthZ (dget d (a / 512)) (a mod 512).

Lemma zblk_length : length zblk = 512%nat.
Proof. apply repeat_length. Qed.
Lemma dev_ok_empty : dev_ok (PositiveMap.empty _).
Proof. intros k _. unfold dget. rewrite PositiveMap.gempty. apply zblk_length. Qed.

Lemma dget_dput d k b k' : 0 <= k -> 0 <= k' -> dget (dput d k b) k' = if k =? k' then b else dget d k'.
Proof.
  intros Hk Hk'. unfold dget, dput. destruct (k =? k') eqn:E.
  - apply Z.eqb_eq in E. subst. rewrite PositiveMap.gss. reflexivity.
  - apply Z.eqb_neq in E. rewrite PositiveMap.gso; [reflexivity|]. intro H. apply Z2Pos.inj in H; lia.
Qed.

(** ** ranges *)
Lemma zrange_length n : forall a, length (zrange a n) = n.
Proof. induction n as [|k IH]; intros a; cbn; [reflexivity|rewrite IH; reflexivity]. Qed.
Lemma zrange_nth n : forall a i, (i < n)%nat -> nth i (zrange a n) 0 = a + Z.of_nat i.
Proof.
  induction n as [|k IH]; intros a i H; [lia|]. destruct i as [|j]; cbn [zrange nth]; [lia|]. rewrite IH by lia. lia.
Qed.
Lemma zrange_app n m : forall a, zrange a (n + m) = zrange a n ++ zrange (a + Z.of_nat n) m.
Proof.
  induction n as [|k IH]; intros a; cbn [zrange app Nat.add]; [f_equal; lia|]. rewrite IH. do 3 f_equal. lia.
Qed.
Lemma zrange_skipn n : forall a r, (r <= n)%nat -> skipn r (zrange a n) = zrange (a + Z.of_nat r) (n - r).
Proof.
  intros a r H. replace n with (r + (n - r))%nat at 1 by lia. rewrite zrange_app.
  rewrite skipn_app, zrange_length, Nat.sub_diag. rewrite skipn_all2 by (rewrite zrange_length; lia). reflexivity.
Qed.
Lemma zrange_firstn n : forall a m, (m <= n)%nat -> firstn m (zrange a n) = zrange a m.
Proof.
  intros a m H. replace n with (m + (n - m))%nat by lia. rewrite zrange_app.
  rewrite firstn_app, zrange_length, Nat.sub_diag. cbn [firstn]. rewrite app_nil_r. apply firstn_all2. rewrite zrange_length. lia.
Qed.

Lemma list_as_map (l:list Z) (f:Z -> Z) a : (forall i, (i < length l)%nat -> nth i l 0 = f (a + Z.of_nat i)) ->
  l = map f (zrange a (length l)).
Proof.
  intros H. apply (nth_ext _ _ 0 (f 0)); [rewrite map_length, zrange_length; reflexivity|].
  intros i Hi. rewrite H by exact Hi. rewrite map_nth. rewrite zrange_nth by exact Hi. reflexivity.
Qed.

(** ** reading *)
Lemma dget_as_map d k : dev_ok d -> 0 <= k -> dget d k = map (dbyte d) (zrange (512 * k) 512).
Proof.
  intros Hd Hk. pose proof (list_as_map (dget d k) (dbyte d) (512 * k)) as L. rewrite (Hd k Hk) in L. apply L. intros i Hi.
  unfold dbyte, nthZ. replace ((512 * k + Z.of_nat i) / 512) with k by lia.
  replace ((512 * k + Z.of_nat i) mod 512) with (Z.of_nat i) by lia. rewrite Nat2Z.id. reflexivity.
Qed.
Lemma dread_blks_as_map d n : forall k, dev_ok d -> 0 <= k -> dread_blks d k n = map (dbyte d) (zrange (512 * k) (512 * n)).
Proof.
  induction n as [|m IH]; intros k Hd Hk; [reflexivity|]. cbn [dread_blks].
  replace (512 * S m)%nat with (512 + 512 * m)%nat by lia. rewrite zrange_app, map_app.
  rewrite <- dget_as_map by assumption. rewrite IH by (try assumption; lia). do 3 f_equal. lia.
Qed.

Theorem dread_spec d sz off len : dev_ok d -> 0 <= off ->
  dread d sz off len = map (dbyte d) (zrange off (Z.to_nat (Z.min len (sz - off)))).
Proof.
  intros Hd Ho. unfold dread. cbv zeta. set (l := Z.min len (sz - off)).
  destruct (l <=? 0) eqn:E; [replace (Z.to_nat l) with 0%nat by lia; reflexivity|].
  rewrite dread_blks_as_map by (try assumption; lia). rewrite skipn_map, firstn_map. f_equal.
  rewrite zrange_skipn by lia. rewrite zrange_firstn by lia. f_equal. lia.
Qed.

(** ** writing *)
Lemma nth_skipn' (l:list Z) n : forall i, nth i (skipn n l) 0 = nth (n + i) l 0.
Proof. revert l. induction n as [|m IH]; intros l i; [reflexivity|]. destruct l as [|x r]; [destruct i; reflexivity|]. cbn [skipn Nat.add nth]. apply IH. Qed.
Lemma nth_firstn' (l:list Z) n : forall i, nth i (firstn n l) 0 = if (i <? n)%nat then nth i l 0 else 0.
Proof.
  revert l. induction n as [|m IH]; intros l i; [destruct i; reflexivity|]. destruct l as [|x r]; [destruct i; destruct (_ <? _)%nat; reflexivity|].
  destruct i as [|j]; [reflexivity|]. cbn [firstn nth]. rewrite IH. reflexivity.
Qed.
Lemma nth_three (a b c:list Z) i : nth i (a ++ b ++ c) 0 =
  if (i <? length a)%nat then nth i a 0 else if (i <? length a + length b)%nat then nth (i - length a) b 0 else nth (i - length a - length b) c 0.
Proof.
  destruct (i <? length a)%nat eqn:E1.
  - apply Nat.ltb_lt in E1. apply app_nth1. exact E1.
  - apply Nat.ltb_ge in E1. rewrite app_nth2 by exact E1. destruct (i <? length a + length b)%nat eqn:E2.
    + apply Nat.ltb_lt in E2. apply app_nth1. lia.
    + apply Nat.ltb_ge in E2. rewrite app_nth2 by lia. reflexivity.
Qed.

Lemma dwrite_blks_spec fuel : forall d k pos data, dev_ok d -> 0 <= k -> 0 <= pos < 512 -> pos + lenZ data <= 512 * Z.of_nat fuel ->
  dev_ok (dwrite_blks d k pos data fuel) /\
  forall a, 0 <= a -> dbyte (dwrite_blks d k pos data fuel) a =
    if (512 * k + pos <=? a) && (a <? 512 * k + pos + lenZ data) then nthZ data (a - (512 * k + pos)) else dbyte d a.
Proof.
  induction fuel as [|f IH]; intros d k pos data Hd Hk Hp Hf.
  - cbn [dwrite_blks]. split; [exact Hd|]. intros a Ha. unfold lenZ in *. destruct (_ && _) eqn:E; [lia|reflexivity].
  - cbn [dwrite_blks]. destruct data as [|x xs] eqn:Edata.
    { split; [exact Hd|]. intros a Ha. unfold lenZ. cbn [length]. destruct (_ && _) eqn:E; [lia|reflexivity]. }
    rewrite <- Edata in *. assert (Hne : (0 < length data)%nat) by (subst; cbn; lia). clear Edata x xs.
    set (room := Z.to_nat (512 - pos)). set (chunk := firstn room data). set (old := dget d k).
    set (new := firstn (Z.to_nat pos) old ++ chunk ++ skipn (Z.to_nat pos + length chunk) old).
    assert (Hold : length old = 512%nat) by (apply Hd; exact Hk).
    assert (Hchunk : length chunk = Nat.min room (length data)) by (unfold chunk; apply firstn_length).
    assert (Hnew : length new = 512%nat).
    { unfold new. rewrite !app_length, firstn_length, skipn_length, Hold. lia. }
    assert (Hd1 : dev_ok (dput d k new)).
    { intros k' Hk'. rewrite dget_dput by assumption. destruct (k =? k'); [exact Hnew|apply Hd; exact Hk']. }
    assert (Hrest : lenZ (skipn room data) = Z.max 0 (lenZ data - (512 - pos))).
    { unfold lenZ. rewrite skipn_length. lia. }
    destruct (IH (dput d k new) (k + 1) 0 (skipn room data) Hd1 ltac:(lia) ltac:(lia) ltac:(unfold lenZ in *; lia)) as [Hok Hb].
    split; [exact Hok|]. intros a Ha. rewrite Hb by exact Ha. clear Hb IH.
    unfold lenZ in *. rewrite skipn_length in *.
    destruct ((512 * (k + 1) + 0 <=? a) && (a <? 512 * (k + 1) + 0 + Z.of_nat (length data - room))) eqn:E1.
    + (* in a later block *)
      assert (E2 : (512 * k + pos <=? a) && (a <? 512 * k + pos + Z.of_nat (length data)) = true) by lia.
      rewrite E2. unfold nthZ. rewrite nth_skipn'. f_equal. lia.
    + unfold dbyte at 1. rewrite dget_dput by lia. destruct (k =? a / 512) eqn:E3.
      * unfold nthZ, new. rewrite nth_three. rewrite firstn_length, Hold.
        destruct (Z.to_nat (a mod 512) <? Nat.min (Z.to_nat pos) 512)%nat eqn:E4.
        -- assert (E2 : (512 * k + pos <=? a) && (a <? 512 * k + pos + Z.of_nat (length data)) = false) by lia.
           rewrite E2. rewrite nth_firstn'. replace (Z.to_nat (a mod 512) <? Z.to_nat pos)%nat with true by lia.
           unfold dbyte, nthZ. replace (a / 512) with k by lia. reflexivity.
        -- destruct (Z.to_nat (a mod 512) <? Nat.min (Z.to_nat pos) 512 + length chunk)%nat eqn:E5.
           ++ assert (E2 : (512 * k + pos <=? a) && (a <? 512 * k + pos + Z.of_nat (length data)) = true) by lia.
              rewrite E2. unfold chunk. rewrite nth_firstn'.
              replace (Z.to_nat (a mod 512) - Nat.min (Z.to_nat pos) 512 <? room)%nat with true by lia. f_equal. lia.
           ++ assert (E2 : (512 * k + pos <=? a) && (a <? 512 * k + pos + Z.of_nat (length data)) = false) by lia.
              rewrite E2. rewrite nth_skipn'. unfold dbyte, nthZ. replace (a / 512) with k by lia. fold old. f_equal. lia.
      * assert (E2 : (512 * k + pos <=? a) && (a <? 512 * k + pos + Z.of_nat (length data)) = false) by lia.
        rewrite E2. reflexivity.
Qed.

Theorem dwrite_spec d off data : dev_ok d -> 0 <= off ->
  dev_ok (dwrite d off data) /\
  forall a, 0 <= a -> dbyte (dwrite d off data) a =
    if (off <=? a) && (a <? off + lenZ data) then nthZ data (a - off) else dbyte d a.
Proof.
  intros Hd Ho. unfold dwrite.
  destruct (dwrite_blks_spec (S (length data / 512 + 1)) d (off / 512) (off mod 512) data Hd ltac:(lia) ltac:(lia)) as [H1 H2].
  { unfold lenZ. assert (Z.of_nat (length data / 512) = Z.of_nat (length data) / 512) by (rewrite Nat2Z.inj_div; reflexivity). lia. }
  split; [exact H1|]. intros a Ha. rewrite H2 by exact Ha. replace (512 * (off / 512) + off mod 512) with off by lia. reflexivity.
Qed.

(** ** the two facts everything else uses *)
Theorem read_after_write d sz off data : dev_ok d -> 0 <= off -> off + lenZ data <= sz ->
  dread (dwrite d off data) sz off (lenZ data) = data.
Proof.
  intros Hd Ho Hs. destruct (dwrite_spec d off data Hd Ho) as [Hd' Hb].
  rewrite dread_spec by assumption. replace (Z.to_nat (Z.min (lenZ data) (sz - off))) with (length data) by (unfold lenZ in *; lia).
  symmetry. apply list_as_map. intros i Hi. rewrite Hb by lia.
  replace ((off <=? off + Z.of_nat i) && (off + Z.of_nat i <? off + lenZ data)) with true by (unfold lenZ; lia).
  unfold nthZ. f_equal. lia.
Qed.
Theorem read_elsewhere d sz off data off' len : dev_ok d -> 0 <= off -> 0 <= off' ->
  off' + len <= off \/ off + lenZ data <= off' ->
  dread (dwrite d off data) sz off' len = dread d sz off' len.
Proof.
  intros Hd Ho Ho' Hdis. destruct (dwrite_spec d off data Hd Ho) as [Hd' Hb].
  rewrite !dread_spec by assumption. apply map_ext_in. intros a Ha.
  assert (off' <= a < off' + Z.of_nat (Z.to_nat (Z.min len (sz - off')))).
  { clear - Ha. revert Ha. generalize (Z.to_nat (Z.min len (sz - off'))). intros n. revert off'. induction n as [|m IH]; intros o H; [destruct H|].
    cbn [zrange] in H. destruct H as [<-|H]; [lia|]. apply IH in H. lia. }
  rewrite Hb by lia. destruct (_ && _) eqn:E; [lia|reflexivity].
Qed.
(** a read that straddles a write sees the written bytes inside it and the old bytes around it *)
Theorem read_over_write d sz off data off' len a : dev_ok d -> 0 <= off -> 0 <= off' -> off' <= a < off' + Z.min len (sz - off') ->
  nthZ (dread (dwrite d off data) sz off' len) (a - off') =
  if (off <=? a) && (a <? off + lenZ data) then nthZ data (a - off) else nthZ (dread d sz off' len) (a - off').
Proof.
  intros Hd Ho Ho' Ha. destruct (dwrite_spec d off data Hd Ho) as [Hd' Hb].
  rewrite !dread_spec by assumption. unfold nthZ at 1 3.
  set (n := Z.to_nat (Z.min len (sz - off'))).
  assert (Hi : (Z.to_nat (a - off') < n)%nat) by lia.
  rewrite (nth_indep (map (dbyte (dwrite d off data)) _) 0 (dbyte (dwrite d off data) 0)) by (rewrite map_length, zrange_length; exact Hi).
  rewrite (nth_indep (map (dbyte d) _) 0 (dbyte d 0)) by (rewrite map_length, zrange_length; exact Hi).
  rewrite !map_nth. rewrite zrange_nth by exact Hi. replace (off' + Z.of_nat (Z.to_nat (a - off'))) with a by lia.
  apply Hb. lia.
Qed.
