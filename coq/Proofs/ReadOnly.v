(** C10 at the level of whole operations and whole histories: on a read-only state every operation of the model
    either fails or returns the state it was given — so no history of operations can log a device write. *)
From Coq Require Import ZArith List Bool Lia Relations.
From PyFatV Require Import Base.Bytes Base.PyEnv Gen.Pure Model.Codec Model.Dir Model.FS Proofs.Session.
Import ListNotations.
Open Scope Z_scope.

Section RO.
Variable s : st.
Hypothesis Hro : s_ro s = true.

Lemma write_dir_ro loc es : write_dir s loc es = Err EROFS.
Proof. apply (ro_primitives_refuse s Hro). Qed.
Lemma free_chain_ro c : free_chain s c = Err EROFS.
Proof. apply (ro_primitives_refuse s Hro). Qed.
Lemma flush_fat_ro : flush_fat s = Err EROFS.
Proof. apply (ro_primitives_refuse s Hro). Qed.
Lemma allocate_ro size e : allocate s size e = Err EROFS.
Proof. apply (ro_primitives_refuse s Hro). Qed.
Lemma wdc_ro d c e : write_data_to_cluster s d c e = Err EROFS.
Proof. apply (ro_primitives_refuse s Hro). Qed.

(** take the head [bind] / [match] of a hypothesis [_ = Ok _] apart *)
Ltac hd_step H :=
  first
  [ rewrite write_dir_ro in H | rewrite free_chain_ro in H | rewrite flush_fat_ro in H | rewrite allocate_ro in H | rewrite wdc_ro in H
  | discriminate H
  | match type of H with
    | bind ?X _ = _ => let E := fresh "E" in destruct X eqn:E; cbn [bind] in H
    | (match ?x with _ => _ end) = _ => let E := fresh "E" in destruct x eqn:E
    end ].
Ltac crush H := repeat hd_step H; cbn [bind] in H; try discriminate H.

Lemma remove_entry_ro ploc e s' : remove_entry s ploc e = Ok s' -> False.
Proof. unfold remove_entry. intros H. crush H. Qed.
Lemma update_entry_ro h f s' : update_entry s h f = Ok s' -> False.
Proof. unfold update_entry. intros H. crush H. Qed.

Ltac vsubst := repeat match goal with
  | H : ?x = ?y |- _ => is_var y; tryif constr_eq y s then fail else subst y
  | H : ?x = ?y |- _ => is_var x; tryif constr_eq x s then fail else subst x
  end.
Ltac ro_all := repeat match goal with
  | E : Ok _ = Ok _ |- _ => injection E; clear E; intros; vsubst
  | E : _ = Ok _ |- _ => progress (crush E)
  end.

Lemma op_create_ro p w t b s' : op_create s p w t = Ok (b, s') -> s' = s.
Proof. unfold op_create. intros H. ro_all; reflexivity. Qed.
Lemma op_makedir_ro p r t s' : op_makedir s p r t = Ok s' -> s' = s.
Proof. unfold op_makedir. intros H. ro_all; reflexivity. Qed.
Lemma op_remove_ro p s' : op_remove s p = Ok s' -> s' = s.
Proof. unfold op_remove. intros H. ro_all; try reflexivity; exfalso; eapply remove_entry_ro; eassumption. Qed.
Lemma op_removedir_ro p s' : op_removedir s p = Ok s' -> s' = s.
Proof. unfold op_removedir. intros H. ro_all; try reflexivity; exfalso; eapply remove_entry_ro; eassumption. Qed.
Lemma op_setinfo_ro p a b c s' : op_setinfo s p a b c = Ok s' -> s' = s.
Proof. unfold op_setinfo. intros H. ro_all; reflexivity. Qed.

Lemma fold_err {A} (g:st -> A -> res st) l x : fold_left (fun acc e => do sa <- acc; g sa e) l (Err x) = Err x.
Proof. induction l as [|e r IH]; [reflexivity|]. cbn [fold_left bind]. exact IH. Qed.
Lemma fold_same {A} (g:st -> A -> res st) l s' : (forall e s'', g s e = Ok s'' -> s'' = s) ->
  fold_left (fun acc e => do sa <- acc; g sa e) l (Ok s) = Ok s' -> s' = s.
Proof.
  intros Hg. induction l as [|e r IH]; cbn [fold_left bind]; intros H; [inversion H; reflexivity|].
  destruct (g s e) as [s''|x] eqn:E; [rewrite (Hg _ _ E) in H; exact (IH H)|rewrite fold_err in H; discriminate].
Qed.
Lemma rmtree_go_ro f : forall r s', rmtree_go f s r = Ok s' -> s' = s.
Proof.
  induction f as [|g IH]; intros r s' H; [discriminate|]. cbn [rmtree_go] in H. cbv zeta in H.
  destruct (read_dir s (eref_loc s r)) as [es|] eqn:E; [|discriminate]. cbn [bind] in H.
  match type of H with bind ?X _ = _ => destruct X as [s1|] eqn:E1; [|discriminate] end. cbn [bind] in H.
  apply fold_same in E1; [|intros e s'' He; exfalso; eapply remove_entry_ro; exact He]. subst s1.
  match type of H with bind ?X _ = _ => destruct X as [s2|] eqn:E2; [|discriminate] end. cbn [bind] in H.
  apply fold_same in E2; [|intros e s'' He; eapply IH; exact He]. subst s2.
  destruct r as [|ploc e]; [inversion H; reflexivity|]. ro_all. exfalso; eapply remove_entry_ro; eassumption.
Qed.
Lemma op_removetree_ro p s' : op_removetree s p = Ok s' -> s' = s.
Proof. unfold op_removetree. intros H. ro_all. eapply rmtree_go_ro; eassumption. Qed.

Lemma h_write_raw_ro h e b s' h' : h_write_raw s h e b = Ok (s', h') -> s' = s.
Proof. unfold h_write_raw. rewrite Hro, !orb_true_r. discriminate. Qed.
Lemma h_write_ro h b s' h' : h_write s h b = Ok (s', h') -> s' = s.
Proof. unfold h_write. rewrite Hro. intros H. ro_all; match goal with E : _ || true = false |- _ => rewrite orb_true_r in E; discriminate end. Qed.
Lemma h_truncate_ro h sz s' h' : h_truncate s h sz = Ok (s', h') -> s' = s.
Proof.
  unfold h_truncate. intros H. ro_all; try reflexivity;
  try (exfalso; eapply update_entry_ro; eassumption);
  try match goal with E : h_write_raw s _ _ _ = Ok _ |- _ => unfold h_write_raw in E; rewrite Hro, !orb_true_r in E; discriminate end.
Qed.
Lemma h_close_ro h s' h' : h_close s h = Ok (s', h') -> s' = s.
Proof. unfold h_close. intros H. ro_all; reflexivity. Qed.
Lemma op_openbin_ro p m t s' h' : op_openbin s p m t = Ok (s', h') -> s' = s.
Proof.
  unfold op_openbin. intros H. ro_all;
  repeat match goal with E : op_create s _ _ _ = Ok ?r |- _ =>
    let b0 := fresh "b" in let s0 := fresh "s" in destruct r as [b0 s0]; pose proof (op_create_ro _ _ _ _ _ E); cbn [snd] in *; subst s0; clear E end;
  try reflexivity;
  match goal with E : h_truncate s _ _ = Ok _ |- _ => apply h_truncate_ro in E; exact E end.
Qed.
Lemma op_close_ro s' : op_close s = Ok s' -> s' = s.
Proof. unfold op_close. rewrite Hro. intros H; inversion H; reflexivity. Qed.
End RO.

(** * histories *)
(** one state-changing call of the interface; the read-only calls return no state *)
Inductive step : st -> st -> Prop :=
| st_create s p w t b s' : op_create s p w t = Ok (b, s') -> step s s'
| st_makedir s p r t s' : op_makedir s p r t = Ok s' -> step s s'
| st_remove s p s' : op_remove s p = Ok s' -> step s s'
| st_removedir s p s' : op_removedir s p = Ok s' -> step s s'
| st_removetree s p s' : op_removetree s p = Ok s' -> step s s'
| st_setinfo s p a b c s' : op_setinfo s p a b c = Ok s' -> step s s'
| st_openbin s p m t s' h : op_openbin s p m t = Ok (s', h) -> step s s'
| st_write s h b s' h' : h_write s h b = Ok (s', h') -> step s s'
| st_truncate s h sz s' h' : h_truncate s h sz = Ok (s', h') -> step s s'
| st_hclose s h s' h' : h_close s h = Ok (s', h') -> step s s'
| st_close s s' : op_close s = Ok s' -> step s s'.

Theorem ro_step s s' : s_ro s = true -> step s s' -> s' = s.
Proof.
  intros Hro Hs. destruct Hs;
  eauto using op_create_ro, op_makedir_ro, op_remove_ro, op_removedir_ro, op_removetree_ro, op_setinfo_ro, op_openbin_ro,
              h_write_ro, h_truncate_ro, h_close_ro, op_close_ro.
Qed.
(** any history of calls on a read-only mount ends in the state it started from: same device, same (empty) write log *)
Theorem ro_history s s' : s_ro s = true -> clos_refl_trans st step s s' -> s' = s.
Proof.
  intros Hro H. apply clos_rt_rt1n in H. induction H as [|x y z Hxy Hyz IH]; [reflexivity|].
  pose proof (ro_step _ _ Hro Hxy). subst y. apply IH. exact Hro.
Qed.
Corollary ro_history_no_writes s s' : s_ro s = true -> clos_refl_trans st step s s' -> s_log s' = s_log s /\ s_dev s' = s_dev s.
Proof. intros Hro H. rewrite (ro_history _ _ Hro H). split; reflexivity. Qed.
(** and the mount itself: a read-only mount returns a state with an empty log over the device it was given *)
Theorem ro_mount d dsize pc s dirty : mount d dsize true pc = Ok (s, dirty) -> s_ro s = true /\ s_log s = [] /\ s_dev s = d.
Proof.
  unfold mount. cbv zeta. intros H.
  repeat match type of H with
  | bind ?X _ = _ => let E := fresh "E" in destruct X eqn:E; cbn [bind] in H; [|discriminate H]
  | (if ?x then _ else _) = _ => destruct x; [discriminate H|]
  end.
  inversion E0; subst. inversion H; subst. repeat split.
Qed.
