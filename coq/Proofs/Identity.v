(** C16 at the level of a whole session: mounting a clean, canonical volume read-write and closing it writes, at every
    address it touches, the byte that was there.  The device after the session equals the device before it. *)
From Coq Require Import ZArith List Bool Lia ZifyBool.
From PyFatV Require Import Base.Bytes Base.Sweep Base.PyEnv Gen.Pure Model.Codec Model.Dir Model.FS Proofs.FatCodec Proofs.Device Proofs.DirCodec Proofs.DirState Proofs.Session Proofs.FatState Proofs.HdrState.
Import ListNotations.
Open Scope Z_scope.

(** * the device as the fold of its write log *)
Definition apply_log (l:list (Z * list Z)) (d:dev) : dev := fold_right (fun w acc => dwrite acc (fst w) (snd w)) d l.
Fixpoint newest (l:list (Z * list Z)) (a:Z) : option Z :=
  match l with
  | [] => None
  | (off, data) :: r => if (off <=? a) && (a <? off + lenZ data) then Some (nthZ data (a - off)) else newest r a
  end.
Lemma apply_log_ok l : forall d, dev_ok d -> Forall (fun w => 0 <= fst w) l -> dev_ok (apply_log l d).
Proof.
  induction l as [|[off data] r IH]; intros d Hd Hf; [exact Hd|]. inversion Hf as [|? ? Ho Hr]; subst. cbn [apply_log fold_right fst snd].
  apply dwrite_spec; [apply IH; assumption|exact Ho].
Qed.
Lemma dbyte_apply_log l : forall d a, dev_ok d -> Forall (fun w => 0 <= fst w) l -> 0 <= a ->
  dbyte (apply_log l d) a = match newest l a with Some b => b | None => dbyte d a end.
Proof.
  induction l as [|[off data] r IH]; intros d a Hd Hf Ha; [reflexivity|]. inversion Hf as [|? ? Ho Hr]; subst. cbn [fst] in Ho.
  cbn [apply_log fold_right fst snd newest]. fold (apply_log r d).
  destruct (dwrite_spec (apply_log r d) off data (apply_log_ok r d Hd Hr) Ho) as [_ Hb]. rewrite Hb by exact Ha.
  destruct ((off <=? a) && (a <? off + lenZ data)); [reflexivity|]. apply IH; assumption.
Qed.
Lemma newest_app l1 l2 a : newest (l1 ++ l2) a = match newest l1 a with Some b => Some b | None => newest l2 a end.
Proof. induction l1 as [|[off data] r IH]; [reflexivity|]. cbn [app newest]. destruct (_ && _); [reflexivity|exact IH]. Qed.

(** a state produced by [write_at]s from a mounted device *)
Definition tracked (d0:dev) (s:st) : Prop := s_dev s = apply_log (s_log s) d0 /\ Forall (fun w => 0 <= fst w) (s_log s).
Lemma tracked_write_at d0 s off data s' : tracked d0 s -> 0 <= off -> write_at s off data = Ok s' -> tracked d0 s'.
Proof.
  intros [Hd Hl] Ho H. apply write_at_ok in H. destruct H as [_ ->]. split; cbn [s_dev s_log upd_dev apply_log fold_right fst snd].
  - fold (apply_log (s_log s) d0). rewrite Hd. reflexivity.
  - constructor; [exact Ho|exact Hl].
Qed.

(** * the writes of a session, explicitly *)
Definition wrote (l:list (Z * list Z)) (s s':st) : Prop :=
  s_log s' = l ++ s_log s /\ s_dev s' = apply_log l (s_dev s) /\
  s_h s' = s_h s /\ s_p s' = s_p s /\ s_fat s' = s_fat s /\ s_hi s' = s_hi s /\ s_dsize s' = s_dsize s /\ s_ro s' = s_ro s /\ s_hint s' = s_hint s.
Lemma wrote_nil s : wrote [] s s.
Proof. repeat split. Qed.
Lemma wrote_trans l1 l2 s s1 s2 : wrote l1 s s1 -> wrote l2 s1 s2 -> wrote (l2 ++ l1) s s2.
Proof.
  intros (A1 & A2 & A3 & A4 & A5 & A6 & A7 & A8 & A9) (B1 & B2 & B3 & B4 & B5 & B6 & B7 & B8 & B9).
  unfold wrote. rewrite B1, A1, B2, A2, <- app_assoc. unfold apply_log. rewrite fold_right_app.
  repeat split; congruence.
Qed.
Lemma wrote_write_at s off data s' : write_at s off data = Ok s' -> wrote [(off, data)] s s'.
Proof. intros H. apply write_at_ok in H. destruct H as [_ ->]. repeat split. Qed.

Fixpoint fatW (fs fb:Z) (b:list Z) (i:Z) (n:nat) : list (Z * list Z) :=
  match n with O => [] | S k => fatW fs fb b (i + 1) k ++ [(fs + i * fb, b)] end.
Lemma wrote_flush_copies n : forall s b i s', flush_copies s b i n = Ok s' -> wrote (fatW (fat_start s) (fat_bytes s) b i n) s s'.
Proof.
  induction n as [|k IH]; intros s b i s' H; cbn [flush_copies fatW] in *; [inversion H; subst; apply wrote_nil|].
  destruct (write_at s _ b) as [s1|] eqn:E; [|discriminate]. cbn [bind] in H.
  pose proof (wrote_write_at _ _ _ _ E) as W1. pose proof (IH _ _ _ _ H) as W2.
  assert (fat_start s1 = fat_start s /\ fat_bytes s1 = fat_bytes s) as [E1 E2].
  { destruct W1 as (_ & _ & Hh & Hp & _). unfold fat_start, fat_bytes, bps. rewrite Hh, Hp. auto. }
  rewrite E1, E2 in W2. exact (wrote_trans _ _ _ _ _ W1 W2).
Qed.

Definition bpbW (h:hdr) (is32:bool) (bk:Z) : list (Z * list Z) :=
  (if is32 then [(510 + bk, [85; 170]); (bk, ser_hdr h)] else []) ++ [(510, [85; 170]); (0, ser_hdr h)].
Lemma wrote_write_bpb s s' : write_bpb s = Ok s' ->
  wrote (bpbW (s_h s) (ft s =? Gen.FAT_TYPE_FAT32) (BPB_BkBootSec (s_h s) * bps s)) s s'.
Proof.
  unfold write_bpb, bpbW. intros H.
  destruct (write_at s 0 _) as [s1|] eqn:E1; [|discriminate]. cbn [bind] in H.
  destruct (write_at s1 510 _) as [s2|] eqn:E2; [|discriminate]. cbn [bind] in H.
  pose proof (wrote_trans _ _ _ _ _ (wrote_write_at _ _ _ _ E1) (wrote_write_at _ _ _ _ E2)) as W12. cbn [app] in W12.
  cbv zeta in H. destruct (ft s =? Gen.FAT_TYPE_FAT32).
  - destruct (write_at s2 _ _) as [s3|] eqn:E3; [|discriminate]. cbn [bind] in H.
    pose proof (wrote_trans _ _ _ _ _ W12 (wrote_trans _ _ _ _ _ (wrote_write_at _ _ _ _ E3) (wrote_write_at _ _ _ _ H))) as W. exact W.
  - inversion H; subst. exact W12.
Qed.

Definition wroteLD (l:list (Z * list Z)) (s s':st) : Prop := s_log s' = l ++ s_log s /\ s_dev s' = apply_log l (s_dev s).
Lemma wrote_LD l s s' : wrote l s s' -> wroteLD l s s'.
Proof. intros (A & B & _). split; assumption. Qed.

(** [mark_dirty] / [mark_clean] share one shape: optionally rewrite FAT[1] and flush, then rewrite BS_Reserved1 and write the boot sector(s) *)
Definition mark_shape (s:st) (f1:Z -> Z -> Z) (r1:Z -> Z) (s':st) : Prop :=
  let fat' := match shutdown_mask (ft s) with Some m => updZ (s_fat s) 1 (f1 (nthZ (s_fat s) 1) m) | None => s_fat s end in
  let h' := set_reserved1 (s_h s) (r1 (BS_Reserved1 (s_h s))) in
  let fatpart := match shutdown_mask (ft s) with
                 | Some m => fatW (fat_start s) (fat_bytes s) (pack_fat (ft s) fat' (s_hi s)) 0 (Z.to_nat (BPB_NumFATs (s_h s)))
                 | None => [] end in
  wroteLD (bpbW h' (ft s =? Gen.FAT_TYPE_FAT32) (BPB_BkBootSec (s_h s) * bps s) ++ fatpart) s s' /\
  s_h s' = h' /\ s_fat s' = fat' /\ s_p s' = s_p s /\ s_hi s' = s_hi s /\ s_dsize s' = s_dsize s /\ s_ro s' = s_ro s.

Lemma mark_generic s f1 r1 s' :
  (do s1 <- (match shutdown_mask (ft s) with
             | Some m => flush_fat (upd_fat s (updZ (s_fat s) 1 (f1 (nthZ (s_fat s) 1) m)) (s_hint s))
             | None => Ok s end);
   write_bpb (upd_hdr s1 (set_reserved1 (s_h s1) (r1 (BS_Reserved1 (s_h s1)))))) = Ok s' ->
  mark_shape s f1 r1 s'.
Proof.
  intros H. unfold mark_shape. cbv zeta.
  match type of H with bind ?X _ = _ => destruct X as [s1|] eqn:E1; [|discriminate] end. cbn [bind] in H.
  assert (W1 : exists l, wrote l (match shutdown_mask (ft s) with Some m => upd_fat s (updZ (s_fat s) 1 (f1 (nthZ (s_fat s) 1) m)) (s_hint s) | None => s end) s1 /\
            l = match shutdown_mask (ft s) with
                | Some m => fatW (fat_start s) (fat_bytes s) (pack_fat (ft s) (updZ (s_fat s) 1 (f1 (nthZ (s_fat s) 1) m)) (s_hi s)) 0 (Z.to_nat (BPB_NumFATs (s_h s)))
                | None => [] end).
  { destruct (shutdown_mask (ft s)) as [m|].
    - unfold flush_fat in E1. destruct (s_ro _); [discriminate|]. apply wrote_flush_copies in E1. eexists. split; [exact E1|reflexivity].
    - inversion E1; subst. exists []. split; [apply wrote_nil|reflexivity]. }
  destruct W1 as (l1 & W1 & El1).
  apply wrote_write_bpb in H. 
  set (sa := match shutdown_mask (ft s) with Some m => upd_fat s _ _ | None => s end) in *.
  assert (Hsa : s_log sa = s_log s /\ s_dev sa = s_dev s /\ s_h sa = s_h s /\ s_p sa = s_p s /\ s_hi sa = s_hi s /\ s_dsize sa = s_dsize s /\ s_ro sa = s_ro s /\
                s_fat sa = match shutdown_mask (ft s) with Some m => updZ (s_fat s) 1 (f1 (nthZ (s_fat s) 1) m) | None => s_fat s end).
  { unfold sa. destruct (shutdown_mask (ft s)); repeat split. }
  destruct Hsa as (S1 & S2 & S3 & S4 & S5 & S6 & S7 & S8).
  destruct W1 as (A1 & A2 & A3 & A4 & A5 & A6 & A7 & A8 & A9).
  set (sb := upd_hdr s1 _) in *.
  destruct H as (B1 & B2 & B3 & B4 & B5 & B6 & B7 & B8 & B9).
  assert (Hft : ft sb = ft s) by (unfold ft, sb; cbn [s_p upd_hdr]; rewrite A4, S4; reflexivity).
  assert (Hbps : bps sb = bps s) by (unfold bps, sb; cbn [s_h upd_hdr BPB_BytsPerSec set_reserved1]; rewrite A3, S3; reflexivity).
  assert (Hbk : BPB_BkBootSec (s_h sb) = BPB_BkBootSec (s_h s)) by (unfold sb; cbn [s_h upd_hdr BPB_BkBootSec set_reserved1]; rewrite A3, S3; reflexivity).
  assert (Hh : s_h sb = set_reserved1 (s_h s) (r1 (BS_Reserved1 (s_h s)))) by (unfold sb; cbn [s_h upd_hdr]; rewrite A3, S3; reflexivity).
  rewrite Hft, Hbps, Hbk, Hh in B1, B2.
  split; [split|].
  - rewrite B1. unfold sb. cbn [s_log upd_hdr]. rewrite A1, S1, El1, <- app_assoc. destruct (shutdown_mask (ft s)); reflexivity.
  - rewrite B2. unfold sb. cbn [s_dev upd_hdr]. rewrite A2, S2, El1. unfold apply_log. rewrite fold_right_app. destruct (shutdown_mask (ft s)); reflexivity.
  - rewrite B3, Hh. split; [reflexivity|]. split; [rewrite B5; unfold sb; cbn [s_fat upd_hdr]; rewrite A5; exact S8|].
    unfold sb in *. cbn [s_p s_hi s_dsize s_ro upd_hdr] in *. repeat split; congruence.
Qed.
Lemma mark_dirty_shape s s' : mark_dirty s = Ok s' -> mark_shape s (fun f m => Z.land f (Z.lnot m)) (fun r => Z.lor r Gen.FAT_DIRTY_BIT_MASK) s'.
Proof. intros H. apply mark_generic. exact H. Qed.
Lemma mark_clean_shape s s' : mark_clean s = Ok s' -> mark_shape s (fun f m => Z.lor f m) (fun r => Z.land r (Z.lnot Gen.FAT_DIRTY_BIT_MASK)) s'.
Proof. intros H. apply mark_generic. exact H. Qed.

(** * lengths do not depend on the values written *)
Lemma pack_fat_length t : forall l1 l2 hi, length l1 = length l2 -> length (pack_fat t l1 hi) = length (pack_fat t l2 hi).
Proof.
  intros l1 l2 hi Hl. unfold pack_fat. destruct (t =? 12); [|destruct (t =? 16)].
  - revert l2 Hl. induction l1 as [|a|a b r IH] using list_ind2; intros l2 Hl.
    + destruct l2; [reflexivity|discriminate].
    + destruct l2 as [|x [|y q]]; try discriminate. reflexivity.
    + destruct l2 as [|x [|y q]]; try discriminate. cbn [pack12 length]. rewrite (IH q) by (cbn in Hl; lia). reflexivity.
  - revert l2 Hl. induction l1 as [|a r IH]; intros l2 Hl; destruct l2 as [|x q]; try discriminate; [reflexivity|].
    unfold pack16 in *. cbn [flat_map]. rewrite !app_length, !le_length. rewrite (IH q) by (cbn in Hl; lia). reflexivity.
  - revert l2 hi Hl. induction l1 as [|a r IH]; intros l2 hi Hl; destruct l2 as [|x q]; try discriminate; [reflexivity|].
    cbn [pack32]. rewrite !app_length, !le_length. rewrite (IH q) by (cbn in Hl; lia). reflexivity.
Qed.
Lemma ser_hdr_length_reserved h v : length (ser_hdr (set_reserved1 h v)) = length (ser_hdr h).
Proof.
  unfold ser_hdr, hdr_layout, fields_of_hdr. cbn [is32hdr set_reserved1].
  destruct (is32hdr h); unfold Gen.BPB32_LAYOUT, Gen.BPB12_LAYOUT; cbn [app ser_layout]; rewrite !app_length, !le_length; reflexivity.
Qed.

(** * restoring writes *)
Definition orig (d:dev) (sz:Z) (w:Z * list Z) : Prop :=
  0 <= fst w /\ fst w + lenZ (snd w) <= sz /\ snd w = dread d sz (fst w) (lenZ (snd w)).
Lemma newest_original d sz l a b : dev_ok d -> Forall (orig d sz) l -> newest l a = Some b -> b = dbyte d a.
Proof.
  intros Hd. induction l as [|[off data] r IH]; intros Hf H; [discriminate|]. inversion Hf as [|? ? (Ho & Hs & He) Hr]; subst.
  cbn [newest fst snd] in *. destruct ((off <=? a) && (a <? off + lenZ data)) eqn:E; [|apply IH; assumption].
  inversion H; subst b. clear H. rewrite He. rewrite dread_spec by assumption.
  replace (Z.to_nat (Z.min (lenZ data) (sz - off))) with (length data) by (unfold lenZ in *; lia).
  unfold nthZ. assert (Hi : (Z.to_nat (a - off) < length data)%nat) by (unfold lenZ in *; lia).
  rewrite (nth_indep _ 0 (dbyte d 0)) by (rewrite map_length, zrange_length; exact Hi).
  rewrite map_nth, zrange_nth by exact Hi. f_equal. lia.
Qed.
Lemma newest_none l a : newest l a = None <-> Forall (fun w => ~ (fst w <= a < fst w + lenZ (snd w))) l.
Proof.
  induction l as [|[off data] r IH]; [split; [constructor|reflexivity]|]. cbn [newest]. destruct ((off <=? a) && (a <? off + lenZ data)) eqn:E.
  - split; [discriminate|]. intros H. inversion H as [|? ? Hn _]; subst. cbn [fst snd] in Hn. lia.
  - rewrite IH. split; intros H; [constructor; [cbn [fst snd]; lia|exact H]|inversion H; assumption].
Qed.
Lemma newest_covered l1 l2 a :
  (forall w1, In w1 l1 -> exists w2, In w2 l2 /\ fst w2 = fst w1 /\ lenZ (snd w2) = lenZ (snd w1)) ->
  newest l2 a = None -> newest l1 a = None.
Proof.
  intros Hc H2. apply newest_none. apply newest_none in H2. apply Forall_forall. intros w1 Hw1.
  destruct (Hc w1 Hw1) as (w2 & Hin & Ho & Hl). rewrite Forall_forall in H2. specialize (H2 w2 Hin). rewrite <- Ho, <- Hl. exact H2.
Qed.
Lemma fatW_cover fs fb b1 b2 n : forall i, lenZ b1 = lenZ b2 ->
  forall w1, In w1 (fatW fs fb b1 i n) -> exists w2, In w2 (fatW fs fb b2 i n) /\ fst w2 = fst w1 /\ lenZ (snd w2) = lenZ (snd w1).
Proof.
  induction n as [|k IH]; intros i Hl w1 H; [destruct H|]. cbn [fatW] in *. apply in_app_or in H. destruct H as [H|[<-|[]]].
  - destruct (IH (i + 1) Hl w1 H) as (w2 & A & B & C). exists w2. split; [apply in_or_app; left; exact A|auto].
  - exists (fs + i * fb, b2). split; [apply in_or_app; right; left; reflexivity|]. cbn [fst snd]. auto.
Qed.
Lemma bpbW_cover h1 h2 is32 bk : lenZ (ser_hdr h1) = lenZ (ser_hdr h2) ->
  forall w1, In w1 (bpbW h1 is32 bk) -> exists w2, In w2 (bpbW h2 is32 bk) /\ fst w2 = fst w1 /\ lenZ (snd w2) = lenZ (snd w1).
Proof.
  intros Hl w1 H. unfold bpbW in *. destruct is32; cbn [app In] in *.
  - destruct H as [<-|[<-|[<-|[<-|[]]]]]; [exists (510 + bk, [85;170])|exists (bk, ser_hdr h2)|exists (510, [85;170])|exists (0, ser_hdr h2)]; cbn [fst snd]; intuition.
  - destruct H as [<-|[<-|[]]]; [exists (510, [85;170])|exists (0, ser_hdr h2)]; cbn [fst snd]; intuition.
Qed.

Lemma set_reserved1_same h : set_reserved1 h (BS_Reserved1 h) = h.
Proof. destruct h; reflexivity. Qed.
Lemma set_reserved1_twice h a b : set_reserved1 (set_reserved1 h a) b = set_reserved1 h b.
Proof. reflexivity. Qed.
Lemma updZ_twice {A} (l:list A) i a b : updZ (updZ l i a) i b = updZ l i b.
Proof. unfold updZ. generalize (Z.to_nat i). intros n. revert l. induction n as [|k IH]; intros [|x r]; cbn; try reflexivity. rewrite IH. reflexivity. Qed.
Lemma updZ_same (l:list Z) i : 0 <= i < lenZ l -> updZ l i (nthZ l i) = l.
Proof.
  unfold updZ, nthZ, lenZ. intros H. assert (Hn : (Z.to_nat i < length l)%nat) by lia. clear H. revert Hn. generalize (Z.to_nat i). intros n. revert l.
  induction n as [|k IH]; intros [|x r] Hn; cbn in *; try lia; [reflexivity|]. rewrite IH; [reflexivity|lia].
Qed.

(** * the session *)
Theorem session_identity s0 s1 s2 :
  let d := s_dev s0 in let sz := s_dsize s0 in let h0 := s_h s0 in let fat0 := s_fat s0 in
  let is32 := ft s0 =? Gen.FAT_TYPE_FAT32 in let bk := BPB_BkBootSec h0 * bps s0 in
  dev_ok d ->
  mark_dirty s0 = Ok s1 -> mark_clean s1 = Ok s2 ->
  (* the volume is clean *)
  Z.land (BS_Reserved1 h0) Gen.FAT_DIRTY_BIT_MASK = 0 ->
  (forall m, shutdown_mask (ft s0) = Some m -> 0 <= m /\ Z.land (nthZ fat0 1) m = m /\ 1 < lenZ fat0) ->
  (* what is in memory is what is on the device: boot sector(s) and every FAT copy *)
  Forall (orig d sz) (bpbW h0 is32 bk) ->
  (forall m, shutdown_mask (ft s0) = Some m ->
     Forall (orig d sz) (fatW (fat_start s0) (fat_bytes s0) (pack_fat (ft s0) fat0 (s_hi s0)) 0 (Z.to_nat (BPB_NumFATs h0)))) ->
  (forall a, 0 <= a -> dbyte (s_dev s2) a = dbyte d a) /\ s_h s2 = h0 /\ s_fat s2 = fat0.
Proof.
  intros d sz h0 fat0 is32 bk Hd H1 H2 Hclean Hfatclean Hboot Hfat.
  destruct (mark_dirty_shape _ _ H1) as ((L1 & D1) & Hh1 & Hf1 & Hp1 & Hhi1 & Hsz1 & Hro1).
  destruct (mark_clean_shape _ _ H2) as ((L2 & D2) & Hh2 & Hf2 & Hp2 & Hhi2 & Hsz2 & Hro2).
  cbv zeta in *.
  assert (Eft : ft s1 = ft s0) by (unfold ft; rewrite Hp1; reflexivity).
  assert (Ebps : bps s1 = bps s0) by (unfold bps; rewrite Hh1; reflexivity).
  assert (Ebk : BPB_BkBootSec (s_h s1) = BPB_BkBootSec (s_h s0)) by (rewrite Hh1; reflexivity).
  assert (Efs : fat_start s1 = fat_start s0) by (unfold fat_start, bps; rewrite Hh1; reflexivity).
  assert (Efb : fat_bytes s1 = fat_bytes s0) by (unfold fat_bytes, bps; rewrite Hh1, Hp1; reflexivity).
  assert (Enf : BPB_NumFATs (s_h s1) = BPB_NumFATs (s_h s0)) by (rewrite Hh1; reflexivity).
  (* the header and the table after the session are the ones before it *)
  assert (Hhc : set_reserved1 (s_h s1) (Z.land (BS_Reserved1 (s_h s1)) (Z.lnot Gen.FAT_DIRTY_BIT_MASK)) = h0).
  { rewrite Hh1. cbn [BS_Reserved1 set_reserved1]. rewrite set_reserved1_twice.
    destruct (flags_roundtrip 1 (BS_Reserved1 (s_h s0)) 1 ltac:(lia) ltac:(reflexivity) Hclean) as [_ E]. rewrite E. apply set_reserved1_same. }
  assert (Hfc : match shutdown_mask (ft s1) with Some m => updZ (s_fat s1) 1 (Z.lor (nthZ (s_fat s1) 1) m) | None => s_fat s1 end = fat0).
  { rewrite Eft, Hf1. destruct (shutdown_mask (ft s0)) as [m|] eqn:Em; [|reflexivity].
    destruct (Hfatclean m eq_refl) as (Hm0 & Hm & Hlen).
    rewrite nthZ_updZ_same by (fold fat0; lia). rewrite updZ_twice.
    destruct (flags_roundtrip (nthZ fat0 1) 0 m Hm0 Hm ltac:(reflexivity)) as [E _]. fold fat0. rewrite E. apply updZ_same. lia. }
  rewrite Hhc in *. rewrite Hfc in *. rewrite Eft, Ebps, Ebk, Efs, Efb, Enf, Hhi1 in *.
  split; [|split; [exact Hh2|exact Hf2]].
  intros a Ha.
  set (clean := bpbW h0 is32 bk ++ match shutdown_mask (ft s0) with
                  | Some _ => fatW (fat_start s0) (fat_bytes s0) (pack_fat (ft s0) fat0 (s_hi s0)) 0 (Z.to_nat (BPB_NumFATs (s_h s0))) | None => [] end) in *.
  set (dirty := bpbW (set_reserved1 (s_h s0) (Z.lor (BS_Reserved1 (s_h s0)) Gen.FAT_DIRTY_BIT_MASK)) is32 bk ++ match shutdown_mask (ft s0) with
                  | Some m => fatW (fat_start s0) (fat_bytes s0) (pack_fat (ft s0) (updZ (s_fat s0) 1 (Z.land (nthZ (s_fat s0) 1) (Z.lnot m))) (s_hi s0)) 0 (Z.to_nat (BPB_NumFATs (s_h s0))) | None => [] end) in *.
  assert (Horig : Forall (orig d sz) clean).
  { unfold clean. apply Forall_app. split; [exact Hboot|]. destruct (shutdown_mask (ft s0)) as [m|] eqn:Em; [apply (Hfat m eq_refl)|constructor]. }
  assert (Hcov : forall w1, In w1 dirty -> exists w2, In w2 clean /\ fst w2 = fst w1 /\ lenZ (snd w2) = lenZ (snd w1)).
  { intros w1 Hw. unfold dirty in Hw. apply in_app_or in Hw. destruct Hw as [Hw|Hw].
    - assert (Hlen : lenZ (ser_hdr (set_reserved1 (s_h s0) (Z.lor (BS_Reserved1 (s_h s0)) Gen.FAT_DIRTY_BIT_MASK))) = lenZ (ser_hdr h0)) by (unfold lenZ; rewrite ser_hdr_length_reserved; reflexivity).
      destruct (bpbW_cover _ h0 is32 bk Hlen w1 Hw) as (w2 & A & B & C).
      exists w2. split; [unfold clean; apply in_or_app; left; exact A|auto].
    - destruct (shutdown_mask (ft s0)) as [m|]; [|destruct Hw].
      assert (Hlen : lenZ (pack_fat (ft s0) (updZ (s_fat s0) 1 (Z.land (nthZ (s_fat s0) 1) (Z.lnot m))) (s_hi s0)) = lenZ (pack_fat (ft s0) fat0 (s_hi s0))).
      { unfold lenZ. f_equal. apply pack_fat_length. apply updZ_length. }
      destruct (fatW_cover (fat_start s0) (fat_bytes s0) _ (pack_fat (ft s0) fat0 (s_hi s0)) (Z.to_nat (BPB_NumFATs (s_h s0))) 0 Hlen w1 Hw) as (w2 & A & B & C).
      exists w2. split; [unfold clean; apply in_or_app; right; exact A|auto]. }
  assert (Hpos : Forall (fun w => 0 <= fst w) (clean ++ dirty)).
  { apply Forall_app. split.
    - eapply Forall_impl; [|exact Horig]. intros w (A & _). exact A.
    - apply Forall_forall. intros w1 Hw. destruct (Hcov w1 Hw) as (w2 & A & B & _). rewrite Forall_forall in Horig. destruct (Horig w2 A) as (C & _). lia. }
  assert (Hdev : s_dev s2 = apply_log (clean ++ dirty) d).
  { rewrite D2, D1. unfold apply_log, clean, dirty. rewrite !fold_right_app. destruct (shutdown_mask (ft s0)); reflexivity. }
  rewrite Hdev, dbyte_apply_log by assumption. rewrite newest_app.
  destruct (newest clean a) as [b|] eqn:Ec.
  - symmetry. symmetry. apply (newest_original d sz clean a b Hd Horig Ec).
  - rewrite (newest_covered dirty clean a Hcov Ec). reflexivity.
Qed.

(** a decidable form of [orig] for concrete volumes *)
Definition origb (d:dev) (sz:Z) (w:Z * list Z) : bool :=
  (0 <=? fst w) && (fst w + lenZ (snd w) <=? sz) && list_eqb (snd w) (dread d sz (fst w) (lenZ (snd w))).
Lemma list_eqb_eq a : forall b, list_eqb a b = true -> a = b.
Proof.
  induction a as [|x r IH]; intros [|y q] H; cbn in H; try discriminate; [reflexivity|].
  apply andb_true_iff in H. destruct H as [H1 H2]. apply Z.eqb_eq in H1. subst. f_equal. apply IH. exact H2.
Qed.
Lemma origb_orig d sz l : forallb (origb d sz) l = true -> Forall (orig d sz) l.
Proof.
  intros H. rewrite forallb_forall in H. apply Forall_forall. intros w Hw. specialize (H w Hw). unfold origb in H.
  apply andb_true_iff in H. destruct H as [H H3]. apply andb_true_iff in H. destruct H as [H1 H2].
  split; [lia|]. split; [lia|]. apply list_eqb_eq. exact H3.
Qed.

(** * the mounted state of a canonical image satisfies the hypotheses of [session_identity] *)
Lemma no_pads_12 bs : pads_zero_in Gen.BPB12_LAYOUT bs.
Proof. unfold Gen.BPB12_LAYOUT. cbn [pads_zero_in]. repeat split; intros H0 H1; exfalso; (apply H0; reflexivity) || (apply H1; reflexivity). Qed.
Lemma no_pads_32 bs : pads_zero_in Gen.BPB32_LAYOUT bs.
Proof. unfold Gen.BPB32_LAYOUT. cbn [pads_zero_in]. repeat split; intros H0 H1; exfalso; (apply H0; reflexivity) || (apply H1; reflexivity). Qed.
Lemma layout_ok_12 : layout_ok Gen.BPB12_LAYOUT.
Proof. unfold Gen.BPB12_LAYOUT. cbn [layout_ok]. repeat split; lia. Qed.
Lemma layout_ok_32 : layout_ok Gen.BPB32_LAYOUT.
Proof. unfold Gen.BPB32_LAYOUT. cbn [layout_ok]. repeat split; lia. Qed.

Theorem ser_parse_hdr boot : bytes_ok boot -> 90 <= lenZ boot ->
  ser_hdr (parse_hdr boot) = firstn (if un_le (slice boot 22 24) >? 0 then 62 else 90) boot.
Proof.
  intros Hb Hl. unfold parse_hdr. cbv zeta. destruct (un_le (slice boot 22 24) >? 0).
  - unfold ser_hdr, hdr_layout. cbn [is32hdr hdr_of_fields12].
    replace (fields_of_hdr (hdr_of_fields12 (parse_layout Gen.BPB12_LAYOUT boot))) with (parse_layout Gen.BPB12_LAYOUT boot).
    + rewrite ser_parse_layout; [reflexivity|apply layout_ok_12|exact Hb|change (layout_size Gen.BPB12_LAYOUT) with 62; lia|apply no_pads_12].
    + unfold Gen.BPB12_LAYOUT. cbn [parse_layout Z.eqb Pos.eqb]. reflexivity.
  - unfold ser_hdr, hdr_layout. cbn [is32hdr hdr_of_fields32].
    replace (fields_of_hdr (hdr_of_fields32 (parse_layout Gen.BPB32_LAYOUT boot))) with (parse_layout Gen.BPB32_LAYOUT boot).
    + rewrite ser_parse_layout; [reflexivity|apply layout_ok_32|exact Hb|change (layout_size Gen.BPB32_LAYOUT) with 90; lia|apply no_pads_32].
    + unfold Gen.BPB32_LAYOUT. cbn [parse_layout Z.eqb Pos.eqb]. reflexivity.
Qed.

Lemma dread_sub d sz off L a n : dev_ok d -> 0 <= off -> 0 <= a -> 0 <= n -> a + n <= L -> off + L <= sz ->
  firstn (Z.to_nat n) (skipn (Z.to_nat a) (dread d sz off L)) = dread d sz (off + a) n.
Proof.
  intros Hd Ho Ha Hn HL Hs. rewrite !dread_spec by (try assumption; lia).
  replace (Z.to_nat (Z.min L (sz - off))) with (Z.to_nat L) by lia. replace (Z.to_nat (Z.min n (sz - (off + a)))) with (Z.to_nat n) by lia.
  rewrite <- skipn_map, <- firstn_map || idtac. rewrite skipn_map, firstn_map. f_equal.
  rewrite zrange_skipn by lia. rewrite zrange_firstn by lia. f_equal. lia.
Qed.
Lemma fatW_forall (P:Z * list Z -> Prop) fs fb b n : forall i,
  (forall k, i <= k < i + Z.of_nat n -> P (fs + k * fb, b)) -> Forall P (fatW fs fb b i n).
Proof.
  induction n as [|m IH]; intros i H; [constructor|]. cbn [fatW]. apply Forall_app. split.
  - apply IH. intros k Hk. apply H. lia.
  - constructor; [apply H; lia|constructor].
Qed.
Lemma sig_bytes a b : byte_ok a -> byte_ok b -> un_le [a; b] = 43605 -> a = 85 /\ b = 170.
Proof. unfold byte_ok. cbn [un_le]. lia. Qed.

Theorem mount_close_identity d sz pc s1 dirty s2 :
  dev_ok d -> mount d sz false pc = Ok (s1, dirty) -> op_close s1 = Ok s2 ->
  let boot := dread d sz 0 512 in
  let h0 := parse_hdr boot in
  let p := set_bytes_per_cluster (Gen.parse_header_geometry pf_init h0) (BPB_BytsPerSec h0 * BPB_SecPerClus h0) in
  let t := fat_type p in
  let fs := BPB_RsvdSecCnt h0 * BPB_BytsPerSec h0 in
  let fsz := BPB_BytsPerSec h0 * _fat_size p in
  let fb := dread d sz fs fsz in
  let bk := BPB_BkBootSec h0 * BPB_BytsPerSec h0 in
  (* the image is canonical and clean *)
  bytes_ok boot -> bytes_ok fb ->
  Z.land (BS_Reserved1 h0) Gen.FAT_DIRTY_BIT_MASK = 0 ->
  (t = 16 -> Nat.even (length fb) = true /\ Z.land (nthZ (parse16 fb) 1) 32768 = 32768 /\ 1 < lenZ (parse16 fb)) ->
  (t = 32 -> (length fb mod 4 = 0)%nat /\ Z.land (nthZ (parse32 fb) 1) 134217728 = 134217728 /\ 1 < lenZ (parse32 fb)) ->
  0 <= fs -> 0 <= fsz -> 0 <= BPB_NumFATs h0 -> fs + BPB_NumFATs h0 * fsz <= sz ->
  (forall k, 0 <= k < BPB_NumFATs h0 -> dread d sz (fs + k * fsz) fsz = fb) ->
  (t = 32 -> orig d sz (bk, ser_hdr h0) /\ orig d sz (510 + bk, [85; 170])) ->
  forall a, 0 <= a -> dbyte (s_dev s2) a = dbyte d a.
Proof.
  intros Hd Hm Hc boot h0 p t fs fsz fb bk Hbb Hbf Hclean H16 H32 Hfs Hfsz Hnf Hfit Hcopies Hbak.
  unfold mount in Hm. cbv zeta in Hm. fold boot in Hm.
  destruct (length boot <? 512)%nat eqn:Elen; [discriminate|]. apply Nat.ltb_ge in Elen. fold h0 in Hm.
  destruct (Gen.verify_bpb_header h0); [|discriminate]. cbn [bind] in Hm.
  destruct (negb (un_le (slice boot 510 512) =? 43605)) eqn:Esig; [discriminate|]. apply negb_false_iff, Z.eqb_eq in Esig.
  fold p fs fsz in Hm. fold fb in Hm. destruct (negb (lenZ fb =? fsz)) eqn:Efl; [discriminate|]. apply negb_false_iff, Z.eqb_eq in Efl.
  fold t in Hm. cbn [negb] in Hm.
  set (s0 := mkSt h0 p false pc (parse_fat t fb) (if t =? 32 then parse32hi fb else []) 0 d sz [] []) in *.
  destruct (mark_dirty s0) as [s1'|] eqn:E1; [|discriminate]. cbn [bind] in Hm.
  destruct (read_dir s1' (root_loc s1')); [|discriminate]. cbn [bind] in Hm. inversion Hm; subst s1' dirty. clear Hm.
  assert (Hro : s_ro s1 = false) by (destruct (mark_dirty_shape _ _ E1) as (_ & _ & _ & _ & _ & _ & R); rewrite R; reflexivity).
  unfold op_close in Hc. rewrite Hro in Hc.
  assert (Hsz512 : 512 <= sz).
  { unfold boot in Elen. rewrite dread_spec in Elen by (try assumption; lia). rewrite map_length, zrange_length in Elen. lia. }
  assert (Hblen : length boot = 512%nat).
  { unfold boot. rewrite dread_spec by (try assumption; lia). rewrite map_length, zrange_length. lia. }
  destruct (session_identity s0 s1 s2 Hd E1 Hc) as (Hres & _); [exact Hclean| | | |exact Hres].
  - (* FAT flags *)
    intros m Hmask. unfold shutdown_mask in Hmask. change (ft s0) with t in Hmask. cbn [s_fat s0].
    change Gen.FAT_TYPE_FAT16 with 16 in Hmask. change Gen.FAT_TYPE_FAT32 with 32 in Hmask.
    destruct (t =? 16) eqn:E16.
    + apply Z.eqb_eq in E16. inversion Hmask; subst m. destruct (H16 E16) as (_ & A & B). unfold parse_fat. rewrite E16.
      change (16 =? 12) with false. change (16 =? 16) with true. cbv iota. change Gen.FAT16_CLEAN_SHUTDOWN_BIT_MASK with 32768. repeat split; try lia; assumption.
    + destruct (t =? 32) eqn:E32'; [|discriminate]. apply Z.eqb_eq in E32'. inversion Hmask; subst m. destruct (H32 E32') as (_ & A & B). unfold parse_fat. rewrite E32'.
      change (32 =? 12) with false. change (32 =? 16) with false. cbv iota. change Gen.FAT32_CLEAN_SHUTDOWN_BIT_MASK with 134217728. repeat split; try lia; assumption.
  - (* boot sector(s) *)
    change (s_h s0) with h0. change (s_dsize s0) with sz. change (s_dev s0) with d. change (ft s0) with t. change (bps s0) with (BPB_BytsPerSec h0). fold bk.
    unfold bpbW. apply Forall_app. split.
    + change Gen.FAT_TYPE_FAT32 with 32. destruct (t =? 32) eqn:E32'; [|constructor]. apply Z.eqb_eq in E32'. destruct (Hbak E32') as [A B].
      constructor; [exact B|constructor; [exact A|constructor]].
    + assert (Hn : lenZ (ser_hdr h0) = (if un_le (slice boot 22 24) >? 0 then 62 else 90) /\ ser_hdr h0 = dread d sz 0 (lenZ (ser_hdr h0))).
      { unfold h0. rewrite ser_parse_hdr by (try exact Hbb; unfold lenZ; lia).
        set (n := if un_le (slice boot 22 24) >? 0 then 62%nat else 90%nat).
        assert (Hnl : lenZ (firstn n boot) = Z.of_nat n) by (unfold lenZ; rewrite firstn_length; unfold n; destruct (_ >? 0); lia).
        split; [rewrite Hnl; unfold n; destruct (_ >? 0); reflexivity|]. rewrite Hnl.
        pose proof (dread_sub d sz 0 512 0 (Z.of_nat n) Hd ltac:(lia) ltac:(lia) ltac:(lia) ltac:(unfold n; destruct (_ >? 0); lia) ltac:(lia)) as Hs.
        cbn [Z.to_nat skipn] in Hs. rewrite Nat2Z.id in Hs. fold boot in Hs. exact Hs. }
      destruct Hn as [Hn1 Hn2].
      constructor; [|constructor; [|constructor]].
      * (* signature *)
        unfold orig. cbn [fst snd]. unfold lenZ at 1 2. cbn [length]. split; [lia|]. split; [lia|].
        pose proof (dread_sub d sz 0 512 510 2 Hd ltac:(lia) ltac:(lia) ltac:(lia) ltac:(lia) ltac:(lia)) as Hs. fold boot in Hs. cbn [Z.add] in Hs.
        unfold lenZ. cbn [length Z.of_nat Pos.of_succ_nat Pos.succ]. rewrite <- Hs.
        unfold slice in Esig. change (Z.to_nat (512 - 510)) with 2%nat in Esig. change (Z.to_nat 2) with 2%nat.
        destruct (firstn 2 (skipn (Z.to_nat 510) boot)) as [|x [|y [|z q]]] eqn:Es; try (cbn [un_le] in Esig; lia).
        { exfalso. assert (length (firstn 2 (skipn (Z.to_nat 510) boot)) = 2%nat) by (rewrite firstn_length, skipn_length, Hblen; lia). rewrite Es in H. discriminate. }
        { assert (Hin : bytes_ok [x; y]).
          { rewrite <- Es. apply Forall_forall. intros v Hv. apply In_firstn' in Hv. apply In_skipn' in Hv. exact (proj1 (Forall_forall _ _) Hbb v Hv). }
          inversion Hin as [|? ? Hx Hr]; subst. inversion Hr as [|? ? Hy _]; subst. destruct (sig_bytes x y Hx Hy Esig) as [-> ->]. reflexivity. }
        { exfalso. assert (length (firstn 2 (skipn (Z.to_nat 510) boot)) <= 2)%nat by (rewrite firstn_length; lia). rewrite Es in H. cbn in H. lia. }
      * unfold orig. cbn [fst snd]. split; [lia|]. split; [rewrite Hn1; destruct (_ >? 0); lia|exact Hn2].
  - (* FAT copies *)
    intros m Hmask. change (s_h s0) with h0. change (s_dsize s0) with sz. change (s_dev s0) with d. change (ft s0) with t.
    change (fat_start s0) with fs. change (fat_bytes s0) with fsz. cbn [s_fat s_hi s0].
    assert (Hpack : pack_fat t (parse_fat t fb) (if t =? 32 then parse32hi fb else []) = fb).
    { unfold shutdown_mask in Hmask. change (ft s0) with t in Hmask. change Gen.FAT_TYPE_FAT16 with 16 in Hmask. change Gen.FAT_TYPE_FAT32 with 32 in Hmask.
      unfold pack_fat, parse_fat. destruct (t =? 16) eqn:E16.
      - apply Z.eqb_eq in E16. rewrite E16. change (16 =? 12) with false. change (16 =? 16) with true. cbv iota.
        rewrite pack16_parse16 by exact Hbf. apply trim16_even. apply (H16 E16).
      - destruct (t =? 32) eqn:E32'; [|discriminate]. apply Z.eqb_eq in E32'. rewrite E32'. change (32 =? 12) with false. change (32 =? 16) with false. cbv iota.
        rewrite pack32_parse32 by exact Hbf. apply trim32_id. apply (H32 E32'). }
    rewrite Hpack. apply fatW_forall. intros k Hk. rewrite Z2Nat.id in Hk by lia. unfold orig. cbn [fst snd]. rewrite Efl.
    split; [nia|]. split; [nia|]. symmetry. apply Hcopies. lia.
Qed.
