(** C03 over histories, the FAT third: after ANY history of interface calls the in-memory table is still well-formed (every entry a value of
    its width), and every operation that ends with a FAT flush — create, makedir, remove, removedir, the close of a handle opened for writing —
    leaves the device with every FAT copy equal to the in-memory table: at that point nothing of the table exists in memory only. *)
From Coq Require Import ZArith List Bool Lia ZifyBool Relations.
From PyFatV Require Import Base.Bytes Base.Sweep Base.PyEnv Gen.Pure Model.Codec Model.Dir Model.FS Proofs.FatCodec Proofs.FatTable Proofs.Device Proofs.DirCodec Proofs.DirState Proofs.Chains Proofs.Session Proofs.FatState Proofs.HdrState Proofs.Identity Proofs.Geometry Proofs.FatBound Proofs.BootSafe Proofs.Inside.
Import ListNotations.
Open Scope Z_scope.

(** * well-formedness of the table is an invariant *)
Lemma eoc_max_width t : vt t -> Gen.END_OF_CLUSTER_MAX t = 2 ^ (if t =? 32 then 28 else t) - 1.
Proof. intros [->|[->| ->]]; vm_compute; reflexivity. Qed.
Lemma Forall_nthZ (P:Z -> Prop) (l:list Z) : (forall i, 0 <= i < lenZ l -> P (nthZ l i)) -> Forall P l.
Proof.
  intros H. apply Forall_forall. intros x Hx. destruct (In_nth l x 0 Hx) as (n & Hn & E). rewrite <- E.
  specialize (H (Z.of_nat n)). unfold nthZ, lenZ in H. rewrite Nat2Z.id in H. apply H. lia.
Qed.
Lemma nthZ_Forall (P:Z -> Prop) (l:list Z) i : Forall P l -> 0 <= i < lenZ l -> P (nthZ l i).
Proof. intros H Hi. rewrite Forall_forall in H. apply H. apply nthZ_In. exact Hi. Qed.
Lemma fat_wf_J a b : pre a -> fat_wf a -> J a b -> fat_wf b.
Proof.
  intros (Hv & _) Hw (A1 & A2 & A3 & _ & _ & [L C] & _).
  assert (Eft : ft b = ft a) by (unfold ft; rewrite A2; reflexivity).
  assert (Hent : forall w, Gen.END_OF_CLUSTER_MAX (ft a) = 2 ^ w - 1 -> ent_ok w (s_fat a) -> ent_ok w (s_fat b)).
  { intros w Ew Ha. apply Forall_nthZ. intros i Hi. destruct (Z.eq_dec (nthZ (s_fat b) i) (nthZ (s_fat a) i)) as [E|E].
    - rewrite E. apply (nthZ_Forall _ _ _ Ha). lia.
    - destruct (C i ltac:(lia) E) as (_ & _ & Hr). lia. }
  pose proof (eoc_max_width _ Hv) as Ew. unfold fat_wf in *. rewrite Eft, A3.
  destruct Hw as [[E12 H]|[[E16 H]|(E32 & H & Hh & Hl)]].
  - left. split; [exact E12|]. apply Hent; [rewrite Ew, E12; reflexivity|exact H].
  - right. left. split; [exact E16|]. apply Hent; [rewrite Ew, E16; reflexivity|exact H].
  - right. right. split; [exact E32|]. split; [apply Hent; [rewrite Ew, E32; reflexivity|exact H]|]. split; [exact Hh|].
    unfold lenZ in L. lia.
Qed.

(** * the bundle of invariants, preserved by whatever [J] and [R] relate *)
Definition qinv (s:st) : Prop :=
  pre s /\ safe s /\ dev_ok (s_dev s) /\ fat_wf s /\ lenZ (pack_fat (ft s) (s_fat s) (s_hi s)) = fat_bytes s /\
  fat_start s + BPB_NumFATs (s_h s) * fat_bytes s <= s_dsize s.
Lemma qinv_step a b : qinv a -> J a b -> R a b -> qinv b.
Proof.
  intros (Hp & Hs & Hd & Hw & Hl & Hfit) Hj Hr. pose proof Hj as (A1 & A2 & A3 & _ & A5 & [L _] & _). pose proof Hr as (_ & _ & _ & _ & l & _ & Hab & Hdev).
  destruct (frame_eqs a b A1 A2) as (E1 & _ & _ & _ & _ & _ & E7 & E8 & _).
  split; [eapply pre_J; eassumption|]. split; [eapply safe_R; eassumption|]. split.
  - rewrite Hdev. apply apply_log_ok; [exact Hd|]. eapply Forall_impl; [|exact Hab]. intros w Hw'. cbv beta in Hw'. lia.
  - split; [eapply fat_wf_J; eassumption|]. split.
    + rewrite E1, E8, A3. unfold lenZ in *. rewrite (pack_fat_length (ft a) (s_fat b) (s_fat a) (s_hi a)); [exact Hl|lia].
    + rewrite E7, E8, A1, A5. exact Hfit.
Qed.

(** every FAT copy on the device decodes to the in-memory table *)
Definition synced (s:st) : Prop :=
  forall k, 0 <= k < BPB_NumFATs (s_h s) ->
    parse_fat (ft s) (rd s (fat_start s + k * fat_bytes s) (fat_bytes s)) = s_fat s /\
    (ft s = 32 -> parse32hi (rd s (fat_start s + k * fat_bytes s) (fat_bytes s)) = s_hi s).
Lemma flush_synced x y : qinv x -> flush_fat x = Ok y -> synced y.
Proof.
  intros (Hp & Hs & Hd & Hw & Hl & Hfit) H. destruct Hp as (_ & Hg & _). destruct Hg as (_ & _ & _ & H4 & _ & H6 & _).
  destruct (flush_fat_persists x y Hd Hw ltac:(lia) H6 Hl Hfit H) as (F1 & F2 & F3 & _).
  intros k Hk.
  assert (Eh : s_h y = s_h x /\ s_p y = s_p x).
  { unfold flush_fat in H. destruct (s_ro x); [discriminate|]. apply wrote_flush_copies in H. destruct H as (_ & _ & B1 & B2 & _). split; assumption. }
  destruct Eh as [Eh Ep]. unfold ft, fat_start, fat_bytes, bps in *. rewrite Eh, Ep, F1, F2. apply F3. rewrite <- Eh. exact Hk.
Qed.

(** * the operations that end with a flush *)
Ltac hd_step H :=
  first [ discriminate H
  | match type of H with
    | bind ?X _ = _ => let E := fresh "E" in destruct X eqn:E; cbn [bind] in H
    | (match ?x with _ => _ end) = _ => let E := fresh "E" in destruct x eqn:E
    end ].
Ltac crush H := repeat hd_step H; cbn [bind] in H; try discriminate H.
Ltac vsubst s := repeat match goal with
  | H : ?x = ?y |- _ => is_var y; tryif constr_eq y s then fail else subst y
  | H : ?x = ?y |- _ => is_var x; tryif constr_eq x s then fail else subst x
  end.
Ltac open_all s := repeat match goal with
  | E : Ok _ = Ok _ |- _ => injection E; clear E; intros; vsubst s
  | E : (_, _) = (_, _) |- _ => injection E; clear E; intros; vsubst s
  | E : _ = Ok _ |- _ => progress (crush E)
  end.
(** close the goal [synced s'] from a final [flush_fat x = Ok s'] with [J s x] and [R s x] in the context *)
Ltac by_final_flush s Hq :=
  match goal with
  | E : flush_fat ?x = Ok ?y, Hj : J s ?x, Hr : R s ?x |- synced ?y => exact (flush_synced x y (qinv_step s x Hq Hj Hr) E)
  end.

Lemma sync_remove_entry s ploc e s' : qinv s -> remove_entry s ploc e = Ok s' -> synced s'.
Proof.
  intros Hq H. pose proof Hq as (Hp & Hs & _). unfold remove_entry in H. open_all s; Jchain s Hp; Rchain s Hs; by_final_flush s Hq.
Qed.
Lemma sync_op_remove s p s' : qinv s -> op_remove s p = Ok s' -> synced s'.
Proof. intros Hq H. unfold op_remove in H. open_all s. eapply sync_remove_entry; eassumption. Qed.
Lemma sync_op_removedir s p s' : qinv s -> op_removedir s p = Ok s' -> synced s'.
Proof. intros Hq H. unfold op_removedir in H. open_all s. eapply sync_remove_entry; eassumption. Qed.
Lemma sync_op_makedir s p r t s' : qinv s -> synced s -> op_makedir s p r t = Ok s' -> synced s'.
Proof.
  intros Hq Hsy H. pose proof Hq as (Hp & Hs & _). unfold op_makedir in H. open_all s; try exact Hsy; Jchain2 s Hp; Rchain2 s Hs; by_final_flush s Hq.
Qed.
Lemma sync_op_create s p w t b s' : qinv s -> synced s -> op_create s p w t = Ok (b, s') -> synced s'.
Proof.
  intros Hq Hsy H. pose proof Hq as (Hp & Hs & _). unfold op_create in H. open_all s; try exact Hsy; Jchain2 s Hp; Rchain2 s Hs; by_final_flush s Hq.
Qed.
Lemma sync_h_close s h s' h' : qinv s -> synced s -> h_close s h = Ok (s', h') -> synced s'.
Proof.
  intros Hq Hsy H. pose proof Hq as (Hp & Hs & _). unfold h_close in H. open_all s; try exact Hsy; Jchain2 s Hp; Rchain2 s Hs; by_final_flush s Hq.
Qed.

(** * histories *)
Theorem history_qinv s s' : qinv s -> clos_refl_trans st wstep s s' -> qinv s'.
Proof.
  intros Hq H. pose proof Hq as (Hp & Hs & _). eapply qinv_step; [exact Hq|apply history_J; assumption|apply history_R; assumption].
Qed.
(** the calls after which nothing of the table exists in memory only *)
Inductive qstep : st -> st -> Prop :=
| qs_create s p w t b s' : op_create s p w t = Ok (b, s') -> qstep s s'
| qs_makedir s p r t s' : op_makedir s p r t = Ok s' -> qstep s s'
| qs_remove s p s' : op_remove s p = Ok s' -> qstep s s'
| qs_removedir s p s' : op_removedir s p = Ok s' -> qstep s s'
| qs_hclose s h s' h' : h_close s h = Ok (s', h') -> qstep s s'.
Lemma qstep_wstep s s' : qstep s s' -> wstep s s'.
Proof. intros H. destruct H; [eapply ws_create|eapply ws_makedir|eapply ws_remove|eapply ws_removedir|eapply ws_hclose]; eassumption. Qed.
Theorem qstep_synced s s' : qinv s -> synced s -> qstep s s' -> synced s'.
Proof.
  intros Hq Hsy H. destruct H; eauto using sync_op_create, sync_op_makedir, sync_op_remove, sync_op_removedir, sync_h_close.
Qed.
Theorem quiescent_history_synced s s' : qinv s -> synced s -> clos_refl_trans st qstep s s' -> qinv s' /\ synced s'.
Proof.
  intros Hq Hsy H. apply clos_rt_rt1n in H. induction H as [|x y z Hxy Hyz IH]; [split; assumption|].
  apply IH.
  - apply (history_qinv x y Hq). apply rt_step. apply qstep_wstep. exact Hxy.
  - eapply qstep_synced; eassumption.
Qed.
(** whatever happened before — writes through open handles included, which change the table in memory only — a removal or the close of the
    writing handle puts all of it on the device *)
Theorem any_history_then_flush_synced s s1 s2 : qinv s -> clos_refl_trans st wstep s s1 ->
  (exists p, op_remove s1 p = Ok s2) \/ (exists p, op_removedir s1 p = Ok s2) \/ (exists x, flush_fat s1 = Ok s2 /\ x = tt) -> synced s2.
Proof.
  intros Hq H Hop. pose proof (history_qinv _ _ Hq H) as Hq1. destruct Hop as [[p Hp]|[[p Hp]|[x [Hf _]]]].
  - eapply sync_op_remove; eassumption.
  - eapply sync_op_removedir; eassumption.
  - eapply flush_synced; eassumption.
Qed.
