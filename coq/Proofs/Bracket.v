(** C11, the close side of the bracket: while the clean marking of close is being written — at every point between two of its device
    writes — either the dirty flag is still in the boot sector, or everything outside the boot-sector copies is already what the closed
    image holds.  (Close flushes the FAT first, clears the flag in the boot sector next, and only then re-writes the signature and the
    FAT32 backup copy.) *)
From Coq Require Import ZArith List Bool Lia ZifyBool.
From PyFatV Require Import Base.Bytes Base.Sweep Base.PyEnv Gen.Pure Model.Codec Model.Dir Model.FS Proofs.FatTable Proofs.Device Proofs.DirCodec Proofs.DirState Proofs.Chains Proofs.Session Proofs.FatState Proofs.HdrState Proofs.Identity.
Import ListNotations.
Open Scope Z_scope.

Lemma in_zrange n : forall a x, In x (zrange a n) -> a <= x < a + Z.of_nat n.
Proof. induction n as [|m IH]; intros a x H; [destruct H|]. cbn [zrange] in H. destruct H as [<-|H]; [lia|]. apply IH in H. lia. Qed.
Lemma dread_ext d d' sz a n : dev_ok d -> dev_ok d' -> 0 <= a -> (forall x, a <= x < a + n -> dbyte d x = dbyte d' x) -> dread d sz a n = dread d' sz a n.
Proof.
  intros Hd Hd' Ha H. rewrite !dread_spec by assumption. apply map_ext_in. intros x Hx. apply H. apply in_zrange in Hx. lia.
Qed.
(** bytes no write of a list covers are the same before and after *)
Lemma dbyte_apply_outside l d a : dev_ok d -> Forall (fun w => 0 <= fst w) l -> 0 <= a ->
  Forall (fun w => ~ (fst w <= a < fst w + lenZ (snd w))) l -> dbyte (apply_log l d) a = dbyte d a.
Proof. intros Hd Hp Ha Hn. rewrite dbyte_apply_log by assumption. apply newest_none in Hn. rewrite Hn. reflexivity. Qed.

Lemma split_cases {A} (B:list A) x C : forall later earlier, later ++ earlier = B ++ x :: C ->
  (exists pre, C = pre ++ earlier) \/ (exists post, later ++ post = B /\ earlier = post ++ x :: C).
Proof.
  induction B as [|b B IH]; intros later earlier Hs; cbn [app] in Hs.
  - destruct later as [|y lt]; cbn [app] in Hs.
    + right. exists []. split; [reflexivity|exact Hs].
    + injection Hs as _ Hs. left. exists lt. symmetry. exact Hs.
  - destruct later as [|y lt]; cbn [app] in Hs.
    + right. exists (b :: B). split; [reflexivity|exact Hs].
    + injection Hs as Hy Hs. destruct (IH lt earlier Hs) as [Hl|(post & Hp & He)]; [left; exact Hl|]. right. exists post. split; [cbn [app]; rewrite Hp, Hy; reflexivity|exact He].
Qed.

Definition flagged (d:dev) (sz:Z) : Prop := flag_set (parse_hdr (dread d sz 0 512)) = true.
Definition in_boot_copies (s:st) (a:Z) : Prop :=
  0 <= a < 512 \/ (ft s = Gen.FAT_TYPE_FAT32 /\ BPB_BkBootSec (s_h s) * bps s <= a < BPB_BkBootSec (s_h s) * bps s + 512).

Theorem close_bracket s s' :
  dev_ok (s_dev s) -> hdr_wf (s_h s) -> flagged (s_dev s) (s_dsize s) ->
  512 <= fat_start s -> 0 <= fat_bytes s -> (ft s = Gen.FAT_TYPE_FAT32 -> 0 <= BPB_BkBootSec (s_h s) * bps s) ->
  mark_clean s = Ok s' ->
  exists l, s_log s' = l ++ s_log s /\ s_dev s' = apply_log l (s_dev s) /\
    forall later earlier, l = later ++ earlier ->
      flagged (apply_log earlier (s_dev s)) (s_dsize s) \/
      forall a, 0 <= a -> ~ in_boot_copies s a -> dbyte (apply_log earlier (s_dev s)) a = dbyte (s_dev s') a.
Proof.
  intros Hd Hwf Hfl Hfs Hfb Hbk Hc. pose proof (mark_clean_shape _ _ Hc) as ([WL WD] & _). cbv zeta in WL, WD.
  set (h' := set_reserved1 (s_h s) (Z.land (BS_Reserved1 (s_h s)) (Z.lnot Gen.FAT_DIRTY_BIT_MASK))) in *.
  set (bk := BPB_BkBootSec (s_h s) * bps s) in *.
  set (fatpart := match shutdown_mask (ft s) with Some _ => fatW (fat_start s) (fat_bytes s) _ 0 (Z.to_nat (BPB_NumFATs (s_h s))) | None => [] end) in *.
  eexists. split; [exact WL|]. split; [exact WD|]. intros later earlier Hsplit.
  assert (Hser : lenZ (ser_hdr h') <= 510).
  { unfold h', lenZ. rewrite ser_hdr_length_reserved. fold (lenZ (ser_hdr (s_h s))). rewrite (ser_hdr_length _ Hwf). destruct (is32hdr (s_h s)); lia. }
  assert (Hfat_above : Forall (fun w => 512 <= fst w) fatpart).
  { assert (forall b n i, 0 <= i -> Forall (fun w => 512 <= fst w) (fatW (fat_start s) (fat_bytes s) b i n)) as Hgen.
    { intros b. induction n as [|k IH]; intros i Hi; cbn [fatW]; [constructor|]. apply Forall_app. split; [apply IH; lia|]. constructor; [cbn [fst]; nia|constructor]. }
    unfold fatpart. destruct (shutdown_mask (ft s)); [|constructor]. apply Hgen. lia. }
  assert (Hpos_all : Forall (fun w => 0 <= fst w) (bpbW h' (ft s =? Gen.FAT_TYPE_FAT32) bk ++ fatpart)).
  { apply Forall_app. split; [|eapply Forall_impl; [|exact Hfat_above]; intros w Hw; cbv beta in Hw; lia].
    unfold bpbW. apply Forall_app. split; [|repeat constructor; cbn [fst]; lia].
    destruct (ft s =? Gen.FAT_TYPE_FAT32) eqn:E32; [|constructor]. assert (E : ft s = Gen.FAT_TYPE_FAT32) by lia. specialize (Hbk E).
    repeat constructor; cbn [fst]; lia. }
  (* where does the split fall? *)
  unfold bpbW in Hsplit. rewrite <- app_assoc in Hsplit.
  set (bkpart := if ft s =? Gen.FAT_TYPE_FAT32 then [(510 + bk, [85; 170]); (bk, ser_hdr h')] else []) in *.
  (* [earlier] is a suffix of bkpart ++ [(510, sig); (0, hdr)] ++ fatpart *)
  assert (Hcases : (exists pre, fatpart = pre ++ earlier) \/
                   (exists post, later ++ post = bkpart ++ [(510, [85; 170])] /\ earlier = post ++ (0, ser_hdr h') :: fatpart)).
  { apply (split_cases (bkpart ++ [(510, [85; 170])]) (0, ser_hdr h') fatpart later earlier).
    rewrite <- Hsplit. rewrite <- app_assoc. reflexivity. }
  destruct Hcases as [(pre & Hpre)|(post & Hpost & Hearlier)].
  - (* only FAT copies so far: the boot sector is untouched *)
    left. unfold flagged in *. assert (Hab : Forall (fun w => 512 <= fst w) earlier) by (rewrite Hpre in Hfat_above; apply Forall_app in Hfat_above; apply Hfat_above).
    assert (Hpe : Forall (fun w => 0 <= fst w) earlier) by (eapply Forall_impl; [|exact Hab]; intros w Hw; cbv beta in Hw; lia).
    rewrite (dread_ext (apply_log earlier (s_dev s)) (s_dev s) (s_dsize s) 0 512); [exact Hfl|apply apply_log_ok; assumption|exact Hd|lia|].
    intros x Hx. apply dbyte_apply_outside; [exact Hd|exact Hpe|lia|]. eapply Forall_impl; [|exact Hab]. intros w Hw. cbv beta in Hw. lia.
  - (* the boot sector has been written: what is still to come lies inside the boot-sector copies *)
    right. intros a Ha Hout. rewrite WD.
    assert (Hl : bpbW h' (ft s =? Gen.FAT_TYPE_FAT32) bk ++ fatpart = later ++ earlier).
    { unfold bpbW. fold bkpart. rewrite <- app_assoc. exact Hsplit. }
    rewrite Hl. unfold apply_log. rewrite fold_right_app. fold (apply_log earlier (s_dev s)). fold (apply_log later (apply_log earlier (s_dev s))).
    assert (Hpe : Forall (fun w => 0 <= fst w) earlier) by (rewrite Hl in Hpos_all; apply Forall_app in Hpos_all; apply Hpos_all).
    assert (Hpl : Forall (fun w => 0 <= fst w) later) by (rewrite Hl in Hpos_all; apply Forall_app in Hpos_all; apply Hpos_all).
    symmetry. apply dbyte_apply_outside; [apply apply_log_ok; assumption|exact Hpl|exact Ha|].
    assert (Hin : Forall (fun w => In w (bkpart ++ [(510, [85; 170])])) later).
    { apply Forall_forall. intros w Hw. rewrite <- Hpost. apply in_or_app. left. exact Hw. }
    eapply Forall_impl; [|exact Hin]. intros w Hw. cbv beta in Hw. apply in_app_or in Hw. intros Hcov. apply Hout. unfold in_boot_copies.
    destruct Hw as [Hw|[<-|[]]].
    + unfold bkpart in Hw. destruct (ft s =? Gen.FAT_TYPE_FAT32) eqn:E32; [|destruct Hw]. assert (E : ft s = Gen.FAT_TYPE_FAT32) by lia.
      right. split; [exact E|]. fold bk. destruct Hw as [<-|[<-|[]]]; cbn [fst snd] in Hcov; [change (lenZ [85; 170]) with 2 in Hcov; lia|lia].
    + left. cbn [fst snd] in Hcov. change (lenZ [85; 170]) with 2 in Hcov. lia.
Qed.

(** * the whole bracket after the mount has set its mark: any history of interface calls, then close — at every point between two device
    writes the flag is in the boot sector, or everything outside the boot-sector copies is what the closed image holds *)
From Coq Require Import Relations.
From PyFatV Require Import Proofs.BootSafe.
Theorem session_bracket s1 s2 s3 :
  safe s1 -> dev_ok (s_dev s1) -> hdr_wf (s_h s1) -> 512 <= s_dsize s1 -> flagged (s_dev s1) (s_dsize s1) ->
  (ft s1 = Gen.FAT_TYPE_FAT32 -> 0 <= BPB_BkBootSec (s_h s1) * bps s1) ->
  clos_refl_trans st wstep s1 s2 -> mark_clean s2 = Ok s3 ->
  exists l, s_log s3 = l ++ s_log s1 /\ s_dev s3 = apply_log l (s_dev s1) /\
    forall later earlier, l = later ++ earlier ->
      flagged (apply_log earlier (s_dev s1)) (s_dsize s1) \/
      forall a, 0 <= a -> ~ in_boot_copies s1 a -> dbyte (apply_log earlier (s_dev s1)) a = dbyte (s_dev s3) a.
Proof.
  intros Hs Hd Hwf Hsz Hfl Hbk Hh Hc.
  destruct (history_R _ _ Hs Hh) as (A1 & A2 & A3 & A4 & lh & Hlh & Habove & Hdev).
  assert (Hposh : Forall (fun w => 0 <= fst w) lh) by (eapply Forall_impl; [|exact Habove]; intros w Hw; cbv beta in Hw; lia).
  assert (Hd2 : dev_ok (s_dev s2)) by (rewrite Hdev; apply apply_log_ok; assumption).
  assert (Hfl2 : flagged (s_dev s2) (s_dsize s2)).
  { unfold flagged. pose proof (history_keeps_mark _ _ Hs Hd Hsz Hh) as Hk. unfold rd in Hk. rewrite Hk. exact Hfl. }
  assert (Hs2 : safe s2) by (eapply safe_R; [exact Hs|apply history_R; assumption]).
  assert (E_ft : ft s2 = ft s1) by (unfold ft; rewrite A2; reflexivity).
  assert (E_bk : BPB_BkBootSec (s_h s2) * bps s2 = BPB_BkBootSec (s_h s1) * bps s1) by (unfold bps; rewrite A1; reflexivity).
  destruct (close_bracket s2 s3 Hd2) as (lc & Hlc & Hdc & Hbr); try assumption.
  - rewrite A1. exact Hwf.
  - destruct Hs2 as (_ & _ & _ & _ & H5 & _). exact H5.
  - destruct Hs2 as (_ & _ & _ & _ & _ & H6 & _). exact H6.
  - rewrite E_ft, E_bk. exact Hbk.
  - exists (lc ++ lh). split; [rewrite Hlc, Hlh, app_assoc; reflexivity|]. split; [rewrite Hdc, Hdev; unfold apply_log; rewrite fold_right_app; reflexivity|].
    intros later earlier Hsplit. apply app_eq_app in Hsplit. destruct Hsplit as (m & [[E1 E2]|[E1 E2]]).
    + (* the split falls inside the history: lc = later... no: lc ++ lh = later ++ earlier with lc = later ++ m is E-case below *)
      (* here: lc = later ++ m, earlier = m ++ lh *)
      subst earlier. assert (Ha : apply_log (m ++ lh) (s_dev s1) = apply_log m (s_dev s2)) by (rewrite Hdev; unfold apply_log; rewrite fold_right_app; reflexivity).
      rewrite Ha. rewrite <- A4. destruct (Hbr later m E1) as [Hf|Heq]; [left; exact Hf|right].
      intros a Ha0 Hout. apply Heq; [exact Ha0|]. intros Hin. apply Hout. unfold in_boot_copies in *. rewrite E_ft, E_bk in Hin. exact Hin.
    + (* later = lc ++ m, lh = m ++ earlier: only (part of) the history's writes, all at or above byte 512 *)
      left. subst lh. apply Forall_app in Habove. destruct Habove as [_ Hab]. apply Forall_app in Hposh. destruct Hposh as [_ Hpe].
      unfold flagged in *. rewrite (dread_ext (apply_log earlier (s_dev s1)) (s_dev s1) (s_dsize s1) 0 512); [exact Hfl|apply apply_log_ok; assumption|exact Hd|lia|].
      intros x Hx. apply dbyte_apply_outside; [exact Hd|exact Hpe|lia|]. eapply Forall_impl; [|exact Hab]. intros w Hw. cbv beta in Hw. lia.
Qed.

(** a decidable sufficient check of [dev_ok] for concrete devices *)
From Coq Require Import FMapPositive.
Lemma dev_ok_of_forallb (d:dev) : forallb (fun kb => (length (snd kb) =? 512)%nat) (PositiveMap.elements d) = true -> dev_ok d.
Proof.
  intros H k _. unfold dget. destruct (PositiveMap.find (Z.to_pos (k + 1)) d) as [b|] eqn:E; [|apply zblk_length].
  apply PositiveMap.elements_correct in E. rewrite forallb_forall in H. specialize (H _ E). cbn [snd] in H. apply Nat.eqb_eq in H. exact H.
Qed.

(** * the mount side: from the moment the boot sector has been written, the flag is there — whatever else of the marking has reached the
    device.  On FAT12 (no FAT[1] mark, nothing flushed before) that is from the FIRST write on. *)
Lemma newest_skip l1 l2 a : Forall (fun w => ~ (fst w <= a < fst w + lenZ (snd w))) l1 -> newest (l1 ++ l2) a = newest l2 a.
Proof.
  induction l1 as [|[off data] r IH]; intros H; [reflexivity|]. inversion H as [|? ? Hn Hr]; subst. cbn [fst snd] in Hn.
  cbn [app newest]. replace ((off <=? a) && (a <? off + lenZ data)) with false by lia. apply IH. exact Hr.
Qed.
Theorem mount_bracket s s' :
  dev_ok (s_dev s) -> hdr_wf (s_h s) -> 0 <= BS_Reserved1 (s_h s) < 256 -> 512 <= s_dsize s ->
  512 <= fat_start s -> 0 <= fat_bytes s -> (ft s = Gen.FAT_TYPE_FAT32 -> 512 <= BPB_BkBootSec (s_h s) * bps s) ->
  mark_dirty s = Ok s' ->
  exists l, s_log s' = l ++ s_log s /\ s_dev s' = apply_log l (s_dev s) /\
    forall later earlier, l = later ++ earlier ->
      (ft s = Gen.FAT_TYPE_FAT12 -> earlier <> [] -> flagged (apply_log earlier (s_dev s)) (s_dsize s)) /\
      (In (0, ser_hdr (s_h s')) earlier -> flagged (apply_log earlier (s_dev s)) (s_dsize s)).
Proof.
  intros Hd Hwf Hr Hsz Hfs Hfb Hbk Hm. pose proof (mark_dirty_shape _ _ Hm) as ([WL WD] & Hh' & _). cbv zeta in WL, WD, Hh'.
  set (h' := set_reserved1 (s_h s) (Z.lor (BS_Reserved1 (s_h s)) Gen.FAT_DIRTY_BIT_MASK)) in *.
  set (bk := BPB_BkBootSec (s_h s) * bps s) in *.
  set (fatpart := match shutdown_mask (ft s) with Some _ => fatW (fat_start s) (fat_bytes s) _ 0 (Z.to_nat (BPB_NumFATs (s_h s))) | None => [] end) in *.
  eexists. split; [exact WL|]. split; [exact WD|]. intros later earlier Hsplit.
  assert (Hwf' : hdr_wf h') by (apply set_reserved1_wf; [exact Hwf|apply lor1_byte; exact Hr]).
  assert (Hser : lenZ (ser_hdr h') <= 510) by (rewrite (ser_hdr_length _ Hwf'); destruct (is32hdr h'); lia).
  assert (Hflag : flag_set h' = true).
  { destruct (mark_dirty_marks _ _ Hm ltac:(lia)) as [Hf _]. rewrite Hh' in Hf. exact Hf. }
  assert (Hfat_above : Forall (fun w => 512 <= fst w) fatpart).
  { assert (forall b n i, 0 <= i -> Forall (fun w => 512 <= fst w) (fatW (fat_start s) (fat_bytes s) b i n)) as Hgen.
    { intros b. induction n as [|k IH]; intros i Hi; cbn [fatW]; [constructor|]. apply Forall_app. split; [apply IH; lia|]. constructor; [cbn [fst]; nia|constructor]. }
    unfold fatpart. destruct (shutdown_mask (ft s)); [|constructor]. apply Hgen. lia. }
  set (bkpart := if ft s =? Gen.FAT_TYPE_FAT32 then [(510 + bk, [85; 170]); (bk, ser_hdr h')] else []).
  assert (Hl : bpbW h' (ft s =? Gen.FAT_TYPE_FAT32) bk ++ fatpart = (bkpart ++ [(510, [85; 170])]) ++ (0, ser_hdr h') :: fatpart).
  { unfold bpbW. fold bkpart. rewrite <- !app_assoc. reflexivity. }
  assert (Hbk_above : Forall (fun w : Z * list Z => 510 <= fst w) (bkpart ++ [(510, [85; 170])])).
  { apply Forall_app. split; [|repeat constructor; cbn [fst]; lia]. unfold bkpart. destruct (ft s =? Gen.FAT_TYPE_FAT32) eqn:E32; [|constructor].
    assert (E : ft s = Gen.FAT_TYPE_FAT32) by lia. specialize (Hbk E). fold bk in Hbk. repeat constructor; cbn [fst]; lia. }
  (* the core: [earlier = post ++ (0, hdr') :: fatpart] with [post] above byte 510 *)
  assert (Hcore : forall post, Forall (fun w : Z * list Z => 510 <= fst w) post -> flagged (apply_log (post ++ (0, ser_hdr h') :: fatpart) (s_dev s)) (s_dsize s)).
  { intros post Hpost. unfold flagged.
    assert (Hpos : Forall (fun w => 0 <= fst w) (post ++ (0, ser_hdr h') :: fatpart)).
    { apply Forall_app. split; [eapply Forall_impl; [|exact Hpost]; intros w Hw; cbv beta in Hw; lia|].
      constructor; [cbn [fst]; lia|eapply Forall_impl; [|exact Hfat_above]; intros w Hw; cbv beta in Hw; lia]. }
    rewrite (dread_prefix _ _ 0 512 (ser_hdr h')); [rewrite parse_ser_hdr by exact Hwf'; exact Hflag|apply apply_log_ok; assumption|lia|unfold lenZ in Hser; lia|lia|].
    intros i Hi. rewrite dbyte_apply_log by (try assumption; lia). rewrite newest_skip.
    - cbn [newest]. unfold lenZ in *. replace ((0 <=? 0 + Z.of_nat i) && (0 + Z.of_nat i <? 0 + Z.of_nat (length (ser_hdr h')))) with true by lia.
      unfold nthZ. f_equal. lia.
    - eapply Forall_impl; [|exact Hpost]. intros w Hw. cbv beta in Hw. unfold lenZ in *. lia. }
  rewrite Hl in Hsplit. symmetry in Hsplit. destruct (split_cases _ _ _ _ _ Hsplit) as [(pre & Hpre)|(post & Hpost & Hearlier)].
  - (* only FAT copies so far *)
    split.
    + intros E12 Hne. exfalso. unfold fatpart in Hpre. replace (shutdown_mask (ft s)) with (@None Z) in Hpre by (rewrite E12; reflexivity).
      destruct pre; destruct earlier; try discriminate. apply Hne. reflexivity.
    + intros Hin. exfalso. rewrite Hpre in Hfat_above. apply Forall_app in Hfat_above. destruct Hfat_above as [_ Ha]. rewrite Forall_forall in Ha.
      specialize (Ha _ Hin). cbn [fst] in Ha. lia.
  - assert (Hp : Forall (fun w : Z * list Z => 510 <= fst w) post).
    { rewrite <- Hpost in Hbk_above. apply Forall_app in Hbk_above. apply Hbk_above. }
    rewrite Hearlier. split; intros; apply Hcore; exact Hp.
Qed.
