(** The boot sector: parsing what [ser_hdr] serialises gives the header back (any well-formed header, both layouts),
    and at state level: after [write_bpb] the first sector of the device parses to the in-memory header — with the
    FAT and directory round trips ([FatState], [DirState], [Chains]) the third leg of "a later mount sees what the live
    object sees", and the device-level form of the dirty mark (C11). *)
From Coq Require Import ZArith List Bool Lia ZifyBool.
From PyFatV Require Import Base.Bytes Base.Sweep Base.PyEnv Gen.Pure Model.Codec Model.Dir Model.FS Proofs.FatCodec Proofs.Device Proofs.DirCodec Proofs.DirState Proofs.Session Proofs.FatState.
Import ListNotations.
Open Scope Z_scope.

Fixpoint fields_fit (lay:list (Z*Z)) (fs:list field) : Prop :=
  match lay, fs with
  | [], [] => True
  | (w, k) :: r, f :: fr =>
      0 <= w /\
      (match f with
       | FNum v => k = 0 /\ 0 <= v < 256 ^ w
       | FBytes b => k = 1 /\ lenZ b = w
       | FPad _ => False
       end) /\ fields_fit r fr
  | _, _ => False
  end.

Theorem parse_ser_layout lay : forall fs tail, fields_fit lay fs -> parse_layout lay (ser_layout lay fs ++ tail) = fs.
Proof.
  induction lay as [|[w k] r IH]; intros fs tail H; destruct fs as [|f fr]; try (cbn in H; tauto).
  destruct H as (Hw & Hf & Hr). cbn [parse_layout ser_layout].
  destruct f as [v|b|b]; [| |destruct Hf].
  - destruct Hf as [-> Hv]. rewrite <- app_assoc.
    rewrite (firstn_app_exact (le (Z.to_nat w) v)), (skipn_app_exact (le (Z.to_nat w) v)) by apply le_length.
    change (0 =? 0) with true. cbv iota. rewrite un_le_le by (rewrite Z2Nat.id by lia; exact Hv). rewrite IH by exact Hr. reflexivity.
  - destruct Hf as [-> Hb]. rewrite <- app_assoc.
    rewrite (firstn_app_exact b), (skipn_app_exact b) by (unfold lenZ in Hb; lia).
    change (1 =? 0) with false. change (1 =? 1) with true. cbv iota. rewrite IH by exact Hr. reflexivity.
Qed.

Definition hdr_wf (h:hdr) : Prop :=
  fields_fit (hdr_layout h) (fields_of_hdr h) /\
  (if is32hdr h then BPB_FATSz16 h = 0
   else 0 < BPB_FATSz16 h /\ BPB_FATSz32 h = 0 /\ BPB_ExtFlags h = 0 /\ BPB_FSVer h = 0 /\ BPB_RootClus h = 0 /\
        BPB_FSInfo h = 0 /\ BPB_BkBootSec h = 0 /\ BPB_Reserved h = []).

Lemma skipn_skipn {A} a : forall b (l:list A), skipn a (skipn b l) = skipn (b + a) l.
Proof. intros b. induction b as [|b IH]; intros l; [reflexivity|]. destruct l as [|x r]; [rewrite !skipn_nil; reflexivity|]. cbn [skipn Nat.add]. apply IH. Qed.

(** the dispatch field BPB_FATSz16 sits at bytes 22..24 of both layouts *)
Lemma field9_12 bs : fnum (fld (parse_layout Gen.BPB12_LAYOUT bs) 9) = un_le (slice bs 22 24).
Proof.
  unfold Gen.BPB12_LAYOUT, fld, slice. cbn [parse_layout nth fnum Z.eqb]. cbn [Z.to_nat Pos.to_nat Pos.iter_op Nat.add].
  rewrite !skipn_skipn. reflexivity.
Qed.
Lemma field9_32 bs : fnum (fld (parse_layout Gen.BPB32_LAYOUT bs) 9) = un_le (slice bs 22 24).
Proof.
  unfold Gen.BPB32_LAYOUT, fld, slice. cbn [parse_layout nth fnum Z.eqb]. cbn [Z.to_nat Pos.to_nat Pos.iter_op Nat.add].
  rewrite !skipn_skipn. reflexivity.
Qed.

Theorem parse_ser_hdr h tail : hdr_wf h -> parse_hdr (ser_hdr h ++ tail) = h.
Proof.
  intros [Hfit Hd]. unfold parse_hdr, ser_hdr. cbv zeta.
  destruct (is32hdr h) eqn:E32.
  - rewrite <- field9_32. unfold hdr_layout in *. rewrite E32 in *. rewrite parse_ser_layout by exact Hfit.
    unfold fields_of_hdr. rewrite E32. cbn [app fld nth fnum fbytes]. rewrite Hd. change (0 >? 0) with false. cbv iota.
    unfold hdr_of_fields32. cbn [fld nth fnum fbytes]. destruct h; cbn in *. subst. reflexivity.
  - rewrite <- field9_12. unfold hdr_layout in *. rewrite E32 in *. rewrite parse_ser_layout by exact Hfit.
    unfold fields_of_hdr. rewrite E32. cbn [app fld nth fnum fbytes]. destruct Hd as (Hp & H1 & H2 & H3 & H4 & H5 & H6 & H7).
    replace (BPB_FATSz16 h >? 0) with true by lia.
    unfold hdr_of_fields12. cbn [fld nth fnum fbytes]. destruct h; cbn in *. subst. reflexivity.
Qed.

(** * state level *)
Lemma ser_layout_length lay : forall fs, fields_fit lay fs -> lenZ (ser_layout lay fs) = layout_size lay.
Proof.
  induction lay as [|[w k] r IH]; intros fs H; destruct fs as [|f fr]; try (cbn in H; tauto).
  destruct H as (Hw & Hf & Hr). cbn [ser_layout]. rewrite layout_size_cons. unfold lenZ in *. rewrite app_length, Nat2Z.inj_add, IH by exact Hr.
  f_equal. destruct f as [v|b|b]; [rewrite le_length; lia|destruct Hf; lia|destruct Hf].
Qed.
Lemma ser_hdr_length h : hdr_wf h -> lenZ (ser_hdr h) = if is32hdr h then 90 else 62.
Proof. intros [Hf _]. unfold ser_hdr. rewrite ser_layout_length by exact Hf. unfold hdr_layout. destruct (is32hdr h); reflexivity. Qed.

Lemma dread_prefix d sz off L H : dev_ok d -> 0 <= off -> (length H <= Z.to_nat L)%nat -> off + L <= sz ->
  (forall i, (i < length H)%nat -> dbyte d (off + Z.of_nat i) = nth i H 0) ->
  dread d sz off L = H ++ skipn (length H) (dread d sz off L).
Proof.
  intros Hd Ho Hl Hs Hb. rewrite dread_spec by assumption.
  replace (Z.to_nat (Z.min L (sz - off))) with (length H + (Z.to_nat L - length H))%nat by lia.
  rewrite zrange_app, map_app, skipn_app, map_length, zrange_length, Nat.sub_diag.
  rewrite skipn_all2 by (rewrite map_length, zrange_length; lia). cbn [skipn app]. f_equal.
  symmetry. apply list_as_map. intros i Hi. symmetry. apply Hb. exact Hi.
Qed.

Theorem write_bpb_persists s s' :
  dev_ok (s_dev s) -> hdr_wf (s_h s) -> 512 <= s_dsize s ->
  (ft s = Gen.FAT_TYPE_FAT32 -> 512 <= BPB_BkBootSec (s_h s) * bps s) ->
  write_bpb s = Ok s' ->
  parse_hdr (rd s' 0 512) = s_h s /\ s_h s' = s_h s /\ s_fat s' = s_fat s /\ dev_ok (s_dev s').
Proof.
  intros Hd Hwf Hsz Hbk H. unfold write_bpb in H.
  destruct (write_at s 0 (ser_hdr (s_h s))) as [s1|] eqn:E1; [|discriminate]. cbn [bind] in H.
  destruct (write_at s1 510 [85; 170]) as [s2|] eqn:E2; [|discriminate]. cbn [bind] in H.
  apply write_at_ok in E1. destruct E1 as [_ E1]. apply write_at_ok in E2. destruct E2 as [_ E2].
  pose proof (ser_hdr_length _ Hwf) as Hlen.
  assert (Hl510 : lenZ (ser_hdr (s_h s)) <= 510) by (destruct (is32hdr (s_h s)); lia).
  destruct (dwrite_spec (s_dev s) 0 (ser_hdr (s_h s)) Hd ltac:(lia)) as [Hd1 Hb1].
  destruct (dwrite_spec (dwrite (s_dev s) 0 (ser_hdr (s_h s))) 510 [85; 170] Hd1 ltac:(lia)) as [Hd2 Hb2].
  assert (Hs2 : parse_hdr (rd s2 0 512) = s_h s /\ s_h s2 = s_h s /\ s_fat s2 = s_fat s /\ dev_ok (s_dev s2)).
  { subst s2 s1. cbn [s_h s_fat s_dev upd_dev]. split; [|auto].
    unfold rd. cbn [s_dev s_dsize upd_dev].
    rewrite (dread_prefix _ _ 0 512 (ser_hdr (s_h s))); [apply parse_ser_hdr; exact Hwf|exact Hd2|lia|unfold lenZ in *; lia|lia|].
    intros i Hi. rewrite Hb2 by lia. unfold lenZ in *.
    replace ((510 <=? 0 + Z.of_nat i) && (0 + Z.of_nat i <? 510 + Z.of_nat (length [85; 170]))) with false by lia.
    rewrite Hb1 by lia. replace ((0 <=? 0 + Z.of_nat i) && (0 + Z.of_nat i <? 0 + Z.of_nat (length (ser_hdr (s_h s))))) with true by lia.
    unfold nthZ. f_equal. lia. }
  cbv zeta in H. destruct (ft s =? Gen.FAT_TYPE_FAT32) eqn:E32.
  - destruct (write_at s2 _ _) as [s3|] eqn:E3; [|discriminate]. cbn [bind] in H.
    apply write_at_ok in E3. destruct E3 as [_ E3]. apply write_at_ok in H. destruct H as [_ H].
    destruct Hs2 as (Hp & Hh & Hf & Hd2').
    apply Z.eqb_eq in E32. specialize (Hbk E32).
    set (bk := BPB_BkBootSec (s_h s) * bps s) in *.
    destruct (dwrite_spec (s_dev s2) bk (ser_hdr (s_h s)) Hd2' ltac:(lia)) as [Hd3 _].
    destruct (dwrite_spec (dwrite (s_dev s2) bk (ser_hdr (s_h s))) (510 + bk) [85; 170] Hd3 ltac:(lia)) as [Hd4 _].
    subst s' s3. cbn [s_h s_fat s_dev upd_dev]. split; [|auto].
    unfold rd in *. cbn [s_dev s_dsize upd_dev].
    rewrite read_elsewhere by (try assumption; try lia; right; unfold lenZ; cbn [length]; lia).
    rewrite read_elsewhere by (try assumption; try lia; right; lia). exact Hp.
  - inversion H; subst s'. exact Hs2.
Qed.

(** the device-level dirty mark (C11): after [mark_dirty] the boot sector on the device carries the flag *)
Lemma set_reserved1_wf h v : hdr_wf h -> 0 <= v < 256 -> hdr_wf (set_reserved1 h v).
Proof.
  intros [Hf Hd] Hv. split; [|exact Hd]. unfold hdr_layout, fields_of_hdr in *. cbn [is32hdr set_reserved1] in *.
  destruct (is32hdr h); cbn [app fields_fit] in *; cbn [BS_jmpBoot BS_OEMName BPB_BytsPerSec BPB_SecPerClus BPB_RsvdSecCnt BPB_NumFATs BPB_RootEntCnt
    BPB_TotSec16 BPB_Media BPB_FATSz16 BPB_SecPerTrk BPB_NumHeads BPB_HiddSec BPB_TotSec32 BPB_FATSz32 BPB_ExtFlags BPB_FSVer BPB_RootClus BPB_FSInfo BPB_BkBootSec
    BPB_Reserved BS_DrvNum BS_Reserved1 BS_BootSig BS_VolID BS_VolLab BS_FilSysType set_reserved1] in *;
  unfold Gen.BPB32_LAYOUT, Gen.BPB12_LAYOUT in *; cbn [fields_fit] in *; change (256 ^ 1) with 256; intuition.
Qed.

Lemma lor1_byte r : 0 <= r < 256 -> 0 <= Z.lor r 1 < 256.
Proof.
  intros Hr. assert (H : forallb (fun x => (0 <=? Z.lor x 1) && (Z.lor x 1 <? 256)) (Sweep.zrange 0 256) = true) by (vm_compute; reflexivity).
  rewrite forallb_forall in H. specialize (H r (Sweep.zrange_In 256 0 r ltac:(lia))). cbv beta in H. lia.
Qed.

Theorem mark_dirty_on_device s s' :
  dev_ok (s_dev s) -> hdr_wf (s_h s) -> 0 <= BS_Reserved1 (s_h s) < 256 -> 512 <= s_dsize s ->
  (ft s = Gen.FAT_TYPE_FAT32 -> 512 <= BPB_BkBootSec (s_h s) * bps s) ->
  0 <= fat_start s -> 0 <= BPB_NumFATs (s_h s) -> fat_start s + BPB_NumFATs (s_h s) * fat_bytes s <= s_dsize s ->
  (forall v, lenZ (pack_fat (ft s) (updZ (s_fat s) 1 v) (s_hi s)) <= fat_bytes s) ->
  mark_dirty s = Ok s' ->
  parse_hdr (rd s' 0 512) = s_h s' /\ flag_set (s_h s') = true /\ flag_set (parse_hdr (rd s' 0 512)) = true /\ dev_ok (s_dev s').
Proof.
  intros Hd Hwf Hr Hsz Hbk Hfs Hn Hfit Hpl H.
  destruct (mark_dirty_marks _ _ H ltac:(lia)) as [Hflag _].
  unfold mark_dirty in H.
  match type of H with bind ?X _ = _ => destruct X as [s1|] eqn:E1; [|discriminate] end. cbn [bind] in H.
  assert (H1 : dev_ok (s_dev s1) /\ s_h s1 = s_h s /\ s_p s1 = s_p s /\ s_dsize s1 = s_dsize s).
  { destruct (shutdown_mask (ft s)) as [m|]; [|inversion E1; subst; auto].
    unfold flush_fat in E1. cbn [s_ro upd_fat] in E1. destruct (s_ro s); [discriminate|].
    set (s0 := upd_fat s _ _) in E1.
    assert (G0 : fat_start s0 = fat_start s /\ fat_bytes s0 = fat_bytes s /\ s_dsize s0 = s_dsize s /\ s_dev s0 = s_dev s /\ ft s0 = ft s /\ s_hi s0 = s_hi s /\ s_h s0 = s_h s /\ s_p s0 = s_p s) by (unfold s0; repeat split).
    destruct G0 as (A1 & A2 & A3 & A4 & A5 & A6 & A7 & A8).
    assert (Q1 : dev_ok (s_dev s0)) by (rewrite A4; exact Hd).
    assert (Q2 : 0 <= fat_start s0) by (rewrite A1; exact Hfs).
    assert (Q3 : lenZ (pack_fat (ft s0) (s_fat s0) (s_hi s0)) <= fat_bytes s0) by (rewrite A5, A6, A2; unfold s0; cbn [s_fat upd_fat]; apply Hpl).
    assert (Q4 : fat_start s0 + (0 + Z.of_nat (Z.to_nat (BPB_NumFATs (s_h s0)))) * fat_bytes s0 <= s_dsize s0) by (rewrite A1, A2, A3, A7, Z2Nat.id by lia; lia).
    destruct (flush_copies_dev _ s0 _ 0 s1 Q1 Q2 ltac:(lia) Q3 Q4 E1) as (B1 & (C1 & C2 & C3 & C4) & _).
    split; [exact B1|]. rewrite C1, C2, C3, A7, A8, A3. auto. }
  destruct H1 as (Hd1 & Hh1 & Hp1 & Hs1).
  set (s2 := upd_hdr s1 _) in H.
  assert (Hwf2 : hdr_wf (s_h s2)) by (unfold s2; cbn [s_h upd_hdr]; rewrite Hh1; apply set_reserved1_wf; [exact Hwf|apply lor1_byte; exact Hr]).
  destruct (write_bpb_persists s2 s' ltac:(exact Hd1) Hwf2 ltac:(unfold s2; cbn [s_dsize upd_hdr]; lia)) as (P1 & P2 & _ & P4); [|exact H|].
  - unfold s2, ft, bps. cbn [s_p s_h upd_hdr BPB_BkBootSec BPB_BytsPerSec set_reserved1]. rewrite Hp1, Hh1. exact Hbk.
  - rewrite P2 in Hflag |- *. split; [rewrite P1; reflexivity|]. split; [exact Hflag|]. split; [rewrite P1; exact Hflag|exact P4].
Qed.
