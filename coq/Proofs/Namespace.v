(** Create, then find (C01 / C15), through the device: an entry with a long name appended to a directory is, after the
    directory has been rewritten and read back, found under that name and listed under exactly that name; the entries
    that were there are still there, in the form the reader returns them. *)
From Coq Require Import ZArith List Bool Lia.
From PyFatV Require Import Base.Bytes Base.PyEnv Gen.Pure Model.Codec Model.Dir Model.FS Proofs.FatTable Proofs.Names Proofs.Device Proofs.DirCodec Proofs.DirState Proofs.Chains.
Import ListNotations.
Open Scope Z_scope.

Lemma write_dir_ext s loc es1 es2 : ser_dir es1 = ser_dir es2 -> write_dir s loc es1 = write_dir s loc es2.
Proof. intros H. unfold write_dir. rewrite H. reflexivity. Qed.
Lemma ser_dir_app a b : ser_dir (a ++ b) = ser_dir a ++ ser_dir b.
Proof. unfold ser_dir. apply flat_map_app. Qed.
Lemma canon_name e : d_name (canon e) = d_name e /\ d_attr (canon e) = d_attr e.
Proof. unfold canon. destruct (d_lfn e); [destruct e; split; reflexivity|split; reflexivity]. Qed.
Lemma canon_flags e : is_special (canon e) = is_special e /\ is_volid (canon e) = is_volid e /\ is_dir (canon e) = is_dir e.
Proof. destruct (canon_name e) as [H1 H2]. unfold is_special, is_volid, is_dir. rewrite H1, H2. repeat split. Qed.

Theorem created_entry_is_found s c es0 e0 u sfn n s' ch :
  dev_ok (s_dev s) -> geom_ok s -> vt (ft s) -> 0 <= s_hint s -> c <> -1 ->
  chain s c = (ch, true) -> Forall (inside s) ch -> vol_ok s ->
  Forall entry_ok es0 -> Forall unit_ok u -> 1 <= lenZ u <= 255 -> n_u n = u ->
  let e := set_lfn e0 (Some (make_lfn u sfn)) in
  entry_ok e -> is_special e = false -> is_volid e = false ->
  search_entry (map canon es0) n = None ->
  write_dir s c (map canon es0 ++ [e]) = Ok s' ->
  read_dir s' c = Ok (map canon es0 ++ [canon e]) /\
  search_entry (map canon es0 ++ [canon e]) n = Some (canon e) /\
  shown_name (canon e) = NLong u.
Proof.
  intros Hd G Hv Hh Hc Hch Hin Hvol Hes Hu Hl Hn e He Hsp Hvi Hnone Hw.
  destruct (long_name_found u sfn n e0 Hu Hl Hn) as (_ & Hm & _ & Hshow). fold e in Hm, Hshow.
  assert (Hw' : write_dir s c (es0 ++ [e]) = Ok s').
  { rewrite <- Hw. apply write_dir_ext. rewrite !ser_dir_app, ser_dir_canon by exact Hes. reflexivity. }
  assert (Hall : Forall entry_ok (es0 ++ [e])) by (apply Forall_app; split; [exact Hes|constructor; [exact He|constructor]]).
  pose proof (write_dir_read_dir s c (es0 ++ [e]) s' ch Hd G Hv Hh Hall Hc Hch Hin Hvol Hw') as Hr.
  rewrite map_app in Hr. cbn [map] in Hr. split; [exact Hr|]. split; [|exact Hshow].
  destruct (canon_flags e) as (F1 & F2 & _).
  apply found_in_extended_dir; [exact Hnone|exact Hm|rewrite F1; exact Hsp|rewrite F2; exact Hvi].
Qed.

(** frame: an appended entry that does not match a name does not change what a lookup of that name finds *)
Lemma find_app_none {A} (p:A -> bool) a b : find p (a ++ b) = match find p a with Some x => Some x | None => find p b end.
Proof. induction a as [|x r IH]; [reflexivity|]. cbn [app find]. destruct (p x); [reflexivity|exact IH]. Qed.
Theorem lookup_of_other_names_unchanged es x m : name_matches m x = false -> name_matches_upper m x = false ->
  search_entry (es ++ [x]) m = search_entry es m.
Proof.
  intros H1 H2. unfold search_entry.
  assert (Hd : ge_dirs (es ++ [x]) = ge_dirs es ++ ge_dirs [x]) by (unfold ge_dirs; apply filter_app).
  assert (Hf : ge_files (es ++ [x]) = ge_files es ++ ge_files [x]) by (unfold ge_files; apply filter_app).
  rewrite Hd, Hf.
  assert (G : forall p, p x = false -> find p ((ge_dirs es ++ ge_dirs [x]) ++ ge_files es ++ ge_files [x]) = find p (ge_dirs es ++ ge_files es)).
  { intros p Hp. rewrite !find_app_none.
    assert (Hx1 : find p (ge_dirs [x]) = None) by (unfold ge_dirs; cbn [filter]; destruct (_ && _); cbn [find]; rewrite ?Hp; reflexivity).
    assert (Hx2 : find p (ge_files [x]) = None) by (unfold ge_files; cbn [filter]; destruct (_ && _); cbn [find]; rewrite ?Hp; reflexivity).
    rewrite Hx1, Hx2. destruct (find p (ge_dirs es)); [reflexivity|]. destruct (find p (ge_files es)); reflexivity. }
  rewrite (G _ H1), (G _ H2). reflexivity.
Qed.

(** * updating one entry of a directory (what [FatIO] does after a write or a truncate: new size, first cluster) *)
Definition commutes (f:dirent -> dirent) : Prop :=
  forall x, (entry_ok x -> entry_ok (f x)) /\ d_name (f x) = d_name x /\ canon (f x) = f (canon x).
Lemma find_map_upd (f:dirent -> dirent) nm : (forall x, d_name (f x) = d_name x) -> forall es,
  find (fun x => list_eqb (d_name x) nm) (map (fun x => if list_eqb (d_name x) nm then f x else x) es) =
  option_map f (find (fun x => list_eqb (d_name x) nm) es).
Proof.
  intros Hn. induction es as [|x r IH]; [reflexivity|]. cbn [map find]. destruct (list_eqb (d_name x) nm) eqn:E.
  - rewrite Hn, E. reflexivity.
  - rewrite E. exact IH.
Qed.
Theorem update_entry_then_find s h f s' es0 ch e :
  dev_ok (s_dev s) -> geom_ok s -> vt (ft s) -> 0 <= s_hint s -> h_parent h <> -1 ->
  chain s (h_parent h) = (ch, true) -> Forall (inside s) ch -> vol_ok s ->
  Forall entry_ok es0 -> read_dir s (h_parent h) = Ok (map canon es0) -> commutes f ->
  find_in_dir s h = Ok e ->
  update_entry s h f = Ok s' ->
  find_in_dir s' h = Ok (f e) /\
  read_dir s' (h_parent h) = Ok (map (fun x => if list_eqb (d_name x) (h_name h) then f x else x) (map canon es0)).
Proof.
  intros Hd G Hv Hh Hc Hch Hin Hvol Hes Hrd Hf Hfind Hu.
  unfold update_entry in Hu. rewrite Hrd in Hu. cbn [bind] in Hu.
  set (g := fun x => if list_eqb (d_name x) (h_name h) then f x else x) in *.
  assert (Hcomm : map g (map canon es0) = map canon (map g es0)).
  { rewrite !map_map. apply map_ext. intros x. unfold g. destruct (Hf x) as (_ & Hn & Hcx).
    destruct (canon_name x) as [Hcn _]. rewrite Hcn. destruct (list_eqb (d_name x) (h_name h)); [symmetry; exact Hcx|reflexivity]. }
  assert (Hok : Forall entry_ok (map g es0)).
  { apply Forall_forall. intros y Hy. apply in_map_iff in Hy. destruct Hy as (x & <- & Hx). rewrite Forall_forall in Hes. unfold g.
    destruct (list_eqb (d_name x) (h_name h)); [apply (Hf x); apply Hes; exact Hx|apply Hes; exact Hx]. }
  rewrite Hcomm in Hu. rewrite (write_dir_ext s (h_parent h) (map canon (map g es0)) (map g es0)) in Hu by (apply ser_dir_canon; exact Hok).
  pose proof (write_dir_read_dir s (h_parent h) (map g es0) s' ch Hd G Hv Hh Hok Hc Hch Hin Hvol Hu) as Hr.
  rewrite <- Hcomm in Hr. split; [|exact Hr].
  unfold find_in_dir in *. rewrite Hr. rewrite Hrd in Hfind. cbn [bind] in *.
  unfold g. rewrite find_map_upd by (intros x; apply (Hf x)).
  destruct (find _ (map canon es0)) as [e1|]; [|discriminate]. inversion Hfind; subst. reflexivity.
Qed.
(** the updates [FatIO] makes commute with the reader's normal form *)
Lemma set_size_commutes n : 0 <= n < 4294967296 -> commutes (fun x => set_size x n).
Proof.
  intros Hn x. split; [|split].
  - destruct x as [nm at_ nt te ct cd ad hi wt wd lo sz lfn]. unfold entry_ok, sentry_ok, short_ok, set_size.
    cbn [d_name d_attr d_ntres d_tenth d_crttime d_crtdate d_accdate d_clushi d_wrttime d_wrtdate d_cluslo d_size d_lfn].
    intros ((Hs & H1 & H2 & H3) & Hl). destruct Hs as (A & B & C & D & E & F & G0 & H0 & I). repeat split; try assumption; try lia.
  - destruct x; reflexivity.
  - unfold canon. destruct x as [nm at_ nt te ct cd ad hi wt wd lo sz lfn]. destruct lfn; reflexivity.
Qed.

(** * removing an entry ([remove_entry] rewrites the directory without the first entry shown under the name) *)
Lemma remove_first_spec (p:dirent -> bool) es :
  (remove_first p es = es /\ forall x, In x es -> p x = false) \/
  (exists a x b, es = a ++ x :: b /\ p x = true /\ (forall y, In y a -> p y = false) /\ remove_first p es = a ++ b).
Proof.
  induction es as [|y r IH]; [left; split; [reflexivity|intros x []]|]. change (remove_first p (y :: r)) with (if p y then r else y :: remove_first p r). destruct (p y) eqn:E.
  - right. exists [], y, r. repeat split; [exact E|intros z []].
  - destruct IH as [[I1 I2]|(a & x & b & I1 & I2 & I3 & I4)].
    + left. split; [rewrite I1; reflexivity|]. intros x [<-|Hx]; [exact E|apply I2; exact Hx].
    + right. exists (y :: a), x, b. rewrite I4, I1. repeat split; [exact I2|]. intros z [<-|Hz]; [exact E|apply I3; exact Hz].
Qed.

Lemma find_skip {A} (m:A -> bool) l1 x l2 : m x = false -> find m (l1 ++ x :: l2) = find m (l1 ++ l2).
Proof. intros H. induction l1 as [|y r IH]; cbn [app find]; [rewrite H; reflexivity|]. destruct (m y); [reflexivity|exact IH]. Qed.

(** frame: removing an entry does not change what the lookup of any name finds that the removed entry does not answer to *)
Theorem remove_keeps_other_lookups p es m :
  (forall x, In x es -> p x = true -> name_matches m x = false /\ name_matches_upper m x = false) ->
  search_entry (remove_first p es) m = search_entry es m.
Proof.
  intros H. destruct (remove_first_spec p es) as [[E _]|(a & x & b & E & Hp & _ & Er)]; [rewrite E; reflexivity|].
  rewrite Er. assert (Hin : In x es) by (rewrite E; apply in_or_app; right; left; reflexivity).
  destruct (H x Hin Hp) as [H1 H2]. subst es. unfold search_entry.
  assert (Hf : forall f l1 l2, filter f (l1 ++ x :: l2) = filter f l1 ++ (if f x then [x] else []) ++ filter f l2).
  { intros f l1 l2. rewrite filter_app. cbn [filter]. destruct (f x); reflexivity. }
  assert (G : forall q, q x = false -> find q (ge_dirs (a ++ b) ++ ge_files (a ++ b)) = find q (ge_dirs (a ++ x :: b) ++ ge_files (a ++ x :: b))).
  { intros q Hq. unfold ge_dirs, ge_files. rewrite !Hf, !filter_app, !find_app_none.
    assert (Hx : forall c : bool, find q (if c then [x] else []) = None) by (intros [|]; cbn [find]; rewrite ?Hq; reflexivity).
    rewrite !Hx. reflexivity. }
  rewrite (G _ H1), (G _ H2). reflexivity.
Qed.

Lemma remove_first_map (f:dirent -> dirent) p es : remove_first p (map f es) = map f (remove_first (fun x => p (f x)) es).
Proof. induction es as [|y r IH]; [reflexivity|]. cbn [map remove_first]. destruct (p (f y)); [reflexivity|]. cbn [map]. rewrite IH. reflexivity. Qed.
Lemma remove_first_forall (P:dirent -> Prop) p es : Forall P es -> Forall P (remove_first p es).
Proof. induction 1 as [|y r Hy Hr IH]; [constructor|]. cbn [remove_first]. destruct (p y); [exact Hr|constructor; assumption]. Qed.

(** through the device: the directory rewritten without the entry reads back as exactly that, and every lookup the removed
    entry did not answer to finds what it found before *)
Theorem removed_entry_through_device s c es0 p s' ch :
  dev_ok (s_dev s) -> geom_ok s -> vt (ft s) -> 0 <= s_hint s -> c <> -1 ->
  chain s c = (ch, true) -> Forall (inside s) ch -> vol_ok s ->
  Forall entry_ok es0 ->
  write_dir s c (remove_first p (map canon es0)) = Ok s' ->
  read_dir s' c = Ok (remove_first p (map canon es0)) /\
  forall m, (forall x, In x (map canon es0) -> p x = true -> name_matches m x = false /\ name_matches_upper m x = false) ->
    search_entry (remove_first p (map canon es0)) m = search_entry (map canon es0) m.
Proof.
  intros Hd G Hv Hh Hc Hch Hin Hvol Hes Hw. split; [|intros m Hm; apply remove_keeps_other_lookups; exact Hm].
  rewrite remove_first_map in *. set (es1 := remove_first (fun x => p (canon x)) es0) in *.
  assert (H1 : Forall entry_ok es1) by (apply remove_first_forall; exact Hes).
  assert (Hw' : write_dir s c es1 = Ok s') by (rewrite <- Hw; apply write_dir_ext; rewrite ser_dir_canon by exact H1; reflexivity).
  exact (write_dir_read_dir s c es1 s' ch Hd G Hv Hh H1 Hc Hch Hin Hvol Hw').
Qed.
