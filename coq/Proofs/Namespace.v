(** Create, then find (C01 / C15), through the device: an entry with a long name appended to a directory is, after the
    directory has been rewritten and read back, found under that name and listed under exactly that name; the entries
    that were there are still there, in the form the reader returns them. *)
From Coq Require Import ZArith List Bool Lia.
From PyFatV Require Import Base.Bytes Base.PyEnv Gen.Pure Model.Codec Model.Dir Model.FS Proofs.FatTable Proofs.Names Proofs.Device Proofs.DirCodec Proofs.DirState Proofs.Chains.
Import ListNotations.
Open Scope Z_scope.

Lemma write_dir_ext s loc es1 es2 : ser_dir es1 = ser_dir es2 -> write_dir s loc es1 = write_dir s loc es2.
Proof. intros H. unfold write_dir. rewrite H. reflexivity. Qed.
Lemma ser_dir_app a b : ser_dir (a ++ b) = ser_dir a ++ ser_dir b.
Proof. unfold ser_dir. apply flat_map_app. Qed.
Lemma canon_name e : d_name (canon e) = d_name e /\ d_attr (canon e) = d_attr e.
Proof. unfold canon. destruct (d_lfn e); [destruct e; split; reflexivity|split; reflexivity]. Qed.
Lemma canon_flags e : is_special (canon e) = is_special e /\ is_volid (canon e) = is_volid e /\ is_dir (canon e) = is_dir e.
Proof. destruct (canon_name e) as [H1 H2]. unfold is_special, is_volid, is_dir. rewrite H1, H2. repeat split. Qed.

Theorem created_entry_is_found s c es0 e0 u sfn n s' ch :
  dev_ok (s_dev s) -> geom_ok s -> vt (ft s) -> 0 <= s_hint s -> c <> -1 ->
  chain s c = (ch, true) -> Forall (inside s) ch -> vol_ok s ->
  Forall entry_ok es0 -> Forall unit_ok u -> 1 <= lenZ u <= 255 -> n_u n = u ->
  let e := set_lfn e0 (Some (make_lfn u sfn)) in
  entry_ok e -> is_special e = false -> is_volid e = false ->
  search_entry (map canon es0) n = None ->
  write_dir s c (map canon es0 ++ [e]) = Ok s' ->
  read_dir s' c = Ok (map canon es0 ++ [canon e]) /\
  search_entry (map canon es0 ++ [canon e]) n = Some (canon e) /\
  shown_name (canon e) = NLong u.
Proof.
  intros Hd G Hv Hh Hc Hch Hin Hvol Hes Hu Hl Hn e He Hsp Hvi Hnone Hw.
  destruct (long_name_found u sfn n e0 Hu Hl Hn) as (_ & Hm & _ & Hshow). fold e in Hm, Hshow.
  assert (Hw' : write_dir s c (es0 ++ [e]) = Ok s').
  { rewrite <- Hw. apply write_dir_ext. rewrite !ser_dir_app, ser_dir_canon by exact Hes. reflexivity. }
  assert (Hall : Forall entry_ok (es0 ++ [e])) by (apply Forall_app; split; [exact Hes|constructor; [exact He|constructor]]).
  pose proof (write_dir_read_dir s c (es0 ++ [e]) s' ch Hd G Hv Hh Hall Hc Hch Hin Hvol Hw') as Hr.
  rewrite map_app in Hr. cbn [map] in Hr. split; [exact Hr|]. split; [|exact Hshow].
  destruct (canon_flags e) as (F1 & F2 & _).
  apply found_in_extended_dir; [exact Hnone|exact Hm|rewrite F1; exact Hsp|rewrite F2; exact Hvi].
Qed.

(** frame: an appended entry that does not match a name does not change what a lookup of that name finds *)
Lemma find_app_none {A} (p:A -> bool) a b : find p (a ++ b) = match find p a with Some x => Some x | None => find p b end.
Proof. induction a as [|x r IH]; [reflexivity|]. cbn [app find]. destruct (p x); [reflexivity|exact IH]. Qed.
Theorem lookup_of_other_names_unchanged es x m : name_matches m x = false -> name_matches_upper m x = false ->
  search_entry (es ++ [x]) m = search_entry es m.
Proof.
  intros H1 H2. unfold search_entry.
  assert (Hd : ge_dirs (es ++ [x]) = ge_dirs es ++ ge_dirs [x]) by (unfold ge_dirs; apply filter_app).
  assert (Hf : ge_files (es ++ [x]) = ge_files es ++ ge_files [x]) by (unfold ge_files; apply filter_app).
  rewrite Hd, Hf.
  assert (G : forall p, p x = false -> find p ((ge_dirs es ++ ge_dirs [x]) ++ ge_files es ++ ge_files [x]) = find p (ge_dirs es ++ ge_files es)).
  { intros p Hp. rewrite !find_app_none.
    assert (Hx1 : find p (ge_dirs [x]) = None) by (unfold ge_dirs; cbn [filter]; destruct (_ && _); cbn [find]; rewrite ?Hp; reflexivity).
    assert (Hx2 : find p (ge_files [x]) = None) by (unfold ge_files; cbn [filter]; destruct (_ && _); cbn [find]; rewrite ?Hp; reflexivity).
    rewrite Hx1, Hx2. destruct (find p (ge_dirs es)); [reflexivity|]. destruct (find p (ge_files es)); reflexivity. }
  rewrite (G _ H1), (G _ H2). reflexivity.
Qed.
