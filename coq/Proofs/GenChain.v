(** The chain follower of the model against the follower REGENERATED from the source (Gen.chain_*: the prelude and the loop body of
    [PyFat.get_cluster_chain], translated statement by statement): which cluster numbers are refused, which link values are followed,
    which end the chain, which raise.  A change of a bound or of a comparison in the source changes the generated definitions and breaks
    these lemmas.  (The loop limit [visited > len(self.fat)] is the fuel [length (s_fat s)] of [chain]: one unit per visited cluster.) *)
From Coq Require Import ZArith List Bool Lia ZifyBool.
From PyFatV Require Import Base.Bytes Base.PyEnv Gen.Pure Model.Codec Model.Dir Model.FS Proofs.FatTable Proofs.Chains.
Import ListNotations.
Open Scope Z_scope.

Lemma gen_last_cluster s : Gen.chain_last_cluster (s_p s) (s_h s) = max_cluster s.
Proof. reflexivity. Qed.
Lemma gen_max_data s : Gen.chain_max_data (s_p s) (s_h s) (ft s) = dmax s.
Proof. reflexivity. Qed.
Lemma gen_loop_limit len visited : Gen.chain_loop_limit len visited = (len <? visited).
Proof. unfold Gen.chain_loop_limit. lia. Qed.
(** the classification of an entry *)
Lemma gen_class s v : Gen.chain_class (s_p s) (s_h s) (ft s) v = if is_data (ft s) (dmax s) v then 0 else if is_eoc (ft s) v then 1 else 2.
Proof.
  unfold Gen.chain_class. fold (Gen.chain_max_data (s_p s) (s_h s) (ft s)). rewrite gen_max_data. unfold is_data, is_eoc.
  destruct ((Gen.MIN_DATA_CLUSTER (ft s) <=? v) && (v <=? dmax s)); [reflexivity|].
  destruct ((ft s =? Gen.FAT_TYPE_FAT12) && (v =? Gen.FAT12_SPECIAL_EOC)); [reflexivity|]. cbn [orb].
  destruct ((Gen.END_OF_CLUSTER_MIN (ft s) <=? v) && (v <=? Gen.END_OF_CLUSTER_MAX (ft s))); [reflexivity|].
  destruct (v =? Gen.BAD_CLUSTER (ft s)); [reflexivity|]. destruct (v =? Gen.FREE_CLUSTER (ft s)); reflexivity.
Qed.
(** the cluster numbers refused before their entry is looked at: below the first data cluster, outside the table, behind the last cluster *)
Lemma gen_refuse s i : Gen.chain_refuse (s_p s) (s_h s) (ft s) (lenZ (s_fat s)) i = (i <? Gen.MIN_DATA_CLUSTER (ft s)) || (lenZ (vfat s) <=? i).
Proof.
  unfold Gen.chain_refuse. fold (Gen.chain_last_cluster (s_p s) (s_h s)). rewrite gen_last_cluster. unfold vfat. rewrite lenZ_firstn.
  pose proof (min_data_nonneg (ft s)). lia.
Qed.
(** one turn of the loop *)
Theorem chain_step_gen s f i :
  chain_go (S f) (ft s) (dmax s) (vfat s) i =
  if Gen.chain_refuse (s_p s) (s_h s) (ft s) (lenZ (s_fat s)) i then ([], false) else
  let v := nthZ (s_fat s) i in
  let c := Gen.chain_class (s_p s) (s_h s) (ft s) v in
  if c =? 0 then (let '(r, ok) := chain_go f (ft s) (dmax s) (vfat s) v in (i :: r, ok))
  else if c =? 1 then ([i], true) else ([], false).
Proof.
  cbn [chain_go]. rewrite gen_refuse. destruct ((i <? Gen.MIN_DATA_CLUSTER (ft s)) || (lenZ (vfat s) <=? i)) eqn:E; [reflexivity|]. cbv zeta.
  assert (Hn : nthZ (vfat s) i = nthZ (s_fat s) i).
  { unfold vfat in *. rewrite lenZ_firstn in E. pose proof (min_data_nonneg (ft s)). apply nthZ_firstn. lia. }
  rewrite Hn, gen_class. destruct (is_data (ft s) (dmax s) (nthZ (s_fat s) i)); [reflexivity|].
  destruct (is_eoc (ft s) (nthZ (s_fat s) i)); reflexivity.
Qed.
