(** The chain follower of the model against the follower REGENERATED from the source (Gen.chain_*: the prelude and the loop body of
    [PyFat.get_cluster_chain], translated statement by statement): which cluster numbers are refused, which link values are followed,
    which end the chain, which raise.  A change of a bound or of a comparison in the source changes the generated definitions and breaks
    these lemmas.  (The loop limit [visited > len(self.fat)] is the fuel [length (s_fat s)] of [chain]: one unit per visited cluster.) *)
From Coq Require Import ZArith List Bool Lia ZifyBool.
From PyFatV Require Import Base.Bytes Base.PyEnv Gen.Pure Model.Codec Model.Dir Model.FS Proofs.FatTable Proofs.Chains.
Import ListNotations.
Open Scope Z_scope.

Lemma gen_last_cluster s : Gen.chain_last_cluster (s_p s) (s_h s) = max_cluster s.
Proof. reflexivity. Qed.
Lemma gen_max_data s : Gen.chain_max_data (s_p s) (s_h s) (ft s) = dmax s.
Proof. reflexivity. Qed.
Lemma gen_loop_limit len visited : Gen.chain_loop_limit len visited = (len <? visited).
Proof. unfold Gen.chain_loop_limit. lia. Qed.
(** the classification of an entry *)
Lemma gen_class s v : Gen.chain_class (s_p s) (s_h s) (ft s) v = if is_data (ft s) (dmax s) v then 0 else if is_eoc (ft s) v then 1 else 2.
Proof.
  unfold Gen.chain_class. fold (Gen.chain_max_data (s_p s) (s_h s) (ft s)). rewrite gen_max_data. unfold is_data, is_eoc.
  destruct ((Gen.MIN_DATA_CLUSTER (ft s) <=? v) && (v <=? dmax s)); [reflexivity|].
  destruct ((ft s =? Gen.FAT_TYPE_FAT12) && (v =? Gen.FAT12_SPECIAL_EOC)); [reflexivity|]. cbn [orb].
  destruct ((Gen.END_OF_CLUSTER_MIN (ft s) <=? v) && (v <=? Gen.END_OF_CLUSTER_MAX (ft s))); [reflexivity|].
  destruct (v =? Gen.BAD_CLUSTER (ft s)); [reflexivity|]. destruct (v =? Gen.FREE_CLUSTER (ft s)); reflexivity.
Qed.
(** the cluster numbers refused before their entry is looked at: below the first data cluster, outside the table, behind the last cluster *)
Lemma gen_refuse s i : Gen.chain_refuse (s_p s) (s_h s) (ft s) (lenZ (s_fat s)) i = (i <? Gen.MIN_DATA_CLUSTER (ft s)) || (lenZ (vfat s) <=? i).
Proof.
  unfold Gen.chain_refuse. fold (Gen.chain_last_cluster (s_p s) (s_h s)). rewrite gen_last_cluster. unfold vfat. rewrite lenZ_firstn.
  pose proof (min_data_nonneg (ft s)). lia.
Qed.
(** one turn of the loop *)
Theorem chain_step_gen s f i :
  chain_go (S f) (ft s) (dmax s) (vfat s) i =
  if Gen.chain_refuse (s_p s) (s_h s) (ft s) (lenZ (s_fat s)) i then ([], false) else
  let v := nthZ (s_fat s) i in
  let c := Gen.chain_class (s_p s) (s_h s) (ft s) v in
  if c =? 0 then (let '(r, ok) := chain_go f (ft s) (dmax s) (vfat s) v in (i :: r, ok))
  else if c =? 1 then ([i], true) else ([], false).
Proof.
  cbn [chain_go]. rewrite gen_refuse. destruct ((i <? Gen.MIN_DATA_CLUSTER (ft s)) || (lenZ (vfat s) <=? i)) eqn:E; [reflexivity|]. cbv zeta.
  assert (Hn : nthZ (vfat s) i = nthZ (s_fat s) i).
  { unfold vfat in *. rewrite lenZ_firstn in E. pose proof (min_data_nonneg (ft s)). apply nthZ_firstn. lia. }
  rewrite Hn, gen_class. destruct (is_data (ft s) (dmax s) (nthZ (s_fat s) i)); [reflexivity|].
  destruct (is_eoc (ft s) (nthZ (s_fat s) i)); reflexivity.
Qed.

(** * the allocator's scan against the decisions REGENERATED from [PyFat.allocate_bytes]: which cluster numbers are skipped (below the first
    data cluster, above the last cluster of the volume or MAX_DATA_CLUSTER) and which entries are taken (free ones; the bad-cluster value and the
    FAT12 special end mark as cluster NUMBERS are excluded by the source — they lie above MAX_DATA_CLUSTER, so the scan never gets there) *)
Lemma gen_alloc_max s : Gen.alloc_max_clus (s_p s) (s_h s) (ft s) = Z.min (max_cluster s) (Gen.MAX_DATA_CLUSTER (ft s)).
Proof. unfold Gen.alloc_max_clus. fold (Gen.chain_last_cluster (s_p s) (s_h s)). rewrite gen_last_cluster. apply Z.min_comm. Qed.
Lemma gen_alloc_skip s i : Gen.alloc_skip (s_p s) (s_h s) (ft s) i = (i <? Gen.MIN_DATA_CLUSTER (ft s)) || (Z.min (max_cluster s) (Gen.MAX_DATA_CLUSTER (ft s)) <? i).
Proof. unfold Gen.alloc_skip. fold (Gen.alloc_max_clus (s_p s) (s_h s) (ft s)). rewrite gen_alloc_max. lia. Qed.
Lemma gen_alloc_take s v i : vt (ft s) -> Gen.alloc_skip (s_p s) (s_h s) (ft s) i = false ->
  Gen.alloc_take (s_p s) (s_h s) (ft s) v i = (v =? Gen.FREE_CLUSTER (ft s)).
Proof.
  intros Hv Hs. rewrite gen_alloc_skip in Hs. unfold Gen.alloc_take. destruct (vt_bad _ Hv) as [_ Hb]. destruct (vt_consts _ Hv) as (_ & _ & _ & _ & H12).
  assert (Hi : i <= Gen.MAX_DATA_CLUSTER (ft s)) by lia.
  replace (i =? Gen.BAD_CLUSTER (ft s)) with false by lia.
  destruct ((ft s =? Gen.FAT_TYPE_FAT12) && (i =? Gen.FAT12_SPECIAL_EOC)) eqn:E; [|destruct (v =? Gen.FREE_CLUSTER (ft s)); reflexivity].
  exfalso. assert (ft s = 12) by (unfold Gen.FAT_TYPE_FAT12 in E; lia). specialize (H12 H). lia.
Qed.
(** one turn of the scan *)
Theorem alloc_step_gen s f i need : vt (ft s) ->
  alloc_scan (S f) (s_fat s) (ft s) (max_cluster s) i need =
  if Gen.alloc_skip (s_p s) (s_h s) (ft s) i then alloc_scan f (s_fat s) (ft s) (max_cluster s) (i + 1) need else
  match need with
  | O => ([], i)
  | S nd => if Gen.alloc_take (s_p s) (s_h s) (ft s) (nthZ (s_fat s) i) i
            then (let '(l, j) := alloc_scan f (s_fat s) (ft s) (max_cluster s) (i + 1) nd in (i :: l, j))
            else alloc_scan f (s_fat s) (ft s) (max_cluster s) (i + 1) need
  end.
Proof.
  intros Hv. cbn [alloc_scan]. rewrite <- gen_alloc_skip. destruct (Gen.alloc_skip (s_p s) (s_h s) (ft s) i) eqn:E; [reflexivity|].
  destruct need as [|nd]; [reflexivity|]. rewrite (gen_alloc_take s _ i Hv E). reflexivity.
Qed.

(** * the release of a chain: the model's [free_chain] marks every cluster of the chain with the regenerated free mark and moves the hint by the
    regenerated step of [free_cluster_chain], cluster by cluster in the order of the chain *)
Lemma fold_min_gen cs : forall h, fold_left Z.min cs h = fold_left (fun a cl => Gen.free_hint_step cl a) cs h.
Proof. induction cs as [|c r IH]; intros h; cbn [fold_left]; [reflexivity|]. unfold Gen.free_hint_step at 2. rewrite (Z.min_comm c h). apply IH. Qed.
Theorem free_chain_gen s c s' cs : free_chain s c = Ok s' -> chain_all s c = Ok cs ->
  s_fat s' = fold_left (fun f cl => updZ f cl (Gen.free_mark (ft s))) cs (s_fat s) /\
  s_hint s' = fold_left (fun a cl => Gen.free_hint_step cl a) cs (s_hint s).
Proof.
  intros Hf Hc. unfold free_chain in Hf. destruct (s_ro s); [discriminate|]. rewrite Hc in Hf. cbn [bind] in Hf. inversion Hf; subst.
  cbn [s_fat s_hint upd_fat]. split; [reflexivity | apply fold_min_gen].
Qed.
