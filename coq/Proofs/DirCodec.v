(** C03 / C05 / C06: the directory reader inverts the directory writer.
    For every list of well-formed entries (any number, with or without long names of 1..255 units) the slot
    scanner applied to the serialised directory — followed by an end mark or by nothing — returns exactly those
    entries, in order, each with its long-name set (in disk order) when it has one.  This is the statement
    "what the model writes is what the model (and hence a remount) reads" at the directory layer. *)
From Coq Require Import ZArith List Bool Lia Sorted.
From PyFatV Require Import Base.Bytes Base.PyEnv Gen.Pure Model.Codec Model.Dir Proofs.Names Proofs.FatCodec.
Import ListNotations.
Open Scope Z_scope.
Ltac Zify.zify_post_hook ::= Z.to_euclidean_division_equations.

(** * list surgery *)
Lemma firstn_app_exact {A} (a b:list A) n : length a = n -> firstn n (a ++ b) = a.
Proof. intros <-. rewrite firstn_app, Nat.sub_diag, firstn_all. simpl. apply app_nil_r. Qed.
Lemma skipn_app_exact {A} (a b:list A) n : length a = n -> skipn n (a ++ b) = b.
Proof. intros <-. rewrite skipn_app, Nat.sub_diag, skipn_all. reflexivity. Qed.
Lemma slice_mid (a b c:list Z) : slice (a ++ b ++ c) (lenZ a) (lenZ a + lenZ b) = b.
Proof.
  unfold slice, lenZ. rewrite Nat2Z.id. replace (Z.to_nat (Z.of_nat (length a) + Z.of_nat (length b) - Z.of_nat (length a))) with (length b) by lia.
  rewrite skipn_app_exact by reflexivity. apply firstn_app_exact. reflexivity.
Qed.
Lemma nthZ_mid (a:list Z) x c : nthZ (a ++ x :: c) (lenZ a) = x.
Proof. unfold nthZ, lenZ. rewrite Nat2Z.id. rewrite app_nth2 by lia. rewrite Nat.sub_diag. reflexivity. Qed.

(** * one long-name slot *)
Definition slot_ok (s:lfnslot) : Prop :=
  length (l_name1 s) = 10%nat /\ length (l_name2 s) = 12%nat /\ length (l_name3 s) = 4%nat /\
  0 <= l_clus s < 65536.
Lemma ser_lfnslot_length s : slot_ok s -> length (ser_lfnslot s) = 32%nat.
Proof. intros (H1 & H2 & H3 & _). unfold ser_lfnslot. rewrite !app_length, H1, H2, H3, le_length. reflexivity. Qed.
Lemma parse_ser_lfnslot s : slot_ok s -> parse_lfnslot (ser_lfnslot s) = s.
Proof.
  intros (H1 & H2 & H3 & Hc). destruct s as [o n1 a t c n2 cl n3]. cbn [l_name1 l_name2 l_name3 l_clus] in *.
  unfold parse_lfnslot, ser_lfnslot. cbn [l_ord l_name1 l_attr l_type l_chk l_name2 l_clus l_name3].
  assert (E1 : slice ([o] ++ n1 ++ [a; t; c] ++ n2 ++ le 2 cl ++ n3) 1 11 = n1).
  { pose proof (slice_mid [o] n1 ([a; t; c] ++ n2 ++ le 2 cl ++ n3)) as H. unfold lenZ in H. rewrite H1 in H. exact H. }
  assert (E2 : slice ([o] ++ n1 ++ [a; t; c] ++ n2 ++ le 2 cl ++ n3) 14 26 = n2).
  { pose proof (slice_mid ([o] ++ n1 ++ [a; t; c]) n2 (le 2 cl ++ n3)) as H. unfold lenZ in H. rewrite !app_length, H1, H2 in H.
    rewrite <- !app_assoc in H. exact H. }
  assert (E3 : slice ([o] ++ n1 ++ [a; t; c] ++ n2 ++ le 2 cl ++ n3) 26 28 = le 2 cl).
  { pose proof (slice_mid ([o] ++ n1 ++ [a; t; c] ++ n2) (le 2 cl) n3) as H. unfold lenZ in H. rewrite !app_length, H1, H2, le_length in H.
    rewrite <- !app_assoc in H. exact H. }
  assert (E4 : slice ([o] ++ n1 ++ [a; t; c] ++ n2 ++ le 2 cl ++ n3) 28 32 = n3).
  { pose proof (slice_mid ([o] ++ n1 ++ [a; t; c] ++ n2 ++ le 2 cl) n3 []) as H. unfold lenZ in H. rewrite !app_length, H1, H2, H3, le_length in H.
    rewrite <- !app_assoc, app_nil_r in H. exact H. }
  rewrite E1, E2, E3, E4.
  assert (N11 : nthZ ([o] ++ n1 ++ [a; t; c] ++ n2 ++ le 2 cl ++ n3) 11 = a).
  { pose proof (nthZ_mid ([o] ++ n1) a ([t; c] ++ n2 ++ le 2 cl ++ n3)) as H. unfold lenZ in H. rewrite app_length, H1 in H. rewrite <- app_assoc in H. exact H. }
  assert (N12 : nthZ ([o] ++ n1 ++ [a; t; c] ++ n2 ++ le 2 cl ++ n3) 12 = t).
  { pose proof (nthZ_mid ([o] ++ n1 ++ [a]) t ([c] ++ n2 ++ le 2 cl ++ n3)) as H. unfold lenZ in H. rewrite !app_length, H1 in H. rewrite <- !app_assoc in H. exact H. }
  assert (N13 : nthZ ([o] ++ n1 ++ [a; t; c] ++ n2 ++ le 2 cl ++ n3) 13 = c).
  { pose proof (nthZ_mid ([o] ++ n1 ++ [a; t]) c (n2 ++ le 2 cl ++ n3)) as H. unfold lenZ in H. rewrite !app_length, H1 in H. rewrite <- !app_assoc in H. exact H. }
  rewrite N11, N12, N13. rewrite (un_le_le 2 cl) by (simpl; lia). reflexivity.
Qed.

(** * one short entry *)
Definition short_ok (e:dirent) : Prop :=
  length (d_name e) = 11%nat /\
  0 <= d_crttime e < 65536 /\ 0 <= d_crtdate e < 65536 /\ 0 <= d_accdate e < 65536 /\ 0 <= d_clushi e < 65536 /\
  0 <= d_wrttime e < 65536 /\ 0 <= d_wrtdate e < 65536 /\ 0 <= d_cluslo e < 65536 /\ 0 <= d_size e < 4294967296.
Lemma ser_short_length e : short_ok e -> length (ser_short e) = 32%nat.
Proof. intros (H1 & _). unfold ser_short. rewrite !app_length, H1, !le_length. reflexivity. Qed.
Lemma parse_ser_short e : short_ok e -> parse_short (ser_short e) = set_lfn e None.
Proof.
  intros (H1 & Hct & Hcd & Had & Hhi & Hwt & Hwd & Hlo & Hsz).
  destruct e as [nm at_ nt tn ct cd ad hi wt wd lo sz lf]. cbn [d_name d_crttime d_crtdate d_accdate d_clushi d_wrttime d_wrtdate d_cluslo d_size] in *.
  do 11 (destruct nm as [|? nm]; [discriminate|]). destruct nm; [|discriminate].
  unfold parse_short, ser_short, set_lfn.
  cbn [d_name d_attr d_ntres d_tenth d_crttime d_crtdate d_accdate d_clushi d_wrttime d_wrtdate d_cluslo d_size d_lfn].
  cbn [le app]. unfold slice, nthZ.
  repeat match goal with |- context [Z.to_nat ?x] => let v := eval vm_compute in (Z.to_nat x) in change (Z.to_nat x) with v end.
  cbn [skipn firstn nth un_le].
  f_equal; lia.
Qed.

(** * sorting facts for ordinals *)
Definition asc (l:list lfnslot) : Prop := StronglySorted (fun x y => l_ord x < l_ord y) l.
Lemma ins_desc_last s l : Forall (fun y => l_ord s < l_ord y) l -> ins_desc s l = l ++ [s].
Proof. induction 1 as [|y r Hy Hr IH]; [reflexivity|]. cbn [ins_desc app]. destruct (l_ord y <? l_ord s) eqn:E; [apply Z.ltb_lt in E; lia|]. rewrite IH. reflexivity. Qed.
Lemma sort_desc_asc l : asc l -> sort_desc l = rev l.
Proof.
  induction 1 as [|x r Hs IH Hf]; [reflexivity|]. unfold sort_desc in *. cbn [fold_right rev]. rewrite IH. apply ins_desc_last.
  apply Forall_forall. intros y Hy. apply in_rev in Hy. rewrite Forall_forall in Hf. apply Hf. exact Hy.
Qed.
Lemma ins_asc_last s l : Forall (fun y => l_ord y < l_ord s) l -> ins_asc s l = l ++ [s].
Proof. induction 1 as [|y r Hy Hr IH]; [reflexivity|]. cbn [ins_asc app]. destruct (l_ord s <? l_ord y) eqn:E; [apply Z.ltb_lt in E; lia|]. rewrite IH. reflexivity. Qed.
Lemma fold_ins_asc_rev r : forall acc, asc (acc ++ r) -> fold_right ins_asc acc (rev r) = acc ++ r.
Proof.
  induction r as [|y r' IH]; intros acc H; [cbn; rewrite app_nil_r; reflexivity|].
  cbn [rev]. rewrite fold_right_app. cbn [fold_right].
  assert (Hlt : Forall (fun z => l_ord z < l_ord y) acc).
  { clear IH. induction acc as [|a acc' IHa]; [constructor|]. cbn [app] in H. inversion H as [|? ? Hs Hf]; subst. constructor.
    - rewrite Forall_forall in Hf. apply Hf. apply in_or_app. right. left. reflexivity.
    - apply IHa. exact Hs. }
  rewrite (ins_asc_last y acc Hlt). rewrite IH; [rewrite <- app_assoc; reflexivity|]. rewrite <- app_assoc. exact H.
Qed.
Lemma sort_asc_rev l : asc l -> sort_asc (rev l) = l.
Proof. intros H. unfold sort_asc. apply (fold_ins_asc_rev l []). exact H. Qed.
Lemma asc_nodup_ords l : asc l -> NoDup (map l_ord l).
Proof.
  induction 1 as [|x r Hs IH Hf]; [constructor|]. cbn [map]. constructor; [|exact IH].
  intro Hin. apply in_map_iff in Hin. destruct Hin as (y & Hy & Hin). rewrite Forall_forall in Hf. apply Hf in Hin. lia.
Qed.

(** * scanning *)
Lemma scan_nonempty_unfold f b pend acc : b <> [] ->
  scan_slots (S f) b pend acc =
    (let slot := firstn 32 b in let rest := skipn 32 b in
     if (length slot <? 32)%nat then Err EIO else
     let first := nthZ slot 0 in
     if first =? Gen.LAST_DIR_ENTRY_MARK then Ok (acc, [], true)
     else if first =? Gen.FREE_DIR_ENTRY_MARK then scan_slots f rest [] acc
     else if Gen.is_lfn_entry first (nthZ slot 11) then
       let s := parse_lfnslot slot in
       if negb (l_clus s =? 0) then Err EPYFAT
       else if existsb (lfnslot_eqb s) pend then scan_slots f rest pend acc
       else if existsb (fun x => l_ord x =? l_ord s) pend then Err EPYFAT
       else scan_slots f rest (pend ++ [s]) acc
     else
       let e := parse_short slot in
       let lfn := if lfn_complete pend then (if lfn_chk_ok pend (d_name e) then Some pend else None) else None in
       scan_slots f rest [] (acc ++ [set_lfn e lfn])).
Proof. intros H. destruct b; [congruence|reflexivity]. Qed.

Definition lslot_ok (s:lfnslot) : Prop :=
  slot_ok s /\ l_ord s <> 0 /\ l_ord s <> 229 /\ l_attr s = 15 /\ l_clus s = 0.

Lemma lfnslot_eqb_ord a b : lfnslot_eqb a b = true -> l_ord b = l_ord a.
Proof. unfold lfnslot_eqb. intros H. repeat (apply andb_true_iff in H; destruct H as [H ?]). apply Z.eqb_eq in H. symmetry. exact H. Qed.
Lemma no_ord_no_copy s pend : existsb (fun x => l_ord x =? l_ord s) pend = false -> existsb (lfnslot_eqb s) pend = false.
Proof.
  intros H. destruct (existsb (lfnslot_eqb s) pend) eqn:E; [|reflexivity]. apply existsb_exists in E. destruct E as (x & Hx & He).
  apply lfnslot_eqb_ord in He. assert (existsb (fun x => l_ord x =? l_ord s) pend = true); [|congruence].
  apply existsb_exists. exists x. split; [exact Hx|]. apply Z.eqb_eq. exact He.
Qed.
Lemma scan_lfn_step f s rest pend acc :
  lslot_ok s -> existsb (fun x => l_ord x =? l_ord s) pend = false ->
  scan_slots (S f) (ser_lfnslot s ++ rest) pend acc = scan_slots f rest (pend ++ [s]) acc.
Proof.
  intros (Hok & H0 & H229 & Ha & Hc) Hd.
  pose proof (ser_lfnslot_length s Hok) as Hl. pose proof (parse_ser_lfnslot s Hok) as Hp.
  rewrite scan_nonempty_unfold by (destruct (ser_lfnslot s) eqn:E; [simpl in Hl; discriminate|discriminate]).
  cbv zeta. rewrite (firstn_app_exact _ _ 32 Hl), (skipn_app_exact _ _ 32 Hl), Hl. change (32 <? 32)%nat with false. cbv iota.
  assert (E0 : nthZ (ser_lfnslot s) 0 = l_ord s) by (rewrite <- Hp at 2; reflexivity).
  assert (E11 : nthZ (ser_lfnslot s) 11 = l_attr s) by (rewrite <- Hp at 2; reflexivity).
  rewrite E0, E11, Hp.
  change Gen.LAST_DIR_ENTRY_MARK with 0. change Gen.FREE_DIR_ENTRY_MARK with 229.
  destruct (l_ord s =? 0) eqn:A; [apply Z.eqb_eq in A; contradiction|].
  destruct (l_ord s =? 229) eqn:B; [apply Z.eqb_eq in B; contradiction|].
  unfold Gen.is_lfn_entry. rewrite Ha. change Gen.ATTR_LONG_NAME_MASK with 63. change Gen.ATTR_LONG_NAME with 15. change Gen.FREE_DIR_ENTRY_MARK with 229.
  change (Z.land 15 63 =? 15) with true. rewrite B. cbn [andb negb].
  rewrite Hc. change (0 =? 0) with true. cbn [negb]. rewrite (no_ord_no_copy _ _ Hd), Hd. reflexivity.
Qed.

Lemma scan_lfn_run ls : forall f rest pend acc,
  Forall lslot_ok ls -> NoDup (map l_ord (pend ++ ls)) ->
  scan_slots (length ls + f) (flat_map ser_lfnslot ls ++ rest) pend acc = scan_slots f rest (pend ++ ls) acc.
Proof.
  induction ls as [|s r IH]; intros f rest pend acc Hf Hn; [cbn; rewrite app_nil_r; reflexivity|].
  inversion Hf as [|? ? Hs Hr]; subst. cbn [flat_map length Nat.add]. rewrite <- app_assoc.
  rewrite scan_lfn_step; [| exact Hs |].
  - rewrite IH; [rewrite <- app_assoc; reflexivity | exact Hr | rewrite <- app_assoc; exact Hn].
  - rewrite map_app in Hn. cbn [map] in Hn. apply NoDup_remove_2 in Hn.
    destruct (existsb (fun x => l_ord x =? l_ord s) pend) eqn:E; [|reflexivity]. exfalso. apply Hn.
    apply existsb_exists in E. destruct E as (x & Hx & Hxe). apply Z.eqb_eq in Hxe. apply in_or_app. left. rewrite <- Hxe. apply in_map. exact Hx.
Qed.

Definition sentry_ok (e:dirent) : Prop :=
  short_ok e /\ nthZ (d_name e) 0 <> 0 /\ nthZ (d_name e) 0 <> 229 /\ Z.land (d_attr e) 63 <> 15.

Lemma scan_short_step f e rest pend acc :
  sentry_ok e ->
  scan_slots (S f) (ser_short e ++ rest) pend acc =
  scan_slots f rest [] (acc ++ [set_lfn e (if lfn_complete pend then (if lfn_chk_ok pend (d_name e) then Some pend else None) else None)]).
Proof.
  intros (Hok & H0 & H229 & Ha).
  pose proof (ser_short_length e Hok) as Hl. pose proof (parse_ser_short e Hok) as Hp.
  rewrite scan_nonempty_unfold by (destruct (ser_short e) eqn:E; [simpl in Hl; discriminate|discriminate]).
  cbv zeta. rewrite (firstn_app_exact _ _ 32 Hl), (skipn_app_exact _ _ 32 Hl), Hl. change (32 <? 32)%nat with false. cbv iota.
  assert (Hname : length (d_name e) = 11%nat) by (destruct Hok; assumption).
  assert (E0 : nthZ (ser_short e) 0 = nthZ (d_name e) 0).
  { unfold ser_short, nthZ. change (Z.to_nat 0) with 0%nat. destruct (d_name e); [discriminate|reflexivity]. }
  assert (E11 : nthZ (ser_short e) 11 = d_attr e).
  { assert (d_attr (parse_short (ser_short e)) = d_attr e) by (rewrite Hp; destruct e; reflexivity). exact H. }
  rewrite E0, E11, Hp.
  change Gen.LAST_DIR_ENTRY_MARK with 0. change Gen.FREE_DIR_ENTRY_MARK with 229.
  destruct (nthZ (d_name e) 0 =? 0) eqn:A; [apply Z.eqb_eq in A; contradiction|].
  destruct (nthZ (d_name e) 0 =? 229) eqn:B; [apply Z.eqb_eq in B; contradiction|].
  unfold Gen.is_lfn_entry. change Gen.ATTR_LONG_NAME_MASK with 63. change Gen.ATTR_LONG_NAME with 15.
  destruct (Z.land (d_attr e) 63 =? 15) eqn:C; [apply Z.eqb_eq in C; contradiction|]. cbn [andb].
  destruct e; reflexivity.
Qed.

(** * whole entries and whole directories *)
Definition lfnset_ok (sl:list lfnslot) (name:list Z) : Prop :=
  asc sl /\ Forall lslot_ok sl /\ ords_from (map l_ord sl) 1 = true /\ lfn_chk_ok sl name = true.
Definition entry_ok (e:dirent) : Prop :=
  sentry_ok e /\ match d_lfn e with None => True | Some sl => lfnset_ok sl (d_name e) end.
(** what the reader returns for an entry: the same entry, its long-name slots in disk (descending) order *)
Definition canon (e:dirent) : dirent := match d_lfn e with Some sl => set_lfn e (Some (rev sl)) | None => e end.
Definition nslots (e:dirent) : nat := match d_lfn e with Some sl => S (length sl) | None => 1%nat end.
Definition nslots_dir (es:list dirent) : nat := fold_right (fun e a => (nslots e + a)%nat) 0%nat es.

Lemma forallb_rev {A} (p:A -> bool) l : forallb p (rev l) = forallb p l.
Proof.
  destruct (forallb p l) eqn:E.
  - apply forallb_forall. intros x Hx. apply in_rev in Hx. rewrite forallb_forall in E. auto.
  - destruct (forallb p (rev l)) eqn:E'; [|reflexivity]. rewrite forallb_forall in E'.
    assert (forallb p l = true) by (apply forallb_forall; intros x Hx; apply E'; apply in_rev; rewrite rev_involutive; exact Hx). congruence.
Qed.

Lemma scan_entry f e rest acc : entry_ok e ->
  scan_slots (nslots e + f) (ser_dirent e ++ rest) [] acc = scan_slots f rest [] (acc ++ [canon e]).
Proof.
  intros (Hs & Hl). unfold ser_dirent, canon, nslots. destruct (d_lfn e) as [sl|] eqn:El.
  - destruct Hl as (Ha & Hf & Ho & Hc). rewrite (sort_desc_asc sl Ha). rewrite <- app_assoc.
    replace (S (length sl) + f)%nat with (length (rev sl) + S f)%nat by (rewrite rev_length; lia).
    rewrite scan_lfn_run.
    + cbn [app]. rewrite scan_short_step by exact Hs.
      unfold lfn_complete. rewrite (sort_asc_rev sl Ha), Ho. unfold lfn_chk_ok in *. rewrite forallb_rev, Hc. reflexivity.
    + apply Forall_forall. intros x Hx. apply in_rev in Hx. rewrite Forall_forall in Hf. auto.
    + cbn [app]. rewrite map_rev. apply NoDup_rev. apply asc_nodup_ords. exact Ha.
  - cbn [app]. change (1 + f)%nat with (S f). rewrite scan_short_step by exact Hs. cbn.
    replace (set_lfn e None) with e by (destruct e; cbn in El; subst; reflexivity). reflexivity.
Qed.

Theorem scan_ser_dir es : forall f rest acc, Forall entry_ok es ->
  scan_slots (nslots_dir es + f) (ser_dir es ++ rest) [] acc = scan_slots f rest [] (acc ++ map canon es).
Proof.
  induction es as [|e r IH]; intros f rest acc H; [cbn; rewrite app_nil_r; reflexivity|].
  inversion H as [|? ? He Hr]; subst. unfold ser_dir in *. cbn [flat_map nslots_dir fold_right map]. rewrite <- app_assoc.
  rewrite <- Nat.add_assoc. rewrite scan_entry by exact He. fold (nslots_dir r). rewrite IH by exact Hr. rewrite <- app_assoc. reflexivity.
Qed.

(** the directory as [write_dir] lays it down: entries, then zero fill (at least one slot: the end mark) *)
Theorem read_what_was_written es k f : Forall entry_ok es -> (0 < k)%nat ->
  scan_slots (nslots_dir es + S f) (ser_dir es ++ repeat 0 (32 * k)) [] [] = Ok (map canon es, [], true).
Proof.
  intros H Hk. rewrite scan_ser_dir by exact H. cbn [app].
  destruct k as [|k']; [lia|]. replace (32 * S k')%nat with (32 + 32 * k')%nat by lia. rewrite repeat_app.
  rewrite scan_nonempty_unfold by discriminate. cbv zeta.
  rewrite (firstn_app_exact (repeat 0 32) _ 32) by apply repeat_length. reflexivity.
Qed.
(** ... or a directory that fills its clusters exactly (no end mark) *)
Theorem read_what_was_written_full es f : Forall entry_ok es ->
  scan_slots (nslots_dir es + f) (ser_dir es) [] [] = Ok (map canon es, [], false).
Proof.
  intros H. rewrite <- (app_nil_r (ser_dir es)). rewrite scan_ser_dir by exact H. cbn [app]. destruct f; reflexivity.
Qed.

(** * the long-name sets the model builds satisfy [lfnset_ok] *)
Lemma slots_from_facts chk total n : forall b i, length b = (26 * n)%nat -> i + Z.of_nat n = total + 1 -> 1 <= i -> total <= 20 ->
  Forall (fun s => slot_ok s /\ l_ord s <> 0 /\ l_ord s <> 229 /\ l_attr s = 15 /\ l_clus s = 0 /\ l_chk s = chk) (lfn_slots_from chk b i n total) /\
  (n <> 0%nat -> ords_from (map l_ord (lfn_slots_from chk b i n total)) i = true).
Proof.
  induction n as [|k IH]; intros b i Hl Hn Hi Ht; [split; [constructor|congruence]|].
  cbn [lfn_slots_from].
  assert (Hord : forall j, 1 <= j <= 20 -> Z.lor 64 j = 64 + j).
  { intros j Hj. assert (Hland : Z.land 64 j = 0).
    { apply Z.bits_inj'. intros m Hm. rewrite Z.land_spec, Z.bits_0. destruct (Z.eq_dec m 6) as [->|Hm6].
      - assert (Z.testbit j 6 = false); [|rewrite H; apply andb_false_r]. apply Z.bits_above_log2; [lia|]. apply Z.log2_lt_pow2; [lia|]. simpl. lia.
      - replace 64 with (2 ^ 6) by reflexivity. rewrite Z.pow2_bits_false by lia. reflexivity. }
    rewrite <- (Z.lxor_lor 64 j Hland). symmetry. apply Z.add_nocarry_lxor. exact Hland. }
  destruct (IH (skipn 26 b) (i + 1) ltac:(rewrite skipn_length; lia) ltac:(lia) ltac:(lia) Ht) as [Hf Ho].
  split.
  - constructor; [|exact Hf]. cbn [l_ord l_attr l_clus l_chk]. unfold slot_ok. cbn [l_name1 l_name2 l_name3 l_clus].
    unfold slice. repeat match goal with |- context [Z.to_nat ?x] => let v := eval vm_compute in (Z.to_nat x) in change (Z.to_nat x) with v end.
    rewrite !firstn_length, !skipn_length.
    destruct (i =? total) eqn:E; [apply Z.eqb_eq in E; rewrite (Hord i) by lia|]; repeat split; try lia; try reflexivity.
  - intros _. cbn [map l_ord]. destruct k as [|k'].
    + cbn [lfn_slots_from map ords_from]. assert (i = total) by lia. subst i. rewrite Z.eqb_refl.
      rewrite (Hord total) by lia. change Gen.LAST_LONG_ENTRY with 64.
      assert (E1 : Z.land (64 + total) 64 = 64).
      { rewrite <- (Hord total) by lia. rewrite Z.land_lor_distr_l. change (Z.land 64 64) with 64.
        assert (Z.land total 64 = 0); [|rewrite H; reflexivity]. rewrite Z.land_comm.
        apply Z.bits_inj'. intros m Hm. rewrite Z.land_spec, Z.bits_0. destruct (Z.eq_dec m 6) as [->|Hm6].
        - assert (Z.testbit total 6 = false); [|rewrite H; apply andb_false_r]. apply Z.bits_above_log2; [lia|]. apply Z.log2_lt_pow2; [lia|]. simpl. lia.
        - replace 64 with (2 ^ 6) by reflexivity. rewrite Z.pow2_bits_false by lia. reflexivity. }
      assert (E2 : Z.land (64 + total) (Z.lnot 64) = total).
      { rewrite <- (Hord total) by lia. rewrite Z.land_lor_distr_l. change (Z.land 64 (Z.lnot 64)) with 0. rewrite Z.lor_0_l.
        apply Z.bits_inj'. intros m Hm. rewrite Z.land_spec, Z.lnot_spec by lia. destruct (Z.eq_dec m 6) as [->|Hm6].
        - assert (Z.testbit total 6 = false); [|rewrite H; reflexivity]. apply Z.bits_above_log2; [lia|]. apply Z.log2_lt_pow2; [lia|]. simpl. lia.
        - replace 64 with (2 ^ 6) by reflexivity. rewrite Z.pow2_bits_false by lia. cbn. apply andb_true_r. }
      rewrite E1, E2, !Z.eqb_refl. cbn. apply Z.leb_le. lia.
    + destruct (i =? total) eqn:E; [apply Z.eqb_eq in E; lia|].
      specialize (Ho ltac:(discriminate)).
      remember (lfn_slots_from chk (skipn 26 b) (i + 1) (S k') total) as tl eqn:Etl.
      destruct tl as [|t0 tl']; [cbn [lfn_slots_from] in Etl; discriminate|].
      cbn [map ords_from]. cbn [map] in Ho. rewrite Z.eqb_refl. cbn [andb]. exact Ho.
Qed.

Theorem make_lfn_ok u name : Forall unit_ok u -> 1 <= lenZ u <= 255 -> lfnset_ok (make_lfn u name) name.
Proof.
  intros Hu Hlen. assert (Hne : u <> []) by (intro; subst; unfold lenZ in Hlen; simpl in Hlen; lia).
  destruct (lfn_roundtrip u name Hu Hlen) as (_ & _ & _ & Hasc & _).
  destruct (lfn_padded_shape u Hu Hne) as (k & Hk & Hkz & _).
  unfold make_lfn in *. cbv zeta in *.
  assert (Hdiv : lenZ (lfn_padded u) / 26 = Z.of_nat k) by (unfold lenZ; rewrite Hk; lia).
  rewrite Hdiv, Nat2Z.id in *.
  assert (Hk20 : Z.of_nat k <= 20) by lia. assert (Hk1 : 1 <= Z.of_nat k) by lia.
  destruct (slots_from_facts (Gen.checksum name) (Z.of_nat k) k (lfn_padded u) 1 Hk ltac:(lia) ltac:(lia) Hk20) as [Hf Ho].
  split; [exact Hasc|]. split; [|split].
  - eapply Forall_impl; [|exact Hf]. intros s (A & B & C & D & E & _). unfold lslot_ok. tauto.
  - apply Ho. lia.
  - unfold lfn_chk_ok. apply forallb_forall. intros s Hs. rewrite Forall_forall in Hf. destruct (Hf s Hs) as (_ & _ & _ & _ & _ & Hc). rewrite Hc. apply Z.eqb_refl.
Qed.

(** * stability: what the reader returns can be written again unchanged, and found by name *)
Lemma ins_desc_head s l : Forall (fun y => l_ord y < l_ord s) l -> ins_desc s l = s :: l.
Proof. intros H. destruct l as [|x r]; [reflexivity|]. cbn [ins_desc]. inversion H as [|? ? Hx _]; subst. apply Z.ltb_lt in Hx. rewrite Hx. reflexivity. Qed.
Lemma sort_desc_rev l : asc l -> sort_desc (rev l) = rev l.
Proof.
  (* rev l is descending: each element is larger than everything behind it *)
  intros H. unfold sort_desc.
  assert (G : forall d, (forall a b, d = a ++ b -> forall x y, In x a -> In y b -> l_ord y < l_ord x) -> fold_right ins_desc [] d = d).
  { induction d as [|x r IH]; intros Hd; [reflexivity|]. cbn [fold_right]. rewrite IH.
    - apply ins_desc_head. apply Forall_forall. intros y Hy. apply (Hd [x] r eq_refl x y); [left; reflexivity|exact Hy].
    - intros a b E x0 y0 Hx0 Hy0. apply (Hd (x :: a) b); [rewrite E; reflexivity|right; exact Hx0|exact Hy0]. }
  apply G. intros a b E x y Hx Hy.
  assert (E' : l = rev b ++ rev a) by (rewrite <- rev_app_distr, <- E, rev_involutive; reflexivity).
  rewrite E' in H. clear - H Hx Hy. apply in_rev in Hx. apply in_rev in Hy.
  revert H Hy. generalize (rev b). intros l0. induction l0 as [|z q IH]; intros H Hy; [destruct Hy|].
  cbn [app] in H. inversion H as [|? ? Hs Hf]; subst. destruct Hy as [->|Hy]; [|apply IH; assumption].
  rewrite Forall_forall in Hf. apply Hf. apply in_or_app. right. exact Hx.
Qed.
Lemma ser_dirent_canon e : entry_ok e -> ser_dirent (canon e) = ser_dirent e.
Proof.
  intros (_ & Hl). unfold ser_dirent, canon. destruct (d_lfn e) as [sl|] eqn:El; [|rewrite El; reflexivity].
  destruct Hl as (Ha & _). cbn [d_lfn set_lfn]. rewrite (sort_desc_rev sl Ha), (sort_desc_asc sl Ha).
  replace (ser_short (set_lfn e (Some (rev sl)))) with (ser_short e) by (destruct e; reflexivity). reflexivity.
Qed.
Lemma ser_dir_canon es : Forall entry_ok es -> ser_dir (map canon es) = ser_dir es.
Proof.
  induction 1 as [|e r He Hr IH]; [reflexivity|]. unfold ser_dir in *. cbn [map flat_map]. rewrite IH, ser_dirent_canon by exact He. reflexivity.
Qed.
(** reading what was written from reader-form entries gives the same reader-form entries *)
Theorem read_write_read_stable es k f : Forall entry_ok es -> (0 < k)%nat ->
  scan_slots (nslots_dir es + S f) (ser_dir (map canon es) ++ repeat 0 (32 * k)) [] [] = Ok (map canon es, [], true).
Proof. intros H Hk. rewrite ser_dir_canon by exact H. apply read_what_was_written; assumption. Qed.

Lemma list_eqb_refl l : list_eqb l l = true.
Proof. induction l as [|x r IH]; [reflexivity|]. cbn [list_eqb]. rewrite Z.eqb_refl, IH. reflexivity. Qed.
Lemma ins_asc_head s l : Forall (fun y => l_ord s < l_ord y) l -> ins_asc s l = s :: l.
Proof. intros H. destruct l as [|x r]; [reflexivity|]. cbn [ins_asc]. inversion H as [|? ? Hx _]; subst. apply Z.ltb_lt in Hx. rewrite Hx. reflexivity. Qed.
Lemma sort_asc_id l : asc l -> sort_asc l = l.
Proof. induction 1 as [|x r Hs IH Hf]; [reflexivity|]. unfold sort_asc in *. cbn [fold_right]. rewrite IH. apply ins_asc_head. exact Hf. Qed.
Lemma lfn_units_rev sl : asc sl -> lfn_units (rev sl) = lfn_units sl.
Proof. intros H. unfold lfn_units. rewrite (sort_asc_rev sl H), (sort_asc_id sl H). reflexivity. Qed.

(** a name created with a long-name set is found again under that name and shown unchanged — also in the form the
    reader returns it *)
Theorem long_name_found u sfn n e0 : Forall unit_ok u -> 1 <= lenZ u <= 255 -> n_u n = u ->
  let e := set_lfn e0 (Some (make_lfn u sfn)) in
  name_matches n e = true /\ name_matches n (canon e) = true /\ shown_name e = NLong u /\ shown_name (canon e) = NLong u.
Proof.
  intros Hu Hl Hn e. destruct (lfn_roundtrip u sfn Hu Hl) as (Hunits & _ & _ & Hasc & _).
  assert (Hc : canon e = set_lfn e0 (Some (rev (make_lfn u sfn)))) by (unfold canon, e; destruct e0; reflexivity).
  unfold name_matches, shown_name. rewrite Hc. unfold e. replace (d_lfn (set_lfn e0 (Some (make_lfn u sfn)))) with (Some (make_lfn u sfn)) by (destruct e0; reflexivity).
  replace (d_lfn (set_lfn e0 (Some (rev (make_lfn u sfn))))) with (Some (rev (make_lfn u sfn))) by (destruct e0; reflexivity).
  rewrite (lfn_units_rev _ Hasc), Hunits, Hn, list_eqb_refl. cbn [orb]. repeat split; reflexivity.
Qed.
Theorem found_in_extended_dir es n e : search_entry es n = None -> name_matches n e = true -> is_special e = false -> is_volid e = false ->
  search_entry (es ++ [e]) n = Some e.
Proof.
  intros Hs Hm Hsp Hv. unfold search_entry in *.
  destruct (find (name_matches n) (ge_dirs es ++ ge_files es)) eqn:E1; [discriminate|].
  assert (Hd : ge_dirs (es ++ [e]) = ge_dirs es ++ ge_dirs [e]) by (unfold ge_dirs; apply filter_app).
  assert (Hf : ge_files (es ++ [e]) = ge_files es ++ ge_files [e]) by (unfold ge_files; apply filter_app).
  rewrite Hd, Hf.
  assert (Hn1 : find (name_matches n) (ge_dirs es) = None /\ find (name_matches n) (ge_files es) = None).
  { clear - E1. revert E1. generalize (ge_files es). induction (ge_dirs es) as [|x r IH]; intros fl H; cbn [app find] in *.
    - split; [reflexivity|exact H].
    - destruct (name_matches n x); [discriminate|]. apply IH. exact H. }
  destruct Hn1 as [Hnd Hnf].
  assert (Hfa : forall a b, find (name_matches n) (a ++ b) = match find (name_matches n) a with Some x => Some x | None => find (name_matches n) b end).
  { intros a b. induction a as [|x r IH]; [reflexivity|]. cbn [app find]. destruct (name_matches n x); [reflexivity|exact IH]. }
  unfold ge_dirs at 2, ge_files at 2. cbn [filter]. rewrite Hsp, Hv. cbn [orb negb andb].
  destruct (is_dir e); cbn [negb]; rewrite !Hfa, Hnd; cbn [find]; rewrite ?Hm, ?Hnf; cbn [find]; rewrite ?Hm; reflexivity.
Qed.

(** * what the reader returns for ARBITRARY directory bytes (any foreign layout, C07): exactly the live short slots, in
    order, up to the end mark — nothing invented, nothing dropped, deleted slots and long-name slots never returned as
    entries *)
Fixpoint live_slots (fuel:nat) (b:list Z) : list (list Z) :=
  match fuel with
  | O => []
  | S f =>
    match b with
    | [] => []
    | _ =>
      let slot := firstn 32 b in let rest := skipn 32 b in
      if (length slot <? 32)%nat then [] else
      let first := nthZ slot 0 in
      if first =? Gen.LAST_DIR_ENTRY_MARK then []
      else if first =? Gen.FREE_DIR_ENTRY_MARK then live_slots f rest
      else if Gen.is_lfn_entry first (nthZ slot 11) then live_slots f rest
      else slot :: live_slots f rest
    end
  end.
Definition strip_lfn (e:dirent) : dirent := set_lfn e None.
Lemma strip_set e l : strip_lfn (set_lfn e l) = strip_lfn e.
Proof. destruct e; reflexivity. Qed.
Lemma strip_parse b : strip_lfn (parse_short b) = parse_short b.
Proof. reflexivity. Qed.
Theorem scan_returns_live_slots f : forall b pend acc acc' pend' stop,
  scan_slots f b pend acc = Ok (acc', pend', stop) ->
  map strip_lfn acc' = map strip_lfn acc ++ map parse_short (live_slots f b).
Proof.
  induction f as [|g IH]; intros b pend acc acc' pend' stop H.
  - cbn in H. inversion H; subst. cbn. rewrite app_nil_r. reflexivity.
  - destruct b as [|x r]; [cbn in H; inversion H; subst; cbn; rewrite app_nil_r; reflexivity|].
    rewrite scan_nonempty_unfold in H by discriminate. cbv zeta in H.
    cbn [live_slots]. cbv zeta.
    destruct (length (firstn 32 (x :: r)) <? 32)%nat; [discriminate|].
    destruct (nthZ (firstn 32 (x :: r)) 0 =? Gen.LAST_DIR_ENTRY_MARK); [inversion H; subst; cbn; rewrite app_nil_r; reflexivity|].
    destruct (nthZ (firstn 32 (x :: r)) 0 =? Gen.FREE_DIR_ENTRY_MARK); [eapply IH; exact H|].
    destruct (Gen.is_lfn_entry _ _).
    + destruct (negb _); [discriminate|]. destruct (existsb (lfnslot_eqb _) pend); [eapply IH; exact H|]. destruct (existsb _ _); [discriminate|]. eapply IH; exact H.
    + apply IH in H. rewrite H, map_app. cbn [map]. rewrite strip_set, strip_parse, <- app_assoc. reflexivity.
Qed.
Corollary scan_count_bound f b acc' pend' stop : scan_slots f b [] [] = Ok (acc', pend', stop) -> (length acc' <= f)%nat /\ (32 * length acc' <= length b)%nat.
Proof.
  intros H. apply scan_returns_live_slots in H. cbn [map app] in H. apply (f_equal (@length dirent)) in H. rewrite !map_length in H. rewrite H.
  clear. revert b. induction f as [|g IH]; intros b; [cbn; lia|]. destruct b as [|x r]; [cbn; lia|]. cbn [live_slots]. cbv zeta.
  destruct (length (firstn 32 (x :: r)) <? 32)%nat eqn:E; [cbn; lia|]. apply Nat.ltb_ge in E.
  assert (Hl : (32 <= length (x :: r))%nat) by (rewrite firstn_length in E; lia).
  assert (Hs : length (skipn 32 (x :: r)) = (length (x :: r) - 32)%nat) by apply skipn_length.
  destruct (_ =? Gen.LAST_DIR_ENTRY_MARK); [cbn; lia|].
  destruct (_ =? Gen.FREE_DIR_ENTRY_MARK); [specialize (IH (skipn 32 (x :: r))); lia|].
  destruct (Gen.is_lfn_entry _ _); [specialize (IH (skipn 32 (x :: r))); lia|]. specialize (IH (skipn 32 (x :: r))). cbn [length] in *. lia.
Qed.

(** a long-name slot repeated verbatim — what a directory rewrite torn by a crash leaves behind when entries were shifted —
    is ignored by the reader: the set it belongs to still completes *)
Lemma lfnslot_eqb_refl s : lfnslot_eqb s s = true.
Proof. unfold lfnslot_eqb. rewrite !Z.eqb_refl, !list_eqb_refl. reflexivity. Qed.
Theorem scan_repeated_slot f s rest pend acc : lslot_ok s -> In s pend ->
  scan_slots (S f) (ser_lfnslot s ++ rest) pend acc = scan_slots f rest pend acc.
Proof.
  intros (Hok & H0 & H229 & Ha & Hc) Hin.
  pose proof (ser_lfnslot_length s Hok) as Hl. pose proof (parse_ser_lfnslot s Hok) as Hp.
  rewrite scan_nonempty_unfold by (destruct (ser_lfnslot s) eqn:E; [simpl in Hl; discriminate|discriminate]).
  cbv zeta. rewrite (firstn_app_exact _ _ 32 Hl), (skipn_app_exact _ _ 32 Hl), Hl. change (32 <? 32)%nat with false. cbv iota.
  assert (E0 : nthZ (ser_lfnslot s) 0 = l_ord s) by (rewrite <- Hp at 2; reflexivity).
  assert (E11 : nthZ (ser_lfnslot s) 11 = l_attr s) by (rewrite <- Hp at 2; reflexivity).
  rewrite E0, E11, Hp.
  change Gen.LAST_DIR_ENTRY_MARK with 0. change Gen.FREE_DIR_ENTRY_MARK with 229.
  destruct (l_ord s =? 0) eqn:A; [apply Z.eqb_eq in A; contradiction|].
  destruct (l_ord s =? 229) eqn:B; [apply Z.eqb_eq in B; contradiction|].
  unfold Gen.is_lfn_entry. rewrite Ha. change Gen.ATTR_LONG_NAME_MASK with 63. change Gen.ATTR_LONG_NAME with 15. change Gen.FREE_DIR_ENTRY_MARK with 229.
  change (Z.land 15 63 =? 15) with true. rewrite B. cbn [andb negb].
  rewrite Hc. change (0 =? 0) with true. cbn [negb].
  assert (He : existsb (lfnslot_eqb s) pend = true) by (apply existsb_exists; exists s; split; [exact Hin|apply lfnslot_eqb_refl]).
  rewrite He. reflexivity.
Qed.

(** * what the reader ignores (C07): deleted slots, everything behind the end mark, long-name runs that do not belong *)
(** a deleted slot is skipped and discards the long-name slots collected so far *)
Theorem scan_deleted_slot f slot rest pend acc : length slot = 32%nat -> nthZ slot 0 = 229 ->
  scan_slots (S f) (slot ++ rest) pend acc = scan_slots f rest [] acc.
Proof.
  intros Hl H0. rewrite scan_nonempty_unfold by (destruct slot; [discriminate|discriminate]). cbv zeta.
  rewrite (firstn_app_exact _ _ 32 Hl), (skipn_app_exact _ _ 32 Hl), Hl. change (32 <? 32)%nat with false. cbv iota.
  rewrite H0. reflexivity.
Qed.
(** the end mark ends the directory: whatever follows it — used-looking slots included — is never looked at *)
Theorem scan_end_mark f slot rest pend acc : length slot = 32%nat -> nthZ slot 0 = 0 ->
  scan_slots (S f) (slot ++ rest) pend acc = Ok (acc, [], true).
Proof.
  intros Hl H0. rewrite scan_nonempty_unfold by (destruct slot; [discriminate|discriminate]). cbv zeta.
  rewrite (firstn_app_exact _ _ 32 Hl), Hl. change (32 <? 32)%nat with false. cbv iota. rewrite H0. reflexivity.
Qed.
(** a short entry behind long-name slots that are incomplete or carry another name's checksum is returned under its short name *)
Theorem scan_orphans_ignored f e rest pend acc : sentry_ok e ->
  lfn_complete pend = false \/ lfn_chk_ok pend (d_name e) = false ->
  scan_slots (S f) (ser_short e ++ rest) pend acc = scan_slots f rest [] (acc ++ [set_lfn e None]) /\ shown_name (set_lfn e None) = NShort (sfn_display (d_name e)).
Proof.
  intros Hs Ho. rewrite scan_short_step by exact Hs. split; [|destruct e; reflexivity].
  destruct Ho as [Hc|Hk]; [rewrite Hc; reflexivity|]. rewrite Hk. destruct (lfn_complete pend); reflexivity.
Qed.

(** * volume labels (C07): an entry with the VOLUME_ID bit set — whatever other attribute bits it carries — is never listed and never found *)
Theorem labels_ignored es e : is_volid e = true ->
  ~ In e (ge_dirs es ++ ge_files es) /\ forall n, search_entry es n <> Some e.
Proof.
  intros Hv. assert (Hn : ~ In e (ge_dirs es ++ ge_files es)).
  { intros Hin. apply in_app_or in Hin. unfold ge_dirs, ge_files in Hin. destruct Hin as [Hin|Hin]; apply filter_In in Hin; destruct Hin as [_ Hf];
      rewrite Hv, orb_true_r in Hf; discriminate. }
  split; [exact Hn|]. intros n H. apply Hn. unfold search_entry in H.
  destruct (find (name_matches n) (ge_dirs es ++ ge_files es)) as [x|] eqn:E1.
  - inversion H; subst. apply find_some in E1. apply E1.
  - destruct (find (name_matches_upper n) (ge_dirs es ++ ge_files es)) as [x|] eqn:E2; [|discriminate]. inversion H; subst. apply find_some in E2. apply E2.
Qed.
Example label_with_archive_bit_is_a_label : is_volid (mkDirent (repeat 65 11) 40 0 0 0 0 0 0 0 0 0 0 None) = true.
Proof. reflexivity. Qed.
