(** C08 / C04 / C16 over histories, model level.  Two facts are carried through every operation at once:

    - [chg]: a FAT entry an operation changes was, before the operation, either free or the value of a chain member
      (a link or an end mark), and its index is a cluster the volume really has.  Hence the two reserved entries, every
      bad-cluster mark, every other reserved value and every entry of the (sector-rounded) FAT behind the last cluster
      are the same after ANY history of interface calls.
    - [winside]: every device write lies between byte 512 and the end of the volume.

    The follower refuses every cluster number behind the last cluster the volume has (D38: it used to accept whatever
    the sector-rounded FAT could address — the proof of [winside] needed the hypothesis that those entries are free, and a
    damaged image where they are not made pyfatfs read and write behind the end of the volume), the allocator never hands
    one out, so whatever a directory entry or a stale handle names as start cluster, no write leaves the volume. *)
From Coq Require Import ZArith List Bool Lia ZifyBool Relations.
From PyFatV Require Import Base.Bytes Base.Sweep Base.PyEnv Gen.Pure Model.Codec Model.Dir Model.FS Proofs.FatTable Proofs.Device Proofs.DirCodec Proofs.DirState Proofs.Chains Proofs.Session Proofs.FatState Proofs.HdrState Proofs.Identity Proofs.Geometry Proofs.FatBound Proofs.BootSafe.
Import ListNotations.
Open Scope Z_scope.

(** * changed FAT entries *)
Definition used_val (t dm v:Z) : bool := is_data t dm v || is_eoc t v.
Definition was_ok (t dm v:Z) : Prop := v = 0 \/ used_val t dm v = true.
Definition chg (t dm M:Z) (f f':list Z) : Prop :=
  lenZ f' = lenZ f /\ forall i, 0 <= i -> nthZ f' i <> nthZ f i ->
    2 <= i <= M /\ was_ok t dm (nthZ f i) /\ 0 <= nthZ f' i <= Gen.END_OF_CLUSTER_MAX t.

Lemma chg_refl t dm M f : chg t dm M f f.
Proof. split; [reflexivity|]. intros i _ H. congruence. Qed.
Lemma chg_trans t dm M a b c : chg t dm M a b -> chg t dm M b c -> chg t dm M a c.
Proof.
  intros [L1 H1] [L2 H2]. split; [congruence|]. intros i Hi Hne.
  destruct (Z.eq_dec (nthZ c i) (nthZ b i)) as [Ecb|Ecb].
  - rewrite Ecb in *. apply H1; assumption.
  - destruct (H2 i Hi Ecb) as (R2 & W2 & V2). destruct (Z.eq_dec (nthZ b i) (nthZ a i)) as [E|E].
    + rewrite <- E. split; [exact R2|]. split; [exact W2|exact V2].
    + destruct (H1 i Hi E) as (R1 & W1 & _). split; [exact R1|]. split; [exact W1|exact V2].
Qed.
Lemma chg_then_upd t dm M f f1 k v : chg t dm M f f1 -> 2 <= k <= M -> was_ok t dm (nthZ f k) -> 0 <= v <= Gen.END_OF_CLUSTER_MAX t ->
  chg t dm M f (updZ f1 k v).
Proof.
  intros [L H] Hk Hw Hv. split; [unfold lenZ in *; rewrite updZ_length; exact L|]. intros i Hi Hne.
  rewrite nthZ_updZ_cases in Hne |- * by lia. destruct ((i =? k) && (k <? lenZ f1)) eqn:E.
  - assert (i = k) by lia. subst i. split; [exact Hk|]. split; [exact Hw|exact Hv].
  - apply H; assumption.
Qed.
Lemma chg_link t dm M f cs : 0 <= Gen.END_OF_CLUSTER_MAX t -> forall f1, chg t dm M f f1 ->
  Forall (fun c => 2 <= c <= M /\ nthZ f c = 0 /\ c <= Gen.END_OF_CLUSTER_MAX t) cs -> chg t dm M f (link_chain f1 cs (Gen.END_OF_CLUSTER_MAX t)).
Proof.
  intros He. induction cs as [|c [|d r] IH]; intros f1 H Hf; [exact H| |].
  - cbn [link_chain]. inversion Hf as [|? ? (Hc & H0 & _) _]; subst. apply chg_then_upd; [exact H|exact Hc|left; exact H0|lia].
  - change (link_chain f1 (c :: d :: r) (Gen.END_OF_CLUSTER_MAX t)) with (link_chain (updZ f1 c d) (d :: r) (Gen.END_OF_CLUSTER_MAX t)).
    inversion Hf as [|? ? (Hc & H0 & _) Hr]; subst. apply IH; [|exact Hr]. inversion Hr as [|? ? (Hd & _ & Hd2) _]; subst.
    apply chg_then_upd; [exact H|exact Hc|left; exact H0|lia].
Qed.
Lemma chg_free t dm M f v cs : 0 <= v <= Gen.END_OF_CLUSTER_MAX t -> forall f1, chg t dm M f f1 -> Forall (fun c => 2 <= c <= M /\ was_ok t dm (nthZ f c)) cs ->
  chg t dm M f (fold_left (fun g cl => updZ g cl v) cs f1).
Proof.
  intros He. induction cs as [|c r IH]; intros f1 H Hf; [exact H|]. cbn [fold_left]. inversion Hf as [|? ? [Hc Hw] Hr]; subst.
  apply IH; [|exact Hr]. apply chg_then_upd; [assumption|assumption|assumption|lia].
Qed.

(** what the follower yields holds a link or an end mark *)
Lemma chain_go_used fuel : forall t dm fat i c, In c (fst (chain_go fuel t dm fat i)) -> used_val t dm (nthZ fat c) = true.
Proof.
  induction fuel as [|f IH]; intros t dm fat i c H; cbn [chain_go] in H; [simpl in H; tauto|].
  destruct ((i <? Gen.MIN_DATA_CLUSTER t) || (lenZ fat <=? i)); [simpl in H; tauto|]. cbv zeta in H.
  destruct (is_data t dm (nthZ fat i)) eqn:Ed.
  - destruct (chain_go f t dm fat (nthZ fat i)) as [r ok] eqn:Er. cbn [fst] in H. destruct H as [<-|H].
    + unfold used_val. rewrite Ed. reflexivity.
    + apply (IH t dm fat (nthZ fat i)). rewrite Er. exact H.
  - destruct (is_eoc t (nthZ fat i)) eqn:Ee; cbn [fst] in H; [|simpl in H; tauto].
    destruct H as [<-|[]]. unfold used_val. rewrite Ee. apply orb_true_r.
Qed.
Lemma vt_eoc t : vt t -> 0 <= Gen.END_OF_CLUSTER_MAX t /\ Gen.MAX_DATA_CLUSTER t <= Gen.END_OF_CLUSTER_MAX t /\ 0 <= Gen.FREE_CLUSTER t <= Gen.END_OF_CLUSTER_MAX t.
Proof. intros Hv. destruct (vt_consts t Hv) as (_ & Hf & H3 & H4 & _). lia. Qed.
Lemma used_nonzero t dm v : vt t -> used_val t dm v = true -> v <> 0.
Proof.
  intros Hv H. destruct (vt_consts t Hv) as (Hmin & _ & H3 & H4 & _). unfold used_val, is_data, is_eoc in H.
  assert (Gen.FAT12_SPECIAL_EOC <> 0) by (vm_compute; discriminate). unfold Gen.FAT_TYPE_FAT12 in H. lia.
Qed.
(** neither a bad-cluster mark nor any other reserved value is "free or used" *)
Lemma bad_not_ok t dm : vt t -> dok t dm -> ~ was_ok t dm (Gen.BAD_CLUSTER t).
Proof.
  intros Hv [_ Hd] [H|H].
  - destruct Hv as [->|[->| ->]]; vm_compute in H; discriminate.
  - destruct (vt_bad t Hv) as [Hb _]. unfold used_val, is_data, is_eoc in H.
    assert (t = 12 -> Gen.BAD_CLUSTER t <> Gen.FAT12_SPECIAL_EOC) by (intros ->; vm_compute; discriminate). unfold Gen.FAT_TYPE_FAT12 in H. lia.
Qed.

(** the entries behind the last cluster are free *)
Definition tf (M:Z) (fat:list Z) : Prop := forall i, M < i -> nthZ fat i = 0.
Lemma tf_chg t dm M f f' : tf M f -> chg t dm M f f' -> tf M f'.
Proof.
  intros Ht [_ H] i Hi. destruct (Z.eq_dec (nthZ f' i) (nthZ f i)) as [E|E]; [rewrite E; apply Ht; exact Hi|].
  destruct (Z_lt_le_dec i 0) as [Hn|Hn].
  - exfalso. apply E. unfold nthZ. replace (Z.to_nat i) with (Z.to_nat 0) by lia. fold (nthZ f' 0). fold (nthZ f 0).
    destruct (Z.eq_dec (nthZ f' 0) (nthZ f 0)) as [E0|E0]; [exact E0|]. destruct (H 0 ltac:(lia) E0). lia.
  - destruct (H i Hn E). lia.
Qed.

(** * states *)
Definition vol_end (s:st) : Z := total_sectors s * bps s.
Definition winside (s:st) (w:Z * list Z) : Prop := 512 <= fst w /\ fst w + lenZ (snd w) <= vol_end s.
Definition geo (s:st) : Prop :=
  0 < bps s /\ 0 < BPB_SecPerClus (s_h s) /\ bpc s = BPB_SecPerClus (s_h s) * bps s /\
  512 <= fat_start s /\ 0 <= fat_bytes s /\ 0 <= BPB_NumFATs (s_h s) /\
  fat_start s + BPB_NumFATs (s_h s) * fat_bytes s <= root_addr s /\ 0 <= root_dir_sectors (s_p s) /\
  root_addr s + root_dir_sectors (s_p s) * bps s <= first_data_sector (s_p s) * bps s /\
  first_data_sector (s_p s) <= total_sectors s.
Definition pre (s:st) : Prop :=
  vt (ft s) /\ geo s /\ lenZ (pack_fat (ft s) (s_fat s) (s_hi s)) <= fat_bytes s.
Definition J (s s':st) : Prop :=
  s_h s' = s_h s /\ s_p s' = s_p s /\ s_hi s' = s_hi s /\ s_ro s' = s_ro s /\ s_dsize s' = s_dsize s /\
  chg (ft s) (dmax s) (max_cluster s) (s_fat s) (s_fat s') /\
  exists l, s_log s' = l ++ s_log s /\ Forall (winside s) l.

Lemma frame_eqs s s' : s_h s' = s_h s -> s_p s' = s_p s ->
  ft s' = ft s /\ dmax s' = dmax s /\ max_cluster s' = max_cluster s /\ vol_end s' = vol_end s /\ bps s' = bps s /\ bpc s' = bpc s /\
  fat_start s' = fat_start s /\ fat_bytes s' = fat_bytes s /\ root_addr s' = root_addr s /\ (forall c, cluster_addr s' c = cluster_addr s c).
Proof.
  intros H1 H2. unfold ft, dmax, max_cluster, count_of_clusters, vol_end, total_sectors, bps, bpc, fat_start, fat_bytes, root_addr, cluster_addr, bps.
  unfold ft. rewrite H1, H2. repeat split.
Qed.
Lemma J_refl s : J s s.
Proof. do 5 (split; [reflexivity|]). split; [apply chg_refl|]. exists []. split; [reflexivity|constructor]. Qed.
Lemma J_trans a b c : J a b -> J b c -> J a c.
Proof.
  intros (A1 & A2 & A3 & A4 & A5 & A6 & l1 & A7 & A8) (B1 & B2 & B3 & B4 & B5 & B6 & l2 & B7 & B8).
  destruct (frame_eqs a b A1 A2) as (E1 & E2 & E3 & E4 & _).
  split; [congruence|]. split; [congruence|]. split; [congruence|]. split; [congruence|]. split; [congruence|]. split.
  - rewrite E1, E2, E3 in B6. eapply chg_trans; eassumption.
  - exists (l2 ++ l1). split; [rewrite B7, A7, app_assoc; reflexivity|]. apply Forall_app. split; [|exact A8].
    eapply Forall_impl; [|exact B8]. intros w Hw. unfold winside in *. rewrite <- E4. exact Hw.
Qed.
Lemma pre_J a b : pre a -> J a b -> pre b.
Proof.
  intros (Hv & Hg & Hl) (A1 & A2 & A3 & A4 & A5 & A6 & _).
  destruct (frame_eqs a b A1 A2) as (E1 & E2 & E3 & E4 & E5 & E6 & E7 & E8 & E9 & E10).
  unfold pre, geo. rewrite E1, E5, E6, E7, E8, E9, A1, A2, A3. unfold total_sectors. rewrite A1. fold (total_sectors a).
  split; [exact Hv|]. split; [exact Hg|].
  unfold lenZ. rewrite (pack_fat_length (ft a) (s_fat b) (s_fat a) (s_hi a)); [exact Hl|]. destruct A6 as [L _]. unfold lenZ in L. lia.
Qed.

Lemma J_newfat s f h : chg (ft s) (dmax s) (max_cluster s) (s_fat s) f -> J s (upd_fat s f h).
Proof. intros H. do 5 (split; [reflexivity|]). split; [exact H|]. exists []. split; [reflexivity|constructor]. Qed.
Lemma J_write_at s off d s' : winside s (off, d) -> write_at s off d = Ok s' -> J s s'.
Proof.
  intros Hi H. apply write_at_ok in H. destruct H as [_ ->]. do 5 (split; [reflexivity|]). split; [apply chg_refl|].
  exists [(off, d)]. split; [reflexivity|]. constructor; [exact Hi|constructor].
Qed.

Lemma regions s : geo s -> 512 <= root_addr s /\ first_data_sector (s_p s) * bps s <= vol_end s /\ 0 <= first_data_sector (s_p s).
Proof. intros (H1 & H2 & H3 & H4 & H5 & H6 & H7 & H8 & H9 & H10). unfold vol_end. split; [nia|]. split; nia. Qed.
Lemma cluster_inside s c : geo s -> 2 <= c <= max_cluster s -> 512 <= cluster_addr s c /\ cluster_addr s c + bpc s <= vol_end s.
Proof.
  intros Hg Hc. destruct (regions s Hg) as (R1 & R2 & R3). destruct Hg as (H1 & H2 & H3 & H4 & H5 & H6 & H7 & H8 & H9 & H10).
  pose proof (cluster_inside_volume (s_p s) (s_h s) c H2 H1 R3) as Hin. cbv zeta in Hin.
  specialize (Hin Hc). unfold cluster_addr, vol_end, total_sectors, bps in *. rewrite H3. destruct Hin as [Ha Hb]. split; [nia|exact Hb].
Qed.

Lemma J_flush_copies n : forall s b i s', pre s -> lenZ b <= fat_bytes s -> 0 <= i -> i + Z.of_nat n <= BPB_NumFATs (s_h s) ->
  flush_copies s b i n = Ok s' -> J s s'.
Proof.
  induction n as [|k IH]; intros s b i s' Hp Hb Hi Hn H; cbn [flush_copies] in H; [inversion H; subst; apply J_refl|].
  destruct (write_at s _ b) as [s1|] eqn:E; [|discriminate]. cbn [bind] in H.
  assert (J1 : J s s1).
  { eapply J_write_at; [|exact E]. destruct Hp as (_ & Hg & _). destruct (regions s Hg) as (R1 & R2 & R3).
    destruct Hg as (H1 & H2 & H3 & H4 & H5 & H6 & H7 & H8 & H9 & H10). unfold winside. cbn [fst snd]. split; nia. }
  eapply J_trans; [exact J1|]. pose proof (pre_J _ _ Hp J1) as Hp1. destruct J1 as (A1 & A2 & _).
  destruct (frame_eqs s s1 A1 A2) as (_ & _ & _ & _ & _ & _ & _ & E8 & _).
  apply (IH s1 b (i + 1)); [exact Hp1|rewrite E8; exact Hb|lia|rewrite A1; lia|exact H].
Qed.
Lemma J_flush_fat s s' : pre s -> flush_fat s = Ok s' -> J s s'.
Proof.
  intros Hp H. unfold flush_fat in H. destruct (s_ro s); [discriminate|]. eapply J_flush_copies; [exact Hp| | | |exact H].
  - apply Hp.
  - lia.
  - destruct Hp as (_ & Hg & _). destruct Hg as (_ & _ & _ & _ & _ & H6 & _). lia.
Qed.

Lemma firstn_lenZ {A} n (l:list A) : lenZ (firstn n l) <= Z.of_nat n.
Proof. unfold lenZ. rewrite firstn_length. lia. Qed.
Lemma J_write_chunks cs : forall s data s', pre s -> Forall (fun c => 2 <= c <= max_cluster s) cs -> write_chunks s cs data = Ok s' -> J s s'.
Proof.
  induction cs as [|c r IH]; intros s data s' Hp Hf H; [inversion H; subst; apply J_refl|].
  cbn [write_chunks] in H. cbv zeta in H. inversion Hf as [|? ? Hc Hr]; subst.
  destruct (write_at s _ _) as [s1|] eqn:E; [|discriminate]. cbn [bind] in H.
  assert (J1 : J s s1).
  { eapply J_write_at; [|exact E]. destruct Hp as (_ & Hg & _). destruct (cluster_inside s c Hg Hc) as [Ha Hb].
    unfold winside. cbn [fst snd]. pose proof (firstn_lenZ (Z.to_nat (bpc s)) data) as Hl.
    destruct Hg as (H1 & H2 & H3 & _). split; [exact Ha|]. nia. }
  destruct (_ <=? _)%nat; [inversion H; subst; exact J1|].
  eapply J_trans; [exact J1|]. pose proof (pre_J _ _ Hp J1) as Hp1. destruct J1 as (A1 & A2 & _).
  destruct (frame_eqs s s1 A1 A2) as (_ & _ & E3 & _).
  eapply IH; [exact Hp1|rewrite E3; exact Hr|exact H].
Qed.
Lemma J_erase_clusters cs : forall s s', pre s -> Forall (fun c => 2 <= c <= max_cluster s) cs -> erase_clusters s cs = Ok s' -> J s s'.
Proof.
  induction cs as [|c r IH]; intros s s' Hp Hf H; [inversion H; subst; apply J_refl|].
  cbn [erase_clusters] in H. inversion Hf as [|? ? Hc Hr]; subst.
  destruct (write_at s _ _) as [s1|] eqn:E; [|discriminate]. cbn [bind] in H.
  assert (J1 : J s s1).
  { eapply J_write_at; [|exact E]. destruct Hp as (_ & Hg & _). destruct (cluster_inside s c Hg Hc) as [Ha Hb].
    unfold winside. cbn [fst snd]. unfold lenZ. rewrite zeros_length.
    destruct Hg as (H1 & H2 & H3 & _). split; [exact Ha|]. nia. }
  eapply J_trans; [exact J1|]. pose proof (pre_J _ _ Hp J1) as Hp1. destruct J1 as (A1 & A2 & _).
  destruct (frame_eqs s s1 A1 A2) as (_ & _ & E3 & _).
  eapply IH; [exact Hp1|rewrite E3; exact Hr|exact H].
Qed.

Lemma allocate_free s size e cs s' : vt (ft s) -> allocate s size e = Ok (cs, s') ->
  Forall (fun c => 2 <= c <= max_cluster s /\ nthZ (s_fat s) c = 0 /\ c <= Gen.END_OF_CLUSTER_MAX (ft s)) cs.
Proof.
  intros Hv H. unfold allocate in H. destruct (s_ro s); [discriminate|].
  destruct (alloc_scan _ _ _ _ _ _) as [l j] eqn:Es. destruct (negb _); [discriminate|].
  assert (cs = l) by (destruct e; [destruct (erase_clusters _ l); inversion H; reflexivity|inversion H; reflexivity]). subst l.
  apply Forall_forall. intros x Hx.
  pose proof (alloc_scan_spec (s_fat s) (ft s) (max_cluster s) (Z.to_nat (lenZ (s_fat s) - Z.max 0 (s_hint s))) (Z.max 0 (s_hint s)) (Z.to_nat (Gen.calc_num_clusters (s_p s) size)) x) as Hsp.
  rewrite Es in Hsp. specialize (Hsp Hx). destruct (vt_consts _ Hv) as (Hmin & Hfree & _). destruct (vt_eoc _ Hv) as (_ & He & _). lia.
Qed.
Lemma J_allocate s size e cs s' : pre s -> allocate s size e = Ok (cs, s') -> J s s'.
Proof.
  intros Hp H. pose proof (allocate_free _ _ _ _ _ (proj1 Hp) H) as Hfr. unfold allocate in H. destruct (s_ro s); [discriminate|].
  destruct (alloc_scan _ _ _ _ _ _) as [l j]. destruct (negb _); [discriminate|].
  assert (cs = l) by (destruct e; [destruct (erase_clusters _ l); inversion H; reflexivity|inversion H; reflexivity]). subst l.
  assert (J1 : J s (upd_fat s (link_chain (s_fat s) cs (Gen.END_OF_CLUSTER_MAX (ft s))) j)).
  { apply J_newfat. apply chg_link; [apply (vt_eoc _ (proj1 Hp))|apply chg_refl|exact Hfr]. }
  destruct e.
  - destruct (erase_clusters _ cs) as [s2|] eqn:E; [|discriminate]. cbn [bind] in H. inversion H; subst.
    eapply J_trans; [exact J1|]. eapply J_erase_clusters; [eapply pre_J; eassumption| |exact E].
    eapply Forall_impl; [|exact Hfr]. intros c [Hc _]. exact Hc.
  - inversion H; subst. exact J1.
Qed.
Lemma chain_members s c l ok : pre s -> chain s c = (l, ok) -> Forall (fun x => 2 <= x <= max_cluster s /\ was_ok (ft s) (dmax s) (nthZ (s_fat s) x)) l.
Proof.
  intros (Hv & _) H. pose proof (chain_members_bounded _ _ _ _ H) as Hb. rewrite Forall_forall in Hb. apply Forall_forall. intros x Hx.
  destruct (Hb x Hx) as [Hr Hl]. destruct (vt_consts _ Hv) as (Hmin & _). split; [lia|]. right.
  unfold chain in H. pose proof (chain_go_used (length (s_fat s)) (ft s) (dmax s) (vfat s) c x) as Hu. rewrite H in Hu. specialize (Hu Hx).
  unfold vfat in Hu. rewrite nthZ_firstn in Hu by lia. exact Hu.
Qed.
Lemma J_free_chain s c s' : pre s -> free_chain s c = Ok s' -> J s s'.
Proof.
  intros Hp. unfold free_chain. destruct (s_ro s); [discriminate|]. unfold chain_all. destruct (chain s c) as [l ok] eqn:Ec. destruct ok; [|discriminate]. cbn [bind].
  intros H; inversion H; subst. apply J_newfat. apply chg_free; [apply (vt_eoc _ (proj1 Hp))|apply chg_refl|eapply chain_members; eassumption].
Qed.

Lemma J_wdc s data c e s' : pre s -> write_data_to_cluster s data c e = Ok s' -> J s s'.
Proof.
  intros Hp H. unfold write_data_to_cluster in H. destruct (s_ro s); [discriminate|]. cbv zeta in H.
  destruct (chain s c) as [ch ok] eqn:Ec.
  match type of H with bind ?X _ = _ => destruct X as [s1|] eqn:E1; [|discriminate] end. cbn [bind] in H.
  assert (J1 : J s s1).
  { destruct (_ <=? lenZ ch); [inversion E1; subst; apply J_refl|]. destruct ok; [|discriminate]. cbn [negb] in E1.
    destruct (allocate s _ e) as [[l s2]|] eqn:Ea; [|discriminate]. cbn [bind] in E1. inversion E1; subst.
    pose proof (J_allocate _ _ _ _ _ Hp Ea) as Ja. pose proof (allocate_free _ _ _ _ _ (proj1 Hp) Ea) as Hfr.
    assert (Hhd : 0 <= hd 0 l <= Gen.END_OF_CLUSTER_MAX (ft s)).
    { destruct l as [|x q]; cbn [hd]; [destruct (vt_eoc _ (proj1 Hp)); lia|]. inversion Hfr as [|? ? (A & _ & B) _]; subst. lia. }
    assert (Hne : ch <> []) by (unfold chain in Ec; eapply chain_go_nonempty; exact Ec).
    pose proof (chain_members _ _ _ _ Hp Ec) as Hm. rewrite Forall_forall in Hm. destruct (Hm _ (last_in ch Hne)) as [Hk Hw].
    destruct Ja as (A1 & A2 & A3 & A4 & A5 & A6 & l0 & A7 & A8).
    do 5 (split; [assumption|]). split; [|exists l0; split; assumption].
    apply (chg_then_upd _ _ _ _ _ _ _ A6 Hk Hw Hhd). }
  destruct (chain s1 c) as [ch1 ok1] eqn:Ec1.
  pose proof (pre_J _ _ Hp J1) as Hp1. eapply J_trans; [exact J1|]. eapply J_write_chunks; [exact Hp1| |exact H].
  eapply Forall_impl; [|eapply chain_members; eassumption]. intros x [Hx _]. exact Hx.
Qed.
Lemma J_write_dir s loc es s' : pre s -> write_dir s loc es = Ok s' -> J s s'.
Proof.
  intros Hp H. unfold write_dir in H. destruct (s_ro s); [discriminate|]. cbv zeta in H. destruct (is_root_fixed s loc).
  - destruct (_ <? _) eqn:El; [discriminate|]. eapply J_write_at; [|exact H]. destruct Hp as (_ & Hg & _).
    destruct (regions s Hg) as (R1 & R2 & R3). destruct Hg as (H1 & H2 & H3 & H4 & H5 & H6 & H7 & H8 & H9 & H10).
    unfold winside. cbn [fst snd]. unfold lenZ in *. rewrite app_length, zeros_length. split; [exact R1|]. nia.
  - eapply J_wdc; eassumption.
Qed.

(** * whole operations (same mechanics as [BootSafe] / [FatBound]) *)
Ltac hd_step H :=
  first [ discriminate H
  | match type of H with
    | bind ?X _ = _ => let E := fresh "E" in destruct X eqn:E; cbn [bind] in H
    | (match ?x with _ => _ end) = _ => let E := fresh "E" in destruct x eqn:E
    end ].
Ltac crush H := repeat hd_step H; cbn [bind] in H; try discriminate H.
Ltac vsubst s := repeat match goal with
  | H : ?x = ?y |- _ => is_var y; tryif constr_eq y s then fail else subst y
  | H : ?x = ?y |- _ => is_var x; tryif constr_eq x s then fail else subst x
  end.
Ltac open_all s := repeat match goal with
  | E : Ok _ = Ok _ |- _ => injection E; clear E; intros; vsubst s
  | E : (_, _) = (_, _) |- _ => injection E; clear E; intros; vsubst s
  | E : _ = Ok _ |- _ => progress (crush E)
  end.
Ltac have_J a y := lazymatch goal with | _ : J a y |- _ => fail | _ => idtac end.
Ltac Jstep a Hp :=
  match goal with
  | Hr : J a ?x, E : write_dir ?x _ _ = Ok ?y |- _ => have_J a y; pose proof (J_trans _ _ _ Hr (J_write_dir _ _ _ _ (pre_J _ _ Hp Hr) E))
  | Hr : J a ?x, E : flush_fat ?x = Ok ?y |- _ => have_J a y; pose proof (J_trans _ _ _ Hr (J_flush_fat _ _ (pre_J _ _ Hp Hr) E))
  | Hr : J a ?x, E : free_chain ?x _ = Ok ?y |- _ => have_J a y; pose proof (J_trans _ _ _ Hr (J_free_chain _ _ _ (pre_J _ _ Hp Hr) E))
  | Hr : J a ?x, E : allocate ?x _ _ = Ok (_, ?y) |- _ => have_J a y; pose proof (J_trans _ _ _ Hr (J_allocate _ _ _ _ _ (pre_J _ _ Hp Hr) E))
  | Hr : J a ?x, E : write_data_to_cluster ?x _ _ _ = Ok ?y |- _ => have_J a y; pose proof (J_trans _ _ _ Hr (J_wdc _ _ _ _ _ (pre_J _ _ Hp Hr) E))
  end.
Ltac Jchain a Hp := pose proof (J_refl a); repeat Jstep a Hp; try assumption.

Lemma J_update_entry s h f s' : pre s -> update_entry s h f = Ok s' -> J s s'.
Proof. intros Hp H. unfold update_entry in H. open_all s. Jchain s Hp. Qed.
Lemma J_remove_entry s ploc e s' : pre s -> remove_entry s ploc e = Ok s' -> J s s'.
Proof. intros Hp H. unfold remove_entry in H. open_all s; Jchain s Hp. Qed.
Ltac Jstep2 a Hp :=
  first [ Jstep a Hp
  | match goal with
    | Hr : J a ?x, E : update_entry ?x _ _ = Ok ?y |- _ => have_J a y; pose proof (J_trans _ _ _ Hr (J_update_entry _ _ _ _ (pre_J _ _ Hp Hr) E))
    | Hr : J a ?x, E : remove_entry ?x _ _ = Ok ?y |- _ => have_J a y; pose proof (J_trans _ _ _ Hr (J_remove_entry _ _ _ _ (pre_J _ _ Hp Hr) E))
    end ].
Ltac Jchain2 a Hp := pose proof (J_refl a); repeat Jstep2 a Hp; try assumption.

Lemma J_op_create s p w t b s' : pre s -> op_create s p w t = Ok (b, s') -> J s s'.
Proof. intros Hp H. unfold op_create in H. open_all s; Jchain2 s Hp. Qed.
Lemma J_op_makedir s p r t s' : pre s -> op_makedir s p r t = Ok s' -> J s s'.
Proof. intros Hp H. unfold op_makedir in H. open_all s; Jchain2 s Hp. Qed.
Lemma J_op_remove s p s' : pre s -> op_remove s p = Ok s' -> J s s'.
Proof. intros Hp H. unfold op_remove in H. open_all s; Jchain2 s Hp. Qed.
Lemma J_op_removedir s p s' : pre s -> op_removedir s p = Ok s' -> J s s'.
Proof. intros Hp H. unfold op_removedir in H. open_all s; Jchain2 s Hp. Qed.
Lemma J_op_setinfo s p a b c s' : pre s -> op_setinfo s p a b c = Ok s' -> J s s'.
Proof. intros Hp H. unfold op_setinfo in H. open_all s; Jchain2 s Hp. Qed.

Lemma fold_errJ {A} (g:st -> A -> res st) l x : fold_left (fun acc e => do sa <- acc; g sa e) l (Err x) = Err x.
Proof. induction l as [|e r IH]; [reflexivity|]. cbn [fold_left bind]. exact IH. Qed.
Lemma fold_J {A} (g:st -> A -> res st) l : (forall sa e sb, pre sa -> g sa e = Ok sb -> J sa sb) ->
  forall s s', pre s -> fold_left (fun acc e => do sa <- acc; g sa e) l (Ok s) = Ok s' -> J s s'.
Proof.
  intros Hg. induction l as [|e r IH]; intros s s' Hp H; cbn [fold_left bind] in H; [inversion H; subst; apply J_refl|].
  destruct (g s e) as [s1|x] eqn:E; [|rewrite fold_errJ in H; discriminate].
  pose proof (Hg _ _ _ Hp E) as J1. eapply J_trans; [exact J1|]. apply IH; [eapply pre_J; eassumption|exact H].
Qed.
Lemma J_rmtree_go f : forall s r s', pre s -> rmtree_go f s r = Ok s' -> J s s'.
Proof.
  induction f as [|g IH]; intros s r s' Hp H; [discriminate|]. cbn [rmtree_go] in H. cbv zeta in H.
  destruct (read_dir s (eref_loc s r)) as [es|] eqn:E; [|discriminate]. cbn [bind] in H.
  match type of H with bind ?X _ = _ => destruct X as [s1|] eqn:E1; [|discriminate] end. cbn [bind] in H.
  apply fold_J in E1; [|intros sa e sb Hsa He; eapply J_remove_entry; eassumption|exact Hp].
  match type of H with bind ?X _ = _ => destruct X as [s2|] eqn:E2; [|discriminate] end. cbn [bind] in H.
  apply fold_J in E2; [|intros sa e sb Hsa He; eapply IH; eassumption|eapply pre_J; eassumption].
  pose proof (J_trans _ _ _ E1 E2) as J12.
  destruct r as [|ploc e]; [inversion H; subst; exact J12|].
  destruct (read_dir s2 (get_cluster e)); [|discriminate]. cbn [bind] in H. destruct (negb _); [discriminate|].
  eapply J_trans; [exact J12|]. eapply J_remove_entry; [eapply pre_J; eassumption|exact H].
Qed.
Lemma J_op_removetree s p s' : pre s -> op_removetree s p = Ok s' -> J s s'.
Proof. intros Hp H. unfold op_removetree in H. open_all s. eapply J_rmtree_go; eassumption. Qed.

Lemma J_h_write_raw s h e b s' h' : pre s -> h_write_raw s h e b = Ok (s', h') -> J s s'.
Proof. intros Hp H. unfold h_write_raw in H. open_all s; Jchain2 s Hp. Qed.
Lemma J_h_write s h b s' h' : pre s -> h_write s h b = Ok (s', h') -> J s s'.
Proof.
  intros Hp H. unfold h_write in H. open_all s; try apply J_refl;
  match goal with E : h_write_raw s _ _ _ = Ok _ |- _ => eapply J_h_write_raw; eassumption end.
Qed.
Lemma J_h_close s h s' h' : pre s -> h_close s h = Ok (s', h') -> J s s'.
Proof. intros Hp H. unfold h_close in H. open_all s; Jchain2 s Hp. Qed.

(** the cut of a shrinking truncate: free the chain behind the [keep]-th cluster, end the chain at the one before *)
Lemma nthZ_In (l:list Z) j : 0 <= j < lenZ l -> In (nthZ l j) l.
Proof. intros H. unfold nthZ. apply nth_In. unfold lenZ in H. lia. Qed.
Lemma J_cut a x c cs ok j v h : pre a -> chain a c = (cs, ok) -> 0 <= j < lenZ cs -> 0 <= v <= Gen.END_OF_CLUSTER_MAX (ft a) -> J a x ->
  J a (upd_fat x (updZ (s_fat x) (nthZ cs j) v) h).
Proof.
  intros Hp Ec Hj Hv (A1 & A2 & A3 & A4 & A5 & A6 & l0 & A7 & A8).
  pose proof (chain_members _ _ _ _ Hp Ec) as Hm. rewrite Forall_forall in Hm. destruct (Hm _ (nthZ_In cs j Hj)) as [Hk Hw].
  do 5 (split; [assumption|]). split; [|exists l0; split; assumption].
  apply (chg_then_upd _ _ _ _ _ _ _ A6 Hk Hw Hv).
Qed.
Ltac Jstep3 a Hp :=
  first [ Jstep2 a Hp
  | match goal with
    | Hr : J a ?x, E : h_write_raw ?x _ _ _ = Ok (?y, _) |- _ => have_J a y; pose proof (J_trans _ _ _ Hr (J_h_write_raw _ _ _ _ _ _ (pre_J _ _ Hp Hr) E))
    end ].
Ltac Jchain3 a Hp := pose proof (J_refl a); repeat Jstep3 a Hp; try assumption.
Lemma J_h_truncate s h sz s' h' : pre s -> h_truncate s h sz = Ok (s', h') -> J s s'.
Proof.
  intros Hp H. unfold h_truncate in H. open_all s; Jchain3 s Hp;
  match goal with
  | Hr : J s ?x, Ec : chain s _ = (?cs, _), Hlt : (?k <? lenZ ?cs) = true,
    E : flush_fat (upd_fat ?x (updZ (s_fat ?x) (nthZ ?cs ?j) ?v) ?hh) = Ok ?y |- _ =>
      assert (Hj : 0 <= j < lenZ cs) by lia;
      assert (Hvv : 0 <= v <= Gen.END_OF_CLUSTER_MAX (ft s)) by (destruct (vt_eoc _ (proj1 Hp)); lia);
      pose proof (J_cut s x _ cs _ j v hh Hp Ec Hj Hvv Hr) as Jc;
      pose proof (J_trans _ _ _ Jc (J_flush_fat _ _ (pre_J _ _ Hp Jc) E))
  end; repeat Jstep3 s Hp; assumption.
Qed.

Lemma J_op_openbin s p m t s' h' : pre s -> op_openbin s p m t = Ok (s', h') -> J s s'.
Proof.
  intros Hp H. unfold op_openbin in H.
  match type of H with bind ?X _ = _ => destruct X as [s1|] eqn:E1; [|discriminate] end. cbn [bind] in H.
  assert (J1 : J s s1).
  { destruct (m_create m); [|inversion E1; subst; apply J_refl].
    match type of E1 with bind ?X _ = _ => destruct X; [|discriminate] end. cbn [bind] in E1.
    destruct (op_create s p false t) as [[b0 s0]|] eqn:Ec; [|discriminate]. cbn [bind snd] in E1. inversion E1; subst.
    eapply J_op_create; eassumption. }
  pose proof (pre_J _ _ Hp J1) as Hp1.
  destruct (op_getinfo s1 p); [|discriminate]. cbn [bind] in H. destruct (i_dir _); [discriminate|].
  destruct (lookup s1 p) as [[|ploc e]|]; try discriminate. cbn [bind] in H. destruct (is_volid e); [discriminate|]. cbv zeta in H.
  match type of H with bind ?X _ = _ => destruct X as [[s2 h2]|] eqn:E2; [|discriminate] end. cbn [bind] in H.
  assert (J2 : J s1 s2).
  { destruct (m_truncate m); [|inversion E2; subst; apply J_refl].
    match type of E2 with bind ?X _ = _ => destruct X; [|discriminate] end. cbn [bind] in E2. eapply J_h_truncate; eassumption. }
  match type of H with bind ?X _ = _ => destruct X; [|discriminate] end. cbn [bind] in H. inversion H; subst.
  eapply J_trans; eassumption.
Qed.

(** * histories *)
Theorem wstep_J s s' : pre s -> wstep s s' -> J s s'.
Proof.
  intros Hp H. destruct H;
  eauto using J_op_create, J_op_makedir, J_op_remove, J_op_removedir, J_op_removetree, J_op_setinfo, J_op_openbin, J_h_write, J_h_truncate, J_h_close.
Qed.
Theorem history_J s s' : pre s -> clos_refl_trans st wstep s s' -> J s s'.
Proof.
  intros Hp H. apply clos_rt_rt1n in H. induction H as [|x y z Hxy Hyz IH]; [apply J_refl|].
  pose proof (wstep_J _ _ Hp Hxy) as J1. eapply J_trans; [exact J1|]. apply IH. eapply pre_J; eassumption.
Qed.

(** every device write of any history of interface calls lies winside the volume, behind the boot sector *)
Theorem history_writes_inside s s' : pre s -> clos_refl_trans st wstep s s' ->
  exists l, s_log s' = l ++ s_log s /\ Forall (fun w => 512 <= fst w /\ fst w + lenZ (snd w) <= total_sectors s * bps s) l.
Proof. intros Hp H. destruct (history_J _ _ Hp H) as (_ & _ & _ & _ & _ & _ & l & A & B). exists l. split; [exact A|exact B]. Qed.

(** what no history changes in the FAT: its length, the two reserved entries, every entry behind the last cluster, every
    bad-cluster mark and every other value that is neither free nor a link nor an end mark *)
Theorem history_fat_frame s s' : pre s -> clos_refl_trans st wstep s s' ->
  lenZ (s_fat s') = lenZ (s_fat s) /\ nthZ (s_fat s') 0 = nthZ (s_fat s) 0 /\ nthZ (s_fat s') 1 = nthZ (s_fat s) 1 /\
  (forall i, max_cluster s < i -> nthZ (s_fat s') i = nthZ (s_fat s) i) /\
  (forall i, 0 <= i -> nthZ (s_fat s) i = Gen.BAD_CLUSTER (ft s) -> nthZ (s_fat s') i = Gen.BAD_CLUSTER (ft s)) /\
  (forall i, 0 <= i -> nthZ (s_fat s) i <> 0 -> used_val (ft s) (dmax s) (nthZ (s_fat s) i) = false -> nthZ (s_fat s') i = nthZ (s_fat s) i).
Proof.
  intros Hp H. destruct (history_J _ _ Hp H) as (_ & _ & _ & _ & _ & [L C] & _).
  assert (Hkeep : forall i, 0 <= i -> ~ (2 <= i <= max_cluster s /\ was_ok (ft s) (dmax s) (nthZ (s_fat s) i)) -> nthZ (s_fat s') i = nthZ (s_fat s) i).
  { intros i Hi Hn. destruct (Z.eq_dec (nthZ (s_fat s') i) (nthZ (s_fat s) i)) as [E|E]; [exact E|]. exfalso. apply Hn. destruct (C i Hi E) as (R & W & _). split; assumption. }
  split; [exact L|]. split; [apply Hkeep; lia|]. split; [apply Hkeep; lia|]. split; [|split].
  - intros i Hi. destruct (Z_lt_le_dec i 0) as [Hn|Hn]; [|apply Hkeep; lia].
    unfold nthZ. replace (Z.to_nat i) with (Z.to_nat 0) by lia. apply (Hkeep 0); lia.
  - intros i Hi Hb. rewrite <- Hb. apply Hkeep; [exact Hi|]. intros [_ Hw]. rewrite Hb in Hw.
    destruct Hp as (Hv & _). exact (bad_not_ok _ _ Hv (dmax_dok _ Hv) Hw).
  - intros i Hi Hz Hu. apply Hkeep; [exact Hi|]. intros [_ [Hw|Hw]]; congruence.
Qed.

(** * mount and close: the dirty / clean marking writes the boot sector(s) and the FAT copies, nothing else *)
Definition within (s:st) (w:Z * list Z) : Prop := 0 <= fst w /\ fst w + lenZ (snd w) <= vol_end s.
Lemma fatW_within fs fb b N n : forall i, 0 <= fb -> lenZ b <= fb -> 0 <= i -> i + Z.of_nat n <= N ->
  Forall (fun w => fs <= fst w /\ fst w + lenZ (snd w) <= fs + N * fb) (fatW fs fb b i n).
Proof.
  induction n as [|k IH]; intros i Hfb Hb Hi Hn; cbn [fatW]; [constructor|]. apply Forall_app. split.
  - apply IH; lia.
  - constructor; [|constructor]. cbn [fst snd]. nia.
Qed.
Lemma pre_upd_fat1 s v h : pre s -> pre (upd_fat s (updZ (s_fat s) 1 v) h).
Proof.
  intros (Hv & Hg & Hl). split; [exact Hv|]. split; [exact Hg|].
  change (lenZ (pack_fat (ft s) (updZ (s_fat s) 1 v) (s_hi s)) <= fat_bytes s). unfold lenZ. rewrite (pack_fat_length (ft s) (updZ (s_fat s) 1 v) (s_fat s) (s_hi s)) by apply updZ_length. exact Hl.
Qed.
Lemma pre_set_reserved s v : pre s -> pre (upd_hdr s (set_reserved1 (s_h s) v)).
Proof. intros H. exact H. Qed.

Theorem mark_writes_within s f1 r1 s' : pre s -> hdr_wf (s_h s) ->
  (ft s = Gen.FAT_TYPE_FAT32 -> 0 <= BPB_BkBootSec (s_h s) * bps s /\ BPB_BkBootSec (s_h s) * bps s + 512 <= vol_end s) ->
  mark_shape s f1 r1 s' ->
  pre s' /\ vol_end s' = vol_end s /\ exists l, s_log s' = l ++ s_log s /\ Forall (within s) l.
Proof.
  intros Hp Hwf Hbk (WL & A1 & A2 & A3 & A4 & A5 & A6). cbv zeta in *.
  assert (Hve : vol_end s' = vol_end s) by (unfold vol_end, total_sectors, bps; rewrite A1; reflexivity).
  split; [|split; [exact Hve|]].
  - set (sa := match shutdown_mask (ft s) with Some m => upd_fat s (updZ (s_fat s) 1 (f1 (nthZ (s_fat s) 1) m)) (s_hint s) | None => s end).
    assert (Hpa : pre sa) by (unfold sa; destruct (shutdown_mask (ft s)); [apply pre_upd_fat1; exact Hp|exact Hp]).
    assert (Hfa : s_fat sa = s_fat s' /\ s_h sa = s_h s /\ s_p sa = s_p s /\ s_hi sa = s_hi s).
    { unfold sa. rewrite A2. destruct (shutdown_mask (ft s)); repeat split. }
    destruct Hfa as (F1 & F2 & F3 & F4).
    pose proof (pre_set_reserved sa (r1 (BS_Reserved1 (s_h s))) Hpa) as Hpb. rewrite F2 in Hpb.
    unfold pre, geo, ft, bps, bpc, fat_start, fat_bytes, root_addr, max_cluster, count_of_clusters, total_sectors, bps in *.
    cbn [s_h s_p s_fat s_hi upd_hdr] in Hpb. rewrite A1, A3, A4, <- F1. rewrite F3, F4 in Hpb. exact Hpb.
  - destruct WL as [WL _]. eexists. split; [exact WL|]. destruct Hp as (Hv & Hg & Hl).
    destruct (regions s Hg) as (R1 & R2 & R3). destruct Hg as (H1 & H2 & H3 & H4 & H5 & H6 & H7 & H8 & H9 & H10).
    assert (Hser : lenZ (ser_hdr (set_reserved1 (s_h s) (r1 (BS_Reserved1 (s_h s))))) <= 510).
    { unfold lenZ. rewrite ser_hdr_length_reserved. fold (lenZ (ser_hdr (s_h s))). rewrite (ser_hdr_length _ Hwf). destruct (is32hdr (s_h s)); lia. }
    assert (Hend : 512 <= vol_end s) by (unfold vol_end in *; nia).
    apply Forall_app. split.
    + unfold bpbW. apply Forall_app. split.
      * destruct (ft s =? Gen.FAT_TYPE_FAT32) eqn:E32; [|constructor]. assert (E : ft s = Gen.FAT_TYPE_FAT32) by lia. destruct (Hbk E) as [B1 B2].
        constructor; [unfold within; cbn [fst snd]; change (lenZ [85; 170]) with 2; lia|]. constructor; [|constructor]. unfold within. cbn [fst snd]. lia.
      * constructor; [unfold within; cbn [fst snd]; change (lenZ [85; 170]) with 2; lia|]. constructor; [|constructor]. unfold within. cbn [fst snd]. lia.
    + destruct (shutdown_mask (ft s)) as [m|]; [|constructor].
      eapply Forall_impl; [|apply (fatW_within (fat_start s) (fat_bytes s) _ (BPB_NumFATs (s_h s)) (Z.to_nat (BPB_NumFATs (s_h s))) 0 H5); [|lia|lia]].
      * intros w [Wa Wb]. unfold within, vol_end in *. split; nia.
      * unfold lenZ. rewrite (pack_fat_length (ft s) _ (s_fat s) (s_hi s)) by apply updZ_length. exact Hl.
Qed.

(** a whole read-write session: the dirty marking of the mount, any history of interface calls, the clean marking of
    close — every write lies winside the volume, and everything except the boot-sector copies lies behind byte 512 *)
Theorem session_writes_within s s1 s2 s3 : pre s -> hdr_wf (s_h s) ->
  (ft s = Gen.FAT_TYPE_FAT32 -> 0 <= BPB_BkBootSec (s_h s) * bps s /\ BPB_BkBootSec (s_h s) * bps s + 512 <= vol_end s) ->
  mark_dirty s = Ok s1 -> clos_refl_trans st wstep s1 s2 -> mark_clean s2 = Ok s3 ->
  exists l, s_log s3 = l ++ s_log s /\ Forall (within s) l.
Proof.
  intros Hp Hwf Hbk Hd Hh Hc.
  destruct (mark_writes_within s _ _ s1 Hp Hwf Hbk (mark_dirty_shape _ _ Hd)) as (Hp1 & V1 & l1 & L1 & W1).
  pose proof (history_J _ _ Hp1 Hh) as (A1 & A2 & A3 & A4 & A5 & A6 & l2 & L2 & W2).
  pose proof (pre_J _ _ Hp1 (history_J _ _ Hp1 Hh)) as Hp2.
  destruct (frame_eqs s1 s2 A1 A2) as (E1 & _ & _ & E4 & E5 & _).
  pose proof (mark_dirty_shape _ _ Hd) as (_ & B1 & _ & B3 & _).
  assert (Hwf2 : lenZ (ser_hdr (s_h s2)) = lenZ (ser_hdr (s_h s))).
  { rewrite A1, B1. unfold lenZ. rewrite ser_hdr_length_reserved. reflexivity. }
  (* the clean marking: same argument as [mark_writes_within], the header differs from a well-formed one only in BS_Reserved1 *)
  pose proof (mark_clean_shape _ _ Hc) as (WL & _). cbv zeta in WL. destruct WL as [WL _].
  eexists. split; [rewrite WL, L2, L1, !app_assoc; reflexivity|].
  assert (Hv2 : vol_end s2 = vol_end s) by congruence.
  destruct Hp2 as (Hv & Hg & Hl). destruct (regions s2 Hg) as (R1 & R2 & R3). destruct Hg as (H1 & H2 & H3 & H4 & H5 & H6 & H7 & H8 & H9 & H10).
  assert (Hend : 512 <= vol_end s2) by (unfold vol_end in *; nia).
  assert (Hser : lenZ (ser_hdr (set_reserved1 (s_h s2) (Z.land (BS_Reserved1 (s_h s2)) (Z.lnot Gen.FAT_DIRTY_BIT_MASK)))) <= 510).
  { unfold lenZ. rewrite ser_hdr_length_reserved. fold (lenZ (ser_hdr (s_h s2))). rewrite Hwf2, (ser_hdr_length _ Hwf). destruct (is32hdr (s_h s)); lia. }
  assert (Hft : ft s2 = ft s) by (unfold ft in *; rewrite A2, B3; reflexivity).
  assert (Hbk2 : BPB_BkBootSec (s_h s2) * bps s2 = BPB_BkBootSec (s_h s) * bps s) by (unfold bps; rewrite A1, B1; reflexivity).
  apply Forall_app; split; [apply Forall_app; split; [apply Forall_app; split|]|].
  - unfold bpbW. apply Forall_app. split.
    + destruct (ft s2 =? Gen.FAT_TYPE_FAT32) eqn:E32; [|constructor]. assert (E : ft s = Gen.FAT_TYPE_FAT32) by lia. destruct (Hbk E) as [C1 C2]. rewrite Hbk2.
      constructor; [unfold within; cbn [fst snd]; change (lenZ [85; 170]) with 2; lia|]. constructor; [|constructor]. unfold within. cbn [fst snd]. lia.
    + constructor; [unfold within; cbn [fst snd]; change (lenZ [85; 170]) with 2; lia|]. constructor; [|constructor]. unfold within. cbn [fst snd]. lia.
  - destruct (shutdown_mask (ft s2)) as [m|]; [|constructor].
    eapply Forall_impl; [|apply (fatW_within (fat_start s2) (fat_bytes s2) _ (BPB_NumFATs (s_h s2)) (Z.to_nat (BPB_NumFATs (s_h s2))) 0 H5); [|lia|lia]].
    + intros w [Wa Wb]. unfold within. rewrite <- Hv2. unfold vol_end in *. split; nia.
    + unfold lenZ. rewrite (pack_fat_length (ft s2) _ (s_fat s2) (s_hi s2)) by apply updZ_length. exact Hl.
  - eapply Forall_impl; [|exact W2]. intros w [Wa Wb]. unfold within. rewrite <- V1. split; lia.
  - exact W1.
Qed.

(** a decidable sufficient check of [tf] for concrete tables *)
Lemma tf_of_forallb M fat : 0 <= M -> forallb (fun v => v =? 0) (skipn (Z.to_nat (M + 1)) fat) = true -> tf M fat.
Proof.
  intros HM H i Hi. rewrite forallb_forall in H. unfold nthZ.
  replace (Z.to_nat i) with (Z.to_nat (M + 1) + (Z.to_nat i - Z.to_nat (M + 1)))%nat by lia. rewrite <- nth_skipn'.
  destruct (nth_in_or_default (Z.to_nat i - Z.to_nat (M + 1)) (skipn (Z.to_nat (M + 1)) fat) 0) as [Hn|Hn]; [|exact Hn].
  specialize (H _ Hn). lia.
Qed.

(** * [geo] is what [parse_header] computes: for a state whose geometry record is the one the (regenerated) [parse_header] derives from its boot
    sector, the region facts follow from elementary facts about the boot-sector fields *)
Theorem geo_of_header (s:st) :
  s_p s = set_bytes_per_cluster (Gen.parse_header_geometry pf_init (s_h s)) (BPB_BytsPerSec (s_h s) * BPB_SecPerClus (s_h s)) ->
  0 < BPB_BytsPerSec (s_h s) -> 0 < BPB_SecPerClus (s_h s) -> 512 <= BPB_RsvdSecCnt (s_h s) * BPB_BytsPerSec (s_h s) ->
  0 <= get_fat_size_count (s_h s) -> 0 <= BPB_NumFATs (s_h s) -> 0 <= BPB_RootEntCnt (s_h s) ->
  first_data_sector (s_p s) <= total_sectors s ->
  geo s.
Proof.
  intros Hp Hb Hc Hr Hf Hn He Ht. unfold geo, bpc, fat_start, fat_bytes, root_addr in *. unfold bps in *. rewrite Hp in *.
  unfold Gen.parse_header_geometry in *. cbv zeta in *.
  cbn [bytes_per_cluster root_dir_sector root_dir_sectors first_data_sector _fat_size set_bytes_per_cluster set_fat_type set_first_data_sector set_root_dir_sector
       set_root_dir_sectors set__fat_size pf_init] in *.
  set (F := get_fat_size_count (s_h s)) in *. set (B := BPB_BytsPerSec (s_h s)) in *. set (N := BPB_NumFATs (s_h s)) in *. set (R := BPB_RsvdSecCnt (s_h s)) in *.
  assert (Hrds : 0 <= (BPB_RootEntCnt (s_h s) * Gen.FAT_DIRECTORY_LAYOUT_size + (B - 1)) / B).
  { apply Z.div_pos; [|lia]. assert (Hsz : 0 <= Gen.FAT_DIRECTORY_LAYOUT_size) by (vm_compute; discriminate).
    pose proof (Z.mul_nonneg_nonneg _ _ He Hsz) as Hm. apply Z.add_nonneg_nonneg; [exact Hm|]. clear - Hb. unfold B in *. lia. }
  clear Hp. split; [lia|]. split; [lia|]. split; [ring|]. split; [lia|]. split; [apply Z.mul_nonneg_nonneg; lia|]. split; [lia|].
  split; [apply Z.eq_le_incl; ring|]. split; [exact Hrds|]. split; [apply Z.eq_le_incl; ring|exact Ht].
Qed.
