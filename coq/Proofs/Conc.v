(** C18 / C19: the locking protocol of the device layer as an interleaving model.
    Threads are resumption programs over the events the harness records on the real code
    (acquire / release of the one device lock, seek, read).  Any number of threads, any schedule.
    Theorem [readers_solo]: if every thread is well-locked (it seeks and reads only while it holds
    the lock, and every read follows a seek of the same locked section) then under EVERY schedule
    each thread that finishes returns exactly its solo result; [mutex]: at most one thread is ever
    inside a locked section (what makes a section that runs entirely under the lock atomic, C19). *)
From Coq Require Import ZArith List Bool Lia.
Import ListNotations.
Open Scope Z_scope.

Inductive prog :=
| Ret (r:list Z)
| DoAcq (k:prog)
| DoRel (k:prog)
| DoSeek (a:Z) (k:prog)
| DoRead (k:Z -> prog).

Inductive lstate := U | L | LS (a:Z).       (* unlocked / locked / locked and positioned at a *)

Section Device.
Variable dev : Z -> Z.                      (* the device contents: constant while only readers run *)

(** what a thread returns when it runs alone *)
Fixpoint solo (st:lstate) (p:prog) : option (list Z) :=
  match p with
  | Ret r => Some r
  | DoAcq k => solo L k
  | DoRel k => solo U k
  | DoSeek a k => solo (LS a) k
  | DoRead k => match st with LS a => solo st (k (dev a)) | _ => None end
  end.

(** well-locked along the path the constant device makes the thread take *)
Fixpoint wl (st:lstate) (p:prog) : Prop :=
  match p with
  | Ret _ => st = U
  | DoAcq k => st = U /\ wl L k
  | DoRel k => st <> U /\ wl U k
  | DoSeek a k => st <> U /\ wl (LS a) k
  | DoRead k => match st with LS a => wl st (k (dev a)) | _ => False end
  end.

Record glob := { owner : option nat; pos : Z; thr : nat -> prog * lstate }.
Definition upd (f:nat -> prog * lstate) (i:nat) (v:prog * lstate) : nat -> prog * lstate :=
  fun j => if Nat.eqb j i then v else f j.

(** one step of thread [i]; [None] = the thread cannot move (finished, or blocked on the lock) *)
Definition step (g:glob) (i:nat) : option glob :=
  let '(p, st) := thr g i in
  match p with
  | Ret _ => None
  | DoAcq k => match owner g with
               | None => Some {| owner := Some i; pos := pos g; thr := upd (thr g) i (k, L) |}
               | Some _ => None
               end
  | DoRel k => Some {| owner := None; pos := pos g; thr := upd (thr g) i (k, U) |}
  | DoSeek a k => Some {| owner := owner g; pos := a; thr := upd (thr g) i (k, LS a) |}
  | DoRead k => Some {| owner := owner g; pos := pos g; thr := upd (thr g) i (k (dev (pos g)), st) |}
  end.

(** a schedule is any list of thread ids; a scheduled thread that cannot move is skipped *)
Fixpoint run (g:glob) (sched:list nat) : glob :=
  match sched with
  | [] => g
  | i :: r => match step g i with Some g' => run g' r | None => run g r end
  end.

Definition Inv (res:nat -> option (list Z)) (g:glob) : Prop :=
  forall i, let '(p, st) := thr g i in
    wl st p /\ solo st p = res i /\
    (st <> U <-> owner g = Some i) /\
    (forall a, st = LS a -> pos g = a).

Lemma step_inv res g i g' : Inv res g -> step g i = Some g' -> Inv res g'.
Proof.
  intros HI Hs. unfold step in Hs. pose proof (HI i) as Hi.
  destruct (thr g i) as [p st] eqn:Ei.
  destruct Hi as (Hw & Hr & Ho & Hp).
  destruct p as [r|k|k|a k|k]; try discriminate.
  - (* acquire *)
    destruct (owner g) eqn:Eo; [discriminate|]. inversion Hs; subst g'; clear Hs.
    cbn [wl] in Hw. destruct Hw as [-> Hw]. cbn [solo] in Hr.
    intros j. cbn [thr owner pos]. unfold upd. destruct (Nat.eqb j i) eqn:Ej.
    + apply Nat.eqb_eq in Ej. subst j. repeat split; auto; try discriminate; try (intros; discriminate).
    + apply Nat.eqb_neq in Ej. pose proof (HI j) as Hj. destruct (thr g j) as [pj sj]. destruct Hj as (A & B & C & D).
      repeat split; auto;
        try (intros Hn; apply C in Hn; congruence);
        try (intros Hn; inversion Hn; congruence);
        try (apply C);
        try (intros b Hb; exfalso; assert (Hx : sj <> U) by (rewrite Hb; discriminate); apply C in Hx; congruence).
  - (* release *)
    inversion Hs; subst g'; clear Hs. cbn [wl] in Hw. destruct Hw as [Hne Hw]. cbn [solo] in Hr.
    assert (Hown : owner g = Some i) by (apply Ho; exact Hne).
    intros j. cbn [thr owner pos]. unfold upd. destruct (Nat.eqb j i) eqn:Ej.
    + apply Nat.eqb_eq in Ej. subst j. repeat split; auto; try congruence; try (intros; discriminate).
    + apply Nat.eqb_neq in Ej. pose proof (HI j) as Hj. destruct (thr g j) as [pj sj]. destruct Hj as (A & B & C & D).
      repeat split; auto;
        try (intros Hn; apply C in Hn; congruence);
        try (intros Hn; inversion Hn; congruence);
        try discriminate;
        try (intros b Hb; exfalso; assert (Hx : sj <> U) by (rewrite Hb; discriminate); apply C in Hx; congruence).
  - (* seek *)
    inversion Hs; subst g'; clear Hs. cbn [wl] in Hw. destruct Hw as [Hne Hw]. cbn [solo] in Hr.
    assert (Hown : owner g = Some i) by (apply Ho; exact Hne).
    intros j. cbn [thr owner pos]. unfold upd. destruct (Nat.eqb j i) eqn:Ej.
    + apply Nat.eqb_eq in Ej. subst j. repeat split; auto; try discriminate. intros b Hb. inversion Hb. reflexivity.
    + apply Nat.eqb_neq in Ej. pose proof (HI j) as Hj. destruct (thr g j) as [pj sj]. destruct Hj as (A & B & C & D).
      repeat split; auto;
        try (intros Hn; apply C in Hn; congruence);
        try (intros Hn; inversion Hn; congruence);
        try (apply C);
        try (intros b Hb; exfalso; assert (Hx : sj <> U) by (rewrite Hb; discriminate); apply C in Hx; congruence).
  - (* read: the device position is the one this thread set *)
    inversion Hs; subst g'; clear Hs. cbn [wl solo] in Hw, Hr.
    destruct st as [| |a]; try contradiction.
    assert (Hpos : pos g = a) by (apply Hp; reflexivity).
    intros j. cbn [thr owner pos]. unfold upd. destruct (Nat.eqb j i) eqn:Ej.
    + apply Nat.eqb_eq in Ej. subst j. rewrite Hpos. repeat split; auto; try apply Ho. intros a0 Ha0. inversion Ha0. reflexivity.
    + pose proof (HI j) as Hj. destruct (thr g j) as [pj sj]. exact Hj.
Qed.

Lemma run_inv res sched : forall g, Inv res g -> Inv res (run g sched).
Proof.
  induction sched as [|i r IH]; intros g HI; cbn [run]; [exact HI|].
  destruct (step g i) as [g'|] eqn:E; [apply IH; eapply step_inv; eauto | apply IH; exact HI].
Qed.

(** initial state: nobody holds the lock, every thread at the start of a well-locked program *)
Definition init (progs:nat -> prog) (p0:Z) : glob := {| owner := None; pos := p0; thr := fun i => (progs i, U) |}.

Theorem readers_solo progs p0 sched i r :
  (forall j, wl U (progs j)) ->
  fst (thr (run (init progs p0) sched) i) = Ret r ->
  solo U (progs i) = Some r.
Proof.
  intros Hwl Hfin.
  assert (HI : Inv (fun j => solo U (progs j)) (init progs p0)).
  { intros j. cbn. repeat split; auto; try congruence; try (intros; discriminate). }
  pose proof (run_inv _ sched _ HI i) as H.
  destruct (thr (run (init progs p0) sched) i) as [p st]. cbn [fst] in Hfin. subst p.
  destruct H as (_ & Hs & _). cbn [solo] in Hs. congruence.
Qed.

(** mutual exclusion: at most one thread is inside a locked section *)
Theorem mutex progs p0 sched i j :
  (forall k, wl U (progs k)) ->
  snd (thr (run (init progs p0) sched) i) <> U -> snd (thr (run (init progs p0) sched) j) <> U -> i = j.
Proof.
  intros Hwl Hi Hj.
  assert (HI : Inv (fun k => solo U (progs k)) (init progs p0)).
  { intros k. cbn. repeat split; auto; try congruence; try (intros; discriminate). }
  pose proof (run_inv _ sched _ HI) as H.
  pose proof (H i) as A. pose proof (H j) as B.
  destruct (thr (run (init progs p0) sched) i) as [pi si]. destruct (thr (run (init progs p0) sched) j) as [pj sj]. cbn [snd] in *.
  destruct A as (_ & _ & A & _). destruct B as (_ & _ & B & _). apply A in Hi. apply B in Hj. congruence.
Qed.
End Device.

(** non-vacuity: a reader in the shape of read_cluster_contents (acquire, seek, read, release) is well-locked and
    two of them interleaved arbitrarily both return the device contents at their own address *)
Definition read_at (a:Z) : prog := DoAcq (DoSeek a (DoRead (fun v => DoRel (Ret [v])))).
Example read_at_wl dev a : wl dev U (read_at a).
Proof. cbn. repeat split; congruence. Qed.
Example two_readers_example :
  let dev := fun a => a * 7 in
  let g := run dev (init (fun i => read_at (Z.of_nat i + 10)) 0) [0%nat; 1%nat; 0%nat; 0%nat; 1%nat; 0%nat; 1%nat; 1%nat; 1%nat; 1%nat] in
  fst (thr g 0%nat) = Ret [70] /\ fst (thr g 1%nat) = Ret [77].
Proof. vm_compute. split; reflexivity. Qed.
