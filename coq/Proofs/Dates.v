(** C20 (date / time words) and the bit-layout facts C06/C17 reuse.  All statements are about the
    GENERATED definitions [Gen.serialize_date] etc., i.e. about what /repo's DosDateTime.py says now.
    The domains are finite (65 536 words; 128 x 16 x 32 field triples), enumerated completely inside
    the kernel by [vm_compute] and lifted by [allbits_spec]: a proof with the bound in the statement. *)
From Coq Require Import ZArith List Bool Lia.
From PyFatV Require Import Base.Bytes Base.PyEnv Base.Sweep Gen.Pure.
Open Scope Z_scope.

(** the specification's field layout of a date word, written arithmetically *)
Definition fld_year (w:Z) := w / 512 + 1980.
Definition fld_month (w:Z) := (w / 32) mod 16.
Definition fld_day (w:Z) := w mod 32.
Definition spec_date_word (y m d:Z) := (y - 1980) * 512 + m * 32 + d.
Definition fld_hour (w:Z) := w / 2048.
Definition fld_min (w:Z) := (w / 32) mod 64.
Definition fld_sec (w:Z) := (w mod 32) * 2.
Definition spec_time_word (h mi s:Z) := h * 2048 + mi * 32 + s / 2.

Definition eq3 (a b : Z*Z*Z) : bool :=
  let '(a1,a2,a3) := a in let '(b1,b2,b3) := b in (a1 =? b1) && (a2 =? b2) && (a3 =? b3).
Lemma eq3_spec a b : eq3 a b = true -> a = b.
Proof. destruct a as [[a1 a2] a3], b as [[b1 b2] b3]. unfold eq3.
  rewrite !andb_true_iff, !Z.eqb_eq. intros [[-> ->] ->]. reflexivity. Qed.

(** ** decode then encode, all 65 536 date words *)
Definition chk_date_word (w:Z) : bool :=
  let '(y,m,d) := Gen.deserialize_date w in
  valid_date y m d && (1980 <=? y) && (y <=? 2107) &&
  (if valid_date (fld_year w) (fld_month w) (fld_day w)
   then eq3 (y,m,d) (fld_year w, fld_month w, fld_day w) && (Gen.serialize_date y m d =? w)
   else eq3 (y,m,d) (1980,1,1)).
Lemma all_date_words : allbits 16 chk_date_word = true.
Proof. vm_compute. reflexivity. Qed.

Theorem date_word_decode w : 0 <= w < 65536 ->
  let '(y,m,d) := Gen.deserialize_date w in
  valid_date y m d = true /\ 1980 <= y <= 2107 /\
  (valid_date (fld_year w) (fld_month w) (fld_day w) = true ->
     (y,m,d) = (fld_year w, fld_month w, fld_day w) /\ Gen.serialize_date y m d = w) /\
  (valid_date (fld_year w) (fld_month w) (fld_day w) = false -> (y,m,d) = (1980,1,1)).
Proof.
  intros Hw. pose proof (allbits_spec 16 _ all_date_words w Hw) as H. unfold chk_date_word in H.
  destruct (Gen.deserialize_date w) as [[y m] d].
  rewrite !andb_true_iff in H. destruct H as [[[Hv Hlo] Hhi] Hc].
  split; [exact Hv|]. split; [apply Z.leb_le in Hlo; apply Z.leb_le in Hhi; lia|].
  destruct (valid_date (fld_year w) (fld_month w) (fld_day w)); split; intros E; try discriminate.
  - apply andb_true_iff in Hc. destruct Hc as [H1 H2]. split; [apply eq3_spec; exact H1 | apply Z.eqb_eq; exact H2].
  - apply eq3_spec; exact Hc.
Qed.

(** ** encode then decode, all field triples year 1980..2107, month 0..15, day 0..31 *)
Definition chk_date_triple (y' m d:Z) : bool :=
  let y := y' + 1980 in
  if valid_date y m d
  then (Gen.serialize_date y m d =? spec_date_word y m d) && eq3 (Gen.deserialize_date (Gen.serialize_date y m d)) (y,m,d)
  else true.
Lemma all_date_triples : allbits 7 (fun y => allbits 4 (fun m => allbits 5 (fun d => chk_date_triple y m d))) = true.
Proof. vm_compute. reflexivity. Qed.

Theorem date_encode_decode y m d : 1980 <= y <= 2107 -> valid_date y m d = true ->
  Gen.serialize_date y m d = spec_date_word y m d /\ Gen.deserialize_date (Gen.serialize_date y m d) = (y,m,d).
Proof.
  intros Hy Hv.
  assert (Hm: 0 <= m < 16 /\ 0 <= d < 32).
  { unfold valid_date in Hv. rewrite !andb_true_iff, !Z.leb_le in Hv.
    assert (days_in_month y m <= 31) by (unfold days_in_month; repeat destruct (_ =? _); simpl; try destruct (is_leap y); lia). lia. }
  pose proof (allbits_spec 7 _ all_date_triples (y - 1980) ltac:(simpl; lia)) as H1. cbv beta in H1.
  pose proof (allbits_spec 4 _ H1 m ltac:(simpl; lia)) as H2. cbv beta in H2.
  pose proof (allbits_spec 5 _ H2 d ltac:(simpl; lia)) as H3. cbv beta in H3.
  unfold chk_date_triple in H3. replace (y - 1980 + 1980) with y in H3 by lia. rewrite Hv in H3.
  apply andb_true_iff in H3. destruct H3 as [A B]. split; [apply Z.eqb_eq; exact A | apply eq3_spec; exact B].
Qed.

(** ** time words *)
Definition chk_time_word (w:Z) : bool :=
  let '(h,mi,s) := Gen.deserialize_time w in
  valid_time h mi s && (s mod 2 =? 0) &&
  (if valid_time (fld_hour w) (fld_min w) (fld_sec w)
   then eq3 (h,mi,s) (fld_hour w, fld_min w, fld_sec w) && (Gen.serialize_time h mi s =? w)
   else eq3 (h,mi,s) (0,0,0)).
Lemma all_time_words : allbits 16 chk_time_word = true.
Proof. vm_compute. reflexivity. Qed.

Theorem time_word_decode w : 0 <= w < 65536 ->
  let '(h,mi,s) := Gen.deserialize_time w in
  valid_time h mi s = true /\ s mod 2 = 0 /\
  (valid_time (fld_hour w) (fld_min w) (fld_sec w) = true ->
     (h,mi,s) = (fld_hour w, fld_min w, fld_sec w) /\ Gen.serialize_time h mi s = w) /\
  (valid_time (fld_hour w) (fld_min w) (fld_sec w) = false -> (h,mi,s) = (0,0,0)).
Proof.
  intros Hw. pose proof (allbits_spec 16 _ all_time_words w Hw) as H. unfold chk_time_word in H.
  destruct (Gen.deserialize_time w) as [[h mi] s].
  rewrite !andb_true_iff in H. destruct H as [[Hv He] Hc].
  split; [exact Hv|]. split; [apply Z.eqb_eq; exact He|].
  destruct (valid_time (fld_hour w) (fld_min w) (fld_sec w)); split; intros E; try discriminate.
  - apply andb_true_iff in Hc. destruct Hc as [H1 H2]. split; [apply eq3_spec; exact H1 | apply Z.eqb_eq; exact H2].
  - apply eq3_spec; exact Hc.
Qed.

Definition chk_time_triple (h mi s:Z) : bool :=
  if valid_time h mi s
  then (Gen.serialize_time h mi s =? spec_time_word h mi s) &&
       eq3 (Gen.deserialize_time (Gen.serialize_time h mi s)) (h, mi, s - s mod 2)
  else true.
Lemma all_time_triples : allbits 5 (fun h => allbits 6 (fun mi => allbits 6 (fun s => chk_time_triple h mi s))) = true.
Proof. vm_compute. reflexivity. Qed.

Theorem time_encode_decode h mi s : valid_time h mi s = true ->
  Gen.serialize_time h mi s = spec_time_word h mi s /\
  Gen.deserialize_time (Gen.serialize_time h mi s) = (h, mi, s - s mod 2).
Proof.
  intros Hv. pose proof Hv as Hr. unfold valid_time in Hr. rewrite !andb_true_iff, !Z.leb_le, !Z.ltb_lt in Hr.
  pose proof (allbits_spec 5 _ all_time_triples h ltac:(simpl; lia)) as H1. cbv beta in H1.
  pose proof (allbits_spec 6 _ H1 mi ltac:(simpl; lia)) as H2. cbv beta in H2.
  pose proof (allbits_spec 6 _ H2 s ltac:(simpl; lia)) as H3. cbv beta in H3.
  unfold chk_time_triple in H3. rewrite Hv in H3.
  apply andb_true_iff in H3. destruct H3 as [A B]. split; [apply Z.eqb_eq; exact A | apply eq3_spec; exact B].
Qed.

(** non-vacuity: a concrete word in each class *)
Example date_word_example : Gen.deserialize_date 22585 = (2024, 1, 25) /\ Gen.deserialize_date 65535 = (1980,1,1).
Proof. vm_compute. split; reflexivity. Qed.
