(** State level, file data: bytes written through a cluster chain are the bytes read back from it, the bytes behind
    them in the last cluster written and every other cluster keep their contents. *)
From Coq Require Import ZArith List Bool Lia ZifyBool Sorted.
From PyFatV Require Import Base.Bytes Base.Sweep Base.PyEnv Gen.Pure Model.Codec Model.Dir Model.FS Proofs.FatTable Proofs.Device Proofs.DirCodec Proofs.DirState Proofs.Chains.
Import ListNotations.
Open Scope Z_scope.

(** a write shorter than the range read: the written bytes, then what was there *)
Lemma read_prefix_write d sz off data L : dev_ok d -> 0 <= off -> lenZ data <= L -> off + L <= sz ->
  dread (dwrite d off data) sz off L = data ++ skipn (length data) (dread d sz off L).
Proof.
  intros Hd Ho HL Hs. destruct (dwrite_spec d off data Hd Ho) as [Hd' Hb].
  rewrite !dread_spec by assumption. replace (Z.to_nat (Z.min L (sz - off))) with (length data + (Z.to_nat L - length data))%nat by (unfold lenZ in *; lia).
  rewrite zrange_app, !map_app. rewrite skipn_app, map_length, zrange_length, Nat.sub_diag.
  rewrite skipn_all2 by (rewrite map_length, zrange_length; lia). cbn [skipn app]. f_equal.
  - symmetry. apply list_as_map. intros i Hi. rewrite Hb by lia.
    replace ((off <=? off + Z.of_nat i) && (off + Z.of_nat i <? off + lenZ data)) with true by (unfold lenZ; lia). unfold nthZ. f_equal. lia.
  - apply map_ext_in. intros a Ha.
    assert (off + Z.of_nat (length data) <= a).
    { clear - Ha. revert Ha. generalize (off + Z.of_nat (length data)). generalize (Z.to_nat L - length data)%nat. intros n. induction n as [|m IH]; intros o H; [destruct H|].
      cbn [zrange] in H. destruct H as [<-|H]; [lia|]. apply IH in H. lia. }
    rewrite Hb by lia. destruct (_ && _) eqn:E; [unfold lenZ in *; lia|reflexivity].
Qed.

Lemma rd_length s c : dev_ok (s_dev s) -> geom_ok s -> inside s c -> length (rd s (cluster_addr s c) (bpc s)) = Z.to_nat (bpc s).
Proof.
  intros Hd G [H2 Hfit]. unfold rd. rewrite dread_spec by (try assumption; apply cluster_addr_nonneg; assumption).
  rewrite map_length, zrange_length. lia.
Qed.
Lemma read_chain_length s cs : dev_ok (s_dev s) -> geom_ok s -> Forall (inside s) cs -> length (read_chain s cs) = (length cs * Z.to_nat (bpc s))%nat.
Proof.
  intros Hd G. induction cs as [|c r IH]; intros H; [reflexivity|]. inversion H; subst. unfold read_chain in *. cbn [flat_map length].
  rewrite app_length, IH, rd_length by assumption. lia.
Qed.

(** [write_chunks] with any amount of data that fits the chain *)
Lemma write_chunks_gen cs : forall s data s',
  dev_ok (s_dev s) -> geom_ok s -> NoDup cs -> Forall (inside s) cs ->
  (length data <= length cs * Z.to_nat (bpc s))%nat ->
  write_chunks s cs data = Ok s' ->
  (exists d l, s' = upd_dev s d l) /\ dev_ok (s_dev s') /\
  read_chain s' cs = data ++ skipn (length data) (read_chain s cs) /\
  (forall c, 2 <= c -> ~ In c cs -> rd s' (cluster_addr s c) (bpc s) = rd s (cluster_addr s c) (bpc s)).
Proof.
  induction cs as [|c r IH]; intros s data s' Hd G Hnd Hin Hlen Hw.
  - cbn in Hw. inversion Hw; subst. destruct data; [|cbn in Hlen; lia]. split; [exists (s_dev s'), (s_log s'); destruct s'; reflexivity|]. auto.
  - cbn [write_chunks] in Hw. cbv zeta in Hw. set (n := Z.to_nat (bpc s)) in *.
    assert (Hn : (0 < n)%nat) by (destruct G as (H1 & H2 & _ & H4 & _); unfold n; nia).
    inversion Hnd as [|? ? Hnc Hndr]; subst. inversion Hin as [|? ? Hc Hr]; subst. pose proof Hc as [Hc2 Hcin].
    destruct (write_at s (cluster_addr s c) (firstn n data)) as [s1|] eqn:E1; [|discriminate]. cbn [bind] in Hw.
    apply write_at_ok in E1. destruct E1 as [_ E1].
    assert (Hca : 0 <= cluster_addr s c) by (apply cluster_addr_nonneg; assumption).
    assert (Hd1 : dev_ok (s_dev s1)) by (subst s1; cbn [s_dev upd_dev]; apply dwrite_spec; assumption).
    assert (Hrd1 : rd s1 (cluster_addr s c) (bpc s) = firstn n data ++ skipn (length (firstn n data)) (rd s (cluster_addr s c) (bpc s))).
    { subst s1. unfold rd. cbn [s_dev s_dsize upd_dev]. apply read_prefix_write; try assumption. unfold lenZ. rewrite firstn_length. lia. }
    assert (Hfr1 : forall c', 2 <= c' -> c' <> c -> rd s1 (cluster_addr s c') (bpc s) = rd s (cluster_addr s c') (bpc s)).
    { intros c' H2 Hne. subst s1. unfold rd. cbn [s_dev s_dsize upd_dev]. apply read_elsewhere; [assumption|assumption|apply cluster_addr_nonneg; assumption|].
      assert (lenZ (firstn n data) <= bpc s) by (unfold lenZ; rewrite firstn_length; lia).
      destruct (cluster_addr_disjoint s c c' G ltac:(congruence)); lia. }
    assert (Hrc1 : read_chain s1 r = read_chain s r).
    { unfold read_chain.
      clear - Hfr1 Hr Hnc E1. induction r as [|x r' IHr]; [reflexivity|]. cbn [flat_map]. inversion Hr as [|? ? [Hx2 _] Hr']; subst.
      replace (cluster_addr (upd_dev s _ _) x) with (cluster_addr s x) by reflexivity. replace (bpc (upd_dev s _ _)) with (bpc s) by reflexivity.
      rewrite Hfr1 by (try assumption; intro; subst; apply Hnc; left; reflexivity). f_equal.
      apply IHr; [|exact Hr']. intro Hi. apply Hnc. right. exact Hi. }
    assert (Hlc : length (rd s (cluster_addr s c) (bpc s)) = n) by (apply rd_length; assumption).
    destruct (length data <=? n)%nat eqn:Elast.
    + apply Nat.leb_le in Elast. inversion Hw; subst s'. clear Hw.
      split; [exists (dwrite (s_dev s) (cluster_addr s c) (firstn n data)), ((cluster_addr s c, firstn n data) :: s_log s); exact E1|].
      split; [exact Hd1|]. split.
      * change (read_chain s1 (c :: r)) with (rd s1 (cluster_addr s1 c) (bpc s1) ++ read_chain s1 r).
        change (read_chain s (c :: r)) with (rd s (cluster_addr s c) (bpc s) ++ read_chain s r).
        replace (cluster_addr s1 c) with (cluster_addr s c) by (subst s1; reflexivity). replace (bpc s1) with (bpc s) by (subst s1; reflexivity).
        rewrite Hrd1, Hrc1. rewrite firstn_all2 by exact Elast. rewrite skipn_app, <- app_assoc. f_equal. f_equal.
        replace (length data - length (rd s (cluster_addr s c) (bpc s)))%nat with 0%nat by lia. reflexivity.
      * intros c' H2 Hni. apply Hfr1; [exact H2|]. intro; subst; apply Hni; left; reflexivity.
    + apply Nat.leb_gt in Elast.
      assert (G1 : geom_ok s1) by (subst s1; exact G).
      assert (Hin1 : Forall (inside s1) r) by (subst s1; exact Hr).
      assert (Hlen1 : (length (skipn n data) <= length r * Z.to_nat (bpc s1))%nat).
      { rewrite skipn_length. replace (bpc s1) with (bpc s) by (subst s1; reflexivity). cbn [length] in Hlen. fold n. lia. }
      destruct (IH s1 (skipn n data) s' Hd1 G1 Hndr Hin1 Hlen1 Hw) as ((d & l & Es') & Hd' & Hrc & Hfr).
      assert (Ea1 : forall x, cluster_addr s1 x = cluster_addr s x) by (intros; rewrite E1; reflexivity).
      assert (Eb1 : bpc s1 = bpc s) by (rewrite E1; reflexivity).
      assert (Ea : forall x, cluster_addr s' x = cluster_addr s x) by (intros; rewrite Es', E1; reflexivity).
      assert (Eb : bpc s' = bpc s) by (rewrite Es', E1; reflexivity).
      split; [exists d, l; rewrite Es', E1; reflexivity|]. split; [exact Hd'|]. split.
      * change (read_chain s' (c :: r)) with (rd s' (cluster_addr s' c) (bpc s') ++ read_chain s' r).
        change (read_chain s (c :: r)) with (rd s (cluster_addr s c) (bpc s) ++ read_chain s r).
        rewrite Hrc, Hrc1, Ea, Eb. specialize (Hfr c Hc2 Hnc). rewrite Ea1, Eb1 in Hfr. rewrite Hfr, Hrd1.
        rewrite firstn_length, Nat.min_l by lia.
        rewrite (skipn_all2 (rd s (cluster_addr s c) (bpc s))) by lia. rewrite app_nil_r.
        rewrite skipn_length, skipn_app, Hlc.
        rewrite (skipn_all2 (rd s (cluster_addr s c) (bpc s))) by lia. cbn [app].
        rewrite app_assoc, firstn_skipn. reflexivity.
      * intros c' H2 Hni. specialize (Hfr c' H2 ltac:(intro; apply Hni; right; assumption)). rewrite Ea1, Eb1 in Hfr. rewrite Hfr.
        apply Hfr1; [exact H2|]. intro; subst; apply Hni; left; reflexivity.
Qed.

(** * where the writes go (C08 / C12): every device write of a data write addresses a cluster of the (extended) chain *)
Lemma write_chunks_log cs : forall s data s', 0 <= bpc s -> write_chunks s cs data = Ok s' ->
  exists l, s_log s' = l ++ s_log s /\
    Forall (fun w => exists c, In c cs /\ fst w = cluster_addr s c /\ lenZ (snd w) <= bpc s) l.
Proof.
  induction cs as [|c r IH]; intros s data s' HB H.
  - inversion H; subst. exists []. split; [reflexivity|constructor].
  - cbn [write_chunks] in H. cbv zeta in H. destruct (write_at _ _ _) as [s1|] eqn:E; [|discriminate]. cbn [bind] in H.
    apply write_at_ok in E. destruct E as [_ E].
    assert (Hw : exists c0, In c0 (c :: r) /\ fst (cluster_addr s c, firstn (Z.to_nat (bpc s)) data) = cluster_addr s c0 /\
                   lenZ (snd (cluster_addr s c, firstn (Z.to_nat (bpc s)) data)) <= bpc s).
    { exists c. split; [left; reflexivity|]. split; [reflexivity|]. cbn [snd]. unfold lenZ. rewrite firstn_length. lia. }
    destruct (_ <=? _)%nat.
    + inversion H; subst s'. exists [(cluster_addr s c, firstn (Z.to_nat (bpc s)) data)]. subst s1. split; [reflexivity|]. constructor; [exact Hw|constructor].
    + apply IH in H; [|subst s1; exact HB]. destruct H as (l & Hl & Hf).
      exists (l ++ [(cluster_addr s c, firstn (Z.to_nat (bpc s)) data)]). split.
      * rewrite Hl, E. cbn [s_log upd_dev]. rewrite <- app_assoc. reflexivity.
      * apply Forall_app. split; [|constructor; [exact Hw|constructor]].
        eapply Forall_impl; [|exact Hf]. cbv beta. intros w (c0 & Hc0 & Ha & Hb). exists c0. subst s1. split; [right; exact Hc0|]. split; assumption.
Qed.


(** [write_data_to_cluster] without erase (file data): the chain grows by exactly the clusters the allocator hands out
    (free ones), the data is what the chain now holds from its start, everything behind it and every other cluster
    keeps its contents *)
Theorem wdc_file_data s data c s' ch :
  dev_ok (s_dev s) -> geom_ok s -> vt (ft s) -> 0 <= s_hint s ->
  chain s c = (ch, true) -> Forall (inside s) ch -> vol_ok s ->
  write_data_to_cluster s data c false = Ok s' ->
  exists new, chain s' c = (ch ++ new, true) /\ Forall (inside s) (ch ++ new) /\
    Forall (fun x => 2 <= x <= Gen.MAX_DATA_CLUSTER (ft s) /\ x < lenZ (s_fat s) /\ nthZ (s_fat s) x = 0) new /\ StronglySorted Z.lt new /\
    s_fat s' = (if (length new =? 0)%nat then s_fat s else updZ (link_chain (s_fat s) new (Gen.END_OF_CLUSTER_MAX (ft s))) (last ch 0) (hd 0 new)) /\
    same_geo s s' /\
    read_chain s' (ch ++ new) = data ++ skipn (length data) (read_chain s (ch ++ new)) /\
    (forall c', 2 <= c' -> ~ In c' (ch ++ new) -> rd s' (cluster_addr s c') (bpc s) = rd s (cluster_addr s c') (bpc s)) /\
    (exists l, s_log s' = l ++ s_log s /\
       Forall (fun w => exists x, In x (ch ++ new) /\ fst w = cluster_addr s x /\ lenZ (snd w) <= bpc s) l).
Proof.
  intros Hd G Hv Hh Hch Hin Hvol Hw.
  destruct (vt_consts _ Hv) as (Hmin & Hfree & Hmax & _).
  assert (HB : 0 < bpc s) by (destruct G as (G1 & G2 & _ & G4 & _); nia).
  unfold write_data_to_cluster in Hw. destruct (s_ro s) eqn:Ero; [discriminate|]. rewrite Hch in Hw. cbv zeta in Hw.
  pose proof (ceil_div_covers (lenZ data) (bpc s) HB) as Hcov.
  assert (Hch1' : 1 <= lenZ ch).
  { pose proof (chain_go_nonempty _ _ _ _ _ _ Hch). destruct ch; [congruence|unfold lenZ; cbn [length]; lia]. }
  destruct (Z.max 1 (ceil_div (lenZ data) (bpc s)) <=? lenZ ch) eqn:En.
  - cbn [bind] in Hw. rewrite Hch in Hw.
    assert (Hnd : NoDup ch) by (eapply chain_go_nodup; exact Hch).
    destruct (write_chunks_gen ch s data s' Hd G Hnd Hin ltac:(unfold lenZ in *; nia) Hw) as ((d & l & Es') & Hd' & Hrc & Hfr).
    exists []. rewrite app_nil_r. split; [rewrite Es'; exact Hch|]. split; [exact Hin|]. split; [constructor|]. split; [constructor|].
    split; [rewrite Es'; reflexivity|]. split; [rewrite Es'; repeat split|]. split; [exact Hrc|]. split; [exact Hfr|].
    apply (write_chunks_log ch s data); [lia|exact Hw].
  - cbn [negb] in Hw. destruct (allocate s (lenZ data - lenZ ch * bpc s) false) as [[new s2]|] eqn:Ea; [|discriminate]. cbn [bind] in Hw.
    destruct (allocate_sound _ _ _ _ _ Hh Ea) as [(Hn & Hs & Hf)|?]; [|lia].
    pose proof (allocate_fat _ _ _ _ _ Ea) as Hfat.
    destruct (allocate_dev _ _ _ _ _ Hd G Hh ltac:(lia) Ea) as [Hd2 Hg2]. destruct (same_geo_facts _ _ Hg2) as (Ea2 & Eb2 & Et2 & Gg2 & Ins2).
    assert (Hdev2 : s_dev s2 = s_dev s /\ s_dsize s2 = s_dsize s /\ s_log s2 = s_log s).
    { unfold allocate in Ea. rewrite Ero in Ea. destruct (alloc_scan _ _ _ _ _ _). destruct (negb _); [discriminate|]. inversion Ea; subst. repeat split; reflexivity. }
    set (s1 := upd_fat s2 (updZ (s_fat s2) (last ch 0) (hd 0 new)) (s_hint s2)) in *.
    assert (Hbig : lenZ ch * bpc s < lenZ data).
    { destruct (Z_lt_dec (lenZ ch * bpc s) (lenZ data)) as [?|Hnl]; [assumption|]. pose proof (ceil_div_le (lenZ data) (bpc s) (lenZ ch) HB ltac:(lia)). lia. }
    assert (Hnn : 1 <= lenZ new).
    { rewrite Hn. unfold Gen.calc_num_clusters. cbv zeta. fold (bpc s). unfold ceil_div. apply Z.div_le_lower_bound; [exact HB|]. nia. }
    assert (Hne : new <> []) by (intro; subst new; unfold lenZ in Hnn; cbn in Hnn; lia).
    destruct (chain_raw _ _ _ Hch) as [Hraw Hle].
    assert (Hch1 : chain s1 c = (ch ++ new, true)).
    { apply chain_of_raw.
      - unfold s1. cbn [s_fat upd_fat]. replace (ft (upd_fat s2 _ _)) with (ft s) by (rewrite <- Et2; reflexivity).
        replace (dmax (upd_fat s2 _ _)) with (dmax s) by (symmetry; apply dmax_geo; [apply Hg2|apply Hg2]).
        rewrite Hfat. apply extend_chain; try assumption; [apply dmax_dok; exact Hv|].
        eapply Forall_impl; [|exact Hf]. cbv beta. intros a Ha. rewrite Hfree in Ha. lia.
      - replace (max_cluster s1) with (max_cluster s) by (symmetry; apply max_cluster_geo; [apply Hg2|apply Hg2]).
        apply Forall_app. split; [exact Hle|]. eapply Forall_impl; [|exact Hf]. cbv beta. intros a Ha. lia. }
    rewrite Hch1 in Hw.
    assert (Hall : Forall (inside s) (ch ++ new)).
    { apply Forall_app. split; [exact Hin|]. eapply Forall_impl; [|exact Hf]. cbv beta. intros a Ha. apply Hvol. lia. }
    assert (Hg1 : same_geo s s1) by (destruct Hg2 as (A & B & C & D); repeat split; assumption).
    destruct (same_geo_facts _ _ Hg1) as (Ea1 & Eb1 & Et1 & Gg1 & Ins1).
    assert (Hnd : NoDup (ch ++ new)).
    { pose proof (chain_go_nodup _ _ _ _ _ _ Hch1) as H. exact H. }
    assert (Hroom : (length data <= length (ch ++ new) * Z.to_nat (bpc s1))%nat).
    { rewrite Eb1, app_length. pose proof (ceil_div_covers (lenZ data - lenZ ch * bpc s) (bpc s) HB).
      unfold Gen.calc_num_clusters in Hn. cbv zeta in Hn. fold (bpc s) in Hn. unfold lenZ in *. nia. }
    destruct (write_chunks_gen (ch ++ new) s1 data s' ltac:(exact Hd2) (Gg1 G) Hnd ltac:(eapply Forall_impl; [|exact Hall]; exact Ins1) Hroom Hw)
      as ((d & l & Es') & Hd' & Hrc & Hfr).
    exists new. split; [rewrite Es'; exact Hch1|]. split; [exact Hall|].
    split; [eapply Forall_impl; [|exact Hf]; cbv beta; intros a Ha; rewrite Hfree in Ha; lia|]. split; [exact Hs|].
    split; [rewrite Es'; unfold s1; cbn [s_fat upd_dev upd_fat]; rewrite Hfat; destruct new; [congruence|reflexivity]|].
    split; [rewrite Es'; destruct Hg1 as (A1 & A2 & A3 & A4); repeat split; assumption|].
    assert (Hrd1 : forall x, rd s1 (cluster_addr s x) (bpc s) = rd s (cluster_addr s x) (bpc s)).
    { intros x. unfold rd, s1. cbn [s_dev s_dsize upd_fat]. destruct Hdev2 as (-> & -> & _). reflexivity. }
    split; [|split].
    + rewrite Hrc. f_equal. f_equal. unfold read_chain. apply flat_map_ext. intros x. rewrite Ea1, Eb1. apply Hrd1.
    + intros c' H2 Hni. specialize (Hfr c' H2 Hni). rewrite Ea1, Eb1 in Hfr. rewrite Hfr. apply Hrd1.
    + destruct (write_chunks_log _ _ _ _ ltac:(rewrite Eb1; lia) Hw) as (l0 & Hl0 & Hf0). exists l0. split.
      * rewrite Hl0. unfold s1. cbn [s_log upd_fat]. destruct Hdev2 as (_ & _ & ->). reflexivity.
      * eapply Forall_impl; [|exact Hf0]. cbv beta. intros w (x & Hx & Ha & Hb). exists x. rewrite Ea1 in Ha. rewrite Eb1 in Hb. auto.
Qed.

(** * writing at a cursor inside a file: Python's [data[pos:pos+len(b)] = b] on the bytes of the chain *)
Lemma links_suffix t dm fat pre : forall suf, suf <> [] -> links t dm fat (pre ++ suf) -> links t dm fat suf.
Proof.
  induction pre as [|c r IH]; intros suf Hne H; [exact H|]. apply IH; [exact Hne|].
  destruct (r ++ suf) as [|d q] eqn:E; [destruct r; [cbn in E; congruence|discriminate]|].
  change ((c :: r) ++ suf) with (c :: (r ++ suf)) in H. rewrite E in H. destruct (proj1 (links_cons2 _ _ _ _ _ _) H) as (_ & _ & _ & H4). exact H4.
Qed.
Lemma read_chain_app s a b : read_chain s (a ++ b) = read_chain s a ++ read_chain s b.
Proof. unfold read_chain. apply flat_map_app. Qed.
Lemma last_skipn (l:list Z) k : (k < length l)%nat -> last (skipn k l) 0 = last l 0.
Proof.
  revert l. induction k as [|j IH]; intros l H; [reflexivity|]. destruct l as [|x r]; [cbn in H; lia|].
  cbn [skipn]. rewrite IH by (cbn in H; lia). destruct r; [cbn in H; lia|reflexivity].
Qed.

Theorem write_at_cursor s c0 ch k co b s' :
  dev_ok (s_dev s) -> geom_ok s -> vt (ft s) -> 0 <= s_hint s -> vol_ok s ->
  chain s c0 = (ch, true) -> Forall (inside s) ch ->
  (k < length ch)%nat -> (co <= Z.to_nat (bpc s))%nat ->
  let cpos := nth k ch 0 in
  write_data_to_cluster s (firstn co (rd s (cluster_addr s cpos) (bpc s)) ++ b) cpos false = Ok s' ->
  exists new,
    chain s' c0 = (ch ++ new, true) /\ Forall (inside s) (ch ++ new) /\
    Forall (fun x => nthZ (s_fat s) x = 0) new /\
    let W := read_chain s (ch ++ new) in
    let pos := (k * Z.to_nat (bpc s) + co)%nat in
    read_chain s' (ch ++ new) = firstn pos W ++ b ++ skipn (pos + length b) W /\
    (forall c', 2 <= c' -> ~ In c' (ch ++ new) -> rd s' (cluster_addr s c') (bpc s) = rd s (cluster_addr s c') (bpc s)).
Proof.
  intros Hd G Hv Hh Hvol Hch Hin Hk Hco cpos Hw.
  destruct (vt_consts _ Hv) as (Hmin & Hfree & Hmax & _).
  set (B := Z.to_nat (bpc s)) in *.
  set (pre := firstn k ch). set (suf := skipn k ch).
  assert (Hsplit : ch = pre ++ suf) by (symmetry; apply firstn_skipn).
  assert (Hsufne : suf <> []) by (unfold suf; intro E; apply (f_equal (@length Z)) in E; rewrite skipn_length in E; cbn in E; lia).
  assert (Hhd : hd 0 suf = cpos).
  { unfold suf, cpos. clear - Hk. revert ch Hk. induction k as [|j IH]; intros ch Hk; destruct ch as [|x r]; try (cbn in Hk; lia); [reflexivity|].
    cbn [skipn nth]. apply IH. cbn in Hk. lia. }
  destruct (chain_raw _ _ _ Hch) as [Hraw Hle].
  destruct (chain_go_links _ _ _ _ _ _ Hraw) as [Hl Hh0].
  pose proof (chain_go_nodup _ _ _ _ _ _ Hraw) as Hnd.
  assert (Hlsuf : links (ft s) (dmax s) (s_fat s) suf) by (apply (links_suffix _ _ _ pre); [exact Hsufne|rewrite <- Hsplit; exact Hl]).
  assert (Hchs : chain s cpos = (suf, true)).
  { apply chain_of_raw.
    - rewrite <- Hhd. apply links_chain_go; [exact Hlsuf|].
      pose proof (chain_go_length (length (s_fat s)) (ft s) (dmax s) (s_fat s) c0) as Hlen. rewrite Hraw in Hlen. cbn [fst] in Hlen.
      unfold suf. rewrite skipn_length. lia.
    - rewrite Hsplit in Hle. apply Forall_app in Hle. apply Hle. }
  assert (Hinsuf : Forall (inside s) suf).
  { apply Forall_forall. intros x Hx. rewrite Forall_forall in Hin. apply Hin. rewrite Hsplit. apply in_or_app. right. exact Hx. }
  destruct (wdc_file_data s _ cpos s' suf Hd G Hv Hh Hchs Hinsuf Hvol Hw) as (new & Hc' & Hall & Hnew & Hsort & Hfat & Hgeo & Hrc & Hfr & Hlog).
  destruct (same_geo_facts _ _ Hgeo) as (Hga & Hgb & Hft & _ & _).
  exists new.
  assert (Hdis : forall x, In x new -> ~ In x ch).
  { intros x Hn Ho. pose proof (links_nonfree _ _ _ _ Hv Hl) as Hnf. rewrite Forall_forall in Hnf, Hnew. specialize (Hnf x Ho). specialize (Hnew x Hn). lia. }
  assert (Hlast : last suf 0 = last ch 0) by (apply last_skipn; exact Hk).
  split.
  { destruct (chain_raw _ _ _ Hc') as [_ Hle']. apply chain_of_raw.
    - rewrite Hfat, Hft, (dmax_geo s s' (proj1 Hgeo) (proj1 (proj2 Hgeo))). destruct new as [|n0 nr].
      + cbn [length Nat.eqb]. rewrite app_nil_r. exact Hraw.
      + cbn [length Nat.eqb]. rewrite Hlast. apply extend_chain; try assumption; [apply dmax_dok; exact Hv|discriminate].
    - apply Forall_app in Hle'. rewrite (max_cluster_geo s s' (proj1 Hgeo) (proj1 (proj2 Hgeo))) in *. apply Forall_app. split; [exact Hle|apply Hle']. }
  split.
  { rewrite Hsplit, <- app_assoc. apply Forall_app. split; [|exact Hall].
    apply Forall_forall. intros x Hx. rewrite Forall_forall in Hin. apply Hin. rewrite Hsplit. apply in_or_app. left. exact Hx. }
  split; [eapply Forall_impl; [|exact Hnew]; cbv beta; intros; tauto|].
  cbv zeta.
  assert (Hpre_in : Forall (inside s) pre).
  { apply Forall_forall. intros x Hx. rewrite Forall_forall in Hin. apply Hin. rewrite Hsplit. apply in_or_app. left. exact Hx. }
  assert (Hpre_fr : read_chain s' pre = read_chain s pre).
  { assert (Hg : forall x, cluster_addr s' x = cluster_addr s x /\ bpc s' = bpc s) by (intros x; split; [apply Hga|exact Hgb]).
    assert (Hni : forall x, In x pre -> ~ In x (suf ++ new)).
    { intros x Hx Hy. apply in_app_or in Hy. destruct Hy as [Hy|Hy].
      - rewrite Hsplit in Hnd. apply NoDup_app_inv in Hnd. destruct Hnd as (_ & _ & Hdd). apply (Hdd x Hx Hy).
      - apply (Hdis x Hy). rewrite Hsplit. apply in_or_app. left. exact Hx. }
    assert (Haux : forall l, Forall (inside s) l -> (forall x, In x l -> ~ In x (suf ++ new)) -> read_chain s' l = read_chain s l).
    { induction l as [|x r IH]; intros Hli Hln; [reflexivity|]. unfold read_chain in *. cbn [flat_map]. destruct (Forall_inv Hli) as [Hx2 _]. pose proof (Forall_inv_tail Hli) as Hr.
      f_equal; [|apply IH; [exact Hr|]; intros y Hy; apply Hln; right; exact Hy].
      rewrite Hga, Hgb. apply Hfr; [exact Hx2|]. apply Hln. left. reflexivity. }
    apply Haux; assumption. }
  split.
  - rewrite Hsplit, <- !app_assoc, !read_chain_app. rewrite <- read_chain_app. rewrite Hpre_fr, Hrc.
    assert (Hlpre : length (read_chain s pre) = (k * B)%nat).
    { rewrite read_chain_length by assumption. unfold pre. rewrite firstn_length. fold B. lia. }
    assert (Hsufc : read_chain s (suf ++ new) = rd s (cluster_addr s cpos) (bpc s) ++ read_chain s (tl suf ++ new)).
    { destruct suf as [|x r]; [congruence|]. cbn [hd] in Hhd. subst x. reflexivity. }
    assert (Hlc : length (rd s (cluster_addr s cpos) (bpc s)) = B).
    { apply rd_length; try assumption. rewrite Forall_forall in Hinsuf. apply Hinsuf. rewrite <- Hhd. destruct suf; [congruence|left; reflexivity]. }
    rewrite (read_chain_app s suf new).
    assert (Hsufc' : read_chain s suf = rd s (cluster_addr s cpos) (bpc s) ++ read_chain s (tl suf)).
    { destruct suf as [|x r]; [congruence|]. cbn [hd] in Hhd. subst x. reflexivity. }
    set (P := read_chain s pre) in *. set (Rs := read_chain s suf) in *. set (Rn := read_chain s new) in *.
    set (C := rd s (cluster_addr s cpos) (bpc s)) in *.
    assert (Hf1 : firstn co (Rs ++ Rn) = firstn co C).
    { rewrite Hsufc', <- app_assoc, firstn_app, Hlc. replace (co - B)%nat with 0%nat by lia. cbn [firstn]. apply app_nil_r. }
    assert (Hs1 : skipn (k * B + co + length b) (P ++ Rs ++ Rn) = skipn (co + length b) (Rs ++ Rn)).
    { rewrite skipn_app, Hlpre. rewrite (skipn_all2 P) by lia. cbn [app]. f_equal. lia. }
    assert (Hf0 : firstn (k * B + co) (P ++ Rs ++ Rn) = P ++ firstn co (Rs ++ Rn)).
    { rewrite firstn_app, Hlpre. rewrite (firstn_all2 P) by lia. f_equal. f_equal. lia. }
    rewrite Hf0, Hf1, Hs1, app_length, firstn_length, Hlc, Nat.min_l by exact Hco. rewrite <- !app_assoc. reflexivity.
  - intros c' H2 Hni. apply Hfr; [exact H2|]. intro Hy. apply Hni. rewrite Hsplit, <- app_assoc. apply in_or_app. right. exact Hy.
Qed.

(** * reading through a chain: the bytes of the chain from the offset *)
Lemma read_chunks_spec cs : forall s coff size fuel,
  dev_ok (s_dev s) -> geom_ok s -> Forall (inside s) cs ->
  0 <= coff <= bpc s -> coff + size <= lenZ cs * bpc s -> (length cs < fuel)%nat ->
  read_chunks s cs coff size fuel = Ok (firstn (Z.to_nat size) (skipn (Z.to_nat coff) (read_chain s cs))).
Proof.
  induction cs as [|c r IH]; intros s coff size fuel Hd G Hin Hco Hsz Hf.
  - destruct fuel; [lia|]. cbn [read_chunks read_chain flat_map]. rewrite skipn_nil, firstn_nil. reflexivity.
  - destruct fuel as [|f]; [lia|]. cbn [read_chunks]. cbv zeta.
    inversion Hin as [|? ? Hc Hr]; subst.
    assert (HB : 0 < bpc s) by (destruct G as (G1 & G2 & _ & G4 & _); nia).
    assert (Hlc : length (rd s (cluster_addr s c) (bpc s)) = Z.to_nat (bpc s)) by (apply rd_length; assumption).
    change (read_chain s (c :: r)) with (rd s (cluster_addr s c) (bpc s) ++ read_chain s r).
    set (C := rd s (cluster_addr s c) (bpc s)) in *. set (R := read_chain s r).
    rewrite skipn_app, Hlc. replace (Z.to_nat coff - Z.to_nat (bpc s))%nat with 0%nat by lia. cbn [skipn].
    assert (Hls : length (skipn (Z.to_nat coff) C) = Z.to_nat (bpc s - coff)) by (rewrite skipn_length, Hlc; lia).
    destruct (size - Z.min (bpc s - coff) size <=? 0) eqn:E.
    + f_equal. replace (Z.min (bpc s - coff) size) with size by lia.
      rewrite firstn_app. replace (Z.to_nat size - length (skipn (Z.to_nat coff) C))%nat with 0%nat by lia. cbn [firstn]. rewrite app_nil_r. reflexivity.
    + replace (Z.min (bpc s - coff) size) with (bpc s - coff) by lia.
      rewrite (IH s 0 (size - (bpc s - coff)) f Hd G Hr ltac:(lia)).
      * cbn [bind Z.to_nat skipn]. f_equal. rewrite firstn_app, Hls.
        rewrite (firstn_all2 (skipn (Z.to_nat coff) C)) by lia.
        rewrite (firstn_all2 (skipn (Z.to_nat coff) C) (n:=Z.to_nat size)) by lia. f_equal. f_equal. lia.
      * unfold lenZ in *. cbn [length] in Hsz. lia.
      * cbn [length] in Hf. lia.
Qed.

(** read-after-write at the level of the chain: what [write_at_cursor] wrote at [pos] is what a read of the chain at
    [pos] returns, for any split of [pos] into cluster index and offset *)
Corollary read_back s' chn pos b W :
  read_chain s' chn = firstn pos W ++ b ++ skipn (pos + length b) W -> (pos <= length W)%nat ->
  firstn (length b) (skipn pos (read_chain s' chn)) = b.
Proof.
  intros H Hp. rewrite H. rewrite skipn_app, firstn_length, Nat.min_l by exact Hp.
  rewrite skipn_all2 by (rewrite firstn_length; lia). rewrite Nat.sub_diag. cbn [app skipn].
  rewrite firstn_app, Nat.sub_diag. cbn [firstn]. rewrite app_nil_r. apply firstn_all.
Qed.


(** every device write of a file-data write lies inside the data area of the volume, in a cluster of the file's chain
    or in a cluster that was free *)
Theorem data_write_confined s data c s' ch :
  dev_ok (s_dev s) -> geom_ok s -> vt (ft s) -> 0 <= s_hint s ->
  chain s c = (ch, true) -> Forall (inside s) ch -> vol_ok s ->
  write_data_to_cluster s data c false = Ok s' ->
  exists l, s_log s' = l ++ s_log s /\
    Forall (fun w => first_data_sector (s_p s) * BPB_BytsPerSec (s_h s) <= fst w /\ fst w + lenZ (snd w) <= s_dsize s /\
                     exists x, (In x ch \/ nthZ (s_fat s) x = 0) /\ fst w = cluster_addr s x) l.
Proof.
  intros Hd G Hv Hh Hch Hin Hvol Hw.
  destruct (wdc_file_data s data c s' ch Hd G Hv Hh Hch Hin Hvol Hw) as (new & _ & Hall & Hnew & _ & _ & _ & _ & _ & (l & Hl & Hf)).
  exists l. split; [exact Hl|]. eapply Forall_impl; [|exact Hf]. cbv beta. intros w (x & Hx & Ha & Hb).
  rewrite Forall_forall in Hall. destruct (Hall x Hx) as [Hx2 Hfit]. rewrite Ha.
  split; [rewrite cluster_addr_lin by exact G; destruct G as (G1 & G2 & G3 & G4 & _); nia|]. split; [lia|].
  exists x. split; [|reflexivity]. apply in_app_or in Hx. destruct Hx as [Hx|Hx]; [left; exact Hx|right].
  rewrite Forall_forall in Hnew. apply Hnew. exact Hx.
Qed.

(** * crash points of a data write (C12) *)
(** applying any sub-sequence of logged writes (oldest first) to a device *)
Fixpoint apply_some (d:dev) (l:list (Z * list Z)) (keep:list bool) : dev :=
  match l, keep with
  | w :: r, k :: kr => let d' := apply_some d r kr in if k then dwrite d' (fst w) (snd w) else d'
  | _, _ => d
  end.
Theorem data_crash : forall s data c s' ch,
  dev_ok (s_dev s) -> geom_ok s -> vt (ft s) -> 0 <= s_hint s ->
  chain s c = (ch, true) -> Forall (inside s) ch -> vol_ok s ->
  write_data_to_cluster s data c false = Ok s' ->
  exists l, s_log s' = l ++ s_log s /\
    forall keep y, 2 <= y -> ~ In y ch -> nthZ (s_fat s) y <> 0 -> inside s y ->
      dread (apply_some (s_dev s) l keep) (s_dsize s) (cluster_addr s y) (bpc s) = rd s (cluster_addr s y) (bpc s).
Proof.
  intros s data c s' ch Hd G Hv Hh Hch Hin Hvol Hw.
  destruct (wdc_file_data s data c s' ch Hd G Hv Hh Hch Hin Hvol Hw) as (new & _ & Hall & Hnew & _ & _ & _ & _ & _ & (l & Hl & Hf)).
  exists l. split; [exact Hl|]. intros keep y Hy Hnin Hnz Hiy.
  assert (Hgen : forall l0, Forall (fun w => exists x, In x (ch ++ new) /\ fst w = cluster_addr s x /\ lenZ (snd w) <= bpc s) l0 ->
            forall keep0, dev_ok (apply_some (s_dev s) l0 keep0) /\
            dread (apply_some (s_dev s) l0 keep0) (s_dsize s) (cluster_addr s y) (bpc s) = rd s (cluster_addr s y) (bpc s)).
  { induction l0 as [|w r IH]; intros Hf0 keep0; [destruct keep0; split; try exact Hd; reflexivity|].
    destruct keep0 as [|k kr]; [split; [exact Hd|reflexivity]|]. cbn [apply_some]. cbv zeta.
    inversion Hf0 as [|? ? (x & Hx & Ha & Hb) Hr]; subst. destruct (IH Hr kr) as [Hdk Hrk].
    destruct k; [|split; assumption].
    assert (Hxy : x <> y).
    { intro; subst x. apply in_app_or in Hx. destruct Hx as [Hx|Hx]; [contradiction|]. rewrite Forall_forall in Hnew. specialize (Hnew y Hx). lia. }
    assert (Hx2 : 2 <= x) by (rewrite Forall_forall in Hall; apply Hall; exact Hx).
    split; [apply dwrite_spec; [exact Hdk|rewrite Ha; apply cluster_addr_nonneg; assumption]|].
    rewrite read_elsewhere; [exact Hrk|exact Hdk|rewrite Ha; apply cluster_addr_nonneg; assumption|apply cluster_addr_nonneg; assumption|].
    rewrite Ha. destruct (cluster_addr_disjoint s x y G Hxy); lia. }
  apply Hgen. exact Hf.
Qed.

(** * the same for directory rewrites ([write_data_to_cluster] with erase, [write_dir]) *)
Lemma erase_clusters_log cs : forall s s', erase_clusters s cs = Ok s' ->
  exists l, s_log s' = l ++ s_log s /\ s_fat s' = s_fat s /\ s_hint s' = s_hint s /\ same_geo s s' /\
    Forall (fun w => exists c, In c cs /\ fst w = cluster_addr s c /\ lenZ (snd w) = Z.max 0 (bpc s)) l.
Proof.
  induction cs as [|c r IH]; intros s s' H.
  - inversion H; subst. exists []. split; [reflexivity|]. split; [reflexivity|]. split; [reflexivity|]. split; [apply same_geo_refl|constructor].
  - cbn [erase_clusters] in H. destruct (write_at _ _ _) as [s1|] eqn:E; [|discriminate]. cbn [bind] in H.
    apply write_at_ok in E. destruct E as [_ E]. apply IH in H. destruct H as (l & Hl & Hf & Hh & Hg & Hall).
    exists (l ++ [(cluster_addr s c, zeros (bpc s))]). split; [rewrite Hl, E; cbn [s_log upd_dev]; rewrite <- app_assoc; reflexivity|].
    split; [rewrite Hf, E; reflexivity|]. split; [rewrite Hh, E; reflexivity|].
    split; [eapply same_geo_trans; [|exact Hg]; rewrite E; repeat split|].
    apply Forall_app. split.
    + eapply Forall_impl; [|exact Hall]. cbv beta. intros w (x & Hx & Ha & Hb). exists x. rewrite E in Ha, Hb. split; [right; exact Hx|]. split; assumption.
    + constructor; [|constructor]. exists c. split; [left; reflexivity|]. split; [reflexivity|]. cbn [snd]. unfold lenZ, zeros. rewrite repeat_length. lia.
Qed.

Theorem dir_write_log s data c e s' ch :
  dev_ok (s_dev s) -> geom_ok s -> vt (ft s) -> 0 <= s_hint s ->
  chain s c = (ch, true) -> Forall (inside s) ch -> vol_ok s ->
  write_data_to_cluster s data c e = Ok s' ->
  exists l, s_log s' = l ++ s_log s /\
    Forall (fun w => exists x, (In x ch \/ nthZ (s_fat s) x = 0) /\ inside s x /\ fst w = cluster_addr s x /\ lenZ (snd w) <= bpc s) l.
Proof.
  intros Hd G Hv Hh Hch Hin Hvol Hw.
  destruct (vt_consts _ Hv) as (Hmin & Hfree & Hmax & _).
  assert (HB : 0 < bpc s) by (destruct G as (G1 & G2 & _ & G4 & _); nia).
  unfold write_data_to_cluster in Hw. destruct (s_ro s) eqn:Ero; [discriminate|]. rewrite Hch in Hw. cbv zeta in Hw.
  destruct (Z.max 1 (ceil_div (lenZ data) (bpc s)) <=? lenZ ch) eqn:En.
  - cbn [bind] in Hw. rewrite Hch in Hw. assert (HB0 : 0 <= bpc s) by lia. destruct (write_chunks_log ch s _ s' HB0 Hw) as (l & Hl & Hf). exists l. split; [exact Hl|].
    eapply Forall_impl; [|exact Hf]. cbv beta. intros w (x & Hx & Ha & Hb). exists x. rewrite Forall_forall in Hin. auto.
  - cbn [negb] in Hw. destruct (allocate s (lenZ data - lenZ ch * bpc s) e) as [[new s2]|] eqn:Ea; [|discriminate]. cbn [bind] in Hw.
    destruct (allocate_sound _ _ _ _ _ Hh Ea) as [(Hn & Hs & Hf)|?]; [|lia].
    pose proof (allocate_fat _ _ _ _ _ Ea) as Hfat.
    destruct (allocate_dev _ _ _ _ _ Hd G Hh ltac:(lia) Ea) as [_ Hg2]. destruct (same_geo_facts _ _ Hg2) as (Ea2 & Eb2 & Et2 & _ & _).
    (* the log of the allocation: the erasing writes, if any *)
    assert (Hlog2 : exists l2, s_log s2 = l2 ++ s_log s /\ Forall (fun w => exists x, In x new /\ fst w = cluster_addr s x /\ lenZ (snd w) <= bpc s) l2).
    { unfold allocate in Ea. rewrite Ero in Ea. destruct (alloc_scan _ _ _ _ _ _) as [l0 j]. destruct (negb _); [discriminate|]. destruct e.
      - destruct (erase_clusters _ l0) as [s3|] eqn:Ee; [|discriminate]. cbn [bind] in Ea. inversion Ea; subst.
        destruct (erase_clusters_log _ _ _ Ee) as (l2 & A & _ & _ & _ & B). exists l2. split; [exact A|].
        eapply Forall_impl; [|exact B]. cbv beta. intros w (x & Hx & Ha & Hb). exists x. split; [exact Hx|]. split; [exact Ha|]. change (bpc (upd_fat s _ _)) with (bpc s) in Hb. lia.
      - inversion Ea; subst. exists []. split; [reflexivity|constructor]. }
    destruct Hlog2 as (l2 & Hl2 & Hf2).
    set (s1 := upd_fat s2 (updZ (s_fat s2) (last ch 0) (hd 0 new)) (s_hint s2)) in *.
    assert (Hch1' : 1 <= lenZ ch) by (pose proof (chain_go_nonempty _ _ _ _ _ _ Hch); destruct ch; [congruence|unfold lenZ; cbn [length]; lia]).
    assert (Hbig : lenZ ch * bpc s < lenZ data).
    { destruct (Z_lt_dec (lenZ ch * bpc s) (lenZ data)) as [?|Hnl]; [assumption|]. pose proof (ceil_div_le (lenZ data) (bpc s) (lenZ ch) HB ltac:(lia)). lia. }
    assert (Hnn : 1 <= lenZ new).
    { rewrite Hn. unfold Gen.calc_num_clusters. cbv zeta. fold (bpc s). unfold ceil_div. apply Z.div_le_lower_bound; [exact HB|]. nia. }
    assert (Hne : new <> []) by (intro; subst new; unfold lenZ in Hnn; cbn in Hnn; lia).
    destruct (chain_raw _ _ _ Hch) as [Hraw Hle].
    assert (Hch1 : chain s1 c = (ch ++ new, true)).
    { apply chain_of_raw.
      - unfold s1. cbn [s_fat upd_fat]. replace (ft (upd_fat s2 _ _)) with (ft s) by (rewrite <- Et2; reflexivity).
        replace (dmax (upd_fat s2 _ _)) with (dmax s) by (symmetry; apply dmax_geo; [apply Hg2|apply Hg2]).
        rewrite Hfat. apply extend_chain; try assumption; [apply dmax_dok; exact Hv|].
        eapply Forall_impl; [|exact Hf]. cbv beta. intros a Ha. rewrite Hfree in Ha. lia.
      - replace (max_cluster s1) with (max_cluster s) by (symmetry; apply max_cluster_geo; [apply Hg2|apply Hg2]).
        apply Forall_app. split; [exact Hle|]. eapply Forall_impl; [|exact Hf]. cbv beta. intros a Ha. lia. }
    rewrite Hch1 in Hw.
    assert (Hg1 : same_geo s s1) by (destruct Hg2 as (A & B & C & D); repeat split; assumption).
    destruct (same_geo_facts _ _ Hg1) as (Ea1 & Eb1 & _ & _ & _).
    assert (HB1 : 0 <= bpc s1) by (rewrite Eb1; lia).
    destruct (write_chunks_log (ch ++ new) s1 _ s' HB1 Hw) as (l0 & Hl0 & Hf0).
    exists (l0 ++ l2). split; [rewrite Hl0; unfold s1; cbn [s_log upd_fat]; rewrite Hl2, app_assoc; reflexivity|].
    assert (Hnewin : forall x, In x new -> nthZ (s_fat s) x = 0 /\ inside s x).
    { intros x Hx. rewrite Forall_forall in Hf. specialize (Hf x Hx). split; [rewrite Hfree in Hf; lia|apply Hvol; lia]. }
    apply Forall_app. split.
    + eapply Forall_impl; [|exact Hf0]. cbv beta. intros w (x & Hx & Ha & Hb). exists x. rewrite Ea1 in Ha. rewrite Eb1 in Hb.
      apply in_app_or in Hx. destruct Hx as [Hx|Hx].
      * rewrite Forall_forall in Hin. auto.
      * destruct (Hnewin x Hx). auto.
    + eapply Forall_impl; [|exact Hf2]. cbv beta. intros w (x & Hx & Ha & Hb). exists x. destruct (Hnewin x Hx). auto.
Qed.

Theorem dir_crash s data c e s' ch :
  dev_ok (s_dev s) -> geom_ok s -> vt (ft s) -> 0 <= s_hint s ->
  chain s c = (ch, true) -> Forall (inside s) ch -> vol_ok s ->
  write_data_to_cluster s data c e = Ok s' ->
  exists l, s_log s' = l ++ s_log s /\
    forall keep y, 2 <= y -> ~ In y ch -> nthZ (s_fat s) y <> 0 -> inside s y ->
      dread (apply_some (s_dev s) l keep) (s_dsize s) (cluster_addr s y) (bpc s) = rd s (cluster_addr s y) (bpc s).
Proof.
  intros Hd G Hv Hh Hch Hin Hvol Hw.
  destruct (dir_write_log s data c e s' ch Hd G Hv Hh Hch Hin Hvol Hw) as (l & Hl & Hf).
  exists l. split; [exact Hl|]. intros keep y Hy Hnin Hnz Hiy.
  assert (Hgen : forall l0, Forall (fun w => exists x, (In x ch \/ nthZ (s_fat s) x = 0) /\ inside s x /\ fst w = cluster_addr s x /\ lenZ (snd w) <= bpc s) l0 ->
            forall keep0, dev_ok (apply_some (s_dev s) l0 keep0) /\
            dread (apply_some (s_dev s) l0 keep0) (s_dsize s) (cluster_addr s y) (bpc s) = rd s (cluster_addr s y) (bpc s)).
  { induction l0 as [|w r IH]; intros Hf0 keep0; [destruct keep0; split; try exact Hd; reflexivity|].
    destruct keep0 as [|k kr]; [split; [exact Hd|reflexivity]|]. cbn [apply_some]. cbv zeta.
    inversion Hf0 as [|? ? (x & Hx & Hix & Ha & Hb) Hr]; subst. destruct (IH Hr kr) as [Hdk Hrk].
    destruct k; [|split; assumption].
    assert (Hxy : x <> y) by (intro; subst x; destruct Hx as [Hx|Hx]; [contradiction|lia]).
    destruct Hix as [Hx2 _].
    split; [apply dwrite_spec; [exact Hdk|rewrite Ha; apply cluster_addr_nonneg; assumption]|].
    rewrite read_elsewhere; [exact Hrk|exact Hdk|rewrite Ha; apply cluster_addr_nonneg; assumption|apply cluster_addr_nonneg; assumption|].
    rewrite Ha. destruct (cluster_addr_disjoint s x y G Hxy); lia. }
  apply Hgen. exact Hf.
Qed.

(** * a crash is confined to what was written (C12, generic): whatever SUBSET of the writes of an operation reached the device, in
    whatever combination, every byte range that none of the writes overlaps reads exactly as before the operation *)
Theorem crash_outside_writes d sz l : dev_ok d -> Forall (fun w => 0 <= fst w) l ->
  forall keep a n, 0 <= a ->
  Forall (fun w => a + n <= fst w \/ fst w + lenZ (snd w) <= a) l ->
  dev_ok (apply_some d l keep) /\ dread (apply_some d l keep) sz a n = dread d sz a n.
Proof.
  intros Hd Hpos. induction l as [|w r IH]; intros keep a n Ha Hdis; [destruct keep; split; [exact Hd|reflexivity|exact Hd|reflexivity]|].
  inversion Hpos as [|? ? Hw Hr]; subst. inversion Hdis as [|? ? Hdw Hdr]; subst.
  destruct keep as [|k kr]; [split; [exact Hd|reflexivity]|]. cbn [apply_some]. cbv zeta.
  destruct (IH Hr kr a n Ha Hdr) as [Hok Hrd]. destruct k; [|split; assumption].
  split; [apply dwrite_spec; assumption|]. rewrite read_elsewhere by (try assumption; lia). exact Hrd.
Qed.

(** ... also when writes were torn: each write that reached the device did so only with a prefix of its bytes *)
Corollary crash_torn_writes d sz l l' : dev_ok d -> Forall (fun w => 0 <= fst w) l ->
  Forall2 (fun (w' w:Z * list Z) => fst w' = fst w /\ lenZ (snd w') <= lenZ (snd w)) l' l ->
  forall keep a n, 0 <= a ->
  Forall (fun w => a + n <= fst w \/ fst w + lenZ (snd w) <= a) l ->
  dread (apply_some d l' keep) sz a n = dread d sz a n.
Proof.
  intros Hd Hpos H2 keep a n Ha Hdis.
  assert (Hpos' : Forall (fun w => 0 <= fst w) l' /\ Forall (fun w => a + n <= fst w \/ fst w + lenZ (snd w) <= a) l').
  { clear keep. induction H2 as [|w' w r' r (Ef & El) H2 IH]; [split; constructor|].
    inversion Hpos as [|? ? Hw Hr]; subst. inversion Hdis as [|? ? Hdw Hdr]; subst. destruct (IH Hr Hdr) as [I1 I2].
    split; constructor; try assumption; [lia|]. destruct Hdw; [left|right]; lia. }
  destruct Hpos' as [P1 P2]. apply (crash_outside_writes d sz l' Hd P1 keep a n Ha P2).
Qed.
