(** State level, FAT half of C03: after a flush every FAT copy on the device holds the serialised in-memory table,
    nothing outside the FAT region changes, and decoding any copy — what a later mount does — gives back the
    in-memory table (FAT32: including the preserved reserved bits). *)
From Coq Require Import ZArith List Bool Lia ZifyBool.
From PyFatV Require Import Base.Bytes Base.PyEnv Gen.Pure Model.Codec Model.Dir Model.FS Proofs.FatCodec Proofs.Device Proofs.DirCodec Proofs.DirState.
Import ListNotations.
Open Scope Z_scope.

Lemma flush_copies_dev n : forall s b i s',
  dev_ok (s_dev s) -> 0 <= fat_start s -> 0 <= i -> lenZ b <= fat_bytes s ->
  fat_start s + (i + Z.of_nat n) * fat_bytes s <= s_dsize s ->
  flush_copies s b i n = Ok s' ->
  dev_ok (s_dev s') /\ same_geo s s' /\ s_fat s' = s_fat s /\ s_hi s' = s_hi s /\
  (forall k, i <= k < i + Z.of_nat n -> rd s' (fat_start s + k * fat_bytes s) (lenZ b) = b) /\
  (forall off len, 0 <= off -> off + len <= fat_start s + i * fat_bytes s \/ fat_start s + (i + Z.of_nat n) * fat_bytes s <= off ->
     rd s' off len = rd s off len).
Proof.
  induction n as [|m IH]; intros s b i s' Hd Hfs Hi Hb Hfit H; cbn [flush_copies] in H.
  - inversion H; subst. split; [exact Hd|]. split; [apply same_geo_refl|]. repeat split; try reflexivity. intros k Hk. lia.
  - destruct (write_at s (fat_start s + i * fat_bytes s) b) as [s1|] eqn:E; [|discriminate]. cbn [bind] in H.
    apply write_at_ok in E. destruct E as [_ E].
    assert (Hfb : 0 <= fat_bytes s) by (unfold lenZ in Hb; lia).
    assert (Hoff : 0 <= fat_start s + i * fat_bytes s) by nia.
    assert (Hd1 : dev_ok (s_dev s1)) by (subst s1; cbn [s_dev upd_dev]; apply dwrite_spec; assumption).
    assert (Efs : fat_start s1 = fat_start s) by (subst s1; reflexivity).
    assert (Efb : fat_bytes s1 = fat_bytes s) by (subst s1; reflexivity).
    assert (Eds : s_dsize s1 = s_dsize s) by (subst s1; reflexivity).
    destruct (IH s1 b (i + 1) s' Hd1 ltac:(lia) ltac:(lia) ltac:(lia) ltac:(rewrite Efs, Efb, Eds; lia) H) as (Hd' & Hg & Hf & Hh & Hcp & Hfr).
    rewrite Efs, Efb in *.
    split; [exact Hd'|]. split; [eapply same_geo_trans; [|exact Hg]; subst s1; repeat split|].
    split; [rewrite Hf; subst s1; reflexivity|]. split; [rewrite Hh; subst s1; reflexivity|]. split.
    + intros k Hk. destruct (Z.eq_dec k i) as [->|Hne].
      * rewrite Hfr by first [lia | left; nia]. subst s1. unfold rd. cbn [s_dev s_dsize upd_dev].
        apply read_after_write; try assumption. nia.
      * apply Hcp. lia.
    + intros off len Ho Hdis. rewrite Hfr by first [assumption | destruct Hdis; [left|right]; nia].
      subst s1. unfold rd. cbn [s_dev s_dsize upd_dev]. apply read_elsewhere; try assumption. destruct Hdis; [left|right]; nia.
Qed.

(** the in-memory table is well-formed for its width *)
Definition fat_wf (s:st) : Prop :=
  (ft s = 12 /\ ent_ok 12 (s_fat s)) \/ (ft s = 16 /\ ent_ok 16 (s_fat s)) \/
  (ft s = 32 /\ ent_ok 28 (s_fat s) /\ hi_ok (s_hi s) /\ length (s_hi s) = length (s_fat s)).

Theorem flush_fat_persists s s' :
  dev_ok (s_dev s) -> fat_wf s -> 0 <= fat_start s -> 0 <= BPB_NumFATs (s_h s) ->
  lenZ (pack_fat (ft s) (s_fat s) (s_hi s)) = fat_bytes s ->
  fat_start s + BPB_NumFATs (s_h s) * fat_bytes s <= s_dsize s ->
  flush_fat s = Ok s' ->
  s_fat s' = s_fat s /\ s_hi s' = s_hi s /\
  (forall k, 0 <= k < BPB_NumFATs (s_h s) ->
     parse_fat (ft s) (rd s' (fat_start s + k * fat_bytes s) (fat_bytes s)) = s_fat s /\
     (ft s = 32 -> parse32hi (rd s' (fat_start s + k * fat_bytes s) (fat_bytes s)) = s_hi s)) /\
  (forall off len, 0 <= off -> off + len <= fat_start s \/ fat_start s + BPB_NumFATs (s_h s) * fat_bytes s <= off ->
     rd s' off len = rd s off len).
Proof.
  intros Hd Hwf Hfs Hn Hlen Hfit H. unfold flush_fat in H. destruct (s_ro s); [discriminate|].
  set (b := pack_fat (ft s) (s_fat s) (s_hi s)) in *.
  assert (H0 : 0 <= 0) by lia. assert (Hb : lenZ b <= fat_bytes s) by lia.
  assert (Hfit' : fat_start s + (0 + Z.of_nat (Z.to_nat (BPB_NumFATs (s_h s)))) * fat_bytes s <= s_dsize s) by (rewrite Z2Nat.id by lia; lia).
  destruct (flush_copies_dev _ s b 0 s' Hd Hfs H0 Hb Hfit' H) as (_ & _ & Hf & Hh & Hcp & Hfr).
  split; [exact Hf|]. split; [exact Hh|]. split.
  - intros k Hk. pose proof (Hcp k ltac:(rewrite Z2Nat.id by lia; lia)) as Hck. rewrite Hlen in Hck. rewrite Hck. unfold b, pack_fat, parse_fat.
    destruct Hwf as [[Ht He]|[[Ht He]|(Ht & He & Hhi & Hl)]]; rewrite Ht.
    + change (12 =? 12) with true. cbv iota. split; [apply parse12_pack12; exact He|discriminate].
    + change (16 =? 12) with false. change (16 =? 16) with true. cbv iota. split; [apply parse16_pack16; exact He|discriminate].
    + change (32 =? 12) with false. change (32 =? 16) with false. cbv iota.
      destruct (parse32_pack32 _ _ He Hhi Hl) as [E1 E2]. split; [exact E1|intros _; exact E2].
  - intros off len Ho Hdis. apply Hfr; [exact Ho|]. rewrite Z2Nat.id by lia. destruct Hdis; [left|right]; lia.
Qed.
