(** The chain follower against the link structure of the FAT: soundness and completeness of [chain_go], and the
    effect of the allocator's linking on what the follower sees (extending a chain appends exactly the new clusters). *)
From Coq Require Import ZArith List Bool Lia Sorted ZifyBool.
From PyFatV Require Import Base.Bytes Base.PyEnv Gen.Pure Model.Codec Model.Dir Model.FS Proofs.FatTable Proofs.Device Proofs.DirCodec Proofs.DirState.
Import ListNotations.
Open Scope Z_scope.

Definition vt (t:Z) : Prop := t = 12 \/ t = 16 \/ t = 32.
Lemma vt_consts t : vt t -> Gen.MIN_DATA_CLUSTER t = 2 /\ Gen.FREE_CLUSTER t = 0 /\
  2 < Gen.MAX_DATA_CLUSTER t < Gen.END_OF_CLUSTER_MIN t /\ Gen.END_OF_CLUSTER_MIN t <= Gen.END_OF_CLUSTER_MAX t /\
  (t = 12 -> Gen.MAX_DATA_CLUSTER t < Gen.FAT12_SPECIAL_EOC).
Proof. intros [H|[H|H]]; subst t; vm_compute; repeat split; intros; discriminate. Qed.
Definition dok (t dm:Z) : Prop := Gen.MAX_DATA_CLUSTER t <= dm < Gen.BAD_CLUSTER t.
Lemma vt_bad t : vt t -> Gen.BAD_CLUSTER t < Gen.END_OF_CLUSTER_MIN t /\ Gen.MAX_DATA_CLUSTER t < Gen.BAD_CLUSTER t.
Proof. intros [H|[H|H]]; subst t; vm_compute; repeat split; intros; discriminate. Qed.
Lemma eoc_max_not_data t dm : vt t -> dok t dm -> is_data t dm (Gen.END_OF_CLUSTER_MAX t) = false.
Proof.
  intros Hv [_ Hd]. destruct (vt_consts t Hv) as (H1 & _ & H3 & H4 & _). destruct (vt_bad t Hv) as [Hb _]. unfold is_data. lia.
Qed.
Lemma eoc_max_is_eoc t : vt t -> is_eoc t (Gen.END_OF_CLUSTER_MAX t) = true.
Proof. intros Hv. destruct (vt_consts t Hv) as (_ & _ & _ & H4 & _). unfold is_eoc. lia. Qed.
Lemma data_or_eoc_nonfree t dm v : vt t -> is_data t dm v = true \/ is_eoc t v = true -> v <> 0.
Proof.
  intros Hv. destruct (vt_consts t Hv) as (H1 & _ & H3 & H4 & H5). unfold is_eoc, is_data. change Gen.FAT_TYPE_FAT12 with 12.
  change Gen.FAT12_SPECIAL_EOC with 4080 in *. lia.
Qed.

(** [links t dm fat l]: [l] is a path through the FAT ending at an end-of-chain value *)
Fixpoint links (t dm:Z) (fat:list Z) (l:list Z) : Prop :=
  match l with
  | [] => False
  | [c] => Gen.MIN_DATA_CLUSTER t <= c < lenZ fat /\ is_data t dm (nthZ fat c) = false /\ is_eoc t (nthZ fat c) = true
  | c :: ((d :: _) as r) => Gen.MIN_DATA_CLUSTER t <= c < lenZ fat /\ nthZ fat c = d /\ is_data t dm d = true /\ links t dm fat r
  end.
Lemma links_cons2 t dm fat c d r : links t dm fat (c :: d :: r) <-> Gen.MIN_DATA_CLUSTER t <= c < lenZ fat /\ nthZ fat c = d /\ is_data t dm d = true /\ links t dm fat (d :: r).
Proof. reflexivity. Qed.
Lemma links_in_range t dm fat l : links t dm fat l -> Forall (fun c => 0 <= c < lenZ fat) l.
Proof.
  pose proof (min_data_nonneg t) as Hm.
  induction l as [|c [|d r] IH]; intros H; [destruct H| |].
  - destruct H. repeat constructor; lia.
  - apply links_cons2 in H. destruct H as (H1 & _ & _ & H4). constructor; [lia|apply IH; exact H4].
Qed.
Lemma links_min t dm fat l : links t dm fat l -> Forall (fun c => Gen.MIN_DATA_CLUSTER t <= c) l.
Proof.
  induction l as [|c [|d r] IH]; intros H; [destruct H| |].
  - destruct H. repeat constructor; lia.
  - apply links_cons2 in H. destruct H as (H1 & _ & _ & H4). constructor; [lia|apply IH; exact H4].
Qed.
Lemma links_nonfree t dm fat l : vt t -> links t dm fat l -> Forall (fun c => nthZ fat c <> 0) l.
Proof.
  intros Hv. induction l as [|c [|d r] IH]; intros H; [destruct H| |].
  - destruct H as (_ & _ & H). constructor; [|constructor]. apply (data_or_eoc_nonfree t dm); auto.
  - apply links_cons2 in H. destruct H as (_ & H2 & H3 & H4). constructor; [|apply IH; exact H4].
    rewrite H2. apply (data_or_eoc_nonfree t dm); auto.
Qed.
Lemma links_frame t dm fat fat' l : lenZ fat' = lenZ fat -> (forall c, In c l -> nthZ fat' c = nthZ fat c) -> links t dm fat l -> links t dm fat' l.
Proof.
  intros Hl. induction l as [|c [|d r] IH]; intros Hf H; [destruct H| |].
  - destruct H as (H1 & H2 & H3). cbn [links]. rewrite Hl, Hf by (left; reflexivity). auto.
  - apply links_cons2 in H. destruct H as (H1 & H2 & H3 & H4). apply links_cons2. rewrite Hl, Hf by (left; reflexivity).
    repeat split; try assumption; try lia. apply IH; [|exact H4]. intros x Hx. apply Hf. right. exact Hx.
Qed.

(** soundness and completeness of the follower *)
Lemma chain_go_links f : forall t dm fat i l, chain_go f t dm fat i = (l, true) -> links t dm fat l /\ hd 0 l = i.
Proof.
  induction f as [|g IH]; intros t dm fat i l H; [discriminate|].
  cbn [chain_go] in H. destruct ((i <? Gen.MIN_DATA_CLUSTER t) || (lenZ fat <=? i)) eqn:Eg; [discriminate|]. cbv zeta in H.
  destruct (is_data t dm (nthZ fat i)) eqn:Ed.
  - destruct (chain_go g t dm fat (nthZ fat i)) as [r o] eqn:E. inversion H; subst. destruct (IH _ _ _ _ _ E) as [Hl Hh].
    split; [|reflexivity]. destruct r as [|d r']; [destruct Hl|]. cbn [hd] in Hh. subst d. apply links_cons2. repeat split; try lia; assumption.
  - destruct (is_eoc t (nthZ fat i)) eqn:Ee; [|discriminate]. inversion H; subst. split; [|reflexivity]. cbn [links]. split; [lia|]. split; [exact Ed|exact Ee].
Qed.
Lemma links_chain_go t dm fat : forall l f, links t dm fat l -> (length l <= f)%nat -> chain_go f t dm fat (hd 0 l) = (l, true).
Proof.
  induction l as [|c [|d r] IH]; intros f H Hf; [destruct H| |].
  - destruct f as [|g]; [cbn in Hf; lia|]. destruct H as (H1 & H2 & H3). cbn [chain_go hd].
    replace ((c <? Gen.MIN_DATA_CLUSTER t) || (lenZ fat <=? c)) with false by lia. cbv zeta. rewrite H2, H3. reflexivity.
  - destruct f as [|g]; [cbn in Hf; lia|]. apply links_cons2 in H. destruct H as (H1 & H2 & H3 & H4). cbn [chain_go hd].
    replace ((c <? Gen.MIN_DATA_CLUSTER t) || (lenZ fat <=? c)) with false by lia. cbv zeta. rewrite H2, H3.
    specialize (IH g H4 ltac:(cbn [length] in *; lia)). cbn [hd] in IH. rewrite IH. reflexivity.
Qed.

(** a duplicate-free list of FAT indices is no longer than the FAT *)
Lemma nodup_bounded (l:list Z) n : NoDup l -> Forall (fun c => 0 <= c < Z.of_nat n) l -> (length l <= n)%nat.
Proof.
  intros Hnd Hr. rewrite <- (map_length Z.to_nat l), <- (seq_length n 0).
  apply NoDup_incl_length.
  - clear Hr. induction Hnd as [|x l Hx Hnd IH]; [constructor|]. cbn [map].
    (* injectivity needs the range; redo with range *) 
Abort.
Lemma nodup_bounded (l:list Z) n : NoDup l -> Forall (fun c => 0 <= c < Z.of_nat n) l -> (length l <= n)%nat.
Proof.
  intros Hnd Hr. rewrite <- (map_length Z.to_nat l), <- (seq_length n 0).
  apply NoDup_incl_length.
  - induction Hnd as [|x l Hx Hnd IH]; [constructor|]. inversion Hr as [|? ? Hxr Hlr]; subst. cbn [map]. constructor; [|apply IH; exact Hlr].
    intros Hin. apply in_map_iff in Hin. destruct Hin as (y & Hy & Hyl). rewrite Forall_forall in Hlr. specialize (Hlr y Hyl).
    assert (y = x) by lia. subst. contradiction.
  - intros k Hk. apply in_map_iff in Hk. destruct Hk as (y & <- & Hy). rewrite Forall_forall in Hr. specialize (Hr y Hy). apply in_seq. lia.
Qed.

(** appending: the old path, its last cluster re-pointed at the head of a new path *)
Lemma last_in (l:list Z) : l <> [] -> In (last l 0) l.
Proof. intros H. destruct (exists_last H) as (l' & a & ->). rewrite last_last. apply in_or_app. right. left. reflexivity. Qed.
Lemma links_nonempty t dm fat l : links t dm fat l -> l <> [].
Proof. destruct l; [intros []|discriminate]. Qed.
Lemma links_extend t dm a : forall fat fat' b, NoDup a -> links t dm fat a -> links t dm fat' b -> lenZ fat' = lenZ fat ->
  (forall c, In c a -> c <> last a 0 -> nthZ fat' c = nthZ fat c) -> nthZ fat' (last a 0) = hd 0 b -> is_data t dm (hd 0 b) = true ->
  links t dm fat' (a ++ b).
Proof.
  induction a as [|c [|d r] IH]; intros fat fat' b Hnd Ha Hb Hl Hfr Hlast Hd; [destruct Ha| |].
  - destruct Ha as (H1 & _ & _). cbn [app last] in *. destruct b as [|x b']; [destruct Hb|]. cbn [hd] in *.
    apply links_cons2. repeat split; try lia; assumption.
  - apply links_cons2 in Ha. destruct Ha as (H1 & H2 & H3 & H4). inversion Hnd as [|? ? Hc Hnd']; subst.
    change ((c :: nthZ fat c :: r) ++ b) with (c :: (nthZ fat c :: r) ++ b). change ((nthZ fat c :: r) ++ b) with (nthZ fat c :: r ++ b).
    apply links_cons2.
    assert (Hcl : c <> last (c :: nthZ fat c :: r) 0).
    { change (last (c :: nthZ fat c :: r) 0) with (last (nthZ fat c :: r) 0). intro E. apply Hc. rewrite E at 1. apply last_in. discriminate. }
    split; [lia|]. split; [apply Hfr; [left; reflexivity|exact Hcl]|]. split; [exact H3|].
    change (nthZ fat c :: r ++ b) with ((nthZ fat c :: r) ++ b). apply (IH fat); try assumption.
    intros x Hx Hxl. apply Hfr; [right; exact Hx|exact Hxl].
Qed.

Lemma is_data_min t dm c : is_data t dm c = true -> Gen.MIN_DATA_CLUSTER t <= c.
Proof. unfold is_data. lia. Qed.
Lemma is_chain_links t dm fat eoc l : is_eoc t eoc = true -> is_data t dm eoc = false -> is_chain fat eoc l ->
  Forall (fun c => 0 <= c < lenZ fat /\ is_data t dm c = true) l -> links t dm fat l.
Proof.
  intros He Hnd. induction l as [|c [|d r] IH]; intros H Hf; [destruct H| |].
  - cbn [is_chain] in H. destruct (Forall_inv Hf) as [Hc Hcd]. apply is_data_min in Hcd. cbn [links]. rewrite H. split; [lia|]. split; [exact Hnd|exact He].
  - destruct H as [H1 H2]. destruct (Forall_inv Hf) as [Hc Hcd]. apply is_data_min in Hcd. pose proof (Forall_inv_tail Hf) as Hr. destruct (Forall_inv Hr) as [_ Hdd].
    apply links_cons2. repeat split; try lia; try assumption. apply IH; assumption.
Qed.

(** the allocator's linking, seen by the follower: the old chain followed by the new clusters *)
Theorem extend_chain t dm fat i ch new : vt t -> dok t dm ->
  chain_go (length fat) t dm fat i = (ch, true) ->
  new <> [] -> StronglySorted Z.lt new ->
  Forall (fun c => 2 <= c <= Gen.MAX_DATA_CLUSTER t /\ c < lenZ fat /\ nthZ fat c = 0) new ->
  let fat' := updZ (link_chain fat new (Gen.END_OF_CLUSTER_MAX t)) (last ch 0) (hd 0 new) in
  chain_go (length fat') t dm fat' i = (ch ++ new, true).
Proof.
  intros Hv Hdm Hc Hne Hs Hf fat'.
  destruct (vt_consts t Hv) as (Hmin & _ & Hmax & _).
  destruct (chain_go_links _ _ _ _ _ _ Hc) as [Hl Hh]. pose proof (chain_go_nodup _ _ _ _ _ _ Hc) as Hnd.
  pose proof (links_in_range _ _ _ _ Hl) as Hr. pose proof (links_nonfree _ _ _ _ Hv Hl) as Hnf. pose proof (links_nonempty _ _ _ _ Hl) as Hchne.
  set (f1 := link_chain fat new (Gen.END_OF_CLUSTER_MAX t)).
  assert (Hl1 : length f1 = length fat) by apply link_chain_length.
  assert (Hl1z : lenZ f1 = lenZ fat) by (unfold lenZ; rewrite Hl1; reflexivity).
  assert (Hl' : lenZ fat' = lenZ fat) by (unfold fat', lenZ; rewrite updZ_length; exact Hl1z).
  assert (Hdis : forall c, In c new -> ~ In c ch).
  { intros c Hn Ho. rewrite Forall_forall in Hf, Hnf. specialize (Hf c Hn). specialize (Hnf c Ho). lia. }
  assert (Hlast : In (last ch 0) ch) by (apply last_in; exact Hchne).
  assert (Hlr : 0 <= last ch 0 < lenZ fat) by (rewrite Forall_forall in Hr; apply Hr; exact Hlast).
  assert (Hnew1 : links t dm f1 new).
  { apply (is_chain_links t dm f1 (Gen.END_OF_CLUSTER_MAX t)); [apply eoc_max_is_eoc; exact Hv|apply eoc_max_not_data; assumption| |].
    - apply link_chain_is_chain; [exact Hne|exact Hs|]. eapply Forall_impl; [|exact Hf]. cbv beta. intros; lia.
    - eapply Forall_impl; [|exact Hf]. cbv beta. intros a Ha. rewrite Hl1z. unfold is_data. rewrite Hmin. destruct Hdm. split; lia. }
  assert (Hnew : links t dm fat' new).
  { apply (links_frame t dm f1); [rewrite Hl1z; exact Hl'| |exact Hnew1].
    intros c Hcn. unfold fat'. apply nthZ_updZ_other; [lia| |].
    - rewrite Forall_forall in Hf. specialize (Hf c Hcn). lia.
    - intro E. apply (Hdis c Hcn). rewrite <- E. exact Hlast. }
  assert (Hhd : In (hd 0 new) new) by (destruct new; [congruence|left; reflexivity]).
  assert (Hall : links t dm fat' (ch ++ new)).
  { apply (links_extend t dm ch fat); try assumption.
    - intros c Hcc Hne'. unfold fat'. rewrite nthZ_updZ_other; [|lia| |congruence].
      + unfold f1. apply link_chain_other.
        * rewrite Forall_forall in Hr. specialize (Hr c Hcc). lia.
        * eapply Forall_impl; [|exact Hf]. cbv beta. intros; lia.
        * intro Hin. apply (Hdis c Hin Hcc).
      + rewrite Forall_forall in Hr. specialize (Hr c Hcc). lia.
    - unfold fat'. fold f1. apply nthZ_updZ_same. rewrite Hl1z. exact Hlr.
    - rewrite Forall_forall in Hf. specialize (Hf _ Hhd). unfold is_data. rewrite Hmin. destruct Hdm. lia. }
  assert (Hhd' : hd 0 (ch ++ new) = i) by (destruct ch; [congruence|exact Hh]).
  rewrite <- Hhd'. apply links_chain_go; [exact Hall|].
  apply nodup_bounded.
  - apply NoDup_app'; [exact Hnd| |intros c H1 H2; apply (Hdis c H2 H1)].
    clear - Hs. induction Hs as [|x l Hs IH Hlt]; constructor; [|exact IH]. intro Hin. rewrite Forall_forall in Hlt. specialize (Hlt _ Hin). lia.
  - replace (Z.of_nat (length fat')) with (lenZ fat) by (rewrite <- Hl'; reflexivity).
    apply Forall_app. split; [exact Hr|]. eapply Forall_impl; [|exact Hf]. cbv beta. intros; lia.
Qed.

Lemma dmax_dok s : vt (ft s) -> dok (ft s) (dmax s).
Proof. intros Hv. destruct (vt_bad _ Hv) as [_ H]. unfold dok, dmax. lia. Qed.
Lemma max_cluster_geo s s' : s_h s' = s_h s -> s_p s' = s_p s -> max_cluster s' = max_cluster s.
Proof. intros H1 H2. unfold max_cluster, count_of_clusters, total_sectors. rewrite H1, H2. reflexivity. Qed.
Lemma dmax_geo s s' : s_h s' = s_h s -> s_p s' = s_p s -> dmax s' = dmax s.
Proof. intros H1 H2. unfold dmax, ft, max_cluster, count_of_clusters, total_sectors. rewrite H1, H2. reflexivity. Qed.

(** * [write_dir] then [read_dir], hypotheses on the state BEFORE the write only *)
Definition vol_ok (s:st) : Prop := forall c, 2 <= c <= max_cluster s -> inside s c.

Lemma erase_clusters_fat cs : forall s s', erase_clusters s cs = Ok s' -> s_fat s' = s_fat s /\ s_hint s' = s_hint s.
Proof.
  induction cs as [|c r IH]; intros s s' H; [inversion H; auto|].
  cbn [erase_clusters] in H. destruct (write_at _ _ _) as [s1|] eqn:E; [|discriminate]. cbn [bind] in H.
  apply write_at_ok in E. destruct E as [_ ->]. apply IH in H. exact H.
Qed.
Lemma allocate_fat s size erase new s2 : allocate s size erase = Ok (new, s2) ->
  s_fat s2 = link_chain (s_fat s) new (Gen.END_OF_CLUSTER_MAX (ft s)).
Proof.
  unfold allocate. destruct (s_ro s); [discriminate|]. destruct (alloc_scan _ _ _ _ _ _) as [l j]. destruct (negb _); [discriminate|].
  destruct erase.
  - destruct (erase_clusters _ l) as [s3|] eqn:E; [|discriminate]. cbn [bind]. intros H; inversion H; subst.
    apply erase_clusters_fat in E. destruct E as [-> _]. reflexivity.
  - intros H; inversion H; subst. reflexivity.
Qed.

Lemma ceil_div_covers a b : 0 < b -> a <= ceil_div a b * b.
Proof. intros Hb. unfold ceil_div. pose proof (Z.div_mod (a + b - 1) b ltac:(lia)). pose proof (Z.mod_pos_bound (a + b - 1) b Hb). nia. Qed.

Lemma ceil_div_le a b n : 0 < b -> a <= n * b -> ceil_div a b <= n.
Proof. intros Hb H. unfold ceil_div. assert ((a + b - 1) / b < n + 1); [|lia]. apply Z.div_lt_upper_bound; [exact Hb|]. lia. Qed.

Theorem write_dir_read_dir s c es s' ch :
  dev_ok (s_dev s) -> geom_ok s -> vt (ft s) -> 0 <= s_hint s -> Forall entry_ok es -> c <> -1 ->
  chain s c = (ch, true) -> Forall (inside s) ch -> vol_ok s ->
  write_dir s c es = Ok s' -> read_dir s' c = Ok (map canon es).
Proof.
  intros Hd G Hv Hh He Hc Hch Hin Hvol Hw.
  destruct (vt_consts _ Hv) as (Hmin & Hfree & Hmax & _).
  assert (HB : 0 < bpc s) by (destruct G as (G1 & G2 & _ & G4 & _); nia).
  assert (Hfacts : exists cs, chain_all s' c = Ok cs /\ Forall (inside s) cs /\ lenZ (ser_dir es) <= lenZ cs * bpc s).
  { pose proof Hw as Hw'. unfold write_dir in Hw'. destruct (s_ro s) eqn:Ero; [discriminate|].
    replace (is_root_fixed s c) with false in Hw' by (unfold is_root_fixed; lia). cbv zeta in Hw'.
    unfold write_data_to_cluster in Hw'. rewrite Ero, Hch in Hw'. cbv zeta in Hw'.
    set (b := ser_dir es) in *.
    pose proof (ceil_div_covers (lenZ b) (bpc s) HB) as Hcov.
    destruct (Z.max 1 (ceil_div (lenZ b) (bpc s)) <=? lenZ ch) eqn:En.
    - cbn [bind] in Hw'. rewrite Hch in Hw'. destruct (write_chunks_form _ _ _ _ Hw') as (d & l & ->).
      exists ch. split; [unfold chain_all; change (chain (upd_dev s d l) c) with (chain s c); rewrite Hch; reflexivity|].
      split; [exact Hin|]. nia.
    - cbn [negb] in Hw'. destruct (allocate s (lenZ b - lenZ ch * bpc s) true) as [[new s2]|] eqn:Ea; [|discriminate]. cbn [bind] in Hw'.
      destruct (allocate_sound _ _ _ _ _ Hh Ea) as [(Hn & Hs & Hf)|?]; [|lia].
      pose proof (allocate_fat _ _ _ _ _ Ea) as Hfat.
      destruct (allocate_dev _ _ _ _ _ Hd G Hh ltac:(lia) Ea) as [_ Hg2]. destruct (same_geo_facts _ _ Hg2) as (_ & _ & Et2 & _ & _).
      set (s1 := upd_fat s2 (updZ (s_fat s2) (last ch 0) (hd 0 new)) (s_hint s2)) in *.
      assert (Hch1' : 1 <= lenZ ch).
      { pose proof (chain_go_nonempty _ _ _ _ _ _ Hch). destruct ch; [congruence|unfold lenZ; cbn [length]; lia]. }
      assert (Hbig : lenZ ch * bpc s < lenZ b).
      { destruct (Z_lt_dec (lenZ ch * bpc s) (lenZ b)) as [?|Hnl]; [assumption|]. pose proof (ceil_div_le (lenZ b) (bpc s) (lenZ ch) HB ltac:(lia)). lia. }
      assert (Hnn : 1 <= lenZ new).
      { rewrite Hn. unfold Gen.calc_num_clusters. cbv zeta. fold (bpc s). unfold ceil_div.
        apply Z.div_le_lower_bound; [exact HB|]. nia. }
      assert (Hne : new <> []) by (intro; subst new; unfold lenZ in Hnn; cbn in Hnn; lia).
      destruct (chain_raw _ _ _ Hch) as [Hraw Hle].
      assert (Hch1 : chain s1 c = (ch ++ new, true)).
      { apply chain_of_raw.
        - unfold s1. cbn [s_fat upd_fat]. replace (ft (upd_fat s2 _ _)) with (ft s) by (rewrite <- Et2; reflexivity).
          replace (dmax (upd_fat s2 _ _)) with (dmax s) by (symmetry; apply dmax_geo; [apply Hg2|apply Hg2]).
          rewrite Hfat. apply extend_chain; try assumption; [apply dmax_dok; exact Hv|].
          eapply Forall_impl; [|exact Hf]. cbv beta. intros a Ha. rewrite Hfree in Ha. lia.
        - replace (max_cluster s1) with (max_cluster s) by (symmetry; apply max_cluster_geo; [apply Hg2|apply Hg2]).
          apply Forall_app. split; [exact Hle|]. eapply Forall_impl; [|exact Hf]. cbv beta. intros a Ha. lia. }
      rewrite Hch1 in Hw'. destruct (write_chunks_form _ _ _ _ Hw') as (d & l & ->).
      exists (ch ++ new). split; [unfold chain_all; change (chain (upd_dev s1 d l) c) with (chain s1 c); rewrite Hch1; reflexivity|].
      split.
      + apply Forall_app. split; [exact Hin|]. eapply Forall_impl; [|exact Hf]. cbv beta. intros a Ha. apply Hvol. lia.
      + unfold lenZ at 2. rewrite app_length, Nat2Z.inj_add. fold (lenZ ch) (lenZ new). rewrite Hn.
        unfold Gen.calc_num_clusters. cbv zeta. fold (bpc s).
        pose proof (ceil_div_covers (lenZ b - lenZ ch * bpc s) (bpc s) HB). nia. }
  destruct Hfacts as (cs & H1 & H2 & H3).
  eapply chain_dir_roundtrip; try eassumption. lia.
Qed.
