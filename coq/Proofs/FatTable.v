(** FAT-layer theorems about the model's allocator, chain linker and chain follower
    ([Model/FS.v]): C04 (allocation soundness), C08 (allocated clusters are inside the data area),
    C01 (exact out-of-space criterion), C13 (the chain follower is bounded), C09 (all-or-nothing). *)
From Coq Require Import ZArith List Bool Lia Sorted.
From PyFatV Require Import Base.Bytes Base.PyEnv Gen.Pure Model.Codec Model.Dir Model.FS.
Import ListNotations.
Open Scope Z_scope.

(** * the scan of [allocate_bytes] *)
Section Scan.
Variables (fat:list Z) (t maxc:Z).
Let lo := Gen.MIN_DATA_CLUSTER t.
Let hi := Z.min maxc (Gen.MAX_DATA_CLUSTER t).
Let free := Gen.FREE_CLUSTER t.

Lemma alloc_scan_spec fuel : forall i need c,
  In c (fst (alloc_scan fuel fat t maxc i need)) ->
  i <= c < i + Z.of_nat fuel /\ lo <= c <= hi /\ nthZ fat c = free.
Proof.
  induction fuel as [|f IH]; intros i need c H; cbn [alloc_scan] in H; [simpl in H; tauto|].
  fold lo hi free in H.
  destruct ((i <? lo) || (hi <? i)) eqn:E.
  - apply IH in H. lia.
  - apply orb_false_iff in E. destruct E as [E1 E2]. apply Z.ltb_ge in E1, E2.
    destruct need as [|nd]; [simpl in H; tauto|].
    destruct (nthZ fat i =? free) eqn:Ef.
    + destruct (alloc_scan f fat t maxc (i + 1) nd) as [l j] eqn:Es. cbn [fst] in H.
      destruct H as [<-|H].
      * apply Z.eqb_eq in Ef. repeat split; try lia; exact Ef.
      * assert (H' : In c (fst (alloc_scan f fat t maxc (i + 1) nd))) by (rewrite Es; exact H).
        apply IH in H'. lia.
    + apply IH in H. lia.
Qed.

Lemma alloc_scan_sorted fuel : forall i need, StronglySorted Z.lt (fst (alloc_scan fuel fat t maxc i need)).
Proof.
  induction fuel as [|f IH]; intros i need; cbn [alloc_scan]; [constructor|].
  fold lo hi free.
  destruct ((i <? lo) || (hi <? i)); [apply IH|].
  destruct need as [|nd]; [constructor|].
  destruct (nthZ fat i =? free); [|apply IH].
  pose proof (IH (i + 1) nd) as Hs. pose proof (alloc_scan_spec f (i + 1) nd) as Hin.
  destruct (alloc_scan f fat t maxc (i + 1) nd) as [l j]. cbn [fst] in *.
  constructor; [exact Hs|]. apply Forall_forall. intros c Hc. apply Hin in Hc. lia.
Qed.

Lemma alloc_scan_length fuel : forall i need, (length (fst (alloc_scan fuel fat t maxc i need)) <= need)%nat.
Proof.
  induction fuel as [|f IH]; intros i need; cbn [alloc_scan]; [simpl; lia|].
  destruct ((i <? Gen.MIN_DATA_CLUSTER t) || (Z.min maxc (Gen.MAX_DATA_CLUSTER t) <? i)); [apply IH|].
  destruct need as [|nd]; [simpl; lia|].
  destruct (nthZ fat i =? Gen.FREE_CLUSTER t); [|apply IH].
  pose proof (IH (i + 1) nd) as Hl.
  destruct (alloc_scan f fat t maxc (i + 1) nd) as [l j]. cbn [fst length] in *. lia.
Qed.

(** number of free in-range clusters in [i, i+fuel) *)
Fixpoint count_free (fuel:nat) (i:Z) : nat :=
  match fuel with
  | O => O
  | S f => (if negb ((i <? lo) || (hi <? i)) && (nthZ fat i =? free) then 1 else 0) + count_free f (i + 1)
  end.

(** the scan finds exactly min(need, number of free in-range clusters) clusters: the allocator
    reports out-of-space if and only if fewer than [need] free clusters exist at or above the hint *)
Lemma alloc_scan_count fuel : forall i need,
  length (fst (alloc_scan fuel fat t maxc i need)) = Nat.min need (count_free fuel i).
Proof.
  induction fuel as [|f IH]; intros i need; cbn [alloc_scan count_free]; [simpl; lia|].
  fold lo hi free.
  destruct ((i <? lo) || (hi <? i)) eqn:E; cbn [negb andb].
  - rewrite IH. simpl. reflexivity.
  - destruct need as [|nd]; [simpl; reflexivity|].
    destruct (nthZ fat i =? free) eqn:Ef.
    + pose proof (IH (i + 1) nd) as Hl.
      destruct (alloc_scan f fat t maxc (i + 1) nd) as [l j]. cbn [fst length] in *. rewrite Hl. simpl. reflexivity.
    + rewrite IH. simpl. reflexivity.
Qed.
End Scan.

(** * linking *)
Lemma link_chain_length cs : forall fat eoc, length (link_chain fat cs eoc) = length fat.
Proof.
  induction cs as [|c [|d r] IH]; intros fat eoc.
  - reflexivity.
  - apply updZ_length.
  - change (link_chain fat (c :: d :: r) eoc) with (link_chain (updZ fat c d) (d :: r) eoc).
    rewrite IH. apply updZ_length.
Qed.
Lemma link_chain_other cs : forall fat eoc j, 0 <= j -> Forall (fun c => 0 <= c) cs -> ~ In j cs ->
  nthZ (link_chain fat cs eoc) j = nthZ fat j.
Proof.
  induction cs as [|c [|d r] IH]; intros fat eoc j Hj Hpos Hn.
  - reflexivity.
  - inversion Hpos; subst. apply nthZ_updZ_other; try lia. simpl in Hn. intro; subst; tauto.
  - change (link_chain fat (c :: d :: r) eoc) with (link_chain (updZ fat c d) (d :: r) eoc).
    inversion Hpos as [|? ? Hc Hr]; subst.
    rewrite IH; [| lia | exact Hr | simpl in *; tauto].
    apply nthZ_updZ_other; try lia. simpl in Hn. intro; subst; tauto.
Qed.

(** a well-formed chain in a FAT: consecutive links, end-of-chain mark in the last cluster *)
Fixpoint is_chain (fat:list Z) (eoc:Z) (cs:list Z) : Prop :=
  match cs with
  | [] => False
  | [c] => nthZ fat c = eoc
  | c :: ((d :: _) as r) => nthZ fat c = d /\ is_chain fat eoc r
  end.

Lemma link_chain_is_chain cs : forall fat eoc,
  cs <> [] -> StronglySorted Z.lt cs -> Forall (fun c => 0 <= c < lenZ fat) cs -> is_chain (link_chain fat cs eoc) eoc cs.
Proof.
  induction cs as [|c [|d r] IH]; intros fat eoc Hne Hs Hr; [congruence| |].
  - cbn [link_chain is_chain]. inversion Hr; subst. apply nthZ_updZ_same. assumption.
  - change (link_chain fat (c :: d :: r) eoc) with (link_chain (updZ fat c d) (d :: r) eoc).
    inversion Hr as [|? ? Hc Hr']; subst. inversion Hs as [|? ? Hs' Hlt]; subst.
    cbn [is_chain]. split.
    + rewrite link_chain_other.
      * apply nthZ_updZ_same. assumption.
      * lia.
      * eapply Forall_impl; [|exact Hr']. intros a Ha. cbv beta in Ha. lia.
      * intro Hin. rewrite Forall_forall in Hlt. apply Hlt in Hin. lia.
    + apply IH; [congruence | exact Hs' |].
      eapply Forall_impl; [|exact Hr']. intros a Ha. cbv beta in *. unfold lenZ in *. rewrite updZ_length. exact Ha.
Qed.

(** * the chain follower is bounded (C13): it yields at most [fuel] clusters, whatever the FAT holds *)
Lemma chain_go_length fuel : forall t dm fat i, (length (fst (chain_go fuel t dm fat i)) <= fuel)%nat.
Proof.
  induction fuel as [|f IH]; intros t dm fat i; cbn [chain_go]; [simpl; lia|].
  destruct ((i <? Gen.MIN_DATA_CLUSTER t) || (lenZ fat <=? i)); [simpl; lia|].
  destruct (is_data t dm (nthZ fat i)).
  - pose proof (IH t dm fat (nthZ fat i)) as H. destruct (chain_go f t dm fat (nthZ fat i)) as [r ok]. cbn [fst length] in *. lia.
  - destruct (is_eoc t (nthZ fat i)); simpl; lia.
Qed.
Lemma min_data_nonneg t : 0 <= Gen.MIN_DATA_CLUSTER t.
Proof. unfold Gen.MIN_DATA_CLUSTER. destruct (t =? 12); [lia|]. destruct (t =? 16); [lia|]. destruct (t =? 32); lia. Qed.
(** ... each of them a data-cluster number inside the FAT: clusters 0 and 1 are never followed *)
Lemma chain_go_in_fat fuel : forall t dm fat i c, In c (fst (chain_go fuel t dm fat i)) -> 0 <= c < lenZ fat /\ Gen.MIN_DATA_CLUSTER t <= c.
Proof.
  induction fuel as [|f IH]; intros t dm fat i c H; cbn [chain_go] in H; [simpl in H; tauto|]. pose proof (min_data_nonneg t) as Hm.
  destruct ((i <? Gen.MIN_DATA_CLUSTER t) || (lenZ fat <=? i)) eqn:E; [simpl in H; tauto|].
  apply orb_false_iff in E. destruct E as [E1 E2]. apply Z.ltb_ge in E1. apply Z.leb_gt in E2.
  destruct (is_data t dm (nthZ fat i)).
  - pose proof (IH t dm fat (nthZ fat i) c) as H'. destruct (chain_go f t dm fat (nthZ fat i)) as [r ok]. cbn [fst] in *.
    destruct H as [<-|H]; [lia|auto].
  - destruct (is_eoc t (nthZ fat i)); simpl in H; [destruct H as [<-|[]]; lia | tauto].
Qed.
(** a chain that is reported complete really is one: consecutive links ending in an end-of-chain value *)
Lemma chain_go_ok_links fuel : forall t dm fat i l,
  chain_go fuel t dm fat i = (l, true) ->
  l <> [] /\ hd 0 l = i /\
  (forall k, (S k < length l)%nat -> nth (S k) l 0 = nthZ fat (nth k l 0) /\ is_data t dm (nthZ fat (nth k l 0)) = true) /\
  is_eoc t (nthZ fat (last l 0)) = true.
Proof.
  induction fuel as [|f IH]; intros t dm fat i l H; cbn [chain_go] in H; [discriminate|].
  destruct ((i <? Gen.MIN_DATA_CLUSTER t) || (lenZ fat <=? i)); [discriminate|].
  destruct (is_data t dm (nthZ fat i)) eqn:Ed.
  - destruct (chain_go f t dm fat (nthZ fat i)) as [r ok] eqn:Er. inversion H; subst l ok.
    destruct (IH _ _ _ _ _ Er) as (Hne & Hhd & Hl & He).
    split; [discriminate|]. split; [reflexivity|]. split.
    + intros [|k] Hk.
      * cbn [nth]. destruct r as [|x r']; [congruence|]. cbn [hd] in Hhd. cbn [nth]. subst x. split; [reflexivity|exact Ed].
      * cbn [nth length] in *. apply Hl. lia.
    + destruct r as [|x r']; [congruence|]. exact He.
  - destruct (is_eoc t (nthZ fat i)) eqn:Ee; [|discriminate]. inversion H; subst l.
    split; [discriminate|]. split; [reflexivity|]. split; [intros k Hk; simpl in Hk; lia | exact Ee].
Qed.

(** * allocate: soundness of what it returns (C04 / C08) and the exact out-of-space criterion (C01) *)
Theorem allocate_sound s size erase cs s' :
  0 <= s_hint s ->
  allocate s size erase = Ok (cs, s') ->
  lenZ cs = Gen.calc_num_clusters (s_p s) size /\
  StronglySorted Z.lt cs /\
  Forall (fun c => 2 <= Gen.MIN_DATA_CLUSTER (ft s) <= c /\ c <= max_cluster s /\ c <= Gen.MAX_DATA_CLUSTER (ft s) /\
                   nthZ (s_fat s) c = Gen.FREE_CLUSTER (ft s) /\ s_hint s <= c < lenZ (s_fat s)) cs \/
  (Gen.MIN_DATA_CLUSTER (ft s) < 2).
Proof.
  intros Hh Ha. unfold allocate in Ha.
  destruct (s_ro s); [discriminate|].
  rewrite Z.max_r in Ha by lia.
  destruct (alloc_scan (Z.to_nat (lenZ (s_fat s) - s_hint s)) (s_fat s) (ft s) (max_cluster s) (s_hint s)
              (Z.to_nat (Gen.calc_num_clusters (s_p s) size))) as [l j] eqn:Es.
  destruct (negb (lenZ l =? Gen.calc_num_clusters (s_p s) size)) eqn:El; [discriminate|].
  apply negb_false_iff, Z.eqb_eq in El.
  assert (cs = l) by (destruct erase; [destruct (erase_clusters _ l); inversion Ha; reflexivity | inversion Ha; reflexivity]).
  subst l.
  destruct (Z_lt_dec (Gen.MIN_DATA_CLUSTER (ft s)) 2) as [Hm|Hm]; [right; exact Hm|left].
  split; [exact El|]. split.
  - pose proof (alloc_scan_sorted (s_fat s) (ft s) (max_cluster s) (Z.to_nat (lenZ (s_fat s) - s_hint s)) (s_hint s)
                  (Z.to_nat (Gen.calc_num_clusters (s_p s) size))) as Hs. rewrite Es in Hs. exact Hs.
  - apply Forall_forall. intros c Hc.
    pose proof (alloc_scan_spec (s_fat s) (ft s) (max_cluster s) (Z.to_nat (lenZ (s_fat s) - s_hint s)) (s_hint s)
                  (Z.to_nat (Gen.calc_num_clusters (s_p s) size)) c) as Hsp. rewrite Es in Hsp. specialize (Hsp Hc).
    unfold lenZ in *. lia.
Qed.

Theorem allocate_enospc_iff s size erase :
  s_ro s = false -> 0 <= s_hint s -> 0 <= Gen.calc_num_clusters (s_p s) size ->
  (allocate s size erase = Err ENOSPC <->
   (count_free (s_fat s) (ft s) (max_cluster s) (Z.to_nat (lenZ (s_fat s) - s_hint s)) (s_hint s)
      < Z.to_nat (Gen.calc_num_clusters (s_p s) size))%nat).
Proof.
  intros Hro Hh Hn. unfold allocate. rewrite Hro. rewrite Z.max_r by lia.
  pose proof (alloc_scan_count (s_fat s) (ft s) (max_cluster s) (Z.to_nat (lenZ (s_fat s) - s_hint s)) (s_hint s)
                (Z.to_nat (Gen.calc_num_clusters (s_p s) size))) as Hc.
  destruct (alloc_scan _ _ _ _ _ _) as [l j]. cbn [fst] in Hc.
  destruct (negb (lenZ l =? Gen.calc_num_clusters (s_p s) size)) eqn:El.
  - apply negb_true_iff, Z.eqb_neq in El. unfold lenZ in El. split; [intros _; lia | reflexivity].
  - apply negb_false_iff, Z.eqb_eq in El. unfold lenZ in El. split.
    + intros H. destruct erase; [destruct (erase_clusters _ l) as [?|e] eqn:Ee; [discriminate|] | discriminate].
      (* erase failed: only possible with EROFS, excluded *)
      exfalso. clear - Ee Hro H. inversion H; subst e. clear H.
      revert Ee. generalize (upd_fat s (link_chain (s_fat s) l (Gen.END_OF_CLUSTER_MAX (ft s))) j).
      intros s0. assert (Hr: s_ro s0 = s_ro s0) by reflexivity. revert s0 Hr.
      induction l as [|c r IH]; intros s0 _ Ee; cbn [erase_clusters] in Ee; [discriminate|].
      unfold write_at in Ee. destruct (s_ro s0); cbn [bind] in Ee; [discriminate|].
      eapply IH; [reflexivity | exact Ee].
    + lia.
Qed.

(** all-or-nothing (C09): a refused allocation returns no state at all, and a granted one changes the FAT
    only at the clusters it hands out *)
Theorem allocate_frame s size cs s' j :
  0 <= s_hint s -> allocate s size false = Ok (cs, s') -> 0 <= j -> ~ In j cs -> 2 <= Gen.MIN_DATA_CLUSTER (ft s) ->
  nthZ (s_fat s') j = nthZ (s_fat s) j.
Proof.
  intros Hh Ha Hj Hn Hm. destruct (allocate_sound s size false cs s' Hh Ha) as [(Hl & Hs & Hf)|?]; [|lia].
  unfold allocate in Ha. destruct (s_ro s); [discriminate|].
  destruct (alloc_scan _ _ _ _ _ _) as [l jj]. destruct (negb _); [discriminate|]. inversion Ha; subst. cbn [s_fat upd_fat].
  apply link_chain_other; [exact Hj | | exact Hn].
  eapply Forall_impl; [|exact Hf]. intros a Ha'. cbv beta in Ha'. lia.
Qed.

(** * the follower's view of the FAT (D38): only the entries of clusters the volume has.  A chain reported complete is the
    same chain in the whole table, and a complete chain of the whole table whose members the volume has is seen *)
Lemma nthZ_firstn (l:list Z) K i : 0 <= i < Z.of_nat K -> nthZ (firstn K l) i = nthZ l i.
Proof.
  intros H. unfold nthZ. assert (Hn : (Z.to_nat i < K)%nat) by lia. clear H. revert Hn. generalize (Z.to_nat i) as n. intros n Hn.
  revert l K Hn. induction n as [|m IH]; intros l K Hn; destruct K as [|k]; try lia; destruct l as [|x r]; try reflexivity.
  cbn [firstn nth]. apply IH. lia.
Qed.
Lemma lenZ_firstn (l:list Z) K : lenZ (firstn K l) = Z.min (Z.of_nat K) (lenZ l).
Proof. unfold lenZ. rewrite firstn_length. lia. Qed.
Lemma chain_go_view_raw f : forall t dm fat K i l, chain_go f t dm (firstn K fat) i = (l, true) ->
  chain_go f t dm fat i = (l, true) /\ Forall (fun c => c < Z.of_nat K) l.
Proof.
  induction f as [|g IH]; intros t dm fat K i l H; cbn [chain_go] in *; [discriminate|]. pose proof (min_data_nonneg t) as Hm.
  rewrite lenZ_firstn in H.
  destruct ((i <? Gen.MIN_DATA_CLUSTER t) || (Z.min (Z.of_nat K) (lenZ fat) <=? i)) eqn:E; [discriminate|].
  replace ((i <? Gen.MIN_DATA_CLUSTER t) || (lenZ fat <=? i)) with false by lia. cbv zeta in *.
  rewrite nthZ_firstn in H by lia.
  destruct (is_data t dm (nthZ fat i)).
  - destruct (chain_go g t dm (firstn K fat) (nthZ fat i)) as [r ok] eqn:Er. inversion H; subst l ok.
    destruct (IH _ _ _ _ _ _ Er) as [Hr Hf]. rewrite Hr. split; [reflexivity|]. constructor; [lia|exact Hf].
  - destruct (is_eoc t (nthZ fat i)); [|discriminate]. inversion H; subst l. split; [reflexivity|]. constructor; [lia|constructor].
Qed.
Lemma chain_go_raw_view f : forall t dm fat K i l, chain_go f t dm fat i = (l, true) -> Forall (fun c => c < Z.of_nat K) l ->
  chain_go f t dm (firstn K fat) i = (l, true).
Proof.
  induction f as [|g IH]; intros t dm fat K i l H Hf; cbn [chain_go] in *; [discriminate|]. pose proof (min_data_nonneg t) as Hm.
  rewrite lenZ_firstn.
  destruct ((i <? Gen.MIN_DATA_CLUSTER t) || (lenZ fat <=? i)) eqn:E; [discriminate|]. cbv zeta in *.
  assert (Hi : i < Z.of_nat K).
  { destruct (is_data t dm (nthZ fat i)).
    - destruct (chain_go g t dm fat (nthZ fat i)) as [r ok]. inversion H; subst l ok. inversion Hf; subst. assumption.
    - destruct (is_eoc t (nthZ fat i)); [|discriminate]. inversion H; subst l. inversion Hf; subst. assumption. }
  replace ((i <? Gen.MIN_DATA_CLUSTER t) || (Z.min (Z.of_nat K) (lenZ fat) <=? i)) with false by lia.
  rewrite nthZ_firstn by lia.
  destruct (is_data t dm (nthZ fat i)).
  - destruct (chain_go g t dm fat (nthZ fat i)) as [r ok] eqn:Er. inversion H; subst l ok. inversion Hf; subst.
    rewrite (IH _ _ _ K _ _ Er) by assumption. reflexivity.
  - exact H.
Qed.
(** state level *)
Lemma chain_raw s c l : chain s c = (l, true) ->
  chain_go (length (s_fat s)) (ft s) (dmax s) (s_fat s) c = (l, true) /\ Forall (fun x => x <= max_cluster s) l.
Proof.
  unfold chain, vfat. intros H. pose proof (chain_go_in_fat (length (s_fat s)) (ft s) (dmax s) (firstn (Z.to_nat (max_cluster s + 1)) (s_fat s)) c) as Hin. rewrite H in Hin. cbn [fst] in Hin.
  destruct (chain_go_view_raw _ _ _ _ _ _ _ H) as [Hr Hf]. split; [exact Hr|].
  apply Forall_forall. intros x Hx. rewrite Forall_forall in Hf. specialize (Hf x Hx). destruct (Hin x Hx) as [Hp _]. lia.
Qed.
Lemma chain_of_raw s c l : chain_go (length (s_fat s)) (ft s) (dmax s) (s_fat s) c = (l, true) -> Forall (fun x => x <= max_cluster s) l ->
  chain s c = (l, true).
Proof.
  intros H Hf. unfold chain, vfat. apply chain_go_raw_view; [exact H|]. eapply Forall_impl; [|exact Hf]. intros x Hx. cbv beta in *. lia.
Qed.
(** whatever the follower yields, complete or not, is a cluster the volume has *)
Lemma chain_members_bounded s c l ok : chain s c = (l, ok) -> Forall (fun x => Gen.MIN_DATA_CLUSTER (ft s) <= x <= max_cluster s /\ 0 <= x < lenZ (s_fat s)) l.
Proof.
  unfold chain, vfat. intros H. apply Forall_forall. intros x Hx.
  pose proof (chain_go_in_fat (length (s_fat s)) (ft s) (dmax s) (firstn (Z.to_nat (max_cluster s + 1)) (s_fat s)) c x) as Hin. rewrite H in Hin. cbn [fst] in Hin.
  specialize (Hin Hx). rewrite lenZ_firstn in Hin. lia.
Qed.
