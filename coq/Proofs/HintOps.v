(** The hint invariant ([Proofs/Hint.v]) through the compound primitives that rewrite directories and file data:
    [write_data_to_cluster] (follow the chain, allocate what is missing, link it behind the last cluster, write) and [write_dir]. *)
From Coq Require Import ZArith List Bool Lia.
From PyFatV Require Import Base.Bytes Base.PyEnv Gen.Pure Model.Codec Model.Dir Model.FS Proofs.FatTable Proofs.Chains Proofs.DirState Proofs.Inside Proofs.Hint.
Import ListNotations.
Open Scope Z_scope.

Lemma hint_inv_ext s s' : s_fat s' = s_fat s -> s_hint s' = s_hint s -> s_h s' = s_h s -> s_p s' = s_p s -> hint_inv s -> hint_inv s'.
Proof.
  intros F H A B Hi. destruct (frame_eqs s s' A B) as (E1 & _ & E3 & _). unfold hint_inv. rewrite F, H, E1, E3. exact Hi.
Qed.

(** a hint that is not positive is as good as 0: the scan starts at [max 0 hint] *)
Lemma allocate_nohint s size e : s_hint s <= 0 -> allocate s size e = allocate (upd_fat s (s_fat s) 0) size e.
Proof. intros H. unfold allocate. cbn [upd_fat s_ro s_p s_fat s_hint]. rewrite (Z.max_l 0 (s_hint s)) by lia. reflexivity. Qed.
Theorem allocate_hint_inv_any s size e cs s' : vt (ft s) -> hint_inv s -> allocate s size e = Ok (cs, s') -> hint_inv s'.
Proof.
  intros Hv Hi Ha. destruct (Z_le_dec 0 (s_hint s)) as [Hh|Hh]; [eapply allocate_hint_inv; eassumption|].
  rewrite allocate_nohint in Ha by lia.
  eapply (allocate_hint_inv (upd_fat s (s_fat s) 0)); [exact Hv | cbn; lia | apply hint_zero_inv; reflexivity | exact Ha].
Qed.
Lemma allocate_len s size e cs s' : allocate s size e = Ok (cs, s') -> lenZ cs = Gen.calc_num_clusters (s_p s) size.
Proof.
  unfold allocate. destruct (s_ro s); [discriminate|]. destruct (alloc_scan _ _ _ _ _ _) as [l j].
  destruct (negb (lenZ l =? _)) eqn:El; [discriminate|]. apply negb_false_iff, Z.eqb_eq in El.
  destruct e; [destruct (erase_clusters _ l); cbn [bind]; [|discriminate]|]; intros H; inversion H; subst; exact El.
Qed.
Lemma write_chunks_mem cs : forall s d s', write_chunks s cs d = Ok s' ->
  s_fat s' = s_fat s /\ s_hint s' = s_hint s /\ s_h s' = s_h s /\ s_p s' = s_p s.
Proof.
  induction cs as [|c r IH]; intros s d s' H; cbn [write_chunks] in H; [inversion H; auto|]. cbv zeta in H.
  destruct (write_at _ _ _) as [s1|] eqn:E; [|discriminate]. cbn [bind] in H. apply write_at_ok in E. destruct E as [_ ->].
  destruct (_ <=? _)%nat; [inversion H; subst; auto|]. apply IH in H. exact H.
Qed.

Theorem wdc_hint_inv s data c e s' : pre s -> hint_inv s -> write_data_to_cluster s data c e = Ok s' -> hint_inv s'.
Proof.
  intros Hp Hi H. unfold write_data_to_cluster in H. destruct (s_ro s); [discriminate|]. cbv zeta in H.
  destruct (chain s c) as [ch ok] eqn:Ec.
  match type of H with bind ?X _ = _ => destruct X as [s1|] eqn:E1; [|discriminate] end. cbn [bind] in H.
  assert (H1 : hint_inv s1).
  { destruct (_ <=? lenZ ch) eqn:En; [inversion E1; subst; exact Hi|]. destruct ok; [|discriminate]. cbn [negb] in E1.
    destruct (allocate s _ e) as [[l s2]|] eqn:Ea; [|discriminate]. cbn [bind] in E1. inversion E1; subst. clear E1.
    pose proof (allocate_hint_inv_any _ _ _ _ _ (proj1 Hp) Hi Ea) as Hi2.
    pose proof (allocate_free _ _ _ _ _ (proj1 Hp) Ea) as Hfr. pose proof (allocate_len _ _ _ _ _ Ea) as Hlen.
    pose proof (J_allocate _ _ _ _ _ Hp Ea) as (A1 & A2 & _).
    destruct (frame_eqs s s2 A1 A2) as (Eft & _).
    assert (Hne : ch <> []) by (unfold chain in Ec; eapply chain_go_nonempty; exact Ec).
    pose proof (chain_members _ _ _ _ Hp Ec) as Hm. rewrite Forall_forall in Hm. destruct (Hm _ (last_in ch Hne)) as [Hk _].
    destruct Hp as (Hv & Hg & _). destruct Hg as (G1 & G2 & G3 & _).
    assert (Hb : 0 < bpc s) by (rewrite G3; apply Z.mul_pos_pos; assumption).
    apply Z.leb_gt in En.
    assert (Hch : 1 <= lenZ ch) by (destruct ch; [congruence | unfold lenZ; cbn [length]; lia]).
    assert (Hsz : lenZ ch * bpc s < lenZ data).
    { destruct (Z_lt_le_dec (lenZ ch * bpc s) (lenZ data)) as [?|Hle]; [assumption|]. exfalso.
      pose proof (ceil_div_le (lenZ data) (bpc s) (lenZ ch) Hb Hle). lia. }
    assert (Hl1 : 1 <= lenZ l).
    { rewrite Hlen. unfold Gen.calc_num_clusters. cbv zeta. fold (bpc s). unfold ceil_div. apply Z.div_le_lower_bound; [exact Hb|]. lia. }
    apply upd_entry_hint_inv; [exact Hi2 | lia |].
    destruct l as [|x q]; [unfold lenZ in Hl1; cbn [length] in Hl1; lia|]. cbn [hd]. inversion Hfr as [|? ? (A & _) _]; subst.
    rewrite Eft. destruct (vt_consts _ Hv) as (_ & Hfree & _). lia. }
  destruct (chain s1 c) as [ch1 ok1]. apply write_chunks_mem in H. destruct H as (F & Hh & A & B).
  exact (hint_inv_ext _ _ F Hh A B H1).
Qed.

Theorem write_dir_hint_inv s loc es s' : pre s -> hint_inv s -> write_dir s loc es = Ok s' -> hint_inv s'.
Proof.
  intros Hp Hi H. unfold write_dir in H. destruct (s_ro s); [discriminate|]. cbv zeta in H. destruct (is_root_fixed s loc).
  - destruct (_ <? _); [discriminate|]. apply write_at_ok in H. destruct H as [_ ->]. exact Hi.
  - eapply wdc_hint_inv; eassumption.
Qed.

(** * whole operations and histories: [K] = [J] (Inside.v) together with "the hint invariant is kept" *)
From Coq Require Import Relations.
From PyFatV Require Import Proofs.BootSafe.
Definition K (a b:st) : Prop := J a b /\ (hint_inv a -> hint_inv b).
Lemma K_refl s : K s s. Proof. split; [apply J_refl | auto]. Qed.
Lemma K_trans a b c : K a b -> K b c -> K a c.
Proof. intros [J1 H1] [J2 H2]. split; [eapply J_trans; eassumption | auto]. Qed.
Lemma pre_K a b : pre a -> K a b -> pre b.
Proof. intros Hp [Hj _]. eapply pre_J; eassumption. Qed.

Lemma flush_copies_mem n : forall s b i s', flush_copies s b i n = Ok s' ->
  s_fat s' = s_fat s /\ s_hint s' = s_hint s /\ s_h s' = s_h s /\ s_p s' = s_p s.
Proof.
  induction n as [|k IH]; intros s b i s' H; cbn [flush_copies] in H; [inversion H; auto|].
  destruct (write_at _ _ _) as [s1|] eqn:E; [|discriminate]. cbn [bind] in H. apply write_at_ok in E. destruct E as [_ ->].
  apply IH in H. exact H.
Qed.
Lemma K_flush_fat s s' : pre s -> flush_fat s = Ok s' -> K s s'.
Proof.
  intros Hp H. split; [eapply J_flush_fat; eassumption|]. intros Hi. unfold flush_fat in H. destruct (s_ro s); [discriminate|].
  apply flush_copies_mem in H. destruct H as (F & Hh & A & B). exact (hint_inv_ext _ _ F Hh A B Hi).
Qed.
Lemma K_write_dir s loc es s' : pre s -> write_dir s loc es = Ok s' -> K s s'.
Proof. intros Hp H. split; [eapply J_write_dir; eassumption | intros Hi; eapply write_dir_hint_inv; eassumption]. Qed.
Lemma K_free_chain s c s' : pre s -> free_chain s c = Ok s' -> K s s'.
Proof. intros Hp H. split; [eapply J_free_chain; eassumption | intros Hi; eapply free_chain_hint_inv; eassumption]. Qed.
Lemma K_allocate s size e cs s' : pre s -> allocate s size e = Ok (cs, s') -> K s s'.
Proof. intros Hp H. split; [eapply J_allocate; eassumption | intros Hi; eapply allocate_hint_inv_any; [exact (proj1 Hp) | exact Hi | exact H]]. Qed.
Lemma K_wdc s data c e s' : pre s -> write_data_to_cluster s data c e = Ok s' -> K s s'.
Proof. intros Hp H. split; [eapply J_wdc; eassumption | intros Hi; eapply wdc_hint_inv; eassumption]. Qed.

Ltac have_K a y := lazymatch goal with | _ : K a y |- _ => fail | _ => idtac end.
Ltac Kstep a Hp :=
  match goal with
  | Hr : K a ?x, E : write_dir ?x _ _ = Ok ?y |- _ => have_K a y; pose proof (K_trans _ _ _ Hr (K_write_dir _ _ _ _ (pre_K _ _ Hp Hr) E))
  | Hr : K a ?x, E : flush_fat ?x = Ok ?y |- _ => have_K a y; pose proof (K_trans _ _ _ Hr (K_flush_fat _ _ (pre_K _ _ Hp Hr) E))
  | Hr : K a ?x, E : free_chain ?x _ = Ok ?y |- _ => have_K a y; pose proof (K_trans _ _ _ Hr (K_free_chain _ _ _ (pre_K _ _ Hp Hr) E))
  | Hr : K a ?x, E : allocate ?x _ _ = Ok (_, ?y) |- _ => have_K a y; pose proof (K_trans _ _ _ Hr (K_allocate _ _ _ _ _ (pre_K _ _ Hp Hr) E))
  | Hr : K a ?x, E : write_data_to_cluster ?x _ _ _ = Ok ?y |- _ => have_K a y; pose proof (K_trans _ _ _ Hr (K_wdc _ _ _ _ _ (pre_K _ _ Hp Hr) E))
  end.
Ltac Kchain a Hp := pose proof (K_refl a); repeat Kstep a Hp; try assumption.

Lemma K_update_entry s h f s' : pre s -> update_entry s h f = Ok s' -> K s s'.
Proof. intros Hp H. unfold update_entry in H. open_all s. Kchain s Hp. Qed.
Lemma K_remove_entry s ploc e s' : pre s -> remove_entry s ploc e = Ok s' -> K s s'.
Proof. intros Hp H. unfold remove_entry in H. open_all s; Kchain s Hp. Qed.
Ltac Kstep2 a Hp :=
  first [ Kstep a Hp
  | match goal with
    | Hr : K a ?x, E : update_entry ?x _ _ = Ok ?y |- _ => have_K a y; pose proof (K_trans _ _ _ Hr (K_update_entry _ _ _ _ (pre_K _ _ Hp Hr) E))
    | Hr : K a ?x, E : remove_entry ?x _ _ = Ok ?y |- _ => have_K a y; pose proof (K_trans _ _ _ Hr (K_remove_entry _ _ _ _ (pre_K _ _ Hp Hr) E))
    end ].
Ltac Kchain2 a Hp := pose proof (K_refl a); repeat Kstep2 a Hp; try assumption.

Lemma K_op_create s p w t b s' : pre s -> op_create s p w t = Ok (b, s') -> K s s'.
Proof. intros Hp H. unfold op_create in H. open_all s; Kchain2 s Hp. Qed.
Lemma K_op_makedir s p r t s' : pre s -> op_makedir s p r t = Ok s' -> K s s'.
Proof. intros Hp H. unfold op_makedir in H. open_all s; Kchain2 s Hp. Qed.
Lemma K_op_remove s p s' : pre s -> op_remove s p = Ok s' -> K s s'.
Proof. intros Hp H. unfold op_remove in H. open_all s; Kchain2 s Hp. Qed.
Lemma K_op_removedir s p s' : pre s -> op_removedir s p = Ok s' -> K s s'.
Proof. intros Hp H. unfold op_removedir in H. open_all s; Kchain2 s Hp. Qed.
Lemma K_op_setinfo s p a b c s' : pre s -> op_setinfo s p a b c = Ok s' -> K s s'.
Proof. intros Hp H. unfold op_setinfo in H. open_all s; Kchain2 s Hp. Qed.

Lemma fold_K {A} (g:st -> A -> res st) l : (forall sa e sb, pre sa -> g sa e = Ok sb -> K sa sb) ->
  forall s s', pre s -> fold_left (fun acc e => do sa <- acc; g sa e) l (Ok s) = Ok s' -> K s s'.
Proof.
  intros Hg. induction l as [|e r IH]; intros s s' Hp H; cbn [fold_left bind] in H; [inversion H; subst; apply K_refl|].
  destruct (g s e) as [s1|x] eqn:E; [|rewrite fold_errJ in H; discriminate].
  pose proof (Hg _ _ _ Hp E) as K1. eapply K_trans; [exact K1|]. apply IH; [eapply pre_K; eassumption|exact H].
Qed.
Lemma K_rmtree_go f : forall s r s', pre s -> rmtree_go f s r = Ok s' -> K s s'.
Proof.
  induction f as [|g IH]; intros s r s' Hp H; [discriminate|]. cbn [rmtree_go] in H. cbv zeta in H.
  destruct (read_dir s (eref_loc s r)) as [es|] eqn:E; [|discriminate]. cbn [bind] in H.
  match type of H with bind ?X _ = _ => destruct X as [s1|] eqn:E1; [|discriminate] end. cbn [bind] in H.
  apply fold_K in E1; [|intros sa e sb Hsa He; eapply K_remove_entry; eassumption|exact Hp].
  match type of H with bind ?X _ = _ => destruct X as [s2|] eqn:E2; [|discriminate] end. cbn [bind] in H.
  apply fold_K in E2; [|intros sa e sb Hsa He; eapply IH; eassumption|eapply pre_K; eassumption].
  pose proof (K_trans _ _ _ E1 E2) as K12.
  destruct r as [|ploc e]; [inversion H; subst; exact K12|].
  destruct (read_dir s2 (get_cluster e)); [|discriminate]. cbn [bind] in H. destruct (negb _); [discriminate|].
  eapply K_trans; [exact K12|]. eapply K_remove_entry; [eapply pre_K; eassumption|exact H].
Qed.
Lemma K_op_removetree s p s' : pre s -> op_removetree s p = Ok s' -> K s s'.
Proof. intros Hp H. unfold op_removetree in H. open_all s. eapply K_rmtree_go; eassumption. Qed.

Lemma K_h_write_raw s h e b s' h' : pre s -> h_write_raw s h e b = Ok (s', h') -> K s s'.
Proof. intros Hp H. unfold h_write_raw in H. open_all s; Kchain2 s Hp. Qed.
Lemma K_h_write s h b s' h' : pre s -> h_write s h b = Ok (s', h') -> K s s'.
Proof.
  intros Hp H. unfold h_write in H. open_all s; try apply K_refl;
  match goal with E : h_write_raw s _ _ _ = Ok _ |- _ => eapply K_h_write_raw; eassumption end.
Qed.
Lemma K_h_close s h s' h' : pre s -> h_close s h = Ok (s', h') -> K s s'.
Proof. intros Hp H. unfold h_close in H. open_all s; Kchain2 s Hp. Qed.

Lemma K_cut a x c cs ok j v : pre a -> chain a c = (cs, ok) -> 0 <= j < lenZ cs -> 0 < v <= Gen.END_OF_CLUSTER_MAX (ft a) -> K a x ->
  K a (upd_fat x (updZ (s_fat x) (nthZ cs j) v) (s_hint x)).
Proof.
  intros Hp Ec Hj Hv [Hjx Hix]. split; [eapply J_cut; try eassumption; lia|].
  intros Hi. specialize (Hix Hi).
  pose proof (chain_members _ _ _ _ Hp Ec) as Hm. rewrite Forall_forall in Hm. destruct (Hm _ (nthZ_In cs j Hj)) as [Hk _].
  destruct Hjx as (A1 & A2 & _). destruct (frame_eqs a x A1 A2) as (Eft & _).
  apply upd_entry_hint_inv; [exact Hix | lia |]. rewrite Eft. destruct (vt_consts _ (proj1 Hp)) as (_ & Hfree & _). lia.
Qed.
Ltac Kstep3 a Hp :=
  first [ Kstep2 a Hp
  | match goal with
    | Hr : K a ?x, E : h_write_raw ?x _ _ _ = Ok (?y, _) |- _ => have_K a y; pose proof (K_trans _ _ _ Hr (K_h_write_raw _ _ _ _ _ _ (pre_K _ _ Hp Hr) E))
    end ].
Ltac Kchain3 a Hp := pose proof (K_refl a); repeat Kstep3 a Hp; try assumption.
Lemma K_h_truncate s h sz s' h' : pre s -> h_truncate s h sz = Ok (s', h') -> K s s'.
Proof.
  intros Hp H. unfold h_truncate in H. open_all s; Kchain3 s Hp;
  match goal with
  | Hr : K s ?x, Ec : chain s _ = (?cs, _), Hlt : (?k <? lenZ ?cs) = true,
    E : flush_fat (upd_fat ?x (updZ (s_fat ?x) (nthZ ?cs ?j) ?v) (s_hint ?x)) = Ok ?y |- _ =>
      assert (Hj : 0 <= j < lenZ cs) by lia;
      assert (Hvv : 0 < v <= Gen.END_OF_CLUSTER_MAX (ft s)) by (destruct (vt_consts _ (proj1 Hp)) as (? & ? & ? & ? & ?); lia);
      pose proof (K_cut s x _ cs _ j v Hp Ec Hj Hvv Hr) as Kc;
      pose proof (K_trans _ _ _ Kc (K_flush_fat _ _ (pre_K _ _ Hp Kc) E))
  end; repeat Kstep3 s Hp; assumption.
Qed.

Lemma K_op_openbin s p m t s' h' : pre s -> op_openbin s p m t = Ok (s', h') -> K s s'.
Proof.
  intros Hp H. unfold op_openbin in H.
  match type of H with bind ?X _ = _ => destruct X as [s1|] eqn:E1; [|discriminate] end. cbn [bind] in H.
  assert (K1 : K s s1).
  { destruct (m_create m); [|inversion E1; subst; apply K_refl].
    match type of E1 with bind ?X _ = _ => destruct X; [|discriminate] end. cbn [bind] in E1.
    destruct (op_create s p false t) as [[b0 s0]|] eqn:Ec; [|discriminate]. cbn [bind snd] in E1. inversion E1; subst.
    eapply K_op_create; eassumption. }
  pose proof (pre_K _ _ Hp K1) as Hp1.
  destruct (op_getinfo s1 p); [|discriminate]. cbn [bind] in H. destruct (i_dir _); [discriminate|].
  destruct (lookup s1 p) as [[|ploc e]|]; try discriminate. cbn [bind] in H. destruct (is_volid e); [discriminate|]. cbv zeta in H.
  match type of H with bind ?X _ = _ => destruct X as [[s2 h2]|] eqn:E2; [|discriminate] end. cbn [bind] in H.
  assert (K2 : K s1 s2).
  { destruct (m_truncate m); [|inversion E2; subst; apply K_refl].
    match type of E2 with bind ?X _ = _ => destruct X; [|discriminate] end. cbn [bind] in E2. eapply K_h_truncate; eassumption. }
  match type of H with bind ?X _ = _ => destruct X; [|discriminate] end. cbn [bind] in H. inversion H; subst.
  eapply K_trans; eassumption.
Qed.

(** * histories: the hint invariant holds in every state a history of interface calls reaches from a mounted volume *)
Theorem wstep_K s s' : pre s -> wstep s s' -> K s s'.
Proof.
  intros Hp H. destruct H;
  eauto using K_op_create, K_op_makedir, K_op_remove, K_op_removedir, K_op_removetree, K_op_setinfo, K_op_openbin, K_h_write, K_h_truncate, K_h_close.
Qed.
Theorem history_K s s' : pre s -> clos_refl_trans st wstep s s' -> K s s'.
Proof.
  intros Hp H. apply clos_rt_rt1n in H. induction H as [|x y z Hxy Hyz IH]; [apply K_refl|].
  pose proof (wstep_K _ _ Hp Hxy) as K1. eapply K_trans; [exact K1|]. apply IH. eapply pre_K; eassumption.
Qed.
Theorem history_hint_inv s s' : pre s -> hint_inv s -> clos_refl_trans st wstep s s' -> hint_inv s'.
Proof. intros Hp Hi H. exact (proj2 (history_K _ _ Hp H) Hi). Qed.

(** * the out-of-space criterion without side conditions on the hint, and after any history *)
Theorem allocate_enospc_total_any s size erase :
  s_ro s = false -> hint_inv s -> 0 <= Gen.calc_num_clusters (s_p s) size ->
  (allocate s size erase = Err ENOSPC <->
   (count_free (s_fat s) (ft s) (max_cluster s) (length (s_fat s)) 0 < Z.to_nat (Gen.calc_num_clusters (s_p s) size))%nat).
Proof.
  intros Hro Hi Hn.
  destruct (Z_lt_le_dec (s_hint s) 0) as [Hneg|Hpos].
  - rewrite allocate_nohint by lia.
    apply (allocate_enospc_total (upd_fat s (s_fat s) 0) size erase); [exact Hro | cbn [s_hint s_fat upd_fat]; unfold lenZ; lia | apply hint_zero_inv; reflexivity | exact Hn].
  - destruct (Z_le_dec (s_hint s) (lenZ (s_fat s))) as [Hle|Hgt]; [apply allocate_enospc_total; try assumption; lia|].
    rewrite allocate_enospc_iff by (try assumption; lia).
    replace (Z.to_nat (lenZ (s_fat s) - s_hint s)) with 0%nat by lia.
    replace (length (s_fat s)) with (length (s_fat s) + 0)%nat by lia.
    rewrite count_free_skip; [reflexivity|].
    intros c Hc Hr. apply Hi; [unfold lenZ in *; lia | exact Hr].
Qed.
Theorem history_enospc_exact s s' size erase :
  pre s -> hint_inv s -> clos_refl_trans st wstep s s' -> s_ro s' = false -> 0 <= Gen.calc_num_clusters (s_p s') size ->
  (allocate s' size erase = Err ENOSPC <->
   (count_free (s_fat s') (ft s') (max_cluster s') (length (s_fat s')) 0 < Z.to_nat (Gen.calc_num_clusters (s_p s') size))%nat).
Proof. intros Hp Hi H Hro Hn. apply allocate_enospc_total_any; [exact Hro | eapply history_hint_inv; eassumption | exact Hn]. Qed.
