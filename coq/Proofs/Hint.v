(** The allocation hint ([first_free_cluster]) never skips a free cluster: [hint_inv] — no free in-range cluster lies below
    the hint — is kept by the allocator, by the release of a chain (the hint goes down to the LOWEST released cluster, whatever
    the order of the chain: C09-m10) and by every single-entry update that stores a non-free value.  Under it the out-of-space
    criterion of [allocate_enospc_iff] counts the free clusters of the WHOLE table: no spurious ENOSPC (C01), and room made by a
    removal is room the next allocation finds (C09). *)
From Coq Require Import ZArith List Bool Lia Sorted.
From PyFatV Require Import Base.Bytes Base.PyEnv Gen.Pure Model.Codec Model.Dir Model.FS Proofs.FatTable Proofs.Chains Proofs.DirState.
Import ListNotations.
Open Scope Z_scope.

Definition in_range (t maxc c:Z) : Prop := Gen.MIN_DATA_CLUSTER t <= c <= Z.min maxc (Gen.MAX_DATA_CLUSTER t).
Definition hint_ok (fat:list Z) (t maxc hint:Z) : Prop :=
  forall c, 0 <= c < hint -> in_range t maxc c -> nthZ fat c <> Gen.FREE_CLUSTER t.
Definition hint_inv (s:st) : Prop := hint_ok (s_fat s) (ft s) (max_cluster s) (s_hint s).

Lemma updn_out {A} (l:list A) : forall i v, (length l <= i)%nat -> updn l i v = l.
Proof. induction l as [|x r IH]; intros i v H; [destruct i; reflexivity|]. destruct i as [|k]; cbn [length] in H; [lia|]. cbn [updn]. rewrite IH by lia. reflexivity. Qed.
Lemma updZ_out {A} (l:list A) i v : lenZ l <= i -> updZ l i v = l.
Proof. intros H. unfold updZ. apply updn_out. unfold lenZ in H. lia. Qed.
Lemma erase_clusters_geo cs : forall s s', erase_clusters s cs = Ok s' -> ft s' = ft s /\ max_cluster s' = max_cluster s.
Proof.
  induction cs as [|c r IH]; intros s s' H; [inversion H; auto|].
  cbn [erase_clusters] in H. destruct (write_at _ _ _) as [s1|] eqn:E; [|discriminate]. cbn [bind] in H.
  apply DirState.write_at_ok in E. destruct E as [_ ->]. apply IH in H. exact H.
Qed.

(** * the scan: everything free and in range between its start and the index it returns was taken *)
Lemma alloc_scan_below fat t maxc fuel : forall i need l j,
  alloc_scan fuel fat t maxc i need = (l, j) ->
  j <= i + Z.of_nat fuel /\
  forall c, i <= c < j -> in_range t maxc c -> nthZ fat c = Gen.FREE_CLUSTER t -> In c l.
Proof.
  induction fuel as [|f IH]; intros i need l j H; cbn [alloc_scan] in H.
  - inversion H; subst. split; [lia|]. intros c Hc. lia.
  - destruct ((i <? Gen.MIN_DATA_CLUSTER t) || (Z.min maxc (Gen.MAX_DATA_CLUSTER t) <? i)) eqn:E.
    + apply IH in H. destruct H as [Hj Hin]. split; [lia|]. intros c Hc Hr Hf.
      destruct (Z.eq_dec c i) as [->|Hne].
      * exfalso. unfold in_range in Hr. apply orb_true_iff in E. destruct E as [E|E]; apply Z.ltb_lt in E; lia.
      * apply Hin; [lia | exact Hr | exact Hf].
    + destruct need as [|nd].
      * inversion H; subst. split; [lia|]. intros c Hc. lia.
      * destruct (nthZ fat i =? Gen.FREE_CLUSTER t) eqn:Ef.
        -- destruct (alloc_scan f fat t maxc (i + 1) nd) as [l' j'] eqn:Es. inversion H; subst.
           apply IH in Es. destruct Es as [Hj Hin]. split; [lia|]. intros c Hc Hr Hf.
           destruct (Z.eq_dec c i) as [->|Hne]; [left; reflexivity | right; apply Hin; [lia | exact Hr | exact Hf]].
        -- apply IH in H. destruct H as [Hj Hin]. split; [lia|]. intros c Hc Hr Hf.
           destruct (Z.eq_dec c i) as [->|Hne]; [apply Z.eqb_neq in Ef; congruence | apply Hin; [lia | exact Hr | exact Hf]].
Qed.

(** * a linked chain holds no free value *)
Lemma is_chain_values fat eoc cs : is_chain fat eoc cs -> forall c, In c cs -> nthZ fat c = eoc \/ In (nthZ fat c) cs.
Proof.
  induction cs as [|a [|d r] IH]; intros H c Hc; [destruct Hc| |].
  - cbn [is_chain] in H. destruct Hc as [<-|[]]. left; exact H.
  - cbn [is_chain] in H. destruct H as [Ha Hr]. destruct Hc as [<-|Hc].
    + right. rewrite Ha. right; left; reflexivity.
    + destruct (IH Hr c Hc) as [He|Hi]; [left; exact He | right; right; exact Hi].
Qed.

Theorem allocate_hint_inv s size erase cs s' :
  vt (ft s) -> 0 <= s_hint s -> hint_inv s -> allocate s size erase = Ok (cs, s') -> hint_inv s'.
Proof.
  intros Hv Hh Hi Ha.
  destruct (vt_consts _ Hv) as (Hmin & Hfree & Hmax & Heoc & _).
  destruct (allocate_sound s size erase cs s' Hh Ha) as [(Hl & Hs & Hf)|?]; [|lia].
  pose proof (allocate_fat _ _ _ _ _ Ha) as Hfat.
  unfold allocate in Ha. destruct (s_ro s); [discriminate|]. rewrite Z.max_r in Ha by lia.
  destruct (alloc_scan _ _ _ _ _ _) as [l j] eqn:Es. destruct (negb _); [discriminate|].
  assert (Hgeo : cs = l /\ s_hint s' = j /\ ft s' = ft s /\ max_cluster s' = max_cluster s).
  { destruct erase.
    - destruct (erase_clusters _ l) as [s3|] eqn:E; [|discriminate]. cbn [bind] in Ha. inversion Ha; subst.
      pose proof (erase_clusters_fat _ _ _ E) as [_ Hh']. rewrite Hh'. cbn [s_hint upd_fat].
      pose proof (erase_clusters_geo _ _ _ E) as Hg. destruct Hg as (Hg1 & Hg2). repeat split; assumption.
    - inversion Ha; subst. repeat split; reflexivity. }
  destruct Hgeo as (-> & Hj & Hft & Hmc).
  apply alloc_scan_below in Es. destruct Es as [Hjb Hin].
  unfold hint_inv, hint_ok. rewrite Hfat, Hj, Hft, Hmc. intros c Hc Hr.
  destruct (in_dec Z.eq_dec c l) as [Hcl|Hcl].
  - (* handed out: linked *)
    assert (Hne : l <> []) by (intro; subst; destruct Hcl).
    assert (Hrange : Forall (fun c => 0 <= c < lenZ (s_fat s)) l).
    { eapply Forall_impl; [|exact Hf]. intros a Ha'. cbv beta in Ha'. lia. }
    pose proof (link_chain_is_chain l (s_fat s) (Gen.END_OF_CLUSTER_MAX (ft s)) Hne Hs Hrange) as Hch.
    destruct (is_chain_values _ _ _ Hch c Hcl) as [He|Hn].
    + rewrite He. lia.
    + rewrite Forall_forall in Hf. apply Hf in Hn. lia.
  - rewrite link_chain_other; [| lia | eapply Forall_impl; [|exact Hf]; intros a Ha'; cbv beta in Ha'; lia | exact Hcl].
    destruct (Z_lt_dec c (s_hint s)) as [Hlt|Hge].
    + apply Hi; [lia | exact Hr].
    + intro Hfr. apply Hcl. apply Hin; [lia | exact Hr | exact Hfr].
Qed.

(** * releasing a chain: the hint goes down to the lowest released cluster *)
Lemma fold_min_le cs : forall h, fold_left Z.min cs h <= h /\ Forall (fun c => fold_left Z.min cs h <= c) cs.
Proof.
  induction cs as [|a r IH]; intros h; cbn [fold_left]; [split; [lia | constructor]|].
  destruct (IH (Z.min h a)) as [H1 H2]. split; [lia|]. constructor; [lia | exact H2].
Qed.
Lemma fold_free_other cs : forall fat v j, 0 <= j -> Forall (fun c => 0 <= c) cs -> ~ In j cs ->
  nthZ (fold_left (fun f cl => updZ f cl v) cs fat) j = nthZ fat j.
Proof.
  induction cs as [|a r IH]; intros fat v j Hj Hf Hn; cbn [fold_left]; [reflexivity|].
  inversion Hf; subst. rewrite IH; [| exact Hj | assumption | intro; apply Hn; right; assumption].
  apply nthZ_updZ_other; [assumption | exact Hj | intro; apply Hn; left; assumption].
Qed.

Theorem free_chain_hint_inv s c s' : hint_inv s -> free_chain s c = Ok s' -> hint_inv s'.
Proof.
  intros Hi Hf. unfold free_chain in Hf. destruct (s_ro s); [discriminate|].
  destruct (chain_all s c) as [cs|] eqn:Ec; [|discriminate]. cbn [bind] in Hf. inversion Hf; subst. clear Hf.
  unfold hint_inv, hint_ok. cbn [s_fat s_hint upd_fat]. change (ft (upd_fat s _ _)) with (ft s). change (max_cluster (upd_fat s _ _)) with (max_cluster s).
  intros c' Hc' Hr.
  destruct (fold_min_le cs (s_hint s)) as [Hle Hall].
  assert (Hnn : Forall (fun x => 0 <= x) cs).
  { unfold chain_all in Ec. destruct (chain s c) as [l ok] eqn:E. destruct ok; [|discriminate]. inversion Ec; subst.
    pose proof (chain_members_bounded _ _ _ _ E) as Hb. eapply Forall_impl; [|exact Hb]. intros a Ha. cbv beta in Ha. lia. }
  rewrite fold_free_other; [| lia | exact Hnn |].
  - apply Hi; [lia | exact Hr].
  - intro Hin. rewrite Forall_forall in Hall. apply Hall in Hin. lia.
Qed.

(** * single-entry updates (linking a chain's tail, ending a chain): the value stored is not the free mark *)
Lemma upd_entry_hint_inv s k v : hint_inv s -> 0 <= k -> v <> Gen.FREE_CLUSTER (ft s) ->
  hint_inv (upd_fat s (updZ (s_fat s) k v) (s_hint s)).
Proof.
  intros Hi Hk Hv. unfold hint_inv, hint_ok. cbn [s_fat s_hint upd_fat].
  change (ft (upd_fat s _ _)) with (ft s). change (max_cluster (upd_fat s _ _)) with (max_cluster s).
  intros c Hc Hr. destruct (Z.eq_dec c k) as [->|Hne].
  - destruct (Z_lt_dec k (lenZ (s_fat s))) as [Hlt|Hge].
    + rewrite nthZ_updZ_same by lia. exact Hv.
    + rewrite updZ_out by lia. apply Hi; [lia | exact Hr].
  - rewrite nthZ_updZ_other by lia. apply Hi; [lia | exact Hr].
Qed.

(** * the criterion over the whole table *)
Lemma count_free_skip fat t maxc : forall k i f,
  (forall c, i <= c < i + Z.of_nat k -> in_range t maxc c -> nthZ fat c <> Gen.FREE_CLUSTER t) ->
  count_free fat t maxc (k + f) i = count_free fat t maxc f (i + Z.of_nat k).
Proof.
  induction k as [|k IH]; intros i f H.
  - cbn [plus]. f_equal. lia.
  - cbn [plus count_free].
    assert (E : negb ((i <? Gen.MIN_DATA_CLUSTER t) || (Z.min maxc (Gen.MAX_DATA_CLUSTER t) <? i)) && (nthZ fat i =? Gen.FREE_CLUSTER t) = false).
    { destruct ((i <? Gen.MIN_DATA_CLUSTER t) || (Z.min maxc (Gen.MAX_DATA_CLUSTER t) <? i)) eqn:E1; [reflexivity|].
      cbn [negb andb]. apply Z.eqb_neq. apply H; [lia|]. apply orb_false_iff in E1. destruct E1 as [A B].
      apply Z.ltb_ge in A, B. unfold in_range. lia. }
    rewrite E. cbn [plus]. rewrite IH.
    + f_equal. lia.
    + intros c Hc. apply H. lia.
Qed.

Theorem allocate_enospc_total s size erase :
  s_ro s = false -> 0 <= s_hint s <= lenZ (s_fat s) -> hint_inv s -> 0 <= Gen.calc_num_clusters (s_p s) size ->
  (allocate s size erase = Err ENOSPC <->
   (count_free (s_fat s) (ft s) (max_cluster s) (length (s_fat s)) 0 < Z.to_nat (Gen.calc_num_clusters (s_p s) size))%nat).
Proof.
  intros Hro Hh Hi Hn. rewrite allocate_enospc_iff by (try assumption; lia).
  replace (length (s_fat s)) with (Z.to_nat (s_hint s) + Z.to_nat (lenZ (s_fat s) - s_hint s))%nat by (unfold lenZ in *; lia).
  rewrite count_free_skip.
  - replace (0 + Z.of_nat (Z.to_nat (s_hint s))) with (s_hint s) by lia. reflexivity.
  - intros c Hc Hr. apply Hi; [lia | exact Hr].
Qed.

(** * the released clusters ARE free afterwards (and, by [hint_inv], not below the hint: the next allocation counts them) *)
Lemma fold_free_in cs : forall fat v j, In j cs -> Forall (fun c => 0 <= c < lenZ fat) cs ->
  nthZ (fold_left (fun f cl => updZ f cl v) cs fat) j = v.
Proof.
  induction cs as [|a r IH]; intros fat v j Hin Hf; [destruct Hin|]. cbn [fold_left].
  inversion Hf as [|? ? Ha Hr]; subst.
  assert (Hr' : Forall (fun c => 0 <= c < lenZ (updZ fat a v)) r).
  { eapply Forall_impl; [|exact Hr]. intros x Hx. cbv beta in *. unfold lenZ in *. rewrite updZ_length. exact Hx. }
  destruct (in_dec Z.eq_dec j r) as [Hjr|Hjr]; [apply IH; assumption|].
  destruct Hin as [->|Hin]; [|contradiction].
  rewrite fold_free_other; [| lia | eapply Forall_impl; [|exact Hr]; intros x Hx; cbv beta in Hx; lia | exact Hjr].
  apply nthZ_updZ_same. exact Ha.
Qed.

Theorem free_chain_frees s c s' cs : free_chain s c = Ok s' -> chain_all s c = Ok cs ->
  s_hint s' <= s_hint s /\
  Forall (fun x => nthZ (s_fat s') x = Gen.FREE_CLUSTER (ft s) /\ s_hint s' <= x /\ in_range (ft s) (max_cluster s) x \/ Gen.MAX_DATA_CLUSTER (ft s) < x) cs.
Proof.
  intros Hf Hc. unfold free_chain in Hf. destruct (s_ro s); [discriminate|]. rewrite Hc in Hf. cbn [bind] in Hf. inversion Hf; subst. clear Hf.
  cbn [s_fat s_hint upd_fat].
  destruct (fold_min_le cs (s_hint s)) as [Hle Hall]. split; [exact Hle|].
  unfold chain_all in Hc. destruct (chain s c) as [l ok] eqn:E. destruct ok; [|discriminate]. inversion Hc; subst.
  pose proof (chain_members_bounded _ _ _ _ E) as Hb.
  apply Forall_forall. intros x Hx. rewrite Forall_forall in Hb, Hall.
  pose proof (Hb x Hx) as Hbx. pose proof (Hall x Hx) as Hax.
  destruct (Z_le_dec x (Gen.MAX_DATA_CLUSTER (ft s))) as [Hm|Hm]; [left | right; lia].
  split; [|split; [exact Hax | unfold in_range; lia]].
  apply fold_free_in; [exact Hx|]. apply Forall_forall. intros y Hy. specialize (Hb y Hy). lia.
Qed.

(** * a freshly mounted volume: the hint is 0, nothing lies below it *)
Lemma hint_zero_inv s : s_hint s = 0 -> hint_inv s.
Proof. intros H. unfold hint_inv, hint_ok. rewrite H. intros c Hc. lia. Qed.
Lemma write_at_hint s off d s' : write_at s off d = Ok s' -> s_hint s' = s_hint s.
Proof. intros H. apply DirState.write_at_ok in H. destruct H as [_ ->]. reflexivity. Qed.
Lemma flush_copies_hint n : forall s b i s', flush_copies s b i n = Ok s' -> s_hint s' = s_hint s.
Proof.
  induction n as [|k IH]; intros s b i s' H; cbn [flush_copies] in H; [inversion H; reflexivity|].
  destruct (write_at _ _ _) as [s1|] eqn:E; [|discriminate]. cbn [bind] in H. apply IH in H. rewrite H. eapply write_at_hint; exact E.
Qed.
Lemma flush_fat_hint s s' : flush_fat s = Ok s' -> s_hint s' = s_hint s.
Proof. unfold flush_fat. destruct (s_ro s); [discriminate|]. apply flush_copies_hint. Qed.
Lemma write_bpb_hint s s' : write_bpb s = Ok s' -> s_hint s' = s_hint s.
Proof.
  unfold write_bpb. intros H.
  destruct (write_at s 0 _) as [s1|] eqn:E1; [|discriminate]. cbn [bind] in H.
  destruct (write_at s1 510 _) as [s2|] eqn:E2; [|discriminate]. cbn [bind] in H.
  apply write_at_hint in E1, E2.
  destruct (ft s =? Gen.FAT_TYPE_FAT32).
  - destruct (write_at s2 _ _) as [s3|] eqn:E3; [|discriminate]. cbn [bind] in H. apply write_at_hint in E3, H. congruence.
  - inversion H; subst. congruence.
Qed.
Lemma mark_dirty_hint s s' : mark_dirty s = Ok s' -> s_hint s' = s_hint s.
Proof.
  unfold mark_dirty. intros H.
  destruct (shutdown_mask (ft s)) as [m|].
  - destruct (flush_fat _) as [s1|] eqn:E; [|discriminate]. cbn [bind] in H. apply flush_fat_hint in E. apply write_bpb_hint in H.
    cbn [s_hint upd_hdr upd_fat] in *. congruence.
  - cbn [bind] in H. apply write_bpb_hint in H. cbn [s_hint upd_hdr] in H. exact H.
Qed.
Theorem mount_hint_inv d dsize ro pc s dirty : mount d dsize ro pc = Ok (s, dirty) -> s_hint s = 0 /\ hint_inv s.
Proof.
  intros H. assert (Hz : s_hint s = 0); [|split; [exact Hz | apply hint_zero_inv; exact Hz]].
  unfold mount in H. cbv zeta in H.
  repeat match type of H with
  | (if ?c then _ else _) = _ => destruct c; try discriminate H
  | bind ?X _ = _ => let E := fresh "E" in destruct X eqn:E; cbn [bind] in H; try discriminate H
  end.
  all: inversion H; subst; clear H.
  all: repeat match goal with
  | E : (if ?c then _ else _) = Ok _ |- _ => destruct c
  | E : Ok _ = Ok _ |- _ => inversion E; subst; clear E
  end.
  all: try reflexivity.
  all: match goal with E : mark_dirty _ = Ok _ |- _ => apply mark_dirty_hint in E; exact E end.
Qed.
