(** C11 over histories, model level: no operation other than mount / close writes below byte 512 — the boot sector, and
    with it the dirty mark a read-write mount has put there, is out of reach of every create / makedir / remove /
    removedir / removetree / setinfo / openbin / write / truncate / handle close, whatever they are applied to. *)
From Coq Require Import ZArith List Bool Lia ZifyBool Relations.
From PyFatV Require Import Base.Bytes Base.Sweep Base.PyEnv Gen.Pure Model.Codec Model.Dir Model.FS Proofs.FatTable Proofs.Device Proofs.DirCodec Proofs.DirState Proofs.Chains Proofs.Session Proofs.FatState Proofs.HdrState Proofs.Identity.
Import ListNotations.
Open Scope Z_scope.

Definition safe (s:st) : Prop :=
  0 < BPB_BytsPerSec (s_h s) /\ 0 < BPB_SecPerClus (s_h s) /\ bpc s = BPB_SecPerClus (s_h s) * BPB_BytsPerSec (s_h s) /\ vt (ft s) /\
  512 <= fat_start s /\ 0 <= fat_bytes s /\ 512 <= root_addr s /\ 512 <= first_data_sector (s_p s) * BPB_BytsPerSec (s_h s).
Definition above (l:list (Z * list Z)) : Prop := Forall (fun w => 512 <= fst w) l.
Definition R (s s':st) : Prop :=
  s_h s' = s_h s /\ s_p s' = s_p s /\ s_ro s' = s_ro s /\ s_dsize s' = s_dsize s /\
  exists l, s_log s' = l ++ s_log s /\ above l /\ s_dev s' = apply_log l (s_dev s).

Lemma R_refl s : R s s.
Proof. repeat split. exists []. split; [reflexivity|]. split; [constructor|reflexivity]. Qed.
Lemma R_trans a b c : R a b -> R b c -> R a c.
Proof.
  intros (A1 & A2 & A3 & A4 & l1 & A5 & A6 & A7) (B1 & B2 & B3 & B4 & l2 & B5 & B6 & B7). repeat split; try congruence.
  exists (l2 ++ l1). split; [rewrite B5, A5, app_assoc; reflexivity|]. split; [apply Forall_app; split; assumption|].
  rewrite B7, A7. unfold apply_log. rewrite fold_right_app. reflexivity.
Qed.
Lemma safe_R a b : safe a -> R a b -> safe b.
Proof. intros H (A1 & A2 & _). unfold safe, bpc, ft, fat_start, fat_bytes, root_addr, bps in *. rewrite A1, A2. exact H. Qed.
Lemma R_upd_fat a s f h : R a s -> R a (upd_fat s f h).
Proof. intros (A1 & A2 & A3 & A4 & l & A5 & A6 & A7). repeat split; try assumption. exists l. repeat split; assumption. Qed.

Lemma R_write_at s off d s' : 512 <= off -> write_at s off d = Ok s' -> R s s'.
Proof. intros Ho H. apply write_at_ok in H. destruct H as [_ ->]. repeat split. exists [(off, d)]. split; [reflexivity|]. split; [constructor; [exact Ho|constructor]|reflexivity]. Qed.

Lemma cluster_addr_above s c : safe s -> 2 <= c -> 512 <= cluster_addr s c.
Proof.
  intros (H1 & H2 & H3 & _ & _ & _ & _ & H8) Hc. unfold cluster_addr, Gen.get_data_cluster_address. cbv zeta. nia.
Qed.

Lemma R_flush_copies n : forall s b i s', safe s -> 0 <= i -> flush_copies s b i n = Ok s' -> R s s'.
Proof.
  induction n as [|k IH]; intros s b i s' Hs Hi H; cbn [flush_copies] in H; [inversion H; subst; apply R_refl|].
  destruct (write_at s _ b) as [s1|] eqn:E; [|discriminate]. cbn [bind] in H.
  assert (R1 : R s s1) by (apply (R_write_at _ _ _ _) in E; [exact E|destruct Hs as (_ & _ & _ & _ & A & B & _); nia]).
  eapply R_trans; [exact R1|]. apply (IH s1 b (i + 1)); [eapply safe_R; eassumption|lia|exact H].
Qed.
Lemma R_flush_fat s s' : safe s -> flush_fat s = Ok s' -> R s s'.
Proof. intros Hs H. unfold flush_fat in H. destruct (s_ro s); [discriminate|]. eapply R_flush_copies; [exact Hs| |exact H]. lia. Qed.

Lemma R_write_chunks cs : forall s data s', safe s -> Forall (fun c => 2 <= c) cs -> write_chunks s cs data = Ok s' -> R s s'.
Proof.
  induction cs as [|c r IH]; intros s data s' Hs Hf H; [inversion H; subst; apply R_refl|].
  cbn [write_chunks] in H. cbv zeta in H. inversion Hf as [|? ? Hc Hr]; subst.
  destruct (write_at s _ _) as [s1|] eqn:E; [|discriminate]. cbn [bind] in H.
  assert (R1 : R s s1) by (apply R_write_at in E; [exact E|apply cluster_addr_above; assumption]).
  destruct (_ <=? _)%nat; [inversion H; subst; exact R1|].
  eapply R_trans; [exact R1|]. eapply IH; [eapply safe_R; eassumption|exact Hr|exact H].
Qed.
Lemma R_erase_clusters cs : forall s s', safe s -> Forall (fun c => 2 <= c) cs -> erase_clusters s cs = Ok s' -> R s s'.
Proof.
  induction cs as [|c r IH]; intros s s' Hs Hf H; [inversion H; subst; apply R_refl|].
  cbn [erase_clusters] in H. inversion Hf as [|? ? Hc Hr]; subst.
  destruct (write_at s _ _) as [s1|] eqn:E; [|discriminate]. cbn [bind] in H.
  assert (R1 : R s s1) by (apply R_write_at in E; [exact E|apply cluster_addr_above; assumption]).
  eapply R_trans; [exact R1|]. eapply IH; [eapply safe_R; eassumption|exact Hr|exact H].
Qed.

Lemma chain_min s c l ok : safe s -> chain s c = (l, ok) -> Forall (fun x => 2 <= x) l.
Proof.
  intros (_ & _ & _ & Hv & _) H. eapply Forall_impl; [|exact (chain_members_bounded _ _ _ _ H)]. intros x Hx. cbv beta in Hx.
  destruct (vt_consts _ Hv) as (Hmin & _). lia.
Qed.
Lemma allocate_min s size e cs s' : safe s -> allocate s size e = Ok (cs, s') -> Forall (fun x => 2 <= x) cs.
Proof.
  intros (_ & _ & _ & Hv & _) H. unfold allocate in H. destruct (s_ro s); [discriminate|].
  destruct (alloc_scan _ _ _ _ _ _) as [l j] eqn:Es. destruct (negb _); [discriminate|].
  assert (cs = l) by (destruct e; [destruct (erase_clusters _ l); inversion H; reflexivity|inversion H; reflexivity]). subst l.
  apply Forall_forall. intros x Hx.
  pose proof (alloc_scan_spec (s_fat s) (ft s) (max_cluster s) (Z.to_nat (lenZ (s_fat s) - Z.max 0 (s_hint s))) (Z.max 0 (s_hint s)) (Z.to_nat (Gen.calc_num_clusters (s_p s) size)) x) as Hsp.
  rewrite Es in Hsp. specialize (Hsp Hx). destruct (vt_consts _ Hv) as (Hmin & _). lia.
Qed.
Lemma R_allocate s size e cs s' : safe s -> allocate s size e = Ok (cs, s') -> R s s'.
Proof.
  intros Hs H. pose proof (allocate_min _ _ _ _ _ Hs H) as Hm. unfold allocate in H. destruct (s_ro s); [discriminate|].
  destruct (alloc_scan _ _ _ _ _ _) as [l j]. destruct (negb _); [discriminate|]. destruct e.
  - destruct (erase_clusters _ l) as [s2|] eqn:E; [|discriminate]. cbn [bind] in H. inversion H; subst.
    eapply R_trans; [apply R_upd_fat; apply R_refl|]. eapply R_erase_clusters; [|exact Hm|exact E].
    eapply safe_R; [exact Hs|apply R_upd_fat; apply R_refl].
  - inversion H; subst. apply R_upd_fat. apply R_refl.
Qed.
Lemma R_free_chain s c s' : free_chain s c = Ok s' -> R s s'.
Proof.
  unfold free_chain. destruct (s_ro s); [discriminate|]. destruct (chain_all s c); [|discriminate]. cbn [bind].
  intros H; inversion H; subst. apply R_upd_fat. apply R_refl.
Qed.

Lemma R_wdc s data c e s' : safe s -> write_data_to_cluster s data c e = Ok s' -> R s s'.
Proof.
  intros Hs H. unfold write_data_to_cluster in H. destruct (s_ro s); [discriminate|]. cbv zeta in H.
  destruct (chain s c) as [ch ok]. 
  match type of H with bind ?X _ = _ => destruct X as [s1|] eqn:E1; [|discriminate] end. cbn [bind] in H.
  assert (R1 : R s s1).
  { destruct (_ <=? lenZ ch); [inversion E1; subst; apply R_refl|]. destruct (negb ok); [discriminate|].
    destruct (allocate s _ e) as [[l s2]|] eqn:Ea; [|discriminate]. cbn [bind] in E1. inversion E1; subst.
    apply R_upd_fat. eapply R_allocate; eassumption. }
  destruct (chain s1 c) as [ch1 ok1] eqn:Ec1.
  eapply R_trans; [exact R1|]. eapply R_write_chunks; [eapply safe_R; eassumption| |exact H].
  eapply chain_min; [eapply safe_R; eassumption|exact Ec1].
Qed.
Lemma R_write_dir s loc es s' : safe s -> write_dir s loc es = Ok s' -> R s s'.
Proof.
  intros Hs H. unfold write_dir in H. destruct (s_ro s); [discriminate|]. cbv zeta in H. destruct (is_root_fixed s loc).
  - destruct (_ <? _); [discriminate|]. eapply R_write_at; [|exact H]. apply Hs.
  - eapply R_wdc; eassumption.
Qed.

(** * whole operations *)
Ltac hd_step H :=
  first [ discriminate H
  | match type of H with
    | bind ?X _ = _ => let E := fresh "E" in destruct X eqn:E; cbn [bind] in H
    | (match ?x with _ => _ end) = _ => let E := fresh "E" in destruct x eqn:E
    end ].
Ltac crush H := repeat hd_step H; cbn [bind] in H; try discriminate H.
Ltac vsubst s := repeat match goal with
  | H : ?x = ?y |- _ => is_var y; tryif constr_eq y s then fail else subst y
  | H : ?x = ?y |- _ => is_var x; tryif constr_eq x s then fail else subst x
  end.
Ltac open_all s := repeat match goal with
  | E : Ok _ = Ok _ |- _ => injection E; clear E; intros; vsubst s
  | E : (_, _) = (_, _) |- _ => injection E; clear E; intros; vsubst s
  | E : _ = Ok _ |- _ => progress (crush E)
  end.
Ltac have_R a y := lazymatch goal with | _ : R a y |- _ => fail | _ => idtac end.
Ltac Rstep a Hs :=
  match goal with
  | Hr : R a ?x, E : context [upd_fat ?x ?f ?h] |- _ => have_R a (upd_fat x f h); pose proof (R_upd_fat a x f h Hr)
  | Hr : R a ?x, E : write_dir ?x _ _ = Ok ?y |- _ => have_R a y; pose proof (R_trans _ _ _ Hr (R_write_dir _ _ _ _ (safe_R _ _ Hs Hr) E))
  | Hr : R a ?x, E : flush_fat ?x = Ok ?y |- _ => have_R a y; pose proof (R_trans _ _ _ Hr (R_flush_fat _ _ (safe_R _ _ Hs Hr) E))
  | Hr : R a ?x, E : free_chain ?x _ = Ok ?y |- _ => have_R a y; pose proof (R_trans _ _ _ Hr (R_free_chain _ _ _ E))
  | Hr : R a ?x, E : allocate ?x _ _ = Ok (_, ?y) |- _ => have_R a y; pose proof (R_trans _ _ _ Hr (R_allocate _ _ _ _ _ (safe_R _ _ Hs Hr) E))
  | Hr : R a ?x, E : write_data_to_cluster ?x _ _ _ = Ok ?y |- _ => have_R a y; pose proof (R_trans _ _ _ Hr (R_wdc _ _ _ _ _ (safe_R _ _ Hs Hr) E))
  end.
Ltac Rchain a Hs := pose proof (R_refl a); repeat Rstep a Hs; try assumption.

Lemma R_update_entry s h f s' : safe s -> update_entry s h f = Ok s' -> R s s'.
Proof. intros Hs H. unfold update_entry in H. open_all s. Rchain s Hs. Qed.
Lemma R_remove_entry s ploc e s' : safe s -> remove_entry s ploc e = Ok s' -> R s s'.
Proof. intros Hs H. unfold remove_entry in H. open_all s; Rchain s Hs. Qed.
Ltac Rstep2 a Hs :=
  first [ Rstep a Hs
  | match goal with
    | Hr : R a ?x, E : update_entry ?x _ _ = Ok ?y |- _ => have_R a y; pose proof (R_trans _ _ _ Hr (R_update_entry _ _ _ _ (safe_R _ _ Hs Hr) E))
    | Hr : R a ?x, E : remove_entry ?x _ _ = Ok ?y |- _ => have_R a y; pose proof (R_trans _ _ _ Hr (R_remove_entry _ _ _ _ (safe_R _ _ Hs Hr) E))
    end ].
Ltac Rchain2 a Hs := pose proof (R_refl a); repeat Rstep2 a Hs; try assumption.

Lemma R_op_create s p w t b s' : safe s -> op_create s p w t = Ok (b, s') -> R s s'.
Proof. intros Hs H. unfold op_create in H. open_all s; Rchain2 s Hs. Qed.
Lemma R_op_makedir s p r t s' : safe s -> op_makedir s p r t = Ok s' -> R s s'.
Proof. intros Hs H. unfold op_makedir in H. open_all s; Rchain2 s Hs. Qed.
Lemma R_op_remove s p s' : safe s -> op_remove s p = Ok s' -> R s s'.
Proof. intros Hs H. unfold op_remove in H. open_all s; Rchain2 s Hs. Qed.
Lemma R_op_removedir s p s' : safe s -> op_removedir s p = Ok s' -> R s s'.
Proof. intros Hs H. unfold op_removedir in H. open_all s; Rchain2 s Hs. Qed.
Lemma R_op_setinfo s p a b c s' : safe s -> op_setinfo s p a b c = Ok s' -> R s s'.
Proof. intros Hs H. unfold op_setinfo in H. open_all s; Rchain2 s Hs. Qed.

Lemma fold_err' {A} (g:st -> A -> res st) l x : fold_left (fun acc e => do sa <- acc; g sa e) l (Err x) = Err x.
Proof. induction l as [|e r IH]; [reflexivity|]. cbn [fold_left bind]. exact IH. Qed.
Lemma fold_R {A} (g:st -> A -> res st) l : (forall sa e sb, safe sa -> g sa e = Ok sb -> R sa sb) ->
  forall s s', safe s -> fold_left (fun acc e => do sa <- acc; g sa e) l (Ok s) = Ok s' -> R s s'.
Proof.
  intros Hg. induction l as [|e r IH]; intros s s' Hs H; cbn [fold_left bind] in H; [inversion H; subst; apply R_refl|].
  destruct (g s e) as [s1|x] eqn:E; [|rewrite fold_err' in H; discriminate].
  pose proof (Hg _ _ _ Hs E) as R1. eapply R_trans; [exact R1|]. apply IH; [eapply safe_R; eassumption|exact H].
Qed.
Lemma R_rmtree_go f : forall s r s', safe s -> rmtree_go f s r = Ok s' -> R s s'.
Proof.
  induction f as [|g IH]; intros s r s' Hs H; [discriminate|]. cbn [rmtree_go] in H. cbv zeta in H.
  destruct (read_dir s (eref_loc s r)) as [es|] eqn:E; [|discriminate]. cbn [bind] in H.
  match type of H with bind ?X _ = _ => destruct X as [s1|] eqn:E1; [|discriminate] end. cbn [bind] in H.
  apply fold_R in E1; [|intros sa e sb Hsa He; eapply R_remove_entry; eassumption|exact Hs].
  match type of H with bind ?X _ = _ => destruct X as [s2|] eqn:E2; [|discriminate] end. cbn [bind] in H.
  apply fold_R in E2; [|intros sa e sb Hsa He; eapply IH; eassumption|eapply safe_R; eassumption].
  pose proof (R_trans _ _ _ E1 E2) as R12.
  destruct r as [|ploc e]; [inversion H; subst; exact R12|].
  destruct (read_dir s2 (get_cluster e)); [|discriminate]. cbn [bind] in H. destruct (negb _); [discriminate|].
  eapply R_trans; [exact R12|]. eapply R_remove_entry; [eapply safe_R; eassumption|exact H].
Qed.
Lemma R_op_removetree s p s' : safe s -> op_removetree s p = Ok s' -> R s s'.
Proof. intros Hs H. unfold op_removetree in H. open_all s. eapply R_rmtree_go; eassumption. Qed.

Lemma R_h_write_raw s h e b s' h' : safe s -> h_write_raw s h e b = Ok (s', h') -> R s s'.
Proof. intros Hs H. unfold h_write_raw in H. open_all s; Rchain2 s Hs. Qed.
Lemma R_h_write s h b s' h' : safe s -> h_write s h b = Ok (s', h') -> R s s'.
Proof.
  intros Hs H. unfold h_write in H. open_all s; try apply R_refl;
  match goal with E : h_write_raw s _ _ _ = Ok _ |- _ => eapply R_h_write_raw; eassumption end.
Qed.
Ltac Rstep3 a Hs :=
  first [ Rstep2 a Hs
  | match goal with
    | Hr : R a ?x, E : h_write_raw ?x _ _ _ = Ok (?y, _) |- _ => have_R a y; pose proof (R_trans _ _ _ Hr (R_h_write_raw _ _ _ _ _ _ (safe_R _ _ Hs Hr) E))
    end ].
Ltac Rchain3 a Hs := pose proof (R_refl a); repeat Rstep3 a Hs; try assumption.
Lemma R_h_truncate s h sz s' h' : safe s -> h_truncate s h sz = Ok (s', h') -> R s s'.
Proof. intros Hs H. unfold h_truncate in H. open_all s; Rchain3 s Hs. Qed.
Lemma R_h_close s h s' h' : safe s -> h_close s h = Ok (s', h') -> R s s'.
Proof. intros Hs H. unfold h_close in H. open_all s; Rchain3 s Hs. Qed.

Lemma R_op_openbin s p m t s' h' : safe s -> op_openbin s p m t = Ok (s', h') -> R s s'.
Proof.
  intros Hs H. unfold op_openbin in H.
  match type of H with bind ?X _ = _ => destruct X as [s1|] eqn:E1; [|discriminate] end. cbn [bind] in H.
  assert (R1 : R s s1).
  { destruct (m_create m); [|inversion E1; subst; apply R_refl].
    match type of E1 with bind ?X _ = _ => destruct X; [|discriminate] end. cbn [bind] in E1.
    destruct (op_create s p false t) as [[b0 s0]|] eqn:Ec; [|discriminate]. cbn [bind snd] in E1. inversion E1; subst.
    eapply R_op_create; eassumption. }
  pose proof (safe_R _ _ Hs R1) as Hs1.
  destruct (op_getinfo s1 p); [|discriminate]. cbn [bind] in H. destruct (i_dir _); [discriminate|].
  destruct (lookup s1 p) as [[|ploc e]|]; try discriminate. cbn [bind] in H. destruct (is_volid e); [discriminate|]. cbv zeta in H.
  match type of H with bind ?X _ = _ => destruct X as [[s2 h2]|] eqn:E2; [|discriminate] end. cbn [bind] in H.
  assert (R2 : R s1 s2).
  { destruct (m_truncate m); [|inversion E2; subst; apply R_refl].
    match type of E2 with bind ?X _ = _ => destruct X; [|discriminate] end. cbn [bind] in E2. eapply R_h_truncate; eassumption. }
  match type of H with bind ?X _ = _ => destruct X; [|discriminate] end. cbn [bind] in H. inversion H; subst.
  eapply R_trans; eassumption.
Qed.

(** * histories: every call of the interface except mounting and closing the filesystem *)
Inductive wstep : st -> st -> Prop :=
| ws_create s p w t b s' : op_create s p w t = Ok (b, s') -> wstep s s'
| ws_makedir s p r t s' : op_makedir s p r t = Ok s' -> wstep s s'
| ws_remove s p s' : op_remove s p = Ok s' -> wstep s s'
| ws_removedir s p s' : op_removedir s p = Ok s' -> wstep s s'
| ws_removetree s p s' : op_removetree s p = Ok s' -> wstep s s'
| ws_setinfo s p a b c s' : op_setinfo s p a b c = Ok s' -> wstep s s'
| ws_openbin s p m t s' h : op_openbin s p m t = Ok (s', h) -> wstep s s'
| ws_write s h b s' h' : h_write s h b = Ok (s', h') -> wstep s s'
| ws_truncate s h sz s' h' : h_truncate s h sz = Ok (s', h') -> wstep s s'
| ws_hclose s h s' h' : h_close s h = Ok (s', h') -> wstep s s'.

Theorem wstep_R s s' : safe s -> wstep s s' -> R s s'.
Proof.
  intros Hs H. destruct H;
  eauto using R_op_create, R_op_makedir, R_op_remove, R_op_removedir, R_op_removetree, R_op_setinfo, R_op_openbin, R_h_write, R_h_truncate, R_h_close.
Qed.
Theorem history_R s s' : safe s -> clos_refl_trans st wstep s s' -> R s s'.
Proof.
  intros Hs H. apply clos_rt_rt1n in H. induction H as [|x y z Hxy Hyz IH]; [apply R_refl|].
  pose proof (wstep_R _ _ Hs Hxy) as R1. eapply R_trans; [exact R1|]. apply IH. eapply safe_R; eassumption.
Qed.

(** ... hence the first 512 bytes of the device — the boot sector with the mark a read-write mount put there — are the
    same after any history of such calls *)
Lemma above_newest l a : above l -> 0 <= a < 512 -> newest l a = None.
Proof.
  intros Hl Ha. apply newest_none. eapply Forall_impl; [|exact Hl]. intros [off data] Ho. cbn [fst snd] in *. unfold lenZ. lia.
Qed.
Theorem history_keeps_boot_sector s s' : safe s -> dev_ok (s_dev s) -> clos_refl_trans st wstep s s' ->
  (forall a, 0 <= a < 512 -> dbyte (s_dev s') a = dbyte (s_dev s) a) /\ s_h s' = s_h s.
Proof.
  intros Hs Hd H. destruct (history_R _ _ Hs H) as (A1 & _ & _ & _ & l & _ & Hl & Hdev). split; [|exact A1].
  intros a Ha. rewrite Hdev. rewrite dbyte_apply_log; [|exact Hd| |lia].
  - rewrite above_newest by assumption. reflexivity.
  - eapply Forall_impl; [|exact Hl]. intros w Hw. cbv beta in Hw. lia.
Qed.
Corollary history_keeps_mark s s' : safe s -> dev_ok (s_dev s) -> 512 <= s_dsize s -> clos_refl_trans st wstep s s' ->
  rd s' 0 512 = rd s 0 512.
Proof.
  intros Hs Hd Hsz H. destruct (history_keeps_boot_sector _ _ Hs Hd H) as [Hb _].
  destruct (history_R _ _ Hs H) as (_ & _ & _ & Hds & l & _ & Hl & Hdev).
  assert (Hd' : dev_ok (s_dev s')).
  { rewrite Hdev. apply apply_log_ok; [exact Hd|]. eapply Forall_impl; [|exact Hl]. intros w Hw. cbv beta in Hw. lia. }
  unfold rd. rewrite Hds. rewrite !dread_spec by (try assumption; lia). apply map_ext_in. intros a Ha. apply Hb.
  assert (0 <= a < 0 + Z.of_nat (Z.to_nat (Z.min 512 (s_dsize s - 0)))).
  { clear - Ha. revert Ha. generalize (Z.to_nat (Z.min 512 (s_dsize s - 0))). generalize 0. intros o n. revert o. induction n as [|m IH]; intros o H; [destruct H|].
    cbn [zrange] in H. destruct H as [<-|H]; [lia|]. apply IH in H. lia. }
  lia.
Qed.

(** * the bracket: from the dirty marking of a read-write mount to the close, the mark stays on the device *)
Theorem mark_survives_history s s1 s2 :
  dev_ok (s_dev s) -> hdr_wf (s_h s) -> 0 <= BS_Reserved1 (s_h s) < 256 -> 512 <= s_dsize s ->
  (ft s = Gen.FAT_TYPE_FAT32 -> 512 <= BPB_BkBootSec (s_h s) * bps s) ->
  0 <= fat_start s -> 0 <= BPB_NumFATs (s_h s) -> fat_start s + BPB_NumFATs (s_h s) * fat_bytes s <= s_dsize s ->
  (forall v, lenZ (pack_fat (ft s) (updZ (s_fat s) 1 v) (s_hi s)) <= fat_bytes s) ->
  mark_dirty s = Ok s1 -> safe s1 -> 512 <= s_dsize s1 ->
  clos_refl_trans st wstep s1 s2 ->
  flag_set (parse_hdr (rd s2 0 512)) = true.
Proof.
  intros Hd Hwf Hr Hsz Hbk Hfs Hn Hfit Hpl Hm Hs1 Hsz1 Hh.
  destruct (mark_dirty_on_device s s1 Hd Hwf Hr Hsz Hbk Hfs Hn Hfit Hpl Hm) as (_ & _ & Hflag & Hd1).
  rewrite (history_keeps_mark s1 s2 Hs1 Hd1 Hsz1 Hh). exact Hflag.
Qed.
