(** C15 / C05: long-name sets.  For every name of 1..255 UTF-16 units, the set built by the model of
    [make_lfn_entry] decodes (through the model of [FATLongDirectoryEntry.__str__]) to exactly that name,
    has ceil(len/13) slots whose name fields together are the padded name, carries the ordinals
    1..n-1, n|0x40 in ascending order and the checksum of its short entry. *)
From Coq Require Import ZArith List Bool Lia Sorted.
From PyFatV Require Import Base.Bytes Base.PyEnv Gen.Pure Model.Codec Model.Dir.
Import ListNotations.
Open Scope Z_scope.
Ltac Zify.zify_post_hook ::= Z.to_euclidean_division_equations.

Definition unit_ok (x:Z) : Prop := 1 <= x < 65535.     (* no NUL, no 0xFFFF (a non-character) *)
Definition parts (s:lfnslot) : list Z := l_name1 s ++ l_name2 s ++ l_name3 s.

Lemma slice_parts (b:list Z) : (26 <= length b)%nat -> slice b 0 10 ++ slice b 10 22 ++ slice b 22 26 = firstn 26 b.
Proof.
  intros H. unfold slice. change (Z.to_nat (10 - 0)) with 10%nat. change (Z.to_nat 0) with 0%nat. change (Z.to_nat (22 - 10)) with 12%nat.
  change (Z.to_nat 10) with 10%nat. change (Z.to_nat (26 - 22)) with 4%nat. change (Z.to_nat 22) with 22%nat. cbn [skipn].
  do 26 (destruct b as [|? b]; [simpl in H; lia|]). reflexivity.
Qed.

Lemma slots_concat chk total n : forall b i, length b = (26 * n)%nat ->
  flat_map parts (lfn_slots_from chk b i n total) = b.
Proof.
  induction n as [|k IH]; intros b i H.
  - destruct b; [reflexivity|simpl in H; lia].
  - cbn [lfn_slots_from flat_map]. unfold parts at 1. cbn [l_name1 l_name2 l_name3].
    rewrite slice_parts by lia.
    rewrite IH by (rewrite skipn_length; lia). apply firstn_skipn.
Qed.
Lemma slots_length chk total n : forall b i, length (lfn_slots_from chk b i n total) = n.
Proof. induction n as [|k IH]; intros b i; cbn [lfn_slots_from length]; [reflexivity|rewrite IH; reflexivity]. Qed.

(** ordinals: i, i+1, ..., total-1, total|0x40 *)
Lemma slots_ords chk total n : forall b i, i + Z.of_nat n = total + 1 -> 1 <= i -> total < 64 ->
  StronglySorted (fun x y => l_ord x < l_ord y) (lfn_slots_from chk b i n total) /\
  Forall (fun s => i <= l_ord s /\ l_chk s = chk /\ l_attr s = Gen.ATTR_LONG_NAME /\ l_clus s = 0 /\ l_type s = 0) (lfn_slots_from chk b i n total).
Proof.
  induction n as [|k IH]; intros b i Hn Hi Ht; cbn [lfn_slots_from]; [split; constructor|].
  destruct (IH (skipn 26 b) (i + 1) ltac:(lia) ltac:(lia) Ht) as [Hs Hf].
  assert (Hord : i <= (if i =? total then Z.lor 64 i else i)).
  { destruct (i =? total) eqn:E; [|lia]. apply Z.eqb_eq in E.
    assert (Z.lor 64 i = 64 + i); [|lia].
    assert (Hl: Z.land 64 i = 0).
    { apply Z.bits_inj'. intros m Hm. rewrite Z.land_spec, Z.bits_0.
      destruct (Z.eq_dec m 6) as [->|Hm6].
      - assert (Z.testbit i 6 = false); [|rewrite H; apply andb_false_r].
        apply Z.bits_above_log2; [lia|]. apply Z.log2_lt_pow2; [lia|]. simpl. lia.
      - replace 64 with (2 ^ 6) by reflexivity. rewrite Z.pow2_bits_false by lia. reflexivity. }
    rewrite <- (Z.lxor_lor 64 i Hl). symmetry. apply Z.add_nocarry_lxor. exact Hl. }
  split.
  - constructor; [exact Hs|]. apply Forall_forall. intros s Hin. rewrite Forall_forall in Hf. destruct (Hf s Hin) as (Ho & _).
    cbn [l_ord]. destruct (i =? total) eqn:E; [|lia].
    apply Z.eqb_eq in E. destruct k; [simpl in Hin; tauto|]. lia.
  - constructor.
    + cbn. repeat split; try reflexivity. exact Hord.
    + eapply Forall_impl; [|exact Hf]. intros s (Ho & R). split; [lia|exact R].
Qed.

Lemma sort_asc_sorted l : StronglySorted (fun x y => l_ord x < l_ord y) l -> sort_asc l = l.
Proof.
  induction 1 as [|x r Hs IH Hf]; [reflexivity|].
  unfold sort_asc in *. cbn [fold_right]. rewrite IH.
  destruct r as [|y r']; [reflexivity|]. cbn [ins_asc]. inversion Hf; subst.
  destruct (l_ord x <? l_ord y) eqn:E; [reflexivity|]. apply Z.ltb_ge in E. lia.
Qed.

(** UTF-16 code units <-> little-endian bytes *)
Lemma units_bytes_app u : forall r, Forall (fun x => 0 <= x < 65536) u ->
  units_of_bytes (bytes_of_units u ++ r) = u ++ units_of_bytes r.
Proof.
  induction u as [|x u IH]; intros r H; [reflexivity|].
  inversion H as [|? ? Hx Hu]; subst. unfold bytes_of_units in *. cbn [flat_map le app].
  cbn [units_of_bytes]. rewrite IH by exact Hu. cbn [app]. f_equal. lia.
Qed.
Lemma units_of_ff k : units_of_bytes (repeat 255 (2 * k)) = repeat 65535 k.
Proof. induction k as [|k IH]; [reflexivity|]. replace (2 * S k)%nat with (S (S (2 * k))) by lia. cbn [repeat units_of_bytes]. rewrite IH. reflexivity. Qed.

Lemma strip_ffff_cons x r : strip_ffff (x :: r) =
  match strip_ffff r with [] => if x =? 65535 then [] else [x] | r' => x :: r' end.
Proof. reflexivity. Qed.
Lemma strip_ffff_repeat l k : strip_ffff (l ++ repeat 65535 k) = strip_ffff l.
Proof.
  induction l as [|x r IH]; cbn [app].
  - induction k as [|k IHk]; [reflexivity|]. cbn [repeat]. rewrite strip_ffff_cons, IHk. reflexivity.
  - rewrite !strip_ffff_cons, IH. reflexivity.
Qed.
Lemma strip_ffff_id l : l <> [] -> last l 0 <> 65535 -> strip_ffff l = l.
Proof.
  induction l as [|x r IH]; intros Hne Hl; [congruence|].
  destruct r as [|y r'].
  - cbn in *. destruct (x =? 65535) eqn:E; [apply Z.eqb_eq in E; congruence|reflexivity].
  - rewrite strip_ffff_cons, IH; [reflexivity|discriminate|exact Hl].
Qed.
Lemma strip_one_nul_snoc u : strip_one_nul (u ++ [0]) = u.
Proof. unfold strip_one_nul. rewrite rev_app_distr. cbn [rev app]. apply rev_involutive. Qed.
Lemma strip_one_nul_id u : last u 1 <> 0 -> strip_one_nul u = u.
Proof.
  intros H. unfold strip_one_nul. destruct (rev u) as [|x r] eqn:E; [reflexivity|].
  destruct (Z.eq_dec x 0) as [->|Hx]; [|destruct x; try reflexivity; congruence].
  exfalso. apply H. assert (u = rev r ++ [0]) by (rewrite <- (rev_involutive u), E; reflexivity). subst u. apply last_last.
Qed.

Lemma units_ok_last u d : Forall unit_ok u -> u <> [] -> unit_ok (last u d).
Proof.
  induction 1 as [|x r Hx Hr IH]; intros Hne; [congruence|].
  destruct r as [|y r']; [exact Hx|]. apply IH. discriminate.
Qed.

(** the padded byte string: a whole number of 26-byte slots; name, then (if it does not fill the slots) NUL, then 0xFFFF *)
Lemma lfn_padded_shape u : Forall unit_ok u -> u <> [] ->
  exists k, (length (lfn_padded u) = 26 * k)%nat /\ Z.of_nat k = (lenZ u + 12) / 13 /\
    ((lenZ u mod 13 = 0 /\ units_of_bytes (lfn_padded u) = u) \/
     (lenZ u mod 13 <> 0 /\ exists j, units_of_bytes (lfn_padded u) = u ++ [0] ++ repeat 65535 j)).
Proof.
  intros Hu Hne. unfold lfn_padded.
  assert (H16 : Forall (fun x => 0 <= x < 65536) u) by (eapply Forall_impl; [|exact Hu]; unfold unit_ok; intros; lia).
  assert (Hlen : lenZ (bytes_of_units u) = 2 * lenZ u).
  { unfold lenZ, bytes_of_units. clear. induction u as [|x u IH]; [reflexivity|]. cbn [flat_map]. rewrite app_length, le_length. cbn [length]. lia. }
  set (n := lenZ u) in *. assert (Hn : 0 <= n) by (unfold n, lenZ; lia).
  destruct (Z.eq_dec (n mod 13) 0) as [E|E].
  - assert (E26 : (2 * n) mod 26 = 0) by lia.
    rewrite Hlen, E26. change (0 =? 0) with true. cbv iota. rewrite Hlen, E26. change ((26 - 0) mod 26) with 0. cbn [Z.to_nat repeat]. rewrite app_nil_r.
    exists (Z.to_nat (n / 13)). split; [|split].
    + unfold lenZ in Hlen. lia.
    + lia.
    + left. split; [exact E|]. rewrite <- (app_nil_r (bytes_of_units u)). rewrite units_bytes_app by exact H16. cbn. apply app_nil_r.
  - assert (E26 : (2 * n) mod 26 <> 0) by lia.
    rewrite Hlen. destruct ((2 * n) mod 26 =? 0) eqn:Eb; [apply Z.eqb_eq in Eb; contradiction|].
    assert (Hl2 : lenZ (bytes_of_units u ++ [0; 0]) = 2 * n + 2) by (unfold lenZ in *; rewrite app_length; cbn [length]; lia).
    rewrite Hl2.
    set (padn := (26 - (2 * n + 2) mod 26) mod 26).
    assert (Hp : exists j, padn = 2 * Z.of_nat j) by (exists (Z.to_nat (padn / 2)); unfold padn; lia).
    destruct Hp as [j Hj].
    exists (Z.to_nat ((n + 12) / 13)). split; [|split].
    + rewrite !app_length, repeat_length. unfold lenZ in *. cbn [length]. unfold padn in *. lia.
    + lia.
    + right. split; [exact E|]. exists j.
      rewrite <- app_assoc. rewrite units_bytes_app by exact H16. f_equal.
      replace (Z.to_nat padn) with (2 * j)%nat by lia.
      change ([0; 0] ++ repeat 255 (2 * j)) with (0 :: 0 :: repeat 255 (2 * j)). cbn [units_of_bytes]. rewrite units_of_ff. reflexivity.
Qed.

Theorem lfn_roundtrip u sfn : Forall unit_ok u -> 1 <= lenZ u <= 255 ->
  let sl := make_lfn u sfn in
  lfn_units sl = u /\
  lenZ sl = (lenZ u + 12) / 13 /\
  flat_map parts sl = lfn_padded u /\
  StronglySorted (fun x y => l_ord x < l_ord y) sl /\
  Forall (fun s => l_chk s = Gen.checksum sfn /\ l_attr s = Gen.ATTR_LONG_NAME /\ l_clus s = 0 /\ l_type s = 0) sl.
Proof.
  intros Hu Hlen. assert (Hne : u <> []) by (intro; subst; unfold lenZ in Hlen; simpl in Hlen; lia).
  destruct (lfn_padded_shape u Hu Hne) as (k & Hk & Hkz & Hshape).
  unfold make_lfn. cbv zeta.
  assert (Hdiv : lenZ (lfn_padded u) / 26 = Z.of_nat k) by (unfold lenZ; rewrite Hk; lia).
  rewrite Hdiv, Nat2Z.id.
  assert (Hk64 : Z.of_nat k < 64) by lia.
  assert (Hk1 : 1 <= Z.of_nat k) by lia.
  destruct (slots_ords (Gen.checksum sfn) (Z.of_nat k) k (lfn_padded u) 1 ltac:(lia) ltac:(lia) Hk64) as [Hs Hf].
  pose proof (slots_concat (Gen.checksum sfn) (Z.of_nat k) k (lfn_padded u) 1 Hk) as Hc.
  split; [|split; [|split; [|split]]].
  - unfold lfn_units. rewrite sort_asc_sorted by exact Hs. fold parts. rewrite Hc.
    destruct Hshape as [[_ E]|[_ [j E]]]; rewrite E.
    + rewrite strip_ffff_id; [|exact Hne|].
      * apply strip_one_nul_id. pose proof (units_ok_last u 1 Hu Hne) as Hl. unfold unit_ok in Hl. lia.
      * pose proof (units_ok_last u 0 Hu Hne) as Hl. unfold unit_ok in Hl. lia.
    + rewrite app_assoc, strip_ffff_repeat. rewrite strip_ffff_id.
      * apply strip_one_nul_snoc.
      * destruct u; discriminate.
      * rewrite last_last. lia.
  - unfold lenZ at 1. rewrite slots_length. exact Hkz.
  - exact Hc.
  - exact Hs.
  - eapply Forall_impl; [|exact Hf]. intros s (_ & R). exact R.
Qed.
