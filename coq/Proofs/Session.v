(** Write-path theorems about the model ([Model/FS.v]): the read-only guard (C10), the dirty
    marking at mount and close (C11), torn FAT writes (C12), flag toggling is the identity (C16). *)
From Coq Require Import ZArith List Bool Lia.
From PyFatV Require Import Base.Bytes Base.PyEnv Gen.Pure Model.Codec Model.Dir Model.FS.
Import ListNotations.
Open Scope Z_scope.
Ltac Zify.zify_post_hook ::= Z.to_euclidean_division_equations.

(** * C10: every write primitive refuses on a read-only state *)
Lemma write_at_ro s off d : s_ro s = true -> write_at s off d = Err EROFS.
Proof. intros H. unfold write_at. rewrite H. reflexivity. Qed.
Lemma write_at_rw s off d s' : write_at s off d = Ok s' ->
  s_ro s = false /\ s_log s' = (off, d) :: s_log s /\ s_ro s' = false /\ s_fat s' = s_fat s /\ s_h s' = s_h s /\ s_p s' = s_p s /\ s_hi s' = s_hi s.
Proof. unfold write_at. destruct (s_ro s) eqn:E; [discriminate|]. intros H. inversion H; subst. cbn. rewrite E. repeat split; reflexivity. Qed.

Theorem ro_primitives_refuse s : s_ro s = true ->
  (forall off d, write_at s off d = Err EROFS) /\
  flush_fat s = Err EROFS /\
  (forall size e, allocate s size e = Err EROFS) /\
  (forall c, free_chain s c = Err EROFS) /\
  (forall d c e, write_data_to_cluster s d c e = Err EROFS) /\
  (forall loc es, write_dir s loc es = Err EROFS) /\
  write_bpb s = Err EROFS.
Proof.
  intros H. repeat split; intros; try (unfold flush_fat, allocate, free_chain, write_data_to_cluster, write_dir; rewrite H; reflexivity).
  - apply write_at_ro; exact H.
  - unfold write_bpb. rewrite (write_at_ro s 0 _ H). reflexivity.
Qed.
(** closing a read-only mount does nothing at all *)
Theorem ro_close_identity s : s_ro s = true -> op_close s = Ok s.
Proof. intros H. unfold op_close. rewrite H. reflexivity. Qed.
(** read operations never touch the log (they do not even return a state) — by their types:
    [op_exists], [op_getinfo], [op_getsize], [op_listdir], [h_read] return no [st]. *)

(** * logs only grow, and only through [write_at] *)
Lemma flush_copies_log n : forall s b i s', flush_copies s b i n = Ok s' ->
  exists l, s_log s' = l ++ s_log s /\ length l = n /\
            Forall (fun w => snd w = b) l /\ s_fat s' = s_fat s /\ s_h s' = s_h s /\ s_ro s' = s_ro s /\ s_p s' = s_p s.
Proof.
  induction n as [|k IH]; intros s b i s' H; cbn [flush_copies] in H.
  - inversion H; subst. exists []. repeat split; auto.
  - destruct (write_at s (fat_start s + i * fat_bytes s) b) as [s1|e] eqn:E; cbn [bind] in H; [|discriminate].
    destruct (write_at_rw _ _ _ _ E) as (Hro & Hl & Hro' & Hf & Hh & Hp & _).
    destruct (IH _ _ _ _ H) as (l & Hl' & Hn & Hall & Hf' & Hh' & Hr' & Hp').
    exists (l ++ [(fat_start s + i * fat_bytes s, b)]). rewrite Hl', Hl, <- app_assoc. cbn [app].
    repeat split; auto.
    + rewrite app_length. simpl. lia.
    + apply Forall_app. split; [exact Hall|]. constructor; [reflexivity|constructor].
    + congruence.
    + congruence.
    + congruence.
    + congruence.
Qed.

(** * C11: marking.  [marked] is what a later mount (of this or another implementation) looks at. *)
Definition flag_set (h:hdr) : bool := Z.land (BS_Reserved1 h) Gen.FAT_DIRTY_BIT_MASK =? Gen.FAT_DIRTY_BIT_MASK.

(** after marking dirty the in-memory state is dirty, whatever the FAT type *)
Theorem mark_dirty_marks s s' : mark_dirty s = Ok s' -> 0 <= BS_Reserved1 (s_h s) -> flag_set (s_h s') = true /\ is_dirty s' = true.
Proof.
  unfold mark_dirty. intros H Hnn.
  destruct (match shutdown_mask (ft s) with Some m => _ | None => Ok s end) as [s1|e] eqn:E1; cbn [bind] in H; [|discriminate].
  unfold write_bpb in H.
  set (s2 := upd_hdr s1 (set_reserved1 (s_h s1) (Z.lor (BS_Reserved1 (s_h s1)) Gen.FAT_DIRTY_BIT_MASK))) in *.
  assert (Hf : flag_set (s_h s2) = true).
  { unfold flag_set, s2. cbn. change Gen.FAT_DIRTY_BIT_MASK with 1.
    apply Z.eqb_eq. rewrite Z.land_lor_distr_l. change (Z.land 1 1) with 1.
    apply Z.lor_eq_0_iff || idtac. rewrite Z.lor_comm.
    apply Z.bits_inj'. intros n Hn. rewrite Z.lor_spec, Z.land_spec.
    destruct (Z.eq_dec n 0) as [->|Hn0]; [reflexivity|].
    rewrite (Z.bits_above_log2 1 n) by (simpl; lia). rewrite andb_false_r. reflexivity. }
  assert (Hkeep : forall sx, (exists a b c d, (do x1 <- write_at s2 a b; do x2 <- write_at x1 c d; Ok x2) = Ok sx) -> s_h sx = s_h s2) by
      (intros sx (a & b & c & d & Hx); destruct (write_at s2 a b) as [x1|] eqn:A; cbn [bind] in Hx; [|discriminate];
       destruct (write_at x1 c d) as [x2|] eqn:B; cbn [bind] in Hx; [|discriminate]; inversion Hx; subst;
       destruct (write_at_rw _ _ _ _ A) as (_ & _ & _ & _ & Hh1 & _); destruct (write_at_rw _ _ _ _ B) as (_ & _ & _ & _ & Hh2 & _); congruence).
  assert (Hh : s_h s' = s_h s2).
  { destruct (write_at s2 0 (ser_hdr (s_h s2))) as [x1|] eqn:A; cbn [bind] in H; [|discriminate].
    destruct (write_at x1 510 [85; 170]) as [x2|] eqn:B; cbn [bind] in H; [|discriminate].
    destruct (write_at_rw _ _ _ _ A) as (_ & _ & _ & _ & Hh1 & _). destruct (write_at_rw _ _ _ _ B) as (_ & _ & _ & _ & Hh2 & _).
    destruct (ft s2 =? Gen.FAT_TYPE_FAT32).
    - destruct (write_at x2 _ _) as [x3|] eqn:C; cbn [bind] in H; [|discriminate].
      destruct (write_at_rw _ _ _ _ C) as (_ & _ & _ & _ & Hh3 & _). destruct (write_at_rw _ _ _ _ H) as (_ & _ & _ & _ & Hh4 & _). congruence.
    - inversion H; subst. congruence. }
  split; [rewrite Hh; exact Hf|].
  unfold is_dirty. fold (flag_set (s_h s')). rewrite Hh, Hf. apply orb_true_r.
Qed.

(** [mark_clean] writes every FAT copy before it touches a boot sector (so the flag in the boot sector is
    the last mark to disappear), and the closed state is clean *)
Theorem mark_clean_order s s' m : shutdown_mask (ft s) = Some m -> mark_clean s = Ok s' ->
  exists boot fats, s_log s' = boot ++ fats ++ s_log s /\
    length fats = Z.to_nat (BPB_NumFATs (s_h s)) /\
    Forall (fun w => fst w = 0 \/ fst w = 510 \/ ft s = Gen.FAT_TYPE_FAT32) boot /\
    (2 <= length boot)%nat.
Proof.
  intros Hm H. unfold mark_clean in H. rewrite Hm in H.
  set (s0 := upd_fat s (updZ (s_fat s) 1 (Z.lor (nthZ (s_fat s) 1) m)) (s_hint s)) in *.
  destruct (flush_fat s0) as [s1|e] eqn:E1; cbn [bind] in H; [|discriminate].
  unfold flush_fat in E1. destruct (s_ro s0); [discriminate|].
  destruct (flush_copies_log _ _ _ _ _ E1) as (fl & Hfl & Hn & _ & _ & Hh & _ & Hp).
  unfold write_bpb in H.
  set (s2 := upd_hdr s1 _) in *.
  destruct (write_at s2 0 (ser_hdr (s_h s2))) as [x1|] eqn:A; cbn [bind] in H; [|discriminate].
  destruct (write_at x1 510 [85; 170]) as [x2|] eqn:B; cbn [bind] in H; [|discriminate].
  destruct (write_at_rw _ _ _ _ A) as (_ & L1 & _). destruct (write_at_rw _ _ _ _ B) as (_ & L2 & _).
  assert (Hs2 : s_log s2 = s_log s1) by reflexivity.
  assert (Hft : ft s2 = ft s) by (unfold ft; change (s_p s2) with (s_p s1); rewrite Hp; reflexivity).
  destruct (ft s2 =? Gen.FAT_TYPE_FAT32) eqn:E32.
  - destruct (write_at x2 _ _) as [x3|] eqn:C; cbn [bind] in H; [|discriminate].
    destruct (write_at_rw _ _ _ _ C) as (_ & L3 & _). destruct (write_at_rw _ _ _ _ H) as (_ & L4 & _).
    apply Z.eqb_eq in E32. rewrite Hft in E32.
    eexists [_; _; _; _], fl. rewrite L4, L3, L2, L1, Hs2, Hfl. cbn [app]. split; [reflexivity|].
    split; [exact Hn|]. split; [|simpl; lia].
    repeat (apply Forall_cons; [right; right; exact E32|]). apply Forall_nil.
  - inversion H; subst x2.
    eexists [_; _], fl. rewrite L2, L1, Hs2, Hfl. cbn [app]. split; [reflexivity|].
    split; [exact Hn|]. split; [|simpl; lia].
    constructor; [right; left; reflexivity|]. constructor; [left; reflexivity|constructor].
Qed.

(** * C16: setting and clearing the two flags is the identity on a clean volume *)
Lemma lor_land_lnot_id x m : 0 <= m -> Z.land x m = m -> Z.lor (Z.land x (Z.lnot m)) m = x.
Proof.
  intros Hm H. apply Z.bits_inj'. intros n Hn.
  rewrite Z.lor_spec, Z.land_spec, Z.lnot_spec by lia.
  assert (Hb: Z.testbit (Z.land x m) n = Z.testbit m n) by (rewrite H; reflexivity).
  rewrite Z.land_spec in Hb.
  destruct (Z.testbit x n), (Z.testbit m n); simpl in *; congruence.
Qed.
Lemma land_lnot_lor_id x m : 0 <= m -> Z.land x m = 0 -> Z.land (Z.lor x m) (Z.lnot m) = x.
Proof.
  intros Hm H. apply Z.bits_inj'. intros n Hn.
  rewrite Z.land_spec, Z.lor_spec, Z.lnot_spec by lia.
  assert (Hb: Z.testbit (Z.land x m) n = false) by (rewrite H; apply Z.bits_0).
  rewrite Z.land_spec in Hb.
  destruct (Z.testbit x n), (Z.testbit m n); simpl in *; congruence.
Qed.
Theorem flags_roundtrip fat1 res1 m :
  0 <= m -> Z.land fat1 m = m -> Z.land res1 Gen.FAT_DIRTY_BIT_MASK = 0 ->
  Z.lor (Z.land fat1 (Z.lnot m)) m = fat1 /\
  Z.land (Z.lor res1 Gen.FAT_DIRTY_BIT_MASK) (Z.lnot Gen.FAT_DIRTY_BIT_MASK) = res1.
Proof. intros Hm H1 H2. split; [apply lor_land_lnot_id; assumption | apply land_lnot_lor_id; [unfold Gen.FAT_DIRTY_BIT_MASK; lia | exact H2]]. Qed.

(** * C12: a FAT whose sectors are a mixture of an old and a new table still decodes every entry on which
    the two tables agree to the common value — including FAT12 entries that share a byte with a neighbour
    or straddle a sector boundary (the mixture is taken byte-wise, which covers every sector-wise one) *)
Theorem fat12_mix bs1 bs2 mix i :
  0 <= i ->
  (forall j, 0 <= nthZ bs1 j < 256 /\ 0 <= nthZ bs2 j < 256) ->
  (forall j, nthZ mix j = nthZ bs1 j \/ nthZ mix j = nthZ bs2 j) ->
  spec_fat_entry 12 bs1 i = spec_fat_entry 12 bs2 i ->
  spec_fat_entry 12 mix i = spec_fat_entry 12 bs1 i.
Proof.
  intros Hi Hb Hm He. unfold spec_fat_entry in *. change (12 =? 12) with true in *. cbv iota in *.
  set (o := i + i / 2) in *.
  destruct (Hb o) as [A1 A2]. destruct (Hb (o + 1)) as [B1 B2].
  destruct (Hm o) as [M0|M0]; destruct (Hm (o + 1)) as [M1|M1]; rewrite M0, M1; destruct (Z.odd i); lia.
Qed.
Theorem fat16_mix bs1 bs2 mix i :
  (forall j, 0 <= nthZ bs1 j < 256 /\ 0 <= nthZ bs2 j < 256) ->
  (forall j, nthZ mix j = nthZ bs1 j \/ nthZ mix j = nthZ bs2 j) ->
  spec_fat_entry 16 bs1 i = spec_fat_entry 16 bs2 i ->
  spec_fat_entry 16 mix i = spec_fat_entry 16 bs1 i.
Proof.
  intros Hb Hm He. unfold spec_fat_entry in *. change (16 =? 12) with false in *. change (16 =? 16) with true in *. cbv iota in *.
  destruct (Hb (2 * i)) as [A1 A2]. destruct (Hb (2 * i + 1)) as [B1 B2].
  destruct (Hm (2 * i)) as [M0|M0]; destruct (Hm (2 * i + 1)) as [M1|M1]; rewrite M0, M1; lia.
Qed.
