From Coq Require Import ZArith List Bool Lia.
From PyFatV Require Import Base.Bytes Base.PyEnv Gen.Pure Proofs.Geometry.
Import ListNotations.
Open Scope Z_scope.

(** ceilings *)
Lemma ceil_mul a b : 0 < b -> a <= ((a + b - 1) / b) * b.
Proof. intros Hb. pose proof (Z.div_mod (a + b - 1) b ltac:(lia)). pose proof (Z.mod_pos_bound (a + b - 1) b Hb). nia. Qed.

(** the arithmetic core: [F] sectors of [ss] bytes hold the entries of [count] clusters.
    [ns] sectors in all, [R] reserved + root sectors, [nf] FATs; F was computed from q = ceil(T1 / T2), F = ceil(q / ss) *)
Section Core.
Variables ss size nf spc R F count ns T2 q : Z.
Hypothesis Hss : 512 <= ss.
Hypothesis Hspc : 0 < spc.
Hypothesis HR : 0 <= R.
Hypothesis Hnf : 1 <= nf.
Hypothesis Hns : ns * ss <= size.
Hypothesis HT2 : 0 < T2.
Hypothesis Hq : size - R <= q * T2.
Hypothesis HF : q <= F * ss.
Hypothesis Hcount : count * spc + R + nf * F <= ns.
Hypothesis Hc1 : 1 <= count.
Hypothesis HTnf : nf <= T2.

(* F * ss * T2 >= (count*spc + R + nf*F) * ss - R *)
Lemma base_ineq : (count * spc + R + nf * F) * ss - R <= F * ss * T2.
Proof. assert (q * T2 <= F * ss * T2) by nia. nia. Qed.
Lemma F_nonneg : 0 <= F.
Proof.
  pose proof base_ineq as B. destruct (Z_le_gt_dec 0 F) as [|Hneg]; [assumption|exfalso].
  assert (H1 : (count * spc + R) * ss - R <= F * ss * (T2 - nf)) by nia.
  assert (H2 : 0 < (count * spc + R) * ss - R) by nia.
  assert (H3 : F * ss * (T2 - nf) <= 0) by nia. lia.
Qed.

(** FAT12 / FAT16: T2 = 256 * spc + nf *)
Section Sixteen.
Hypothesis HT : T2 = 256 * spc + nf.
Lemma star : count * spc * ss + R * (ss - 1) <= 256 * spc * F * ss.
Proof. pose proof base_ineq as B. rewrite HT in B. nia. Qed.
Lemma count_le_256F : count <= 256 * F.
Proof.
  pose proof star as S. destruct (Z_le_gt_dec count (256 * F)) as [|Hgt]; [assumption|exfalso].
  assert (0 < spc * ss) by nia. assert ((256 * F + 1) * (spc * ss) <= count * (spc * ss)) by nia. nia.
Qed.
Lemma core12 : 3 * (count + 2) <= 2 * F * ss.
Proof. pose proof count_le_256F. assert (1 <= F) by lia. nia. Qed.
Lemma core16 : (ss = 512 -> R = 33 /\ spc <= 32) -> ss = 512 \/ 1024 <= ss -> 2 * (count + 2) <= F * ss.
Proof.
  intros H512 Hcase. pose proof count_le_256F as Hc. assert (HF1 : 1 <= F) by lia. destruct Hcase as [E|Hbig].
  - destruct (H512 E) as [ER Hs]. pose proof star as S. rewrite E, ER in S. rewrite E.
    (* (256F - count) * spc * 512 >= 33 * 511 = 16863 > 32 * 512 >= spc * 512: so 256F - count >= 2 *)
    assert (count <= 256 * F - 2); [|lia].
    destruct (Z_le_gt_dec count (256 * F - 2)) as [|Hgt]; [assumption|exfalso].
    assert ((256 * F - count) * (spc * 512) <= 1 * (spc * 512)) by nia. nia.
  - nia.
Qed.
End Sixteen.

(** FAT32: T2 = (256 * spc + nf) / 2, so 2 * T2 <= 256 * spc + nf; R = 32 *)
Section ThirtyTwo.
Hypothesis HT : 2 * T2 <= 256 * spc + nf.
Lemma star32 : 2 * count * spc * ss + 2 * R * (ss - 1) + nf * F * ss <= 256 * spc * F * ss.
Proof.
  pose proof base_ineq as B. pose proof F_nonneg as HF0. assert (0 <= F * ss) by nia.
  assert (2 * (F * ss * T2) <= F * ss * (256 * spc + nf)) by nia. nia.
Qed.
Lemma core32 : 65525 <= count -> (ss = 512 -> spc <= 32) -> ss = 512 \/ 1024 <= ss -> 4 * (count + 2) <= F * ss.
Proof.
  intros Hbig H512 Hcase. pose proof star32 as S. pose proof F_nonneg as HF0.
  assert (HnF : 0 <= nf * F * ss) by (apply Z.mul_nonneg_nonneg; [apply Z.mul_nonneg_nonneg|]; lia).
  assert (Hc : count <= 128 * F).
  { destruct (Z_le_gt_dec count (128 * F)) as [|Hgt]; [assumption|exfalso].
    assert (0 < spc * ss) by nia. assert ((128 * F + 1) * (spc * ss) <= count * (spc * ss)) by nia. nia. }
  assert (HF1 : 512 <= F) by lia. destruct Hcase as [E|Hb].
  - specialize (H512 E). rewrite E in S. rewrite E.
    assert (count <= 128 * F - 2); [|lia].
    destruct (Z_le_gt_dec count (128 * F - 2)) as [|Hgt]; [assumption|exfalso].
    (* (128F - count) * 2 * spc * 512 >= nf * F * 512 >= 512 * 512, but the left side is at most 1 * 2 * 32 * 512 *)
    assert ((128 * F - count) * (spc * 512) <= 1 * (spc * 512)) by nia. nia.
  - nia.
Qed.
End ThirtyTwo.
End Core.

Lemma fat32_rows_ok : forallb (fun p => snd p <=? 32) (Gen.mkfs_table 32) = true.
Proof. vm_compute. reflexivity. Qed.

Local Arguments Z.mul : simpl never.
Local Arguments Z.sub : simpl never.
Local Arguments Z.div : simpl never.
Local Arguments Z.add : simpl never.

(** THE THEOREM: the FAT mkfs lays out holds an entry for every cluster of the volume and the two reserved ones — for every size,
    1..255 FATs, sector size 512 or >= 1024; FAT12 and FAT32 always, FAT16 whenever the size table chose at most 32 sectors per
    cluster at 512-byte sectors (every volume up to 2 097 152 sectors = 1 GiB) *)
Theorem mkfs_fat_covers ft size ss nf p num_sec spc rootent rsvd f16 f32 t16 t32 :
  ft = 12 \/ ft = 16 \/ ft = 32 -> ss = 512 \/ 1024 <= ss -> 0 <= size -> 1 <= nf <= 255 ->
  (ft = 16 -> ss = 512 -> spc <= 32) ->
  Gen.mkfs_geometry pf_init ft size ss nf = Ok (p, num_sec, spc, rootent, rsvd, f16, f32, t16, t32) ->
  ((num_sec - (rsvd + root_dir_sectors p + nf * _fat_size p)) / spc + 2) * ft <= _fat_size p * ss * 8.
Proof.
  intros Hft Hss Hsz Hnf H16 H.
  assert (Hss0 : 512 <= ss) by lia.
  destruct (mkfs_fits ft size ss nf p num_sec spc rootent rsvd f16 f32 t16 t32 ltac:(lia) Hsz ltac:(lia) H) as (Hns & Hspc & Hdata & _ & Hrs).
  pose proof (mkfs_type_range ft size ss nf p num_sec spc rootent rsvd f16 f32 t16 t32 Hft H) as Htype.
  unfold Gen.mkfs_geometry in H.
  change Gen.FAT_TYPE_FAT32 with 32 in H. change Gen.FAT_TYPE_FAT16 with 16 in H. change Gen.FAT_TYPE_FAT12 with 12 in H.
  set (ns := size / ss) in *. set (sp := first_row ns (Gen.mkfs_table ft) 0) in *. cbv zeta in H.
  destruct (sp =? 0) eqn:E0; [discriminate|]. apply Z.eqb_neq in E0.
  match type of H with (if ?c then _ else _) = _ => destruct c eqn:Ed; [discriminate|] end.
  match type of H with (if ?c then _ else _) = _ => destruct c eqn:Etm; [discriminate|] end. clear Etm Ed.
  destruct (first_row_in ns (Gen.mkfs_table ft) 0 sp eq_refl E0) as (sec & Hin & Hle).
  set (re := if ft =? 32 then 0 else if ft =? 16 then 512 else if ss =? 512 then 224 else 512) in *.
  set (rds := (re * 32 + (ss - 1)) / ss) in *.
  set (rs := if ft =? 32 then 32 else 1) in *.
  set (T2 := if ft =? 32 then (256 * sp + nf) / 2 else 256 * sp + nf) in *.
  set (q := (size - (rs + rds) + T2 - 1) / T2) in *.
  assert (Hres : num_sec = ns /\ spc = sp /\ rsvd = rs /\ root_dir_sectors p = rds /\ _fat_size p = ceil_div q ss).
  { destruct (ft =? 32) eqn:E32; cbn [orb] in H.
    - injection H as <- <- <- <- <- <- <- <- <-. cbn [root_dir_sectors _fat_size set__fat_size set_root_dir_sectors]. repeat split; reflexivity.
    - destruct (ns >=? 65536); injection H as <- <- <- <- <- <- <- <- <-; cbn [root_dir_sectors _fat_size set__fat_size set_root_dir_sectors]; repeat split; reflexivity. }
  destruct Hres as (E1 & E2 & E3 & Erds & EF). subst num_sec spc rsvd. rewrite Erds, EF in *. clear H Erds EF.
  set (F := ceil_div q ss) in *.
  assert (Hrds : 0 <= rds) by (unfold rds, re; apply Z.div_pos; [destruct (ft =? 32); [lia|destruct (ft =? 16); [lia|destruct (ss =? 512); lia]]|lia]).
  assert (HT2 : 0 < T2 /\ nf <= T2).
  { unfold T2. destruct (ft =? 32); [|lia]. assert (256 <= 256 * sp) by lia. split.
    - apply Z.div_str_pos. lia.
    - apply Z.div_le_lower_bound; lia. }
  destruct HT2 as [HT2 HTnf].
  assert (Hq : size - (rs + rds) <= q * T2) by (unfold q; replace (size - (rs + rds) + T2 - 1) with ((size - (rs + rds)) + T2 - 1) by lia; apply ceil_mul; exact HT2).
  assert (HF : q <= F * ss) by (unfold F, ceil_div; apply ceil_mul; lia).
  set (data := ns - (rs + rds + nf * F)) in *.
  set (count := data / sp) in *.
  assert (Hcnt : count * sp <= data) by (unfold count; rewrite Z.mul_comm; apply Z.mul_div_le; exact Hspc).
  assert (Hc1 : 1 <= count) by (unfold count; apply Z.div_le_lower_bound; lia).
  assert (Hrs0 : 0 <= rs + rds) by (unfold rs; destruct (ft =? 32); lia).
  assert (Hcount : count * sp + (rs + rds) + nf * F <= ns) by (unfold data in Hcnt; lia).
  assert (Hnf1 : 1 <= nf) by lia.
  destruct Hft as [Eft|[Eft|Eft]]; subst ft.
  - (* FAT12 *)
    pose proof (core12 ss size nf sp (rs + rds) F count ns T2 q Hss0 Hspc Hrs0 Hnf1 Hns Hq HF Hcount Hc1 HTnf eq_refl). lia.
  - (* FAT16 *)
    assert (E512 : ss = 512 -> rs + rds = 33 /\ sp <= 32).
    { intros E. split; [|apply H16; [reflexivity|exact E]]. unfold rs, rds, re. change (16 =? 32) with false. change (16 =? 16) with true. cbv iota. rewrite E. reflexivity. }
    pose proof (core16 ss size nf sp (rs + rds) F count ns T2 q Hss0 Hspc Hrs0 Hnf1 Hns HT2 Hq HF Hcount Hc1 HTnf eq_refl E512 Hss). lia.
  - (* FAT32 *)
    assert (HT : 2 * T2 <= 256 * sp + nf) by (unfold T2; change (32 =? 32) with true; cbv iota; apply Z.mul_div_le; lia).
    assert (Hbig : 65525 <= count).
    { unfold type_of_count in Htype. fold data in Htype. fold count in Htype.
      destruct (count <? 4085); [discriminate|]. destruct (count <? 65525) eqn:E; [discriminate|]. apply Z.ltb_ge in E. exact E. }
    assert (Hsp32 : sp <= 32).
    { pose proof (proj1 (forallb_forall _ _) fat32_rows_ok (sec, sp) Hin) as Hrow. cbn [snd] in Hrow. apply Z.leb_le in Hrow. exact Hrow. }
    pose proof (core32 ss size nf sp (rs + rds) F count ns T2 q Hss0 Hspc Hrs0 Hnf1 Hns HT2 Hq HF Hcount Hc1 HTnf HT Hbig (fun _ => Hsp32) Hss). lia.
Qed.

(** outside that domain the statement is FALSE of the code: FAT16, 512-byte sectors, 64 sectors per cluster (volumes above 1 GiB) *)
Theorem mkfs_fat16_short_refuted : exists size p num_sec spc rootent rsvd f16 f32 t16 t32,
  Gen.mkfs_geometry pf_init 16 size 512 2 = Ok (p, num_sec, spc, rootent, rsvd, f16, f32, t16, t32) /\ spc = 64 /\
  _fat_size p * 512 * 8 < ((num_sec - (rsvd + root_dir_sectors p + 2 * _fat_size p)) / spc + 2) * 16.
Proof. exists (2097383 * 512). do 9 eexists. split; [vm_compute; reflexivity|]. split; [reflexivity|]. vm_compute. reflexivity. Qed.
