(** Geometry theorems about the GENERATED arithmetic of PyFat.py: FAT width determination (C07),
    device addresses of clusters (C08), the handle cursor arithmetic of FatIO.seek (C02). *)
From Coq Require Import ZArith List Bool Lia.
From PyFatV Require Import Base.Bytes Base.PyEnv Gen.Pure.
Import ListNotations.
Open Scope Z_scope.
Ltac Zify.zify_post_hook ::= Z.to_euclidean_division_equations.

(** * the specification's rule (fatgen103, "FAT Type Determination") *)
Definition spec_root_dir_sectors (h:hdr) : Z := (BPB_RootEntCnt h * 32 + (BPB_BytsPerSec h - 1)) / BPB_BytsPerSec h.
Definition spec_fatsz (h:hdr) : Z := if BPB_FATSz16 h =? 0 then BPB_FATSz32 h else BPB_FATSz16 h.
Definition spec_totsec (h:hdr) : Z := if BPB_TotSec16 h =? 0 then BPB_TotSec32 h else BPB_TotSec16 h.
Definition spec_data_sectors (h:hdr) : Z :=
  spec_totsec h - (BPB_RsvdSecCnt h + BPB_NumFATs h * spec_fatsz h + spec_root_dir_sectors h).
Definition spec_count_of_clusters (h:hdr) : Z := spec_data_sectors h / BPB_SecPerClus h.
Definition spec_fat_type (h:hdr) : Z :=
  if spec_count_of_clusters h <? 4085 then 12 else if spec_count_of_clusters h <? 65525 then 16 else 32.

(** a volume formatted according to the specification uses the 16-bit FAT size field exactly for FAT12/16 *)
Definition spec_coherent (h:hdr) : Prop :=
  (BPB_FATSz16 h = 0 <-> 65525 <= spec_count_of_clusters h) /\ (BPB_FATSz16 h = 0 -> BPB_FATSz32 h <> 0).

Theorem fat_type_is_spec h : spec_coherent h ->
  fat_type (Gen.parse_header_geometry pf_init h) = spec_fat_type h.
Proof.
  intros [Hc Hn]. unfold Gen.parse_header_geometry, Gen.determine_fat_type, Gen.get_total_sectors, get_fat_size_count, spec_fat_type.
  cbn [fat_type set_fat_type set_first_data_sector set_root_dir_sector set_root_dir_sectors set__fat_size _fat_size root_dir_sectors pf_init].
  change Gen.FAT_DIRECTORY_LAYOUT_size with 32. change Gen.FAT_TYPE_FAT12 with 12. change Gen.FAT_TYPE_FAT16 with 16. change Gen.FAT_TYPE_FAT32 with 32.
  unfold spec_count_of_clusters, spec_data_sectors, spec_totsec, spec_fatsz, spec_root_dir_sectors in *.
  destruct (BPB_FATSz16 h =? 0) eqn:E16; cbn [negb].
  - apply Z.eqb_eq in E16. destruct Hc as [Hc _]. specialize (Hc E16). specialize (Hn E16).
    destruct (BPB_FATSz32 h =? 0) eqn:E32; [apply Z.eqb_eq in E32; contradiction|]. cbn [negb].
    destruct (BPB_TotSec16 h =? 0) eqn:ET; cbn [negb] in *.
    + destruct (_ <? 4085) eqn:A; [apply Z.ltb_lt in A; lia|]. destruct (_ <? 65525) eqn:B; [apply Z.ltb_lt in B; lia|]. reflexivity.
    + destruct (_ <? 4085) eqn:A; [apply Z.ltb_lt in A; lia|]. destruct (_ <? 65525) eqn:B; [apply Z.ltb_lt in B; lia|]. reflexivity.
  - apply Z.eqb_neq in E16. destruct Hc as [_ Hc]. cbn [negb].
    destruct (BPB_TotSec16 h =? 0) eqn:ET; cbn [negb] in *.
    + destruct (_ >=? 4085) eqn:G.
      * destruct (_ <? 4085) eqn:A; [apply Z.ltb_lt in A; apply Z.geb_le in G; lia|].
        destruct (_ <? 65525) eqn:B; [reflexivity|]. apply Z.ltb_ge in B. exfalso. apply E16. apply Hc. exact B.
      * destruct (_ <? 4085) eqn:A; [reflexivity|]. apply Z.ltb_ge in A. rewrite Z.geb_leb in G. apply Z.leb_gt in G. lia.
    + destruct (_ >=? 4085) eqn:G.
      * destruct (_ <? 4085) eqn:A; [apply Z.ltb_lt in A; apply Z.geb_le in G; lia|].
        destruct (_ <? 65525) eqn:B; [reflexivity|]. apply Z.ltb_ge in B. exfalso. apply E16. apply Hc. exact B.
      * destruct (_ <? 4085) eqn:A; [reflexivity|]. apply Z.ltb_ge in A. rewrite Z.geb_leb in G. apply Z.leb_gt in G. lia.
Qed.

(** the derived geometry equals the specification's formulae *)
Theorem geometry_is_spec h :
  let p := Gen.parse_header_geometry pf_init h in
  root_dir_sectors p = spec_root_dir_sectors h /\
  root_dir_sector p = BPB_RsvdSecCnt h + BPB_NumFATs h * get_fat_size_count h /\
  first_data_sector p = BPB_RsvdSecCnt h + BPB_NumFATs h * get_fat_size_count h + spec_root_dir_sectors h.
Proof.
  unfold Gen.parse_header_geometry, spec_root_dir_sectors.
  cbn [fat_type set_fat_type set_first_data_sector set_root_dir_sector set_root_dir_sectors set__fat_size _fat_size root_dir_sectors root_dir_sector first_data_sector pf_init].
  change Gen.FAT_DIRECTORY_LAYOUT_size with 32. repeat split; lia.
Qed.

(** * C08: every cluster of the data area lies inside the volume *)
Theorem cluster_inside_volume (p:pf) (h:hdr) c :
  0 < BPB_SecPerClus h -> 0 < BPB_BytsPerSec h -> 0 <= first_data_sector p ->
  let tot := Gen.get_total_sectors h in
  let count := (tot - first_data_sector p) / BPB_SecPerClus h in
  2 <= c <= count + 1 ->
  first_data_sector p * BPB_BytsPerSec h <= Gen.get_data_cluster_address p h c /\
  Gen.get_data_cluster_address p h c + BPB_SecPerClus h * BPB_BytsPerSec h <= tot * BPB_BytsPerSec h.
Proof.
  intros Hs Hb Hf tot count Hc. unfold Gen.get_data_cluster_address.
  set (spc := BPB_SecPerClus h) in *. set (bps := BPB_BytsPerSec h) in *. set (fds := first_data_sector p) in *.
  assert (Hk: (c - 1) * spc <= tot - fds).
  { assert (c - 1 <= count) by lia. unfold count in *.
    assert ((c - 1) * spc <= ((tot - fds) / spc) * spc) by (apply Z.mul_le_mono_nonneg_r; lia).
    pose proof (Z.mul_div_le (tot - fds) spc Hs). lia. }
  split.
  - apply Z.mul_le_mono_nonneg_r; [lia|]. assert (0 <= (c - 2) * spc) by (apply Z.mul_nonneg_nonneg; lia). lia.
  - replace (((c - 2) * spc + fds) * bps + spc * bps) with (((c - 1) * spc + fds) * bps) by ring.
    apply Z.mul_le_mono_nonneg_r; [clear - Hb; lia | clear - Hk; lia].
Qed.

(** * C02: the cursor computed by FatIO.seek *)
Theorem seek_cursor_spec offset filesize bpc :
  0 < bpc -> 0 <= offset -> 0 <= filesize ->
  let '(bpos, cindex, coffpos) := Gen.seek_cursor offset filesize bpc in
  bpos = Z.min offset filesize /\
  cindex * bpc + coffpos = bpos /\
  0 <= coffpos <= bpc /\
  (coffpos = bpc -> bpos = filesize /\ 0 < bpos) /\
  (0 < bpos -> 0 <= cindex) /\ (bpos = 0 -> cindex = 0 /\ coffpos = 0) /\
  (bpos < filesize -> coffpos < bpc).
Proof.
  intros Hb Ho Hf. unfold Gen.seek_cursor.
  set (o := Z.min offset filesize).
  assert (Ho' : 0 <= o) by (unfold o; lia).
  pose proof (Z.div_mod o bpc ltac:(lia)) as D. pose proof (Z.mod_pos_bound o bpc Hb) as M.
  assert (Hq : 0 <= o / bpc) by (apply Z.div_pos; lia).
  set (q := o / bpc) in *. set (r := o mod bpc) in *.
  destruct ((o =? filesize) && (o >? 0) && (r =? 0)) eqn:E.
  - apply andb_true_iff in E. destruct E as [E E3]. apply andb_true_iff in E. destruct E as [E1 E2].
    apply Z.eqb_eq in E1, E3. rewrite Z.gtb_ltb in E2. apply Z.ltb_lt in E2.
    assert (1 <= q) by nia.
    repeat split; try lia; try nia.
  - assert (Hr: r = bpc -> False) by lia.
    repeat split; try lia; try nia.
Qed.

(** * C14: the generated mkfs arithmetic *)
Local Arguments Z.add : simpl never.
Local Arguments Z.mul : simpl never.
Local Arguments Z.sub : simpl never.
Local Arguments Z.div : simpl never.
Theorem mkfs_fits ft size ss nf p num_sec spc rootent rsvd f16 f32 t16 t32 :
  0 < ss -> 0 <= size -> 0 <= nf ->
  Gen.mkfs_geometry pf_init ft size ss nf = Ok (p, num_sec, spc, rootent, rsvd, f16, f32, t16, t32) ->
  num_sec * ss <= size /\
  0 < spc /\
  spc <= num_sec - (rsvd + root_dir_sectors p + nf * _fat_size p) /\
  (t16 = num_sec /\ t32 = 0 \/ t16 = 0 /\ t32 = num_sec) /\
  rsvd = (if ft =? 32 then 32 else 1).
Proof.
  intros Hss Hsz Hnf H. unfold Gen.mkfs_geometry in H.
  change Gen.FAT_TYPE_FAT32 with 32 in H. change Gen.FAT_TYPE_FAT16 with 16 in H.
  set (ns := size / ss) in *.
  set (sp := first_row ns (Gen.mkfs_table ft) 0) in *.
  cbv zeta in H.
  destruct (sp =? 0) eqn:E0; [discriminate|]. apply Z.eqb_neq in E0.
  match type of H with (if ?c then _ else _) = _ => destruct c eqn:Ed; [discriminate|] end.
  apply Z.ltb_ge in Ed.
  match type of H with (if ?c then _ else _) = _ => destruct c eqn:Etm; [discriminate|] end. clear Etm.
  assert (Hsp : 0 <= sp).
  { unfold sp, first_row, Gen.mkfs_table. change Gen.FAT_TYPE_FAT32 with 32. change Gen.FAT_TYPE_FAT16 with 16. change Gen.FAT_TYPE_FAT12 with 12.
    destruct (ft =? 32); [|destruct (ft =? 16); [|destruct (ft =? 12)]]; cbn [find fst snd];
      repeat (match goal with |- context [if ?c then _ else _] => destruct c end; cbn [find fst snd]); lia. }
  destruct (ft =? 32) eqn:E32; cbn [orb] in H.
  - injection H as <- <- <- <- <- <- <- <- <-. cbn [root_dir_sectors _fat_size set__fat_size set_root_dir_sectors] in *.
    split; [unfold ns; rewrite Z.mul_comm; apply Z.mul_div_le; exact Hss|]. clearbody ns sp. repeat split; lia.
  - destruct (ns >=? 65536) eqn:E64; injection H as <- <- <- <- <- <- <- <- <-; cbn [root_dir_sectors _fat_size set__fat_size set_root_dir_sectors] in *;
      (split; [unfold ns; rewrite Z.mul_comm; apply Z.mul_div_le; exact Hss|]); clearbody ns sp; repeat split; lia.
Qed.

Lemma lor_low8 a m : 0 <= m < 256 -> (forall n, 0 <= n < 8 -> Z.testbit a n = false) -> Z.lor a m = a + m.
Proof.
  intros Hm Ha.
  assert (Hl : Z.land a m = 0).
  { apply Z.bits_inj'. intros n Hn. rewrite Z.land_spec, Z.bits_0.
    destruct (Z_lt_dec n 8) as [Hlt|Hge]; [rewrite Ha by lia; reflexivity|].
    assert (Z.testbit m n = false); [|rewrite H; apply andb_false_r].
    destruct (Z.eq_dec m 0) as [->|Hz]; [apply Z.bits_0|].
    apply Z.bits_above_log2; [lia|]. assert (Z.log2 m < 8) by (apply Z.log2_lt_pow2; [lia|]; change (2 ^ 8) with 256; lia). lia. }
  rewrite <- (Z.lxor_lor _ _ Hl). symmetry. apply Z.add_nocarry_lxor. exact Hl.
Qed.
Lemma low8_zero a : a mod 256 = 0 -> forall n, 0 <= n < 8 -> Z.testbit a n = false.
Proof.
  intros Ha n Hn. replace a with (256 * (a / 256)) by (pose proof (Z.div_mod a 256); lia).
  change 256 with (2 ^ 8). rewrite Z.mul_comm, Z.mul_pow2_bits_low by lia. reflexivity.
Qed.
Theorem mkfs_fat0_spec h : 0 <= BPB_Media h < 256 ->
  Gen.mkfs_fat0 h 12 = 3840 + BPB_Media h /\ Gen.mkfs_fat0 h 16 = 65280 + BPB_Media h /\ Gen.mkfs_fat0 h 32 = 268435200 + BPB_Media h.
Proof.
  intros Hm. unfold Gen.mkfs_fat0, Gen.FAT_TYPE_FAT12, Gen.FAT_TYPE_FAT16, Gen.FAT_TYPE_FAT32.
  change (12 =? 12) with true. change (16 =? 12) with false. change (16 =? 16) with true.
  change (32 =? 12) with false. change (32 =? 16) with false. change (32 =? 32) with true. cbv iota.
  repeat split; apply lor_low8; try exact Hm; apply low8_zero; reflexivity.
Qed.

(** the FAT12 rows of the size table keep the cluster count below 4085: every row (sectors, spc) has sectors <= 4084 * spc,
    and mkfs uses the first row that covers the volume *)
Lemma first_row_in n rows d v : first_row n rows d = v -> v <> d -> exists sec, In (sec, v) rows /\ n <= sec.
Proof.
  unfold first_row. intros H Hv. destruct (find (fun p => n <=? fst p) rows) as [[sec spc]|] eqn:E; [|congruence].
  apply find_some in E. destruct E as [Hin Hle]. cbn in *. subst v. exists sec. split; [exact Hin|]. apply Z.leb_le. exact Hle.
Qed.
Lemma fat12_rows_ok : forallb (fun p => fst p <=? 4084 * snd p) (Gen.mkfs_table 12) = true.
Proof. vm_compute. reflexivity. Qed.
Theorem mkfs_fat12_count size ss nf p num_sec spc rootent rsvd f16 f32 t16 t32 :
  0 < ss -> 0 <= size -> 0 <= nf ->
  Gen.mkfs_geometry pf_init 12 size ss nf = Ok (p, num_sec, spc, rootent, rsvd, f16, f32, t16, t32) ->
  num_sec <= 4084 * spc /\
  (0 <= nf * _fat_size p -> (num_sec - (rsvd + root_dir_sectors p + nf * _fat_size p)) / spc < 4085).
Proof.
  intros Hss Hsz Hnf H.
  destruct (mkfs_fits 12 size ss nf p num_sec spc rootent rsvd f16 f32 t16 t32 Hss Hsz Hnf H) as (_ & Hspc & _ & _ & Hr).
  assert (Hrows : num_sec <= 4084 * spc /\ 0 <= root_dir_sectors p).
  { unfold Gen.mkfs_geometry in H. change Gen.FAT_TYPE_FAT32 with 32 in H. change Gen.FAT_TYPE_FAT16 with 16 in H.
    set (ns := size / ss) in *. set (sp := first_row ns (Gen.mkfs_table 12) 0) in *. cbv zeta in H.
    destruct (sp =? 0) eqn:E0; [discriminate|]. apply Z.eqb_neq in E0.
    match type of H with (if ?c then _ else _) = _ => destruct c; [discriminate|] end.
    match type of H with (if ?c then _ else _) = _ => destruct c; [discriminate|] end.
    change (12 =? 32) with false in H. cbv iota in H. cbn [orb] in H.
    destruct (first_row_in ns (Gen.mkfs_table 12) 0 sp eq_refl E0) as (sec & Hin & Hle).
    pose proof (proj1 (forallb_forall _ _) fat12_rows_ok (sec, sp) Hin) as Hrow. cbn [fst snd] in Hrow. apply Z.leb_le in Hrow.
    destruct (ns >=? 65536); injection H as <- <- <- <- <- <- <- <- <-; cbn [root_dir_sectors set__fat_size set_root_dir_sectors];
      (split; [lia | apply Z.div_pos; [destruct (ss =? 512); lia | lia]]). }
  destruct Hrows as [Hrow Hrds]. split; [exact Hrow|]. intros Hfs.
  change (12 =? 32) with false in Hr. cbv iota in Hr. subst rsvd.
  apply Z.div_lt_upper_bound; [exact Hspc|]. lia.
Qed.

(** the cluster count of every volume mkfs agrees to make lies in the range the specification assigns to the requested
    type (FAT12 < 4085 <= FAT16 < 65525 <= FAT32) — for every size, sector size and number of FATs *)
Definition type_of_count (n:Z) : Z := if n <? 4085 then 12 else if n <? 65525 then 16 else 32.
Theorem mkfs_type_range ft size ss nf p num_sec spc rootent rsvd f16 f32 t16 t32 :
  ft = 12 \/ ft = 16 \/ ft = 32 ->
  Gen.mkfs_geometry pf_init ft size ss nf = Ok (p, num_sec, spc, rootent, rsvd, f16, f32, t16, t32) ->
  type_of_count ((num_sec - (rsvd + root_dir_sectors p + nf * _fat_size p)) / spc) = ft.
Proof.
  intros Hft H. unfold Gen.mkfs_geometry in H.
  change Gen.FAT_TYPE_FAT32 with 32 in H. change Gen.FAT_TYPE_FAT16 with 16 in H. change Gen.FAT_TYPE_FAT12 with 12 in H.
  set (ns := size / ss) in *. set (sp := first_row ns (Gen.mkfs_table ft) 0) in *. cbv zeta in H.
  destruct (sp =? 0) eqn:E0; [discriminate|].
  match type of H with (if ?c then _ else _) = _ => destruct c eqn:Ed; [discriminate|] end.
  match type of H with (if ?c then _ else _) = _ => destruct c eqn:Etm; [discriminate|] end.
  assert (Hgoal : forall n, (if ft =? 12 then n >=? 4085 else if ft =? 16 then (n <? 4085) || (n >=? 65525) else n <? 65525) = false -> type_of_count n = ft).
  { intros n Hn. unfold type_of_count. destruct Hft as [Hf|[Hf|Hf]]; subst ft.
    - change (12 =? 12) with true in Hn. cbv iota in Hn. rewrite Z.geb_leb in Hn. apply Z.leb_gt in Hn.
      destruct (n <? 4085) eqn:E; [reflexivity|apply Z.ltb_ge in E; lia].
    - change (16 =? 12) with false in Hn. change (16 =? 16) with true in Hn. cbv iota in Hn. apply orb_false_iff in Hn. destruct Hn as [H1 H2].
      rewrite Z.geb_leb in H2. apply Z.leb_gt in H2. rewrite H1. destruct (n <? 65525) eqn:E; [reflexivity|apply Z.ltb_ge in E; lia].
    - change (32 =? 12) with false in Hn. change (32 =? 16) with false in Hn. cbv iota in Hn. apply Z.ltb_ge in Hn.
      destruct (n <? 4085) eqn:E1; [apply Z.ltb_lt in E1; lia|]. destruct (n <? 65525) eqn:E2; [apply Z.ltb_lt in E2; lia|reflexivity]. }
  destruct (ft =? 32) eqn:E32; cbn [orb] in H.
  - injection H as <- <- <- <- <- <- <- <- <-. apply Hgoal. exact Etm.
  - destruct (ns >=? 65536); injection H as <- <- <- <- <- <- <- <- <-; apply Hgoal; exact Etm.
Qed.
