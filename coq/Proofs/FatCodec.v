(** C20 / C16 / C07: FAT table packing for the three widths — inverse laws for every table
    length (induction, no bound), exactness of parse-then-serialise, and agreement of the parser
    with the specification's per-entry access formula. *)
From Coq Require Import ZArith List Bool Lia.
From PyFatV Require Import Base.Bytes Base.PyEnv Gen.Pure Model.Codec.
Import ListNotations.
Open Scope Z_scope.
Ltac Zify.zify_post_hook ::= Z.to_euclidean_division_equations.

Lemma list_ind2 {A} (P:list A -> Prop) :
  P [] -> (forall a, P [a]) -> (forall a b r, P r -> P (a :: b :: r)) -> forall l, P l.
Proof. intros H0 H1 H2. fix IH 1. intros [|a [|b r]]; [exact H0 | apply H1 | apply H2; apply IH]. Qed.
Lemma list_ind3 {A} (P:list A -> Prop) :
  P [] -> (forall a, P [a]) -> (forall a b, P [a;b]) -> (forall a b c r, P r -> P (a :: b :: c :: r)) -> forall l, P l.
Proof. intros H0 H1 H2 H3. fix IH 1. intros [|a [|b [|c r]]]; [exact H0 | apply H1 | apply H2 | apply H3; apply IH]. Qed.
Lemma list_ind4 {A} (P:list A -> Prop) :
  P [] -> (forall a, P [a]) -> (forall a b, P [a;b]) -> (forall a b c, P [a;b;c]) ->
  (forall a b c d r, P r -> P (a :: b :: c :: d :: r)) -> forall l, P l.
Proof. intros H0 H1 H2 H3 H4. fix IH 1. intros [|a [|b [|c [|d r]]]]; [exact H0 | apply H1 | apply H2 | apply H3 | apply H4; apply IH]. Qed.

Definition ent_ok (w:Z) (l:list Z) : Prop := Forall (fun x => 0 <= x < 2 ^ w) l.

(** * FAT12 *)
Theorem parse12_pack12 l : ent_ok 12 l -> parse12 (pack12 l) = l.
Proof.
  induction l as [|a|a b r IH] using list_ind2; intros H.
  - reflexivity.
  - inversion H as [|? ? Ha _]; subst. cbn [pack12 parse12]. f_equal. lia.
  - inversion H as [|? ? Ha H']; subst. inversion H' as [|? ? Hb H'']; subst.
    cbn [pack12 parse12]. rewrite IH by exact H''.
    f_equal; [lia | f_equal; lia].
Qed.

(** what a flush of a freshly parsed table writes: every complete entry; of a trailing byte
    pair only the 12 bits of the entry; a trailing single byte is not written at all *)
Fixpoint trim12 (bs:list Z) : list Z :=
  match bs with
  | b0 :: b1 :: b2 :: r => b0 :: b1 :: b2 :: trim12 r
  | [b0; b1] => [b0; b1 mod 16]
  | _ => []
  end.
Theorem pack12_parse12 bs : bytes_ok bs -> pack12 (parse12 bs) = trim12 bs.
Proof.
  induction bs as [|a|a b|a b c r IH] using list_ind3; intros H; try reflexivity.
  - inversion H as [|? ? Ha H']; subst. inversion H' as [|? ? Hb _]; subst. unfold byte_ok in *.
    cbn [parse12 pack12 trim12]. f_equal; [lia | f_equal; lia].
  - inversion H as [|? ? Ha H']; subst. inversion H' as [|? ? Hb H'']; subst. inversion H'' as [|? ? Hc H3]; subst.
    unfold byte_ok in *. cbn [parse12 pack12 trim12]. rewrite IH by exact H3.
    f_equal; [lia | f_equal; [lia | f_equal; lia]].
Qed.
(** the bits of the volume that are not part of any complete FAT12 entry *)
Fixpoint slack12_zero (bs:list Z) : Prop :=
  match bs with
  | _ :: _ :: _ :: r => slack12_zero r
  | [_; b1] => b1 < 16
  | _ => True
  end.
Lemma trim12_prefix bs : bytes_ok bs -> slack12_zero bs -> exists t, bs = trim12 bs ++ t /\ (length t <= 1)%nat.
Proof.
  induction bs as [|a|a b|a b c r IH] using list_ind3; intros H S.
  - exists []; auto.
  - exists [a]; simpl; auto.
  - exists []. cbn [trim12 slack12_zero] in *. inversion H as [|? ? _ H']; subst. inversion H' as [|? ? Hb _]; subst.
    unfold byte_ok in Hb. rewrite Z.mod_small by lia. auto.
  - inversion H as [|? ? _ H']; subst. inversion H' as [|? ? _ H'']; subst. inversion H'' as [|? ? _ H3]; subst.
    destruct (IH H3 S) as (t & E & L). exists t. cbn [trim12]. split; [|exact L]. simpl. rewrite <- E. reflexivity.
Qed.
Lemma parse12_length bs : lenZ (parse12 bs) = 2 * lenZ bs / 3.
Proof.
  unfold lenZ. induction bs as [|a|a b|a b c r IH] using list_ind3; try reflexivity.
  cbn [parse12 length]. rewrite !Nat2Z.inj_succ. lia.
Qed.
Theorem parse12_spec bs : bytes_ok bs -> forall i, 0 <= i < lenZ (parse12 bs) ->
  nthZ (parse12 bs) i = spec_fat_entry 12 bs i.
Proof.
  unfold spec_fat_entry. change (12 =? 12) with true. cbv iota.
  induction bs as [|a|a b|a b c r IH] using list_ind3; intros H i Hi; unfold lenZ in Hi; cbn [parse12 length] in Hi; try lia.
  - assert (i = 0) by lia; subst.
    inversion H as [|? ? Ha H']; subst. inversion H' as [|? ? Hb _]; subst. unfold byte_ok in *.
    change (nthZ (parse12 [a; b]) 0) with (a + b mod 16 * 256).
    change (if Z.odd 0 then _ else ?e) with e. change (nthZ [a; b] (0 + 0 / 2)) with a.
    change (nthZ [a; b] (0 + 0 / 2 + 1)) with b. lia.
  - inversion H as [|? ? Ha H']; subst. inversion H' as [|? ? Hb H'']; subst. inversion H'' as [|? ? Hc H3]; subst.
    unfold byte_ok in Ha, Hb, Hc.
    destruct (Z.eq_dec i 0) as [->|N0].
    { change (nthZ (parse12 (a :: b :: c :: r)) 0) with (a + b mod 16 * 256).
      change (if Z.odd 0 then _ else ?e) with e. change (nthZ (a :: b :: c :: r) (0 + 0 / 2)) with a.
      change (nthZ (a :: b :: c :: r) (0 + 0 / 2 + 1)) with b. lia. }
    destruct (Z.eq_dec i 1) as [->|N1].
    { change (nthZ (parse12 (a :: b :: c :: r)) 1) with (b / 16 + c * 16).
      change (if Z.odd 1 then ?e else _) with e. change (nthZ (a :: b :: c :: r) (1 + 1 / 2)) with b.
      change (nthZ (a :: b :: c :: r) (1 + 1 / 2 + 1)) with c. lia. }
    cbn [parse12].
    assert (E: forall (l:list Z) x y z j, 3 <= j -> nthZ (x :: y :: z :: l) j = nthZ l (j - 3)).
    { intros l x y z j Hj. unfold nthZ. replace (Z.to_nat j) with (S (S (S (Z.to_nat (j - 3))))) by lia. reflexivity. }
    assert (E2: forall (l:list Z) x y j, 2 <= j -> nthZ (x :: y :: l) j = nthZ l (j - 2)).
    { intros l x y j Hj. unfold nthZ. replace (Z.to_nat j) with (S (S (Z.to_nat (j - 2)))) by lia. reflexivity. }
    rewrite E2 by lia. rewrite IH; [| exact H3 | unfold lenZ; rewrite !Nat2Z.inj_succ in Hi; lia].
    replace (i - 2 + (i - 2) / 2) with (i + i / 2 - 3) by lia.
    rewrite (E r a b c (i + i / 2)) by lia. rewrite (E r a b c (i + i / 2 + 1)) by lia.
    replace (i + i / 2 - 3 + 1) with (i + i / 2 + 1 - 3) by lia.
    replace (Z.odd (i - 2)) with (Z.odd i) by (rewrite Z.odd_sub; simpl; destruct (Z.odd i); reflexivity).
    reflexivity.
Qed.

(** * FAT16 *)
Lemma pack16_cons a r : pack16 (a :: r) = a mod 256 :: (a / 256) mod 256 :: pack16 r.
Proof. reflexivity. Qed.
Theorem parse16_pack16 l : ent_ok 16 l -> parse16 (pack16 l) = l.
Proof.
  induction l as [|a r IH]; intros H; [reflexivity|].
  inversion H as [|? ? Ha H']; subst. rewrite pack16_cons.
  cbn [parse16]. rewrite IH by exact H'. f_equal. lia.
Qed.
Fixpoint trim16 (bs:list Z) : list Z :=
  match bs with b0 :: b1 :: r => b0 :: b1 :: trim16 r | _ => [] end.
Theorem pack16_parse16 bs : bytes_ok bs -> pack16 (parse16 bs) = trim16 bs.
Proof.
  induction bs as [|a|a b r IH] using list_ind2; intros H; try reflexivity.
  inversion H as [|? ? Ha H']; subst. inversion H' as [|? ? Hb H'']; subst. unfold byte_ok in *.
  cbn [parse16 trim16]. rewrite pack16_cons, IH by exact H''.
  f_equal; [lia | f_equal; lia].
Qed.
Lemma trim16_even bs : Nat.even (length bs) = true -> trim16 bs = bs.
Proof. induction bs as [|a|a b r IH] using list_ind2; intros E; try reflexivity; try discriminate.
  cbn [trim16]. rewrite IH; auto. Qed.
Theorem parse16_spec bs : forall i, 0 <= i < lenZ (parse16 bs) -> nthZ (parse16 bs) i = spec_fat_entry 16 bs i.
Proof.
  unfold spec_fat_entry. change (16 =? 12) with false. change (16 =? 16) with true. cbv iota.
  induction bs as [|a|a b r IH] using list_ind2; intros i Hi; unfold lenZ in Hi; cbn [parse16 length] in Hi; try lia.
  destruct (Z.eq_dec i 0) as [->|N0]; [reflexivity|]. cbn [parse16].
  assert (E1: forall (l:list Z) x j, 1 <= j -> nthZ (x :: l) j = nthZ l (j - 1)).
  { intros l x j Hj. unfold nthZ. replace (Z.to_nat j) with (S (Z.to_nat (j - 1))) by lia. reflexivity. }
  rewrite E1 by lia. rewrite IH by (unfold lenZ; rewrite Nat2Z.inj_succ in Hi; lia).
  rewrite (E1 (b :: r) a (2*i)) by lia. rewrite (E1 r b (2*i-1)) by lia.
  rewrite (E1 (b :: r) a (2*i+1)) by lia. rewrite (E1 r b (2*i+1-1)) by lia.
  replace (2 * (i - 1) + 1) with (2*i+1-1-1) by lia. replace (2 * (i - 1)) with (2*i-1-1) by lia. reflexivity.
Qed.

(** * FAT32 (28 significant bits + 4 preserved reserved bits) *)
Definition hi_ok (hi:list Z) : Prop := Forall (fun h => exists k, 0 <= k < 16 /\ h = k * two28) hi.
Lemma le4_parse v r : 0 <= v < 4294967296 -> parse32w (le 4 v ++ r) = v :: parse32w r.
Proof.
  intros Hv. pose proof (un_le_le 4 v ltac:(simpl; lia)) as E. cbn [le un_le] in E.
  cbn [le app parse32w]. f_equal. lia.
Qed.
Theorem parse32_pack32 l : forall hi, ent_ok 28 l -> hi_ok hi -> length hi = length l ->
  parse32 (pack32 l hi) = l /\ parse32hi (pack32 l hi) = hi.
Proof.
  unfold parse32, parse32hi.
  induction l as [|a r IH]; intros hi H Hh L.
  - destruct hi; [split; reflexivity | discriminate].
  - destruct hi as [|h hr]; [discriminate|]. inversion H as [|? ? Ha H']; subst. inversion Hh as [|? ? (k & Hk & ->) Hh']; subst.
    change (2 ^ 28) with 268435456 in Ha. unfold two28 in *.
    cbn [pack32 hd tl]. rewrite le4_parse by lia. cbn [map]. injection L as L.
    destruct (IH hr H' Hh' L) as [E1 E2]. rewrite E1, E2. split; f_equal; lia.
Qed.
Fixpoint trim32 (bs:list Z) : list Z :=
  match bs with b0 :: b1 :: b2 :: b3 :: r => b0 :: b1 :: b2 :: b3 :: trim32 r | _ => [] end.
Theorem pack32_parse32 bs : bytes_ok bs -> pack32 (parse32 bs) (parse32hi bs) = trim32 bs.
Proof.
  unfold parse32, parse32hi, two28.
  induction bs as [|a|a b|a b c|a b c d r IH] using list_ind4; intros H; try reflexivity.
  inversion H as [|? ? Ha H1]; subst. inversion H1 as [|? ? Hb H2]; subst.
  inversion H2 as [|? ? Hc H3]; subst. inversion H3 as [|? ? Hd H4]; subst. unfold byte_ok in *.
  cbn [parse32w map pack32 hd tl trim32]. rewrite IH by exact H4. cbn [le app].
  f_equal; [lia | f_equal; [lia | f_equal; [lia | f_equal; lia]]].
Qed.
Lemma trim32_id bs : (length bs mod 4 = 0)%nat -> trim32 bs = bs.
Proof. induction bs as [|a|a b|a b c|a b c d r IH] using list_ind4; intros E; try reflexivity; try discriminate.
  cbn [trim32]. rewrite IH; auto. cbn [length] in E.
  replace (S (S (S (S (length r))))) with (length r + 1 * 4)%nat in E by lia. rewrite Nat.mod_add in E by lia. exact E. Qed.
Theorem parse32_spec bs : forall i, 0 <= i < lenZ (parse32 bs) -> nthZ (parse32 bs) i = spec_fat_entry 32 bs i.
Proof.
  unfold spec_fat_entry. change (32 =? 12) with false. change (32 =? 16) with false. cbv iota.
  unfold parse32.
  induction bs as [|a|a b|a b c|a b c d r IH] using list_ind4; intros i Hi; unfold lenZ in Hi; cbn [parse32w map length] in Hi; try lia.
  destruct (Z.eq_dec i 0) as [->|N0]; [reflexivity|]. cbn [parse32w map].
  assert (E1: forall (l:list Z) x j, 1 <= j -> nthZ (x :: l) j = nthZ l (j - 1)).
  { intros l x j Hj. unfold nthZ. replace (Z.to_nat j) with (S (Z.to_nat (j - 1))) by lia. reflexivity. }
  assert (E4: forall (l:list Z) w x y z j, 4 <= j -> nthZ (w :: x :: y :: z :: l) j = nthZ l (j - 4)).
  { intros l w x y z j Hj. unfold nthZ. replace (Z.to_nat j) with (S (S (S (S (Z.to_nat (j - 4)))))) by lia. reflexivity. }
  rewrite E1 by lia. rewrite IH by (unfold lenZ; rewrite Nat2Z.inj_succ in Hi; lia).
  rewrite !(E4 r a b c d) by lia.
  replace (4 * (i - 1) + 1) with (4 * i + 1 - 4) by lia.
  replace (4 * (i - 1) + 2) with (4 * i + 2 - 4) by lia. replace (4 * (i - 1) + 3) with (4 * i + 3 - 4) by lia.
  replace (4 * (i - 1)) with (4 * i - 4) by lia.
  reflexivity.
Qed.

(** * The short-name checksum: generated code = the specification's rotate-right-and-add *)
Definition spec_sum_step (sum c:Z) : Z := ((if Z.odd sum then 128 else 0) + sum / 2 + c) mod 256.
Definition spec_checksum (name:list Z) : Z := fold_left spec_sum_step name 0.
Definition gen_sum_step (chksum c:Z) : Z :=
  Z.land (Z.lor (Z.shiftr chksum 1) (Z.shiftl (Z.land chksum 1) 7) + c) 255.
Lemma gen_checksum_unfold name : Gen.checksum name = fold_left gen_sum_step name 0.
Proof. reflexivity. Qed.
From PyFatV Require Import Base.Sweep.
Lemma all_sum_steps : allbits 16 (fun x => gen_sum_step (x / 256) (x mod 256) =? spec_sum_step (x / 256) (x mod 256)) = true.
Proof. vm_compute. reflexivity. Qed.
Lemma sum_step_eq s c : 0 <= s < 256 -> 0 <= c < 256 -> gen_sum_step s c = spec_sum_step s c.
Proof.
  intros Hs Hc. pose proof (allbits_spec 16 _ all_sum_steps (s * 256 + c) ltac:(simpl; lia)) as H. cbv beta in H.
  replace ((s * 256 + c) / 256) with s in H by lia. replace ((s * 256 + c) mod 256) with c in H by lia.
  apply Z.eqb_eq; exact H.
Qed.
Lemma spec_sum_step_range s c : 0 <= spec_sum_step s c < 256.
Proof. unfold spec_sum_step. apply Z.mod_pos_bound. lia. Qed.
Theorem checksum_spec name : bytes_ok name ->
  Gen.checksum name = spec_checksum name /\ 0 <= Gen.checksum name < 256.
Proof.
  rewrite gen_checksum_unfold. unfold spec_checksum. intros H.
  assert (G: forall s, 0 <= s < 256 -> fold_left gen_sum_step name s = fold_left spec_sum_step name s /\ 0 <= fold_left gen_sum_step name s < 256).
  { induction H as [|c r Hc Hr IH]; intros s Hs; cbn [fold_left]; [split; [reflexivity|exact Hs]|].
    rewrite (sum_step_eq s c Hs Hc). apply IH. apply spec_sum_step_range. }
  apply G. lia.
Qed.

(** * struct layouts: serialising a parsed record reproduces its bytes (any layout, hence also the
    generated BPB / FSInfo layouts) *)
Fixpoint layout_ok (lay:list (Z*Z)) : Prop :=
  match lay with [] => True | (w,k) :: r => 0 <= w /\ layout_ok r end.
Fixpoint pads_zero_in (lay:list (Z*Z)) (bs:list Z) : Prop :=
  match lay with
  | [] => True
  | (w,k) :: r => (k <> 0 -> k <> 1 -> firstn (Z.to_nat w) bs = zeros w) /\ pads_zero_in r (skipn (Z.to_nat w) bs)
  end.
Lemma In_skipn' {A} n : forall (l:list A) x, In x (skipn n l) -> In x l.
Proof. induction n as [|n IH]; intros [|a l] x H; simpl in *; auto. Qed.
Lemma In_firstn' {A} n : forall (l:list A) x, In x (firstn n l) -> In x l.
Proof. induction n as [|n IH]; intros [|a l] x H; simpl in *; try tauto. destruct H as [H|H]; [left; exact H | right; apply IH; exact H]. Qed.
Lemma firstn_plus {A} a : forall b (l:list A), firstn (a + b) l = firstn a l ++ firstn b (skipn a l).
Proof. induction a as [|a IH]; intros b [|x l]; simpl; try reflexivity.
  - destruct b; reflexivity.
  - rewrite IH. reflexivity. Qed.
Lemma layout_size_cons w k r : layout_size ((w,k) :: r) = w + layout_size r.
Proof. reflexivity. Qed.
Lemma layout_size_nonneg lay : layout_ok lay -> 0 <= layout_size lay.
Proof. induction lay as [|[w k] r IH]; intros H; [unfold layout_size; simpl; lia|].
  rewrite layout_size_cons. destruct H as [Hw Hr]. specialize (IH Hr). lia. Qed.
Theorem ser_parse_layout lay : forall bs, layout_ok lay -> bytes_ok bs -> layout_size lay <= lenZ bs -> pads_zero_in lay bs ->
  ser_layout lay (parse_layout lay bs) = firstn (Z.to_nat (layout_size lay)) bs.
Proof.
  induction lay as [|[w k] r IH]; intros bs Hl Hb Hs Hp; [reflexivity|].
  destruct Hl as [Hw Hl]. cbn [pads_zero_in] in Hp. destruct Hp as [Hp0 Hp].
  rewrite layout_size_cons in *. pose proof (layout_size_nonneg r Hl) as Hr.
  unfold lenZ in Hs.
  cbn [parse_layout ser_layout].
  assert (Hlen: length (firstn (Z.to_nat w) bs) = Z.to_nat w) by (apply firstn_length_le; lia).
  rewrite IH; [ | exact Hl | apply Forall_forall; intros x Hx; apply (proj1 (Forall_forall _ _) Hb); eapply In_skipn'; exact Hx
              | unfold lenZ; rewrite skipn_length; lia | exact Hp].
  replace (Z.to_nat (w + layout_size r)) with (Z.to_nat w + Z.to_nat (layout_size r))%nat by lia.
  rewrite firstn_plus.
  f_equal.
  destruct (k =? 0) eqn:E0; [| destruct (k =? 1) eqn:E1].
  - assert (HB: bytes_ok (firstn (Z.to_nat w) bs)).
    { apply Forall_forall; intros x Hx; apply (proj1 (Forall_forall _ _) Hb). eapply In_firstn'; exact Hx. }
    pose proof (le_un_le _ HB) as E. rewrite Hlen in E. exact E.
  - reflexivity.
  - symmetry. apply Hp0; intro; subst; discriminate.
Qed.

(** * short-name lead byte: 0x05 <-> 0xE5 are inverse and a stored lead byte is never 0xE5 *)
Theorem sfn_lead_roundtrip name : hd 0 name <> 5 -> sfn_lead_decode (sfn_lead_encode name) = name.
Proof. destruct name as [|b r]; simpl; [reflexivity|]. intros H. destruct (b =? 229) eqn:E.
  - apply Z.eqb_eq in E. subst. reflexivity.
  - destruct (b =? 5) eqn:E5; [apply Z.eqb_eq in E5; contradiction|reflexivity]. Qed.
Theorem sfn_lead_never_e5 name : hd 0 (sfn_lead_encode name) <> 229.
Proof. destruct name as [|b r]; simpl; [lia|]. destruct (b =? 229) eqn:E; [lia|]. apply Z.eqb_neq in E. exact E. Qed.
Theorem sfn_stored_roundtrip name : hd 0 name <> 229 -> sfn_lead_encode (sfn_lead_decode name) = name.
Proof. destruct name as [|b r]; simpl; [reflexivity|]. intros H. destruct (b =? 5) eqn:E.
  - apply Z.eqb_eq in E. subst. reflexivity.
  - destruct (b =? 229) eqn:E5; [apply Z.eqb_eq in E5; contradiction|reflexivity]. Qed.
