(** C06: an INDEPENDENT, strictly specification-following directory reader, and the theorem that it decodes from the bytes
    pyfatfs' writer lays down exactly the entries that were written.  The reader here shares nothing with the model of
    pyfatfs' own reader ([scan_slots], which collects slots in a dictionary and sorts them): it walks the 32-byte slots in
    order and, at a short entry, looks BACK over the slots immediately before it, which must be long-name slots numbered
    1, 2, ... n with the last-flag (0x40) exactly on the n-th, each carrying the checksum of the short name — the layout
    the VFAT specification prescribes (last slot first on disk).  Anything else is an orphan and the short name stands. *)
From Coq Require Import ZArith List Bool Lia ZifyBool Sorted.
From PyFatV Require Import Base.Bytes Base.PyEnv Gen.Pure Model.Codec Model.Dir Proofs.FatCodec Proofs.DirCodec.
Import ListNotations.
Open Scope Z_scope.

Definition raw_is_lfn (raw:list Z) : bool := (Z.land (nthZ raw 11) 63 =? 15) && negb (nthZ raw 0 =? 229).

(** walk back from a short entry: [prev] holds the raw slots before it, nearest first *)
Fixpoint spec_lookback (prev:list (list Z)) (want chk:Z) (acc:list lfnslot) : option (list lfnslot) :=
  match prev with
  | [] => None
  | raw :: r =>
    if raw_is_lfn raw then
      let s := parse_lfnslot raw in
      if negb (l_chk s =? chk) then None
      else if negb (Z.land (l_ord s) 63 =? want) then None
      else if Z.land (l_ord s) 64 =? 64 then Some (acc ++ [s])
      else spec_lookback r (want + 1) chk (acc ++ [s])
    else None
  end.

Fixpoint spec_dir (prev:list (list Z)) (slots:list (list Z)) : list dirent :=
  match slots with
  | [] => []
  | raw :: rest =>
    if nthZ raw 0 =? 0 then []
    else if nthZ raw 0 =? 229 then spec_dir (raw :: prev) rest
    else if raw_is_lfn raw then spec_dir (raw :: prev) rest
    else let e := parse_short raw in
         set_lfn e (spec_lookback prev 1 (Gen.checksum (d_name e)) []) :: spec_dir (raw :: prev) rest
  end.

(** the device bytes cut into 32-byte slots *)
Fixpoint chunks (n:nat) (b:list Z) : list (list Z) :=
  match n with
  | O => []
  | S k => match b with [] => [] | _ => firstn 32 b :: chunks k (skipn 32 b) end
  end.
Definition spec_read (n:nat) (b:list Z) : list dirent := spec_dir [] (chunks n b).

(** the long name as the specification reads it: the name parts in ascending slot order, up to the first NUL *)
Fixpoint upto_nul (u:list Z) : list Z := match u with [] => [] | x :: r => if x =? 0 then [] else x :: upto_nul r end.
Definition spec_name (sl:list lfnslot) : list Z :=
  upto_nul (units_of_bytes (flat_map (fun s => l_name1 s ++ l_name2 s ++ l_name3 s) sl)).

(** * proofs *)
Lemma chunks_app a b n : length a = 32%nat -> chunks (S n) (a ++ b) = a :: chunks n b.
Proof.
  intros H. cbn [chunks]. destruct (a ++ b) eqn:E; [destruct a; [discriminate|discriminate]|]. rewrite <- E.
  rewrite (firstn_app_exact _ _ 32 H), (skipn_app_exact _ _ 32 H). reflexivity.
Qed.

Lemma ser_lfn_is_lfn s : lslot_ok s -> raw_is_lfn (ser_lfnslot s) = true /\ nthZ (ser_lfnslot s) 0 <> 0 /\ nthZ (ser_lfnslot s) 0 <> 229.
Proof.
  intros (Hs & H0 & H229 & Ha & _). pose proof (parse_ser_lfnslot s Hs) as Hp.
  assert (E0 : nthZ (ser_lfnslot s) 0 = l_ord s) by (change (nthZ (ser_lfnslot s) 0) with (l_ord (parse_lfnslot (ser_lfnslot s))); rewrite Hp; reflexivity).
  assert (E11 : nthZ (ser_lfnslot s) 11 = l_attr s) by (change (nthZ (ser_lfnslot s) 11) with (l_attr (parse_lfnslot (ser_lfnslot s))); rewrite Hp; reflexivity).
  unfold raw_is_lfn. rewrite E0, E11, Ha. split; [|split; assumption].
  change (Z.land 15 63 =? 15) with true. destruct (l_ord s =? 229) eqn:E; [lia|reflexivity].
Qed.

(** the forward walk over the long-name slots of one entry only pushes them *)
Lemma spec_dir_lfn_run ls : forall prev rest, Forall lslot_ok ls ->
  spec_dir prev (map ser_lfnslot ls ++ rest) = spec_dir (rev (map ser_lfnslot ls) ++ prev) rest.
Proof.
  induction ls as [|s r IH]; intros prev rest H; [reflexivity|]. inversion H as [|? ? Hs Hr]; subst.
  cbn [map app spec_dir]. destruct (ser_lfn_is_lfn s Hs) as (Hl & H0 & H229).
  destruct (nthZ (ser_lfnslot s) 0 =? 0) eqn:A; [lia|]. destruct (nthZ (ser_lfnslot s) 0 =? 229) eqn:B; [lia|]. rewrite Hl.
  rewrite IH by exact Hr. cbn [rev]. rewrite <- app_assoc. reflexivity.
Qed.

Lemma land_split x : Z.lor (Z.land x 64) (Z.land x 63) = Z.land x 127.
Proof. rewrite <- Z.land_lor_distr_r. reflexivity. Qed.

(** looking back over slots numbered i, i+1, ..., n-1, n|0x40 (as [ords_from] says) with the right checksum finds them all *)
Lemma lookback_finds chk : forall sl i acc prev, Forall lslot_ok sl -> ords_from (map l_ord sl) i = true -> 1 <= i -> i + lenZ sl <= 64 ->
  forallb (fun s => l_chk s =? chk) sl = true ->
  spec_lookback (map ser_lfnslot sl ++ prev) i chk acc = Some (acc ++ sl).
Proof.
  induction sl as [|s r IH]; intros i acc prev Hf Ho Hi Hlen Hc; [discriminate|].
  inversion Hf as [|? ? Hs Hr]; subst. cbn [map app spec_lookback]. destruct (ser_lfn_is_lfn s Hs) as (Hl & _). rewrite Hl.
  destruct Hs as (Hslot & _). rewrite (parse_ser_lfnslot s Hslot).
  cbn [forallb] in Hc. apply andb_true_iff in Hc. destruct Hc as [Hc1 Hc2]. rewrite Hc1. cbn [negb].
  unfold lenZ in Hlen. cbn [length] in Hlen.
  destruct r as [|s2 r2].
  - cbn [map ords_from] in Ho. change Gen.LAST_LONG_ENTRY with 64 in Ho. change (Z.lnot 64) with (-65) in Ho.
    apply andb_true_iff in Ho. destruct Ho as [Ho _]. apply andb_true_iff in Ho. destruct Ho as [Ho1 Ho2].
    apply Z.eqb_eq in Ho1. apply Z.eqb_eq in Ho2.
    assert (E63 : Z.land (l_ord s) 63 = i).
    { rewrite <- Ho2. replace 63 with (Z.land (-65) 63) at 1 by reflexivity. rewrite Z.land_assoc. rewrite Ho2.
      (* i < 64: land i 63 = i *) change 63 with (Z.ones 6). rewrite Z.land_ones by lia. apply Z.mod_small. lia. }
    rewrite E63, Z.eqb_refl. cbn [negb]. rewrite Ho1. reflexivity.
  - change (map l_ord (s :: s2 :: r2)) with (l_ord s :: map l_ord (s2 :: r2)) in Ho. cbn [ords_from] in Ho.
    apply andb_true_iff in Ho. destruct Ho as [Ho1 Ho2]. apply Z.eqb_eq in Ho1.
    assert (E63 : Z.land (l_ord s) 63 = i) by (rewrite Ho1; change 63 with (Z.ones 6); rewrite Z.land_ones by lia; apply Z.mod_small; cbn [length] in Hlen; lia).
    assert (E64 : Z.land (l_ord s) 64 = 0).
    { rewrite Ho1. change 64 with (2 ^ 6). apply Z.bits_inj'. intros n Hn. rewrite Z.land_spec, Z.bits_0, Z.pow2_bits_eqb by lia.
      destruct (6 =? n) eqn:E6; [|apply andb_false_r]. apply Z.eqb_eq in E6; subst n. rewrite andb_true_r.
      apply Z.bits_above_log2; [lia|]. cbn [length] in Hlen. apply Z.log2_lt_pow2; [lia|]. change (2 ^ 6) with 64. lia. }
    rewrite E63, Z.eqb_refl, E64. cbn [negb]. change (0 =? 64) with false. cbv iota.
    rewrite (IH (i + 1) (acc ++ [s]) prev Hr Ho2) by (try exact Hc2; unfold lenZ; cbn [length] in *; lia).
    rewrite <- app_assoc. reflexivity.
Qed.

Definition spec_entry_ok (e:dirent) : Prop :=
  entry_ok e /\ match d_lfn e with Some sl => lenZ sl <= 63 | None => True end.

Lemma short_not_lfn e : sentry_ok e -> raw_is_lfn (ser_short e) = false /\ nthZ (ser_short e) 0 <> 0 /\ nthZ (ser_short e) 0 <> 229.
Proof.
  intros (Hok & H0 & H229 & Ha). pose proof (parse_ser_short e Hok) as Hp.
  assert (Hname : length (d_name e) = 11%nat) by (destruct Hok; assumption).
  assert (E0 : nthZ (ser_short e) 0 = nthZ (d_name e) 0).
  { unfold ser_short, nthZ. change (Z.to_nat 0) with 0%nat. destruct (d_name e); [discriminate|reflexivity]. }
  assert (E11 : nthZ (ser_short e) 11 = d_attr e).
  { assert (d_attr (parse_short (ser_short e)) = d_attr e) by (rewrite Hp; destruct e; reflexivity). exact H. }
  unfold raw_is_lfn. rewrite E0, E11. split; [|split; assumption].
  destruct (Z.land (d_attr e) 63 =? 15) eqn:C; [lia|reflexivity].
Qed.

Definition prev_ok (prev:list (list Z)) : Prop := match prev with [] => True | raw :: _ => raw_is_lfn raw = false end.
Definition raws (e:dirent) : list (list Z) :=
  (match d_lfn e with Some sl => map ser_lfnslot (rev sl) | None => [] end) ++ [ser_short e].

Lemma spec_entry e prev rest : spec_entry_ok e -> prev_ok prev ->
  spec_dir prev (raws e ++ rest) = e :: spec_dir (rev (raws e) ++ prev) rest /\ prev_ok (rev (raws e) ++ prev).
Proof.
  intros ((Hs & Hl) & Hn) Hp. destruct (short_not_lfn e Hs) as (Hnl & H0 & H229). destruct Hs as (Hok & _).
  unfold raws. split; [|rewrite rev_app_distr; cbn [rev app]; exact Hnl].
  destruct (d_lfn e) as [sl|] eqn:El.
  - destruct Hl as (Ha & Hf & Ho & Hc).
    assert (Hfr : Forall lslot_ok (rev sl)) by (apply Forall_forall; intros x Hx; apply in_rev in Hx; rewrite Forall_forall in Hf; auto).
    rewrite <- app_assoc. rewrite spec_dir_lfn_run by exact Hfr. rewrite <- map_rev, rev_involutive.
    cbn [app spec_dir]. destruct (nthZ (ser_short e) 0 =? 0) eqn:A; [lia|]. destruct (nthZ (ser_short e) 0 =? 229) eqn:B; [lia|]. rewrite Hnl.
    rewrite (parse_ser_short e Hok). cbn [d_name set_lfn].
    rewrite (lookback_finds (Gen.checksum (d_name e)) sl 1 [] prev Hf Ho) by (try exact Hc; lia). cbn [app].
    rewrite rev_app_distr. cbn [rev app]. rewrite <- map_rev, rev_involutive.
    f_equal. destruct e; cbn in El; subst; reflexivity.
  - cbn [app spec_dir rev]. destruct (nthZ (ser_short e) 0 =? 0) eqn:A; [lia|]. destruct (nthZ (ser_short e) 0 =? 229) eqn:B; [lia|]. rewrite Hnl.
    rewrite (parse_ser_short e Hok). cbn [d_name set_lfn].
    assert (Hlb : forall w c a, spec_lookback prev w c a = None).
    { intros w c a. destruct prev as [|raw r]; [reflexivity|]. cbn [spec_lookback]. cbn in Hp. rewrite Hp. reflexivity. }
    rewrite Hlb. f_equal. destruct e; cbn in El; subst; reflexivity.
Qed.

Theorem spec_dir_written es : forall prev rest, Forall spec_entry_ok es -> prev_ok prev ->
  exists prev', spec_dir prev (flat_map raws es ++ rest) = es ++ spec_dir prev' rest.
Proof.
  induction es as [|e r IH]; intros prev rest H Hp; [exists prev; reflexivity|].
  inversion H as [|? ? He Hr]; subst. cbn [flat_map]. rewrite <- app_assoc.
  destruct (spec_entry e prev (flat_map raws r ++ rest) He Hp) as (E & Hp'). rewrite E.
  destruct (IH _ rest Hr Hp') as (prev' & E'). exists prev'. rewrite E'. reflexivity.
Qed.

(** cutting the written bytes into slots gives exactly those raw slots *)
Lemma chunks_lfn_run ls : forall n rest, Forall lslot_ok ls ->
  chunks (length ls + n) (flat_map ser_lfnslot ls ++ rest) = map ser_lfnslot ls ++ chunks n rest.
Proof.
  induction ls as [|s r IH]; intros n rest H; [reflexivity|]. inversion H as [|? ? Hs Hr]; subst.
  cbn [flat_map map length Nat.add]. rewrite <- app_assoc. rewrite chunks_app by (apply ser_lfnslot_length; destruct Hs; assumption).
  rewrite IH by exact Hr. reflexivity.
Qed.
Lemma chunks_raws e n rest : entry_ok e -> chunks (nslots e + n) (ser_dirent e ++ rest) = raws e ++ chunks n rest.
Proof.
  intros (Hs & Hl). destruct Hs as (Hok & _). unfold ser_dirent, raws, nslots. destruct (d_lfn e) as [sl|].
  - destruct Hl as (Ha & Hf & _). rewrite (sort_desc_asc sl Ha).
    assert (Hfr : Forall lslot_ok (rev sl)) by (apply Forall_forall; intros x Hx; apply in_rev in Hx; rewrite Forall_forall in Hf; auto).
    replace (S (length sl) + n)%nat with (length (rev sl) + S n)%nat by (rewrite rev_length; lia).
    rewrite <- !app_assoc. rewrite chunks_lfn_run by exact Hfr. rewrite chunks_app by (apply ser_short_length; exact Hok). reflexivity.
  - cbn [app]. change (1 + n)%nat with (S n). rewrite chunks_app by (apply ser_short_length; exact Hok). reflexivity.
Qed.
Lemma chunks_ser_dir es : forall n rest, Forall entry_ok es -> chunks (nslots_dir es + n) (ser_dir es ++ rest) = flat_map raws es ++ chunks n rest.
Proof.
  induction es as [|e r IH]; intros n rest H; [reflexivity|]. inversion H as [|? ? He Hr]; subst.
  unfold ser_dir in *. cbn [flat_map nslots_dir fold_right]. rewrite <- !app_assoc, <- Nat.add_assoc.
  rewrite chunks_raws by exact He. fold (nslots_dir r). rewrite IH by exact Hr. reflexivity.
Qed.

(** THE THEOREM: from the bytes pyfatfs' writer lays down for any directory — its entries, then zero fill with at least the
    end mark — the specification's reader decodes exactly the entries that were written, long names included *)
Theorem spec_reads_what_was_written es k f : Forall spec_entry_ok es -> (0 < k)%nat ->
  spec_read (nslots_dir es + S f) (ser_dir es ++ repeat 0 (32 * k)) = es.
Proof.
  intros H Hk. assert (H' : Forall entry_ok es) by (eapply Forall_impl; [|exact H]; intros a Ha; destruct Ha; assumption).
  unfold spec_read. rewrite chunks_ser_dir by exact H'.
  destruct (spec_dir_written es [] (chunks (S f) (repeat 0 (32 * k))) H I) as (prev' & E). rewrite E.
  destruct k as [|k']; [lia|]. replace (32 * S k')%nat with (32 + 32 * k')%nat by lia. rewrite repeat_app.
  rewrite chunks_app by apply repeat_length. cbn [spec_dir]. change (nthZ (repeat 0 32) 0 =? 0) with true. cbv iota. apply app_nil_r.
Qed.

(** * the name the specification's reader shows for a set built by [make_lfn_entry] *)
From PyFatV Require Import Proofs.Names.
Lemma upto_nul_clean u r : Forall unit_ok u -> upto_nul (u ++ 0 :: r) = u /\ upto_nul u = u.
Proof.
  induction 1 as [|x l Hx Hl IH]; [split; reflexivity|]. destruct IH as [I1 I2]. cbn [app upto_nul].
  unfold unit_ok in Hx. destruct (x =? 0) eqn:E; [lia|]. rewrite I1, I2. split; reflexivity.
Qed.
Theorem spec_name_of_built_set u sfn : Forall unit_ok u -> 1 <= lenZ u <= 255 ->
  spec_name (make_lfn u sfn) = u /\ lenZ (make_lfn u sfn) <= 63.
Proof.
  intros Hu Hlen. assert (Hne : u <> []) by (intros ->; unfold lenZ in Hlen; cbn in Hlen; lia).
  destruct (lfn_roundtrip u sfn Hu Hlen) as (_ & Hn & Hp & _ & _). split.
  - unfold spec_name. change (fun s : lfnslot => l_name1 s ++ l_name2 s ++ l_name3 s) with parts. rewrite Hp.
    destruct (lfn_padded_shape u Hu Hne) as (k & _ & _ & [[_ E]|[_ [j E]]]); rewrite E.
    + apply (upto_nul_clean u [] Hu).
    + cbn [app]. apply (upto_nul_clean u (repeat 65535 j) Hu).
  - rewrite Hn. assert ((lenZ u + 12) / 13 < 21) by (apply Z.div_lt_upper_bound; lia). lia.
Qed.

(** an entry as create / makedir / move build it — a valid short entry carrying the set [make_lfn] builds for its name — is an
    entry the strict reader accepts *)
Theorem built_entry_spec_ok e u : sentry_ok e -> Forall unit_ok u -> 1 <= lenZ u <= 255 ->
  spec_entry_ok (set_lfn e (Some (make_lfn u (d_name e)))).
Proof.
  intros Hs Hu Hlen. split.
  - split; [destruct e; exact Hs|]. cbn [d_lfn set_lfn d_name]. apply make_lfn_ok; assumption.
  - cbn [d_lfn set_lfn]. apply spec_name_of_built_set; assumption.
Qed.
