(** C05: what [makedir] writes into a new directory: the '.' entry naming the directory's own first cluster and the '..' entry
    naming the parent's (0 for the root), both directories of size 0 without long names; and the entry added to the parent. *)
From Coq Require Import ZArith List Bool Lia ZifyBool Sorted.
From PyFatV Require Import Base.Bytes Base.PyEnv Gen.Pure Model.Codec Model.Dir Model.FS Proofs.FatTable.
Import ListNotations.
Open Scope Z_scope.

Lemma get_set_cluster_raw c : 0 <= c < 4294967296 ->
  let '(lo, hi) := Gen.set_cluster c in Gen.get_cluster lo hi = c /\ 0 <= lo < 65536 /\ 0 <= hi < 65536.
Proof.
  intros Hc. unfold Gen.set_cluster, Gen.get_cluster. change (16 * 0) with 0. change (16 * 1) with 16. rewrite Z.shiftr_0_r.
  change 65535 with (Z.ones 16). rewrite !Z.land_ones by lia. rewrite Z.shiftr_div_pow2, Z.shiftl_mul_pow2 by lia. change (2 ^ 16) with 65536.
  pose proof (Z.div_mod c 65536 ltac:(lia)). pose proof (Z.mod_pos_bound c 65536 ltac:(lia)).
  assert (0 <= c / 65536 < 65536) by (split; [apply Z.div_pos; lia|apply Z.div_lt_upper_bound; lia]).
  rewrite (Z.mod_small (c / 65536) 65536) by lia. split; [lia|]. split; lia.
Qed.
Lemma get_set_cluster e c : 0 <= c < 4294967296 -> get_cluster (set_cluster e c) = c.
Proof.
  intros Hc. pose proof (get_set_cluster_raw c Hc) as H. unfold get_cluster, set_cluster. destruct (Gen.set_cluster c) as [lo hi]. cbn [d_cluslo d_clushi]. apply H.
Qed.

Definition parent_cluster (base:eref) : Z := match base with ERoot => 0 | EAt _ pe => get_cluster pe end.

Theorem makedir_writes_dots s path t s' :
  op_makedir s path false t = Ok s' -> 0 <= s_hint s -> max_cluster s < 4294967296 -> 2 <= Gen.MIN_DATA_CLUSTER (ft s) ->
  0 < bytes_per_cluster (s_p s) ->
  exists base es e c dot dotdot s1 s2 s3,
    eref_is_dir base = true /\ read_dir s (eref_loc s base) = Ok es /\
    write_dir s1 c [dot; dotdot] = Ok s2 /\ write_dir s2 (eref_loc s base) (es ++ [e]) = Ok s3 /\ flush_fat s3 = Ok s' /\
    2 <= c <= max_cluster s /\ nthZ (s_fat s) c = Gen.FREE_CLUSTER (ft s) /\
    d_name dot = dot_name /\ get_cluster dot = c /\ is_dir dot = true /\ d_size dot = 0 /\ d_lfn dot = None /\
    d_name dotdot = dotdot_name /\ get_cluster dotdot = parent_cluster base /\ is_dir dotdot = true /\ d_lfn dotdot = None /\
    get_cluster e = c /\ is_dir e = true /\ d_size e = 0.
Proof.
  intros H Hh Hmax Hmin Hbpc. unfold op_makedir in H.
  destruct (split_last path) as [[dirp n]|]; [|discriminate].
  match type of H with bind ?X _ = _ => destruct X as [base|] eqn:Eb; [|discriminate] end. cbn [bind] in H.
  assert (Hbd : eref_is_dir base = true).
  { destruct (get_dir_entry s dirp) as [b|]; [|discriminate]. destruct (eref_is_dir b) eqn:E; [|discriminate]. inversion Eb; subst. exact E. }
  destruct (get_dir_entry s path) as [r|er]; [cbn [negb orb] in H; discriminate|].
  destruct er; try discriminate.
  cbv zeta in H.
  destruct (read_dir s (eref_loc s base)) as [es|] eqn:Er; [|discriminate]. cbn [bind] in H.
  destruct (new_names s n es) as [[sfn lfn]|] eqn:En; [|discriminate]. cbn [bind] in H.
  destruct (allocate s (Gen.FAT_DIRECTORY_LAYOUT_size * 2) true) as [[cs s1]|] eqn:Ea; [|discriminate]. cbn [bind] in H.
  match type of H with bind ?X _ = _ => destruct X as [s2|] eqn:E2; [|discriminate] end. cbn [bind] in H.
  match type of H with bind ?X _ = _ => destruct X as [s3|] eqn:E3; [|discriminate] end. cbn [bind] in H.
  destruct (allocate_sound s _ true cs s1 Hh Ea) as [(Hl & _ & Hf)|Hbad]; [|lia].
  destruct cs as [|c rest].
  { exfalso. unfold lenZ in Hl. cbn [length] in Hl. unfold Gen.calc_num_clusters, ceil_div in Hl. change (Gen.FAT_DIRECTORY_LAYOUT_size * 2) with 64 in Hl.
    assert (1 <= (64 + bytes_per_cluster (s_p s) - 1) / bytes_per_cluster (s_p s)) by (apply Z.div_le_lower_bound; lia). lia. }
  cbn [hd] in *. inversion Hf as [|? ? Hc0 _]; subst. destruct Hc0 as (Hc1 & Hc2 & _ & Hfree & _).
  assert (Hcr : 0 <= c < 4294967296) by lia.
  do 9 eexists. split; [exact Hbd|]. split; [exact Er|]. split; [exact E2|]. split; [exact E3|]. split; [exact H|].
  split; [lia|]. split; [exact Hfree|].
  assert (Hattr : is_dir (set_cluster (set_lfn (new_dirent sfn Gen.ATTR_DIRECTORY t) lfn) c) = true).
  { unfold is_dir, set_cluster. destruct (Gen.set_cluster c). reflexivity. }
  repeat match goal with |- _ /\ _ => split end.
  - unfold set_cluster. destruct (Gen.set_cluster c). reflexivity.
  - change (get_cluster (set_cluster (set_lfn (new_dirent sfn Gen.ATTR_DIRECTORY t) lfn) c) = c). apply get_set_cluster. exact Hcr.
  - unfold is_dir, set_cluster. destruct (Gen.set_cluster c). reflexivity.
  - unfold set_cluster. destruct (Gen.set_cluster c). reflexivity.
  - reflexivity.
  - destruct base as [|ploc pe]; [unfold set_cluster; destruct (Gen.set_cluster 0); reflexivity|reflexivity].
  - destruct base as [|ploc pe]; cbn [parent_cluster].
    + apply get_set_cluster. lia.
    + reflexivity.
  - destruct base as [|ploc pe]; [unfold is_dir, set_cluster; destruct (Gen.set_cluster 0); reflexivity|exact Hbd].
  - destruct base as [|ploc pe]; [unfold set_cluster; destruct (Gen.set_cluster 0); reflexivity|reflexivity].
  - apply get_set_cluster. exact Hcr.
  - exact Hattr.
  - unfold set_cluster. destruct (Gen.set_cluster c). reflexivity.
Qed.


(** * C03: re-creating (wiping) an existing file always rewrites its directory and flushes the FAT — also when the file is already empty
    (C03-m5 returned early in that case, so the new time stamps existed in memory only) *)
Theorem create_wipe_rewrites_directory s path t s' ploc e :
  get_dir_entry s path = Ok (EAt ploc e) -> is_dir e = false ->
  op_create s path true t = Ok (true, s') ->
  exists es s1 s2,
    read_dir s ploc = Ok es /\
    (if get_cluster e =? 0 then s1 = s else free_chain s (get_cluster e) = Ok s1) /\
    write_dir s1 ploc (map (fun x => if list_eqb (d_name x) (d_name e)
                                      then set_lfn (set_size (set_cluster (set_times e (d_crttime e) (d_crtdate e) (date_of t) (time_of t) (date_of t)) 0) 0) (d_lfn x)
                                      else x) es) = Ok s2 /\
    flush_fat s2 = Ok s'.
Proof.
  intros Hg Hd H. unfold op_create in H. destruct (split_last path) as [[dirp n]|]; [|discriminate].
  match type of H with bind ?X _ = _ => destruct X as [base|]; [|discriminate] end. cbn [bind] in H.
  rewrite Hg, Hd in H. cbn [negb] in H.
  destruct (read_dir s ploc) as [es|] eqn:Er; [|discriminate]. cbn [bind] in H. cbv zeta in H.
  match type of H with bind ?X _ = _ => destruct X as [s1|] eqn:E1; [|discriminate] end. cbn [bind] in H.
  match type of H with bind ?X _ = _ => destruct X as [s2|] eqn:E2; [|discriminate] end. cbn [bind] in H.
  match type of H with bind ?X _ = _ => destruct X as [s3|] eqn:E3; [|discriminate] end. cbn [bind] in H.
  inversion H; subst s3. exists es, s1, s2. split; [reflexivity|]. split; [|split; [exact E2|exact E3]].
  destruct (get_cluster e =? 0); [inversion E1; reflexivity|exact E1].
Qed.
