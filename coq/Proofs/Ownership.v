(** C04: the ownership invariant of the FAT and its preservation by the four FAT operations of the model
    (allocate + link, free a chain, extend a chain, cut a chain).  Unbounded in table size and chain length.
    [owned fat owns]: every listed chain is well-formed (in range, consecutive links, end-of-chain mark),
    no cluster belongs to two chains or twice to one, and every in-range entry that is neither free nor a
    bad-cluster mark belongs to a listed chain (no lost clusters). *)
From Coq Require Import ZArith List Bool Lia Sorted.
From PyFatV Require Import Base.Bytes Model.FS Proofs.FatTable.
Import ListNotations.
Open Scope Z_scope.

Lemma nth_not_last (l:list Z) : NoDup l -> forall k, (S k < length l)%nat -> nth k l 0 <> last l 0.
Proof.
  induction l as [|x [|y r] IH]; intros Hn k Hk; [simpl in Hk; lia | simpl in Hk; lia |].
  assert (Hlast : In (last (y :: r) 0) (y :: r)).
  { assert (Hne : y :: r <> []) by discriminate. apply exists_last in Hne. destruct Hne as (l' & a & Hl). rewrite Hl, last_last. apply in_or_app. right. left. reflexivity. }
  change (last (x :: y :: r) 0) with (last (y :: r) 0). inversion Hn as [|? ? Hx Hn']; subst.
  destruct k as [|k]; cbn [nth].
  - intro E. apply Hx. rewrite E. exact Hlast.
  - apply IH; [exact Hn'|]. cbn [length] in *. lia.
Qed.

Section Own.
Variables (lo hi eoc bad : Z).
Hypothesis Hlo : 2 <= lo.
Hypothesis Hbad : hi < bad.
Hypothesis Heoc : hi < eoc.
Hypothesis Hbe : bad <> eoc.

Definition in_range (c:Z) : Prop := lo <= c <= hi.
Ltac splits := repeat match goal with |- _ /\ _ => split end.

Fixpoint wchain (fat:list Z) (cs:list Z) : Prop :=
  match cs with
  | [] => False
  | [c] => in_range c /\ nthZ fat c = eoc
  | c :: ((d :: _) as r) => in_range c /\ nthZ fat c = d /\ wchain fat r
  end.

Definition owned (fat:list Z) (owns:list (list Z)) : Prop :=
  Forall (wchain fat) owns /\ NoDup (concat owns) /\
  (forall c, in_range c -> nthZ fat c <> 0 -> nthZ fat c <> bad -> In c (concat owns)).

Lemma wchain_cons2 fat c d r : wchain fat (c :: d :: r) <-> in_range c /\ nthZ fat c = d /\ wchain fat (d :: r).
Proof. reflexivity. Qed.

Lemma wchain_range fat cs : wchain fat cs -> Forall in_range cs.
Proof.
  induction cs as [|c [|d r] IH]; intros H; [contradiction| |].
  - destruct H. constructor; auto.
  - apply wchain_cons2 in H. destruct H as (Hc & _ & Hr). constructor; auto.
Qed.
Lemma wchain_frame fat fat' cs : (forall c, In c cs -> nthZ fat' c = nthZ fat c) -> wchain fat cs -> wchain fat' cs.
Proof.
  induction cs as [|c [|d r] IH]; intros Hf H; [contradiction| |].
  - destruct H as [Hc He]. split; [exact Hc|]. rewrite Hf by (left; reflexivity). exact He.
  - apply wchain_cons2 in H. destruct H as (Hc & Hg & Hr). apply wchain_cons2. split; [exact Hc|]. split.
    + rewrite Hf by (left; reflexivity). exact Hg.
    + apply IH; [|exact Hr]. intros x Hx. apply Hf. right. exact Hx.
Qed.
(** entries of a chain are neither free nor bad *)
Lemma wchain_entry fat cs c : wchain fat cs -> In c cs -> nthZ fat c <> 0 /\ nthZ fat c <> bad.
Proof.
  induction cs as [|x [|y r] IH]; intros H Hin; [contradiction| |].
  - destruct H as [Hx He]. destruct Hin as [<-|[]]. unfold in_range in Hx. rewrite He. split; lia.
  - apply wchain_cons2 in H. destruct H as (Hx & Hg & Hr). destruct Hin as [<-|Hin].
    + pose proof (wchain_range _ _ Hr) as Hrr. inversion Hrr as [|? ? Hy _]; subst. unfold in_range in Hy. split; lia.
    + apply IH; assumption.
Qed.
Lemma wchain_nonempty fat cs : wchain fat cs -> cs <> [].
Proof. destruct cs; [contradiction|discriminate]. Qed.

(** splitting and joining chains *)
Lemma wchain_app fat a b : a <> [] -> b <> [] ->
  (wchain fat (a ++ b) <-> (Forall in_range a /\ (forall k, (S k < length a)%nat -> nthZ fat (nth k a 0) = nth (S k) a 0) /\
                            nthZ fat (last a 0) = hd 0 b /\ wchain fat b)).
Proof.
  intros Ha Hb. revert Ha. induction a as [|x [|y r] IH]; intros Ha; [congruence| |].
  - cbn [app]. destruct b as [|d b']; [congruence|]. rewrite wchain_cons2. cbn [last hd length]. split.
    + intros (Hx & Hg & Hr). splits; auto. intros k Hk. simpl in Hk. lia.
    + intros (Hf & _ & Hg & Hr). inversion Hf; subst. auto.
  - change ((x :: y :: r) ++ b) with (x :: (y :: r) ++ b). change ((y :: r) ++ b) with (y :: r ++ b) at 1.
    rewrite wchain_cons2. change (y :: r ++ b) with ((y :: r) ++ b). rewrite (IH ltac:(discriminate)).
    change (last (x :: y :: r) 0) with (last (y :: r) 0). split.
    + intros (Hx & Hg & Hf & Hl & Hj & Hr). splits; auto.
      intros [|k] Hk; cbn [nth]; [exact Hg|]. apply Hl. cbn [length] in *. lia.
    + intros (Hf & Hl & Hj & Hr). inversion Hf as [|? ? Hx Hf']; subst. splits; auto.
      * apply (Hl 0%nat). cbn [length]. lia.
      * intros k Hk. apply (Hl (S k)). cbn [length] in *. lia.
Qed.

(** * 1. allocation: free, sorted, in-range clusters linked into a new chain *)
Theorem owned_alloc fat owns cs :
  owned fat owns -> cs <> [] -> StronglySorted Z.lt cs ->
  Forall (fun c => in_range c /\ nthZ fat c = 0 /\ c < lenZ fat) cs ->
  owned (link_chain fat cs eoc) (cs :: owns).
Proof.
  intros (Hch & Hnd & Hcov) Hne Hs Hf.
  assert (Hpos : Forall (fun c => 0 <= c) cs) by (eapply Forall_impl; [|exact Hf]; unfold in_range; intros a (Ha & _); lia).
  assert (Hdisj : forall c, In c cs -> ~ In c (concat owns)).
  { intros c Hc Hin. rewrite Forall_forall in Hf. destruct (Hf c Hc) as (_ & Hz & _).
    apply in_concat in Hin. destruct Hin as (ch & Hch1 & Hch2). rewrite Forall_forall in Hch.
    destruct (wchain_entry fat ch c (Hch _ Hch1) Hch2) as [Hnz _]. contradiction. }
  assert (Hnew : wchain (link_chain fat cs eoc) cs).
  { assert (Hic : is_chain (link_chain fat cs eoc) eoc cs).
    { apply link_chain_is_chain; [exact Hne | exact Hs |]. eapply Forall_impl; [|exact Hf]. unfold in_range. intros a (Ha & _ & Hl). lia. }
    assert (Hr : Forall in_range cs) by (eapply Forall_impl; [|exact Hf]; intros a (Ha & _); exact Ha).
    clear - Hic Hr. revert Hic Hr. generalize (link_chain fat cs eoc). intros f.
    induction cs as [|c [|d r] IH]; intros Hic Hr; [contradiction| |].
    - inversion Hr; subst. split; assumption.
    - inversion Hr; subst. destruct Hic as [Hg Hrest]. apply wchain_cons2. splits; auto. }
  split; [|split].
  - constructor; [exact Hnew|]. apply Forall_forall. intros ch Hin. rewrite Forall_forall in Hch. apply wchain_frame with fat; [|apply Hch; exact Hin].
    intros c Hc. apply link_chain_other; [|exact Hpos|].
    + pose proof (wchain_range _ _ (Hch _ Hin)) as Hr. rewrite Forall_forall in Hr. specialize (Hr _ Hc). unfold in_range in Hr. lia.
    + intro Hc'. apply (Hdisj c Hc'). apply in_concat. eauto.
  - cbn [concat]. apply NoDup_app'; [|exact Hnd|exact Hdisj].
    clear - Hs. induction Hs as [|a l Hs IH Hfa]; constructor; auto. intro Hin. rewrite Forall_forall in Hfa. apply Hfa in Hin. lia.
  - intros c Hr Hnz Hnb. cbn [concat]. apply in_or_app.
    destruct (in_dec Z.eq_dec c cs) as [Hin|Hnin]; [left; exact Hin|right].
    rewrite link_chain_other in Hnz, Hnb; [apply Hcov; assumption | | exact Hpos | exact Hnin | | exact Hpos | exact Hnin]; unfold in_range in Hr; lia.
Qed.

(** * 2. freeing a whole chain *)
Definition free_list (fat:list Z) (cs:list Z) : list Z := fold_left (fun f cl => updZ f cl 0) cs fat.
Lemma free_list_other cs : forall fat j, 0 <= j -> Forall (fun c => 0 <= c) cs -> ~ In j cs -> nthZ (free_list fat cs) j = nthZ fat j.
Proof.
  induction cs as [|c r IH]; intros fat j Hj Hp Hn; [reflexivity|].
  inversion Hp; subst. cbn [free_list fold_left]. fold (free_list (updZ fat c 0) r). rewrite IH; [|exact Hj|assumption|simpl in Hn; tauto].
  apply nthZ_updZ_other; try lia. simpl in Hn. intro; subst; tauto.
Qed.
Lemma free_list_length cs : forall fat, length (free_list fat cs) = length fat.
Proof. induction cs as [|c r IH]; intros fat; [reflexivity|]. cbn [free_list fold_left]. fold (free_list (updZ fat c 0) r). rewrite IH. apply updZ_length. Qed.
Lemma free_list_in cs : forall fat j, Forall (fun c => 0 <= c < lenZ fat) cs -> In j cs -> nthZ (free_list fat cs) j = 0.
Proof.
  induction cs as [|c r IH]; intros fat j Hf Hin; [contradiction|].
  inversion Hf as [|? ? Hc Hr]; subst. cbn [free_list fold_left]. fold (free_list (updZ fat c 0) r).
  destruct (in_dec Z.eq_dec j r) as [Hjr|Hjr].
  - apply IH; [|exact Hjr]. eapply Forall_impl; [|exact Hr]. intros a Ha. cbv beta in *. unfold lenZ in *. rewrite updZ_length. exact Ha.
  - destruct Hin as [->|Hin]; [|contradiction].
    rewrite free_list_other; [apply nthZ_updZ_same; exact Hc | lia | | exact Hjr].
    eapply Forall_impl; [|exact Hr]. intros a Ha. cbv beta in Ha. lia.
Qed.

Theorem owned_free fat ch owns :
  owned fat (ch :: owns) -> Forall (fun c => c < lenZ fat) ch -> owned (free_list fat ch) owns.
Proof.
  intros (Hch & Hnd & Hcov) Hlen. inversion Hch as [|? ? Hc Hrest]; subst. cbn [concat] in Hnd, Hcov.
  destruct (NoDup_app_inv _ _ Hnd) as (_ & Hnd' & Hdis).
  pose proof (wchain_range _ _ Hc) as Hr.
  assert (Hpos : Forall (fun c => 0 <= c) ch) by (eapply Forall_impl; [|exact Hr]; unfold in_range; intros; lia).
  split; [|split].
  - apply Forall_forall. intros x Hx. rewrite Forall_forall in Hrest. apply wchain_frame with fat; [|apply Hrest; exact Hx].
    intros c Hcx. apply free_list_other; [| exact Hpos |].
    + pose proof (wchain_range _ _ (Hrest _ Hx)) as Hrx. rewrite Forall_forall in Hrx. specialize (Hrx _ Hcx). unfold in_range in Hrx. lia.
    + intro Hin. apply (Hdis c Hin). apply in_concat. eauto.
  - exact Hnd'.
  - intros c Hrc Hnz Hnb. destruct (in_dec Z.eq_dec c ch) as [Hin|Hnin].
    + exfalso. apply Hnz. apply free_list_in; [|exact Hin].
      rewrite Forall_forall in *. intros a Ha. specialize (Hr a Ha). specialize (Hlen a Ha). unfold in_range in Hr. lia.
    + rewrite free_list_other in Hnz, Hnb; try assumption; try (unfold in_range in Hrc; lia).
      specialize (Hcov c Hrc Hnz Hnb). apply in_app_or in Hcov. tauto.
Qed.

(** * 3. extending a chain by freshly allocated clusters (write beyond the end, directory growth) *)
Theorem owned_extend fat ch owns cs :
  owned fat (ch :: owns) -> cs <> [] -> StronglySorted Z.lt cs ->
  Forall (fun c => in_range c /\ nthZ fat c = 0 /\ c < lenZ fat) cs ->
  last ch 0 < lenZ fat ->
  owned (updZ (link_chain fat cs eoc) (last ch 0) (hd 0 cs)) ((ch ++ cs) :: owns).
Proof.
  intros Ho Hne Hs Hf Hll.
  pose proof (owned_alloc fat (ch :: owns) cs Ho Hne Hs Hf) as (Hch' & Hnd' & Hcov').
  destruct Ho as (Hch & Hnd & Hcov).
  inversion Hch' as [|? ? Hnew Hrest']; subst. inversion Hrest' as [|? ? Hold Hrest'']; subst.
  set (f1 := link_chain fat cs eoc) in *.
  pose proof (wchain_nonempty _ _ Hold) as Hchne.
  pose proof (wchain_range _ _ Hold) as Hrold. pose proof (wchain_range _ _ Hnew) as Hrnew.
  assert (Hlast_in : In (last ch 0) ch) by (destruct ch; [congruence|]; apply exists_last in Hchne; destruct Hchne as (l' & a & ->); rewrite last_last; apply in_or_app; right; left; reflexivity).
  assert (Hlast_r : in_range (last ch 0)) by (rewrite Forall_forall in Hrold; apply Hrold; exact Hlast_in).
  cbn [concat] in Hnd'.
  assert (Hdis : forall c, In c cs -> ~ In c ch).
  { intros c Hc Hin. destruct (NoDup_app_inv _ _ Hnd') as (_ & _ & Hd). apply (Hd c Hc). apply in_or_app. left. exact Hin. }
  assert (Hl1 : length f1 = length fat) by (unfold f1; apply link_chain_length).
  split; [|split].
  - constructor.
    + apply (proj2 (wchain_app _ ch cs Hchne Hne)). split; [exact Hrold|]. split; [|split].
      * intros k Hk.
        assert (Hnk : nth k ch 0 <> last ch 0).
        { destruct (NoDup_app_inv _ _ Hnd') as (_ & Hndr & _). destruct (NoDup_app_inv _ _ Hndr) as (Hndch & _ & _).
          apply nth_not_last; assumption. }
        rewrite nthZ_updZ_other; [| unfold in_range in Hlast_r; lia | | congruence ].
        -- pose proof (proj1 (wchain_app f1 ch [eoc] Hchne ltac:(discriminate))) as _.
           clear - Hold Hk. revert k Hk. induction ch as [|x [|y r] IH]; intros k Hk; [simpl in Hk; lia|simpl in Hk; lia|].
           apply wchain_cons2 in Hold. destruct Hold as (_ & Hg & Hr). destruct k as [|k]; cbn [nth]; [exact Hg|].
           apply IH; [exact Hr|]. cbn [length] in *. lia.
        -- assert (In (nth k ch 0) ch) by (apply nth_In; lia). rewrite Forall_forall in Hrold. specialize (Hrold _ H). unfold in_range in Hrold. lia.
      * apply nthZ_updZ_same. unfold lenZ in *. rewrite Hl1. unfold in_range in Hlast_r. lia.
      * apply wchain_frame with f1; [|exact Hnew]. intros c Hc. apply nthZ_updZ_other; [unfold in_range in Hlast_r; lia | | ].
        -- rewrite Forall_forall in Hrnew. specialize (Hrnew _ Hc). unfold in_range in Hrnew. lia.
        -- intro E. apply (Hdis c Hc). rewrite <- E. exact Hlast_in.
    + apply Forall_forall. intros x Hx. rewrite Forall_forall in Hrest''. apply wchain_frame with f1; [|apply Hrest''; exact Hx].
      intros c Hc. apply nthZ_updZ_other; [unfold in_range in Hlast_r; lia | | ].
      * pose proof (wchain_range _ _ (Hrest'' _ Hx)) as Hrx. rewrite Forall_forall in Hrx. specialize (Hrx _ Hc). unfold in_range in Hrx. lia.
      * intro E. destruct (NoDup_app_inv _ _ Hnd') as (_ & Hndr & _). destruct (NoDup_app_inv _ _ Hndr) as (_ & _ & Hd2).
        apply (Hd2 (last ch 0) Hlast_in). rewrite E. apply in_concat. eauto.
  - cbn [concat]. rewrite <- app_assoc.
    destruct (NoDup_app_inv _ _ Hnd') as (Hn1 & Hn2 & Hd1). destruct (NoDup_app_inv _ _ Hn2) as (Hn3 & Hn4 & Hd2).
    apply NoDup_app'; [exact Hn3| |].
    + apply NoDup_app'; [exact Hn1 | exact Hn4 |]. intros c Hc Hin. apply (Hd1 c Hc). apply in_or_app. right. exact Hin.
    + intros c Hc Hin. apply in_app_or in Hin. destruct Hin as [Hin|Hin]; [apply (Hdis c Hin Hc) | apply (Hd2 c Hc Hin)].
  - intros c Hr Hnz Hnb. cbn [concat]. rewrite <- app_assoc.
    destruct (Z.eq_dec c (last ch 0)) as [->|Hne'].
    + apply in_or_app. left. exact Hlast_in.
    + rewrite nthZ_updZ_other in Hnz, Hnb; try (unfold in_range in *; lia); try congruence.
      specialize (Hcov' c Hr Hnz Hnb). cbn [concat] in Hcov'. apply in_app_or in Hcov'. destruct Hcov' as [H|H].
      * apply in_or_app. right. apply in_or_app. left. exact H.
      * apply in_app_or in H. destruct H as [H|H]; [apply in_or_app; left; exact H | apply in_or_app; right; apply in_or_app; right; exact H].
Qed.

(** * 4. cutting a chain: keep [a], free [b], terminate [a] (truncate) *)
Theorem owned_cut fat a b owns :
  owned fat ((a ++ b) :: owns) -> a <> [] -> b <> [] -> Forall (fun c => c < lenZ fat) (a ++ b) ->
  owned (updZ (free_list fat b) (last a 0) eoc) (a :: owns).
Proof.
  intros (Hch & Hnd & Hcov) Ha Hb Hlen. inversion Hch as [|? ? Hc Hrest]; subst.
  destruct (proj1 (wchain_app fat a b Ha Hb) Hc) as (Hra & Hla & Hj & Hwb).
  pose proof (wchain_range _ _ Hwb) as Hrb.
  cbn [concat] in Hnd, Hcov. rewrite <- app_assoc in Hnd.
  destruct (NoDup_app_inv _ _ Hnd) as (Hna & Hnbo & Hdab). destruct (NoDup_app_inv _ _ Hnbo) as (Hnb & Hno & Hdbo).
  assert (Hposb : Forall (fun c => 0 <= c) b) by (eapply Forall_impl; [|exact Hrb]; unfold in_range; intros; lia).
  assert (Hlast_in : In (last a 0) a) by (apply exists_last in Ha; destruct Ha as (l' & x & ->); rewrite last_last; apply in_or_app; right; left; reflexivity).
  assert (Hlast_r : in_range (last a 0)) by (rewrite Forall_forall in Hra; apply Hra; exact Hlast_in).
  assert (Hlast_nb : ~ In (last a 0) b) by (intro H; apply (Hdab _ Hlast_in); apply in_or_app; left; exact H).
  assert (Hlen_a : last a 0 < lenZ fat) by (rewrite Forall_forall in Hlen; apply Hlen; apply in_or_app; left; exact Hlast_in).
  split; [|split].
  - constructor.
    + (* the kept part: same links, new terminator *)
      clear Hcov Hch Hc. revert Hla Hra Hna Hlast_in. intros Hla Hra Hna _.
      assert (G : forall l, (forall k, (S k < length l)%nat -> nthZ fat (nth k l 0) = nth (S k) l 0) -> Forall in_range l -> NoDup l -> l <> [] ->
                   (forall c, In c l -> ~ In c b) -> last l 0 = last a 0 -> wchain (updZ (free_list fat b) (last a 0) eoc) l).
      { induction l as [|x [|y r] IH]; intros Hl Hr Hn Hne Hd El; [congruence| |].
        - cbn [last] in El. subst x. inversion Hr; subst. split; [assumption|]. apply nthZ_updZ_same. unfold lenZ. rewrite free_list_length. unfold in_range in *. unfold lenZ in Hlen_a. lia.
        - inversion Hr as [|? ? Hx Hr']; subst. inversion Hn as [|? ? Hxn Hn']; subst. apply wchain_cons2. split; [exact Hx|]. split.
          + rewrite nthZ_updZ_other; [| unfold in_range in *; lia | unfold in_range in Hx; lia |].
            * rewrite free_list_other; [apply (Hl 0%nat); cbn [length]; lia | unfold in_range in Hx; lia | exact Hposb | apply Hd; left; reflexivity].
            * change (last (x :: y :: r) 0) with (last (y :: r) 0) in El. intro E. apply Hxn. rewrite <- E, <- El.
              assert (y :: r <> []) by discriminate. apply exists_last in H. destruct H as (l' & z & Hz). rewrite Hz, last_last. apply in_or_app. right. left. reflexivity.
          + apply IH; [| exact Hr' | exact Hn' | discriminate | | exact El].
            * intros k Hk. apply (Hl (S k)). cbn [length] in *. lia.
            * intros c Hc'. apply Hd. right. exact Hc'. }
      apply G; auto. intros c0 Hc0 Hin0. apply (Hdab c0 Hc0). apply in_or_app. left. exact Hin0.
    + apply Forall_forall. intros x Hx. rewrite Forall_forall in Hrest. apply wchain_frame with fat; [|apply Hrest; exact Hx].
      intros c Hcx.
      assert (Hcr : in_range c) by (pose proof (wchain_range _ _ (Hrest _ Hx)) as Hrx; rewrite Forall_forall in Hrx; apply Hrx; exact Hcx).
      rewrite nthZ_updZ_other; [| unfold in_range in *; lia | unfold in_range in Hcr; lia |].
      * apply free_list_other; [unfold in_range in Hcr; lia | exact Hposb |]. intro Hin. apply (Hdbo c Hin). apply in_concat. eauto.
      * intro E. apply (Hdab _ Hlast_in). apply in_or_app. right. rewrite E. apply in_concat. eauto.
  - cbn [concat]. apply NoDup_app'; [exact Hna | exact Hno |]. intros c0 Hc0 Hin0. apply (Hdab c0 Hc0). apply in_or_app. right. exact Hin0.
  - intros c Hr Hnz Hnb'. cbn [concat]. apply in_or_app.
    destruct (Z.eq_dec c (last a 0)) as [->|Hne]; [left; exact Hlast_in|].
    rewrite nthZ_updZ_other in Hnz, Hnb'; try (unfold in_range in *; lia); try congruence.
    destruct (in_dec Z.eq_dec c b) as [Hin|Hnin].
    + exfalso. apply Hnz. apply free_list_in; [|exact Hin]. rewrite Forall_forall in *. intros x Hx. specialize (Hrb x Hx).
      assert (x < lenZ fat) by (apply Hlen; apply in_or_app; right; exact Hx). unfold in_range in Hrb. lia.
    + rewrite free_list_other in Hnz, Hnb'; try assumption; try (unfold in_range in Hr; lia).
      specialize (Hcov c Hr Hnz Hnb'). rewrite <- app_assoc in Hcov. apply in_app_or in Hcov. destruct Hcov as [H|H]; [left; exact H|].
      apply in_app_or in H. destruct H as [H|H]; [contradiction | right; exact H].
Qed.
End Own.
