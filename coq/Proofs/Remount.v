(** C03, composed: closing a filesystem and mounting the device again (read-only) yields exactly the closed state —
    same header, geometry, FAT, reserved bits and device; hence every read-only observation is the same. *)
From Coq Require Import ZArith List Bool Lia ZifyBool.
From PyFatV Require Import Base.Bytes Base.Sweep Base.PyEnv Gen.Pure Model.Codec Model.Dir Model.FS Proofs.FatCodec Proofs.Device Proofs.DirCodec Proofs.DirState Proofs.Session Proofs.FatState Proofs.HdrState Proofs.Identity.
Import ListNotations.
Open Scope Z_scope.

Lemma verify_reserved h v : Gen.verify_bpb_header (set_reserved1 h v) = Gen.verify_bpb_header h.
Proof. reflexivity. Qed.
Lemma geometry_reserved p h v : Gen.parse_header_geometry p (set_reserved1 h v) = Gen.parse_header_geometry p h.
Proof. reflexivity. Qed.

(** the state a mount builds from what it reads: nothing but header, geometry, table, device *)
Definition reset (s:st) (ro pc:bool) : st := mkSt (s_h s) (s_p s) ro pc (s_fat s) (s_hi s) 0 (s_dev s) (s_dsize s) [] [].
Lemma scan_chain_reset s ro pc cs : forall pend acc, scan_chain (reset s ro pc) cs pend acc = scan_chain s cs pend acc.
Proof. induction cs as [|c r IH]; intros pend acc; [reflexivity|]. cbn [scan_chain]. cbv zeta. change (rd (reset s ro pc)) with (rd s).
  change (cluster_addr (reset s ro pc) c) with (cluster_addr s c). change (bpc (reset s ro pc)) with (bpc s).
  destruct (scan_slots _ _ pend acc) as [[[a p] [|]]|]; cbn [bind]; try reflexivity. apply IH. Qed.
Lemma read_dir_reset s ro pc loc : read_dir (reset s ro pc) loc = read_dir s loc.
Proof.
  unfold read_dir. change (is_root_fixed (reset s ro pc) loc) with (is_root_fixed s loc). destruct (is_root_fixed s loc); [reflexivity|].
  change (chain_all (reset s ro pc) loc) with (chain_all s loc). destruct (chain_all s loc); cbn [bind]; [apply scan_chain_reset|reflexivity].
Qed.

(** what [write_bpb] leaves on the device: the two signature bytes, and everything at or above byte 512 outside the backup sector *)
Lemma write_bpb_bytes s s' : dev_ok (s_dev s) -> write_bpb s = Ok s' ->
  let bk := BPB_BkBootSec (s_h s) * bps s in
  (ft s = Gen.FAT_TYPE_FAT32 -> 512 <= bk) -> lenZ (ser_hdr (s_h s)) <= 510 ->
  dbyte (s_dev s') 510 = 85 /\ dbyte (s_dev s') 511 = 170 /\
  (forall a, 512 <= a -> (ft s = Gen.FAT_TYPE_FAT32 -> a < bk \/ bk + 512 <= a) -> dbyte (s_dev s') a = dbyte (s_dev s) a).
Proof.
  intros Hd H bk Hbk Hl. apply wrote_write_bpb in H. destruct H as (_ & Hdev & _). fold bk in Hdev.
  assert (Hpos : Forall (fun w => 0 <= fst w) (bpbW (s_h s) (ft s =? Gen.FAT_TYPE_FAT32) bk)).
  { unfold bpbW. destruct (ft s =? Gen.FAT_TYPE_FAT32) eqn:E; cbn [app]; repeat constructor; cbn [fst]; try lia; apply Z.eqb_eq in E; specialize (Hbk E); lia. }
  rewrite Hdev. split; [|split].
  - rewrite dbyte_apply_log by (try assumption; lia). unfold bpbW. destruct (ft s =? Gen.FAT_TYPE_FAT32) eqn:E; cbn [app newest].
    + apply Z.eqb_eq in E. specialize (Hbk E). unfold lenZ in *. cbn [length].
      replace ((510 + bk <=? 510) && (510 <? 510 + bk + Z.of_nat 2)) with false by lia.
      replace ((bk <=? 510) && (510 <? bk + Z.of_nat (length (ser_hdr (s_h s))))) with false by lia.
      replace ((510 <=? 510) && (510 <? 510 + Z.of_nat 2)) with true by lia. reflexivity.
    + unfold lenZ. cbn [length]. replace ((510 <=? 510) && (510 <? 510 + Z.of_nat 2)) with true by lia. reflexivity.
  - rewrite dbyte_apply_log by (try assumption; lia). unfold bpbW. destruct (ft s =? Gen.FAT_TYPE_FAT32) eqn:E; cbn [app newest].
    + apply Z.eqb_eq in E. specialize (Hbk E). unfold lenZ in *. cbn [length].
      replace ((510 + bk <=? 511) && (511 <? 510 + bk + Z.of_nat 2)) with false by lia.
      replace ((bk <=? 511) && (511 <? bk + Z.of_nat (length (ser_hdr (s_h s))))) with false by lia.
      replace ((510 <=? 511) && (511 <? 510 + Z.of_nat 2)) with true by lia. reflexivity.
    + unfold lenZ. cbn [length]. replace ((510 <=? 511) && (511 <? 510 + Z.of_nat 2)) with true by lia. reflexivity.
  - intros a Ha Hout. rewrite dbyte_apply_log by (try assumption; lia).
    assert (Hn : newest (bpbW (s_h s) (ft s =? Gen.FAT_TYPE_FAT32) bk) a = None).
    { apply newest_none. unfold bpbW. destruct (ft s =? Gen.FAT_TYPE_FAT32) eqn:E; cbn [app].
      - apply Z.eqb_eq in E. specialize (Hbk E). specialize (Hout E). unfold lenZ in *. repeat constructor; cbn [fst snd length]; lia.
      - unfold lenZ in *. repeat constructor; cbn [fst snd length]; lia. }
    rewrite Hn. reflexivity.
Qed.

Lemma clear_bit0 r : 0 <= r < 256 -> Z.land (Z.land r (Z.lnot 1)) 1 = 0 /\ 0 <= Z.land r (Z.lnot 1) < 256.
Proof.
  intros Hr. assert (H : forallb (fun x => (Z.land (Z.land x (Z.lnot 1)) 1 =? 0) && (0 <=? Z.land x (Z.lnot 1)) && (Z.land x (Z.lnot 1) <? 256)) (Sweep.zrange 0 256) = true) by (vm_compute; reflexivity).
  rewrite forallb_forall in H. specialize (H r (Sweep.zrange_In 256 0 r ltac:(lia))). cbv beta in H. lia.
Qed.

Definition fat_c (s:st) : list Z :=
  match shutdown_mask (ft s) with Some m => updZ (s_fat s) 1 (Z.lor (nthZ (s_fat s) 1) m) | None => s_fat s end.

Theorem close_then_mount_ro s s2 pc es :
  let bk := BPB_BkBootSec (s_h s) * bps s in
  dev_ok (s_dev s) ->
  hdr_wf (s_h s) -> Gen.verify_bpb_header (s_h s) = Ok tt ->
  s_p s = set_bytes_per_cluster (Gen.parse_header_geometry pf_init (s_h s)) (BPB_BytsPerSec (s_h s) * BPB_SecPerClus (s_h s)) ->
  0 <= BS_Reserved1 (s_h s) < 256 -> 512 <= s_dsize s ->
  512 <= fat_start s -> 1 <= BPB_NumFATs (s_h s) -> fat_start s + BPB_NumFATs (s_h s) * fat_bytes s <= s_dsize s ->
  (ft s = Gen.FAT_TYPE_FAT32 -> 512 <= bk /\ bk + 512 <= fat_start s) ->
  fat_wf (upd_fat s (fat_c s) (s_hint s)) -> lenZ (pack_fat (ft s) (fat_c s) (s_hi s)) = fat_bytes s ->
  (ft s <> 32 -> s_hi s = []) ->
  (shutdown_mask (ft s) = None -> parse_fat (ft s) (rd s (fat_start s) (fat_bytes s)) = s_fat s) ->
  (forall m, shutdown_mask (ft s) = Some m -> Z.land (Z.lor (nthZ (s_fat s) 1) m) m = m /\ 1 < lenZ (s_fat s)) ->
  mark_clean s = Ok s2 ->
  read_dir s2 (root_loc s2) = Ok es ->
  mount (s_dev s2) (s_dsize s) true pc = Ok (reset s2 true pc, false).
Proof.
  intros bk Hd Hwf Hver Hgeo Hr Hsz Hfs Hnf Hfit Hbk Hfwf Hplen Hhi Hsync Hbits Hc Hroot.
  assert (Hfb0 : 0 <= fat_bytes s) by (rewrite <- Hplen; unfold lenZ; lia).
  assert (Hfit1 : fat_start s + fat_bytes s <= s_dsize s) by nia.
  (* take [mark_clean] apart *)
  pose proof Hc as Hc0. unfold mark_clean in Hc.
  match type of Hc with bind ?X _ = _ => destruct X as [s1|] eqn:E1; [|discriminate] end. cbn [bind] in Hc.
  set (hc := set_reserved1 (s_h s1) (Z.land (BS_Reserved1 (s_h s1)) (Z.lnot Gen.FAT_DIRTY_BIT_MASK))) in *.
  (* after the FAT step: table, device, and what copy 0 decodes to *)
  assert (H1 : dev_ok (s_dev s1) /\ s_h s1 = s_h s /\ s_p s1 = s_p s /\ s_dsize s1 = s_dsize s /\ s_hi s1 = s_hi s /\ s_fat s1 = fat_c s /\
               parse_fat (ft s) (rd s1 (fat_start s) (fat_bytes s)) = fat_c s /\
               (ft s = 32 -> parse32hi (rd s1 (fat_start s) (fat_bytes s)) = s_hi s) /\
               lenZ (rd s1 (fat_start s) (fat_bytes s)) = fat_bytes s).
  { unfold fat_c in *. destruct (shutdown_mask (ft s)) as [m|] eqn:Em.
    - set (s0 := upd_fat s (updZ (s_fat s) 1 (Z.lor (nthZ (s_fat s) 1) m)) (s_hint s)) in *.
      pose proof E1 as E1'. unfold flush_fat in E1'. destruct (s_ro s0) eqn:Ero0; [discriminate|].
      assert (Q1 : 0 <= fat_start s0) by (change (fat_start s0) with (fat_start s); lia).
      assert (Q2 : lenZ (pack_fat (ft s0) (s_fat s0) (s_hi s0)) <= fat_bytes s0) by (change (fat_bytes s0) with (fat_bytes s); change (ft s0) with (ft s); cbn [s_fat s_hi s0 upd_fat]; lia).
      assert (Q3 : fat_start s0 + (0 + Z.of_nat (Z.to_nat (BPB_NumFATs (s_h s0)))) * fat_bytes s0 <= s_dsize s0).
      { change (fat_start s0) with (fat_start s). change (fat_bytes s0) with (fat_bytes s). change (s_dsize s0) with (s_dsize s). change (s_h s0) with (s_h s). rewrite Z2Nat.id by lia. lia. }
      destruct (flush_copies_dev _ s0 (pack_fat (ft s0) (s_fat s0) (s_hi s0)) 0 s1 Hd Q1 ltac:(lia) Q2 Q3 E1') as (Hd1 & (G1 & G2 & G3 & G4) & Gf & Gh & _).
      assert (Q4 : 0 <= BPB_NumFATs (s_h s0)) by (change (s_h s0) with (s_h s); lia).
      assert (Q5 : lenZ (pack_fat (ft s0) (s_fat s0) (s_hi s0)) = fat_bytes s0) by (change (fat_bytes s0) with (fat_bytes s); change (ft s0) with (ft s); cbn [s_fat s_hi s0 upd_fat]; exact Hplen).
      assert (Q6 : fat_start s0 + BPB_NumFATs (s_h s0) * fat_bytes s0 <= s_dsize s0).
      { change (fat_start s0) with (fat_start s). change (fat_bytes s0) with (fat_bytes s). change (s_dsize s0) with (s_dsize s). change (s_h s0) with (s_h s). lia. }
      destruct (flush_fat_persists s0 s1 Hd Hfwf Q1 Q4 Q5 Q6 E1) as (_ & _ & Hcopy & _).
      destruct (Hcopy 0 ltac:(change (s_h s0) with (s_h s); lia)) as [P1 P2].
      change (fat_start s0) with (fat_start s) in *. change (fat_bytes s0) with (fat_bytes s) in *. change (ft s0) with (ft s) in *. cbn [s_fat s_hi s0 upd_fat] in *.
      replace (fat_start s + 0 * fat_bytes s) with (fat_start s) in * by lia.
      split; [exact Hd1|]. split; [exact G1|]. split; [exact G2|]. split; [exact G3|]. split; [exact Gh|]. split; [exact Gf|]. split; [exact P1|]. split; [exact P2|].
      unfold rd. rewrite dread_spec by (try assumption; lia). unfold lenZ. rewrite map_length, zrange_length. rewrite G3. change (s_dsize s0) with (s_dsize s). lia.
    - inversion E1; subst s1. split; [exact Hd|]. repeat split; try reflexivity.
      + apply Hsync. reflexivity.
      + intros H32. exfalso. unfold shutdown_mask in Em. change Gen.FAT_TYPE_FAT32 with 32 in Em. rewrite H32 in Em. cbn in Em. discriminate.
      + unfold rd. rewrite dread_spec by (try assumption; lia). unfold lenZ. rewrite map_length, zrange_length. lia. }
  destruct H1 as (Hd1 & Hh1 & Hp1 & Hs1 & Hhi1 & Hf1 & Hpf & Hphi & Hlen1).
  set (sb := upd_hdr s1 hc) in *.
  assert (Hhc : hc = set_reserved1 (s_h s) (Z.land (BS_Reserved1 (s_h s)) (Z.lnot Gen.FAT_DIRTY_BIT_MASK))) by (unfold hc; rewrite Hh1; reflexivity).
  destruct (clear_bit0 _ Hr) as [Hbit0 Hrc].
  assert (Hwfc : hdr_wf hc) by (rewrite Hhc; apply set_reserved1_wf; assumption).
  assert (Hftb : ft sb = ft s) by (unfold ft, sb; cbn [s_p upd_hdr]; rewrite Hp1; reflexivity).
  assert (Hbpsb : bps sb = bps s) by (unfold bps, sb; cbn [s_h upd_hdr]; rewrite Hhc; reflexivity).
  assert (Hbkb : BPB_BkBootSec (s_h sb) * bps sb = bk) by (rewrite Hbpsb; unfold sb; cbn [s_h upd_hdr]; rewrite Hhc; reflexivity).
  destruct (write_bpb_persists sb s2 Hd1 Hwfc ltac:(unfold sb; cbn [s_dsize upd_hdr]; lia)
              ltac:(intros E; rewrite Hbkb; rewrite Hftb in E; apply (Hbk E)) Hc) as (Pb1 & Pb2 & Pb3 & Pb4).
  assert (Hlser : lenZ (ser_hdr (s_h sb)) <= 510) by (change (s_h sb) with hc; rewrite (ser_hdr_length _ Hwfc); destruct (is32hdr hc); lia).
  destruct (write_bpb_bytes sb s2 Hd1 Hc ltac:(intros E; rewrite Hbkb; rewrite Hftb in E; apply (Hbk E)) Hlser) as (Sg1 & Sg2 & Sfr).
  assert (Hsz2 : s_dsize s2 = s_dsize s).
  { apply wrote_write_bpb in Hc. destruct Hc as (_ & _ & _ & _ & _ & _ & A & _). rewrite A. exact Hs1. }
  assert (Hp2 : s_p s2 = s_p s) by (pose proof (wrote_write_bpb _ _ Hc) as (_ & _ & _ & A & _); rewrite A; exact Hp1).
  assert (Hhi2 : s_hi s2 = s_hi s) by (pose proof (wrote_write_bpb _ _ Hc) as (_ & _ & _ & _ & _ & A & _); rewrite A; exact Hhi1).
  change (s_h sb) with hc in *. change (s_fat sb) with (s_fat s1) in Pb3. change (s_dev sb) with (s_dev s1) in Sfr.
  (* the FAT region is untouched by the boot-sector writes *)
  assert (Hfatrd : dread (s_dev s2) (s_dsize s) (fat_start s) (fat_bytes s) = rd s1 (fat_start s) (fat_bytes s)).
  { unfold rd. rewrite Hs1. rewrite !dread_spec by (try assumption; lia). apply map_ext_in. intros a Ha.
    assert (fat_start s <= a < fat_start s + Z.of_nat (Z.to_nat (Z.min (fat_bytes s) (s_dsize s - fat_start s)))).
    { clear - Ha. revert Ha. generalize (Z.to_nat (Z.min (fat_bytes s) (s_dsize s - fat_start s))). generalize (fat_start s). intros o n. revert o.
      induction n as [|m IH]; intros o H; [destruct H|]. cbn [zrange] in H. destruct H as [<-|H]; [lia|]. apply IH in H. lia. }
    apply Sfr; [lia|]. intros E. rewrite Hbkb. rewrite Hftb in E. destruct (Hbk E). right. lia. }
  (* now run the mount *)
  unfold mount. cbv zeta.
  set (boot := dread (s_dev s2) (s_dsize s) 0 512).
  assert (Hboot : boot = rd s2 0 512) by (unfold boot, rd; rewrite Hsz2; reflexivity).
  assert (Hblen : length boot = 512%nat) by (unfold boot; rewrite dread_spec by (try assumption; lia); rewrite map_length, zrange_length; lia).
  replace (length boot <? 512)%nat with false by (rewrite Hblen; reflexivity).
  assert (Hph : parse_hdr boot = hc) by (rewrite Hboot; exact Pb1). rewrite Hph.
  assert (Hverc : Gen.verify_bpb_header hc = Ok tt) by (rewrite Hhc, verify_reserved; exact Hver). rewrite Hverc. cbn [bind].
  assert (Hsig : un_le (slice boot 510 512) = 43605).
  { unfold slice. change (Z.to_nat (512 - 510)) with 2%nat. change (Z.to_nat 510) with 510%nat.
    unfold boot. rewrite dread_spec by (try assumption; lia). replace (Z.to_nat (Z.min 512 (s_dsize s - 0))) with (510 + 2)%nat by lia.
    rewrite zrange_app, map_app, skipn_app, map_length, zrange_length, Nat.sub_diag. rewrite skipn_all2 by (rewrite map_length, zrange_length; lia).
    cbn [app skipn zrange map firstn]. change (0 + Z.of_nat 510) with 510. change (510 + 1) with 511. rewrite Sg1, Sg2. reflexivity. }
  rewrite Hsig. change (negb (43605 =? 43605)) with false. cbv iota.
  assert (Hpgeo : set_bytes_per_cluster (Gen.parse_header_geometry pf_init hc) (BPB_BytsPerSec hc * BPB_SecPerClus hc) = s_p s).
  { rewrite Hhc, geometry_reserved. cbn [BPB_BytsPerSec BPB_SecPerClus set_reserved1]. symmetry. exact Hgeo. }
  rewrite Hpgeo.
  assert (Hfsz : BPB_BytsPerSec hc * _fat_size (s_p s) = fat_bytes s) by (rewrite Hhc; reflexivity).
  assert (Hfst : BPB_RsvdSecCnt hc * BPB_BytsPerSec hc = fat_start s) by (rewrite Hhc; reflexivity).
  rewrite Hfsz, Hfst, Hfatrd.
  replace (negb (lenZ (rd s1 (fat_start s) (fat_bytes s)) =? fat_bytes s)) with false by (rewrite Hlen1, Z.eqb_refl; reflexivity).
  cbv iota. change (fat_type (s_p s)) with (ft s). rewrite Hpf.
  assert (Hhi3 : (if ft s =? 32 then parse32hi (rd s1 (fat_start s) (fat_bytes s)) else []) = s_hi s).
  { destruct (ft s =? 32) eqn:E32; [apply Z.eqb_eq in E32; apply Hphi; exact E32|]. symmetry. apply Hhi. apply Z.eqb_neq. exact E32. }
  rewrite Hhi3.
  assert (Hs3 : mkSt hc (s_p s) true pc (fat_c s) (s_hi s) 0 (s_dev s2) (s_dsize s) [] [] = reset s2 true pc).
  { unfold reset. rewrite Pb2, Hp2, Pb3, Hf1, Hhi2, Hsz2. reflexivity. }
  rewrite Hs3. cbn [bind].
  rewrite read_dir_reset. change (root_loc (reset s2 true pc)) with (root_loc s2). rewrite Hroot. cbn [bind].
  (* not dirty *)
  f_equal. f_equal. unfold is_dirty. change (ft (reset s2 true pc)) with (ft s2). change (s_fat (reset s2 true pc)) with (s_fat s2). change (s_h (reset s2 true pc)) with (s_h s2).
  assert (Hft2 : ft s2 = ft s) by (unfold ft; rewrite Hp2; reflexivity). rewrite Hft2, Pb3, Hf1, Pb2, Hhc. cbn [BS_Reserved1 set_reserved1].
  change Gen.FAT_DIRTY_BIT_MASK with 1. rewrite Hbit0. change (0 =? 1) with false. rewrite orb_false_r.
  unfold fat_c. destruct (shutdown_mask (ft s)) as [m|] eqn:Em; [|reflexivity].
  destruct (Hbits m eq_refl) as [Hb1 Hb2]. rewrite nthZ_updZ_same by lia. rewrite Hb1, Z.eqb_refl. reflexivity.
Qed.
