(** Extraction of the executable model.  [ExtrOcamlBasic] only (bool, option, unit, list, prod,
    sumbool, sumor mapped to OCaml's; andb/orb inlined); numbers stay Coq datatypes. No Extract Constant. *)
Require Extraction ExtrOcamlBasic.
From Coq Require Import ZArith List FMapPositive.
From PyFatV Require Import Base.Bytes Base.PyEnv Gen.Pure Model.Codec Model.Dir Model.FS.
Extraction Language OCaml.
Extraction "Extracted.ml"
  Gen.serialize_date Gen.serialize_time Gen.deserialize_date Gen.deserialize_time Gen.checksum
  Gen.get_cluster Gen.set_cluster Gen.is_lfn_entry Gen.determine_fat_type Gen.get_data_cluster_address
  Gen.calc_num_clusters Gen.verify_bpb_header Gen.parse_header_geometry Gen.mkfs_geometry Gen.mkfs_fat0 Gen.mkfs_fat1
  Gen.seek_cursor Gen.get_total_sectors
  parse_fat pack_fat parse32hi spec_fat_entry parse_hdr ser_hdr parse_layout ser_layout
  Gen.BPB12_LAYOUT Gen.BPB32_LAYOUT Gen.FSINFO_LAYOUT sfn_pack sfn_unpack sfn_display
  make_lfn lfn_units ser_lfnslot scan_slots ser_dir make_8dot3 shown_name
  pf_init mkName
  dput dget PositiveMap.empty PositiveMap.elements
  mount op_close op_exists op_getinfo op_getsize op_listdir op_create op_makedir op_remove op_removedir
  op_removetree op_setinfo op_openbin h_read h_write h_seek h_truncate h_close find_in_dir
  s_log s_dev s_fat s_hint s_p s_h upd_dev count_of_clusters max_cluster.
